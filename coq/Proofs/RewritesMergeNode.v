(* C16, part 5c: the node-fusion branch of merge_edges ([G_node] of Proofs/RewritesMergeInv.v) preserves
   well-formedness and the denotation, and removes exactly one edge and one node. *)
From Coq Require Import ZArith List Lia Bool Permutation Ring.
From PT Require Import Base.Scalar Base.BigSum Model.OpGraph Model.Rewrites
  Proofs.RewritesBase Proofs.RewritesIso Proofs.RewritesRename Proofs.RewritesLevels
  Proofs.RewritesFEMerge Proofs.RewritesMergeInv.
Import ListNotations.
Open Scope Z_scope.

(* ---------- list lemmas ---------- *)
Lemma NoDup_map_filter {A} (key : A -> Z) (p : A -> bool) (l : list A) :
  NoDup (map key l) -> NoDup (map key (filter p l)).
Proof.
  induction l as [|a l IH]; simpl; intros H; [constructor|]. inversion H as [|? ? Hn Hd]; subst.
  destruct (p a); simpl; [|apply IH; exact Hd]. constructor; [|apply IH; exact Hd].
  intros Hin. apply Hn. apply in_map_iff in Hin. destruct Hin as [x [Hx Hin]]. apply filter_In in Hin.
  rewrite <- Hx. apply in_map. tauto.
Qed.
Lemma NoDup_app_intro {A} (l1 l2 : list A) :
  NoDup l1 -> NoDup l2 -> (forall x, In x l1 -> In x l2 -> False) -> NoDup (l1 ++ l2).
Proof.
  induction l1 as [|a l1 IH]; simpl; intros H1 H2 H; [exact H2|]. inversion H1; subst.
  constructor.
  - intros Hin. apply in_app_or in Hin. destruct Hin as [Hin|Hin]; [contradiction|]. apply (H a); auto.
  - apply IH; auto. intros x Hx. apply H. auto.
Qed.
Lemma perm_filter_key {A} (key : A -> Z) (l : list A) (x : A) : NoDup (map key l) -> In x l ->
  Permutation l (x :: filter (fun y => negb (key y =? key x)) l).
Proof.
  intros Hnd Hin. destruct (split_unique key l x Hnd Hin) as [l1 [l2 [Hl Hother]]]. subst l.
  rewrite filter_app. simpl. rewrite Z.eqb_refl. simpl.
  rewrite !filter_all.
  - apply Permutation_sym, Permutation_middle.
  - intros y Hy. apply negb_true_iff, Z.eqb_neq. apply Hother. auto.
  - intros y Hy. apply negb_true_iff, Z.eqb_neq. apply Hother. auto.
Qed.
Lemma filter_map_comm {A} (f : A -> A) (p : A -> bool) (l : list A) :
  (forall x, p (f x) = p x) -> filter p (map f l) = map f (filter p l).
Proof.
  intros H. induction l as [|a l IH]; simpl; [reflexivity|]. rewrite H. destruct (p a); simpl; rewrite IH; reflexivity.
Qed.
Lemma both_dirs (P : nat -> Prop) (d : nat) : (d <= 1)%nat -> P d -> P (1 - d)%nat -> P 0%nat /\ P 1%nat.
Proof. intros Hd. destruct d as [|[|d]]; [| |lia]; cbn [Nat.sub]; tauto. Qed.

(* ---------- the node setters ---------- *)
Lemma rm_id x k n : n_id (node_remove_eid x k n) = n_id n.
Proof. destruct k; reflexivity. Qed.
Lemma rm_same x k n : node_eids (node_remove_eid x k n) k = remove_first x (node_eids n k).
Proof. destruct k; reflexivity. Qed.
Lemma rm_other x k n : (k <= 1)%nat -> node_eids (node_remove_eid x (1 - k) n) k = node_eids n k.
Proof. intros H. destruct k as [|[|k]]; [| |lia]; reflexivity. Qed.
Lemma ap_id k l n : n_id (node_append_eids k l n) = n_id n.
Proof. destruct k; reflexivity. Qed.
Lemma ap_same k l n : node_eids (node_append_eids k l n) k = node_eids n k ++ l.
Proof. destruct k; reflexivity. Qed.
Lemma ap_other k l n : (k <= 1)%nat -> node_eids (node_append_eids (1 - k) l n) k = node_eids n k.
Proof. intros H. destruct k as [|[|k]]; [| |lia]; reflexivity. Qed.

Section MergeNode.
  Variable R : cring.
  Add Ring Rring_rwmnode : (k_rt R).
  Notation graph := (graph R).
  Notation gedge := (gedge R).

  (* ---------- direction-generic helpers (proved by case analysis on d) ---------- *)
  (* the d-lists of the nodes against the other ends of the edges: RefOK in direction 1 - d *)
  Definition RefO (g : graph) (d : nat) : Prop :=
    (forall n, In n (g_nodes g) -> NoDup (node_eids n d)) /\
    (forall n eid, In n (g_nodes g) -> In eid (node_eids n d) ->
        exists e, In e (g_edges g) /\ e_id e = eid /\ end_o R d e = n_id n) /\
    (forall e, In e (g_edges g) ->
        exists n, In n (g_nodes g) /\ n_id n = end_o R d e /\ In (e_id e) (node_eids n d)).
  Lemma RefO_iff (g : graph) d : (d <= 1)%nat -> (RefO g d <-> RefOK R g (1 - d)).
  Proof. intros Hd. destruct d as [|[|d]]; [| |lia]; split; intros H; exact H. Qed.

  Lemma TermOK_gen (g : graph) k : WF R g -> (k <= 1)%nat -> TermOK R g k.
  Proof. intros W Hk. destruct k as [|[|k]]; [apply W|apply W|lia]. Qed.
  Lemma NoDangle_gen (g : graph) k : WF R g -> (k <= 1)%nat -> NoDangle R g k.
  Proof. intros W Hk. destruct k as [|[|k]]; [apply W|apply W|lia]. Qed.

  Lemma lv_sibling d (e1 e2 : gedge) (lv : Z -> Z) : (d <= 1)%nat ->
    lv (e_to e1) = lv (e_from e1) + 1 -> lv (e_to e2) = lv (e_from e2) + 1 ->
    end_d R d e1 = end_d R d e2 -> lv (end_o R d e1) = lv (end_o R d e2).
  Proof.
    intros Hd L1 L2 E. destruct d as [|[|d]]; [| |lia]; cbn [end_d end_o] in *; rewrite E in L1; lia.
  Qed.

  Lemma redir_id d m1 m2 (e : gedge) : e_id (redir R d m1 m2 e) = e_id e.
  Proof. apply (redirect_id R). Qed.
  Lemma redir_opics d m1 m2 (e : gedge) : e_opics (redir R d m1 m2 e) = e_opics e.
  Proof. apply (redirect_opics R). Qed.
  Lemma redir_end_o d m1 m2 (e : gedge) : end_o R d (redir R d m1 m2 e) = end_o R d e.
  Proof. apply (redirect_end_o R). Qed.
  Lemma redir_end_d d m1 m2 (e : gedge) :
    end_d R d (redir R d m1 m2 e) = if end_d R d e =? m2 then m1 else end_d R d e.
  Proof. apply (redirect_end_d R). Qed.
  Lemma redir_lv d m1 m2 (e : gedge) (lv : Z -> Z) : lv m1 = lv m2 ->
    lv (e_to e) = lv (e_from e) + 1 ->
    lv (e_to (redir R d m1 m2 e)) = lv (e_from (redir R d m1 m2 e)) + 1.
  Proof.
    intros Hm H. unfold redir. destruct (end_d R d e =? m2) eqn:E; [|exact H]. apply Z.eqb_eq in E.
    destruct d as [|d]; cbn [end_d edge_set_nid e_to e_from] in *.
    - rewrite Hm, <- E. exact H.
    - rewrite Hm, <- E. exact H.
  Qed.

  Lemma den_via_FE (g g' : graph) d : (d <= 1)%nat -> WF R g -> WF R g' ->
    g_t0 g' = g_t0 g -> g_t1 g' = g_t1 g ->
    (forall w, FE R (g_edges g') (terminal g (1 - d)) d w (terminal g d) =
               FE R (g_edges g) (terminal g (1 - d)) d w (terminal g d)) ->
    forall w, den g' w = den g w.
  Proof.
    intros Hd W W' T0 T1 H w. rewrite (den_FE R g' w W'), (den_FE R g w W), T0, T1.
    destruct d as [|[|d]]; [| |lia].
    - apply (H w).
    - rewrite !(FE_dir R). specialize (H (rev w)). cbn [terminal Nat.sub] in H. exact H.
  Qed.

  (* ---------- the merge ---------- *)
  Section Ctx.
    Variables (g : graph) (b : Z) (d : nat) (e1 e2 : gedge) (n1 n2 : gnode).
    Hypothesis W : WF R g.
    Hypothesis Hd : (d <= 1)%nat.
    Hypothesis He1 : In e1 (g_edges g).
    Hypothesis He2 : In e2 (g_edges g).
    Hypothesis Hb : e_id e2 = b.
    Hypothesis Ha : e_id e1 <> b.
    Hypothesis Hbase : end_d R d e1 = end_d R d e2.
    Hypothesis Hup : end_o R d e1 <> end_o R d e2.
    Hypothesis Hop : e_opics e1 = e_opics e2.
    Hypothesis Hn1 : In n1 (g_nodes g).
    Hypothesis Hn2 : In n2 (g_nodes g).
    Hypothesis Hid1 : n_id n1 = end_o R d e1.
    Hypothesis Hid2 : n_id n2 = end_o R d e2.
    Hypothesis S1 : node_eids n1 d = [e_id e1].
    Hypothesis S2 : node_eids n2 d = [b].

    Local Notation M1 := (end_o R d e1).
    Local Notation M2 := (end_o R d e2).
    Local Notation BASE := (end_d R d e2).
    Local Notation L2 := (node_eids n2 (1 - d)).
    Local Notation E0 := (filter (fun e : gedge => negb (e_id e =? b)) (g_edges g)).
    Local Notation g' := (G_node R g b d e2 M1 M2 L2).

    Lemma mn_Hd1 : (1 - d <= 1)%nat.
    Proof. lia. Qed.
    Lemma mn_BM1 : BASE <> M1.
    Proof. rewrite <- Hbase. apply (ends_ne_d R g e1 d W He1). Qed.
    Lemma mn_BM2 : BASE <> M2.
    Proof. apply (ends_ne_d R g e2 d W He2). Qed.
    Lemma mn_F1 e : In e (g_edges g) -> end_o R d e = M1 -> e = e1.
    Proof.
      intros He E. apply (key_inj (@e_id R) (g_edges g)); [apply W|exact He|exact He1|].
      assert (H : In (e_id e) (node_eids n1 d)) by (apply (in_list_o R g n1 e d W Hd Hn1 He); congruence).
      rewrite S1 in H. destruct H as [H|[]]. auto.
    Qed.
    Lemma mn_F2 e : In e (g_edges g) -> end_o R d e = M2 -> e = e2.
    Proof.
      intros He E. apply (key_inj (@e_id R) (g_edges g)); [apply W|exact He|exact He2|].
      assert (H : In (e_id e) (node_eids n2 d)) by (apply (in_list_o R g n2 e d W Hd Hn2 He); congruence).
      rewrite S2 in H. destruct H as [H|[]]. congruence.
    Qed.
    Lemma mn_id_b e : In e (g_edges g) -> e_id e = b -> e = e2.
    Proof. intros He E. apply (key_inj (@e_id R) (g_edges g)); [apply W|exact He|exact He2|congruence]. Qed.
    Lemma mn_not_b_end e : In e (g_edges g) -> end_d R d e <> BASE -> e_id e <> b.
    Proof. intros He Hne E. apply Hne. rewrite (mn_id_b e He E). reflexivity. Qed.
    Lemma mn_node_id n m : In n (g_nodes g) -> In m (g_nodes g) -> n_id n = n_id m -> n = m.
    Proof. intros Hn Hm E. apply (key_inj n_id (g_nodes g)); [apply W|exact Hn|exact Hm|exact E]. Qed.

    Lemma mn_term_o : M2 <> terminal g (1 - d) /\ M1 <> terminal g (1 - d).
    Proof. exact (merge_up_not_terminal R g d e1 e2 W Hd He1 He2 Hbase Hup). Qed.
    Lemma mn_M1_term_d : M1 <> terminal g d.
    Proof.
      intros E. destruct (TermOK_gen g d W Hd) as [n [Hn [Hid Hl]]].
      assert (n = n1) by (apply mn_node_id; auto; congruence). subst n. rewrite S1 in Hl. discriminate.
    Qed.
    Lemma mn_M2_term_d : M2 <> terminal g d.
    Proof.
      intros E. destruct (TermOK_gen g d W Hd) as [n [Hn [Hid Hl]]].
      assert (n = n2) by (apply mn_node_id; auto; congruence). subst n. rewrite S2 in Hl. discriminate.
    Qed.

    (* the node transformer *)
    Definition mn_T (n : gnode) : gnode := V3 d M1 L2 (V1 d BASE b n).
    Lemma mn_V1_id n : n_id (V1 d BASE b n) = n_id n.
    Proof. unfold V1. destruct (n_id n =? BASE); [apply rm_id|reflexivity]. Qed.
    Lemma mn_T_id n : n_id (mn_T n) = n_id n.
    Proof.
      unfold mn_T, V3. rewrite mn_V1_id. destruct (n_id n =? M1); [rewrite ap_id|]; apply mn_V1_id.
    Qed.
    Lemma mn_T_d n : node_eids (mn_T n) d = node_eids n d.
    Proof.
      assert (E : node_eids (V1 d BASE b n) d = node_eids n d).
      { unfold V1. destruct (n_id n =? BASE); [apply rm_other; exact Hd|reflexivity]. }
      unfold mn_T, V3. rewrite mn_V1_id. destruct (n_id n =? M1); [rewrite ap_other by exact Hd|]; exact E.
    Qed.
    Lemma mn_T_o n : node_eids (mn_T n) (1 - d) =
      if n_id n =? M1 then node_eids n (1 - d) ++ L2
      else if n_id n =? BASE then remove_first b (node_eids n (1 - d)) else node_eids n (1 - d).
    Proof.
      unfold mn_T, V3. rewrite mn_V1_id. destruct (n_id n =? M1) eqn:E1.
      - rewrite ap_same. unfold V1. destruct (n_id n =? BASE) eqn:E2; [|reflexivity].
        apply Z.eqb_eq in E1. apply Z.eqb_eq in E2. exfalso. apply mn_BM1. congruence.
      - unfold V1. destruct (n_id n =? BASE); [apply rm_same|reflexivity].
    Qed.

    Lemma mn_nodes' : g_nodes g' = map mn_T (filter (fun n => negb (n_id n =? M2)) (g_nodes g)).
    Proof.
      unfold G_node. cbn [g_nodes].
      rewrite (filter_map_comm (V1 d BASE b) (fun n => negb (n_id n =? M2))).
      - rewrite map_map. reflexivity.
      - intros x. rewrite mn_V1_id. reflexivity.
    Qed.
    Lemma mn_In_nodes' n' : In n' (g_nodes g') <-> exists n, In n (g_nodes g) /\ n_id n <> M2 /\ n' = mn_T n.
    Proof.
      rewrite mn_nodes', in_map_iff. split.
      - intros [n [E Hin]]. apply filter_In in Hin. destruct Hin as [Hin Hne].
        apply negb_true_iff, Z.eqb_neq in Hne. exists n. auto.
      - intros [n [Hin [Hne E]]]. exists n. split; [auto|]. apply filter_In. split; [exact Hin|].
        apply negb_true_iff, Z.eqb_neq. exact Hne.
    Qed.
    Lemma mn_edges' : g_edges g' = map (redir R d M1 M2) E0.
    Proof. reflexivity. Qed.
    Lemma mn_In_edges' e' :
      In e' (g_edges g') <-> exists e, In e (g_edges g) /\ e_id e <> b /\ e' = redir R d M1 M2 e.
    Proof.
      rewrite mn_edges', in_map_iff. split.
      - intros [e [E Hin]]. apply filter_In in Hin. destruct Hin as [Hin Hne].
        apply negb_true_iff, Z.eqb_neq in Hne. exists e. auto.
      - intros [e [Hin [Hne E]]]. exists e. split; [auto|]. apply filter_In. split; [exact Hin|].
        apply negb_true_iff, Z.eqb_neq. exact Hne.
    Qed.
    Lemma mn_term' k : terminal g' k = terminal g k.
    Proof. destruct k; reflexivity. Qed.

    (* ---------- the (1-d)-lists of g' against the d-ends ---------- *)
    Lemma mn_list_char n e : In n (g_nodes g) -> n_id n <> M2 -> In e (g_edges g) -> e_id e <> b ->
      (In (e_id e) (node_eids (mn_T n) (1 - d)) <-> end_d R d (redir R d M1 M2 e) = n_id n).
    Proof.
      intros Hn Hne He Hb'. rewrite mn_T_o, redir_end_d.
      pose proof (in_list_iff R g n e d W Hd Hn He) as I.
      pose proof (in_list_iff R g n2 e d W Hd Hn2 He) as I2. rewrite Hid2 in I2.
      destruct (wf_ref R g d W Hd) as [A _].
      destruct (n_id n =? M1) eqn:E1.
      - apply Z.eqb_eq in E1. rewrite in_app_iff, I, I2. destruct (end_d R d e =? M2) eqn:E2.
        + apply Z.eqb_eq in E2. split; [intros _; congruence|intros _; right; exact E2].
        + apply Z.eqb_neq in E2. split; [intros [H|H]; [exact H|contradiction]|intros H; left; exact H].
      - apply Z.eqb_neq in E1. destruct (n_id n =? BASE) eqn:E3.
        + apply Z.eqb_eq in E3. rewrite (remove_first_In_iff b (e_id e) _ (A n Hn)), I.
          destruct (end_d R d e =? M2) eqn:E2.
          * apply Z.eqb_eq in E2. split.
            -- intros [H _]. exfalso. apply mn_BM2. congruence.
            -- intros H. exfalso. apply E1. congruence.
          * split; [tauto|intros H; split; [exact H|exact Hb']].
        + rewrite I. destruct (end_d R d e =? M2) eqn:E2.
          * apply Z.eqb_eq in E2. split; intros H; exfalso; [apply Hne; congruence|apply E1; congruence].
          * tauto.
    Qed.
    Lemma mn_list_src n x : In n (g_nodes g) -> n_id n <> M2 -> In x (node_eids (mn_T n) (1 - d)) ->
      exists e, In e (g_edges g) /\ e_id e = x /\ e_id e <> b.
    Proof.
      destruct (wf_ref R g d W Hd) as [A [B C]].
      intros Hn Hne. rewrite mn_T_o. destruct (n_id n =? M1) eqn:E1.
      - apply Z.eqb_eq in E1. intros Hin. apply in_app_or in Hin. destruct Hin as [Hin|Hin].
        + destruct (B n x Hn Hin) as [e [He [Hid Hend]]]. exists e. split; [exact He|]. split; [exact Hid|].
          apply mn_not_b_end; [exact He|]. rewrite Hend, E1. intros E. apply mn_BM1. auto.
        + destruct (B n2 x Hn2 Hin) as [e [He [Hid Hend]]]. exists e. split; [exact He|]. split; [exact Hid|].
          apply mn_not_b_end; [exact He|]. rewrite Hend, Hid2. intros E. apply mn_BM2. auto.
      - destruct (n_id n =? BASE) eqn:E3.
        + intros Hin. apply remove_first_In_iff in Hin; [|apply A; exact Hn]. destruct Hin as [Hin Hx].
          destruct (B n x Hn Hin) as [e [He [Hid _]]]. exists e. split; [exact He|]. split; [exact Hid|].
          rewrite Hid. exact Hx.
        + apply Z.eqb_neq in E3. intros Hin.
          destruct (B n x Hn Hin) as [e [He [Hid Hend]]]. exists e. split; [exact He|]. split; [exact Hid|].
          apply mn_not_b_end; [exact He|]. rewrite Hend. exact E3.
    Qed.

    Lemma mn_ref_d : RefOK R g' d.
    Proof.
      destruct (wf_ref R g d W Hd) as [A [B C]].
      split; [|split].
      - intros n' Hn'. apply mn_In_nodes' in Hn'. destruct Hn' as [n [Hn [Hne ->]]]. rewrite mn_T_o.
        destruct (n_id n =? M1) eqn:E1.
        + apply Z.eqb_eq in E1. apply NoDup_app_intro; [apply A; exact Hn|apply A; exact Hn2|].
          intros x Hx1 Hx2.
          destruct (B n x Hn Hx1) as [e [He [Hid Hend]]]. destruct (B n2 x Hn2 Hx2) as [e' [He' [Hid' Hend']]].
          assert (e = e') by (apply (key_inj (@e_id R) (g_edges g)); [apply W|exact He|exact He'|congruence]).
          subst e'. apply Hup. congruence.
        + destruct (n_id n =? BASE); [apply remove_first_NoDup|]; apply A; exact Hn.
      - intros n' eid Hn' Hin. apply mn_In_nodes' in Hn'. destruct Hn' as [n [Hn [Hne ->]]].
        destruct (mn_list_src n eid Hn Hne Hin) as [e [He [Hid Hb']]].
        exists (redir R d M1 M2 e). split; [apply mn_In_edges'; exists e; auto|].
        split; [rewrite redir_id; exact Hid|]. rewrite mn_T_id. apply mn_list_char; auto.
        rewrite Hid. exact Hin.
      - intros e' He'. apply mn_In_edges' in He'. destruct He' as [e [He [Hb' ->]]].
        assert (Hnode : exists n, In n (g_nodes g) /\ n_id n <> M2 /\ n_id n = end_d R d (redir R d M1 M2 e)).
        { rewrite redir_end_d. destruct (end_d R d e =? M2) eqn:E2.
          - exists n1. split; [exact Hn1|]. rewrite Hid1. split; [exact Hup|reflexivity].
          - apply Z.eqb_neq in E2. destruct (C e He) as [n [Hn [Hid _]]]. exists n. split; [exact Hn|].
            split; [congruence|exact Hid]. }
        destruct Hnode as [n [Hn [Hne Hid]]]. exists (mn_T n).
        split; [apply mn_In_nodes'; exists n; auto|]. split; [rewrite mn_T_id; exact Hid|].
        rewrite redir_id. apply mn_list_char; auto.
    Qed.

    (* ---------- the d-lists of g' against the other ends ---------- *)
    Lemma mn_ref_o : RefOK R g' (1 - d).
    Proof.
      apply (RefO_iff g' d Hd).
      destruct (proj2 (RefO_iff g d Hd) (wf_ref R g (1 - d) W mn_Hd1)) as [A [B C]].
      split; [|split].
      - intros n' Hn'. apply mn_In_nodes' in Hn'. destruct Hn' as [n [Hn [Hne ->]]]. rewrite mn_T_d.
        apply A. exact Hn.
      - intros n' eid Hn' Hin. apply mn_In_nodes' in Hn'. destruct Hn' as [n [Hn [Hne ->]]].
        rewrite mn_T_d in Hin. destruct (B n eid Hn Hin) as [e [He [Hid Hend]]].
        exists (redir R d M1 M2 e). split.
        + apply mn_In_edges'. exists e. split; [exact He|]. split; [|reflexivity].
          intros E. apply Hne. rewrite <- Hend, (mn_id_b e He E). reflexivity.
        + split; [rewrite redir_id; exact Hid|]. rewrite redir_end_o, mn_T_id. exact Hend.
      - intros e' He'. apply mn_In_edges' in He'. destruct He' as [e [He [Hb' ->]]].
        destruct (C e He) as [n [Hn [Hid Hin]]].
        assert (Hne : n_id n <> M2).
        { intros E. apply Hb'. rewrite (mn_F2 e He) by congruence. exact Hb. }
        exists (mn_T n). split; [apply mn_In_nodes'; exists n; auto|].
        rewrite mn_T_id, redir_end_o, redir_id, mn_T_d. auto.
    Qed.

    (* ---------- terminals, dangling nodes, levels ---------- *)
    Lemma mn_term_d : TermOK R g' d.
    Proof.
      destruct (TermOK_gen g d W Hd) as [n [Hn [Hid Hl]]]. exists (mn_T n). split.
      - apply mn_In_nodes'. exists n. split; [exact Hn|]. split; [|reflexivity].
        rewrite Hid. intros E. apply mn_M2_term_d. auto.
      - split; [rewrite mn_T_id, mn_term'; exact Hid|rewrite mn_T_d; exact Hl].
    Qed.
    Lemma mn_term_o' : TermOK R g' (1 - d).
    Proof.
      destruct (TermOK_gen g (1 - d) W mn_Hd1) as [n [Hn [Hid Hl]]]. destruct mn_term_o as [T2 T1].
      exists (mn_T n). split.
      - apply mn_In_nodes'. exists n. split; [exact Hn|]. split; [|reflexivity].
        rewrite Hid. intros E. apply T2. auto.
      - split; [rewrite mn_T_id, mn_term'; exact Hid|]. rewrite mn_T_o.
        destruct (n_id n =? M1) eqn:E1.
        + apply Z.eqb_eq in E1. exfalso. apply T1. congruence.
        + destruct (n_id n =? BASE) eqn:E3; [|exact Hl]. apply Z.eqb_eq in E3. exfalso.
          assert (H : In (e_id e1) (node_eids n (1 - d))).
          { apply (in_list_iff R g n e1 d W Hd Hn He1). congruence. }
          rewrite Hl in H. destruct H.
    Qed.
    Lemma mn_nd_d : NoDangle R g' d.
    Proof.
      intros n' Hn'. apply mn_In_nodes' in Hn'. destruct Hn' as [n [Hn [Hne ->]]].
      rewrite mn_T_id, mn_term', mn_T_d. apply (NoDangle_gen g d W Hd). exact Hn.
    Qed.
    Lemma mn_nd_o : NoDangle R g' (1 - d).
    Proof.
      intros n' Hn'. apply mn_In_nodes' in Hn'. destruct Hn' as [n [Hn [Hne ->]]].
      rewrite mn_T_id, mn_term', mn_T_o. intros Ht.
      pose proof (NoDangle_gen g (1 - d) W mn_Hd1 n Hn Ht) as H.
      destruct (n_id n =? M1).
      - intros E. apply app_eq_nil in E. destruct E. contradiction.
      - destruct (n_id n =? BASE) eqn:E3; [|exact H]. apply Z.eqb_eq in E3.
        destruct (wf_ref R g d W Hd) as [A _].
        assert (Hin : In (e_id e1) (remove_first b (node_eids n (1 - d)))).
        { apply remove_first_In_iff; [apply A; exact Hn|]. split; [|exact Ha].
          apply (in_list_iff R g n e1 d W Hd Hn He1). congruence. }
        intros E. rewrite E in Hin. destruct Hin.
    Qed.
    Lemma mn_layered : Layered R g'.
    Proof.
      destruct (wf_layered R g W) as [lv Hlv]. exists lv.
      intros e' He'. apply mn_In_edges' in He'. destruct He' as [e [He [Hb' ->]]].
      apply redir_lv; [|apply Hlv; exact He].
      apply lv_sibling; [exact Hd|apply Hlv; exact He1|apply Hlv; exact He2|exact Hbase].
    Qed.

    Lemma mn_WF : WF R g'.
    Proof.
      destruct (both_dirs (RefOK R g') d Hd mn_ref_d mn_ref_o) as [R0 R1].
      destruct (both_dirs (TermOK R g') d Hd mn_term_d mn_term_o') as [T0 T1].
      destruct (both_dirs (NoDangle R g') d Hd mn_nd_d mn_nd_o) as [D0 D1].
      constructor; auto.
      - unfold nids. rewrite mn_nodes', map_map.
        rewrite (map_ext (fun x => n_id (mn_T x)) n_id) by (intros x; apply mn_T_id).
        apply NoDup_map_filter. apply W.
      - unfold eids. rewrite mn_edges', map_map.
        rewrite (map_ext (fun x => e_id (redir R d M1 M2 x)) (@e_id R)) by (intros x; apply redir_id).
        apply NoDup_map_filter. apply W.
      - intros e' He'. apply mn_In_edges' in He'. destruct He' as [e [He [Hb' ->]]].
        rewrite redir_opics. apply W. exact He.
      - exact mn_layered.
    Qed.

    (* ---------- denotation and counts ---------- *)
    Lemma mn_perm_edges : Permutation (g_edges g) (e2 :: E0).
    Proof. rewrite <- Hb. apply (perm_filter_key (@e_id R)); [apply W|exact He2]. Qed.
    Lemma mn_perm_nodes : Permutation (g_nodes g) (n2 :: filter (fun n => negb (n_id n =? M2)) (g_nodes g)).
    Proof. rewrite <- Hid2. apply (perm_filter_key n_id); [apply W|exact Hn2]. Qed.

    Lemma mn_FE w : FE R (g_edges g') (terminal g (1 - d)) d w (terminal g d) =
                    FE R (g_edges g) (terminal g (1 - d)) d w (terminal g d).
    Proof.
      rewrite (FE_perm R _ _ _ _ _ _ mn_perm_edges).
      change (g_edges g') with (map (redirect R d M1 M2) E0).
      destruct mn_term_o as [T2 T1].
      assert (HND : NoDup (map (@e_id R) (e2 :: E0))).
      { apply (Permutation_NoDup (Permutation_map (@e_id R) mn_perm_edges)). apply W. }
      assert (Hin1 : In e1 E0).
      { apply filter_In. split; [exact He1|]. apply negb_true_iff, Z.eqb_neq. exact Ha. }
      assert (HF1 : forall e, In e E0 -> end_o R d e = M1 -> e = e1).
      { intros e He. apply filter_In in He. destruct He as [He _]. apply mn_F1. exact He. }
      assert (HF2 : forall e, In e E0 -> end_o R d e <> M2).
      { intros e He E. apply filter_In in He. destruct He as [He Hne].
        apply negb_true_iff, Z.eqb_neq in Hne. apply Hne. rewrite (mn_F2 e He E). exact Hb. }
      assert (Ht : terminal g (1 - d) <> M2) by (intros E; apply T2; auto).
      assert (Hn : terminal g d <> M2) by (intros E; apply mn_M2_term_d; auto).
      rewrite (FE_merge_node R E0 e1 e2 (terminal g (1 - d)) d M1 M2 Hd HND Hin1 Hbase eq_refl eq_refl Hup Hop
                 HF1 HF2 mn_BM1 mn_BM2 Ht w (terminal g d) Hn).
      assert (E : terminal g d =? M1 = false).
      { apply Z.eqb_neq. intros E. apply mn_M1_term_d. auto. }
      rewrite E. ring.
    Qed.

    Lemma mn_main :
      WF R g' /\ (forall w, den g' w = den g w) /\
      S (length (g_edges g')) = length (g_edges g) /\ S (length (g_nodes g')) = length (g_nodes g).
    Proof.
      split; [exact mn_WF|]. split; [|split].
      - apply (den_via_FE g g' d Hd W mn_WF); [reflexivity|reflexivity|exact mn_FE].
      - rewrite mn_edges', map_length, (Permutation_length mn_perm_edges). reflexivity.
      - rewrite mn_nodes', map_length, (Permutation_length mn_perm_nodes). reflexivity.
    Qed.
  End Ctx.

  Lemma merge_node_spec (g : graph) (b : Z) (d : nat) (e1 e2 : gedge) (n1 n2 : gnode) :
    WF R g -> (d <= 1)%nat ->
    In e1 (g_edges g) -> In e2 (g_edges g) -> e_id e2 = b -> e_id e1 <> b ->
    end_d R d e1 = end_d R d e2 -> end_o R d e1 <> end_o R d e2 -> e_opics e1 = e_opics e2 ->
    In n1 (g_nodes g) -> In n2 (g_nodes g) -> n_id n1 = end_o R d e1 -> n_id n2 = end_o R d e2 ->
    node_eids n1 d = [e_id e1] -> node_eids n2 d = [b] ->
    let g' := G_node R g b d e2 (end_o R d e1) (end_o R d e2) (node_eids n2 (1 - d)) in
    WF R g' /\ (forall w, den g' w = den g w) /\
    S (length (g_edges g')) = length (g_edges g) /\ S (length (g_nodes g')) = length (g_nodes g).
  Proof.
    intros W Hd He1 He2 Hb Ha Hbase Hup Hop Hn1 Hn2 Hid1 Hid2 S1 S2 g'.
    exact (mn_main g b d e1 e2 n1 n2 W Hd He1 He2 Hb Ha Hbase Hup Hop Hn1 Hn2 Hid1 Hid2 S1 S2).
  Qed.
End MergeNode.

Print Assumptions merge_node_spec.
