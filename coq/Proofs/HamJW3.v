(* C06, Jordan-Wigner link -- part 3: the letter substitution [fh_expand] preserves the operator.
   [fh_entry]: every entry of every 4x4 site operator of fermi_hubbard_mpo is the corresponding combination of products of
   entries of the 2x2 mode matrices (the table [fh_etab]; generic ring, the only assumption is half + half = 1, needed for
   NI = diag(1/4, -1/4, -1/4, 1/4) = (N - 1/2)(x)(N - 1/2)); 176 entries, each a ring identity.
   [fh_expand_sem]: for every coefficient function f on site words,
       sum_{site words} f(word) <s|word|t>  =  sum_{mode words} fh_expand f (v) <bits s|v|bits t>
   (multilinearity of the Kronecker product, by induction on the number of sites). *)
From Coq Require Import ZArith List Lia Bool Arith Ring.
From PT Require Import Base.Scalar Base.BigSum Base.Mx Model.OpGraph Model.FromOpchains Model.GraphMPO Model.Molecular Model.MolFormula
                       Model.Hamiltonians Model.HamFormulas Proofs.PampDen_C05 Proofs.HamJWDefs Proofs.HamJW1 Proofs.HamJW2.
Import ListNotations.
Local Open Scope nat_scope.

Section JW3.
  Variable R : cring.
  Add Ring Rring_jw3 : (k_rt R).
  Notation "0r" := (k0 R). Notation "1r" := (k1 R).
  Infix "+r" := (kadd R) (at level 50, left associativity).
  Infix "*r" := (kmul R) (at level 40, left associativity).
  Variable half : R.
  Hypothesis Hhalf : half +r half = 1r.
  Notation E := (fh_expand half). Notation e := (fh_e half).
  Notation om := (opmap_of (fermi_opmap half)).

  Lemma half_sq : half *r half +r half *r half = half.
  Proof. transitivity (half *r (half +r half)); [ring|rewrite Hhalf; ring]. Qed.

  (* a ring identity, possibly modulo 1 = half + half (entries of NI) *)
  Ltac fin :=
    first [ ring
          | match goal with |- ?a = ?b => transitivity (a +r (1r +r kopp R (half +r half))); [rewrite Hhalf; ring | ring] end
          | match goal with |- ?a = ?b => transitivity (b +r half *r (1r +r kopp R (half +r half))); [ring | rewrite Hhalf; ring] end ].
  Lemma fh_entry o s t : In o fh_alpha -> s < 4 -> t < 4 ->
    get (om o) s t =
    suml all_ops (fun x => suml all_ops (fun y =>
      e o x y *r (get (opR x) (Nat.div s 2) (Nat.div t 2) *r get (opR y) (Nat.modulo s 2) (Nat.modulo t 2)))).
  Proof.
    intros Ho Hs Ht. cbn in Ho.
    repeat (destruct Ho as [<-|Ho]; [
      do 4 (destruct s as [|s]; [do 4 (destruct t as [|t]; [cbv -[kadd kmul kopp ksub k0 k1 K]; fin|]); exfalso; lia|]);
      exfalso; lia|]).
    contradiction.
  Qed.

  Theorem fh_expand_sem : forall (s t : list nat) (f : list Z -> R), length s = length t ->
    Forall (fun x => x < 4) s -> Forall (fun x => x < 4) t ->
    suml (zwords fh_alpha (length s)) (fun word => f word *r wprod om word s t) =
    suml (opwords (2 * length s)) (fun v => E f v *r mprod v (bits s) (bits t)).
  Proof.
    induction s as [|s0 s IH]; intros [|t0 t] f Hl Fs Ft; try discriminate Hl.
    - cbn. ring.
    - inversion Fs as [|? ? Hs0 Fs']; subst. inversion Ft as [|? ? Ht0 Ft']; subst.
      cbn [length]. rewrite two_S. cbn [zwords opwords].
      rewrite !suml_flat_map'.
      transitivity (suml fh_alpha (fun o => get (om o) s0 t0 *r
                      suml (opwords (2 * length s)) (fun v' => E (fun w => f (o :: w)) v' *r mprod v' (bits s) (bits t)))).
      + apply suml_ext. intros o _. rewrite suml_map.
        rewrite <- (IH t (fun w => f (o :: w))) by (try assumption; inversion Hl; reflexivity).
        rewrite <- suml_scal_l. apply suml_ext. intros w _. cbn [wprod]. ring.
      + (* right-hand side: bring the sum over the site letter outside *)
        symmetry.
        transitivity (suml all_ops (fun x => suml all_ops (fun y => suml (opwords (2 * length s)) (fun v' => suml fh_alpha (fun o =>
                        (e o x y *r (get (opR x) (Nat.div s0 2) (Nat.div t0 2) *r get (opR y) (Nat.modulo s0 2) (Nat.modulo t0 2))) *r
                        (E (fun w => f (o :: w)) v' *r mprod v' (bits s) (bits t))))))).
        { apply suml_ext. intros x _. rewrite suml_map, suml_flat_map'. apply suml_ext. intros y _.
          rewrite !suml_map. apply suml_ext. intros v' _. cbn [fh_expand bits flat_map app mprod].
          rewrite <- suml_scal_r. apply suml_ext. intros o _. unfold bits. ring. }
        transitivity (suml fh_alpha (fun o => suml all_ops (fun x => suml all_ops (fun y => suml (opwords (2 * length s)) (fun v' =>
                        (e o x y *r (get (opR x) (Nat.div s0 2) (Nat.div t0 2) *r get (opR y) (Nat.modulo s0 2) (Nat.modulo t0 2))) *r
                        (E (fun w => f (o :: w)) v' *r mprod v' (bits s) (bits t))))))).
        { rewrite (suml_exch R fh_alpha all_ops). apply suml_ext. intros x _.
          rewrite (suml_exch R fh_alpha all_ops). apply suml_ext. intros y _.
          apply suml_exch. }
        apply suml_ext. intros o Ho. rewrite (fh_entry o s0 t0 Ho Hs0 Ht0).
        rewrite <- suml_scal_r. apply suml_ext. intros x _. rewrite <- suml_scal_r. apply suml_ext. intros y _.
        rewrite suml_scal_l. reflexivity.
  Qed.
End JW3.
