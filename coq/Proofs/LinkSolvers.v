(* Link 3 (C15 -> C08 / C10): the concrete local solvers of pytenet/evolution.py and minimization.py,

     _local_hamiltonian_step(L, R, W, A, dt, numiter) =
        expm_krylov(lambda x: apply_local_hamiltonian(L, R, W, x.reshape(A.shape)).reshape(-1), A.reshape(-1), -dt, numiter, hermitian=True).reshape(A.shape)
     _local_bond_step(L, R, C, dt, numiter)           = the same with apply_local_bond_contraction and C
     _minimize_local_energy(L, R, W, A, numiter)      = (w[0], u_ritz[:, 0].reshape(A.shape)) with eigh_krylov(..., numiter, 1)

   as compositions of the Krylov model (Model/Krylov.v) with the flatten / unflatten bridge (Proofs/LinkFlatten.v), and the
   proofs that they meet the solver contracts of the sweep theorems (Proofs/SweepsRun.v: kexp_ok, kexp0_ok, keig_ok)
   whenever the numerical primitives answer according to their C14 / C15 contracts ON THE CALLS ACTUALLY ISSUED
   (numpy.linalg.norm, the breakdown test, eigh_tridiagonal, numpy.exp), the local operator is self-adjoint w.r.t.
   site_dot (C04_heff_hermitian for a Hermitian MPO) and the start tensor is not zero (otherwise the code raises). *)
From Coq Require Import ZArith List Bool Arith Lia Ring Field.
From PT Require Import Base.Scalar Base.Field Base.BigSum Base.Mx Model.Tensor Model.Operation Model.Krylov Model.Sweeps
  Proofs.OperationEntries Proofs.KrylovVec Proofs.KrylovLanczos Proofs.KrylovMatvec Proofs.KrylovExpm Proofs.KrylovRitz
  Proofs.LinkExpmEnergy Proofs.LinkFlatten Proofs.LinkLocalOps Proofs.SweepsInv Proofs.SweepsRun.
Import ListNotations.

(* ================= generic: any entrywise linear self-adjoint operator on tensors of shape (d, Dl, Dr) ================= *)
Section GenSolver.
  Variable F : ofield.
  Notation K := (Cx F).
  Add Field Ffield_lso : (f_ft F).
  Add Ring Kring_lso : (k_rt (Cx F)).
  Notation vec := (list K).
  Notation site := (site K).
  Variables d Dl Dr : nat.
  Notation n := (d * Dl * Dr)%nat.
  Variable op : site -> site.
  Variable dnorm : vec -> F.
  Variable small : F -> bool.
  Variable deigh : list F -> list F -> list F * list (list F).
  Variable dexp : K -> K.
  Variable dexpm : list (list K) -> list (list K).
  Variable numiter : nat.
  Notation Af := (flat_op F d Dl Dr op).
  Notation sv := (site_vec F d Dl Dr).
  Notation vs := (vec_site F d Dl Dr).

  (* expm_krylov(Af, A.reshape(-1), -t, numiter, hermitian=True).reshape(shape); [] if the call raises *)
  Definition kexp_gen (A : site) (t : K) : site :=
    match expm_krylov F Af dnorm small deigh dexp dexpm (sv A) (kopp K t) numiter true with
    | Some x => vs x
    | None => []
    end.
  (* (w[0], u_ritz[:, 0].reshape(shape)) of eigh_krylov(Af, A.reshape(-1), numiter, 1); (0, []) if the call raises *)
  Definition keig_gen (A : site) : K * site :=
    match eigh_krylov F Af dnorm small deigh (sv A) numiter 1 with
    | Some (ws, us) => (cof (nth 0 ws (f0 F)), vs (nth 0 us []))
    | None => (k0 K, [])
    end.

  (* contracts of the primitives on the calls issued by one local step *)
  Definition kexp_calls_ok (A : site) (t : K) : Prop :=
    Forall (norm_ok F) (lanczos_calls F Af dnorm small (sv A) numiter) /\
    expm_h_energy_oracles_ok F dexp Af dnorm small deigh (sv A) (kopp K t) numiter.
  Definition keig_calls_ok (A : site) : Prop :=
    Forall (norm_ok F) (lanczos_calls F Af dnorm small (sv A) numiter) /\
    eigh_oracle_ok F Af dnorm small deigh (sv A) numiter /\ eigh_oracle_sorted F Af dnorm small deigh (sv A) numiter.

  Hypothesis Hd : (0 < d)%nat.
  Hypothesis Hop : local_op F d Dl Dr op.
  Hypothesis Hsa : local_sa F d Dl Dr op.
  Hypothesis small_pos : small_sound F small.
  Hypothesis Hm : (1 <= numiter)%nat.

  Theorem kexp_gen_ok (A : site) (t : K) : site_ok d Dl Dr A -> site_dot A A <> k0 K -> kexp_calls_ok A t ->
    site_ok d Dl Dr (kexp_gen A t) /\ site_dot (kexp_gen A t) (kexp_gen A t) = site_dot A A /\
    site_dot (kexp_gen A t) (op (kexp_gen A t)) = site_dot A (op A).
  Proof.
    intros HA Hnz [HC HO].
    destruct (expm_hermitian_energy F n dexp Af (flat_op_len F d Dl Dr op) (flat_op_linear F d Dl Dr op Hop) dnorm small deigh dexpm
                (flat_op_self_adjoint F d Dl Dr op Hd Hsa) small_pos (sv A) (kopp K t) numiter (length_site_vec F d Dl Dr A)
                (site_vec_nonzero F d Dl Dr Hd A HA Hnz) Hm HC HO) as (x & Ex & Lx & Nx & Enx).
    unfold kexp_gen. rewrite Ex. split; [apply vec_site_ok|]. split.
    - rewrite (site_dot_via_vec F d Dl Dr Hd (vs x) (vs x)) by apply vec_site_ok. rewrite site_vec_vec_site by exact Lx.
      rewrite vdot_self, Nx, <- vdot_self. symmetry. apply site_dot_via_vec; assumption.
    - rewrite (site_dot_via_vec F d Dl Dr Hd (vs x) (op (vs x))) by apply vec_site_ok. rewrite site_vec_vec_site by exact Lx.
      change (sv (op (vs x))) with (Af x). rewrite Enx. rewrite (flat_op_site_vec F d Dl Dr op Hop A HA).
      symmetry. apply site_dot_via_vec; assumption.
  Qed.

  Theorem keig_gen_ok (A : site) : site_ok d Dl Dr A -> site_dot A A <> k0 K -> keig_calls_ok A ->
    site_ok d Dl Dr (snd (keig_gen A)) /\ site_dot (snd (keig_gen A)) (snd (keig_gen A)) = k1 K /\
    fst (keig_gen A) = site_dot (snd (keig_gen A)) (op (snd (keig_gen A))) /\
    fle F (fmul F (cre (fst (keig_gen A))) (cre (site_dot A A))) (cre (site_dot A (op A))).
  Proof.
    intros HA Hnz (HC & HO & HS).
    pose proof (flat_op_len F d Dl Dr op) as A_len. pose proof (flat_op_linear F d Dl Dr op Hop) as A_lin.
    pose proof (flat_op_self_adjoint F d Dl Dr op Hd Hsa) as A_sa.
    pose proof (site_vec_nonzero F d Dl Dr Hd A HA Hnz) as Hvnz.
    destruct (ritz_vectors F n Af A_len A_lin dnorm small deigh A_sa small_pos (sv A) numiter 1 (length_site_vec F d Dl Dr A) Hvnz Hm HC HO)
      as (ws & us & E1 & HP).
    destruct (ritz_upper_bound F n Af A_len A_lin dnorm small deigh A_sa small_pos (sv A) numiter 1 (length_site_vec F d Dl Dr A) Hvnz Hm
                (le_n 1) HC HO HS) as (ws' & us' & E2 & Hlen & Hub).
    rewrite E1 in E2. injection E2 as <- <-.
    destruct HP as (_ & _ & Hl & Hulen & Hgram & Hray & _).
    assert (H0 : (0 < @length (list (Cx F)) us)%nat) by (rewrite <- Hl; exact Hlen).
    unfold keig_gen. rewrite E1. cbn [fst snd]. set (u := nth 0 us []).
    assert (Lu : length u = n) by (apply Hulen; exact H0).
    split; [apply vec_site_ok|]. split; [|split].
    - rewrite (site_dot_via_vec F d Dl Dr Hd (vs u) (vs u)) by apply vec_site_ok. rewrite site_vec_vec_site by exact Lu.
      transitivity (delta F 0 0); [exact (Hgram 0%nat 0%nat H0 H0)|apply delta_refl].
    - rewrite (site_dot_via_vec F d Dl Dr Hd (vs u) (op (vs u))) by apply vec_site_ok. rewrite site_vec_vec_site by exact Lu.
      change (sv (op (vs u))) with (Af u). symmetry. apply (Hray 0%nat H0).
    - rewrite cre_cof. rewrite (site_dot_via_vec F d Dl Dr Hd A A HA), vdot_self, cre_cof.
      rewrite (site_dot_via_vec F d Dl Dr Hd A (op A) HA). rewrite <- (flat_op_site_vec F d Dl Dr op Hop A HA). exact Hub.
  Qed.
End GenSolver.

(* ================= the concrete solvers ================= *)
Section Concrete.
  Variable F : ofield.
  Notation K := (Cx F).
  Add Ring Kring_lso2 : (k_rt (Cx F)).
  Notation vec := (list K).
  Variable dnorm : vec -> F.
  Variable small : F -> bool.
  Variable deigh : list F -> list F -> list F * list (list F).
  Variable dexp : K -> K.
  Variable dexpm : list (list K) -> list (list K).
  Variable numiter : nat.

  (* _local_hamiltonian_step: the shape is read off the start tensor (A.shape); [pos] (trace position) is ignored *)
  Definition kexp_lanczos (pos : nat) (BL BR : env K) (W : osite K) (A : site K) (t : K) : site K :=
    kexp_gen F (length A) (sdl A) (sdr A) (apply_local_hamiltonian BL BR W) dnorm small deigh dexp dexpm numiter A t.
  (* _local_bond_step: C.reshape(-1) = [C].reshape(-1) for the one-matrix site [C] of shape (1, Dl, Dr) *)
  Definition kexp0_lanczos (pos : nat) (BL BR : env K) (C : mx K) (t : K) : mx K :=
    sel (kexp_gen F 1 (nr C) (nc C) (bond_op F BL BR) dnorm small deigh dexp dexpm numiter [C] t) 0.
  (* _minimize_local_energy *)
  Definition keig_lanczos (pos : nat) (BL BR : env K) (W : osite K) (A : site K) : K * site K :=
    keig_gen F (length A) (sdl A) (sdr A) (apply_local_hamiltonian BL BR W) dnorm small deigh numiter A.

  (* LAPACK-level contracts of one call of each solver (the calls its Lanczos loop and post-processing issue) *)
  Definition kexp_lanczos_calls_ok (BL BR : env K) (W : osite K) (A : site K) (t : K) : Prop :=
    kexp_calls_ok F (length A) (sdl A) (sdr A) (apply_local_hamiltonian BL BR W) dnorm small deigh dexp numiter A t.
  Definition kexp0_lanczos_calls_ok (BL BR : env K) (C : mx K) (t : K) : Prop :=
    kexp_calls_ok F 1 (nr C) (nc C) (bond_op F BL BR) dnorm small deigh dexp numiter [C] t.
  Definition keig_lanczos_calls_ok (BL BR : env K) (W : osite K) (A : site K) : Prop :=
    keig_calls_ok F (length A) (sdl A) (sdr A) (apply_local_hamiltonian BL BR W) dnorm small deigh numiter A.

  Hypothesis small_pos : small_sound F small.
  Hypothesis Hm : (1 <= numiter)%nat.

  Lemma site_ok_unique d Dl Dr Dl' Dr' (A : site K) : (0 < d)%nat -> site_ok d Dl Dr A -> site_ok d Dl' Dr' A -> Dl' = Dl /\ Dr' = Dr.
  Proof.
    intros Hd H1 H2. destruct (site_ok_sdl K d Dl Dr A Hd H1) as (E1 & E2 & _).
    destruct (site_ok_sdl K d Dl' Dr' A Hd H2) as (E3 & E4 & _). split; congruence.
  Qed.

  (* ---- kexp_from_krylov ---- *)
  Theorem kexp_from_krylov d Dl Dr Dwl Dwr pos (BL BR : env K) (W : osite K) (A : site K) (t : K) :
    (0 < d)%nat -> (0 < Dwl)%nat -> (0 < Dwr)%nat ->
    osite_ok d Dwl Dwr W -> env_ok Dwl Dl Dl BL -> env_ok Dwr Dr Dr BR -> site_ok d Dl Dr A ->
    local_sa F d Dl Dr (apply_local_hamiltonian BL BR W) ->
    site_dot A A <> k0 K ->
    kexp_lanczos_calls_ok BL BR W A t ->
    kexp_ok d BL BR W A (kexp_lanczos pos BL BR W A t).
  Proof.
    intros Hd Hwl Hwr HW HL HR HA Hsa Hnz Hc.
    destruct (site_ok_sdl K d Dl Dr A Hd HA) as (E1 & E2 & E3).
    unfold kexp_lanczos, kexp_lanczos_calls_ok in *. rewrite E1, E2, E3 in *.
    destruct (kexp_gen_ok F d Dl Dr (apply_local_hamiltonian BL BR W) dnorm small deigh dexp dexpm numiter Hd
                (alh_local_op F d Dl Dr Dwl Dwr BL BR W Hd Hwl Hwr HW HL HR) Hsa small_pos Hm A t HA Hnz Hc) as (R1 & R2 & R3).
    split; [|split].
    - intros Dl' Dr' HA'. destruct (site_ok_unique d Dl Dr Dl' Dr' A Hd HA HA') as [-> ->]. exact R1.
    - exact R2.
    - exact R3.
  Qed.

  (* ---- bond step ---- *)
  Definition bond_sa (Dl Dr : nat) (BL BR : env K) : Prop :=
    forall X Y : mx K, nr X = Dl -> nc X = Dr -> nr Y = Dl -> nc Y = Dr ->
      frob Y (apply_local_bond_contraction BL BR X) = kconj K (frob X (apply_local_bond_contraction BL BR Y)).

  Lemma bond_sa_local Dl Dr BL BR : bond_sa Dl Dr BL BR -> local_sa F 1 Dl Dr (bond_op F BL BR).
  Proof.
    intros H X Y [LX HX] [LY HY]. destruct (HX 0%nat ltac:(lia)) as [X1 X2]. destruct (HY 0%nat ltac:(lia)) as [Y1 Y2].
    destruct X as [|X0 [|? ?]]; cbn [length] in LX; try lia. destruct Y as [|Y0 [|? ?]]; cbn [length] in LY; try lia.
    unfold bond_op. rewrite !sel_one in *. rewrite !site_dot_one. apply H; assumption.
  Qed.

  Theorem kexp0_from_krylov Dw pos (BL BR : env K) (C : mx K) (t : K) :
    (0 < Dw)%nat -> env_ok Dw (nr C) (nr C) BL -> env_ok Dw (nc C) (nc C) BR ->
    bond_sa (nr C) (nc C) BL BR ->
    frob C C <> k0 K ->
    kexp0_lanczos_calls_ok BL BR C t ->
    kexp0_ok BL BR C (kexp0_lanczos pos BL BR C t).
  Proof.
    intros Hw HL HR Hsa Hnz Hc.
    assert (HC : site_ok 1 (nr C) (nc C) [C]) by (apply mx_site_ok; reflexivity).
    assert (Hnz' : site_dot [C] [C] <> k0 K) by (rewrite site_dot_one; exact Hnz).
    destruct (kexp_gen_ok F 1 (nr C) (nc C) (bond_op F BL BR) dnorm small deigh dexp dexpm numiter (le_n 1)
                (bond_local_op F (nr C) (nc C) Dw BL BR Hw HL HR) (bond_sa_local _ _ _ _ Hsa) small_pos Hm [C] t HC Hnz' Hc) as (R1 & R2 & R3).
    unfold kexp0_lanczos. set (S' := kexp_gen F 1 (nr C) (nc C) (bond_op F BL BR) dnorm small deigh dexp dexpm numiter [C] t) in *.
    destruct R1 as [LS HS]. destruct (HS 0%nat ltac:(lia)) as [S1 S2].
    destruct S' as [|C' [|? ?]]; cbn [length] in LS; try lia. rewrite sel_one in *.
    unfold bond_op in R3. rewrite !sel_one in R3. rewrite !site_dot_one in R2, R3.
    unfold kexp0_ok, albc. repeat split; assumption.
  Qed.

  (* ---- keig_from_krylov ---- *)
  Theorem keig_from_krylov d Dl Dr Dwl Dwr pos (BL BR : env K) (W : osite K) (A : site K) :
    (0 < d)%nat -> (0 < Dwl)%nat -> (0 < Dwr)%nat ->
    osite_ok d Dwl Dwr W -> env_ok Dwl Dl Dl BL -> env_ok Dwr Dr Dr BR -> site_ok d Dl Dr A ->
    local_sa F d Dl Dr (apply_local_hamiltonian BL BR W) ->
    site_dot A A <> k0 K ->
    keig_lanczos_calls_ok BL BR W A ->
    keig_ok d BL BR W A (keig_lanczos pos BL BR W A).
  Proof.
    intros Hd Hwl Hwr HW HL HR HA Hsa Hnz Hc.
    destruct (site_ok_sdl K d Dl Dr A Hd HA) as (E1 & E2 & E3).
    unfold keig_lanczos, keig_lanczos_calls_ok in *. rewrite E1, E2, E3 in *.
    destruct (keig_gen_ok F d Dl Dr (apply_local_hamiltonian BL BR W) dnorm small deigh numiter Hd
                (alh_local_op F d Dl Dr Dwl Dwr BL BR W Hd Hwl Hwr HW HL HR) Hsa small_pos Hm A HA Hnz Hc) as (R1 & R2 & R3 & R4).
    split; [|split; [|split]].
    - intros Dl' Dr' HA'. destruct (site_ok_unique d Dl Dr Dl' Dr' A Hd HA HA') as [-> ->]. exact R1.
    - exact R2.
    - exact R3.
    - exact R4.
  Qed.
End Concrete.
