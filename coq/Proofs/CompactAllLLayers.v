(* C20, graph side of "bond dimensions for every L":
   (1) totality of the layer discovery of MPO.from_opgraph ([layers] of Model/GraphMPO.v) on a well-formed graph
       (C16's WF) whose level function is bounded: no KeyError / AssertionError, and the fuel S (number of nodes)
       suffices;
   (2) if the level sets of such a graph are given as explicit duplicate-free lists [maps] (level k = nth k maps),
       then bond_dims g = Some (map length maps). *)
From Coq Require Import ZArith List Lia Bool Permutation.
From PT Require Import Base.Scalar Base.BigSum Base.Mx Model.OpGraph Model.FromOpchains Model.GraphMPO Model.Rewrites Model.Hamiltonians
                       Proofs.FromOpchainsGraph Proofs.FromOpchainsPart Proofs.GraphMPOSem Proofs.RewritesBase
                       Proofs.CompactLayers Proofs.CompactSimplify.
Import ListNotations.
Open Scope Z_scope.

Section AllLLayers.
  Variable R : cring.
  Notation graph := (graph R).
  Variable g : graph.
  Hypothesis W : WF R g.
  Variable lv : Z -> Z.
  Hypothesis Hlv : LV R g lv.

  (* ---- the out-edge scan of one node cannot fail ---- *)
  Lemma tgt_fold_total nid : forall eids l,
    (forall eid, In eid eids -> exists e, find_edge g eid = Some e /\ e_from e = nid) ->
    exists l', fold_left (tgt_fold R g nid) eids (Ok l) = Ok l'.
  Proof.
    induction eids as [|eid t IH]; intros l H.
    - exists l. reflexivity.
    - cbn [fold_left]. unfold tgt_fold at 2. cbn [bind].
      destruct (H eid (or_introl eq_refl)) as [e [Fe Hf]]. rewrite Fe, Hf, Z.eqb_refl. cbn [negb].
      apply IH. intros eid' Hin. apply H. right. exact Hin.
  Qed.

  Lemma node_targets_total nid l : In nid (nids R g) -> exists l', node_targets g nid (Ok l) = Ok l'.
  Proof.
    intros Hn. apply in_map_iff in Hn. destruct Hn as [n [Hid Hn]].
    unfold node_targets. cbn [bind]. rewrite <- Hid, (find_node_In R g n (wf_nids R g W) Hn).
    apply (tgt_fold_total (n_id n) (n_out n) l).
    intros eid Hin. destruct (wf_ref0 R g W) as [_ [R2 _]].
    destruct (R2 n eid Hn Hin) as [e [He [Heid Hend]]]. cbn [end_d] in Hend.
    exists e. split; [|exact Hend]. rewrite <- Heid. apply find_edge_In; [apply W|exact He].
  Qed.

  Lemma next_layer_total : forall nids0 l, (forall x, In x nids0 -> In x (nids R g)) ->
    exists l', fold_left (fun acc nid => node_targets g nid acc) nids0 (Ok l) = Ok l'.
  Proof.
    induction nids0 as [|nid t IH]; intros l H.
    - exists l. reflexivity.
    - cbn [fold_left]. destruct (node_targets_total nid l (H nid (or_introl eq_refl))) as [l1 E]. rewrite E.
      apply IH. intros x Hx. apply H. right. exact Hx.
  Qed.

  (* ---- totality of [layers]: every call moves one level up ---- *)
  Variable K : Z.
  Hypothesis HK : forall x, In x (nids R g) -> lv x <= K.

  Lemma layers_total : forall fuel nids0 j,
    (forall x, In x nids0 -> In x (nids R g) /\ lv x = j) -> j <= K -> (Z.to_nat (K - j) < fuel)%nat ->
    exists ls, layers fuel g nids0 = Ok ls.
  Proof.
    induction fuel as [|f IH]; intros nids0 j H0 Hj Hf; [lia|].
    cbn [layers]. unfold GraphMPO.next_layer.
    destruct (next_layer_total nids0 [] (fun x Hx => proj1 (H0 x Hx))) as [n1 E]. rewrite E. cbn [bind].
    destruct (next_layer_conv R g nids0 [] n1 E (NoDup_nil _)) as [_ C].
    assert (Hn1 : forall x, In x n1 -> In x (nids R g) /\ lv x = j + 1).
    { intros x Hx. destruct (C x Hx) as [[]|[nid [e [Hnid [He [Hfr Hto]]]]]].
      destruct (edge_ends R g W e He) as [_ Ht]. rewrite Hto in Ht. split; [exact Ht|].
      pose proof (Hlv e He) as Hl. rewrite Hto, Hfr in Hl. destruct (H0 nid Hnid) as [_ Hl0]. lia. }
    destruct n1 as [|z n1']; [exists []; reflexivity|].
    set (n1 := z :: n1') in *.
    assert (Hz : j + 1 <= K).
    { destruct (Hn1 z (or_introl eq_refl)) as [Hzin Hzl]. specialize (HK z Hzin). lia. }
    destruct (IH (zsort n1) (j + 1)) as [r Er].
    - intros x Hx. apply Hn1. apply (zsort_In x n1). exact Hx.
    - exact Hz.
    - lia.
    - rewrite Er. cbn [bind]. eexists. reflexivity.
  Qed.
End AllLLayers.

Section AllLBond.
  Variable R : cring.
  Notation graph := (graph R).

  (* a chain of nodes at levels 0..k below a node of level k *)
  Lemma level_chain (g : graph) lv : WF R g -> LV R g lv -> lv (g_t0 g) = 0 ->
    forall k x, In x (nids R g) -> lv x = Z.of_nat k ->
    exists p, length p = S k /\ incl p (nids R g) /\ NoDup p /\ forall y, In y p -> lv y <= Z.of_nat k.
  Proof.
    intros W Hlv H0. induction k as [|k IH]; intros x Hx Hl.
    - exists [x]. split; [reflexivity|]. split; [intros y [<-|[]]; exact Hx|].
      split; [constructor; [intros []|constructor]|]. intros y [<-|[]]. lia.
    - assert (Hne : x <> g_t0 g) by (intros ->; lia).
      destruct (has_pred R g W x Hx Hne) as [e [He Hto]]. destruct (edge_ends R g W e He) as [Hf _].
      pose proof (Hlv e He) as Hle. rewrite Hto in Hle.
      destruct (IH (e_from e) Hf ltac:(lia)) as [p [P1 [P2 [P3 P4]]]].
      exists (x :: p). split; [cbn [length]; congruence|]. split; [intros y [<-|Hy]; [exact Hx|apply P2; exact Hy]|].
      split; [constructor; [intros Hin; specialize (P4 x Hin); lia|exact P3]|].
      intros y [<-|Hy]; [lia|]. specialize (P4 y Hy). lia.
  Qed.

  (* the layers found by from_opgraph of a WF graph whose level sets are the lists of [maps] *)
  Theorem bond_dims_levsets (g : graph) (lv : Z -> Z) (maps : list (list Z)) :
    WF R g -> LV R g lv -> lv (g_t0 g) = 0 ->
    (forall x, In x (nids R g) -> 0 <= lv x < Z.of_nat (length maps)) ->
    (exists x, In x (nids R g) /\ lv x = Z.of_nat (length maps) - 1) ->
    (forall k l, nth_error maps k = Some l -> NoDup l /\ forall x, In x l <-> In x (nids R g) /\ lv x = Z.of_nat k) ->
    bond_dims g = Some (map (@length Z) maps).
  Proof.
    intros W Hlv H0 Hrng [xt [Hxt Hxl]] Hmaps.
    set (K := Z.of_nat (length maps) - 1) in *.
    assert (HK0 : 0 <= K) by (specialize (Hrng xt Hxt); lia).
    (* enough nodes for the fuel *)
    assert (Hfuel : (Z.to_nat (K - 0) < S (length (g_nodes g)))%nat).
    { destruct (level_chain g lv W Hlv H0 (Z.to_nat K) xt Hxt ltac:(lia)) as [p [P1 [P2 [P3 _]]]].
      pose proof (NoDup_incl_length P3 P2) as Hlen. unfold nids in Hlen. rewrite map_length in Hlen. lia. }
    destruct (layers_total R g W lv Hlv K (fun x Hx => ltac:(specialize (Hrng x Hx); lia))
                (S (length (g_nodes g))) [g_t0 g] 0) as [ls E].
    { intros x [<-|[]]. split; [apply t0_in; exact W|exact H0]. }
    { exact HK0. }
    { exact Hfuel. }
    unfold bond_dims, graph_layers. rewrite E. cbn [bind]. f_equal.
    destruct (graph_layers_levels R g W lv Hlv ls E) as [A B]. rewrite H0 in A, B.
    (* number of layers *)
    assert (Hlen : S (length ls) = length maps).
    { assert (H1 : (length maps <= S (length ls))%nat).
      { destruct (Z.eq_dec K 0) as [HKz|HKnz]; [lia|].
        pose proof (B (Z.to_nat (K - 1)) xt Hxt ltac:(lia)). lia. }
      assert (H2 : (length ls < length maps)%nat).
      { destruct ls as [|l0 ls0]; [cbn [length]; lia|].
        assert (Hlast : nth_error (l0 :: ls0) (length ls0) <> None) by (apply nth_error_Some; cbn [length]; lia).
        destruct (nth_error (l0 :: ls0) (length ls0)) as [l|] eqn:El; [|congruence].
        destruct (A _ _ El) as [_ M]. destruct l as [|y l'].
        - exfalso. exact (layers_nonempty R g _ _ _ _ E El).
        - destruct (proj1 (M y) (or_introl eq_refl)) as [Hy Hyl]. specialize (Hrng y Hy). cbn [length]. lia. }
      lia. }
    (* layer by layer *)
    apply (nth_ext _ _ 0%nat 0%nat).
    - cbn [map length]. rewrite !map_length. exact Hlen.
    - intros n Hn. cbn [map length] in Hn. rewrite map_length in Hn.
      assert (Hn' : (n < length maps)%nat) by lia.
      destruct (nth_error maps n) as [m|] eqn:Em; [|apply nth_error_None in Em; lia].
      destruct (Hmaps n m Em) as [Nm Mm].
      rewrite (nth_indep _ 0%nat (length (@nil Z))) by (cbn [map length]; rewrite map_length; lia).
      rewrite (nth_indep (map (@length Z) maps) 0%nat (length (@nil Z))) by (rewrite map_length; lia).
      change (nth n (map (@length Z) ([g_t0 g] :: ls)) (length (@nil Z)) = nth n (map (@length Z) maps) (length (@nil Z))).
      rewrite !map_nth. rewrite (nth_error_nth _ _ _ Em).
      destruct n as [|n]; cbn [nth].
      + (* level 0 = the start terminal *)
        assert (Hm0 : forall x, In x m <-> x = g_t0 g).
        { intros x. rewrite Mm. split.
          - intros [Hx Hl]. destruct (Z.eq_dec x (g_t0 g)) as [|Hne]; [assumption|].
            pose proof (no_low R g W lv Hlv x Hx Hne). cbn [Z.of_nat] in Hl. lia.
          - intros ->. split; [apply t0_in; exact W|exact H0]. }
        apply Nat.le_antisymm.
        * apply NoDup_incl_length; [constructor; [intros []|constructor]|]. intros x [<-|[]]. apply Hm0. reflexivity.
        * apply NoDup_incl_length; [exact Nm|]. intros x Hx. left. symmetry. apply Hm0. exact Hx.
      + destruct (nth_error ls n) as [l|] eqn:El; [|apply nth_error_None in El; lia].
        rewrite (nth_error_nth _ _ _ El). destruct (A n l El) as [Nl Ml].
        apply Nat.le_antisymm.
        * apply NoDup_incl_length; [exact Nl|]. intros x Hx. apply Mm. apply Ml in Hx. destruct Hx as [Hx Hl]. split; [exact Hx|lia].
        * apply NoDup_incl_length; [exact Nm|]. intros x Hx. apply Ml. apply Mm in Hx. destruct Hx as [Hx Hl]. split; [exact Hx|lia].
  Qed.
End AllLBond.

Print Assumptions bond_dims_levsets.
