(* C09 — time reversibility of single-site TDVP at the level of the dense state: common definitions.
   Well-formed shapes (Leibniz-level reasoning needs [wf]), scalar multiples of site tensors, unitary bond gauges and the
   gauge action on site tensors and environment blocks, and the CONTRACT for "exact local exponentials":
     (a) the local solver is a flow in its time argument  (kexp(0) = id, kexp(t) o kexp(s) = kexp(s + t)) and is homogeneous
         (the flow of a linear problem), and keeps shapes;
     (b) it is covariant under unitary changes of the two bond bases of the local problem.
   Nothing here mentions a particular run. *)
From Coq Require Import ZArith Arith List Lia Ring Setoid Bool.
From PT Require Import Base.Scalar Base.BigSum Base.Mx Model.Tensor Model.Operation Model.Sweeps
  Proofs.OperationEntries.
Import ListNotations.

Section Defs.
  Variable R : cring.
  Add Ring Rring_reverse_defs : (k_rt R).
  Notation site := (site R).
  Notation osite := (osite R).
  Notation env := (env R).
  Notation mx := (mx R).

  (* ---------------- well-formed shapes ---------------- *)
  Definition wmx (m n : nat) (M : mx) : Prop := wf M /\ nr M = m /\ nc M = n.
  Definition wsite (d Dl Dr : nat) (A : site) : Prop := length A = d /\ Forall (wmx Dl Dr) A.
  Definition wenv (Dw Da Db : nat) (E : env) : Prop := length E = Dw /\ Forall (wmx Da Db) E.

  Lemma wsite_sel d Dl Dr (A : site) s : wsite d Dl Dr A -> s < d -> wmx Dl Dr (sel A s).
  Proof. intros [Hl H] Hs. rewrite Forall_forall in H. apply H. unfold sel. apply nth_In. lia. Qed.
  Lemma wenv_esel Dw Da Db (E : env) w : wenv Dw Da Db E -> w < Dw -> wmx Da Db (esel E w).
  Proof. intros [Hl H] Hs. rewrite Forall_forall in H. apply H. unfold esel. apply nth_In. lia. Qed.
  Lemma wsite_ok d Dl Dr (A : site) : wsite d Dl Dr A -> site_ok d Dl Dr A.
  Proof. intros H. split; [exact (proj1 H)|]. intros s Hs. destruct (wsite_sel _ _ _ _ _ H Hs) as (_ & H1 & H2). auto. Qed.
  Lemma wenv_ok Dw Da Db (E : env) : wenv Dw Da Db E -> env_ok Dw Da Db E.
  Proof. intros H. split; [exact (proj1 H)|]. intros s Hs. destruct (wenv_esel _ _ _ _ _ H Hs) as (_ & H1 & H2). auto. Qed.

  (* a list of matrices is determined by its length and its entries *)
  Lemma mxlist_ext (m n : nat) (A B : list mx) :
    length A = length B -> Forall (wmx m n) A -> Forall (wmx m n) B ->
    (forall s i j, s < length A -> i < m -> j < n -> get (nth s A (zeromx 0 0)) i j = get (nth s B (zeromx 0 0)) i j) -> A = B.
  Proof.
    intros Hl HA HB H. apply (list_eq_nth (zeromx 0 0)); [exact Hl|]. intros s Hs.
    rewrite Forall_forall in HA, HB.
    destruct (HA (nth s A (zeromx 0 0)) ltac:(apply nth_In; lia)) as (a1 & a2 & a3).
    destruct (HB (nth s B (zeromx 0 0)) ltac:(apply nth_In; lia)) as (b1 & b2 & b3).
    apply mx_ext; try assumption; try congruence.
    intros i j Hi Hj. apply H; [exact Hs|lia|lia].
  Qed.
  Lemma wsite_ext d Dl Dr (A B : site) : wsite d Dl Dr A -> wsite d Dl Dr B ->
    (forall s i j, s < d -> i < Dl -> j < Dr -> get (sel A s) i j = get (sel B s) i j) -> A = B.
  Proof.
    intros [la HA] [lb HB] H. apply (mxlist_ext Dl Dr); try assumption; [congruence|].
    intros s i j Hs. apply H. lia.
  Qed.
  Lemma wenv_ext Dw Da Db (E F : env) : wenv Dw Da Db E -> wenv Dw Da Db F ->
    (forall w i j, w < Dw -> i < Da -> j < Db -> get (esel E w) i j = get (esel F w) i j) -> E = F.
  Proof.
    intros [la HA] [lb HB] H. apply (mxlist_ext Da Db); try assumption; [congruence|].
    intros s i j Hs. apply H. lia.
  Qed.

  Lemma wsite_tabl d Dl Dr (f : nat -> mx) : (forall s, s < d -> wmx Dl Dr (f s)) -> wsite d Dl Dr (tabl d f).
  Proof.
    intros H. split; [unfold tabl; rewrite map_length, seq_length; reflexivity|].
    apply Forall_forall. intros M HM. unfold tabl in HM. apply in_map_iff in HM. destruct HM as (s & <- & Hs).
    apply in_seq in Hs. apply H. lia.
  Qed.
  Lemma wsite_map d Dl Dr Dl' Dr' (f : mx -> mx) (A : site) :
    wsite d Dl Dr A -> (forall M, wmx Dl Dr M -> wmx Dl' Dr' (f M)) -> wsite d Dl' Dr' (map f A).
  Proof.
    intros [Hl H] Hf. split; [rewrite map_length; exact Hl|]. apply Forall_forall. intros M HM.
    apply in_map_iff in HM. destruct HM as (M0 & <- & HM0). apply Hf. rewrite Forall_forall in H. apply H. exact HM0.
  Qed.
  Lemma sel_map_w (f : mx -> mx) (A : site) s : s < length A -> sel (map f A) s = f (sel A s).
  Proof.
    intros Hs. unfold sel. rewrite (nth_indep _ (zeromx 0 0) (f (zeromx 0 0))) by (rewrite map_length; exact Hs). apply map_nth.
  Qed.

  (* ---------------- scalar multiples ---------------- *)
  Definition scale_site (c : R) (A : site) : site := map (scalemx c) A.
  Lemma wmx_scalemx m n c M : wmx m n M -> wmx m n (scalemx c M).
  Proof. intros (_ & H1 & H2). split; [apply wf_scalemx|]. rewrite nr_scalemx, nc_scalemx. auto. Qed.
  Lemma wsite_scale d Dl Dr c (A : site) : wsite d Dl Dr A -> wsite d Dl Dr (scale_site c A).
  Proof. intros H. apply (wsite_map d Dl Dr Dl Dr); [exact H|]. intros M. apply wmx_scalemx. Qed.
  Lemma get_scale_site d Dl Dr c (A : site) s i j : wsite d Dl Dr A -> s < d -> i < Dl -> j < Dr ->
    get (sel (scale_site c A) s) i j = kmul R c (get (sel A s) i j).
  Proof.
    intros HA Hs Hi Hj. unfold scale_site. rewrite sel_map_w by (rewrite (proj1 HA); exact Hs).
    destruct (wsite_sel _ _ _ _ _ HA Hs) as (_ & H1 & H2). apply get_scalemx; lia.
  Qed.

  (* ---------------- unitary gauges ---------------- *)
  Definition unitary (D : nat) (G : mx) : Prop :=
    wmx D D G /\ mulmx (adjmx G) G = idmx D /\ mulmx G (adjmx G) = idmx D.
  (* A[s] -> Gl^H A[s] Gr *)
  Definition gmx (Gl Gr M : mx) : mx := mulmx (mulmx (adjmx Gl) M) Gr.
  Definition gsite (Gl Gr : mx) (A : site) : site := map (gmx Gl Gr) A.
  (* left blocks L[w] (ket bond, bra bond) -> G^T L[w] conj(G);  right blocks R[w] -> G^H R[w] G *)
  Definition genvL (G : mx) (E : env) : env := map (fun M => mulmx (mulmx (trmx G) M) (conjmx G)) E.
  Definition genvR (G : mx) (E : env) : env := map (fun M => mulmx (mulmx (adjmx G) M) G) E.

  (* ---------------- the contract for exact local exponentials ---------------- *)
  Definition kexp_t := nat -> env -> env -> osite -> site -> R -> site.
  Definition kexp0_t := nat -> env -> env -> mx -> R -> mx.

  (* (a) a flow of a linear local problem that keeps shapes; the position argument is immaterial *)
  Definition kexp_flow (d : nat) (kexp : kexp_t) : Prop :=
    (forall p BL BR W A t Dl Dr, wsite d Dl Dr A -> wsite d Dl Dr (kexp p BL BR W A t)) /\
    (forall p BL BR W A Dl Dr, wsite d Dl Dr A -> kexp p BL BR W A (k0 R) = A) /\
    (forall p p' p'' BL BR W A s t Dl Dr, wsite d Dl Dr A ->
       kexp p' BL BR W (kexp p BL BR W A s) t = kexp p'' BL BR W A (kadd R s t)) /\
    (forall p p' BL BR W A t c Dl Dr, wsite d Dl Dr A ->
       kexp p' BL BR W (scale_site c A) t = scale_site c (kexp p BL BR W A t)).
  Definition kexp0_flow (kexp0 : kexp0_t) : Prop :=
    (forall p BL BR C t m n, wmx m n C -> wmx m n (kexp0 p BL BR C t)) /\
    (forall p BL BR C m n, wmx m n C -> kexp0 p BL BR C (k0 R) = C) /\
    (forall p p' p'' BL BR C s t m n, wmx m n C ->
       kexp0 p' BL BR (kexp0 p BL BR C s) t = kexp0 p'' BL BR C (kadd R s t)) /\
    (forall p p' BL BR C t c m n, wmx m n C ->
       kexp0 p' BL BR (scalemx c C) t = scalemx c (kexp0 p BL BR C t)).

  (* (b) covariance under unitary changes of the bond bases: the environments and the tensor are transformed, the result
     transforms the same way (true for exp(t * apply_local_hamiltonian BL BR W) and for its Krylov approximations) *)
  Definition kexp_covariant (d : nat) (kexp : kexp_t) : Prop :=
    forall p p' BL BR W A t Dl Dr Dwl Dwr Gl Gr,
      wsite d Dl Dr A -> wenv Dwl Dl Dl BL -> wenv Dwr Dr Dr BR -> unitary Dl Gl -> unitary Dr Gr ->
      kexp p' (genvL Gl BL) (genvR Gr BR) W (gsite Gl Gr A) t = gsite Gl Gr (kexp p BL BR W A t).
  Definition kexp0_covariant (kexp0 : kexp0_t) : Prop :=
    forall p p' BL BR C t Dl Dr Dw Gl Gr,
      wmx Dl Dr C -> wenv Dw Dl Dl BL -> wenv Dw Dr Dr BR -> unitary Dl Gl -> unitary Dr Gr ->
      kexp0 p' (genvL Gl BL) (genvR Gr BR) (gmx Gl Gr C) t = gmx Gl Gr (kexp0 p BL BR C t).

  (* consequences of (a): opposite times cancel *)
  Lemma kexp_flow_inv d kexp : kexp_flow d kexp ->
    forall p p' BL BR W A t Dl Dr, wsite d Dl Dr A -> kexp p' BL BR W (kexp p BL BR W A t) (kopp R t) = A.
  Proof.
    intros (_ & H0 & Hadd & _) p p' BL BR W A t Dl Dr HA.
    rewrite (Hadd p p' p BL BR W A t (kopp R t) Dl Dr HA).
    replace (kadd R t (kopp R t)) with (k0 R) by ring. apply (H0 p BL BR W A Dl Dr HA).
  Qed.
  Lemma kexp_flow_inv' d kexp : kexp_flow d kexp ->
    forall p p' BL BR W A t Dl Dr, wsite d Dl Dr A -> kexp p' BL BR W (kexp p BL BR W A (kopp R t)) t = A.
  Proof.
    intros (_ & H0 & Hadd & _) p p' BL BR W A t Dl Dr HA.
    rewrite (Hadd p p' p BL BR W A (kopp R t) t Dl Dr HA).
    replace (kadd R (kopp R t) t) with (k0 R) by ring. apply (H0 p BL BR W A Dl Dr HA).
  Qed.
  Lemma kexp0_flow_inv kexp0 : kexp0_flow kexp0 ->
    forall p p' BL BR C t m n, wmx m n C -> kexp0 p' BL BR (kexp0 p BL BR C t) (kopp R t) = C.
  Proof.
    intros (_ & H0 & Hadd & _) p p' BL BR C t m n HC.
    rewrite (Hadd p p' p BL BR C t (kopp R t) m n HC).
    replace (kadd R t (kopp R t)) with (k0 R) by ring. apply (H0 p BL BR C m n HC).
  Qed.
  Lemma kexp0_flow_inv' kexp0 : kexp0_flow kexp0 ->
    forall p p' BL BR C t m n, wmx m n C -> kexp0 p' BL BR (kexp0 p BL BR C (kopp R t)) t = C.
  Proof.
    intros (_ & H0 & Hadd & _) p p' BL BR C t m n HC.
    rewrite (Hadd p p' p BL BR C (kopp R t) t m n HC).
    replace (kadd R (kopp R t) t) with (k0 R) by ring. apply (H0 p BL BR C m n HC).
  Qed.
End Defs.

Arguments wmx {R} m n M. Arguments wsite {R} d Dl Dr A. Arguments wenv {R} Dw Da Db E.
Arguments scale_site {R} c A. Arguments unitary {R} D G. Arguments gmx {R} Gl Gr M. Arguments gsite {R} Gl Gr A.
Arguments genvL {R} G E. Arguments genvR {R} G E.
Arguments kexp_flow {R} d kexp. Arguments kexp0_flow {R} kexp0.
Arguments kexp_covariant {R} d kexp. Arguments kexp0_covariant {R} kexp0.
