(* C16, part 2: flip.  den (flip g) w = den g (rev w); flip preserves well-formedness. *)
From Coq Require Import ZArith List Lia Bool Permutation Ring.
From PT Require Import Base.Scalar Base.BigSum Model.OpGraph Model.Rewrites Proofs.RewritesBase.
Import ListNotations.
Open Scope Z_scope.

Lemma find_map {A B} (f : A -> B) (p : B -> bool) (l : list A) :
  find p (map f l) = option_map f (find (fun a => p (f a)) l).
Proof. induction l as [|a l IH]; simpl; [reflexivity|]. destruct (p (f a)); auto. Qed.

Section Flip.
  Variable R : cring.
  Add Ring Rring_rwflip : (k_rt R).
  Notation graph := (graph R).
  Notation gedge := (gedge R).

  Lemma find_node_flip (g : graph) x : find_node (flip g) x = option_map flip_node (find_node g x).
  Proof. unfold find_node, flip. simpl. rewrite find_map. reflexivity. Qed.
  Lemma find_edge_flip (g : graph) x : find_edge (flip g) x = option_map (flip_edge R) (find_edge g x).
  Proof. unfold find_edge, flip. simpl. rewrite find_map. reflexivity. Qed.
  Lemma edges_of_flip (g : graph) l : edges_of (flip g) l = map (flip_edge R) (edges_of g l).
  Proof.
    induction l as [|x l IH]; simpl; [reflexivity|]. rewrite map_app, <- IH, find_edge_flip.
    destruct (find_edge g x); reflexivity.
  Qed.
  Lemma out_edges_flip (g : graph) x : out_edges (flip g) x = map (flip_edge R) (in_edges g x).
  Proof.
    unfold out_edges, in_edges. rewrite find_node_flip. destruct (find_node g x); simpl; [|reflexivity].
    apply edges_of_flip.
  Qed.
  Lemma den_from_flip (g : graph) w n : den_from (flip g) w n = den_to g w n.
  Proof.
    revert n. induction w as [|o w IH]; intros n; simpl; [reflexivity|].
    rewrite out_edges_flip, suml_map. apply suml_ext. intros e _. simpl. rewrite IH. reflexivity.
  Qed.

  Lemma flip_flip (g : graph) : flip (flip g) = g.
  Proof.
    destruct g as [ns es t0 t1]. unfold flip. simpl. rewrite !map_map. f_equal.
    - rewrite <- (map_id ns) at 2. apply map_ext. intros [a b c d]. reflexivity.
    - rewrite <- (map_id es) at 2. apply map_ext. intros [a b c d]. reflexivity.
  Qed.

  Lemma nids_flip (g : graph) : nids R (flip g) = nids R g.
  Proof. unfold nids, flip. simpl. rewrite map_map. reflexivity. Qed.
  Lemma eids_flip (g : graph) : eids R (flip g) = eids R g.
  Proof. unfold eids, flip. simpl. rewrite map_map. reflexivity. Qed.

  Lemma RefOK_flip (g : graph) d : (d <= 1)%nat -> RefOK R g (1 - d) -> RefOK R (flip g) d.
  Proof.
    intros Hd [A [B C]]. unfold flip. split; [|split]; simpl.
    - intros n Hn. apply in_map_iff in Hn. destruct Hn as [n0 [<- Hn0]].
      specialize (A n0 Hn0). destruct d as [|[|d]]; try lia; exact A.
    - intros n eid Hn Hin. apply in_map_iff in Hn. destruct Hn as [n0 [<- Hn0]].
      destruct (B n0 eid Hn0) as [e [He [Hid Hend]]].
      { destruct d as [|[|d]]; try lia; exact Hin. }
      exists (flip_edge R e). split; [apply in_map; exact He|]. split; [exact Hid|].
      destruct d as [|[|d]]; try lia; exact Hend.
    - intros e He. apply in_map_iff in He. destruct He as [e0 [<- He0]].
      destruct (C e0 He0) as [n [Hn [Hid Hin]]]. exists (flip_node n). split; [apply in_map; exact Hn|].
      destruct d as [|[|d]]; try lia; simpl in *; auto.
  Qed.

  Lemma flip_WF (g : graph) : WF R g -> WF R (flip g).
  Proof.
    intros W. constructor.
    - rewrite nids_flip. apply W.
    - rewrite eids_flip. apply W.
    - apply RefOK_flip; [lia|]. apply W.
    - apply RefOK_flip; [lia|]. apply W.
    - intros e He. unfold flip in He. simpl in He. apply in_map_iff in He. destruct He as [e0 [<- He0]].
      simpl. apply W. exact He0.
    - destruct (wf_term1 R g W) as [n [Hn [Hid Hl]]]. exists (flip_node n).
      split; [unfold flip; simpl; apply in_map; exact Hn|]. split; assumption.
    - destruct (wf_term0 R g W) as [n [Hn [Hid Hl]]]. exists (flip_node n).
      split; [unfold flip; simpl; apply in_map; exact Hn|]. split; assumption.
    - intros n Hn Hne. unfold flip in Hn. simpl in Hn. apply in_map_iff in Hn. destruct Hn as [n0 [<- Hn0]].
      apply (wf_nd1 R g W n0 Hn0). exact Hne.
    - intros n Hn Hne. unfold flip in Hn. simpl in Hn. apply in_map_iff in Hn. destruct Hn as [n0 [<- Hn0]].
      apply (wf_nd0 R g W n0 Hn0). exact Hne.
    - destruct (wf_layered R g W) as [lv Hlv]. exists (fun x => - lv x). intros e He.
      unfold flip in He. simpl in He. apply in_map_iff in He. destruct He as [e0 [<- He0]]. simpl.
      specialize (Hlv e0 He0). lia.
  Qed.

  (* flipping reverses the site order of every term *)
  Lemma flip_den (g : graph) w : WF R g -> den (flip g) w = den g (rev w).
  Proof.
    intros W. rewrite <- (den_rev_den R g (rev w) W). unfold den, den_rev.
    rewrite den_from_flip, rev_involutive. reflexivity.
  Qed.
End Flip.
