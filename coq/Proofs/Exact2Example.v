(* C09 exactness, two-site -- non-vacuity: a concrete rational instance (L = 4, d = 2, bond dimensions 1, 2, 4, 2, 1 = the complete
   manifold, split site m = 1, complete pair (1, 2)) on which every hypothesis of [tdvp2_exact_natural] holds:
     H = sigma^+ (x) sigma^+ (x) sigma^+ (x) sigma^+  as an MPO of bond dimension 1 (H^2 = 0, so exp(tH) = 1 + tH is rational);
     local solver (ONE function for the merged two-site and for the one-site problems, as in the code)
        kexp_p(t) X = X + t * apply_local_hamiltonian BL BR W X   (Proofs/Exact2Poly.v; exact because the local operators are nilpotent:
        [nil1], [nil2] below, for all arguments over any cring);
     global flow  Gx4 t v = (v_0 + t v_15, v_1, .., v_15) = v + t * Hdense v   ([Gx4_poly], Hdense = the model's opamp_table);
     split oracle: a RATIONAL EXACT split through fixed rational unitaries (tensor products of the rotations (3,4,5)/5 and (5,12,13)/13):
        whichever factor can be square is set to the fixed unitary, the other one is (unitary)^H M resp. M (unitary)^H; the per-call
        contracts split_full are evaluated by the kernel on the recorded trace (38 calls, 10 of them splits);
     orth oracle: divides the first tensor by 2 and reports 2 (the start tensors at sites 2, 3 are right-unitary).
   The run covers phase 1, the complete pair in the forward sweep, the pending backward step through the middle pair, the complete pair
   in the backward sweep and phase 4 of Proofs/Exact2Phase.v. *)
From Coq Require Import ZArith QArith Qcanon List Bool Lia Ring.
From PT Require Import Base.Scalar Base.BigSum Base.Mx Model.Tensor Model.Operation Model.Sweeps
  Proofs.OperationEntries Proofs.OperationTwoSite Proofs.SweepsCanon Proofs.SweepsGauge Proofs.SweepsCheck
  Proofs.MPSOpsBase Proofs.MPSOpsDense Proofs.MPSOpsLaws
  Proofs.ReverseDefs Proofs.ReverseMx Proofs.ReverseGauge Proofs.ReverseLocal Proofs.ReverseFwd Proofs.ReverseExample
  Proofs.ExactDefs Proofs.ExactMx Proofs.ExactLocal Proofs.ExactRun Proofs.ExactExample Proofs.ExactGlobalDefs
  Proofs.Exact2Defs Proofs.Exact2Local Proofs.Exact2Run Proofs.Exact2Global Proofs.Exact2Poly.
Import ListNotations.
Open Scope nat_scope.

Section Ex4.
  Variable R : cring.
  Add Ring Rring_exact2_ex : (k_rt R).
  Notation mx := (mx R).
  Notation site := (site R).
  Notation env := (env R).
  Infix "*" := (kmul R).
  Notation alh := (@apply_local_hamiltonian R).
  Notation Wx := (Wx R).

  Definition Hsx4 : list (osite R) := [Wx; Wx; Wx; Wx].
  Definition W2x : osite R := c04_merge_osite Wx Wx.

  Lemma Wx_struct : osite_struct 2 Wx.
  Proof. split; [reflexivity|]. intros s Hs. destruct s as [|[|s]]; [reflexivity|reflexivity|lia]. Qed.
  Lemma W2x_ok : osite_ok 4 1 1 W2x.
  Proof. apply (merge_osite_ok R 2 2 1 1 1); try lia; try apply Wx_struct; apply Wx_ok. Qed.

  Lemma nth_Hsx4 i : i < 4 -> nth i Hsx4 [] = Wx.
  Proof. intros Hi. destruct i as [|[|[|[|i]]]]; try reflexivity. lia. Qed.

  (* ---------------- nilpotency of the one-site local operator ---------------- *)
  Lemma nil1 Dl Dr (BL BR : env) (X : site) u a b : wsite 2 Dl Dr X -> wenv 1 Dl Dl BL -> wenv 1 Dr Dr BR ->
    u < 2 -> a < Dl -> b < Dr -> get (sel (alh BL BR Wx (alh BL BR Wx X)) u) a b = k0 R.
  Proof.
    intros HX HBL HBR Hu Ha Hb.
    destruct (wenv1_inv R _ _ BL HBL) as (_ & (l0 & l1 & l2)). destruct (wenv1_inv R _ _ BR HBR) as (_ & (r0 & r1 & r2)).
    assert (HA : wsite 2 Dl Dr (alh BL BR Wx X)) by (apply (wsite_alh R 2 Dl Dr 1 1); try lia; try assumption; apply Wx_ok).
    rewrite (alh_x R Dl Dr BL BR _ HA HBL HBR). rewrite (alh_x R Dl Dr BL BR X HX HBL HBR).
    destruct u as [|[|u]]; [|apply get_zeromx|lia].
    cbn [sel nth]. rewrite mulmx_zero_l by exact r1. rewrite mulmx_zero_r by (rewrite nc_trmx; exact l1). apply get_zeromx.
  Qed.

  (* ---------------- the merged two-site operator: only <00| . |11> ---------------- *)
  Lemma gmm (A B : mx) : nr A = 1 -> nc A = 1 -> nr B = 1 -> nc B = 1 -> get (mulmx A B) 0 0 = get A 0 0 * get B 0 0.
  Proof. intros a1 a2 b1 b2. rewrite get_mulmx by lia. rewrite a2. cbn [sumn]. ring. Qed.
  Lemma o1_shape : nr (o1 R) = 1 /\ nc (o1 R) = 1. Proof. split; reflexivity. Qed.
  Lemma z1_shape : nr (z1 R) = 1 /\ nc (z1 R) = 1. Proof. split; reflexivity. Qed.

  Lemma alh_xx Dl Dr (BL BR : env) (M : site) : wsite 4 Dl Dr M -> wenv 1 Dl Dl BL -> wenv 1 Dr Dr BR ->
    alh BL BR W2x M = [mulmx (trmx (esel BL 0)) (mulmx (sel M 3) (esel BR 0)); zeromx Dl Dr; zeromx Dl Dr; zeromx Dl Dr].
  Proof.
    intros HM HBL HBR. destruct (wenv1_inv R _ _ BL HBL) as (_ & (l0 & l1 & l2)). destruct (wenv1_inv R _ _ BR HBR) as (_ & (r0 & r1 & r2)).
    apply (wsite_ext R 4 Dl Dr).
    - apply (wsite_alh R 4 Dl Dr 1 1); try lia; try assumption. apply W2x_ok.
    - split; [reflexivity|]. repeat constructor; try apply wf_zeromx; try apply wf_mulmx; shp.
    - intros s b c Hs Hb Hc.
      rewrite (mform_local_hamiltonian R 4 Dl Dr Dl Dr 1 1) by (try lia; try assumption; try apply W2x_ok; try (apply wsite_ok; exact HM); apply wenv_ok; assumption).
      pose proof (get_o1 R) as go. pose proof (get_z1 R) as gz.
      destruct (o1_shape) as [on oc]. destruct (z1_shape) as [zn zc].
      destruct s as [|[|[|[|s]]]]; [| | | |lia]; cbn [sumn osel W2x c04_merge_osite ExactExample.Wx flat_map map app nth sel];
        rewrite ?gmm by assumption; rewrite ?go, ?gz, ?get_zeromx; ring.
  Qed.

  Lemma nil2 Dl Dr (BL BR : env) (X : site) u a b : wsite 4 Dl Dr X -> wenv 1 Dl Dl BL -> wenv 1 Dr Dr BR ->
    u < 4 -> a < Dl -> b < Dr -> get (sel (alh BL BR W2x (alh BL BR W2x X)) u) a b = k0 R.
  Proof.
    intros HX HBL HBR Hu Ha Hb.
    destruct (wenv1_inv R _ _ BL HBL) as (_ & (l0 & l1 & l2)). destruct (wenv1_inv R _ _ BR HBR) as (_ & (r0 & r1 & r2)).
    assert (HA : wsite 4 Dl Dr (alh BL BR W2x X)) by (apply (wsite_alh R 4 Dl Dr 1 1); try lia; try assumption; apply W2x_ok).
    rewrite (alh_xx Dl Dr BL BR _ HA HBL HBR). rewrite (alh_xx Dl Dr BL BR X HX HBL HBR).
    destruct u as [|[|[|[|u]]]]; [|apply get_zeromx|apply get_zeromx|apply get_zeromx|lia].
    cbn [sel nth]. rewrite mulmx_zero_l by exact r1. rewrite mulmx_zero_r by (rewrite nc_trmx; exact l1). apply get_zeromx.
  Qed.

  (* ---------------- the contracts for kexp_p on this operator ---------------- *)
  Variable Ds : nat -> nat.

  Lemma HWx4 : forall j, j < length Hsx4 -> osite_ok 2 (DWx j) (DWx (S j)) (nth j Hsx4 []).
  Proof. intros j Hj. cbn [Hsx4 length] in Hj. rewrite nth_Hsx4 by exact Hj. apply Wx_ok. Qed.
  Lemma HWst4 : forall j, j < length Hsx4 -> osite_struct 2 (nth j Hsx4 []).
  Proof. intros j Hj. cbn [Hsx4 length] in Hj. rewrite nth_Hsx4 by exact Hj. apply Wx_struct. Qed.
  Lemma HDWx : forall j : nat, 0 < DWx j. Proof. intros j. unfold DWx. lia. Qed.

  Lemma kexp_p_flow4 : kexp_flowH Hsx4 2 Ds DWx (kexp_p R).
  Proof.
    apply (poly_flowH R Hsx4 2 Ds DWx); try lia; [exact HWx4|exact HDWx|].
    intros i BL BR X u a b Hi HX HBL HBR Hu Ha Hb. cbn [Hsx4 length] in Hi. rewrite nth_Hsx4 by exact Hi. unfold DWx in *.
    apply (nil1 (Ds i) (Ds (S i))); assumption.
  Qed.
  Lemma kexp_p_flow42 : kexp2_flowH Hsx4 2 Ds DWx (kexp_p R).
  Proof.
    apply (poly_flow2H R Hsx4 2 Ds DWx); try lia; [exact HWx4|exact HWst4|exact HDWx|].
    intros i BL BR X u a b Hi HX HBL HBR Hu Ha Hb. cbn [Hsx4 length] in Hi. rewrite !nth_Hsx4 by lia. unfold DWx in *.
    apply (nil2 (Ds i) (Ds (S (S i)))); assumption.
  Qed.
  Lemma kexp_p_IL4 : intertwine2_left Hsx4 2 Ds DWx (kexp_p R).
  Proof. apply (poly_IL2 R Hsx4 2 Ds DWx); try lia; [exact HWx4|exact HWst4|exact HDWx]. Qed.
  Lemma kexp_p_IR4 : intertwine2_right Hsx4 2 Ds DWx (kexp_p R).
  Proof. apply (poly_IR2 R Hsx4 2 Ds DWx); try lia; [exact HWx4|exact HWst4|exact HDWx]. Qed.

  (* ---------------- the global flow ---------------- *)
  Definition Gx4 (t : R) (v : list R) : list R :=
    match v with v0 :: tl => kadd R v0 (t * last tl (k0 R)) :: tl | [] => [] end.

  Lemma Gx4_poly t (v : list R) : length v = 16 -> Gx4 t v = vadd v (vscale t (Hvec 2 Hsx4 v)).
  Proof.
    intros Hl. destruct v as [|x0 [|x1 [|x2 [|x3 [|x4 [|x5 [|x6 [|x7 [|x8 [|x9 [|x10 [|x11 [|x12 [|x13 [|x14 [|x15 [|? ?]]]]]]]]]]]]]]]]]; try discriminate.
    unfold Gx4, vadd, vscale, Hvec, matvec. cbv -[K kadd kmul k0 k1]. repeat (f_equal; try ring).
  Qed.

  Lemma Gx4_flow : G_flow Hsx4 2 Gx4.
  Proof.
    intros As. unfold dense. cbn [Hsx4 length]. set (ws := words 2 4). vm_compute in ws. subst ws. cbn [map]. unfold Gx4. cbn [last].
    split; [f_equal; ring|]. intros s t. f_equal. ring.
  Qed.

  Lemma kexp_p_natural4 i : S i < 4 -> solver2_natural Hsx4 2 Ds DWx Gx4 i (kexp_p R).
  Proof.
    intros Hi. apply (poly_natural2 R Hsx4 2 Ds DWx); try lia; [exact HWx4|exact HWst4|exact HDWx|exact Hi|].
    intros t v Hv. apply Gx4_poly. rewrite Hv. reflexivity.
  Qed.

  Theorem e4_contracts :
    kexp_flowH Hsx4 2 Ds DWx (kexp_p R) /\ kexp2_flowH Hsx4 2 Ds DWx (kexp_p R) /\
    (forall i, S i < 4 -> solver2_natural Hsx4 2 Ds DWx Gx4 i (kexp_p R)) /\ G_flow Hsx4 2 Gx4.
  Proof. split; [exact kexp_p_flow4|]. split; [exact kexp_p_flow42|]. split; [exact kexp_p_natural4|exact Gx4_flow]. Qed.
End Ex4.

(* ---------------- the rational instance ---------------- *)
Definition Ds4 (j : nat) : nat := match j with 1 => 2 | 2 => 4 | 3 => 2 | _ => 1 end.
Definition q0 : Qcring := xq 0 1.
Definition rotA : mx Qcring := xm 2 2 [[xq 3 5; xq 4 5]; [xq (-4) 5; xq 3 5]].
Definition rotB : mx Qcring := xm 2 2 [[xq 5 13; xq 12 13]; [xq (-12) 13; xq 5 13]].
Definition kron2 (A B : mx Qcring) : mx Qcring :=
  tab 4 4 (fun i j => kmul Qcring (get A (i / 2) (j / 2)) (get B (i mod 2) (j mod 2))).
(* fixed unitaries of size 2 and 4 *)
Definition Ufix (n : nat) : mx Qcring := if Nat.eqb n 2 then rotA else kron2 rotA rotB.
Definition Ufix' (n : nat) : mx Qcring := if Nat.eqb n 2 then rotB else kron2 rotB rotA.
(* left-unitary site tensor 2 x Dl x (2 Dl):  Q[s][a, c] = U[s * Dl + a, c];  right-unitary 2 x (2 Dr) x Dr:  V[t][j, c] = U[j, t * Dr + c] *)
Definition Qfix (Dl : nat) : site Qcring := site_unflat 2 Dl (Ufix (2 * Dl)).
Definition Vof (U : mx Qcring) (Dr : nat) : site Qcring := tabl 2 (fun t => tab (2 * Dr) Dr (fun j c => get U j (t * Dr + c))).
Definition Vfix (Dr : nat) : site Qcring := Vof (Ufix (2 * Dr)) Dr.

Definition e4_split (_ : nat) (M : site Qcring) (_ _ _ _ : list Z) (left : bool) : site Qcring * site Qcring * list Z :=
  let Dl := sdl M in
  let Dr := sdr M in
  let useQ := if left then Nat.ltb Dl Dr else Nat.leb Dl Dr in
  if useQ then
    let Q := Qfix Dl in
    (Q, tabl 2 (fun t => addmx (mulmx (adjmx (sel Q 0)) (sel M t)) (mulmx (adjmx (sel Q 1)) (sel M (2 + t)))), repeat 0%Z (2 * Dl))
  else
    let V := Vfix Dr in
    (tabl 2 (fun s => addmx (mulmx (sel M (2 * s)) (adjmx (sel V 0))) (mulmx (sel M (2 * s + 1)) (adjmx (sel V 1)))), V, repeat 0%Z (2 * Dr)).

Definition e4_H : mpo Qcring := mkmpo [0; 0]%Z [[0]; [0]; [0]; [0]; [0]]%Z (Hsx4 Qcring).
Definition e4_A0 : site Qcring := [xm 1 2 [[xq 1 1; xq 2 1]]; xm 1 2 [[xq (-1) 1; xq 1 1]]].
Definition e4_A1 : site Qcring :=
  [xm 2 4 [[xq 1 1; xq 0 1; xq 2 1; xq 1 1]; [xq 0 1; xq 1 1; xq 1 1; xq 3 1]];
   xm 2 4 [[xq 2 1; xq 1 1; xq 0 1; xq 1 1]; [xq 1 1; xq (-1) 1; xq 1 1; xq 0 1]]].
Definition e4_A2 : site Qcring := Vof (Ufix' 4) 2.
Definition e4_A3 : site Qcring := Vof (Ufix' 2) 1.
Definition e4_Psi : mps Qcring :=
  mkmps [0; 0]%Z [[0]; [0; 0]; [0; 0; 0; 0]; [0; 0]; [0]]%Z [e4_A0; e4_A1; e4_A2; e4_A3].
Definition e4_dt : Qcring := xq 1 3.
Definition e4_hdt : Qcring := xq 1 6.
Definition e4_steps : nat := 2.

(* boolean version of the per-call contract *)
Definition split_fullb (Dl k Dr : nat) (left : bool) (Am : site Qcring) (ans : site Qcring * site Qcring * list Z) : bool :=
  let A0 := fst (fst ans) in
  let A1 := snd (fst ans) in
  site_shape 2 Dl k A0 && site_shape 2 k Dr A1 &&
  forallb (fun u => forallb (fun a => forallb (fun c =>
    keqb Qcring (get (sel (c04_merge_site A0 A1) u) a c) (get (sel Am u) a c)) (seq 0 Dr)) (seq 0 Dl)) (seq 0 4) &&
  (if left then negb (Nat.eqb k (2 * Dr)) || (right_isob A1 && rcoisob A1)
   else negb (Nat.eqb (2 * Dl) k) || (left_isob A0 && lcoisob A0)).

Lemma split_fullb_ok Dl k Dr left Am ans : split_fullb Dl k Dr left Am ans = true -> split_full 2 Dl k Dr left Am ans.
Proof.
  unfold split_fullb, split_full. destruct ans as [[A0 A1] q]. cbn [fst snd]. rewrite !andb_true_iff. intros [[[h0 h1] h2] h3] HAm.
  pose proof (site_shape_w Qcring 2 Dl k A0 h0) as w0. pose proof (site_shape_w Qcring 2 k Dr A1 h1) as w1.
  split; [exact w0|]. split; [exact w1|]. split.
  - apply (wsite_ext Qcring (2 * 2) Dl Dr); [apply (wsite_merge Qcring 2 Dl k Dr); [lia|exact w0|exact w1]|exact HAm|].
    intros u a c Hu Ha Hc. rewrite forallb_forall in h2. specialize (h2 u ltac:(apply in_seq; lia)).
    rewrite forallb_forall in h2. specialize (h2 a ltac:(apply in_seq; lia)).
    rewrite forallb_forall in h2. specialize (h2 c ltac:(apply in_seq; lia)). apply keqb_spec. exact h2.
  - destruct left; intros Ek; rewrite orb_true_iff, negb_true_iff, Nat.eqb_neq, andb_true_iff in h3; destruct h3 as [h3|[h3 h4]]; try contradiction.
    + split; [apply right_isob_ok; exact h3|apply rcoisob_ok; exact h4].
    + split; [apply left_isob_ok; exact h3|apply lcoisob_ok; exact h4].
Qed.

Definition e4_call_okb (p : nat) (t : tcall Qcring) : bool :=
  let i := c_site (t_call t) in
  match c_kind (t_call t), t_ten t, t_qs t with
  | SPLITL, [Am], [qa; qb; qc; qe] => split_fullb (Ds4 i) (Ds4 (S i)) (Ds4 (S (S i))) true Am (e4_split p Am qa qb qc qe true)
  | SPLITR, [Am], [qa; qb; qc; qe] => split_fullb (Ds4 i) (Ds4 (S i)) (Ds4 (S (S i))) false Am (e4_split p Am qa qb qc qe false)
  | _, _, _ => true
  end.
Fixpoint e4_tr_okb (tr : list (tcall Qcring)) : bool :=
  match tr with [] => true | t :: rest => e4_call_okb (length rest) t && e4_tr_okb rest end.
Lemma e4_tr_okb_ok tr : e4_tr_okb tr = true -> ex2_tr_ok e4_split 2 Ds4 tr.
Proof.
  induction tr as [|t rest IH]; [intros _; exact I|]. cbn [e4_tr_okb ex2_tr_ok]. rewrite andb_true_iff. intros [H1 H2].
  split; [|exact (IH H2)]. clear IH H2. unfold ex2_call_ok, e4_call_okb in *.
  destruct t as [[k i c] envs ten qs]. cbn [t_call c_kind c_site c_coef t_envs t_ten t_qs] in *.
  destruct k; try exact I; destruct ten as [|Am [|? ?]]; try exact I; destruct qs as [|qa [|qb [|qc [|qe [|? ?]]]]]; try exact I;
    apply split_fullb_ok; exact H1.
Qed.

Definition e4_run : option x_res := tdvp_twosite x_orth e4_split (kexp_p Qcring) e4_H e4_Psi e4_dt e4_hdt e4_steps.
Lemma e4_run_some : is_some e4_run = true. Proof. vm_compute. reflexivity. Qed.
Lemma e4_tr_ok : e4_tr_okb (rev (rt e4_run)) = true. Proof. vm_compute. reflexivity. Qed.
Lemma e4_shapes : forallb (fun j => site_shape 2 (Ds4 j) (Ds4 (S j)) (nth j (m_A (fst (x_orth e4_Psi))) [])) [0; 1; 2; 3] = true.
Proof. vm_compute. reflexivity. Qed.
Lemma e4_runit : forallb (fun j => right_isob (nth j (m_A (fst (x_orth e4_Psi))) []) && rcoisob (nth j (m_A (fst (x_orth e4_Psi))) [])) [2; 3] = true.
Proof. vm_compute. reflexivity. Qed.
Lemma e4_hdt2 : kadd Qcring e4_hdt e4_hdt = e4_dt. Proof. apply keqb_spec. vm_compute. reflexivity. Qed.

Theorem e4_exact :
  2 <= 4 /\ rn e4_run = snd (x_orth e4_Psi) /\
  dense 2 4 (rA e4_run) = Gx4 Qcring (nmul e4_steps e4_dt) (dense 2 4 (m_A (fst (x_orth e4_Psi)))).
Proof.
  pose proof e4_shapes as Hs. cbn [forallb] in Hs. rewrite !andb_true_iff in Hs. destruct Hs as (s0 & s1 & s2 & s3 & _).
  pose proof e4_runit as Hu. cbn [forallb] in Hu. rewrite !andb_true_iff in Hu. destruct Hu as ((u2 & u2') & (u3 & u3') & _).
  apply (tdvp2_exact_natural Qcring x_orth e4_split (kexp_p Qcring) e4_H e4_Psi e4_dt e4_hdt e4_steps 2 Ds4 DWx 1 (Gx4 Qcring)
           (rA e4_run) (rq e4_run) (rn e4_run) (rt e4_run)).
  - exact (some_proj e4_run e4_run_some).
  - lia.
  - exact (HWx4 Qcring).
  - exact (HWst4 Qcring).
  - exact HDWx.
  - reflexivity.
  - reflexivity.
  - split; [reflexivity|]. split; [reflexivity|]. split; [cbn [e4_H o_A Hsx4 length]; lia|]. split.
    + intros j Hj. assert (j = 0) by lia. subst j. reflexivity.
    + intros j Hj. cbn [e4_H o_A Hsx4 length] in Hj. assert (j = 2 \/ j = 3) as [-> | ->] by lia; reflexivity.
  - cbn [e4_H o_A Hsx4 length]. lia.
  - exact e4_hdt2.
  - exact (kexp_p_flow4 Qcring Ds4).
  - exact (kexp_p_flow42 Qcring Ds4).
  - exact (kexp_p_IL4 Qcring Ds4).
  - exact (kexp_p_IR4 Qcring Ds4).
  - exact (kexp_p_natural4 Qcring Ds4 1 ltac:(lia)).
  - exact (Gx4_flow Qcring).
  - intros j Hj. cbn [e4_H o_A Hsx4 length] in Hj.
    destruct j as [|[|[|[|j]]]]; [exact (site_shape_w Qcring 2 1 2 _ s0)|exact (site_shape_w Qcring 2 2 4 _ s1)|
                                 exact (site_shape_w Qcring 2 4 2 _ s2)|exact (site_shape_w Qcring 2 2 1 _ s3)|lia].
  - intros j Hj. cbn [e4_H o_A Hsx4 length] in Hj. assert (j = 2 \/ j = 3) as [-> | ->] by lia.
    + split; [apply right_isob_ok; exact u2|apply rcoisob_ok; exact u2'].
    + split; [apply right_isob_ok; exact u3|apply rcoisob_ok; exact u3'].
  - exact (e4_tr_okb_ok _ e4_tr_ok).
Qed.

(* the run is not trivial: the dense state after the run differs from the normalised start state, the kernel computes the same
   conclusion, the reported number is 2, 38 calls were traced, 10 of them exact splits, and the recorded solver calls are two copies
   of the two-site schedule *)
Lemma e4_nontrivial :
  negb (list_eqb (keqb Qcring) (dense 2 4 (rA e4_run)) (dense 2 4 (m_A (fst (x_orth e4_Psi))))) &&
  list_eqb (keqb Qcring) (dense 2 4 (rA e4_run)) (Gx4 Qcring (nmul e4_steps e4_dt) (dense 2 4 (m_A (fst (x_orth e4_Psi))))) &&
  keqb Qcring (rn e4_run) (xq 2 1) && Nat.eqb (length (rt e4_run)) 38 &&
  Nat.eqb (length (filter (fun t => match c_kind (t_call t) with SPLITL | SPLITR => true | _ => false end) (rt e4_run))) 10 &&
  list_eqb call_eqb (solver_calls (rt e4_run)) (ncat 2 (sched2 4)) = true.
Proof. vm_compute. reflexivity. Qed.
