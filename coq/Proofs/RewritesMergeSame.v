(* C16, part 5b: the "same upstream node" branch of merge_edges (two parallel edges are replaced by one edge
   carrying the sum of the coefficients) preserves well-formedness and the denotation, and removes exactly
   one edge and no node. *)
From Coq Require Import ZArith List Lia Bool Permutation Ring.
From PT Require Import Base.Scalar Base.BigSum Model.OpGraph Model.Rewrites
  Proofs.RewritesBase Proofs.RewritesIso Proofs.RewritesRename Proofs.RewritesLevels
  Proofs.RewritesOpics Proofs.RewritesFEMerge Proofs.RewritesMergeInv.
Import ListNotations.
Open Scope Z_scope.

(* ---------- generic list lemmas ---------- *)
Lemma remove_first_notin x l : ~ In x l -> remove_first x l = l.
Proof.
  induction l as [|y l IH]; simpl; intros H; [reflexivity|].
  destruct (x =? y) eqn:E.
  - apply Z.eqb_eq in E. subst y. exfalso. apply H. left. reflexivity.
  - f_equal. apply IH. intros Hin. apply H. right. exact Hin.
Qed.

Lemma NoDup_map_filter {A} (key : A -> Z) (p : A -> bool) (l : list A) :
  NoDup (map key l) -> NoDup (map key (filter p l)).
Proof.
  induction l as [|x l IH]; simpl; intros H; [constructor|]. inversion H as [|? ? Hnotin Hnd]; subst.
  destruct (p x); simpl; [|apply IH; exact Hnd].
  constructor; [|apply IH; exact Hnd].
  intros Hin. apply Hnotin. apply in_map_iff in Hin. destruct Hin as [y [Hy Hin]].
  apply filter_In in Hin. rewrite <- Hy. apply in_map. apply Hin.
Qed.

Lemma perm_extract {A} (key : A -> Z) (l : list A) (x : A) : NoDup (map key l) -> In x l ->
  Permutation l (x :: filter (fun y => negb (key y =? key x)) l).
Proof.
  induction l as [|y l IH]; simpl; intros Hnd Hin; [contradiction|].
  inversion Hnd as [|? ? Hnotin Hnd']; subst.
  destruct Hin as [->|Hin].
  - rewrite Z.eqb_refl. simpl. rewrite filter_all; [apply Permutation_refl|].
    intros z Hz. apply negb_true_iff, Z.eqb_neq. intros E. apply Hnotin. rewrite <- E. apply in_map. exact Hz.
  - assert (Hne : key y =? key x = false).
    { apply Z.eqb_neq. intros E. apply Hnotin. rewrite E. apply in_map. exact Hin. }
    rewrite Hne. simpl.
    eapply Permutation_trans; [apply perm_skip; apply IH; assumption|apply perm_swap].
Qed.

Section MergeSame.
  Variable R : cring.
  Add Ring Rring_rwmsame : (k_rt R).
  Notation graph := (graph R).
  Notation gedge := (gedge R).

  (* ---------- the node transformer ---------- *)
  Lemma Vsame_id d base up b n : n_id (Vsame d base up b n) = n_id n.
  Proof.
    unfold Vsame, V1. destruct d as [|d]; cbn [Nat.sub];
      destruct (n_id n =? base); cbn [node_remove_eid n_id];
      match goal with |- context [if ?c then _ else _] => destruct c end; reflexivity.
  Qed.

  (* on a well-formed graph the edge-id lists of the transformed node are the old ones without b *)
  Lemma Vsame_eids (g : graph) b d (e2 : gedge) n dd : WF R g -> (d <= 1)%nat -> (dd <= 1)%nat ->
    In e2 (g_edges g) -> e_id e2 = b -> In n (g_nodes g) ->
    node_eids (Vsame d (end_d R d e2) (end_o R d e2) b n) dd = remove_first b (node_eids n dd).
  Proof.
    intros W Hd Hdd He2 Hb Hn.
    pose proof (in_list_iff R g n e2 d W Hd Hn He2) as I1.
    pose proof (in_list_o R g n e2 d W Hd Hn He2) as I2.
    pose proof (ends_ne_d R g e2 d W He2) as Hne.
    rewrite Hb in I1, I2.
    destruct d as [|[|d]]; try lia; destruct dd as [|[|dd]]; try lia;
      cbn [Nat.sub node_eids end_d end_o] in *; unfold Vsame, V1; cbn [Nat.sub].
    all: repeat match goal with
         | |- context [n_id ?m =? ?x] =>
             destruct (Z.eqb_spec (n_id m) x); cbn [node_remove_eid n_id n_in n_out]
         end;
      try reflexivity; try congruence;
      symmetry; apply remove_first_notin; intros Hin;
      match goal with
      | H : In _ _ <-> _ |- _ => apply H in Hin; congruence
      end.
  Qed.
  (* ---------- the edge transformer ---------- *)
  Lemma Usame_id a o (e : gedge) : e_id (Usame R a o e) = e_id e.
  Proof. unfold Usame. destruct (e_id e =? a); reflexivity. Qed.
  Lemma Usame_from a o (e : gedge) : e_from (Usame R a o e) = e_from e.
  Proof. unfold Usame. destruct (e_id e =? a); reflexivity. Qed.
  Lemma Usame_to a o (e : gedge) : e_to (Usame R a o e) = e_to e.
  Proof. unfold Usame. destruct (e_id e =? a); reflexivity. Qed.
  Lemma Usame_end_d a o dd (e : gedge) : end_d R dd (Usame R a o e) = end_d R dd e.
  Proof. destruct dd; cbn [end_d]; [apply Usame_from|apply Usame_to]. Qed.
  Lemma Usame_other a o (e : gedge) : e_id e <> a -> Usame R a o e = e.
  Proof. intros H. unfold Usame. apply Z.eqb_neq in H. rewrite H. reflexivity. Qed.
  Lemma same_ends d (e1 e2 : gedge) : end_d R d e1 = end_d R d e2 -> end_o R d e1 = end_o R d e2 ->
    e_from e1 = e_from e2 /\ e_to e1 = e_to e2.
  Proof. destruct d; cbn [end_d end_o]; auto. Qed.

  Section Ctx.
    Variables (g : graph) (a b : Z) (d : nat) (e1 e2 : gedge).
    Hypothesis W : WF R g.
    Hypothesis Hd : (d <= 1)%nat.
    Hypothesis Hab : a <> b.
    Hypothesis He1 : In e1 (g_edges g).
    Hypothesis He2 : In e2 (g_edges g).
    Hypothesis Ha : e_id e1 = a.
    Hypothesis Hb : e_id e2 = b.
    Hypothesis Hed : end_d R d e1 = end_d R d e2.
    Hypothesis Heo : end_o R d e1 = end_o R d e2.
    Local Notation G := (G_same R g a b d e2).
    Local Notation V := (Vsame d (end_d R d e2) (end_o R d e2) b).
    Local Notation U := (Usame R a (e_opics e2)).
    Local Notation Eb := (filter (fun e : gedge => negb (e_id e =? b)) (g_edges g)).

    Lemma G_nodes : g_nodes G = map V (g_nodes g).
    Proof. reflexivity. Qed.
    Lemma G_edges : g_edges G = map U Eb.
    Proof. reflexivity. Qed.
    Lemma G_terminal dd : terminal G dd = terminal g dd.
    Proof. destruct dd; reflexivity. Qed.

    Lemma G_node_in n' : In n' (g_nodes G) <-> exists n, In n (g_nodes g) /\ n' = V n.
    Proof. rewrite G_nodes, in_map_iff. split; intros [n [H1 H2]]; exists n; auto. Qed.
    Lemma G_edge_in e' : In e' (g_edges G) <-> exists e, In e (g_edges g) /\ e_id e <> b /\ e' = U e.
    Proof.
      rewrite G_edges, in_map_iff. split.
      - intros [e [H1 H2]]. apply filter_In in H2. destruct H2 as [H2 H3].
        apply negb_true_iff, Z.eqb_neq in H3. exists e. auto.
      - intros [e [H1 [H2 H3]]]. exists e. split; [auto|]. apply filter_In. split; [exact H1|].
        apply negb_true_iff, Z.eqb_neq. exact H2.
    Qed.

    Lemma list_nodup n dd : (dd <= 1)%nat -> In n (g_nodes g) -> NoDup (node_eids n dd).
    Proof.
      intros Hdd Hn. destruct dd as [|[|dd]]; try lia.
      - apply (wf_ref1 R g W). exact Hn.
      - apply (wf_ref0 R g W). exact Hn.
    Qed.
    Lemma V_eids n dd : (dd <= 1)%nat -> In n (g_nodes g) ->
      node_eids (V n) dd = remove_first b (node_eids n dd).
    Proof. intros Hdd Hn. apply (Vsame_eids g b d e2 n dd); assumption. Qed.
    Lemma V_in n dd x : (dd <= 1)%nat -> In n (g_nodes g) ->
      (In x (node_eids (V n) dd) <-> In x (node_eids n dd) /\ x <> b).
    Proof.
      intros Hdd Hn. rewrite V_eids by assumption. apply remove_first_In_iff. apply list_nodup; assumption.
    Qed.
    Lemma ends_dd dd : end_d R dd e1 = end_d R dd e2 /\ end_o R dd e1 = end_o R dd e2.
    Proof. destruct (same_ends d e1 e2 Hed Heo) as [Hf Ht]. destruct dd; cbn [end_d end_o]; auto. Qed.

    Lemma G_RefOK dd : (dd <= 1)%nat -> RefOK R G dd.
    Proof.
      intros Hdd. destruct (wf_ref R g dd W Hdd) as [A [B C]].
      assert (Hdd' : (1 - dd <= 1)%nat) by lia.
      split; [|split].
      - intros n' Hn'. apply G_node_in in Hn'. destruct Hn' as [n [Hn ->]].
        rewrite V_eids by assumption. apply remove_first_NoDup. apply A. exact Hn.
      - intros n' eid Hn' Hin. apply G_node_in in Hn'. destruct Hn' as [n [Hn ->]].
        apply V_in in Hin; [|assumption|assumption]. destruct Hin as [Hin Hne].
        destruct (B n eid Hn Hin) as [e [He [Hid Hend]]].
        exists (U e). split; [|split].
        + apply G_edge_in. exists e. repeat split; auto. congruence.
        + rewrite Usame_id. exact Hid.
        + rewrite Usame_end_d, Vsame_id. exact Hend.
      - intros e' He'. apply G_edge_in in He'. destruct He' as [e [He [Hne ->]]].
        destruct (C e He) as [n [Hn [Hid Hin]]]. exists (V n). split; [|split].
        + apply G_node_in. exists n. auto.
        + rewrite Vsame_id, Usame_end_d. exact Hid.
        + rewrite Usame_id. apply V_in; auto.
    Qed.

    Lemma G_TermOK dd : (dd <= 1)%nat -> TermOK R G dd.
    Proof.
      intros Hdd. assert (T : TermOK R g dd) by (destruct dd as [|[|dd]]; try lia; apply W).
      destruct T as [n [Hn [Hid Hl]]]. exists (V n). split; [apply G_node_in; exists n; auto|]. split.
      - rewrite Vsame_id, G_terminal. exact Hid.
      - rewrite V_eids by assumption. rewrite Hl. reflexivity.
    Qed.

    Lemma G_NoDangle dd : (dd <= 1)%nat -> NoDangle R G dd.
    Proof.
      intros Hdd n' Hn' Hne. apply G_node_in in Hn'. destruct Hn' as [n [Hn ->]].
      rewrite Vsame_id, G_terminal in Hne.
      assert (T : NoDangle R g dd) by (destruct dd as [|[|dd]]; try lia; apply W).
      specialize (T n Hn Hne).
      destruct (in_dec Z.eq_dec b (node_eids n dd)) as [Hb'|Hb'].
      - assert (Ha' : In a (node_eids (V n) dd)).
        { apply V_in; auto. split; [|exact Hab]. rewrite <- Ha.
          apply (in_list_o R g n e1 dd W Hdd Hn He1).
          rewrite <- Hb in Hb'. apply (in_list_o R g n e2 dd W Hdd Hn He2) in Hb'.
          rewrite <- Hb'. apply ends_dd. }
        intros E. rewrite E in Ha'. destruct Ha'.
      - rewrite V_eids by assumption. rewrite remove_first_notin by exact Hb'. exact T.
    Qed.

    Lemma G_Layered : Layered R G.
    Proof.
      destruct (wf_layered R g W) as [lv Hlv]. exists lv. intros e' He'.
      apply G_edge_in in He'. destruct He' as [e [He [_ ->]]].
      rewrite Usame_from, Usame_to. apply Hlv. exact He.
    Qed.

    Lemma G_WF : WF R G.
    Proof.
      constructor.
      - unfold nids. rewrite G_nodes, map_map.
        rewrite (map_ext _ n_id) by (intros n; apply Vsame_id). apply W.
      - unfold eids. rewrite G_edges, map_map.
        rewrite (map_ext _ (@e_id R)) by (intros e; apply Usame_id).
        apply NoDup_map_filter. apply W.
      - apply G_RefOK. lia.
      - apply G_RefOK. lia.
      - intros e' He'. apply G_edge_in in He'. destruct He' as [e [He [_ ->]]].
        unfold Usame. destruct (e_id e =? a).
        + cbn [edge_set_opics e_opics]. apply opics_add_sorted. apply W. exact He.
        + apply W. exact He.
      - apply G_TermOK. lia.
      - apply G_TermOK. lia.
      - apply G_NoDangle. lia.
      - apply G_NoDangle. lia.
      - apply G_Layered.
    Qed.

    Lemma G_perm_b : Permutation (g_edges g) (e2 :: Eb).
    Proof.
      pose proof (perm_extract (@e_id R) (g_edges g) e2 (wf_eids R g W) He2) as P1.
      rewrite Hb in P1. exact P1.
    Qed.

    Lemma G_den w : den G w = den g w.
    Proof.
      rewrite (den_FE R G w G_WF), (den_FE R g w W).
      pose proof G_perm_b as P1.
      assert (He1b : In e1 Eb).
      { apply filter_In. split; [exact He1|]. apply negb_true_iff, Z.eqb_neq. congruence. }
      pose proof (perm_extract (@e_id R) Eb e1 (NoDup_map_filter _ _ _ (wf_eids R g W)) He1b) as P2.
      rewrite Ha in P2.
      set (E0 := filter (fun y : gedge => negb (e_id y =? a)) Eb) in *.
      assert (HU : map U E0 = E0).
      { apply map_id_in. intros x Hx. apply Usame_other. apply filter_In in Hx. destruct Hx as [_ Hx].
        apply negb_true_iff, Z.eqb_neq in Hx. exact Hx. }
      assert (PG : Permutation (g_edges G) (U e1 :: E0)).
      { rewrite G_edges. rewrite <- HU. change (U e1 :: map U E0) with (map U (e1 :: E0)).
        apply Permutation_map. exact P2. }
      assert (Pg : Permutation (g_edges g) (e1 :: e2 :: E0)).
      { eapply Permutation_trans; [exact P1|].
        eapply Permutation_trans; [apply perm_skip; exact P2|apply perm_swap]. }
      rewrite (FE_perm R _ _ _ _ _ _ PG), (FE_perm R _ _ _ _ _ _ Pg).
      cbn [G_same g_t0 g_t1].
      destruct (same_ends d e1 e2 Hed Heo) as [Hf Ht].
      apply FE_merge_same.
      - exact Hf.
      - exact Ht.
      - apply Usame_from.
      - apply Usame_to.
      - intros o. unfold Usame. rewrite Ha, Z.eqb_refl. cbn [edge_set_opics e_opics].
        apply opics_coeff_add.
    Qed.

    Lemma G_edge_count : S (length (g_edges G)) = length (g_edges g).
    Proof.
      rewrite G_edges, map_length. rewrite (Permutation_length G_perm_b). reflexivity.
    Qed.
    Lemma G_node_count : length (g_nodes G) = length (g_nodes g).
    Proof. rewrite G_nodes. apply map_length. Qed.
  End Ctx.

  Lemma merge_same_spec (g : graph) (a b : Z) (d : nat) (e1 e2 : gedge) :
    WF R g -> (d <= 1)%nat -> a <> b ->
    In e1 (g_edges g) -> In e2 (g_edges g) -> e_id e1 = a -> e_id e2 = b ->
    end_d R d e1 = end_d R d e2 -> end_o R d e1 = end_o R d e2 ->
    WF R (G_same R g a b d e2) /\
    (forall w, den (G_same R g a b d e2) w = den g w) /\
    S (length (g_edges (G_same R g a b d e2))) = length (g_edges g) /\
    length (g_nodes (G_same R g a b d e2)) = length (g_nodes g).
  Proof.
    intros W Hd Hab He1 He2 Ha Hb Hed Heo. split; [|split; [|split]].
    - apply (G_WF g a b d e1 e2); assumption.
    - intros w. apply (G_den g a b d e1 e2); assumption.
    - apply G_edge_count; assumption.
    - apply G_node_count.
  Qed.
End MergeSame.

Print Assumptions merge_same_spec.
