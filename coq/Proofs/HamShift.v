(* C06 (a): the shift loop of _local_opchains_to_mpo enumerates exactly the translates that fit, in the code's order;
   the chain list denotes the sum of identity-padded local terms; with C05 every graph returned by from_opchains for
   one of the four chain-built models denotes the textbook word sum, for every L >= 1 and all parameters. *)
From Coq Require Import ZArith List Lia Bool Ring.
From PT Require Import Base.Scalar Base.BigSum Base.Mx Model.OpGraph Model.FromOpchains Model.GraphMPO
                       Model.Hamiltonians Model.HamFormulas
                       Proofs.DenRev_C05 Proofs.FromOpchainsThm.
Import ListNotations.
Open Scope Z_scope.

Lemma filter_lt_seq k m : filter (fun i => Nat.ltb i k) (seq 0 m) = seq 0 (Nat.min k m).
Proof.
  induction m as [|m IH]; [rewrite Nat.min_0_r; reflexivity|].
  rewrite seq_S, filter_app, IH. cbn [filter seq plus].
  destruct (Nat.ltb m k) eqn:E.
  - apply Nat.ltb_lt in E. rewrite !Nat.min_r by lia. rewrite seq_S. reflexivity.
  - apply Nat.ltb_ge in E. rewrite !Nat.min_l by lia. apply app_nil_r.
Qed.

Section Shift.
  Variable R : cring.
  Add Ring Rring_shift : (k_rt R).
  Notation "0r" := (k0 R). Notation "1r" := (k1 R).
  Infix "+r" := (kadd R) (at level 50, left associativity).
  Infix "*r" := (kmul R) (at level 40, left associativity).
  Notation chain := (chain R).

  (* the code's order: local chains in table order, start sites ascending, exactly those with i + len <= L *)
  Lemma shift_chains_spec (lop : list chain) L :
    local_opchains_to_chains lop L =
    flat_map (fun l => map (shift_chain l) (filter (fun i => Nat.leb (i + length (c_oids l)) L) (seq 0 (S L)))) lop.
  Proof.
    unfold local_opchains_to_chains. induction lop as [|l lop IH]; [reflexivity|].
    cbn [flat_map]. rewrite IH. f_equal. unfold shifts. f_equal.
    rewrite (filter_ext _ (fun i => Nat.ltb i (L + 1 - length (c_oids l)))).
    - rewrite filter_lt_seq. f_equal. lia.
    - intros i. destruct (Nat.leb (i + length (c_oids l)) L) eqn:E1, (Nat.ltb i (L + 1 - length (c_oids l))) eqn:E2; try reflexivity.
      + apply Nat.leb_le in E1. apply Nat.ltb_ge in E2. lia.
      + apply Nat.leb_gt in E1. apply Nat.ltb_lt in E2. lia.
  Qed.

  Lemma shift_chains_In (lop : list chain) L c :
    In c (local_opchains_to_chains lop L) <->
    exists l i, In l lop /\ (i + length (c_oids l) <= L)%nat /\ c = shift_chain l i.
  Proof.
    unfold local_opchains_to_chains, shifts. rewrite in_flat_map. split.
    - intros [l [Hl Hc]]. apply in_map_iff in Hc. destruct Hc as [i [E Hi]]. apply in_seq in Hi.
      exists l, i. repeat split; auto; lia.
    - intros [l [i [Hl [Hi E]]]]. exists l. split; [exact Hl|]. apply in_map_iff. exists i. split; [auto|]. apply in_seq. lia.
  Qed.

  Lemma shift_chains_length (lop : list chain) L :
    length (local_opchains_to_chains lop L) = fold_right (fun l n => (L + 1 - length (c_oids l) + n)%nat) 0%nat lop.
  Proof.
    unfold local_opchains_to_chains. induction lop as [|l lop IH]; [reflexivity|].
    cbn [flat_map fold_right]. rewrite app_length, IH. unfold shifts. rewrite map_length, seq_length. reflexivity.
  Qed.

  Lemma suml_flat_map {A B} (f : A -> list B) (l : list A) (g : B -> R) :
    suml (flat_map f l) g = suml l (fun x => suml (f x) g).
  Proof. induction l as [|a l IH]; [reflexivity|]. cbn [flat_map suml]. rewrite suml_app, IH. reflexivity. Qed.

  (* the shifted chain list denotes the sum of identity-padded local terms *)
  Theorem shift_chains_den (lop : list chain) L idn w :
    chains_den L idn (local_opchains_to_chains lop L) w = local_sum L idn lop w.
  Proof.
    unfold chains_den, local_opchains_to_chains, local_sum. rewrite suml_flat_map.
    apply suml_ext. intros l _. unfold shifts, hits. rewrite suml_map, suml_seq, <- sumn_scal_l.
    apply sumn_ext. intros i _. unfold is_word, padw, padded_oids, shift_chain, indb. cbn [c_oids c_istart c_coeff].
    destruct (zlist_eqb _ w); ring.
  Qed.

  (* ---- the four tables in textbook form ---- *)
  Ltac table L :=
    unfold local_sum, hits; cbn [suml c_coeff c_oids lc length];
    replace (L + 1 - 2)%nat with (L - 1)%nat by lia; replace (L + 1 - 1)%nat with L by lia.

  Lemma xxz_table (half J D h : R) L w : (1 <= L)%nat -> local_sum L 0 (xxz_lop half J D h) w = xxz_formula half J D h L w.
  Proof.
    intros HL. unfold xxz_lop, xxz_formula, T1, T2. table L.
    repeat (rewrite sumn_add || rewrite sumn_scal_l). ring.
  Qed.
  Lemma xxz1_table (half J D h : R) L w : (1 <= L)%nat -> local_sum L 0 (xxz1_lop half J D h) w = xxz_formula half J D h L w.
  Proof.
    intros HL. unfold xxz1_lop, xxz_formula, T1, T2. table L.
    repeat (rewrite sumn_add || rewrite sumn_scal_l). ring.
  Qed.
  Lemma bose_table (t U mu : R) L w : (1 <= L)%nat -> local_sum L 0 (bose_lop t U mu) w = bose_formula t U mu L w.
  Proof.
    intros HL. unfold bose_lop, bose_formula, T1, T2. table L.
    repeat (rewrite sumn_add || rewrite sumn_scal_l). ring.
  Qed.
  Lemma fermi_table (t U mu : R) L w : (1 <= L)%nat -> local_sum L 0 (fermi_lop t U mu) w = fermi_formula t U mu L w.
  Proof.
    intros HL. unfold fermi_lop, fermi_formula, T1, T2. table L.
    repeat (rewrite sumn_add || rewrite sumn_scal_l). ring.
  Qed.

  (* ---- with C05: graphs of the chain-built models ---- *)
  Notation graph := (graph R).
  Lemma spec_graph_den cover (sp : hamspec R) L (g : graph) : (1 <= L)%nat ->
    spec_graph cover sp L = Ok g ->
    forall w, den_rev g w = local_sum L (h_idn sp) (h_lop sp) w /\
              (linked g = true -> den g w = local_sum L (h_idn sp) (h_lop sp) w).
  Proof.
    intros HL H w. unfold spec_graph, spec_chains in H. split.
    - rewrite (from_opchains_den_rev R cover _ L _ g HL H w). apply shift_chains_den.
    - intros Hl. rewrite (from_opchains_den R cover _ L _ g HL H Hl w). apply shift_chains_den.
  Qed.

  Theorem xxz_den cover (half J D h : R) L (g : graph) : (1 <= L)%nat ->
    spec_graph cover (xxz_spec half J D h) L = Ok g ->
    forall w, den_rev g w = xxz_formula half J D h L w /\ (linked g = true -> den g w = xxz_formula half J D h L w).
  Proof. intros HL H w. rewrite <- (xxz_table half J D h L w HL). exact (spec_graph_den cover _ L g HL H w). Qed.
  Theorem xxz1_den cover (half sq2 J D h : R) L (g : graph) : (1 <= L)%nat ->
    spec_graph cover (xxz1_spec half sq2 J D h) L = Ok g ->
    forall w, den_rev g w = xxz_formula half J D h L w /\ (linked g = true -> den g w = xxz_formula half J D h L w).
  Proof. intros HL H w. rewrite <- (xxz1_table half J D h L w HL). exact (spec_graph_den cover _ L g HL H w). Qed.
  Theorem bose_den cover d sq (t U mu : R) L (g : graph) : (1 <= L)%nat ->
    spec_graph cover (bose_spec d sq t U mu) L = Ok g ->
    forall w, den_rev g w = bose_formula t U mu L w /\ (linked g = true -> den g w = bose_formula t U mu L w).
  Proof. intros HL H w. rewrite <- (bose_table t U mu L w HL). exact (spec_graph_den cover _ L g HL H w). Qed.
  Theorem fermi_den cover (half t U mu : R) L (g : graph) : (1 <= L)%nat ->
    spec_graph cover (fermi_spec half t U mu) L = Ok g ->
    forall w, den_rev g w = fermi_formula t U mu L w /\ (linked g = true -> den g w = fermi_formula t U mu L w).
  Proof. intros HL H w. rewrite <- (fermi_table t U mu L w HL). exact (spec_graph_den cover _ L g HL H w). Qed.
End Shift.
