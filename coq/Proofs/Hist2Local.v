(* C02, round 2: charge conservation through the contractions of pytenet/operation.py that TDVP / DMRG are built from
   (Model/Operation.v), in the style of Proofs/HistSparse.v.

   An environment block E of numpy shape (Da, Dw, Db) (axis 0: ket bond, axis 1: MPO bond, axis 2: bra bond) is charge
   conserving under (qk, qw, qb) when  E[a, w, b] <> 0  ->  qk[a] + qw[w] = qb[b];  the code's own assertion
   is_qsparse(BR[i], [psi.qD[i+1], H.qD[i+1], -psi.qD[i+1]]) is this statement with qk = qb = psi.qD[i+1], qw = H.qD[i+1]
   ([env_qsparse_spec]).  Proved here: the two environment step functions map charge-conserving blocks and tensors to
   charge-conserving blocks; apply_local_hamiltonian maps charge-conserving site tensors to charge-conserving site tensors;
   apply_local_bond_contraction maps charge-conserving bond matrices to charge-conserving bond matrices; and the reshapes
   around the QR calls of the sweeps (Model/Sweeps.v: site_flat / site_unflat / site_tr / lmul_site / rmul_site). *)
From Coq Require Import ZArith List Lia Bool Arith Ring.
From PT Require Import Base.Scalar Base.BigSum Base.Mx Model.Tensor Model.MPSOps Model.Operation Model.Sweeps.
From PT Require Import Proofs.MPSOpsBase Proofs.MPSOpsTop Proofs.MPSOpsShape Proofs.OperationSums Proofs.OperationEntries Proofs.HistSparse.
Import ListNotations.
Open Scope nat_scope.

(* Model/Sweeps.v has its own (identical) copy of qnumber_flatten *)
Lemma Sweeps_qflat_length qa qb : length (Sweeps.qflat qa qb) = length qa * length qb.
Proof. exact (qflat_length qa qb). Qed.
Lemma Sweeps_zget_qflat qa qb i : i < length qa * length qb ->
  zget (Sweeps.qflat qa qb) i = (zget qa (i / length qb) + zget qb (i mod length qb))%Z.
Proof. exact (zget_qflat qa qb i). Qed.
Lemma Sweeps_zget_qflat_pair qa qb i j : i < length qa -> j < length qb ->
  zget (Sweeps.qflat qa qb) (i * length qb + j) = (zget qa i + zget qb j)%Z.
Proof. exact (zget_qflat_pair qa qb i j). Qed.

Section Local.
  Variable R : cring.
  Add Ring Rring_hist2local : (k_rt R).
  Notation rO := (k0 R).
  Infix "*" := (kmul R).
  Notation mx := (mx R).
  Notation site := (site R). Notation osite := (osite R). Notation env := (env R).
  Notation msp := (msp R). Notation site_okP := (site_okP R). Notation osite_okP := (osite_okP R).

  Lemma kconj_nz (x : R) : kconj R x <> rO -> x <> rO.
  Proof. intros H E. apply H. rewrite E. apply kconj_0. Qed.

  (* ---------- charge-conserving environment blocks ---------- *)
  Definition env_okP (qk qw qb : list Z) (E : env) : Prop :=
    env_ok (length qw) (length qk) (length qb) E /\
    forall w a b, w < length qw -> a < length qk -> b < length qb -> get (esel E w) a b <> rO ->
      (zget qk a + zget qw w = zget qb b)%Z.

  (* the assertion of the code *)
  Lemma env_qsparse_spec qk qw qb (E : env) :
    env_qsparse qk qw (zneg qb) E = true <->
    forall w a b, w < length qw -> a < length qk -> b < length qb -> get (esel E w) a b <> rO ->
      (zget qk a + zget qw w = zget qb b)%Z.
  Proof.
    unfold env_qsparse, zneg. rewrite map_length. rewrite forallb_seq0. split.
    - intros H w a b Hw Ha Hb Hnz. specialize (H w Hw). rewrite forallb_seq0 in H. specialize (H a Ha).
      rewrite forallb_seq0 in H. specialize (H b Hb). apply entry_b in H; [|exact Hnz]. rewrite zget_opp in H. lia.
    - intros H w Hw. apply forallb_seq0. intros a Ha. apply forallb_seq0. intros b Hb. apply entry_b. intros Hnz.
      rewrite zget_opp. specialize (H w a b Hw Ha Hb Hnz). lia.
  Qed.

  Lemma site_okP_ok qd ql qr (A : site) : site_okP qd ql qr A -> site_ok (length qd) (length ql) (length qr) A.
  Proof. intros [S _]. apply site_shape_ok. exact S. Qed.
  Lemma osite_okP_ok qd ql qr (W : osite) : osite_okP qd ql qr W -> osite_ok (length qd) (length ql) (length qr) W.
  Proof. intros [S _]. apply osite_shape_ok. exact S. Qed.

  (* [[[1]]] at a boundary bond carrying equal ket / bra charges and MPO charge 0 *)
  Lemma env_one_okP (q : Z) : env_okP [q] [0%Z] [q] env_one.
  Proof.
    split.
    - split; [reflexivity|]. intros w Hw. cbn [length] in Hw. assert (w = 0) as -> by lia. split; reflexivity.
    - intros w a b Hw Ha Hb _. cbn [length] in *. assert (w = 0) as -> by lia. assert (a = 0) as -> by lia.
      assert (b = 0) as -> by lia. unfold zget. cbn [nth]. lia.
  Qed.

  Section Steps.
    Variables qd qwl qwr : list Z.
    Variable W : osite.
    Hypothesis Hd : 0 < length qd.
    Hypothesis Hwl : 0 < length qwl.
    Hypothesis Hwr : 0 < length qwr.
    Hypothesis HW : osite_okP qd qwl qwr W.

    (* ---------- contraction_operator_step_right ---------- *)
    Theorem opstep_right_okP qal qar qbl qbr (A B : site) (E : env) :
      site_okP qd qal qar A -> site_okP qd qbl qbr B -> env_okP qar qwr qbr E ->
      env_okP qal qwl qbl (contraction_operator_step_right A B W E).
    Proof.
      intros HA HB [SE HE]. pose proof (site_okP_ok _ _ _ _ HA) as SA. pose proof (site_okP_ok _ _ _ _ HB) as SB.
      pose proof (osite_okP_ok _ _ _ _ HW) as SW. split.
      - apply (shape_opstep_right R (length qd) (length qal) (length qar) (length qbl) (length qbr) (length qwl) (length qwr)); assumption.
      - intros wl a b Hw Ha Hb Hnz.
        rewrite (get_opstep_right R (length qd) (length qal) (length qar) (length qbl) (length qbr) (length qwl) (length qwr)) in Hnz by assumption.
        apply sumn_nz in Hnz. destruct Hnz as (s & Hs & Hnz). apply sumn_nz in Hnz. destruct Hnz as (c & Hc & Hnz).
        pose proof (kconj_nz _ (mul_nz_r R _ _ Hnz)) as NB. apply mul_nz_l in Hnz.
        apply sumn_nz in Hnz. destruct Hnz as (t & Ht & Hnz). apply sumn_nz in Hnz. destruct Hnz as (wr & Hwr' & Hnz).
        pose proof (mul_nz_l R _ _ Hnz) as NW. apply mul_nz_r in Hnz.
        apply sumn_nz in Hnz. destruct Hnz as (c' & Hc' & Hnz).
        pose proof (mul_nz_l R _ _ Hnz) as NA. pose proof (mul_nz_r R _ _ Hnz) as NE.
        pose proof (proj2 HA t Ht a c' Ha Hc' NA) as E1. pose proof (proj2 HB s Hs b c Hb Hc NB) as E2.
        pose proof (proj2 HW s t Hs Ht wl wr Hw Hwr' NW) as E3. pose proof (HE wr c' c Hwr' Hc' Hc NE) as E4. lia.
    Qed.

    (* ---------- contraction_operator_step_left ---------- *)
    Theorem opstep_left_okP qal qar qbl qbr (A B : site) (L : env) :
      site_okP qd qal qar A -> site_okP qd qbl qbr B -> env_okP qal qwl qbl L ->
      env_okP qar qwr qbr (contraction_operator_step_left A B W L).
    Proof.
      intros HA HB [SL HL]. pose proof (site_okP_ok _ _ _ _ HA) as SA. pose proof (site_okP_ok _ _ _ _ HB) as SB.
      pose proof (osite_okP_ok _ _ _ _ HW) as SW. split.
      - apply (shape_opstep_left R (length qd) (length qal) (length qar) (length qbl) (length qbr) (length qwl) (length qwr)); assumption.
      - intros wr c' c Hw Hc' Hc Hnz.
        rewrite (get_opstep_left R (length qd) (length qal) (length qar) (length qbl) (length qbr) (length qwl) (length qwr)) in Hnz by assumption.
        apply sumn_nz in Hnz. destruct Hnz as (t & Ht & Hnz). apply sumn_nz in Hnz. destruct Hnz as (a & Ha & Hnz).
        pose proof (mul_nz_l R _ _ Hnz) as NA. apply mul_nz_r in Hnz.
        apply sumn_nz in Hnz. destruct Hnz as (s & Hs & Hnz). apply sumn_nz in Hnz. destruct Hnz as (wl & Hwl' & Hnz).
        pose proof (mul_nz_l R _ _ Hnz) as NW. apply mul_nz_r in Hnz.
        apply sumn_nz in Hnz. destruct Hnz as (b & Hb & Hnz).
        pose proof (mul_nz_l R _ _ Hnz) as NL. pose proof (kconj_nz _ (mul_nz_r R _ _ Hnz)) as NB.
        pose proof (proj2 HA t Ht a c' Ha Hc' NA) as E1. pose proof (proj2 HB s Hs b c Hb Hc NB) as E2.
        pose proof (proj2 HW s t Hs Ht wl wr Hwl' Hw NW) as E3. pose proof (HL wl a b Hwl' Ha Hb NL) as E4. lia.
    Qed.

    (* ---------- apply_local_hamiltonian ---------- *)
    Lemma alh_shape (L E : env) (X : site) (ql qr : list Z) :
      env_ok (length qwl) (length ql) (length ql) L -> env_ok (length qwr) (length qr) (length qr) E ->
      site_shape (length qd) (length ql) (length qr) (apply_local_hamiltonian L E W X) = true.
    Proof.
      intros SL SE. destruct (osite_ok_odl R _ _ _ W Hd (osite_okP_ok _ _ _ _ HW)) as (_ & _ & E9).
      destruct (env_ok_edl R _ _ _ L Hwl SL) as (_ & G2 & _). destruct (env_ok_edl R _ _ _ E Hwr SE) as (_ & G5 & _).
      unfold apply_local_hamiltonian. cbv zeta. rewrite E9, G2, G5.
      apply (site_shape_stab R). intros s Hs. split; [apply wfb_tab|]. split; reflexivity.
    Qed.

    Theorem alh_okP ql qr (L E : env) (X : site) :
      env_okP ql qwl ql L -> env_okP qr qwr qr E -> site_okP qd ql qr X ->
      site_okP qd ql qr (apply_local_hamiltonian L E W X).
    Proof.
      intros [SL HL] [SE HE] HX. pose proof (site_okP_ok _ _ _ _ HX) as SX. pose proof (osite_okP_ok _ _ _ _ HW) as SW. split.
      - apply alh_shape; assumption.
      - intros s Hs b c Hb Hc Hnz.
        rewrite (get_local_hamiltonian R (length qd) (length ql) (length qr) (length ql) (length qr) (length qwl) (length qwr)) in Hnz by assumption.
        apply sumn_nz in Hnz. destruct Hnz as (a & Ha & Hnz). apply sumn_nz in Hnz. destruct Hnz as (wl & Hwl' & Hnz).
        pose proof (mul_nz_r R _ _ Hnz) as NL. apply mul_nz_l in Hnz.
        apply sumn_nz in Hnz. destruct Hnz as (t & Ht & Hnz). apply sumn_nz in Hnz. destruct Hnz as (wr & Hwr' & Hnz).
        pose proof (mul_nz_l R _ _ Hnz) as NW. apply mul_nz_r in Hnz.
        apply sumn_nz in Hnz. destruct Hnz as (c' & Hc' & Hnz).
        pose proof (mul_nz_l R _ _ Hnz) as NX. pose proof (mul_nz_r R _ _ Hnz) as NE.
        pose proof (proj2 HX t Ht a c' Ha Hc' NX) as E1. pose proof (proj2 HW s t Hs Ht wl wr Hwl' Hwr' NW) as E3.
        pose proof (HL wl a b Hwl' Ha Hb NL) as E4. pose proof (HE wr c' c Hwr' Hc' Hc NE) as E5. lia.
    Qed.
  End Steps.

  (* ---------- bond matrices and apply_local_bond_contraction ---------- *)
  (* a bond matrix C sitting on a bond: C[a, b] <> 0 -> ql[a] = qr[b], with the shape given by the charge lists *)
  Definition bond_okP (ql qr : list Z) (C : mx) : Prop := nr C = length ql /\ nc C = length qr /\ msp 0%Z ql qr C.

  Theorem albc_okP qw ql qr (L E : env) (C : mx) : 0 < length qw ->
    env_okP ql qw ql L -> env_okP qr qw qr E -> bond_okP ql qr C ->
    bond_okP ql qr (apply_local_bond_contraction L E C).
  Proof.
    intros Hw [SL HL] [SE HE] (rC & cC & HC).
    destruct (env_ok_edl R _ _ _ L Hw SL) as (_ & G2 & _). destruct (env_ok_edl R _ _ _ E Hw SE) as (_ & G5 & _).
    split; [unfold apply_local_bond_contraction; cbv zeta; cbn [nr tab]; exact G2|].
    split; [unfold apply_local_bond_contraction; cbv zeta; cbn [nc tab]; exact G5|].
    intros b c Hb Hc Hnz.
    rewrite (get_local_bond R (length ql) (length qr) (length ql) (length qr) (length qw)) in Hnz by assumption.
    apply sumn_nz in Hnz. destruct Hnz as (a & Ha & Hnz). apply sumn_nz in Hnz. destruct Hnz as (w & Hw' & Hnz).
    pose proof (mul_nz_l R _ _ Hnz) as NL. apply mul_nz_r in Hnz.
    apply sumn_nz in Hnz. destruct Hnz as (c' & Hc' & Hnz).
    pose proof (mul_nz_l R _ _ Hnz) as NC. pose proof (mul_nz_r R _ _ Hnz) as NE.
    pose proof (HC a c' Ha Hc' NC) as E1. pose proof (HL w a b Hw' Ha Hb NL) as E2. pose proof (HE w c' c Hw' Hc' Hc NE) as E3. lia.
  Qed.

  Lemma bond_okP_trmx ql qr (C : mx) : bond_okP ql qr C -> bond_okP qr ql (trmx C).
  Proof.
    intros (rC & cC & HC). split; [exact cC|]. split; [exact rC|].
    intros a b Ha Hb Hnz. unfold trmx in Hnz. rewrite get_tab in Hnz by lia. specialize (HC b a Hb Ha Hnz). lia.
  Qed.
  Lemma bond_okP_zneg ql qr (C : mx) : bond_okP ql qr C <-> bond_okP (zneg ql) (zneg qr) C.
  Proof.
    unfold bond_okP, zneg. split; intros (rC & cC & HC).
    - split; [rewrite map_length; exact rC|]. split; [rewrite map_length; exact cC|]. intros a b Ha Hb Hnz.
      rewrite map_length in Ha, Hb. specialize (HC a b Ha Hb Hnz). rewrite !zget_opp. lia.
    - rewrite map_length in rC, cC. split; [exact rC|]. split; [exact cC|]. intros a b Ha Hb Hnz. specialize (HC a b).
      rewrite !map_length in HC. specialize (HC Ha Hb Hnz). rewrite !zget_opp in HC. lia.
  Qed.

  (* ---------- the reshapes around the QR calls of the sweeps ---------- *)
  Section Reshape.
    Variable qd : list Z.
    Hypothesis Hd : 0 < length qd.

    Lemma site_okP_sdl ql qr (A : site) : site_okP qd ql qr A -> sdl A = length ql /\ sdr A = length qr /\ length A = length qd.
    Proof. intros HA. apply (site_ok_sdl R _ _ _ A Hd). apply site_okP_ok. exact HA. Qed.

    (* A.reshape((d*Dl, Dr)) is charge conserving under (qnumber_flatten([qd, qDl]), qDr) *)
    Lemma site_flat_okP ql qr (A : site) : site_okP qd ql qr A -> bond_okP (qflat qd ql) qr (site_flat A).
    Proof.
      intros HA. destruct (site_okP_sdl _ _ _ HA) as (E1 & E2 & E3). unfold bond_okP, site_flat. cbv zeta.
      rewrite E1, E2, E3, Sweeps_qflat_length. cbn [nr nc tab]. split; [reflexivity|]. split; [reflexivity|].
      intros r c Hr Hc Hnz. rewrite Sweeps_qflat_length in Hr. rewrite get_tab in Hnz by assumption.
      assert (Hl : length ql <> O) by (intros E; rewrite E in Hr; lia).
      assert (H1 : r / length ql < length qd) by (apply Nat.div_lt_upper_bound; [exact Hl|rewrite Nat.mul_comm; exact Hr]).
      assert (H2 : r mod length ql < length ql) by (apply Nat.mod_upper_bound; exact Hl).
      pose proof (proj2 HA _ H1 _ _ H2 Hc Hnz) as E. rewrite Sweeps_zget_qflat by exact Hr. lia.
    Qed.

    (* Q.reshape((d, Dl, k)) of a charge-conserving Q *)
    Lemma site_unflat_okP ql qb (Q : mx) : bond_okP (qflat qd ql) qb Q ->
      site_okP qd ql qb (site_unflat (length qd) (length ql) Q).
    Proof.
      intros (rQ & cQ & HQ). rewrite Sweeps_qflat_length in rQ. split.
      - unfold site_unflat. apply (site_shape_stab R). intros s Hs. split; [apply wfb_tab|]. split; [reflexivity|exact cQ].
      - intros s Hs a b Ha Hb Hnz. unfold site_unflat, sel, tabl in Hnz. rewrite (nth_map_seq (zeromx 0 0)) in Hnz by exact Hs.
        rewrite get_tab in Hnz by lia.
        assert (Hr : s * length ql + a < length (qflat qd ql)).
        { rewrite Sweeps_qflat_length. assert ((s + 1) * length ql <= length qd * length ql) by (apply Nat.mul_le_mono_r; lia). lia. }
        specialize (HQ _ _ Hr Hb Hnz). rewrite Sweeps_zget_qflat_pair in HQ by assumption. lia.
    Qed.

    (* A.transpose((0, 2, 1)) *)
    Lemma site_tr_okP ql qr (A : site) : site_okP qd ql qr A -> site_okP qd (zneg qr) (zneg ql) (site_tr A).
    Proof.
      intros [SA HA]. unfold zneg. split.
      - rewrite !map_length. unfold site_tr. unfold site_shape in *. rewrite map_length.
        apply andb_true_iff in SA. destruct SA as [S1 S2]. rewrite S1. cbn [andb]. rewrite forallb_forall in *.
        intros M HM. apply in_map_iff in HM. destruct HM as (N & <- & HN). specialize (S2 N HN).
        rewrite !andb_true_iff, !Nat.eqb_eq in S2. destruct S2 as [[_ S3] S4].
        unfold trmx. rewrite wfb_tab. cbn [nr nc tab]. rewrite S3, S4, !Nat.eqb_refl. reflexivity.
      - intros s Hs a b Ha Hb Hnz. rewrite !map_length in *. rewrite !zget_opp.
        destruct (site_shape_sel R _ _ _ A s SA Hs) as (_ & rM & cM).
        assert (Es : sel (site_tr A) s = trmx (sel A s)).
        { unfold site_tr, sel. rewrite <- (site_shape_length R _ _ _ A SA) in Hs.
          rewrite (nth_indep _ (zeromx 0 0) (trmx (zeromx 0 0))) by (rewrite map_length; exact Hs). apply map_nth. }
        rewrite Es in Hnz. unfold trmx in Hnz. rewrite get_tab in Hnz by lia.
        specialize (HA s Hs b a Hb Ha Hnz). lia.
    Qed.

    (* C . A[s]  (einsum(A, (0,3,2), C, (1,3), (0,1,2)) and tensordot(R, Anext, (1,1)).transpose((1,0,2))) *)
    Lemma lmul_site_okP qb ql qr (C : mx) (A : site) : bond_okP qb ql C -> site_okP qd ql qr A -> site_okP qd qb qr (lmul_site C A).
    Proof.
      intros (rC & cC & HC) [SA HA]. split.
      - unfold lmul_site, site_shape in *. rewrite map_length. apply andb_true_iff in SA. destruct SA as [S1 S2]. rewrite S1. cbn [andb].
        rewrite forallb_forall in *. intros M HM. apply in_map_iff in HM. destruct HM as (N & <- & HN). specialize (S2 N HN).
        rewrite !andb_true_iff, !Nat.eqb_eq in S2. destruct S2 as [[_ S3] S4].
        unfold mulmx. rewrite wfb_tab. cbn [nr nc tab]. rewrite rC, S4, !Nat.eqb_refl. reflexivity.
      - intros s Hs. destruct (site_shape_sel R _ _ _ A s SA Hs) as (_ & rM & cM).
        assert (Es : sel (lmul_site C A) s = mulmx C (sel A s)).
        { unfold lmul_site, sel. rewrite <- (site_shape_length R _ _ _ A SA) in Hs.
          rewrite (nth_indep _ (zeromx 0 0) (mulmx C (zeromx 0 0))) by (rewrite map_length; exact Hs). apply (map_nth (mulmx C)). }
        rewrite Es. replace (zget qd s) with (0 + zget qd s)%Z by lia.
        apply (msp_mulmx R 0%Z (zget qd s) qb ql qr); try assumption. apply HA. exact Hs.
    Qed.
    (* A[s] . C *)
    Lemma rmul_site_okP ql qr qb (A : site) (C : mx) : site_okP qd ql qr A -> bond_okP qr qb C -> site_okP qd ql qb (rmul_site A C).
    Proof.
      intros [SA HA] (rC & cC & HC). split.
      - unfold rmul_site, site_shape in *. rewrite map_length. apply andb_true_iff in SA. destruct SA as [S1 S2]. rewrite S1. cbn [andb].
        rewrite forallb_forall in *. intros M HM. apply in_map_iff in HM. destruct HM as (N & <- & HN). specialize (S2 N HN).
        rewrite !andb_true_iff, !Nat.eqb_eq in S2. destruct S2 as [[_ S3] S4].
        unfold mulmx. rewrite wfb_tab. cbn [nr nc tab]. rewrite cC, S3, !Nat.eqb_refl. reflexivity.
      - intros s Hs. destruct (site_shape_sel R _ _ _ A s SA Hs) as (_ & rM & cM).
        assert (Es : sel (rmul_site A C) s = mulmx (sel A s) C).
        { unfold rmul_site, sel. rewrite <- (site_shape_length R _ _ _ A SA) in Hs.
          rewrite (nth_indep _ (zeromx 0 0) ((fun M => mulmx M C) (zeromx 0 0))) by (rewrite map_length; exact Hs).
          apply (map_nth (fun M => mulmx M C)). }
        rewrite Es. replace (zget qd s) with (zget qd s + 0)%Z by lia.
        apply (msp_mulmx R (zget qd s) 0%Z ql qr qb); try assumption. apply HA. exact Hs.
    Qed.
  End Reshape.
End Local.
