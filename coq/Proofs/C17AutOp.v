(* Proofs about Model/AutOp.v (from_automaton): the graph unrolled from an automaton denotes the sum over
   the automaton's paths.  Part 1: layer recurrence (no assumption on the automaton).  *)
From Coq Require Import ZArith List Lia Bool Permutation Ring.
From PT Require Import Base.Scalar Base.BigSum Model.OpGraph Model.C17Common Model.AutOp Proofs.C17GraphSem.
Import ListNotations.
Open Scope Z_scope.

Lemma existsb_map_id (nid : Z) (l : list gnode) :
  existsb (fun x => x =? nid) (map n_id l) = existsb (fun n => n_id n =? nid) l.
Proof. induction l; simpl; [reflexivity|]. rewrite IHl. reflexivity. Qed.

Section AutProofs.
  Variable R : cring.
  Add Ring Rring_c17aut : (k_rt R).
  Notation "0r" := (k0 R). Notation "1r" := (k1 R).
  Infix "+r" := (kadd R) (at level 50, left associativity).
  Infix "*r" := (kmul R) (at level 40, left associativity).
  Notation graph := (graph R).
  Notation gedge := (gedge R).
  Notation autop := (autop R).
  Notation aedge := (aedge R).

  Variable aut : autop.
  Ltac splits := repeat match goal with |- _ /\ _ => split end.

  (* incoming automaton edges of a node, as the builder looks them up *)
  Definition edges_in (eids : list Z) : list aedge :=
    flat_map (fun eid => match afind_edge aut eid with Some e => [e] | None => [] end) eids.

  (* path sum from the start terminal to node a over |wr| sites (wr = reversed word), restricted to
     the active sets [acts i] of every layer, following the nodes' incoming edge-id lists *)
  Fixpoint apre_act (acts : nat -> list Z) (wr : list Z) (a : Z) : R :=
    match wr with
    | [] => if a =? a_t0 aut then 1r else 0r
    | o :: w' =>
        match afind_node aut a with
        | None => 0r
        | Some na =>
            suml (edges_in (n_in na)) (fun ea =>
              if ae_active ea (length w') && zmem (ae_from ea) (acts (length w'))
              then apre_act acts w' (ae_from ea) *r opics_coeff o (ae_opics ea (length w')) else 0r)
        end
    end.

  Lemma lookup_edges_ok l es : lookup_edges aut l = Ok es -> es = edges_in l.
  Proof.
    revert es; induction l as [|eid t IH]; intros es H; simpl in *.
    - inversion H; reflexivity.
    - destruct (afind_edge aut eid) as [e|]; [|discriminate].
      destruct (lookup_edges aut t) as [es'|]; simpl in H; [|discriminate].
      inversion H; subst. simpl. f_equal. apply IH. reflexivity.
  Qed.

  Lemma lookup_nodes_ok l ns : lookup_nodes aut l = Ok ns -> Forall2 (fun a n => afind_node aut a = Some n) l ns.
  Proof.
    revert ns; induction l as [|a t IH]; intros ns H; simpl in *.
    - inversion H; constructor.
    - destruct (afind_node aut a) as [n|] eqn:E; [|discriminate].
      destruct (lookup_nodes aut t) as [ns'|]; simpl in H; [|discriminate].
      inversion H; subst. constructor; auto.
  Qed.

  Lemma index_of_nth x l idx : index_of x l = Some idx -> nth_error l idx = Some x.
  Proof.
    revert idx; induction l as [|y t IH]; intros idx H; simpl in *; [discriminate|].
    destruct (Z.eqb_spec x y) as [->|Hne].
    - inversion H; reflexivity.
    - destruct (index_of x t) as [k|]; simpl in H; [|discriminate]. inversion H; subst. simpl. apply IH. reflexivity.
  Qed.
  Lemma index_of_zmem x l : zmem x l = match index_of x l with Some _ => true | None => false end.
  Proof.
    induction l as [|y t IH]; simpl; [reflexivity|].
    destruct (x =? y); simpl; [reflexivity|]. rewrite IH. destruct (index_of x t); reflexivity.
  Qed.

  (* ---------- level 1: the incoming edges of one new node ---------- *)
  Lemma fold_build_edge_err i act_i map_i m' l e :
    fold_left (build_edge i act_i map_i m') l (@Err (bstate R) e) = Err e.
  Proof. induction l; simpl; auto. Qed.

  Definition edge_term (i : nat) (act_i map_i : list Z) (G : Z -> list (Z * R) -> R) (ea : aedge) : R :=
    if ae_active ea i then
      match index_of (ae_from ea) act_i with
      | Some idx => match nth_error map_i idx with
                    | Some m => G m (opics_norm (ae_opics ea i))
                    | None => 0r
                    end
      | None => 0r
      end
    else 0r.

  Lemma build_edges_spec i act_i map_i m' : forall es_aut st st',
    fold_left (build_edge i act_i map_i m') es_aut (Ok st) = Ok st' ->
    OutInv (b_g st) -> (forall m, In m map_i -> has_node (b_g st) m = true) ->
    exists new, g_edges (b_g st') = g_edges (b_g st) ++ new /\ OutInv (b_g st') /\
      map n_id (g_nodes (b_g st')) = map n_id (g_nodes (b_g st)) /\
      (forall nid, has_node (b_g st') nid = has_node (b_g st) nid) /\
      b_nid st' = b_nid st /\ g_t0 (b_g st') = g_t0 (b_g st) /\ g_t1 (b_g st') = g_t1 (b_g st) /\
      (forall e, In e new -> e_to e = m' /\ In (e_from e) map_i) /\
      forall G, suml new (fun e => G (e_from e) (e_opics e)) = suml es_aut (edge_term i act_i map_i G).
  Proof.
    induction es_aut as [|ea t IH]; intros st st' H Hinv Hmap.
    - simpl in H. inversion H; subst. exists []. rewrite app_nil_r. splits; auto. intros e [].
    - change (fold_left (build_edge i act_i map_i m') t (build_edge i act_i map_i m' (Ok st) ea) = Ok st') in H.
      destruct (build_edge i act_i map_i m' (Ok st) ea) as [st1|err] eqn:E1;
        [|rewrite fold_build_edge_err in H; discriminate].
      unfold build_edge in E1. simpl in E1.
      destruct (ae_active ea i) eqn:Hact; simpl in E1.
      2:{ inversion E1; subst st1.
          destruct (IH st st' H Hinv Hmap) as [new (Hn1 & Hn2 & Hn3 & Hn4 & Hn5 & Hn6 & Hn7 & Hn8 & Hn9)].
          exists new. splits; auto. intros G. simpl. unfold edge_term at 1. rewrite Hact, Hn9. ring. }
      destruct (index_of (ae_from ea) act_i) as [idx|] eqn:Hidx.
      2:{ inversion E1; subst st1.
          destruct (IH st st' H Hinv Hmap) as [new (Hn1 & Hn2 & Hn3 & Hn4 & Hn5 & Hn6 & Hn7 & Hn8 & Hn9)].
          exists new. splits; auto. intros G. simpl. unfold edge_term at 1. rewrite Hact, Hidx, Hn9. ring. }
      destruct (nth_error map_i idx) as [m|] eqn:Hm; [|discriminate].
      destruct (add_connect_edge (b_g st) (new_edge (b_eid st) m m' (ae_opics ea i))) as [g'|] eqn:Hadd;
        simpl in E1; [|discriminate].
      inversion E1; subst st1; clear E1.
      assert (Hin : In m map_i) by (eapply nth_error_In; eauto).
      destruct (add_connect_edge_inv R (b_g st) g' (new_edge (b_eid st) m m' (ae_opics ea i)) Hinv (Hmap m Hin) Hadd)
        as [Hinv' [Hes [Hids [Ht0 [Ht1 Hhas]]]]].
      destruct (IH (mkb g' (b_nid st) (b_eid st + 1)) st' H Hinv')
        as [new (Hn1 & Hn2 & Hn3 & Hn4 & Hn5 & Hn6 & Hn7 & Hn8 & Hn9)].
      { simpl. intros m0 Hm0. rewrite Hhas. auto. }
      simpl in *.
      exists (new_edge (b_eid st) m m' (ae_opics ea i) :: new).
      rewrite Hn1, Hes, <- app_assoc. simpl.
      splits; auto; try congruence.
      + intros e [<-|He]; [simpl; auto|]. apply Hn8; auto.
      + intros G. simpl. unfold edge_term at 1. rewrite Hact, Hidx, Hm. rewrite Hn9. reflexivity.
  Qed.

  (* ---------- level 2: one new node, one layer ---------- *)
  Variable acts : nat -> list Z.

  Definition P (es : list gedge) (j : nat) (m a : Z) : Prop :=
    (forall wr, length wr = j -> pre es 0 wr m = apre_act acts wr a) /\
    (forall wr, length wr <> j -> pre es 0 wr m = 0r).

  Record NI (g : graph) : Prop := {
    ni_out : OutInv g;
    ni_m1 : has_node g (-1) = true;
    ni_0 : has_node g 0 = true;
    ni_to : forall e, In e (g_edges g) -> has_node g (e_to e) = true;
    ni_from : forall e, In e (g_edges g) -> e_from e <> -1
  }.

  Lemma P_ext (g : graph) new j m a :
    OutInv g -> has_node g m = true -> (forall e, In e new -> has_node g (e_to e) = false) ->
    P (g_edges g) j m a -> P (g_edges g ++ new) j m a.
  Proof.
    intros Hinv Hm Hnew [H1 H2].
    assert (E : forall wr, pre (g_edges g ++ new) 0 wr m = pre (g_edges g) 0 wr m).
    { intros wr. apply (pre_closed_ext R (has_node g)); auto.
      intros e He _. apply (oi_from R g Hinv e He). }
    split; intros wr Hwr; rewrite E; auto.
  Qed.

  Lemma Forall2_nth_error {A B} (Q : A -> B -> Prop) l1 l2 idx b :
    Forall2 Q l1 l2 -> nth_error l2 idx = Some b -> exists a, nth_error l1 idx = Some a /\ Q a b.
  Proof.
    intros H; revert idx; induction H; intros idx Hn; destruct idx; simpl in *; try discriminate.
    - inversion Hn; subst. eauto.
    - apply IHForall2; auto.
  Qed.

  Lemma has_node_ids (g g' : graph) nid :
    map n_id (g_nodes g') = map n_id (g_nodes g) -> has_node g' nid = has_node g nid.
  Proof.
    unfold has_node. intros H.
    rewrite <- (existsb_map_id nid (g_nodes g')), <- (existsb_map_id nid (g_nodes g)). rewrite H. reflexivity.
  Qed.

  Lemma build_node_spec i act_i map_i na st lay st' lay' :
    build_node aut i act_i map_i (Ok (st, lay)) na = Ok (st', lay') ->
    NI (b_g st) -> (forall m, In m map_i -> has_node (b_g st) m = true) -> (forall m, In m map_i -> m <> -1) ->
    Forall2 (P (g_edges (b_g st)) i) map_i act_i -> acts i = act_i ->
    afind_node aut (n_id na) = Some na ->
    exists new,
      g_edges (b_g st') = g_edges (b_g st) ++ new /\
      NI (b_g st') /\
      map n_id (g_nodes (b_g st')) = map n_id (g_nodes (b_g st)) ++ [b_nid st] /\
      (forall e, In e new -> has_node (b_g st) (e_to e) = false) /\
      lay' = lay ++ [b_nid st] /\ b_nid st' = b_nid st + 1 /\
      has_node (b_g st) (b_nid st) = false /\
      g_t0 (b_g st') = g_t0 (b_g st) /\ g_t1 (b_g st') = g_t1 (b_g st) /\
      P (g_edges (b_g st) ++ new) (S i) (b_nid st) (n_id na).
  Proof.
    intros H HNI Hmap Hmap1 HP Hacts Hfind. destruct HNI as [Hout Hm1 H0 Hto Hfrom].
    unfold build_node in H. simpl in H.
    destruct (add_node (b_g st) (mknode (b_nid st) [] [] (n_q na))) as [g1|] eqn:Hadd; simpl in H; [|discriminate].
    destruct (lookup_edges aut (n_in na)) as [es_aut|] eqn:Hlk; simpl in H; [|discriminate].
    destruct (fold_left (build_edge i act_i map_i (b_nid st)) es_aut (Ok (mkb g1 (b_nid st + 1) (b_eid st))))
      as [st1|] eqn:Hfold; simpl in H; [|discriminate].
    inversion H; subst st1 lay'; clear H.
    apply lookup_edges_ok in Hlk.
    assert (Hfresh : has_node (b_g st) (b_nid st) = false).
    { unfold add_node in Hadd. simpl in Hadd. destruct (has_node (b_g st) (b_nid st)); [discriminate|reflexivity]. }
    destruct (add_node_inv R _ _ _ Hout Hadd eq_refl) as (Hout1 & Hes1 & Hns1 & Ht01 & Ht11).
    assert (Hmono : forall nid, has_node (b_g st) nid = true -> has_node g1 nid = true).
    { intros nid Hn. apply has_node_true in Hn. destruct Hn as [n [Hn E]]. apply has_node_true. exists n.
      rewrite Hns1. split; [apply in_or_app; left; exact Hn|exact E]. }
    destruct (build_edges_spec i act_i map_i (b_nid st) es_aut _ _ Hfold Hout1)
      as [new (Hn1 & Hn2 & Hn3 & Hn4 & Hn5 & Hn6 & Hn7 & Hn8 & Hn9)].
    { simpl. intros m Hm. apply Hmono. apply Hmap. exact Hm. }
    simpl in *. exists new. rewrite Hes1 in Hn1.
    assert (Hnewto : forall e, In e new -> has_node (b_g st) (e_to e) = false).
    { intros e He. destruct (Hn8 e He) as [-> _]. exact Hfresh. }
    assert (Hhas1 : forall nid, has_node (b_g st') nid = has_node g1 nid) by exact Hn4.
    assert (Hself : has_node g1 (b_nid st) = true).
    { apply has_node_true. exists (mknode (b_nid st) [] [] (n_q na)). rewrite Hns1. split; [apply in_or_app; right; left; reflexivity|reflexivity]. }
    splits; auto; try congruence.
    - (* NI *)
      constructor; auto.
      + rewrite Hhas1. apply Hmono. exact Hm1.
      + rewrite Hhas1. apply Hmono. exact H0.
      + intros e He. rewrite Hn1 in He. apply in_app_or in He. rewrite Hhas1. destruct He as [He|He].
        * apply Hmono. apply Hto. exact He.
        * destruct (Hn8 e He) as [-> _]. exact Hself.
      + intros e He. rewrite Hn1 in He. apply in_app_or in He. destruct He as [He|He]; [apply Hfrom; exact He|].
        destruct (Hn8 e He) as [_ Hin]. apply Hmap1. exact Hin.
    - rewrite Hn3, Hns1, map_app. reflexivity.
    - (* P for the new node *)
      assert (Hne0 : (b_nid st =? 0) = false).
      { apply Z.eqb_neq. intros E. rewrite E in Hfresh. congruence. }
      assert (Hexp : forall o w', pre (g_edges (b_g st) ++ new) 0 (o :: w') (b_nid st) =
                suml es_aut (edge_term i act_i map_i (fun m ops => pre (g_edges (b_g st)) 0 w' m *r opics_coeff o ops))).
      { intros o w'. cbn [pre]. rewrite suml_app. rewrite (suml_zero R (g_edges (b_g st))).
        2:{ intros e He. destruct (Z.eqb_spec (e_to e) (b_nid st)) as [E|]; [|reflexivity].
            apply Hto in He. rewrite E in He. congruence. }
        rewrite <- Hn9.
        transitivity (suml new (fun e => pre (g_edges (b_g st)) 0 w' (e_from e) *r opics_coeff o (e_opics e))); [|ring].
        transitivity (0r +r suml new (fun e => pre (g_edges (b_g st)) 0 w' (e_from e) *r opics_coeff o (e_opics e))); [|ring].
        f_equal. apply suml_ext. intros e He. destruct (Hn8 e He) as [E Hin]. rewrite E, Z.eqb_refl.
        f_equal. apply (pre_closed_ext R (has_node (b_g st))); auto.
        intros e' He' _. apply (oi_from R _ Hout e' He'). }
      split; intros wr Hwr.
      + destruct wr as [|o w']; [discriminate|]. simpl in Hwr. assert (Hl : length w' = i) by lia.
        rewrite Hexp. cbn [apre_act]. rewrite Hfind, <- Hlk. apply suml_ext. intros ea _.
        unfold edge_term. rewrite Hl, Hacts. destruct (ae_active ea i); simpl; [|reflexivity].
        rewrite index_of_zmem. destruct (index_of (ae_from ea) act_i) as [idx|] eqn:Hidx; [|reflexivity].
        apply index_of_nth in Hidx. destruct (Forall2_nth_error _ _ _ _ _ HP Hidx) as [m [Hm [HP1 _]]].
        rewrite Hm, opics_coeff_norm, HP1 by exact Hl. reflexivity.
      + destruct wr as [|o w']; [simpl; rewrite Hne0; reflexivity|].
        simpl in Hwr. assert (Hl : length w' <> i) by lia.
        rewrite Hexp. apply suml_zero. intros ea _. unfold edge_term.
        destruct (ae_active ea i); [|reflexivity].
        destruct (index_of (ae_from ea) act_i) as [idx|] eqn:Hidx; [|reflexivity].
        apply index_of_nth in Hidx. destruct (Forall2_nth_error _ _ _ _ _ HP Hidx) as [m [Hm [_ HP2]]].
        rewrite Hm, HP2 by exact Hl. ring.
  Qed.

  Lemma has_node_in_ids (g : graph) x : has_node g x = true <-> In x (map n_id (g_nodes g)).
  Proof.
    rewrite has_node_true, in_map_iff. split; intros [n [H1 H2]]; exists n; tauto.
  Qed.

  Lemma Forall2_impl_in {A B} (Q Q' : A -> B -> Prop) l1 l2 :
    Forall2 Q l1 l2 -> (forall a b, In a l1 -> Q a b -> Q' a b) -> Forall2 Q' l1 l2.
  Proof.
    induction 1; intros Himp; constructor.
    - apply Himp; [left; reflexivity|assumption].
    - apply IHForall2. intros a b Ha. apply Himp. right; exact Ha.
  Qed.

  Record LI (i : nat) (act_i map_i : list Z) (st : bstate R) (lay lay_as : list Z) : Prop := {
    li_ni : NI (b_g st);
    li_map : forall m, In m (map_i ++ lay) -> has_node (b_g st) m = true /\ m <> -1;
    li_P : Forall2 (P (g_edges (b_g st)) i) map_i act_i;
    li_P' : Forall2 (P (g_edges (b_g st)) (S i)) lay lay_as;
    li_lt : forall x, In x (map n_id (g_nodes (b_g st))) -> x < b_nid st;
    li_last : lay <> [] -> last lay 0 = b_nid st - 1;
    li_lastm : lay = [] -> map_i <> [] -> last map_i 0 = b_nid st - 1;
    li_t : g_t0 (b_g st) = 0 /\ g_t1 (b_g st) = -1
  }.

  Lemma LI_step i act_i map_i st lay lay_as na st' lay' :
    LI i act_i map_i st lay lay_as -> acts i = act_i ->
    build_node aut i act_i map_i (Ok (st, lay)) na = Ok (st', lay') ->
    afind_node aut (n_id na) = Some na ->
    LI i act_i map_i st' lay' (lay_as ++ [n_id na]).
  Proof.
    intros [HNI Hmap HP HP' Hlt Hlast Hlastm [Ht0 Ht1]] Hacts Hb Hfind.
    destruct (build_node_spec i act_i map_i na st lay st' lay' Hb HNI) as
      [new (He & HNI' & Hids & Hnew & Hlay & Hnid & Hfresh & Ht0' & Ht1' & HPn)]; auto.
    { intros m Hm. apply Hmap. apply in_or_app; left; exact Hm. }
    { intros m Hm. apply Hmap. apply in_or_app; left; exact Hm. }
    assert (Hout : OutInv (b_g st)) by (destruct HNI; assumption).
    assert (Hmono : forall m, has_node (b_g st) m = true -> has_node (b_g st') m = true).
    { intros m Hm. apply has_node_in_ids. rewrite Hids. apply in_or_app; left. apply has_node_in_ids. exact Hm. }
    constructor; auto.
    - intros m Hm. subst lay'. rewrite app_assoc in Hm. apply in_app_or in Hm. destruct Hm as [Hm|[<-|[]]].
      + destruct (Hmap m Hm). split; auto.
      + split.
        * apply has_node_in_ids. rewrite Hids. apply in_or_app; right; left; reflexivity.
        * intros E. rewrite E in Hfresh. destruct HNI. congruence.
    - rewrite He. eapply Forall2_impl_in; [exact HP|]. intros m a Hm HPm.
      apply P_ext; auto. apply Hmap. apply in_or_app; left; exact Hm.
    - rewrite He. subst lay'. apply Forall2_app.
      + eapply Forall2_impl_in; [exact HP'|]. intros m a Hm HPm.
        apply P_ext; auto. apply Hmap. apply in_or_app; right; exact Hm.
      + constructor; [exact HPn|constructor].
    - intros x Hx. rewrite Hids in Hx. rewrite Hnid. apply in_app_or in Hx. destruct Hx as [Hx|[<-|[]]]; [|lia].
      specialize (Hlt x Hx). lia.
    - intros _. subst lay'. rewrite last_last. lia.
    - intros E. subst lay'. destruct lay; discriminate.
    - split; congruence.
  Qed.

  Lemma fold_build_node_err i act_i map_i l e :
    fold_left (build_node aut i act_i map_i) l (Err e) = Err e.
  Proof. induction l; simpl; auto. Qed.

  Lemma afind_node_id a n : afind_node aut a = Some n -> n_id n = a.
  Proof. unfold afind_node. intros H. apply find_some in H. destruct H as [_ H]. apply Z.eqb_eq in H. exact H. Qed.

  Lemma LI_fold i act_i map_i : forall nas as_ st lay lay_as st' lay',
    Forall2 (fun a n => afind_node aut a = Some n) as_ nas ->
    fold_left (build_node aut i act_i map_i) nas (Ok (st, lay)) = Ok (st', lay') ->
    acts i = act_i ->
    LI i act_i map_i st lay lay_as -> LI i act_i map_i st' lay' (lay_as ++ as_).
  Proof.
    induction nas as [|na t IH]; intros as_ st lay lay_as st' lay' Hf H Hacts HLI.
    - revert Hacts. inversion Hf; subst. simpl in H. inversion H; subst. intros _. rewrite app_nil_r. exact HLI.
    - revert Hacts. inversion Hf as [|a na' as_t t' Ha Hft]; subst. intros Hacts.
      change (fold_left (build_node aut i act_i map_i) t (build_node aut i act_i map_i (Ok (st, lay)) na) = Ok (st', lay')) in H.
      destruct (build_node aut i act_i map_i (Ok (st, lay)) na) as [[st1 lay1]|err] eqn:E1;
        [|rewrite fold_build_node_err in H; discriminate].
      pose proof (afind_node_id _ _ Ha) as Hid.
      assert (HLI1 : LI i act_i map_i st1 lay1 (lay_as ++ [n_id na])).
      { eapply LI_step; eauto. rewrite Hid. exact Ha. }
      specialize (IH as_t st1 lay1 (lay_as ++ [n_id na]) st' lay' Hft H Hacts HLI1).
      rewrite <- app_assoc in IH. simpl in IH. rewrite Hid in IH. exact IH.
  Qed.

  Lemma LI_next i act_i map_i st lay act_next :
    LI i act_i map_i st lay act_next -> LI (S i) act_next lay st [] [].
  Proof.
    intros [HNI Hmap HP HP' Hlt Hlast Hlastm Ht]. constructor; auto.
    - intros m Hm. rewrite app_nil_r in Hm. apply Hmap. apply in_or_app; right; exact Hm.
    - intros H; contradiction.
  Qed.

  (* ---------- level 3: all layers ---------- *)
  Lemma build_layers_spec : forall rest i act_i map_i st st_f,
    build_layers aut i (act_i :: rest) map_i st = Ok st_f ->
    (forall k l, nth_error (act_i :: rest) k = Some l -> acts (i + k)%nat = l) ->
    LI i act_i map_i st [] [] ->
    exists map_f, LI (i + length rest)%nat (last (act_i :: rest) []) map_f st_f [] [].
  Proof.
    induction rest as [|act_next rest IH]; intros i act_i map_i st st_f H Hacts HLI.
    - simpl in H. inversion H; subst. exists map_i. simpl. rewrite Nat.add_0_r. exact HLI.
    - cbn [build_layers] in H. unfold build_layer in H.
      destruct (lookup_nodes aut act_next) as [nas|] eqn:Hlk; simpl in H; [|discriminate].
      destruct (fold_left (build_node aut i act_i map_i) nas (Ok (st, []))) as [[st1 lay1]|] eqn:Hfold; simpl in H; [|discriminate].
      apply lookup_nodes_ok in Hlk.
      assert (Hai : acts i = act_i). { specialize (Hacts 0%nat act_i eq_refl). rewrite Nat.add_0_r in Hacts. exact Hacts. }
      pose proof (LI_fold i act_i map_i nas act_next st [] [] st1 lay1 Hlk Hfold Hai HLI) as HLI1. simpl in HLI1.
      apply LI_next in HLI1.
      destruct (IH (S i) act_next lay1 st1 st_f H) as [map_f Hf]; auto.
      { intros k l Hk. specialize (Hacts (S k) l Hk). rewrite <- Hacts. f_equal. lia. }
      exists map_f. replace (i + length (act_next :: rest))%nat with (S i + length rest)%nat by (simpl; lia).
      exact Hf.
  Qed.
End AutProofs.

Arguments apre_act {R} _ _ _ _. Arguments edges_in {R} _ _.

Lemma fold_max_ge (t : list Z) : forall x, x <= fold_left Z.max t x /\ forall y, In y t -> y <= fold_left Z.max t x.
Proof.
  induction t as [|z t IH]; intros x; simpl.
  - split; [lia|intros y []].
  - destruct (IH (Z.max x z)) as [H1 H2]. split; [lia|]. intros y [<-|Hy]; [lia|auto].
Qed.
Lemma fold_max_le (t : list Z) m : forall x, x <= m -> (forall y, In y t -> y <= m) -> fold_left Z.max t x <= m.
Proof.
  induction t as [|z t IH]; intros x Hx H; simpl; [exact Hx|].
  apply IH; [|intros; apply H; right; assumption]. specialize (H z (or_introl eq_refl)). lia.
Qed.
Lemma zmax_is (l : list Z) d m : In m l -> (forall x, In x l -> x <= m) -> zmax l d = m.
Proof.
  destruct l as [|x t]; intros Hin Hle; [destruct Hin|]. unfold zmax.
  destruct (fold_max_ge t x) as [H1 H2].
  assert (fold_left Z.max t x <= m).
  { apply fold_max_le; [apply Hle; left; reflexivity|intros; apply Hle; right; assumption]. }
  destruct Hin as [<-|Hin]; [lia|]. specialize (H2 m Hin). lia.
Qed.

Lemma sequence_length {A} (l : list (res A)) r : sequence l = Ok r -> length r = length l.
Proof.
  revert r; induction l as [|x t IH]; intros r H; simpl in H.
  - inversion H; reflexivity.
  - destruct x as [a|]; simpl in H; [|discriminate]. destruct (sequence t) as [t'|]; simpl in H; [|discriminate].
    inversion H; subst. simpl. f_equal. apply IH. reflexivity.
Qed.
Lemma sequence_nth {A} (l : list (res A)) r k x :
  sequence l = Ok r -> nth_error r k = Some x -> nth_error l k = Some (Ok x).
Proof.
  revert r k; induction l as [|y t IH]; intros r k H Hk; simpl in H.
  - inversion H; subst. destruct k; discriminate.
  - destruct y as [a|]; simpl in H; [|discriminate]. destruct (sequence t) as [t'|] eqn:E; simpl in H; [|discriminate].
    inversion H; subst. destruct k; simpl in *.
    + inversion Hk; reflexivity.
    + eapply IH; eauto.
Qed.

Section AutFinal.
  Variable R : cring.
  Add Ring Rring_c17autf : (k_rt R).
  Notation "0r" := (k0 R). Notation "1r" := (k1 R).
  Variable aut : autop R.

  Lemma from_automaton_raw_den L g :
    from_automaton_raw aut L = Ok g ->
    exists all, active_layers aut L = Ok all /\ OutInv g /\
      forall w, den g w = if Nat.eqb (length w) L
                          then apre_act aut (fun i => nth i all []) (rev w) (a_t1 aut) else 0r.
  Proof.
    unfold from_automaton_raw. intros H.
    destruct (Nat.ltb L 1) eqn:HL; [discriminate|]. apply Nat.ltb_ge in HL.
    destruct (active_layers aut L) as [all|] eqn:Hall; simpl in H; [|discriminate].
    destruct (zl_eq1 (nth 0 all []) (a_t0 aut)) eqn:H0; simpl in H; [|discriminate].
    destruct (zl_eq1 (last all []) (a_t1 aut)) eqn:H1; simpl in H; [|discriminate].
    destruct (afind_node aut (a_t0 aut)) as [n0|] eqn:Hn0; [|discriminate].
    set (g0 := mkgraph [mknode 0 [] [] (n_q n0); mknode (-1) [] [] 0] [] 0 (-1)) in H.
    destruct (build_layers aut 0 all [0] (mkb g0 1 0)) as [st|] eqn:Hb; simpl in H; [|discriminate].
    destruct (max_nid (b_g st)) as [t1'|] eqn:Hmax; simpl in H; [|discriminate].
    inversion H; subst g; clear H.
    exists all. split; [reflexivity|].
    assert (Hlen : length all = S L).
    { unfold active_layers in Hall. apply sequence_length in Hall. rewrite map_length, seq_length in Hall. exact Hall. }
    destruct all as [|a0 rest]; [discriminate|]. simpl in Hlen.
    set (acts := fun i => nth i (a0 :: rest) []).
    assert (Ha0 : a0 = [a_t0 aut]).
    { simpl in H0. destruct a0 as [|y [|? ?]]; try discriminate. apply Z.eqb_eq in H0. subst; reflexivity. }
    assert (HLI0 : LI R aut acts 0 a0 [0] (mkb g0 1 0) [] []).
    { constructor; simpl.
      - constructor.
        + constructor; simpl.
          * constructor; [simpl; intros [E|[]]; discriminate|constructor; [intros []|constructor]].
          * constructor.
          * intros n [<-|[<-|[]]]; simpl; constructor.
          * intros e [].
        + reflexivity.
        + reflexivity.
        + intros e [].
        + intros e [].
      - intros m [<-|[]]. split; [reflexivity|discriminate].
      - rewrite Ha0. constructor; [|constructor]. split; intros wr Hwr.
        + destruct wr; [|discriminate]. simpl. rewrite Z.eqb_refl. reflexivity.
        + destruct wr; [contradiction|]. reflexivity.
      - constructor.
      - intros x [<-|[<-|[]]]; lia.
      - intros Hc; contradiction.
      - intros _ _. reflexivity.
      - auto. }
    destruct (build_layers_spec R aut acts rest 0%nat a0 [0] (mkb g0 1 0) st Hb) as [map_f HLI]; auto.
    { intros k l Hk. simpl. unfold acts. apply nth_error_nth. exact Hk. }
    change (0 + length rest)%nat with (length rest) in HLI. destruct HLI as [HNI Hmap HP _ Hlt _ Hlastm [Ht0 Ht1]].
    assert (Hlast : last (a0 :: rest) [] = [a_t1 aut]).
    { destruct (last (a0 :: rest) []) as [|y [|? ?]]; try discriminate. simpl in H1. apply Z.eqb_eq in H1. subst; reflexivity. }
    rewrite Hlast in HP. inversion HP as [|m a ms as_ HPm Hrest]; subst. inversion Hrest; subst.
    assert (Hm : m = b_nid st - 1). { rewrite <- Hlastm; auto. discriminate. }
    assert (Hmax' : t1' = m).
    { assert (Hmax2 : t1' = zmax (map n_id (g_nodes (b_g st))) 0).
      { unfold max_nid in Hmax. destruct (g_nodes (b_g st)); [discriminate|]. inversion Hmax. reflexivity. }
      rewrite Hmax2. apply zmax_is.
      - apply has_node_in_ids. apply Hmap. left; reflexivity.
      - intros x Hx. specialize (Hlt x Hx). lia. }
    subst t1'.
    destruct HNI as [Hout Hm1 Hn0' Hto Hfrom].
    assert (Hout' : OutInv (remove_node (mkgraph (g_nodes (b_g st)) (g_edges (b_g st)) (g_t0 (b_g st)) m) (-1))).
    { apply remove_node_inv; [apply OutInv_terminals; exact Hout|]. simpl. exact Hfrom. }
    split; [exact Hout'|].
    intros w. rewrite (den_dene R _ Hout'). simpl. rewrite Ht0, dene_pre.
    destruct HPm as [HP1 HP2]. replace (length rest) with L in * by lia.
    destruct (Nat.eqb_spec (length w) L) as [E|E].
    - apply HP1. rewrite rev_length. exact E.
    - apply HP2. rewrite rev_length. exact E.
  Qed.
End AutFinal.
