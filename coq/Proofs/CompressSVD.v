(* C13 — two facts about [block_svd] beyond C12_block_svd_spec, obtained from the same loop invariant
   (Proofs/BondOpsLoop.v [post], Proofs/BondOpsSpec.v [lift]):
     ||A||_F^2 = sum of all squared block singular values,   u^H A = diag(s) v   (the kept left factor is orthogonal to the
   discarded part), and the resulting bookkeeping  ||diag(s) v||_F^2 = ||A||_F^2 (1 - discarded relative weight). *)
From Coq Require Import ZArith List Bool Lia Arith Permutation Sorted Ring Field.
From PT Require Import Base.Scalar Base.Field Base.BigSum Base.Mx Model.Tensor Model.BondOps Model.Orthonormalize.
From PT Require Import Proofs.BondOpsPerm Proofs.BondOpsLoop Proofs.BondOpsSpec Proofs.BondOpsRetained Proofs.BondOpsFrob Proofs.BondOpsSVD.
Import ListNotations.

Lemma NoDup_app_intro_c13 {A} (l1 l2 : list A) : NoDup l1 -> NoDup l2 -> (forall x, In x l1 -> In x l2 -> False) ->
  NoDup (l1 ++ l2).
Proof.
  intros H1 H2 H. induction l1 as [|a l1 IH]; [exact H2|]. simpl. inversion H1; subst. constructor.
  - rewrite in_app_iff. intros [Hi|Hi]; [contradiction|]. apply (H a); [left; reflexivity|exact Hi].
  - apply IH; [assumption|]. intros x Hx. apply H. right. exact Hx.
Qed.

Section SVDExt.
  Variable F : ofield.
  Add Field Ffield_csvd : (f_ft F).
  Notation CF := (Cx F).
  Add Ring CFring_csvd : (k_rt CF).
  Notation mx := (mx CF).
  Notation cO := (k0 CF). Notation cI := (k1 CF).
  Infix "*!" := (kmul CF) (at level 40, left associativity).
  Notation cj := (kconj CF).
  Notation emb := (@cof F).

  (* (u * s) v = u (s[:,None] * v) *)
  Lemma scalecols_srows (u v : mx) (s : list F) : nc u = nr v ->
    mulmx (scalecols F u s) v = mulmx u (srows s v).
  Proof.
    intros E. apply mx_ext; [apply wf_mulmx|apply wf_mulmx|reflexivity|reflexivity|].
    rewrite nr_mulmx, nc_mulmx, nr_scalecols. intros i j Hi Hj.
    rewrite !get_mulmx by (unfold srows; rewrite ?nr_scalecols, ?nc_tab; assumption).
    rewrite nc_scalecols. apply sumn_ext. intros c Hc. unfold scalecols, srows.
    rewrite !get_tab by lia. ring.
  Qed.

  Lemma wf_srows s (v : mx) : wf (srows s v). Proof. apply wf_tab. Qed.
  Lemma nr_srows s (v : mx) : nr (srows s v) = nr v. Proof. reflexivity. Qed.
  Lemma nc_srows s (v : mx) : nc (srows s v) = nc v. Proof. reflexivity. Qed.

  Definition sqs (s : list F) : F := fsum (map (fun x => fmul F x x) s).

  Lemma sumn_emb_sq (s : list F) :
    @sumn CF (length s) (fun a => emb (fmul F (nth a s (f0 F)) (nth a s (f0 F)))) = emb (sqs s).
  Proof.
    assert (H := sumn_sq F s). unfold sqs. fold (sqsum s). rewrite <- H.
    apply sumn_ext. intros a Ha. rewrite conj_cof, cof_mul. reflexivity.
  Qed.

  (* || diag(s) v ||_F^2 = sum s^2  for v with orthonormal rows *)
  Lemma frob_srows (s : list F) (v : mx) : nr v = length s -> mulmx v (adjmx v) = idmx (length s) ->
    frob (srows s v) (srows s v) = emb (sqs s).
  Proof.
    intros Hr Hvv. unfold frob. rewrite nr_srows, nc_srows, Hr. rewrite <- sumn_emb_sq.
    apply sumn_ext. intros a Ha.
    transitivity (sumn (nc v) (fun j => emb (fmul F (nth a s (f0 F)) (nth a s (f0 F))) *! (get v a j *! cj (get v a j)))).
    { apply sumn_ext. intros j Hj. unfold srows. rewrite !get_tab by lia. rewrite kconj_mul, conj_cof, <- cof_mul. ring. }
    rewrite sumn_scal_l.
    assert (E : get (mulmx v (adjmx v)) a a = get (idmx (length s)) a a) by (rewrite Hvv; reflexivity).
    rewrite get_mulmx in E by (rewrite ?nc_adjmx; lia). rewrite get_idmx in E by lia. rewrite Nat.eqb_refl in E.
    transitivity (emb (fmul F (nth a s (f0 F)) (nth a s (f0 F))) *! cI); [|ring]. f_equal. rewrite <- E.
    apply sumn_ext. intros j Hj. rewrite get_adjmx by lia. reflexivity.
  Qed.

  (* kept and discarded squared values add up to the total *)
  Lemma perm_kept_disc (n : nat) (K : list nat) : NoDup K -> (forall i, In i K -> i < n) ->
    Permutation (K ++ filter (fun i => negb (existsb (Nat.eqb i) K)) (seq 0 n)) (seq 0 n).
  Proof.
    intros Hnd Hlt. apply NoDup_Permutation.
    - apply NoDup_app_intro_c13; [exact Hnd|apply NoDup_filter, seq_NoDup|].
      intros x Hx Hf. apply filter_In in Hf. destruct Hf as [_ Hf]. apply negb_true_iff in Hf.
      assert (existsb (Nat.eqb x) K = true) by (apply existsb_exists; exists x; split; [exact Hx|apply Nat.eqb_refl]). congruence.
    - apply seq_NoDup.
    - intros x. rewrite in_app_iff, filter_In, in_seq. split.
      + intros [H|[H _]]; [specialize (Hlt x H)|]; lia.
      + intros Hx. destruct (existsb (Nat.eqb x) K) eqn:E.
        * left. apply existsb_exists in E. destruct E as (y & Hy & Ey). apply Nat.eqb_eq in Ey. subst. exact Hy.
        * right. split; [lia|reflexivity].
  Qed.

  Lemma fsum_app (l1 l2 : list F) : fsum (l1 ++ l2) = fadd F (fsum l1) (fsum l2).
  Proof. induction l1 as [|x l1 IH]; simpl; [ring|rewrite IH; ring]. Qed.

  Lemma kept_disc_sum (S : list F) (K : list nat) : NoDup K -> (forall i, In i K -> i < length S) ->
    fadd F (fsum (map (sqv F S) K)) (fsum (map (sqv F S) (discarded S K))) = sqsum S.
  Proof.
    intros Hnd Hlt. rewrite <- fsum_app, <- map_app. rewrite <- (sqsum_seq F S).
    apply fsum_perm. apply Permutation_map. apply perm_kept_disc; assumption.
  Qed.

  Lemma sqs_map_nth (S : list F) (K : list nat) : sqs (map (fun i => nth i S (f0 F)) K) = fsum (map (sqv F S) K).
  Proof. unfold sqs. rewrite map_map. reflexivity. Qed.

  (* discarded relative weight times the total = discarded squares *)
  Lemma disc_weight_mul (S : list F) (K : list nat) : sqsum S <> f0 F ->
    fmul F (disc_weight S K) (sqsum S) = fsum (map (sqv F S) (discarded S K)).
  Proof.
    intros Hnz. unfold disc_weight.
    assert (Hl : forall i, In i (discarded S K) -> i < length S).
    { intros i Hi. unfold discarded in Hi. apply filter_In in Hi. destruct Hi as [Hi _]. apply in_seq in Hi. lia. }
    induction (discarded S K) as [|i l IH]; simpl; [ring|].
    rewrite <- IH by (intros j Hj; apply Hl; right; exact Hj).
    assert (Hi : i < length S) by (apply Hl; left; reflexivity).
    unfold weight at 1, normsq. rewrite (nth_map_lt _ _ _ (f0 F)) by exact Hi. unfold sqv. field. exact Hnz.
  Qed.

  Lemma disc_weight_nonneg (S : list F) (K : list nat) : fle F (f0 F) (disc_weight S K).
  Proof.
    unfold disc_weight. induction (discarded S K) as [|i l IH]; simpl; [apply fle_refl|].
    apply fle_add_nonneg; [|exact IH]. unfold weight.
    destruct (lt_dec i (length S)) as [Hi|Hi].
    - unfold normsq. rewrite (nth_map_lt _ _ _ (f0 F)) by exact Hi.
      destruct (feqb F (sqsum S) (f0 F)) eqn:E.
      + apply feqb_spec in E. rewrite E. rewrite (Fdiv_def (f_ft F)).
        assert (Hx : nth i S (f0 F) = f0 F) by (apply (sqsum_zero_all F S E); apply nth_In; exact Hi).
        rewrite Hx. replace (fmul F (fmul F (f0 F) (f0 F)) (finv F (f0 F))) with (f0 F) by ring. apply fle_refl.
      + assert (Hn : sqsum S <> f0 F) by (intros E2; apply feqb_spec in E2; congruence).
        rewrite (Fdiv_def (f_ft F)). apply fle_mul; [apply fsq_nonneg|]. apply flt_le. apply finv_pos.
        apply fle_neq_lt; [apply sqsum_nonneg|auto].
    - rewrite nth_overflow by (unfold normsq; rewrite map_length; lia). apply fle_refl.
  Qed.

  (* ---------------------------------------------------------------- *)
  (* replay of the loop invariant                                       *)
  (* ---------------------------------------------------------------- *)
  Theorem block_svd_ext : forall dsvd pick (A : mx) q0 q1 tol,
    valid_in A q0 q1 = true -> is_zeromx A = false ->
    Forall (fun B => dsvd_ok F B (dsvd B)) (block_svd_calls A q0 q1) ->
    let S := block_svd_spectrum F dsvd A q0 q1 in
    frob A A = emb (sqsum S) /\
    forall u s v q, block_svd dsvd pick A q0 q1 tol = Some (u, s, v, q) ->
      mulmx (adjmx u) A = srows s v /\ mulmx A (adjmx v) = scalecols F u s.
  Proof.
    intros dsvd pick A q0 q1 tol Hv Hnz Hcalls S.
    destruct (valid_in_spec CF A q0 q1 Hv) as (HwfA & Hl0 & Hl1 & HspA).
    unfold block_svd. rewrite Hv. cbn [negb].
    subst S. unfold block_svd_spectrum in *.
    destruct (intersect1d q0 q1) as [|x qs] eqn:Eq.
    { exfalso. rewrite (is_zeromx_true CF A (disjoint_zero CF A q0 q1 Hl0 Hl1 HspA Eq)) in Hnz. discriminate. }
    remember (x :: qs) as qis eqn:Eqis.
    destruct (sel_choice CF q0 (nr A) Hl0) as (p0 & i0 & Hp0 & Hi0 & Hinv0 & Eq0 & Hz0 & Hrow0 & _ & Hunrow0 & _).
    destruct (sel_choice CF q1 (nc A) Hl1) as (p1 & i1 & Hp1 & Hi1 & Hinv1 & Eq1 & Hz1 & _ & Hcol1 & _ & Huncol1).
    assert (EA : sA (sort_input A q0 q1) = colsel p1 (rowsel p0 A)).
    { unfold sort_input. cbn [sA]. rewrite (Hrow0 A HwfA eq_refl). apply Hcol1; [apply wf_tab|reflexivity]. }
    assert (E0 : sq0 (sort_input A q0 q1) = takez p0 q0) by (unfold sort_input; cbn [sq0]; exact Eq0).
    assert (E1 : sq1 (sort_input A q0 q1) = takez p1 q1) by (unfold sort_input; cbn [sq1]; exact Eq1).
    unfold block_svd_calls, block_calls in Hcalls. rewrite Eq, EA, E0, E1 in Hcalls.
    assert (Hp0' : Permutation p0 (seq 0 (length q0))) by (rewrite Hl0; exact Hp0).
    assert (Hp1' : Permutation p1 (seq 0 (length q1))) by (rewrite Hl1; exact Hp1).
    assert (L0 : length (takez p0 q0) = nr (colsel p1 (rowsel p0 A))) by (eapply lenq0'; eauto).
    assert (L1 : length (takez p1 q1) = nc (colsel p1 (rowsel p0 A))) by (eapply lenq1'; eauto).
    assert (NR : nr (colsel p1 (rowsel p0 A)) = nr A) by (eapply nrA'; eauto).
    assert (NC : nc (colsel p1 (rowsel p0 A)) = nc A) by (eapply ncA'; eauto).
    destruct (loop_ok CF F emb True (nonneg F) dsvd (colsel p1 (rowsel p0 A)) (takez p0 q0) (takez p1 q1)
                L0 L1 Hz0 Hz1 qis) as (st & E & P).
    { rewrite <- Eq. apply intersect1d_sorted. }
    { intros y. rewrite <- Eq. rewrite intersect1d_In, (takez_In p0 q0 y Hp0'), (takez_In p1 q1 y Hp1'). tauto. }
    { eapply qspA'; eauto. }
    { intros y Hy. apply dsvd_fac_ok. rewrite Forall_forall in Hcalls. apply Hcalls. apply in_map. exact Hy. }
    rewrite EA, E0, E1 in *. rewrite E in *.
    set (S := bS st) in *. set (D := bD st) in *.
    assert (HlenS : length S = D) by (apply (p_lenS _ _ _ _ _ _ _ _ _ _ P)).
    assert (Pfull : post CF F emb True (nonneg F) A q0 q1 True (mkbst (rowsel i0 (bU st)) (colsel i1 (bV st)) (bS st) (bq st) (bD st)))
      by (apply (lift CF F emb True (nonneg F) A q0 q1 p0 i0 p1 i1); assumption).
    pose (U' := fun i c => get (rowsel i0 (bU st)) i c). pose (V' := fun c j => get (colsel i1 (bV st)) c j).
    assert (HA : forall i j, i < nr A -> j < nc A -> get A i j = sumn D (fun c => U' i c *! wt CF F emb S c *! V' c j)).
    { intros i j Hi Hj. rewrite <- (p_prod _ _ _ _ _ _ _ _ _ _ Pfull I i j Hi Hj). reflexivity. }
    assert (HUo : forall k l, k < D -> l < D -> sumn (nr A) (fun i => cj (U' i k) *! U' i l) = delta CF k l)
      by (intros k l Hk Hl; apply (p_orth _ _ _ _ _ _ _ _ _ _ Pfull k l Hk Hl)).
    assert (HVo : forall k l, k < D -> l < D -> sumn (nc A) (fun j => V' k j *! cj (V' l j)) = delta CF k l)
      by (intros k l Hk Hl; apply (p_co _ _ _ _ _ _ _ _ _ _ Pfull I k l Hk Hl)).
    split.
    - (* ||A||^2 = sum S^2 *)
      transitivity (sumn D (fun c => cj (wt CF F emb S c) *! wt CF F emb S c)).
      + rewrite <- (frob_usv CF (nr A) (nc A) D U' V' (wt CF F emb S) HUo HVo).
        unfold frob. apply sumn_ext; intros i Hi. apply sumn_ext; intros j Hj. rewrite !HA by assumption. reflexivity.
      + rewrite <- (sumn_sq F S). rewrite HlenS. apply sumn_ext. intros c Hc.
        rewrite (wt_cof F) by (rewrite HlenS; exact Hc). reflexivity.
    - (* u^H A = diag(s) v *)
      intros u s v q Eres.
      assert (HK : exists g, retained pick S tol = filter g (seq 0 D)).
      { unfold retained. destruct (feqb F (sqsum S) (f0 F)).
        - exists (fun _ => false). clear. induction (seq 0 D); simpl; auto.
        - rewrite HlenS. eexists. reflexivity. }
      destruct HK as (g & HK).
      set (K := retained pick S tol) in *.
      assert (Klt := K_lt D g). rewrite <- HK in Klt.
      assert (HnrU : nr (bU st) = nr A) by (rewrite (p_nrU _ _ _ _ _ _ _ _ _ _ P); exact NR).
      assert (HncU : nc (bU st) = D) by (apply (p_ncU _ _ _ _ _ _ _ _ _ _ P)).
      assert (HnrV : nr (bV st) = D) by (apply (p_nrV _ _ _ _ _ _ _ _ _ _ P)).
      assert (HncV : nc (bV st) = nc A) by (rewrite (p_ncV _ _ _ _ _ _ _ _ _ _ P); exact NC).
      assert (EU : unperm_rows (sort_input A q0 q1) (colsel K (bU st)) = rowsel i0 (colsel K (bU st))).
      { unfold unperm_rows, sort_input. cbn [sperm0 sidx0]. apply Hunrow0; [apply wf_tab|].
        unfold colsel. rewrite nr_tab. exact HnrU. }
      assert (EV : unperm_cols (sort_input A q0 q1) (rowsel K (bV st)) = colsel i1 (rowsel K (bV st))).
      { unfold unperm_cols, sort_input. cbn [sperm1 sidx1]. apply Huncol1; [apply wf_tab|].
        unfold rowsel. rewrite nc_tab. exact HncV. }
      rewrite EU, EV in Eres. inversion Eres as [[Eu Es Ev Eq']]. clear Eres.
      assert (Li0 := perm_length _ _ Hi0). assert (Li1 := perm_length _ _ Hi1).
      assert (Hi0lt : forall i, i < nr A -> nth i i0 0 < nr A) by (intros i Hi; apply (perm_nth_lt _ _ _ Hi0); exact Hi).
      assert (Hi1lt : forall j, j < nc A -> nth j i1 0 < nc A) by (intros j Hj; apply (perm_nth_lt _ _ _ Hi1); exact Hj).
      assert (Gu : forall i a, i < nr A -> a < length K -> get (rowsel i0 (colsel K (bU st))) i a = U' i (nth a K 0)).
      { intros i a Hi Ha. unfold U'. rewrite !get_rowsel by (unfold colsel; rewrite ?nc_tab; try lia; rewrite HncU; apply Klt; exact Ha).
        apply get_colsel; [rewrite HnrU; apply Hi0lt; exact Hi|exact Ha]. }
      assert (Gv : forall a j, a < length K -> j < nc A -> get (colsel i1 (rowsel K (bV st))) a j = V' (nth a K 0) j).
      { intros a j Ha Hj. unfold V'. rewrite !get_colsel by (unfold rowsel; rewrite ?nr_tab; try lia; rewrite HnrV; apply Klt; exact Ha).
        apply get_rowsel; [exact Ha|rewrite HncV; apply Hi1lt; exact Hj]. }
      split.
      { apply mx_ext; [apply wf_mulmx|apply wf_srows| | |].
      + rewrite nr_mulmx, nr_adjmx, nr_srows. unfold rowsel, colsel. rewrite ?nr_tab, ?nc_tab. reflexivity.
      + rewrite nc_mulmx, nc_srows. unfold rowsel, colsel. rewrite ?nr_tab, ?nc_tab. lia.
      + rewrite nr_mulmx, nc_mulmx, nr_adjmx.
        replace (nc (rowsel i0 (colsel K (bU st)))) with (length K) by reflexivity.
        intros a j Ha Hj.
        rewrite get_mulmx by (rewrite ?nr_adjmx; try exact Hj; exact Ha).
        rewrite nc_adjmx. replace (nr (rowsel i0 (colsel K (bU st)))) with (length i0) by reflexivity. rewrite Li0.
        unfold srows. rewrite get_tab by (unfold rowsel, colsel; rewrite ?nr_tab, ?nc_tab; lia).
        rewrite Gv by assumption.
        transitivity (sumn D (fun c => delta CF (nth a K 0) c *! (wt CF F emb S c *! V' c j))).
        * transitivity (sumn (nr A) (fun i => sumn D (fun c => (cj (U' i (nth a K 0)) *! U' i c) *! (wt CF F emb S c *! V' c j)))).
          { apply sumn_ext. intros i Hi. rewrite get_adjmx by (unfold rowsel, colsel; rewrite ?nr_tab, ?nc_tab; lia).
            rewrite Gu by assumption. rewrite HA by assumption. rewrite <- sumn_scal_l. apply sumn_ext. intros c Hc. ring. }
          rewrite sumn_exch. apply sumn_ext. intros c Hc. rewrite sumn_scal_r.
          rewrite (HUo (nth a K 0) c (Klt a Ha) Hc). reflexivity.
        * unfold delta.
          transitivity (sumn D (fun c => (if Nat.eqb c (nth a K 0) then cI else cO) *! (wt CF F emb S c *! V' c j))).
          { apply sumn_ext. intros c Hc. rewrite (Nat.eqb_sym (nth a K 0) c). reflexivity. }
          rewrite (sumn_delta_l CF D (nth a K 0) (fun c => wt CF F emb S c *! V' c j)) by (apply Klt; exact Ha).
          rewrite (wt_cof F) by (rewrite HlenS; apply Klt; exact Ha).
          rewrite (nth_map_lt _ _ _ 0) by exact Ha. reflexivity. }
      (* A v^H = u diag(s) *)
      apply mx_ext; [apply wf_mulmx|apply wf_tab| | |].
      + rewrite nr_mulmx, nr_scalecols. unfold rowsel, colsel. rewrite ?nr_tab, ?nc_tab. lia.
      + rewrite nc_mulmx, nc_adjmx, nc_scalecols. unfold rowsel, colsel. rewrite ?nr_tab, ?nc_tab. reflexivity.
      + rewrite nr_mulmx, nc_mulmx, nc_adjmx.
        replace (nr (colsel i1 (rowsel K (bV st)))) with (length K) by reflexivity.
        intros i a Hi Ha.
        rewrite get_mulmx by (rewrite ?nc_adjmx; try exact Hi; exact Ha).
        unfold scalecols. rewrite get_tab by (unfold rowsel, colsel; rewrite ?nr_tab, ?nc_tab; lia).
        rewrite Gu by assumption.
        transitivity (sumn D (fun c => (U' i c *! wt CF F emb S c) *! delta CF c (nth a K 0))).
        * transitivity (sumn (nc A) (fun j => sumn D (fun c => (U' i c *! wt CF F emb S c) *! (V' c j *! cj (V' (nth a K 0) j))))).
          { apply sumn_ext. intros j Hj. rewrite get_adjmx by (unfold rowsel, colsel; rewrite ?nr_tab, ?nc_tab; lia).
            rewrite Gv by assumption. rewrite HA by assumption. rewrite <- sumn_scal_r. apply sumn_ext. intros c Hc. ring. }
          rewrite sumn_exch. apply sumn_ext. intros c Hc. rewrite sumn_scal_l.
          rewrite (HVo c (nth a K 0) Hc (Klt a Ha)). reflexivity.
        * unfold delta.
          rewrite (sumn_delta_r CF D (nth a K 0) (fun c => U' i c *! wt CF F emb S c)) by (apply Klt; exact Ha).
          rewrite (wt_cof F) by (rewrite HlenS; apply Klt; exact Ha).
          rewrite (nth_map_lt _ _ _ 0) by exact Ha. reflexivity.
  Qed.
End SVDExt.

Arguments sqs {F} s.
