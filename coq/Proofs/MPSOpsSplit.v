(* C03 — merging undoes a split: for every answer (U, sigma, V) of the block SVD oracle that reproduces the
   reshaped tensor, merge_mps_tensor_pair (split_mps_tensor A) = A for 'left', 'right' and 'sqrt'. *)
From Coq Require Import ZArith List Lia Bool Arith Ring.
From PT Require Import Base.Scalar Base.BigSum Base.Mx Model.Tensor Model.MPSOps.
From PT Require Import Proofs.MPSOpsBase Proofs.MPSOpsMul Proofs.MPSOpsDense.
Import ListNotations.

Lemma seq_as_map a n : seq a n = map (fun i => (a + i)%nat) (seq 0 n).
Proof.
  revert a; induction n as [|n IH]; intros a; [reflexivity|].
  simpl. rewrite Nat.add_0_r. f_equal. rewrite <- (seq_shift n 0), map_map, IH. apply map_ext. intros i. lia.
Qed.
Lemma map_seq_shift {A} (g : nat -> A) a n : map g (seq a n) = map (fun i => g (a + i)%nat) (seq 0 n).
Proof. rewrite (seq_as_map a n), map_map. reflexivity. Qed.
(* row-major enumeration of a product range *)
Lemma map_seq_flatten {A} (g : nat -> A) m n :
  map g (seq 0 (m * n)) = flat_map (fun i => map (fun j => g (i * n + j)%nat) (seq 0 n)) (seq 0 m).
Proof.
  induction m as [|m IH]; [reflexivity|].
  replace (S m * n)%nat with (m * n + n)%nat by lia.
  rewrite seq_app, map_app, IH. rewrite seq_S, flat_map_app. simpl. rewrite app_nil_r. f_equal.
  apply map_seq_shift.
Qed.

Section Split.
  Variable R : cring.
  Add Ring Rring_c03split : (k_rt R).
  Notation "0" := (k0 R). Notation "1" := (k1 R).
  Infix "+" := (kadd R). Infix "*" := (kmul R).
  Notation mx := (mx R).
  Notation site := (site R).

  (* contract of the oracle for the one call issued: shapes, and U diag(sigma) V reproduces the matrix *)
  Definition svd_exact (M : mx) (ans : mx * list R * mx * list Z) : Prop :=
    let '(U, sigma, V, _) := ans in
    nr U = nr M /\ nc U = length sigma /\ nr V = length sigma /\ nc V = nc M /\
    forall i j, (i < nr M)%nat -> (j < nc M)%nat ->
      sumn (length sigma) (fun l => get U i l * nth l sigma 0 * get V l j) = get M i j.

  Theorem merge_split_id svd ksqrt (A : site) qd0 qd1 qD0 qD2 distr D0 D2 :
    let d0 := length qd0 in let d1 := length qd1 in
    site_shape (d0 * d1) D0 D2 A = true -> (0 < d0 * d1)%nat ->
    let M := split_matrix d0 d1 A in
    let ans := svd M (qflat qd0 qD0) (qflat (map Z.opp qd1) qD2) in
    svd_exact M ans ->
    ((2 <= distr)%nat -> forall l, (l < length (snd (fst (fst ans))))%nat ->
        ksqrt (nth l (snd (fst (fst ans))) 0) * ksqrt (nth l (snd (fst (fst ans))) 0) = nth l (snd (fst (fst ans))) 0) ->
    let '(A0, A1, _) := split_mps_tensor svd ksqrt A qd0 qd1 qD0 qD2 distr in
    merge_mps_tensor_pair A0 A1 = A.
  Proof.
    intros d0 d1 HA Hpos M ans Hsvd Hsq.
    destruct (site_shape_sel _ _ _ _ _ 0%nat HA Hpos) as (_ & HD0 & HD2).
    unfold split_mps_tensor. fold d0 d1. rewrite HD0, HD2.
    change (split_matrix d0 d1 A) with M.
    change (svd M (qflat qd0 qD0) (qflat (map Z.opp qd1) qD2)) with ans.
    destruct ans as [[[U sigma] V] qb] eqn:Eans. cbn [fst snd] in Hsq.
    unfold svd_exact in Hsvd. destruct Hsvd as (HrU & HcU & HrV & HcV & Hrec).
    assert (HrM : nr M = (d0 * D0)%nat) by (unfold M, split_matrix; rewrite HD0; reflexivity).
    assert (HcM : nc M = (d1 * D2)%nat) by (unfold M, split_matrix; rewrite HD2; reflexivity).
    set (k := length sigma) in *.
    unfold merge_mps_tensor_pair, stab. rewrite flat_map_map.
    rewrite (site_as_tab R (d0 * d1) A (site_shape_length _ _ _ _ _ HA)) at 1.
    rewrite map_seq_flatten. apply flat_map_ext_in. intros s0 Hs0. apply in_seq in Hs0.
    rewrite map_map. apply map_ext_in. intros s1 Hs1. apply in_seq in Hs1.
    assert (Hs : (s0 * d1 + s1 < d0 * d1)%nat) by nia.
    destruct (site_shape_sel _ _ _ _ _ _ HA Hs) as (wA & rA & cA).
    apply mx_ext; [apply wf_mulmx | exact wA | | |].
    - rewrite nr_mulmx, nr_tab. congruence.
    - rewrite nc_mulmx, nc_tab. congruence.
    - rewrite nr_mulmx, nc_mulmx, nr_tab, nc_tab. intros a c Ha Hc.
      rewrite get_mulmx by (rewrite ?nr_tab, ?nc_tab; assumption). rewrite nc_tab.
      assert (Hi : (s0 * D0 + a < nr M)%nat) by (rewrite HrM; nia).
      assert (Hj : (s1 * D2 + c < nc M)%nat) by (rewrite HcM; nia).
      transitivity (sumn k (fun l => get U (s0 * D0 + a) l * nth l sigma 0 * get V l (s1 * D2 + c))).
      { apply sumn_ext. intros l Hl. rewrite !get_tab by assumption.
        destruct distr as [|[|n]]; [ring | ring |].
        pose proof (Hsq ltac:(lia) l Hl) as E. set (ks := ksqrt (nth l sigma 0)) in *. rewrite <- E. ring. }
      rewrite (Hrec _ _ Hi Hj). unfold M, split_matrix. rewrite HD0, HD2.
      rewrite get_tab by (rewrite <- ?HrM, <- ?HcM; assumption).
      rewrite !div_flat, !mod_flat by assumption. reflexivity.
  Qed.
End Split.

Arguments svd_exact {R} M ans.
