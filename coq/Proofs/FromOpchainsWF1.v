(* C05 structure, part 1: the cross-reference invariant GS of the growing graph and its preservation
   by the two primitive updates (isolated new node, new edge between existing nodes). *)
From Coq Require Import ZArith List Lia Bool.
From PT Require Import Base.Scalar Base.BigSum Model.OpGraph Model.FromOpchains Proofs.FromOpchainsGraph.
Import ListNotations.
Open Scope Z_scope.

Lemma NoDup_app_end_z {A} (l : list A) x : NoDup l -> ~ In x l -> NoDup (l ++ [x]).
Proof.
  induction l as [|a l IH]; simpl; intros Hn Hx; [constructor; [intros []|constructor]|].
  inversion Hn; subst. constructor.
  - rewrite in_app_iff. intros [H|[H|[]]]; [contradiction|subst; apply Hx; left; reflexivity].
  - apply IH; auto.
Qed.

Section GS.
  Variable R : cring.
  Notation graph := (graph R).
  Notation gedge := (gedge R).

  Record GS (g : graph) (nb eb : Z) : Prop := mkGS {
    gs_nn : NoDup (map n_id (g_nodes g));
    gs_ne : NoDup (map (@e_id R) (g_edges g));
    gs_nb : forall n, In n (g_nodes g) -> n_id n < nb;
    gs_eb : forall e, In e (g_edges g) -> e_id e < eb;
    gs_lists : forall n, In n (g_nodes g) -> NoDup (n_in n) /\ NoDup (n_out n) /\
                 (forall x, In x (n_in n) -> x < eb) /\ (forall x, In x (n_out n) -> x < eb);
    gs_in : forall n x, In n (g_nodes g) -> In x (n_in n) -> exists e, In e (g_edges g) /\ e_id e = x /\ e_to e = n_id n;
    gs_out : forall n x, In n (g_nodes g) -> In x (n_out n) -> exists e, In e (g_edges g) /\ e_id e = x /\ e_from e = n_id n;
    gs_eto : forall e, In e (g_edges g) -> exists n, In n (g_nodes g) /\ n_id n = e_to e /\ In (e_id e) (n_in n);
    gs_efrom : forall e, In e (g_edges g) -> exists n, In n (g_nodes g) /\ n_id n = e_from e /\ In (e_id e) (n_out n);
    gs_sorted : forall e, In e (g_edges g) -> sorted_opics (e_opics e) = true;
    gs_lt : forall e, In e (g_edges g) -> 0 <= e_from e < e_to e }.

  Lemma GS_mono g nb eb nb' eb' : GS g nb eb -> nb <= nb' -> eb <= eb' -> GS g nb' eb'.
  Proof.
    intros [A B C D E F G H I J K] Hn He. constructor; auto.
    - intros n Hin. specialize (C n Hin). lia.
    - intros e Hin. specialize (D e Hin). lia.
    - intros n Hin. destruct (E n Hin) as [E1 [E2 [E3 E4]]]. repeat split; auto; intros x Hx; [specialize (E3 x Hx)|specialize (E4 x Hx)]; lia.
  Qed.

  Lemma find_node_In_nd (g : graph) n : NoDup (map n_id (g_nodes g)) -> In n (g_nodes g) -> find_node g (n_id n) = Some n.
  Proof.
    unfold find_node. induction (g_nodes g) as [|a l IH]; simpl; intros Hn Hin; [contradiction|].
    inversion Hn as [|? ? Ha Hl]; subst. destruct Hin as [->|Hin]; [rewrite Z.eqb_refl; reflexivity|].
    destruct (n_id a =? n_id n) eqn:E; [|apply IH; auto]. apply Z.eqb_eq in E. exfalso. apply Ha. rewrite E. apply in_map. exact Hin.
  Qed.

  (* P1: a new isolated node with the next id *)
  Lemma GS_add_node g nb eb q g1 : GS g nb eb -> add_node g (mknode nb [] [] q) = Some g1 ->
    GS g1 (nb + 1) eb /\ g_edges g1 = g_edges g /\ g_nodes g1 = g_nodes g ++ [mknode nb [] [] q] /\
    g_t0 g1 = g_t0 g /\ g_t1 g1 = g_t1 g.
  Proof.
    intros [A B C D E F G H I J K] Ha. apply add_node_spec in Ha. destruct Ha as [-> _]. cbn [g_nodes g_edges g_t0 g_t1].
    split; [|auto]. constructor; cbn [g_nodes g_edges]; auto.
    - rewrite map_app. simpl. apply NoDup_app_end_z; [exact A|]. intros Hin. apply in_map_iff in Hin. destruct Hin as [n [E1 Hn]].
      specialize (C n Hn). cbn in E1. lia.
    - intros n Hin. apply in_app_iff in Hin. destruct Hin as [Hin|[<-|[]]]; [specialize (C n Hin); lia|cbn; lia].
    - intros n Hin. apply in_app_iff in Hin. destruct Hin as [Hin|[<-|[]]]; [apply E; exact Hin|].
      cbn. repeat split; try constructor; intros x [].
    - intros n x Hin Hx. apply in_app_iff in Hin. destruct Hin as [Hin|[<-|[]]]; [apply F; assumption|destruct Hx].
    - intros n x Hin Hx. apply in_app_iff in Hin. destruct Hin as [Hin|[<-|[]]]; [apply G; assumption|destruct Hx].
    - intros e He. destruct (H e He) as [n [A1 A2]]. exists n. split; [apply in_app_iff; left; exact A1|exact A2].
    - intros e He. destruct (I e He) as [n [A1 A2]]. exists n. split; [apply in_app_iff; left; exact A1|exact A2].
  Qed.

  (* P2: a new edge a -> b between existing nodes *)
  Lemma GS_connect g nb eb a b o c g1 na nbn : GS g nb eb ->
    find_node g a = Some na -> find_node g b = Some nbn -> 0 <= a < b ->
    add_connect_edge g (new_edge eb a b [(o, c)]) = Some g1 ->
    GS g1 nb (eb + 1) /\ g_edges g1 = g_edges g ++ [new_edge eb a b [(o, c)]] /\ map n_id (g_nodes g1) = map n_id (g_nodes g) /\
    g_t0 g1 = g_t0 g /\ g_t1 g1 = g_t1 g /\
    (forall n1, In n1 (g_nodes g1) -> exists n, In n (g_nodes g) /\ n_id n1 = n_id n /\ n_q n1 = n_q n /\
        n_in n1 = n_in n ++ (if n_id n =? b then [eb] else []) /\ n_out n1 = n_out n ++ (if n_id n =? a then [eb] else [])) /\
    (forall n, In n (g_nodes g) -> exists n1, In n1 (g_nodes g1) /\ n_id n1 = n_id n /\ n_q n1 = n_q n /\
        n_in n1 = n_in n ++ (if n_id n =? b then [eb] else []) /\ n_out n1 = n_out n ++ (if n_id n =? a then [eb] else [])).
  Proof.
    intros [A B C D E F G H I J K] Fa Fb Hab Hc. set (e := new_edge eb a b [(o, c)]) in *.
    unfold add_connect_edge in Hc. destruct (add_edge g e) as [ga|] eqn:Ea; [|discriminate]. inversion Hc; subst g1. clear Hc.
    apply add_edge_spec in Ea. destruct Ea as [-> _].
    change (e_from e) with a. change (e_to e) with b. change (e_id e) with eb.
    set (F2 := fun n : gnode => let n' := if n_id n =? a then node_add_eid eb 1 n else n in
                                if n_id n' =? b then node_add_eid eb 0 n' else n').
    assert (Enodes : g_nodes (upd_node (upd_node (mkgraph (g_nodes g) (g_edges g ++ [e]) (g_t0 g) (g_t1 g)) a (node_add_eid eb 1)) b (node_add_eid eb 0))
                     = map F2 (g_nodes g)).
    { unfold upd_node. cbn [g_nodes]. rewrite map_map. reflexivity. }
    assert (F2spec : forall n, n_id (F2 n) = n_id n /\ n_q (F2 n) = n_q n /\
              n_in (F2 n) = n_in n ++ (if n_id n =? b then [eb] else []) /\ n_out (F2 n) = n_out n ++ (if n_id n =? a then [eb] else [])).
    { intros n. unfold F2. cbn zeta. destruct (n_id n =? a) eqn:E1.
      - rewrite node_add_eid_id. apply Z.eqb_eq in E1. destruct (n_id n =? b) eqn:E2; [apply Z.eqb_eq in E2; lia|].
        cbn. rewrite app_nil_r. auto.
      - destruct (n_id n =? b) eqn:E2; cbn; rewrite ?app_nil_r; auto. }
    set (g1 := upd_node (upd_node (mkgraph (g_nodes g) (g_edges g ++ [e]) (g_t0 g) (g_t1 g)) a (node_add_eid eb 1)) b (node_add_eid eb 0)) in *.
    assert (Eedges : g_edges g1 = g_edges g ++ [e]) by reflexivity.
    assert (Hna : In na (g_nodes g) /\ n_id na = a) by (apply find_node_id in Fa; tauto).
    assert (Hnb : In nbn (g_nodes g) /\ n_id nbn = b) by (apply find_node_id in Fb; tauto).
    assert (N1 : forall n1, In n1 (g_nodes g1) -> exists n, In n (g_nodes g) /\ n1 = F2 n).
    { intros n1 H1. rewrite Enodes in H1. apply in_map_iff in H1. destruct H1 as [n [E1 Hn]]. exists n. auto. }
    assert (N2 : forall n, In n (g_nodes g) -> In (F2 n) (g_nodes g1)).
    { intros n Hn. rewrite Enodes. apply in_map. exact Hn. }
    assert (Eids : map n_id (g_nodes g1) = map n_id (g_nodes g)).
    { rewrite Enodes, map_map. apply map_ext. intros n. apply F2spec. }
    split; [|split; [exact Eedges|split; [exact Eids|split; [reflexivity|split; [reflexivity|split]]]]].
    - constructor.
      + rewrite Eids. exact A.
      + rewrite Eedges, map_app. simpl. apply NoDup_app_end_z; [exact B|]. intros Hin. apply in_map_iff in Hin.
        destruct Hin as [x [E1 Hx]]. specialize (D x Hx). change (e_id e) with eb in *. lia.
      + intros n1 H1. destruct (N1 n1 H1) as [n [Hn ->]]. destruct (F2spec n) as [-> _]. apply C. exact Hn.
      + intros x Hx. rewrite Eedges in Hx. apply in_app_iff in Hx. destruct Hx as [Hx|[<-|[]]]; [specialize (D x Hx); lia|cbn; lia].
      + intros n1 H1. destruct (N1 n1 H1) as [n [Hn ->]]. destruct (F2spec n) as [_ [_ [-> ->]]].
        destruct (E n Hn) as [E1 [E2 [E3 E4]]]. repeat split.
        * destruct (n_id n =? b); [|rewrite app_nil_r; exact E1]. apply NoDup_app_end_z; [exact E1|]. intros X. specialize (E3 _ X). lia.
        * destruct (n_id n =? a); [|rewrite app_nil_r; exact E2]. apply NoDup_app_end_z; [exact E2|]. intros X. specialize (E4 _ X). lia.
        * intros x Hx. apply in_app_iff in Hx. destruct Hx as [Hx|Hx]; [specialize (E3 x Hx); lia|].
          destruct (n_id n =? b); [destruct Hx as [<-|[]]; lia|destruct Hx].
        * intros x Hx. apply in_app_iff in Hx. destruct Hx as [Hx|Hx]; [specialize (E4 x Hx); lia|].
          destruct (n_id n =? a); [destruct Hx as [<-|[]]; lia|destruct Hx].
      + intros n1 x H1 Hx. destruct (N1 n1 H1) as [n [Hn ->]]. destruct (F2spec n) as [-> [_ [Ein _]]]. rewrite Ein in Hx.
        apply in_app_iff in Hx. destruct Hx as [Hx|Hx].
        * destruct (F n x Hn Hx) as [e' [He' X]]. exists e'. split; [rewrite Eedges; apply in_app_iff; left; exact He'|exact X].
        * destruct (n_id n =? b) eqn:E2; [|destruct Hx]. destruct Hx as [<-|[]]. apply Z.eqb_eq in E2.
          exists e. split; [rewrite Eedges; apply in_app_iff; right; left; reflexivity|]. split; [reflexivity|]. cbn. lia.
      + intros n1 x H1 Hx. destruct (N1 n1 H1) as [n [Hn ->]]. destruct (F2spec n) as [-> [_ [_ Eout]]]. rewrite Eout in Hx.
        apply in_app_iff in Hx. destruct Hx as [Hx|Hx].
        * destruct (G n x Hn Hx) as [e' [He' X]]. exists e'. split; [rewrite Eedges; apply in_app_iff; left; exact He'|exact X].
        * destruct (n_id n =? a) eqn:E2; [|destruct Hx]. destruct Hx as [<-|[]]. apply Z.eqb_eq in E2.
          exists e. split; [rewrite Eedges; apply in_app_iff; right; left; reflexivity|]. split; [reflexivity|]. cbn. lia.
      + intros x Hx. rewrite Eedges in Hx. apply in_app_iff in Hx. destruct Hx as [Hx|[<-|[]]].
        * destruct (H x Hx) as [n [Hn [E1 E2]]]. exists (F2 n). split; [apply N2; exact Hn|]. destruct (F2spec n) as [-> [_ [-> _]]].
          split; [exact E1|apply in_app_iff; left; exact E2].
        * destruct Hnb as [Hnb1 Hnb2]. exists (F2 nbn). split; [apply N2; exact Hnb1|]. destruct (F2spec nbn) as [-> [_ [-> _]]].
          split; [exact Hnb2|]. rewrite Hnb2, Z.eqb_refl. apply in_app_iff. right. left. reflexivity.
      + intros x Hx. rewrite Eedges in Hx. apply in_app_iff in Hx. destruct Hx as [Hx|[<-|[]]].
        * destruct (I x Hx) as [n [Hn [E1 E2]]]. exists (F2 n). split; [apply N2; exact Hn|]. destruct (F2spec n) as [-> [_ [_ ->]]].
          split; [exact E1|apply in_app_iff; left; exact E2].
        * destruct Hna as [Hna1 Hna2]. exists (F2 na). split; [apply N2; exact Hna1|]. destruct (F2spec na) as [-> [_ [_ ->]]].
          split; [exact Hna2|]. rewrite Hna2, Z.eqb_refl. apply in_app_iff. right. left. reflexivity.
      + intros x Hx. rewrite Eedges in Hx. apply in_app_iff in Hx. destruct Hx as [Hx|[<-|[]]]; [apply J; exact Hx|reflexivity].
      + intros x Hx. rewrite Eedges in Hx. apply in_app_iff in Hx. destruct Hx as [Hx|[<-|[]]]; [apply K; exact Hx|cbn; lia].
    - intros n1 H1. destruct (N1 n1 H1) as [n [Hn ->]]. exists n. split; [exact Hn|apply F2spec].
    - intros n Hn. exists (F2 n). split; [apply N2; exact Hn|apply F2spec].
  Qed.

  (* the U branch builds the same graph as "isolated node, then connect" *)
  Lemma u_graph_eq (g : graph) e a nid eid q g1 g2 :
    e_id e = eid -> e_from e = a -> e_to e = nid -> a <> nid ->
    add_edge g e = Some g1 ->
    add_node (upd_node g1 a (node_add_eid eid 1)) (mknode nid [eid] [] q) = Some g2 ->
    exists h, add_node g (mknode nid [] [] q) = Some h /\ add_connect_edge h e = Some g2.
  Proof.
    intros Hid Hfr Hto Hne Ea En.
    unfold add_edge in Ea. destruct (has_edge_id g (e_id e)) eqn:He; [discriminate|]. inversion Ea; subst g1. clear Ea.
    unfold add_node in En. cbn [n_id] in En.
    destruct (has_node (upd_node (mkgraph (g_nodes g) (g_edges g ++ [e]) (g_t0 g) (g_t1 g)) a (node_add_eid eid 1)) nid) eqn:Hn; [discriminate|].
    inversion En; subst g2. clear En.
    assert (Hn0 : forall n, In n (g_nodes g) -> n_id n <> nid).
    { intros n Hin E. unfold has_node, upd_node in Hn. cbn [g_nodes] in Hn.
      assert (X : existsb (fun n0 => n_id n0 =? nid) (map (fun n0 => if n_id n0 =? a then node_add_eid eid 1 n0 else n0) (g_nodes g)) = true).
      { apply existsb_exists. exists (if n_id n =? a then node_add_eid eid 1 n else n). split; [apply (in_map (fun n0 : gnode => if n_id n0 =? a then node_add_eid eid 1 n0 else n0)); exact Hin|].
        destruct (n_id n =? a); [rewrite node_add_eid_id|]; apply Z.eqb_eq; exact E. }
      congruence. }
    assert (Hn1 : has_node g nid = false).
    { unfold has_node. destruct (existsb (fun n => n_id n =? nid) (g_nodes g)) eqn:X; [|reflexivity].
      apply existsb_exists in X. destruct X as [n [Hin E]]. apply Z.eqb_eq in E. exfalso. apply (Hn0 n Hin E). }
    unfold add_node. cbn [n_id]. rewrite Hn1. eexists. split; [reflexivity|].
    unfold add_connect_edge, add_edge. cbn [g_edges]. unfold has_edge_id in *. cbn [g_edges]. rewrite He.
    f_equal. unfold upd_node. cbn [g_nodes g_edges g_t0 g_t1]. rewrite Hfr, Hto, Hid. f_equal.
    rewrite !map_app. cbn [map n_id]. rewrite map_map.
    assert (X1 : (nid =? a) = false) by (apply Z.eqb_neq; congruence). rewrite X1. cbn [n_id]. rewrite Z.eqb_refl. cbn [node_add_eid n_in app].
    f_equal. apply map_ext_in. intros n Hin. cbn beta.
    assert (X3 : (n_id n =? nid) = false) by (apply Z.eqb_neq; apply Hn0; exact Hin).
    destruct (n_id n =? a); cbn [n_id]; rewrite X3; reflexivity.
  Qed.
End GS.
