(* C09 — gauge covariance of the local problems (over any cring):
   how contraction_operator_step_left / _right, apply_local_hamiltonian and apply_local_bond_contraction
   (Model/Operation.v) transform when the site tensor is replaced by  Gl^H A[s] Gr  and the environment blocks by
   G^T L[w] conj(G)  (left blocks)  resp.  G^H R[w] G  (right blocks), for unitary G.
   Method: each function is, entry-wise, a weighted sum of entries of a triple matrix product (its "matrix form");
   the triple products transform by plain matrix algebra; the weights are untouched. *)
From Coq Require Import ZArith Arith List Lia Ring Setoid Bool.
From PT Require Import Base.Scalar Base.BigSum Base.Mx Model.Tensor Model.Operation Model.Sweeps
  Proofs.OperationEntries Proofs.ReverseDefs Proofs.ReverseMx.
Import ListNotations.

Ltac shp := autorewrite with mxshape; try assumption; try congruence; try lia.

Section Gauge.
  Variable R : cring.
  Add Ring Rring_reverse_gauge : (k_rt R).
  Infix "*" := (kmul R).
  Notation site := (site R).
  Notation osite := (osite R).
  Notation env := (env R).
  Notation mx := (mx R).
  Notation cj := (kconj R).

  (* ---------------- consequences of unitarity ---------------- *)
  Lemma unitary_conj_tr D (G : mx) : unitary D G -> mulmx (conjmx G) (trmx G) = idmx D.
  Proof.
    intros ((_ & H1 & H2) & _ & HU). rewrite <- (conjmx_adjmx R G), <- conjmx_mulmx by shp. rewrite HU. apply conjmx_idmx.
  Qed.
  Lemma unitary_tr_conj D (G : mx) : unitary D G -> mulmx (trmx G) (conjmx G) = idmx D.
  Proof.
    intros ((_ & H1 & H2) & HU & _). rewrite <- (trmx_adjmx R G), <- trmx_mulmx by shp. rewrite HU. apply trmx_idmx.
  Qed.
  Lemma unitary_idmx n : unitary n (@idmx R n).
  Proof.
    split; [split; [apply wf_idmx|split; reflexivity]|]. rewrite adjmx_idmx.
    split; apply (mulmx_1_l R (idmx n)); apply wf_idmx.
  Qed.

  (* ---------------- shapes of gauge-transformed objects ---------------- *)
  Lemma wmx_gmx Dl' Dr' (Gl Gr M : mx) : nc Gl = Dl' -> nc Gr = Dr' -> wmx Dl' Dr' (gmx Gl Gr M).
  Proof. intros H1 H2. unfold gmx. split; [apply wf_mulmx|]. split; shp. Qed.
  Lemma wsite_gsite d Dl Dr Dl' Dr' (Gl Gr : mx) (A : site) : wsite d Dl Dr A -> nc Gl = Dl' -> nc Gr = Dr' -> wsite d Dl' Dr' (gsite Gl Gr A).
  Proof. intros HA H1 H2. apply (wsite_map R d Dl Dr); [exact HA|]. intros M _. apply wmx_gmx; assumption. Qed.
  Lemma sel_gsite d Dl Dr (Gl Gr : mx) (A : site) s : wsite d Dl Dr A -> s < d -> sel (gsite Gl Gr A) s = gmx Gl Gr (sel A s).
  Proof. intros [Hl _] Hs. unfold gsite. apply sel_map_w. lia. Qed.
  Lemma esel_map (f : mx -> mx) (E : env) w : w < length E -> esel (map f E) w = f (esel E w).
  Proof. intros Hw. exact (sel_map_w R f E w Hw). Qed.
  Lemma wenv_genvL Dw D D' (G : mx) (E : env) : wenv Dw D D E -> nc G = D' -> wenv Dw D' D' (genvL G E).
  Proof.
    intros HE HG. apply (wsite_map R Dw D D); [exact HE|]. intros M _. split; [apply wf_mulmx|]. split; shp.
  Qed.
  Lemma wenv_genvR Dw D D' (G : mx) (E : env) : wenv Dw D D E -> nc G = D' -> wenv Dw D' D' (genvR G E).
  Proof.
    intros HE HG. apply (wsite_map R Dw D D); [exact HE|]. intros M _. split; [apply wf_mulmx|]. split; shp.
  Qed.

  Lemma wenv_opstep_left (A B : site) (W : osite) (L : env) :
    wenv (odr W) (sdr A) (sdr B) (contraction_operator_step_left A B W L).
  Proof.
    unfold contraction_operator_step_left. cbv zeta. apply wsite_tabl. intros w _. split; [apply wf_tab|split; reflexivity].
  Qed.
  Lemma wenv_opstep_right (A B : site) (W : osite) (E : env) :
    wenv (odl W) (sdl A) (sdl B) (contraction_operator_step_right A B W E).
  Proof.
    unfold contraction_operator_step_right. cbv zeta. apply wsite_tabl. intros w _. split; [apply wf_tab|split; reflexivity].
  Qed.

  (* ---------------- matrix forms ---------------- *)
  Lemma mform_opstep_left d Dal Dar Dbl Dbr Dwl Dwr (A B : site) W (L : env) wr c' c :
    0 < d -> 0 < Dwl -> site_ok d Dal Dar A -> site_ok d Dbl Dbr B -> osite_ok d Dwl Dwr W -> env_ok Dwl Dal Dbl L ->
    wr < Dwr -> c' < Dar -> c < Dbr ->
    get (esel (contraction_operator_step_left A B W L) wr) c' c =
    sumn d (fun t => sumn d (fun s => sumn Dwl (fun wl => get (osel W s t) wl wr *
      get (mulmx (trmx (sel A t)) (mulmx (esel L wl) (conjmx (sel B s)))) c' c))).
  Proof.
    intros Hd Hw HA HB HW HL Hwr Hc' Hc.
    rewrite (get_opstep_left R d Dal Dar Dbl Dbr Dwl Dwr) by assumption.
    apply sumn_ext; intros t Ht.
    destruct HA as [_ HA]. destruct (HA t Ht) as [a1 a2].
    transitivity (sumn Dal (fun a => sumn d (fun s => sumn Dwl (fun wl =>
       get (osel W s t) wl wr * (get (sel A t) a c' * sumn Dbl (fun b => get (esel L wl) a b * cj (get (sel B s) b c))))))).
    { apply sumn_ext; intros a _. rewrite <- sumn_scal_l. apply sumn_ext; intros s _.
      rewrite <- sumn_scal_l. apply sumn_ext; intros wl _. ring. }
    rewrite sumn_exch. apply sumn_ext; intros s Hs. rewrite sumn_exch. apply sumn_ext; intros wl Hwl.
    destruct HB as [_ HB]. destruct (HB s Hs) as [b1 b2]. destruct HL as [_ HL]. destruct (HL wl Hwl) as [l1 l2].
    rewrite sumn_scal_l. f_equal.
    rewrite get_mulmx by shp. rewrite nc_trmx, a1.
    apply sumn_ext; intros a Ha. rewrite get_trmx by lia. f_equal.
    rewrite get_mulmx by shp. rewrite l2. apply sumn_ext; intros b Hb. rewrite get_conjmx by lia. reflexivity.
  Qed.

  Lemma mform_opstep_right d Dal Dar Dbl Dbr Dwl Dwr (A B : site) W (E : env) wl a b :
    0 < d -> 0 < Dwr -> site_ok d Dal Dar A -> site_ok d Dbl Dbr B -> osite_ok d Dwl Dwr W -> env_ok Dwr Dar Dbr E ->
    wl < Dwl -> a < Dal -> b < Dbl ->
    get (esel (contraction_operator_step_right A B W E) wl) a b =
    sumn d (fun s => sumn d (fun t => sumn Dwr (fun wr => get (osel W s t) wl wr *
      get (mulmx (mulmx (sel A t) (esel E wr)) (adjmx (sel B s))) a b))).
  Proof.
    intros Hd Hw HA HB HW HE Hwl Ha Hb.
    rewrite (get_opstep_right R d Dal Dar Dbl Dbr Dwl Dwr) by assumption.
    apply sumn_ext; intros s Hs.
    destruct HB as [_ HB]. destruct (HB s Hs) as [b1 b2].
    transitivity (sumn Dbr (fun c => sumn d (fun t => sumn Dwr (fun wr =>
       get (osel W s t) wl wr * (sumn Dar (fun c' => get (sel A t) a c' * get (esel E wr) c' c) * cj (get (sel B s) b c)))))).
    { apply sumn_ext; intros c _. rewrite <- sumn_scal_r. apply sumn_ext; intros t _.
      rewrite <- sumn_scal_r. apply sumn_ext; intros wr _. ring. }
    rewrite sumn_exch. apply sumn_ext; intros t Ht. rewrite sumn_exch. apply sumn_ext; intros wr Hwr.
    destruct HA as [_ HA]. destruct (HA t Ht) as [a1 a2]. destruct HE as [_ HE]. destruct (HE wr Hwr) as [e1 e2].
    rewrite sumn_scal_l. f_equal.
    rewrite get_mulmx by shp. rewrite nc_mulmx, e2.
    apply sumn_ext; intros c Hc. rewrite get_adjmx by lia. f_equal.
    rewrite get_mulmx by shp. rewrite a2. reflexivity.
  Qed.

  (* ---------------- the triple products under a change of gauge ---------------- *)
  Lemma triple_left Dl Dr (Gl Gr At As E : mx) :
    unitary Dl Gl -> wmx Dr Dr Gr -> wmx Dl Dr At -> wmx Dl Dr As -> wmx Dl Dl E ->
    mulmx (trmx (gmx Gl Gr At)) (mulmx (mulmx (mulmx (trmx Gl) E) (conjmx Gl)) (conjmx (gmx Gl Gr As))) =
    mulmx (mulmx (trmx Gr) (mulmx (trmx At) (mulmx E (conjmx As)))) (conjmx Gr).
  Proof.
    intros HU (r0 & r1 & r2) (t0 & t1 & t2) (s0 & s1 & s2) (e0 & e1 & e2).
    pose proof (unitary_conj_tr Dl Gl HU) as Hc. destruct HU as ((g0 & g1 & g2) & _ & _).
    unfold gmx.
    rewrite (trmx_mulmx R (mulmx (adjmx Gl) At) Gr) by shp. rewrite (trmx_mulmx R (adjmx Gl) At) by shp. rewrite trmx_adjmx.
    rewrite (conjmx_mulmx R (mulmx (adjmx Gl) As) Gr) by shp. rewrite (conjmx_mulmx R (adjmx Gl) As) by shp. rewrite conjmx_adjmx.
    repeat rewrite mulmx_assoc by shp.
    rewrite (mulmx_cancel R (conjmx Gl) (trmx Gl) _ Dl Hc) by (shp; apply wf_mulmx).
    rewrite (mulmx_cancel R (conjmx Gl) (trmx Gl) _ Dl Hc) by (shp; apply wf_mulmx).
    reflexivity.
  Qed.

  Lemma triple_right Dl Dr (Gl Gr At As E : mx) :
    unitary Dr Gr -> wmx Dl Dl Gl -> wmx Dl Dr At -> wmx Dl Dr As -> wmx Dr Dr E ->
    mulmx (mulmx (gmx Gl Gr At) (mulmx (mulmx (adjmx Gr) E) Gr)) (adjmx (gmx Gl Gr As)) =
    mulmx (mulmx (adjmx Gl) (mulmx (mulmx At E) (adjmx As))) Gl.
  Proof.
    intros HU (l0 & l1 & l2) (t0 & t1 & t2) (s0 & s1 & s2) (e0 & e1 & e2).
    destruct HU as ((g0 & g1 & g2) & _ & Hc).
    unfold gmx.
    rewrite (adjmx_mulmx R (mulmx (adjmx Gl) As) Gr) by shp. rewrite (adjmx_mulmx R (adjmx Gl) As) by shp. rewrite adjmx_adjmx by exact l0.
    repeat rewrite mulmx_assoc by shp.
    rewrite (mulmx_cancel R Gr (adjmx Gr) _ Dr Hc) by (shp; apply wf_mulmx).
    rewrite (mulmx_cancel R Gr (adjmx Gr) _ Dr Hc) by (shp; apply wf_mulmx).
    reflexivity.
  Qed.

  (* ---------------- covariance of the environment updates ---------------- *)
  Theorem opstep_left_gauge d Dl Dr Dwl Dwr (A : site) (W : osite) (E : env) (Gl Gr : mx) :
    0 < d -> 0 < Dwl -> wsite d Dl Dr A -> osite_ok d Dwl Dwr W -> wenv Dwl Dl Dl E -> unitary Dl Gl -> wmx Dr Dr Gr ->
    contraction_operator_step_left (gsite Gl Gr A) (gsite Gl Gr A) W (genvL Gl E) =
    genvL Gr (contraction_operator_step_left A A W E).
  Proof.
    intros Hd Hw HA HW HE HU HGr. pose proof HU as ((g0 & g1 & g2) & _). pose proof HGr as (r0 & r1 & r2).
    assert (HA' : wsite d Dl Dr (gsite Gl Gr A)) by (apply (wsite_gsite d Dl Dr); assumption).
    assert (HE' : wenv Dwl Dl Dl (genvL Gl E)) by (apply (wenv_genvL Dwl Dl); assumption).
    destruct (site_ok_sdl R _ _ _ _ Hd (wsite_ok R _ _ _ _ HA)) as (E1 & E2 & E3).
    destruct (site_ok_sdl R _ _ _ _ Hd (wsite_ok R _ _ _ _ HA')) as (F1 & F2 & F3).
    destruct (osite_ok_odl R _ _ _ _ Hd HW) as (W1 & W2 & W3).
    assert (HX : wenv Dwr Dr Dr (contraction_operator_step_left A A W E)).
    { pose proof (wenv_opstep_left A A W E) as H. rewrite W2, E2 in H. exact H. }
    apply (wenv_ext R Dwr Dr Dr).
    - pose proof (wenv_opstep_left (gsite Gl Gr A) (gsite Gl Gr A) W (genvL Gl E)) as H. rewrite W2, F2 in H. exact H.
    - apply (wenv_genvL Dwr Dr); assumption.
    - intros wr c' c Hwr Hc' Hc.
      rewrite (mform_opstep_left d Dl Dr Dl Dr Dwl Dwr) by (try assumption; try apply wsite_ok; try apply wenv_ok; assumption).
      unfold genvL at 2. rewrite esel_map by (rewrite (proj1 HX); exact Hwr).
      destruct (wenv_esel R _ _ _ _ wr HX Hwr) as (x0 & x1 & x2).
      rewrite get_sandwich by shp. rewrite x1, x2.
      rewrite (sand_ext R Dr Dr _ _ _ (fun k l => sumn d (fun t => sumn d (fun s => sumn Dwl (fun wl => get (osel W s t) wl wr *
                 get (mulmx (trmx (sel A t)) (mulmx (esel E wl) (conjmx (sel A s)))) k l))))).
      2: { intros k l Hk Hl. apply (mform_opstep_left d Dl Dr Dl Dr Dwl Dwr); try assumption; try apply wsite_ok; try apply wenv_ok; assumption. }
      rewrite sand_sum. apply sumn_ext; intros t Ht. rewrite sand_sum. apply sumn_ext; intros s Hs.
      rewrite sand_sum. apply sumn_ext; intros wl Hwl. rewrite sand_scal. f_equal.
      rewrite !(sel_gsite d Dl Dr) by assumption. unfold genvL. rewrite esel_map by (rewrite (proj1 HE); exact Hwl).
      rewrite (triple_left Dl Dr) by (try assumption; try (apply (wsite_sel R d); assumption); apply (wenv_esel R Dwl); assumption).
      destruct (wsite_sel R _ _ _ _ t HA Ht) as (t0 & t1 & t2). destruct (wsite_sel R _ _ _ _ s HA Hs) as (s0 & s1 & s2).
      destruct (wenv_esel R _ _ _ _ wl HE Hwl) as (e0 & e1 & e2).
      rewrite get_sandwich by shp. autorewrite with mxshape. rewrite t2, s2. reflexivity.
  Qed.

  Theorem opstep_right_gauge d Dl Dr Dwl Dwr (A : site) (W : osite) (E : env) (Gl Gr : mx) :
    0 < d -> 0 < Dwr -> wsite d Dl Dr A -> osite_ok d Dwl Dwr W -> wenv Dwr Dr Dr E -> unitary Dr Gr -> wmx Dl Dl Gl ->
    contraction_operator_step_right (gsite Gl Gr A) (gsite Gl Gr A) W (genvR Gr E) =
    genvR Gl (contraction_operator_step_right A A W E).
  Proof.
    intros Hd Hw HA HW HE HU HGl. pose proof HU as ((g0 & g1 & g2) & _). pose proof HGl as (l0 & l1 & l2).
    assert (HA' : wsite d Dl Dr (gsite Gl Gr A)) by (apply (wsite_gsite d Dl Dr); assumption).
    assert (HE' : wenv Dwr Dr Dr (genvR Gr E)) by (apply (wenv_genvR Dwr Dr); assumption).
    destruct (site_ok_sdl R _ _ _ _ Hd (wsite_ok R _ _ _ _ HA)) as (E1 & E2 & E3).
    destruct (site_ok_sdl R _ _ _ _ Hd (wsite_ok R _ _ _ _ HA')) as (F1 & F2 & F3).
    destruct (osite_ok_odl R _ _ _ _ Hd HW) as (W1 & W2 & W3).
    assert (HX : wenv Dwl Dl Dl (contraction_operator_step_right A A W E)).
    { pose proof (wenv_opstep_right A A W E) as H. rewrite W1, E1 in H. exact H. }
    apply (wenv_ext R Dwl Dl Dl).
    - pose proof (wenv_opstep_right (gsite Gl Gr A) (gsite Gl Gr A) W (genvR Gr E)) as H. rewrite W1, F1 in H. exact H.
    - apply (wenv_genvR Dwl Dl); assumption.
    - intros wl a b Hwl Ha Hb.
      rewrite (mform_opstep_right d Dl Dr Dl Dr Dwl Dwr) by (try assumption; try apply wsite_ok; try apply wenv_ok; assumption).
      unfold genvR at 2. rewrite esel_map by (rewrite (proj1 HX); exact Hwl).
      destruct (wenv_esel R _ _ _ _ wl HX Hwl) as (x0 & x1 & x2).
      rewrite get_sandwich by shp. rewrite x1, x2.
      rewrite (sand_ext R Dl Dl _ _ _ (fun k l => sumn d (fun s => sumn d (fun t => sumn Dwr (fun wr => get (osel W s t) wl wr *
                 get (mulmx (mulmx (sel A t) (esel E wr)) (adjmx (sel A s))) k l))))).
      2: { intros k l Hk Hl. apply (mform_opstep_right d Dl Dr Dl Dr Dwl Dwr); try assumption; try apply wsite_ok; try apply wenv_ok; assumption. }
      rewrite sand_sum. apply sumn_ext; intros s Hs. rewrite sand_sum. apply sumn_ext; intros t Ht.
      rewrite sand_sum. apply sumn_ext; intros wr Hwr. rewrite sand_scal. f_equal.
      rewrite !(sel_gsite d Dl Dr) by assumption. unfold genvR. rewrite esel_map by (rewrite (proj1 HE); exact Hwr).
      rewrite (triple_right Dl Dr) by (try assumption; try (apply (wsite_sel R d); assumption); apply (wenv_esel R Dwr); assumption).
      destruct (wsite_sel R _ _ _ _ t HA Ht) as (t0 & t1 & t2). destruct (wsite_sel R _ _ _ _ s HA Hs) as (s0 & s1 & s2).
      destruct (wenv_esel R _ _ _ _ wr HE Hwr) as (e0 & e1 & e2).
      rewrite get_sandwich by shp. autorewrite with mxshape. rewrite t1, s1. reflexivity.
  Qed.

  (* the boundary blocks are fixed by the trivial gauge *)
  Lemma idmx1_sandwich (T : mx) : wmx 1 1 T -> mulmx (mulmx (idmx 1) T) (idmx 1) = T.
  Proof.
    intros (w & r & c). transitivity (mulmx (mulmx (idmx (nr T)) T) (idmx (nc T))); [rewrite r, c; reflexivity|].
    rewrite mulmx_1_l by exact w. apply mulmx_1_r. exact w.
  Qed.
  Lemma genvL_one : genvL (idmx 1) (@env_one R) = env_one.
  Proof.
    unfold genvL, env_one. cbn [map]. f_equal. rewrite trmx_idmx, conjmx_idmx.
    apply idmx1_sandwich. split; [apply wf_tab|split; reflexivity].
  Qed.
  Lemma genvR_one : genvR (idmx 1) (@env_one R) = env_one.
  Proof.
    unfold genvR, env_one. cbn [map]. f_equal. rewrite adjmx_idmx.
    apply idmx1_sandwich. split; [apply wf_tab|split; reflexivity].
  Qed.
  Lemma wenv_one : wenv 1 1 1 (@env_one R).
  Proof. split; [reflexivity|]. constructor; [|constructor]. split; [apply wf_tab|split; reflexivity]. Qed.
End Gauge.
