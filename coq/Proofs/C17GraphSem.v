(* Graph semantics shared by the C17 proofs: coefficient of an operator id under OpGraphEdge's
   normalisation, path sums over the edge list (forward [dene] and backward [pre]), and the invariant
   [OutInv] under which [den] (which follows the nodes' outgoing edge-id lists) equals the path sum
   over the edge list; preservation of [OutInv] by the graph updates used by the builders. *)
From Coq Require Import ZArith List Lia Bool Permutation Ring.
From PT Require Import Base.Scalar Base.BigSum Model.OpGraph.
Import ListNotations.
Open Scope Z_scope.

Section GraphSem.
  Variable R : cring.
  Add Ring Rring_c17sem : (k_rt R).
  Notation "0r" := (k0 R). Notation "1r" := (k1 R).
  Infix "+r" := (kadd R) (at level 50, left associativity).
  Infix "*r" := (kmul R) (at level 40, left associativity).
  Notation graph := (graph R).
  Notation gedge := (gedge R).

  (* ---------- opics_coeff and the edge constructor ---------- *)
  Lemma opics_coeff_app o (a b : list (Z * R)) : opics_coeff o (a ++ b) = opics_coeff o a +r opics_coeff o b.
  Proof. unfold opics_coeff. apply suml_app. Qed.

  Lemma opics_coeff_insert o i c (l : list (Z * R)) :
    opics_coeff o (opics_insert R i c l) = (if i =? o then c else 0r) +r opics_coeff o l.
  Proof.
    induction l as [|[j d] t IH]; simpl.
    - unfold opics_coeff; simpl. reflexivity.
    - destruct (Z.eqb_spec i j) as [->|Hne].
      + rewrite opics_coeff_app. unfold opics_coeff at 2 3; simpl.
        destruct (j =? o); fold (opics_coeff o t); ring.
      + unfold opics_coeff in *; simpl in *. rewrite IH. ring.
  Qed.

  Lemma opics_coeff_sort_insert o p (l : list (Z * R)) :
    opics_coeff o (opics_sort_insert R p l) = (if fst p =? o then snd p else 0r) +r opics_coeff o l.
  Proof.
    induction l as [|q t IH]; simpl.
    - reflexivity.
    - destruct (fst p <? fst q).
      + reflexivity.
      + unfold opics_coeff in *; simpl in *. rewrite IH. ring.
  Qed.

  Lemma opics_coeff_sort o (l : list (Z * R)) : opics_coeff o (opics_sort R l) = opics_coeff o l.
  Proof.
    induction l as [|p t IH]; simpl; [reflexivity|].
    rewrite opics_coeff_sort_insert, IH. reflexivity.
  Qed.

  Lemma opics_coeff_fold o (l acc : list (Z * R)) :
    opics_coeff o (fold_left (fun acc p => opics_insert R (fst p) (snd p) acc) l acc) = opics_coeff o acc +r opics_coeff o l.
  Proof.
    revert acc; induction l as [|p t IH]; intros acc; simpl.
    - unfold opics_coeff at 3; simpl. ring.
    - rewrite IH, opics_coeff_insert. unfold opics_coeff at 4; simpl. fold (opics_coeff o t). ring.
  Qed.

  Lemma opics_coeff_norm o (l : list (Z * R)) : opics_coeff o (opics_norm l) = opics_coeff o l.
  Proof.
    unfold opics_norm. rewrite opics_coeff_sort, opics_coeff_fold. unfold opics_coeff at 1; simpl. ring.
  Qed.

  Lemma opics_coeff_single o i c : opics_coeff o [(i, c)] = if i =? o then c else 0r.
  Proof. unfold opics_coeff; simpl. destruct (i =? o); ring. Qed.

  (* ---------- path sums over an edge list ---------- *)
  (* paths from [nid] to [b] spelling w *)
  Fixpoint dene (es : list gedge) (b : Z) (w : list Z) (nid : Z) : R :=
    match w with
    | [] => if nid =? b then 1r else 0r
    | o :: w' => suml es (fun e => if e_from e =? nid
                                   then opics_coeff o (e_opics e) *r dene es b w' (e_to e) else 0r)
    end.
  (* paths from [a] to [nid] spelling (rev wr) *)
  Fixpoint pre (es : list gedge) (a : Z) (wr : list Z) (nid : Z) : R :=
    match wr with
    | [] => if nid =? a then 1r else 0r
    | o :: w' => suml es (fun e => if e_to e =? nid
                                   then pre es a w' (e_from e) *r opics_coeff o (e_opics e) else 0r)
    end.

  Lemma dene_snoc es b w o a :
    dene es b (w ++ [o]) a =
    suml es (fun e => if e_to e =? b then dene es (e_from e) w a *r opics_coeff o (e_opics e) else 0r).
  Proof.
    revert a; induction w as [|o' w IH]; intros a; simpl.
    - apply suml_ext. intros e _. rewrite (Z.eqb_sym a (e_from e)).
      destruct (e_from e =? a), (e_to e =? b); ring.
    - transitivity (suml es (fun e => suml es (fun e' =>
         if (e_from e =? a) && (e_to e' =? b)
         then opics_coeff o' (e_opics e) *r dene es (e_from e') w (e_to e) *r opics_coeff o (e_opics e') else 0r))).
      { apply suml_ext. intros e _. destruct (e_from e =? a); simpl.
        - rewrite IH, <- suml_scal_l. apply suml_ext. intros e' _. destruct (e_to e' =? b); ring.
        - symmetry. apply suml_zero. auto. }
      rewrite suml_exch. apply suml_ext. intros e' _.
      destruct (e_to e' =? b).
      + rewrite <- suml_scal_r. apply suml_ext. intros e _. destruct (e_from e =? a); simpl; ring.
      + apply suml_zero. intros e _. rewrite andb_false_r. reflexivity.
  Qed.

  Lemma dene_pre es a b w : dene es b w a = pre es a (rev w) b.
  Proof.
    revert b. induction w as [|o w IH] using rev_ind; intros b.
    - simpl. rewrite Z.eqb_sym. reflexivity.
    - rewrite rev_app_distr. simpl. rewrite dene_snoc. apply suml_ext. intros e _.
      rewrite IH. reflexivity.
  Qed.

  (* the path sum from a node of a set closed under the old edges is not changed by new edges starting outside *)
  Lemma dene_closed_ext (C : Z -> bool) es new b :
    (forall e, In e es -> C (e_from e) = true -> C (e_to e) = true) ->
    (forall e, In e new -> C (e_from e) = false) ->
    forall w x, C x = true -> dene (es ++ new) b w x = dene es b w x.
  Proof.
    intros Hcl Hnew. induction w as [|o w IH]; intros x Hx; simpl; [reflexivity|].
    rewrite suml_app. rewrite (suml_zero R new).
    - transitivity (suml es (fun e => if e_from e =? x then opics_coeff o (e_opics e) *r dene es b w (e_to e) else 0r) +r 0r); [|ring].
      f_equal. apply suml_ext. intros e He. destruct (Z.eqb_spec (e_from e) x) as [E|]; [|reflexivity].
      rewrite IH; [reflexivity|]. apply Hcl; [exact He|]. rewrite E. exact Hx.
    - intros e He. destruct (Z.eqb_spec (e_from e) x) as [E|]; [|reflexivity].
      apply Hnew in He. rewrite E in He. congruence.
  Qed.

  (* the backward sum to a node is not changed by new edges that end at other nodes not upstream of it *)
  Lemma pre_closed_ext (C : Z -> bool) es new a :
    (forall e, In e es -> C (e_to e) = true -> C (e_from e) = true) ->
    (forall e, In e new -> C (e_to e) = false) ->
    forall w x, C x = true -> pre (es ++ new) a w x = pre es a w x.
  Proof.
    intros Hcl Hnew. induction w as [|o w IH]; intros x Hx; simpl; [reflexivity|].
    rewrite suml_app. rewrite (suml_zero R new).
    - transitivity (suml es (fun e => if e_to e =? x then pre es a w (e_from e) *r opics_coeff o (e_opics e) else 0r) +r 0r); [|ring].
      f_equal. apply suml_ext. intros e He. destruct (Z.eqb_spec (e_to e) x) as [E|]; [|reflexivity].
      rewrite IH; [reflexivity|]. apply Hcl; [exact He|]. rewrite E. exact Hx.
    - intros e He. destruct (Z.eqb_spec (e_to e) x) as [E|]; [|reflexivity].
      apply Hnew in He. rewrite E in He. congruence.
  Qed.

  Lemma suml_filter {A} (p : A -> bool) (l : list A) (f : A -> R) :
    suml (filter p l) f = suml l (fun x => if p x then f x else 0r).
  Proof. induction l as [|x t IH]; simpl; [reflexivity|]. destruct (p x); simpl; rewrite IH; ring. Qed.

  (* ---------- lookups ---------- *)
  Lemma find_node_some (g : graph) nid n : find_node g nid = Some n -> In n (g_nodes g) /\ n_id n = nid.
  Proof. unfold find_node. intros H. apply find_some in H. destruct H as [H1 H2]. apply Z.eqb_eq in H2. auto. Qed.
  Lemma find_edge_some (g : graph) eid e : find_edge g eid = Some e -> In e (g_edges g) /\ e_id e = eid.
  Proof. unfold find_edge. intros H. apply find_some in H. destruct H as [H1 H2]. apply Z.eqb_eq in H2. auto. Qed.
  Lemma has_node_true (g : graph) nid : has_node g nid = true <-> exists n, In n (g_nodes g) /\ n_id n = nid.
  Proof.
    unfold has_node. rewrite existsb_exists. split; intros [n [H1 H2]]; exists n; split; auto; apply Z.eqb_eq; auto.
  Qed.
  Lemma has_node_find (g : graph) nid : has_node g nid = true <-> exists n, find_node g nid = Some n.
  Proof.
    split.
    - intros H. apply has_node_true in H. destruct H as [n [H1 H2]].
      unfold find_node. destruct (find (fun n0 => n_id n0 =? nid) (g_nodes g)) eqn:E; [eauto|].
      exfalso. eapply find_none in E; [|exact H1]. simpl in E. apply Z.eqb_neq in E. auto.
    - intros [n H]. apply find_node_some in H. apply has_node_true. eauto.
  Qed.
  Lemma has_node_false_find (g : graph) nid : has_node g nid = false -> find_node g nid = None.
  Proof.
    intros H. destruct (find_node g nid) eqn:E; [|reflexivity].
    assert (has_node g nid = true) by (apply has_node_find; eauto). congruence.
  Qed.
  Lemma has_edge_id_true (g : graph) eid : has_edge_id g eid = true <-> exists e, In e (g_edges g) /\ e_id e = eid.
  Proof.
    unfold has_edge_id. rewrite existsb_exists. split; intros [n [H1 H2]]; exists n; split; auto; apply Z.eqb_eq; auto.
  Qed.

  Lemma find_nodup_edge (es : list gedge) e :
    NoDup (map (@e_id R) es) -> In e es -> find (fun e' => e_id e' =? e_id e) es = Some e.
  Proof.
    induction es as [|x t IH]; intros Hnd Hin; [destruct Hin|]. simpl in *.
    inversion Hnd as [|? ? Hx Ht]; subst. destruct Hin as [->|Hin].
    - rewrite Z.eqb_refl. reflexivity.
    - destruct (Z.eqb_spec (e_id x) (e_id e)) as [E|_].
      + exfalso. apply Hx. rewrite E. apply in_map. exact Hin.
      + apply IH; assumption.
  Qed.

  Lemma NoDup_app_single {A} (l : list A) (x : A) : NoDup l -> ~ In x l -> NoDup (l ++ [x]).
  Proof.
    intros Hl Hx. induction l as [|y t IH]; simpl.
    - constructor; [intros []|constructor].
    - inversion Hl; subst. constructor.
      + rewrite in_app_iff. simpl. intros [H|[H|[]]]; [auto|]. subst. apply Hx. left; reflexivity.
      + apply IH; auto. intros H. apply Hx. right; exact H.
  Qed.

  (* ---------- the invariant ---------- *)
  Record OutInv (g : graph) : Prop := {
    oi_nodes : NoDup (map n_id (g_nodes g));
    oi_edges : NoDup (map (@e_id R) (g_edges g));
    oi_out : forall n, In n (g_nodes g) ->
             Permutation (n_out n) (map (@e_id R) (filter (fun e => e_from e =? n_id n) (g_edges g)));
    oi_from : forall e, In e (g_edges g) -> has_node g (e_from e) = true
  }.

  Lemma edges_of_perm (g : graph) l1 l2 (f : gedge -> R) :
    Permutation l1 l2 -> suml (edges_of g l1) f = suml (edges_of g l2) f.
  Proof.
    unfold edges_of. induction 1; simpl; rewrite ?suml_app in *.
    - reflexivity.
    - rewrite IHPermutation. reflexivity.
    - ring.
    - congruence.
  Qed.

  Lemma edges_of_ids (g : graph) (l : list gedge) :
    NoDup (map (@e_id R) (g_edges g)) -> (forall e, In e l -> In e (g_edges g)) ->
    edges_of g (map (@e_id R) l) = l.
  Proof.
    intros Hnd. induction l as [|e t IH]; intros Hin; [reflexivity|].
    unfold edges_of in *. simpl. unfold find_edge at 1. rewrite find_nodup_edge; auto.
    - simpl. f_equal. apply IH. intros; apply Hin; right; auto.
    - apply Hin; left; reflexivity.
  Qed.

  Lemma den_from_dene (g : graph) : OutInv g ->
    forall w nid, den_from g w nid = dene (g_edges g) (g_t1 g) w nid.
  Proof.
    intros Hinv. induction w as [|o w IH]; intros nid; simpl; [reflexivity|].
    unfold out_edges. destruct (find_node g nid) as [n|] eqn:Hn.
    - apply find_node_some in Hn. destruct Hn as [Hin Hid].
      rewrite (edges_of_perm g _ _ _ (oi_out g Hinv n Hin)).
      rewrite edges_of_ids; [|apply (oi_edges g Hinv)|intros e He; apply filter_In in He; tauto].
      rewrite suml_filter. apply suml_ext. intros e _. rewrite Hid, IH. reflexivity.
    - simpl. symmetry. apply suml_zero. intros e He.
      destruct (Z.eqb_spec (e_from e) nid) as [E|]; [|reflexivity].
      apply (oi_from g Hinv) in He. rewrite E in He. apply has_node_find in He. destruct He as [n He]. congruence.
  Qed.

  Lemma den_dene (g : graph) : OutInv g -> forall w, den g w = dene (g_edges g) (g_t1 g) w (g_t0 g).
  Proof. intros H w. apply den_from_dene. exact H. Qed.

  (* OutInv does not look at the terminals, nor at the incoming edge-id lists *)
  Lemma OutInv_terminals (g : graph) a b : OutInv g -> OutInv (mkgraph (g_nodes g) (g_edges g) a b).
  Proof. intros [H1 H2 H3 H4]. constructor; auto. Qed.

  Lemma map_id_upd (nodes : list gnode) (f : gnode -> gnode) (p : gnode -> bool) :
    (forall n, n_id (f n) = n_id n) -> map n_id (map (fun n => if p n then f n else n) nodes) = map n_id nodes.
  Proof.
    intros Hf. rewrite map_map. apply map_ext. intros n. destruct (p n); auto.
  Qed.

  Lemma has_node_upd (g : graph) x f nid : (forall n, n_id (f n) = n_id n) ->
    has_node (upd_node g x f) nid = has_node g nid.
  Proof.
    intros Hf. unfold has_node, upd_node; simpl.
    induction (g_nodes g) as [|n t IH]; simpl; [reflexivity|].
    rewrite IH. destruct (n_id n =? x); rewrite ?Hf; reflexivity.
  Qed.

  Lemma OutInv_upd_in (g : graph) x eid : OutInv g -> OutInv (upd_node g x (node_add_eid eid 0)).
  Proof.
    intros [H1 H2 H3 H4]. constructor; simpl.
    - rewrite map_id_upd; auto.
    - exact H2.
    - intros n Hn. apply in_map_iff in Hn. destruct Hn as [m [Hm Hin]].
      destruct (n_id m =? x); subst n; simpl; apply H3; exact Hin.
    - intros e He. rewrite has_node_upd; auto.
  Qed.

  (* a new edge e (fresh id) out of an existing node a: the node's out-list gets the id appended *)
  Lemma OutInv_out_edge (g : graph) (e : gedge) :
    OutInv g -> has_node g (e_from e) = true -> has_edge_id g (e_id e) = false ->
    OutInv (mkgraph (map (fun n => if n_id n =? e_from e then node_add_eid (e_id e) 1 n else n) (g_nodes g))
                    (g_edges g ++ [e]) (g_t0 g) (g_t1 g)).
  Proof.
    intros [H1 H2 H3 H4] Ha He. constructor; simpl.
    - rewrite map_id_upd; auto.
    - rewrite map_app. simpl. apply NoDup_app_single; [exact H2|].
      intros Hin. apply in_map_iff in Hin. destruct Hin as [e' [E Hin]].
      assert (has_edge_id g (e_id e) = true) by (apply has_edge_id_true; eauto). congruence.
    - intros n Hn. apply in_map_iff in Hn. destruct Hn as [m [Hm Hin]].
      rewrite filter_app, map_app. simpl.
      destruct (Z.eqb_spec (n_id m) (e_from e)) as [E|Hne]; subst n; simpl.
      + rewrite E, Z.eqb_refl. simpl. apply Permutation_app_tail. rewrite <- E. apply H3. exact Hin.
      + assert (E2 : (e_from e =? n_id m) = false) by (apply Z.eqb_neq; auto). rewrite E2. simpl.
        rewrite app_nil_r. apply H3. exact Hin.
    - intros e' He'. apply in_app_or in He'.
      assert (Hhas : forall nid, has_node g nid = true ->
        has_node (mkgraph (map (fun n => if n_id n =? e_from e then node_add_eid (e_id e) 1 n else n) (g_nodes g))
                          (g_edges g ++ [e]) (g_t0 g) (g_t1 g)) nid = true).
      { intros nid Hn. change (has_node (upd_node (mkgraph (g_nodes g) (g_edges g ++ [e]) (g_t0 g) (g_t1 g)) (e_from e) (node_add_eid (e_id e) 1)) nid = true).
        rewrite has_node_upd; auto. }
      destruct He' as [He'|[<-|[]]]; apply Hhas; auto.
  Qed.

  Lemma filter_none {A} (p : A -> bool) (l : list A) : (forall x, In x l -> p x = false) -> filter p l = [].
  Proof.
    induction l as [|x t IH]; simpl; intros H; [reflexivity|]. rewrite (H x) by (left; reflexivity).
    apply IH. intros; apply H; right; assumption.
  Qed.

  Lemma add_node_inv (g g' : graph) (n : gnode) :
    OutInv g -> add_node g n = Some g' -> n_out n = [] ->
    OutInv g' /\ g_edges g' = g_edges g /\ g_nodes g' = g_nodes g ++ [n] /\ g_t0 g' = g_t0 g /\ g_t1 g' = g_t1 g.
  Proof.
    intros [H1 H2 H3 H4] Ha Hout. unfold add_node in Ha.
    destruct (has_node g (n_id n)) eqn:Hn; [discriminate|]. inversion Ha; subst g'; clear Ha. simpl.
    split; [|auto]. constructor; simpl.
    - rewrite map_app. simpl. apply NoDup_app_single; [exact H1|].
      intros Hin. apply in_map_iff in Hin. destruct Hin as [m [E Hin]].
      assert (has_node g (n_id n) = true) by (apply has_node_true; eauto). congruence.
    - exact H2.
    - intros m Hm. apply in_app_or in Hm. destruct Hm as [Hm|[<-|[]]]; [apply H3; exact Hm|].
      rewrite Hout. replace (filter (fun e => e_from e =? n_id n) (g_edges g)) with (@nil gedge); [constructor|].
      symmetry. apply filter_none.
      intros e He. apply Z.eqb_neq. intros E. apply H4 in He. rewrite E in He. congruence.
    - intros e He. apply H4 in He. apply has_node_true in He. destruct He as [m [Hm E]].
      apply has_node_true. exists m. simpl. split; [apply in_or_app; left; exact Hm|exact E].
  Qed.

  Lemma add_connect_edge_inv (g g' : graph) (e : gedge) :
    OutInv g -> has_node g (e_from e) = true -> add_connect_edge g e = Some g' ->
    OutInv g' /\ g_edges g' = g_edges g ++ [e] /\ map n_id (g_nodes g') = map n_id (g_nodes g) /\
    g_t0 g' = g_t0 g /\ g_t1 g' = g_t1 g /\ (forall nid, has_node g' nid = has_node g nid).
  Proof.
    intros Hinv Hfrom Ha. unfold add_connect_edge, add_edge in Ha.
    destruct (has_edge_id g (e_id e)) eqn:He; [discriminate|]. inversion Ha; subst g'; clear Ha.
    split; [|split; [reflexivity|split; [|split; [reflexivity|split; [reflexivity|]]]]].
    - apply OutInv_upd_in. apply (OutInv_out_edge g e Hinv Hfrom He).
    - simpl. rewrite !map_id_upd; auto; intros n; destruct n; reflexivity.
    - intros nid. rewrite !has_node_upd; auto; intros n; destruct n; reflexivity.
  Qed.

  Lemma NoDup_map_filter {A B} (f : A -> B) (p : A -> bool) (l : list A) : NoDup (map f l) -> NoDup (map f (filter p l)).
  Proof.
    induction l as [|x t IH]; simpl; intros H; [constructor|]. inversion H; subst.
    destruct (p x); simpl; [constructor|]; auto.
    intros Hin. apply in_map_iff in Hin. destruct Hin as [y [E Hy]]. apply filter_In in Hy.
    apply H2. rewrite <- E. apply in_map. tauto.
  Qed.

  Lemma remove_node_inv (g : graph) nid :
    OutInv g -> (forall e, In e (g_edges g) -> e_from e <> nid) -> OutInv (remove_node g nid).
  Proof.
    intros [H1 H2 H3 H4] Hno. constructor; simpl.
    - apply NoDup_map_filter. exact H1.
    - exact H2.
    - intros n Hn. apply filter_In in Hn. apply H3. tauto.
    - intros e He. pose proof (Hno e He) as Hne. apply H4 in He. apply has_node_true in He.
      destruct He as [m [Hm E]]. apply has_node_true. exists m. simpl. split; [|exact E].
      apply filter_In. split; [exact Hm|]. apply negb_true_iff. apply Z.eqb_neq. congruence.
  Qed.
End GraphSem.

Arguments dene {R} _ _ _ _. Arguments pre {R} _ _ _ _. Arguments OutInv {R} _.
