(* C05 structure, part 3: the graph returned by from_opchains passes the linkage check; hence its forward
   meaning [den] is the sum of the padded chains without any side condition. *)
From Coq Require Import ZArith List Lia Bool.
From PT Require Import Base.Scalar Base.BigSum Model.OpGraph Model.FromOpchains
                       Proofs.FromOpchainsGraph Proofs.FromOpchainsPart Proofs.FromOpchainsSem Proofs.FromOpchainsMain
                       Proofs.FromOpchainsThm Proofs.FromOpchainsWF1 Proofs.FromOpchainsWF2 Proofs.DenRev_C05.
Import ListNotations.
Open Scope Z_scope.

Section WF3.
  Variable R : cring.
  Notation graph := (graph R).
  Notation gedge := (gedge R).

  Lemma sorted_scale (c : R) (l : list (Z * R)) :
    sorted_opics (map (fun p => (fst p, kmul R c (snd p))) l) = sorted_opics l.
  Proof.
    induction l as [|p [|q l] IH]; [reflexivity|reflexivity|].
    change (sorted_opics (map (fun p0 => (fst p0, kmul R c (snd p0))) (p :: q :: l)))
      with ((fst p <? fst q) && sorted_opics (map (fun p0 => (fst p0, kmul R c (snd p0))) (q :: l))).
    rewrite IH. reflexivity.
  Qed.

  Lemma GS_scale (g : graph) nb eb x c : GS R g nb eb ->
    GS R (upd_edge g x (fun e => mkedge (e_id e) (e_from e) (e_to e) (map (fun p => (fst p, kmul R c (snd p))) (e_opics e)))) nb eb.
  Proof.
    set (sc := fun e : gedge => mkedge (e_id e) (e_from e) (e_to e) (map (fun p => (fst p, kmul R c (snd p))) (e_opics e))).
    set (SC := fun e : gedge => if e_id e =? x then sc e else e).
    assert (S1 : forall e, e_id (SC e) = e_id e /\ e_from (SC e) = e_from e /\ e_to (SC e) = e_to e /\ sorted_opics (e_opics (SC e)) = sorted_opics (e_opics e)).
    { intros e. unfold SC. destruct (e_id e =? x); [|auto]. unfold sc. cbn. rewrite sorted_scale. auto. }
    intros [A B C D E F G H I J K].
    assert (Eed : g_edges (upd_edge g x sc) = map SC (g_edges g)) by reflexivity.
    assert (M1 : forall e', In e' (map SC (g_edges g)) -> exists e, In e (g_edges g) /\ e' = SC e).
    { intros e' He. apply in_map_iff in He. destruct He as [e [E1 E2]]. exists e. auto. }
    constructor; rewrite ?Eed; change (g_nodes (upd_edge g x sc)) with (g_nodes g); auto.
    - rewrite map_map. erewrite map_ext; [exact B|]. intros e. apply S1.
    - intros e' He. destruct (M1 e' He) as [e [He' ->]]. destruct (S1 e) as [-> _]. apply D. exact He'.
    - intros n y Hn Hy. destruct (F n y Hn Hy) as [e [He [E1 E2]]]. exists (SC e). split; [apply in_map; exact He|]. destruct (S1 e) as [-> [_ [-> _]]]. auto.
    - intros n y Hn Hy. destruct (G n y Hn Hy) as [e [He [E1 E2]]]. exists (SC e). split; [apply in_map; exact He|]. destruct (S1 e) as [-> [-> _]]. auto.
    - intros e' He. destruct (M1 e' He) as [e [He' ->]]. destruct (S1 e) as [-> [_ [-> _]]]. apply H. exact He'.
    - intros e' He. destruct (M1 e' He) as [e [He' ->]]. destruct (S1 e) as [-> [-> _]]. apply I. exact He'.
    - intros e' He. destruct (M1 e' He) as [e [He' ->]]. destruct (S1 e) as [_ [_ [_ ->]]]. apply J. exact He'.
    - intros e' He. destruct (M1 e' He) as [e [He' ->]]. destruct (S1 e) as [_ [-> [-> _]]]. apply K. exact He'.
  Qed.

  Lemma NoDup_map_filter {A B} (f : A -> B) (p : A -> bool) l : NoDup (map f l) -> NoDup (map f (filter p l)).
  Proof.
    induction l as [|a l IH]; simpl; intros H; [constructor|]. inversion H; subst.
    destruct (p a); simpl; [constructor; [|apply IH; assumption]|apply IH; assumption].
    intros Hin. apply in_map_iff in Hin. destruct Hin as [y [E Hy]]. apply filter_In in Hy. apply H2. rewrite <- E. apply in_map. tauto.
  Qed.

  Lemma GS_remove_dummy (g : graph) nb eb t1 : GS R g nb eb ->
    GS R (remove_node (mkgraph (g_nodes g) (g_edges g) (g_t0 g) t1) (-1)) nb eb.
  Proof.
    intros [A B C D E F G H I J K]. unfold remove_node. cbn [g_nodes g_edges g_t0 g_t1].
    constructor; cbn [g_nodes g_edges]; auto.
    - apply NoDup_map_filter. exact A.
    - intros n Hn. apply filter_In in Hn. apply C. tauto.
    - intros n Hn. apply filter_In in Hn. apply E. tauto.
    - intros n y Hn. apply filter_In in Hn. apply F. tauto.
    - intros n y Hn. apply filter_In in Hn. apply G. tauto.
    - intros e He. destruct (H e He) as [n [Hn [E1 E2]]]. exists n. split; [|auto]. apply filter_In. split; [exact Hn|].
      specialize (K e He). apply negb_true_iff, Z.eqb_neq. lia.
    - intros e He. destruct (I e He) as [n [Hn [E1 E2]]]. exists n. split; [|auto]. apply filter_In. split; [exact Hn|].
      specialize (K e He). apply negb_true_iff, Z.eqb_neq. lia.
  Qed.

  Lemma ids_remove_dummy (g : graph) t1 m : In m (ids R g) -> m <> -1 ->
    In m (ids R (remove_node (mkgraph (g_nodes g) (g_edges g) (g_t0 g) t1) (-1))).
  Proof.
    unfold ids, remove_node. cbn [g_nodes]. intros H Hm. apply in_map_iff in H. destruct H as [n [E Hn]].
    apply in_map_iff. exists n. split; [exact E|]. apply filter_In. split; [exact Hn|]. apply negb_true_iff, Z.eqb_neq. congruence.
  Qed.

  Theorem from_opchains_linked cover (chains : list (chain R)) L idn g : (1 <= L)%nat ->
    from_opchains cover chains L idn = Ok g -> linked g = true.
  Proof.
    intros HL H. unfold from_opchains in H.
    destruct (negb (forallb (@chain_ok R) chains)); [discriminate|].
    destruct chains as [|c0 ct] eqn:Ech; [discriminate|]. rewrite <- Ech in *. clear Ech c0 ct.
    destruct (pad_all L idn (filter (@nonzero R) chains)) as [cs|] eqn:Ep; [|discriminate]. cbn [bind] in H.
    destruct (sweep cover L (mkst init_graph 1 0 (init_next idn cs) [])) as [s|] eqn:Es; [|discriminate]. cbn [bind] in H.
    destruct (pad_all_spec R L idn [] _ _ Ep) as [Hcs _].
    pose proof (SW_sweep R L idn cs Hcs cover L _ _ O (SW_init R L idn cs Hcs) ltac:(lia) Es) as [_ [_ [_ [Ht0 _]]]].
    pose proof (sweep_HSW R cover L _ _ (HSW_init R idn cs) Es) as [Hg [Hn [H0 [Hd Hnx]]]].
    unfold finish in H. destruct (s_next s) as [|[h c] [|? ?]] eqn:En; try discriminate.
    inversion Hnx as [|? ? [[Hh1 Hh2] Hh3] _]; subst. cbn [fst] in *.
    assert (Fin : forall g' : graph, GS R g' (s_nid s) (s_eid s) -> g_nodes g' = g_nodes (s_g s) -> g_t0 g' = 0 ->
                    linked (remove_node (mkgraph (g_nodes g') (g_edges g') (g_t0 g') (h_nidl h)) (-1)) = true).
    { intros g' Hg' En' Et'. apply (GS_linked R _ (s_nid s) (s_eid s)).
      - apply GS_remove_dummy. exact Hg'.
      - change (g_t0 (remove_node (mkgraph (g_nodes g') (g_edges g') (g_t0 g') (h_nidl h)) (-1))) with (g_t0 g'). rewrite Et'.
        apply (ids_remove_dummy g' (h_nidl h) 0); [unfold ids; rewrite En'; exact H0|lia].
      - change (g_t1 (remove_node (mkgraph (g_nodes g') (g_edges g') (g_t0 g') (h_nidl h)) (-1))) with (h_nidl h).
        apply (ids_remove_dummy g' (h_nidl h) (h_nidl h)); [unfold ids; rewrite En'; exact Hh3|lia]. }
    destruct (keqb R c (k1 R)); cbn [bind] in H.
    - inversion H; subst g. apply Fin; auto.
    - unfold absorb in H. destruct (find_node (s_g s) (h_nidl h)) as [n|]; [|discriminate].
      destruct (n_in n) as [|eid [|? ?]]; try discriminate. destruct (find_edge (s_g s) eid); [|discriminate].
      cbn [bind] in H. inversion H; subst g.
      apply (Fin (upd_edge (s_g s) eid (fun e : gedge => mkedge (e_id e) (e_from e) (e_to e) (map (fun p => (fst p, kmul R c (snd p))) (e_opics e)))));
        [apply GS_scale; exact Hg|reflexivity|exact Ht0].
  Qed.

  (* hence the forward meaning, without side conditions *)
  Theorem from_opchains_den_full cover (chains : list (chain R)) L idn g : (1 <= L)%nat ->
    from_opchains cover chains L idn = Ok g -> linked g = true /\ forall w, den g w = chains_den L idn chains w.
  Proof.
    intros HL H. pose proof (from_opchains_linked cover chains L idn g HL H) as Hl. split; [exact Hl|].
    intros w. apply (from_opchains_den R cover chains L idn g HL H Hl).
  Qed.
End WF3.
