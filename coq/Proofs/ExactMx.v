(* C09 exactness — small matrix facts (general, over any cring): algebra with zero matrices, and the matrix forms of the
   two completeness relations:  Q[s] Q[s']^H = delta(s,s') 1  (lcoiso)  and  B[s']^H B[s] = delta(s,s') 1  (rcoiso). *)
From Coq Require Import Arith List Lia Ring Setoid Bool.
From PT Require Import Base.Scalar Base.BigSum Base.Mx Model.Tensor Model.Operation Model.Sweeps
  Proofs.OperationEntries Proofs.SweepsCanon Proofs.ReverseDefs Proofs.ReverseMx Proofs.ReverseGauge Proofs.ExactDefs.
Import ListNotations.

Section MxZero.
  Variable R : cring.
  Add Ring Rring_exact_mx : (k_rt R).
  Notation mx := (mx R).
  Notation site := (site R).
  Infix "*" := (kmul R).
  Notation cj := (kconj R).

  Lemma mulmx_zero_l m n (B : mx) : nr B = n -> mulmx (zeromx m n) B = zeromx m (nc B).
  Proof.
    intros HB. apply mx_ext; [apply wf_mulmx|apply wf_zeromx|reflexivity|reflexivity|]. rewrite nr_mulmx, nc_mulmx, nr_zeromx.
    intros i j Hi Hj. rewrite get_mulmx by (rewrite ?nr_zeromx; assumption). rewrite get_zeromx. apply sumn_zero. intros k _.
    rewrite get_zeromx. ring.
  Qed.
  Lemma mulmx_zero_r (A : mx) m n : nc A = m -> mulmx A (zeromx m n) = zeromx (nr A) n.
  Proof.
    intros HA. apply mx_ext; [apply wf_mulmx|apply wf_zeromx|reflexivity|reflexivity|]. rewrite nr_mulmx, nc_mulmx, nc_zeromx.
    intros i j Hi Hj. rewrite get_mulmx by (rewrite ?nc_zeromx; assumption). rewrite get_zeromx. apply sumn_zero. intros k _.
    rewrite get_zeromx. ring.
  Qed.
  Lemma scalemx_zero c m n : scalemx c (@zeromx R m n) = zeromx m n.
  Proof.
    apply mx_ext; [apply wf_scalemx|apply wf_zeromx|reflexivity|reflexivity|]. rewrite nr_scalemx, nc_scalemx, nr_zeromx, nc_zeromx.
    intros i j Hi Hj. rewrite get_scalemx by (rewrite ?nr_zeromx, ?nc_zeromx; assumption). rewrite !get_zeromx. ring.
  Qed.
  Lemma addmx_zero_r (A : mx) : wf A -> addmx A (zeromx (nr A) (nc A)) = A.
  Proof.
    intros HA. apply mx_ext; [apply wf_addmx|exact HA|reflexivity|reflexivity|]. rewrite nr_addmx, nc_addmx.
    intros i j Hi Hj. rewrite get_addmx by assumption. rewrite get_zeromx. ring.
  Qed.
  Lemma wmx_mulmx m n (A B : mx) : nr A = m -> nc B = n -> wmx m n (mulmx A B).
  Proof. intros H1 H2. split; [apply wf_mulmx|]. rewrite nr_mulmx, nc_mulmx. auto. Qed.

  (* ---------------- completeness relations as matrix equations ---------------- *)
  Lemma lcoiso_mx d Dl Dr (Q : site) s s' : 0 < d -> wsite d Dl Dr Q -> lcoiso Q -> s < d -> s' < d ->
    mulmx (sel Q s) (adjmx (sel Q s')) = if Nat.eqb s s' then idmx Dl else zeromx Dl Dl.
  Proof.
    intros Hd HQ Hco Hs Hs'. destruct (site_ok_sdl R _ _ _ _ Hd (wsite_ok R _ _ _ _ HQ)) as (E1 & E2 & E3).
    destruct (wsite_sel R _ _ _ _ s HQ Hs) as (a0 & a1 & a2). destruct (wsite_sel R _ _ _ _ s' HQ Hs') as (b0 & b1 & b2).
    apply mx_ext; [apply wf_mulmx|destruct (Nat.eqb s s'); [apply wf_idmx|apply wf_zeromx]| | |].
    - rewrite nr_mulmx, a1. destruct (Nat.eqb s s'); reflexivity.
    - rewrite nc_mulmx, nc_adjmx, b1. destruct (Nat.eqb s s'); reflexivity.
    - rewrite nr_mulmx, nc_mulmx, nc_adjmx, a1, b1. intros a a' Ha Ha'.
      rewrite get_mulmx by (rewrite ?nc_adjmx; lia). rewrite a2.
      transitivity (sumn Dr (fun c => get (sel Q s) a c * cj (get (sel Q s') a' c))).
      { apply sumn_ext; intros c Hc. rewrite get_adjmx by lia. reflexivity. }
      rewrite <- E2. rewrite Hco by (rewrite ?E1, ?E3; assumption).
      destruct (Nat.eqb s s'); cbn [andb]; [rewrite get_idmx by assumption; reflexivity|rewrite get_zeromx; reflexivity].
  Qed.
  Lemma rcoiso_mx d Dl Dr (B : site) s s' : 0 < d -> wsite d Dl Dr B -> rcoiso B -> s < d -> s' < d ->
    mulmx (adjmx (sel B s')) (sel B s) = if Nat.eqb s s' then idmx Dr else zeromx Dr Dr.
  Proof.
    intros Hd HB Hco Hs Hs'. destruct (site_ok_sdl R _ _ _ _ Hd (wsite_ok R _ _ _ _ HB)) as (E1 & E2 & E3).
    destruct (wsite_sel R _ _ _ _ s HB Hs) as (a0 & a1 & a2). destruct (wsite_sel R _ _ _ _ s' HB Hs') as (b0 & b1 & b2).
    apply mx_ext; [apply wf_mulmx|destruct (Nat.eqb s s'); [apply wf_idmx|apply wf_zeromx]| | |].
    - rewrite nr_mulmx, nr_adjmx, b2. destruct (Nat.eqb s s'); reflexivity.
    - rewrite nc_mulmx, a2. destruct (Nat.eqb s s'); reflexivity.
    - rewrite nr_mulmx, nc_mulmx, nr_adjmx, a2, b2. intros c' c Hc' Hc.
      rewrite get_mulmx by (rewrite ?nr_adjmx; lia). rewrite nc_adjmx, b1.
      transitivity (sumn Dl (fun a => get (sel B s) a c * cj (get (sel B s') a c'))).
      { apply sumn_ext; intros a Ha. rewrite get_adjmx by lia. ring. }
      rewrite <- E1. rewrite Hco by (rewrite ?E2, ?E3; assumption).
      rewrite (Nat.eqb_sym c c').
      destruct (Nat.eqb s s'); cbn [andb]; [rewrite get_idmx by assumption; reflexivity|rewrite get_zeromx; reflexivity].
  Qed.
End MxZero.
