(* C09 exactness, contract (A) reduced to naturality of the solver -- part 1: products of frame tensors.
   For a chain As of site tensors with shapes  d x Ds (k+j) x Ds (k+j+1)  and a word u, P(u) = As[0][u_0] ... As[n-1][u_{n-1}]
   (a  Ds k x Ds (k+n)  matrix).  Over any cring:
     lco_prod   all tensors lcoiso  (Q Q^H = 1 on the (s,a) x c matricisation)  =>  P(u) P(u')^H = delta(u,u') 1
     rco_prod   all tensors rcoiso                                              =>  P(v')^H P(v) = delta(v,v') 1
     lgram_iso  all tensors left_iso   =>  sum_u sum_b P(u)[b,a] conj(P(u)[b,a']) = delta(a,a')
     (the right-isometric analogue is Proofs/SweepsCanon.v, gram_right_iso)
   and the splitting of an amplitude at a site:  <u s v | Al ++ Z :: Ar> = P_l(u) Z[s] P_r(v). *)
From Coq Require Import ZArith Arith List Lia Ring Setoid Bool.
From PT Require Import Base.Scalar Base.BigSum Base.Mx Model.Tensor Model.Operation Model.Sweeps
  Proofs.OperationSums Proofs.OperationEntries Proofs.OperationChains Proofs.SweepsCanon
  Proofs.ReverseDefs Proofs.ReverseMx Proofs.ReverseTop Proofs.ExactDefs Proofs.ExactMx.
Import ListNotations.
Open Scope nat_scope.

(* ---------------- words: equality test, splitting, no duplicates ---------------- *)
Definition weqb (u w : list nat) : bool := list_eqb Nat.eqb u w.

Lemma weqb_spec u w : weqb u w = true <-> u = w.
Proof.
  unfold weqb. revert w. induction u as [|s u IH]; intros [|t w]; cbn [list_eqb]; try (split; [discriminate|discriminate]); [tauto|].
  rewrite andb_true_iff, Nat.eqb_eq, IH. split; [intros [-> ->]; reflexivity|intros E; injection E; auto].
Qed.
Lemma weqb_refl u : weqb u u = true. Proof. apply weqb_spec. reflexivity. Qed.
Lemma weqb_cons s u t w : weqb (s :: u) (t :: w) = Nat.eqb s t && weqb u w. Proof. reflexivity. Qed.

Definition wordk (d n : nat) (w : list nat) : Prop := length w = n /\ Forall (fun s => s < d) w.

Lemma wordk_nil d : wordk d 0 []. Proof. split; [reflexivity|constructor]. Qed.
Lemma wordk_cons d n s w : s < d -> wordk d n w -> wordk d (S n) (s :: w).
Proof. intros Hs [E F]. split; [cbn [length]; lia|constructor; assumption]. Qed.
Lemma wordk_cons_inv d n s w : wordk d (S n) (s :: w) -> s < d /\ wordk d n w.
Proof. intros [E F]. inversion F; subst. cbn [length] in E. split; [assumption|split; [lia|assumption]]. Qed.
Lemma wordk_0_inv d w : wordk d 0 w -> w = [].
Proof. intros [E _]. destruct w; [reflexivity|discriminate]. Qed.
Lemma wordk_S_inv d n w : wordk d (S n) w -> exists s w', w = s :: w' /\ s < d /\ wordk d n w'.
Proof. intros H. destruct w as [|s w']; [destruct H; discriminate|]. exists s, w'. split; [reflexivity|]. apply wordk_cons_inv. exact H. Qed.
Lemma wordk_app d i j u v : wordk d i u -> wordk d j v -> wordk d (i + j) (u ++ v).
Proof. intros [E1 F1] [E2 F2]. split; [rewrite app_length; lia|apply Forall_app; split; assumption]. Qed.
Lemma wordk_split d i j w : wordk d (i + S j) w ->
  exists u s v, w = u ++ s :: v /\ wordk d i u /\ s < d /\ wordk d j v.
Proof.
  intros [E F]. exists (firstn i w), (nth i w 0), (skipn (S i) w).
  assert (Hw : w = firstn i w ++ nth i w 0 :: skipn (S i) w).
  { rewrite <- (firstn_skipn i w) at 1. f_equal.
    assert (Hl : i < length w) by lia. clear E F. revert i Hl. induction w as [|x w IH]; intros i Hl; [cbn [length] in Hl; lia|].
    destruct i as [|i]; [reflexivity|]. cbn [skipn nth]. apply IH. cbn [length] in Hl. lia. }
  split; [exact Hw|]. rewrite Forall_forall in F.
  split; [|split].
  - split; [rewrite firstn_length; lia|]. apply Forall_forall. intros x Hx. apply F. rewrite <- (firstn_skipn i w). apply in_or_app. left. exact Hx.
  - apply F. apply nth_In. lia.
  - split; [rewrite skipn_length; lia|]. apply Forall_forall. intros x Hx. apply F. rewrite <- (firstn_skipn (S i) w). apply in_or_app. right. exact Hx.
Qed.

Lemma words_wordk d n w : In w (words d n) -> wordk d n w.
Proof.
  revert w. induction n as [|n IH]; intros w Hw; cbn [words] in Hw.
  - destruct Hw as [<-|[]]. apply wordk_nil.
  - apply in_flat_map in Hw. destruct Hw as (s & Hs & Hw). apply in_seq in Hs. apply in_map_iff in Hw.
    destruct Hw as (w' & <- & Hw'). apply wordk_cons; [lia|]. apply IH. exact Hw'.
Qed.
Lemma wordk_words d n w : wordk d n w -> In w (words d n).
Proof.
  revert w. induction n as [|n IH]; intros w Hw.
  - apply wordk_0_inv in Hw. subst. left. reflexivity.
  - apply wordk_S_inv in Hw. destruct Hw as (s & w' & -> & Hs & Hw'). cbn [words]. apply in_flat_map. exists s.
    split; [apply in_seq; lia|]. apply in_map. apply IH. exact Hw'.
Qed.

Lemma NoDup_app_disj {T} (l1 l2 : list T) : NoDup l1 -> NoDup l2 -> (forall x, In x l1 -> In x l2 -> False) -> NoDup (l1 ++ l2).
Proof.
  induction l1 as [|x l1 IH]; intros H1 H2 Hd; [exact H2|]. cbn [app]. inversion H1; subst. constructor.
  - intros Hin. apply in_app_or in Hin. destruct Hin as [Hin|Hin]; [contradiction|]. apply (Hd x); [left; reflexivity|exact Hin].
  - apply IH; [assumption|assumption|]. intros y Hy1 Hy2. apply (Hd y); [right; exact Hy1|exact Hy2].
Qed.
Lemma NoDup_words d n : NoDup (words d n).
Proof.
  induction n as [|n IH]; cbn [words]; [constructor; [intros []|constructor]|].
  assert (G : forall l, NoDup l -> NoDup (flat_map (fun s => map (cons s) (words d n)) l)).
  { induction l as [|s l IHl]; intros Hl; [constructor|]. cbn [flat_map]. inversion Hl; subst. apply NoDup_app_disj.
    - apply FinFun.Injective_map_NoDup; [|exact IH]. intros a b E. injection E. auto.
    - apply IHl. assumption.
    - intros x Hx1 Hx2. apply in_map_iff in Hx1. destruct Hx1 as (w & <- & _). apply in_flat_map in Hx2.
      destruct Hx2 as (s' & Hs' & Hx2). apply in_map_iff in Hx2. destruct Hx2 as (w' & E & _). injection E as E1 E2. subst s'. contradiction. }
  apply G. apply seq_NoDup.
Qed.
Lemma words_nth_inj d n k k' : k < length (words d n) -> k' < length (words d n) ->
  nth k (words d n) [] = nth k' (words d n) [] -> k = k'.
Proof. intros Hk Hk' E. apply (proj1 (NoDup_nth (words d n) []) (NoDup_words d n) k k' Hk Hk' E). Qed.

Section Frames.
  Variable R : cring.
  Add Ring Rring_exact_frames : (k_rt R).
  Notation "0" := (k0 R). Notation "1" := (k1 R).
  Infix "+" := (kadd R). Infix "*" := (kmul R).
  Notation site := (site R).
  Notation mx := (mx R).
  Notation cj := (kconj R).
  Notation dlt a b := (if Nat.eqb a b then 1 else 0).
  Variable d : nat.
  Variable Ds : nat -> nat.
  Hypothesis Hd : (0 < d)%nat.

  (* ---------------- sums over words ---------------- *)
  Lemma suml_words_S n (f : list nat -> R) :
    suml (words d (S n)) f = sumn d (fun s => suml (words d n) (fun w => f (s :: w))).
  Proof.
    cbn [words]. rewrite c04_suml_flat_map. rewrite <- suml_seq. apply suml_ext; intros s _. apply suml_map.
  Qed.
  Lemma suml_words_app i j (f : list nat -> R) :
    suml (words d (i + j)) f = suml (words d i) (fun u => suml (words d j) (fun v => f (u ++ v))).
  Proof.
    revert f. induction i as [|i IH]; intros f.
    - cbn [Nat.add words]. rewrite suml_one. reflexivity.
    - change (S i + j)%nat with (S (i + j)). rewrite !suml_words_S. apply sumn_ext; intros s _. rewrite IH. reflexivity.
  Qed.
  (* the delta function of a word picks its term *)
  Lemma suml_words_delta n w (g : list nat -> R) : wordk d n w ->
    suml (words d n) (fun w1 => (if weqb w1 w then 1 else 0) * g w1) = g w.
  Proof.
    revert w g. induction n as [|n IH]; intros w g Hw.
    - apply wordk_0_inv in Hw. subst. cbn [words]. rewrite suml_one. cbn. ring.
    - apply wordk_S_inv in Hw. destruct Hw as (s & w' & -> & Hs & Hw'). rewrite suml_words_S.
      rewrite (sumn_single R d s) by (try exact Hs; intros s1 Hs1 N; apply suml_zero; intros w1 _; rewrite weqb_cons;
                                       replace (Nat.eqb s1 s) with false by (symmetry; apply Nat.eqb_neq; lia); cbn [andb]; ring).
      transitivity (suml (words d n) (fun w1 => (if weqb w1 w' then 1 else 0) * g (s :: w1))).
      { apply suml_ext; intros w1 _. rewrite weqb_cons, Nat.eqb_refl. reflexivity. }
      apply (IH w' (fun w1 => g (s :: w1)) Hw').
  Qed.

  (* ---------------- frames and their products ---------------- *)
  Definition fr_ok (k : nat) (As : list site) : Prop :=
    forall j, (j < length As)%nat -> wsite d (Ds (k + j)) (Ds (S (k + j))) (nth j As []).
  Definition prodm (k : nat) (As : list site) (u : list nat) : mx := mprod (Ds k) (pick As u).

  Lemma fr_ok_tail k A (As : list site) : fr_ok k (A :: As) -> wsite d (Ds k) (Ds (S k)) A /\ fr_ok (S k) As.
  Proof.
    intros H. split.
    - specialize (H 0%nat ltac:(cbn [length]; lia)). cbn [nth] in H. rewrite Nat.add_0_r in H. exact H.
    - intros j Hj. specialize (H (S j) ltac:(cbn [length]; lia)). cbn [nth] in H. rewrite Nat.add_succ_r in H. exact H.
  Qed.
  Lemma fr_ok_cons k A (As : list site) : wsite d (Ds k) (Ds (S k)) A -> fr_ok (S k) As -> fr_ok k (A :: As).
  Proof.
    intros HA H j Hj. destruct j as [|j]; cbn [nth]; [rewrite Nat.add_0_r; exact HA|]. rewrite Nat.add_succ_r. apply H. cbn [length] in Hj. lia.
  Qed.
  Lemma all_tail (P : site -> Prop) A (As : list site) :
    (forall j, (j < length (A :: As))%nat -> P (nth j (A :: As) [])) -> P A /\ forall j, (j < length As)%nat -> P (nth j As []).
  Proof.
    intros H. split; [exact (H 0%nat ltac:(cbn [length]; lia))|]. intros j Hj. exact (H (S j) ltac:(cbn [length]; lia)).
  Qed.

  Lemma prodm_cons k A (As : list site) s u : wsite d (Ds k) (Ds (S k)) A -> (s < d)%nat ->
    prodm k (A :: As) (s :: u) = mulmx (sel A s) (prodm (S k) As u).
  Proof.
    intros HA Hs. unfold prodm. cbn [pick mprod]. destruct (wsite_sel R _ _ _ _ s HA Hs) as (_ & _ & h). rewrite h. reflexivity.
  Qed.
  Lemma prodm_shape (As : list site) : forall k u, fr_ok k As -> wordk d (length As) u ->
    wmx (Ds k) (Ds (k + length As)) (prodm k As u).
  Proof.
    induction As as [|A As IH]; intros k u HA Hu.
    - apply wordk_0_inv in Hu. subst. unfold prodm. cbn [pick mprod length]. rewrite Nat.add_0_r.
      split; [apply wf_idmx|split; reflexivity].
    - cbn [length] in Hu. apply wordk_S_inv in Hu. destruct Hu as (s & u' & -> & Hs & Hu').
      destruct (fr_ok_tail _ _ _ HA) as [HA0 HAs]. rewrite (prodm_cons k A As s u' HA0 Hs).
      destruct (IH (S k) u' HAs Hu') as (p0 & p1 & p2). destruct (wsite_sel R _ _ _ _ s HA0 Hs) as (a0 & a1 & a2).
      split; [apply wf_mulmx|]. rewrite nr_mulmx, nc_mulmx. split; [exact a1|]. rewrite p2. f_equal. cbn [length]. lia.
  Qed.

  (* ---------------- co-isometric frames: the products are orthonormal families ---------------- *)
  Lemma lco_prod (As : list site) : forall k u u', fr_ok k As -> (forall j, (j < length As)%nat -> lcoiso (nth j As [])) ->
    wordk d (length As) u -> wordk d (length As) u' ->
    mulmx (prodm k As u) (adjmx (prodm k As u')) = if weqb u u' then idmx (Ds k) else zeromx (Ds k) (Ds k).
  Proof.
    induction As as [|A As IH]; intros k u u' HA Hco Hu Hu'.
    - apply wordk_0_inv in Hu. apply wordk_0_inv in Hu'. subst. unfold prodm. cbn [pick mprod weqb list_eqb].
      rewrite adjmx_idmx. apply (mulmx_1_l R (idmx (Ds k))). apply wf_idmx.
    - cbn [length] in Hu, Hu'. apply wordk_S_inv in Hu. destruct Hu as (s & v & -> & Hs & Hv).
      apply wordk_S_inv in Hu'. destruct Hu' as (s' & v' & -> & Hs' & Hv').
      destruct (fr_ok_tail _ _ _ HA) as [HA0 HAs]. destruct (all_tail lcoiso _ _ Hco) as [Hco0 Hcos].
      rewrite !prodm_cons by assumption.
      destruct (prodm_shape As (S k) v HAs Hv) as (p0 & p1 & p2). destruct (prodm_shape As (S k) v' HAs Hv') as (q0 & q1 & q2).
      destruct (wsite_sel R _ _ _ _ s HA0 Hs) as (a0 & a1 & a2). destruct (wsite_sel R _ _ _ _ s' HA0 Hs') as (b0 & b1 & b2).
      rewrite adjmx_mulmx by congruence.
      rewrite (mulmx_assoc R (sel A s)) by (rewrite ?nr_mulmx, ?nr_adjmx, ?nc_adjmx; congruence).
      rewrite <- (mulmx_assoc R (prodm (S k) As v)) by (rewrite ?nr_adjmx, ?nc_adjmx; congruence).
      rewrite (IH (S k) v v' HAs Hcos Hv Hv'). rewrite weqb_cons.
      destruct (weqb v v').
      + rewrite <- b2 at 1. rewrite <- (nr_adjmx R (sel A s')). rewrite mulmx_1_l by apply wf_adjmx.
        rewrite (lcoiso_mx R d (Ds k) (Ds (S k)) A s s' Hd HA0 Hco0 Hs Hs'). rewrite andb_true_r. reflexivity.
      + rewrite andb_false_r. rewrite (mulmx_zero_l R (Ds (S k)) (Ds (S k))) by (rewrite nr_adjmx; exact b2).
        rewrite nc_adjmx, b1. rewrite (mulmx_zero_r R (sel A s) (Ds (S k)) (Ds k)) by exact a2. rewrite a1. reflexivity.
  Qed.

  Lemma rco_prod (As : list site) : forall k v v', fr_ok k As -> (forall j, (j < length As)%nat -> rcoiso (nth j As [])) ->
    wordk d (length As) v -> wordk d (length As) v' ->
    mulmx (adjmx (prodm k As v')) (prodm k As v) =
    if weqb v v' then idmx (Ds (k + length As)) else zeromx (Ds (k + length As)) (Ds (k + length As)).
  Proof.
    induction As as [|A As IH]; intros k u u' HA Hco Hu Hu'.
    - apply wordk_0_inv in Hu. apply wordk_0_inv in Hu'. subst. unfold prodm. cbn [pick mprod weqb list_eqb length].
      rewrite Nat.add_0_r, adjmx_idmx. apply (mulmx_1_l R (idmx (Ds k))). apply wf_idmx.
    - cbn [length] in Hu, Hu'. apply wordk_S_inv in Hu. destruct Hu as (s & v & -> & Hs & Hv).
      apply wordk_S_inv in Hu'. destruct Hu' as (s' & v' & -> & Hs' & Hv').
      destruct (fr_ok_tail _ _ _ HA) as [HA0 HAs]. destruct (all_tail rcoiso _ _ Hco) as [Hco0 Hcos].
      rewrite !prodm_cons by assumption.
      destruct (prodm_shape As (S k) v HAs Hv) as (p0 & p1 & p2). destruct (prodm_shape As (S k) v' HAs Hv') as (q0 & q1 & q2).
      destruct (wsite_sel R _ _ _ _ s HA0 Hs) as (a0 & a1 & a2). destruct (wsite_sel R _ _ _ _ s' HA0 Hs') as (b0 & b1 & b2).
      rewrite adjmx_mulmx by congruence.
      rewrite (mulmx_assoc R (adjmx (prodm (S k) As v'))) by (rewrite ?nr_mulmx, ?nr_adjmx, ?nc_adjmx; congruence).
      rewrite <- (mulmx_assoc R (adjmx (sel A s'))) by (rewrite ?nr_adjmx, ?nc_adjmx; congruence).
      rewrite (rcoiso_mx R d (Ds k) (Ds (S k)) A s s' Hd HA0 Hco0 Hs Hs'). rewrite weqb_cons.
      replace (k + length (A :: As))%nat with (S k + length As)%nat by (cbn [length]; lia).
      destruct (Nat.eqb s s'); cbn [andb].
      + rewrite <- p1 at 1. rewrite mulmx_1_l by exact p0. apply (IH (S k) v v' HAs Hcos Hv Hv').
      + rewrite (mulmx_zero_l R (Ds (S k)) (Ds (S k))) by exact p1.
        rewrite (mulmx_zero_r R (adjmx (prodm (S k) As v')) (Ds (S k))) by (rewrite nc_adjmx; exact q1).
        rewrite nr_adjmx, q2, p2. reflexivity.
  Qed.

  (* ---------------- isometric frames: completeness of the family of products ---------------- *)
  Lemma get_prodm_cons k A (As : list site) s u b a : wsite d (Ds k) (Ds (S k)) A -> fr_ok (S k) As -> (s < d)%nat ->
    wordk d (length As) u -> (b < Ds k)%nat -> (a < Ds (S k + length As))%nat ->
    get (prodm k (A :: As) (s :: u)) b a = sumn (Ds (S k)) (fun e => get (sel A s) b e * get (prodm (S k) As u) e a).
  Proof.
    intros HA HAs Hs Hu Hb Ha. rewrite prodm_cons by assumption.
    destruct (prodm_shape As (S k) u HAs Hu) as (p0 & p1 & p2). destruct (wsite_sel R _ _ _ _ s HA Hs) as (a0 & a1 & a2).
    rewrite get_mulmx by lia. rewrite a2. reflexivity.
  Qed.

  Lemma lgram_iso (As : list site) : forall k a a', fr_ok k As -> (forall j, (j < length As)%nat -> left_iso (nth j As [])) ->
    (a < Ds (k + length As))%nat -> (a' < Ds (k + length As))%nat ->
    suml (words d (length As)) (fun u => sumn (Ds k) (fun b => get (prodm k As u) b a * cj (get (prodm k As u) b a'))) = dlt a a'.
  Proof.
    induction As as [|A As IH]; intros k a a' HA Hiso Ha Ha'.
    - cbn [length] in *. rewrite Nat.add_0_r in Ha, Ha'. cbn [words]. rewrite suml_one. unfold prodm. cbn [pick mprod].
      rewrite (sumn_single R (Ds k) a) by (try exact Ha; intros b Hb N; rewrite get_idmx by lia;
                                          replace (Nat.eqb b a) with false by (symmetry; apply Nat.eqb_neq; lia); ring).
      rewrite !get_idmx by lia. rewrite Nat.eqb_refl. destruct (Nat.eqb a a'); [rewrite kconj_1|rewrite kconj_0]; ring.
    - destruct (fr_ok_tail _ _ _ HA) as [HA0 HAs]. destruct (all_tail left_iso _ _ Hiso) as [Hiso0 Hisos].
      replace (k + length (A :: As))%nat with (S k + length As)%nat in Ha, Ha' by (cbn [length]; lia).
      destruct (site_ok_sdl R _ _ _ _ Hd (wsite_ok R _ _ _ _ HA0)) as (E1 & E2 & E3).
      cbn [length]. rewrite suml_words_S.
      (* expand the first factor of the product and move the sums over s, b inside *)
      transitivity (suml (words d (length As)) (fun u => sumn (Ds (S k)) (fun e => sumn (Ds (S k)) (fun e' =>
                      (get (prodm (S k) As u) e a * cj (get (prodm (S k) As u) e' a')) *
                      sumn d (fun s => sumn (Ds k) (fun b => get (sel A s) b e * cj (get (sel A s) b e'))))))).
      { rewrite <- suml_seq. rewrite suml_exch. apply suml_ext; intros u Hu. apply words_wordk in Hu. rewrite suml_seq.
        transitivity (sumn d (fun s => sumn (Ds k) (fun b => sumn (Ds (S k)) (fun e => sumn (Ds (S k)) (fun e' =>
                        (get (sel A s) b e * get (prodm (S k) As u) e a) * cj (get (sel A s) b e' * get (prodm (S k) As u) e' a')))))).
        { apply sumn_ext; intros s Hs. apply sumn_ext; intros b Hb.
          rewrite !(get_prodm_cons k A As s u b) by assumption. apply sumn_mul_conj. }
        transitivity (sumn (Ds (S k)) (fun e => sumn d (fun s => sumn (Ds k) (fun b => sumn (Ds (S k)) (fun e' =>
                        (get (sel A s) b e * get (prodm (S k) As u) e a) * cj (get (sel A s) b e' * get (prodm (S k) As u) e' a')))))).
        { apply (sumn_exch3 R d (Ds k) (Ds (S k)) (fun s b e => sumn (Ds (S k)) (fun e' =>
                        (get (sel A s) b e * get (prodm (S k) As u) e a) * cj (get (sel A s) b e' * get (prodm (S k) As u) e' a')))). }
        apply sumn_ext; intros e He.
        transitivity (sumn (Ds (S k)) (fun e' => sumn d (fun s => sumn (Ds k) (fun b =>
                        (get (sel A s) b e * get (prodm (S k) As u) e a) * cj (get (sel A s) b e' * get (prodm (S k) As u) e' a'))))).
        { apply (sumn_exch3 R d (Ds k) (Ds (S k)) (fun s b e' =>
                        (get (sel A s) b e * get (prodm (S k) As u) e a) * cj (get (sel A s) b e' * get (prodm (S k) As u) e' a'))). }
        apply sumn_ext; intros e' He'. rewrite <- sumn_scal_l. apply sumn_ext; intros s Hs. rewrite <- sumn_scal_l.
        apply sumn_ext; intros b Hb. rewrite kconj_mul. ring. }
      transitivity (suml (words d (length As)) (fun u => sumn (Ds (S k)) (fun e =>
                      get (prodm (S k) As u) e a * cj (get (prodm (S k) As u) e a')))).
      2: { apply (IH (S k) a a' HAs Hisos Ha Ha'). }
      apply suml_ext; intros u Hu. apply sumn_ext; intros e He.
      transitivity (sumn (Ds (S k)) (fun e' => (get (prodm (S k) As u) e a * cj (get (prodm (S k) As u) e' a')) * dlt e e')).
      { apply sumn_ext; intros e' He'. f_equal. specialize (Hiso0 e e'). rewrite E1, E2, E3 in Hiso0. apply Hiso0; assumption. }
      apply (sumn_delta_sym R (Ds (S k)) e (fun e' => get (prodm (S k) As u) e a * cj (get (prodm (S k) As u) e' a'))). exact He.
  Qed.

  (* ---------------- splitting a product ---------------- *)
  Lemma pick_app (Al : list site) : forall (rest : list site) u v, length u = length Al -> pick (Al ++ rest) (u ++ v) = pick Al u ++ pick rest v.
  Proof.
    induction Al as [|A Al IH]; intros rest u v Hu; destruct u as [|s u]; try discriminate; [reflexivity|].
    cbn [app pick]. f_equal. apply IH. cbn [length] in Hu. lia.
  Qed.
  Lemma prodm_app (Al : list site) : forall k (rest : list site) u v, fr_ok k Al -> wordk d (length Al) u ->
    wf (prodm (k + length Al) rest v) -> nr (prodm (k + length Al) rest v) = Ds (k + length Al) ->
    prodm k (Al ++ rest) (u ++ v) = mulmx (prodm k Al u) (prodm (k + length Al) rest v).
  Proof.
    induction Al as [|A Al IH]; intros k rest u v HA Hu Hwf Hnr.
    - apply wordk_0_inv in Hu. subst. cbn [length app] in *. rewrite Nat.add_0_r in *.
      unfold prodm at 2. cbn [pick mprod]. rewrite <- Hnr. symmetry. apply mulmx_1_l. exact Hwf.
    - cbn [length] in Hu. apply wordk_S_inv in Hu. destruct Hu as (s & u' & -> & Hs & Hu').
      destruct (fr_ok_tail _ _ _ HA) as [HA0 HAs]. cbn [app].
      replace (k + length (A :: Al))%nat with (S k + length Al)%nat in * by (cbn [length]; lia).
      rewrite !prodm_cons by assumption. rewrite (IH (S k) rest u' v HAs Hu' Hwf Hnr).
      destruct (prodm_shape Al (S k) u' HAs Hu') as (p0 & p1 & p2). destruct (wsite_sel R _ _ _ _ s HA0 Hs) as (a0 & a1 & a2).
      symmetry. apply mulmx_assoc; congruence.
  Qed.
End Frames.

Arguments fr_ok {R} d Ds k As. Arguments prodm {R} Ds k As u.
