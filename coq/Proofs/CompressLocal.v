(* C13 — the local truncated-SVD step of MPS.compress (left variant) against an orientation-free local specification
   [local_spec] that the sweep induction of Proofs/CompressSweep.v consumes (the right variant is shown to satisfy the
   same specification after mirroring in Proofs/CompressRight.v). *)
From Coq Require Import ZArith List Bool Lia Arith Sorted Ring Field.
From PT Require Import Base.Scalar Base.Field Base.BigSum Base.Mx Model.Tensor Model.BondOps Model.Orthonormalize.
From PT Require Import Proofs.BondOpsPerm Proofs.BondOpsLoop Proofs.BondOpsSpec Proofs.BondOpsRetained Proofs.BondOpsSVD.
From PT Require Import Proofs.MPSOpsBase Proofs.MPSOpsShape.
From PT Require Import Proofs.OrthDefs Proofs.OrthQRExtra Proofs.OrthLocal Proofs.CompressSVD.
Import ListNotations.

Section CLocal.
  Variable F : ofield.
  Add Field Ffield_cloc : (f_ft F).
  Notation CF := (Cx F).
  Add Ring CFring_cloc : (k_rt CF).
  Notation mx := (mx CF).
  Notation site := (site CF).
  Notation cO := (k0 CF). Notation cI := (k1 CF).
  Infix "*!" := (kmul CF) (at level 40, left associativity).
  Notation cj := (kconj CF).
  Notation emb := (@cof F).

  (* squared Frobenius norm of a site tensor *)
  Definition cn2 (A : site) : CF := sumn (length A) (fun s => frob (sel A s) (sel A s)).

  Lemma frob_site_mx d Dl Dr (A : site) : 1 <= d -> site_ok d Dl Dr A ->
    frob (site_mx A) (site_mx A) = cn2 A.
  Proof.
    intros Hd HA. destruct (site_ok_dims CF d Dl Dr A Hd HA) as (E1 & E2 & E3).
    unfold frob, cn2. rewrite nr_site_mx, nc_site_mx, E1, E2, E3. rewrite (sumn_flatten CF d Dl).
    apply sumn_ext. intros s Hs. destruct HA as [_ HA']. destruct (HA' s Hs) as (_ & Hr & Hc). unfold frob. rewrite Hr, Hc.
    apply sumn_ext. intros a Ha. apply sumn_ext. intros b Hb.
    rewrite (get_site_mx CF d Dl Dr A s a b Hd (conj E3 HA') Hs Ha Hb). reflexivity.
  Qed.

  (* a right isometry ahead keeps the norm of the factor pushed into it *)
  Lemma cn2_lmul dn Da Dn (G : mx) (An : site) : site_ok dn Da Dn An -> riso Da Dn An -> nc G = Da ->
    cn2 (lmul G An) = frob G G.
  Proof.
    intros [HlA HA] Hiso HG. unfold cn2, lmul. rewrite map_length, HlA.
    transitivity (sumn dn (fun s => sumn (nr G) (fun i => sumn Da (fun k => sumn Da (fun l =>
                    (cj (get G i k) *! get G i l) *! sumn Dn (fun j => get (sel An s) l j *! cj (get (sel An s) k j))))))).
    { apply sumn_ext. intros s Hs. destruct (HA s Hs) as (Hw & Hr & Hc).
      fold (lmul G An). unfold lmul. rewrite (sel_map CF) by lia.
      unfold frob. rewrite nr_mulmx, nc_mulmx, Hc. apply sumn_ext. intros i Hi.
      transitivity (sumn Dn (fun j => sumn Da (fun k => sumn Da (fun l =>
                      (cj (get G i k) *! get G i l) *! (get (sel An s) l j *! cj (get (sel An s) k j)))))).
      { apply sumn_ext. intros j Hj. rewrite !get_mulmx by lia. rewrite HG. rewrite sumn_conj.
        rewrite <- sumn_scal_r. apply sumn_ext. intros k Hk. rewrite <- sumn_scal_l. apply sumn_ext. intros l Hl.
        rewrite kconj_mul. ring. }
      rewrite sumn_exch. apply sumn_ext. intros k Hk. rewrite sumn_exch. apply sumn_ext. intros l Hl.
      apply sumn_scal_l. }
    rewrite sumn_exch. unfold frob. rewrite HG. apply sumn_ext. intros i Hi.
    rewrite sumn_exch.
    transitivity (sumn Da (fun k => sumn Da (fun l => (cj (get G i k) *! get G i l) *! delta CF l k))).
    { apply sumn_ext. intros k Hk. rewrite sumn_exch. apply sumn_ext. intros l Hl. rewrite sumn_scal_l. f_equal.
      rewrite <- HlA. apply (Hiso l k Hl Hk). }
    apply sumn_ext. intros k Hk. unfold delta.
    apply (sumn_delta_r CF Da k (fun l => cj (get G i k) *! get G i l) Hk).
  Qed.

  (* || u diag(s) ||_F^2 = sum s^2  for u with orthonormal columns *)
  Lemma frob_scalecols (s : list F) (u : mx) : nc u = length s -> mulmx (adjmx u) u = idmx (length s) ->
    frob (scalecols F u s) (scalecols F u s) = emb (sqs s).
  Proof.
    intros Hc Huu. unfold frob. rewrite nr_scalecols, nc_scalecols, Hc. rewrite <- (sumn_emb_sq F).
    rewrite sumn_exch. apply sumn_ext. intros a Ha.
    transitivity (sumn (nr u) (fun i => emb (fmul F (nth a s (f0 F)) (nth a s (f0 F))) *! (cj (get u i a) *! get u i a))).
    { apply sumn_ext. intros i Hi. unfold scalecols. rewrite !get_tab by lia. rewrite kconj_mul, (conj_cof F), <- (cof_mul F). ring. }
    rewrite sumn_scal_l.
    assert (E : get (mulmx (adjmx u) u) a a = get (idmx (length s)) a a) by (rewrite Huu; reflexivity).
    rewrite get_mulmx in E by (rewrite ?nr_adjmx; lia). rewrite get_idmx in E by lia. rewrite Nat.eqb_refl in E.
    transitivity (emb (fmul F (nth a s (f0 F)) (nth a s (f0 F))) *! k1 CF); [|ring]. f_equal. rewrite <- E.
    rewrite nc_adjmx. apply sumn_ext. intros i Hi. rewrite get_adjmx by lia. reflexivity.
  Qed.

  Lemma cof_zero_inj (c : F) : emb c = cO -> c = f0 F.
  Proof. intros H. apply (cof_inj F c (f0 F)). exact H. Qed.

  Lemma nonzero_of_norm (M : mx) (c : F) : frob M M = emb c -> c <> f0 F -> is_zeromx M = false.
  Proof.
    intros E Hc. destruct (is_zeromx M) eqn:Ez; [exfalso|reflexivity]. apply Hc. apply cof_zero_inj. rewrite <- E.
    unfold frob. apply (sumn_zero CF). intros i Hi. apply (sumn_zero CF). intros j Hj.
    rewrite (is_zeromx_spec F M Ez i j Hi Hj). ring.
  Qed.

  (* ---------------------------------------------------------------- *)
  (* what one step of a truncation sweep has to provide                  *)
  (* ---------------------------------------------------------------- *)
  Variable d : nat.
  Variable qd : list Z.
  Variable tol : F.

  Definition local_spec (step : step_t CF) (ok : site -> list Z -> list Z -> Prop) (epsf : site -> list Z -> list Z -> F) : Prop :=
    forall dn Dn (cur next : site) (qb qa : list Z) (c : F),
      1 <= length qb -> 1 <= length qa -> 1 <= dn ->
      site_shape d (length qb) (length qa) cur = true -> site_qsparse qd qb qa cur = true ->
      site_shape dn (length qa) Dn next = true ->
      cn2 cur = emb c -> flt F (f0 F) c -> ok cur qb qa ->
      exists B G q',
        step cur next qb qa = Some (B, lmul G next, q') /\
        wf G /\ nr G = length q' /\ nc G = length qa /\
        1 <= length q' /\ length q' <= d * length qb /\ length q' <= length qa /\
        qsp CF G q' qa /\
        site_shape d (length qb) (length q') B = true /\ site_qsparse qd qb q' B = true /\
        liso (length qb) (length q') B /\
        fle F (f0 F) (epsf cur qb qa) /\ fle F (epsf cur qb qa) tol /\
        frob G G = emb (fmul F c (fsub F (f1 F) (epsf cur qb qa))) /\
        (tol = f0 F -> forall s, s < d -> mulmx (sel B s) G = sel cur s) /\
        (forall k l, k < length q' -> l < length qa ->
           sumn d (fun s => sumn (length qb) (fun a => cj (get (sel B s) a k) *! get (sel cur s) a l)) = get G k l).

  (* ---------------------------------------------------------------- *)
  (* the left step                                                       *)
  (* ---------------------------------------------------------------- *)
  Variable dsvd : mx -> mx * list F * mx.
  Variable pick : list F -> list nat.
  Hypothesis Hd : 1 <= d.
  Hypothesis Lqd : length qd = d.
  Hypothesis Htol0 : fle F (f0 F) tol.
  Hypothesis Htol1 : flt F tol (f1 F).

  (* contract of the oracle calls of one truncated SVD of the matrix M with charges (q0, q1) *)
  Definition svd_call_ok (M : mx) (q0 q1 : list Z) : Prop :=
    Forall (fun B => dsvd_ok F B (dsvd B)) (block_svd_calls M q0 q1) /\
    pick_ok F (normsq (block_svd_spectrum F dsvd M q0 q1)) (pick (normsq (block_svd_spectrum F dsvd M q0 q1))).
  (* its discarded relative weight *)
  Definition svd_eps (M : mx) (q0 q1 : list Z) : F :=
    disc_weight (block_svd_spectrum F dsvd M q0 q1) (retained pick (block_svd_spectrum F dsvd M q0 q1) tol).

  Definition okL (c : site) (qb qa : list Z) : Prop := svd_call_ok (site_mx c) (qflat qd qb) qa.
  Definition epsL (c : site) (qb qa : list Z) : F := svd_eps (site_mx c) (qflat qd qb) qa.

  Lemma srows_qsp (s : list F) (v : mx) q q1 : qsp CF v q q1 -> qsp CF (srows s v) q q1.
  Proof.
    intros H i j Hi Hj Hnz. rewrite nr_srows in Hi. rewrite nc_srows in Hj. apply (H i j Hi Hj).
    unfold srows in Hnz. rewrite get_tab in Hnz by assumption. apply (mul_nonzero CF) in Hnz. tauto.
  Qed.

  (* everything the sweep needs from one truncated SVD of a non-zero valid matrix *)
  Lemma svd_step_facts (M : mx) (q0 q1 : list Z) (c : F) :
    valid_in M q0 q1 = true -> frob M M = emb c -> flt F (f0 F) c -> svd_call_ok M q0 q1 ->
    exists u s v q, block_svd dsvd pick M q0 q1 tol = Some (u, s, v, q) /\
      wf u /\ wf v /\ nr u = nr M /\ nc u = length q /\ nr v = length q /\ nc v = nc M /\ length s = length q /\
      1 <= length q /\ length q <= Nat.min (nr M) (nc M) /\
      mulmx (adjmx u) u = idmx (length q) /\ mulmx v (adjmx v) = idmx (length q) /\
      qsp CF u q0 q /\ qsp CF v q q1 /\
      fle F (f0 F) (svd_eps M q0 q1) /\ fle F (svd_eps M q0 q1) tol /\
      frob (srows s v) (srows s v) = emb (fmul F c (fsub F (f1 F) (svd_eps M q0 q1))) /\
      (tol = f0 F -> mulmx u (srows s v) = M) /\
      mulmx (adjmx u) M = srows s v /\
      mulmx M (adjmx v) = scalecols F u s /\
      frob (scalecols F u s) (scalecols F u s) = emb (fmul F c (fsub F (f1 F) (svd_eps M q0 q1))) /\
      s = map (fun i => nth i (block_svd_spectrum F dsvd M q0 q1) (f0 F)) (retained pick (block_svd_spectrum F dsvd M q0 q1) tol).
  Proof.
    intros Hv Hn Hc [Hcalls Hpick].
    assert (Hcn : c <> f0 F) by (intros E; subst c; exact (flt_irrefl F _ Hc)).
    assert (Hnz : is_zeromx M = false) by (apply (nonzero_of_norm M c Hn Hcn)).
    destruct (block_svd_spec_gen F dsvd pick M q0 q1 tol Hv Hnz Htol0 Htol1 Hcalls Hpick)
      as (Hnn & Hne & [[[u s] v] q] & E & Hs & Hq & Hwu & Hwv & Hnru & Hncu & Hnrv & Hncv & Hlq & Hmin & Huu & Hvv & Hpos & Hspu & Hspv & Hex & _).
    destruct (block_svd_ext F dsvd pick M q0 q1 tol Hv Hnz Hcalls) as (Hnorm & Hort).
    destruct (Hort u s v q E) as [Hort1 Hort2]. clear Hort.
    set (S := block_svd_spectrum F dsvd M q0 q1) in *.
    destruct (retained_spec F pick S tol Hnn Hne Htol0 Htol1 Hpick) as (RS1 & RS2 & RS3 & RS4 & _).
    set (K := retained pick S tol) in *.
    assert (Ec : c = sqsum S) by (apply (cof_inj F); rewrite <- Hn; exact Hnorm).
    assert (HKnd : NoDup K).
    { apply StronglySorted_Sorted in RS1. clear -RS1. induction RS1 as [|a l Hs IH Hr]; constructor; [|exact IH].
      intros Hin. assert (Hss : StronglySorted lt (a :: l)).
      { apply Sorted_StronglySorted; [intros x y z; lia|constructor; assumption]. }
      inversion Hss as [|? ? _ Hall]; subst. rewrite Forall_forall in Hall. specialize (Hall a Hin). lia. }
    exists u, s, v, q. rewrite Hlq.
    split; [exact E|]. split; [exact Hwu|]. split; [exact Hwv|]. split; [exact Hnru|]. split; [exact Hncu|].
    split; [exact Hnrv|]. split; [exact Hncv|]. split; [reflexivity|].
    split. { rewrite <- Hlq. destruct q; [congruence|simpl; lia]. }
    split; [exact Hmin|]. split; [exact Huu|]. split; [exact Hvv|]. split; [exact Hspu|]. split; [exact Hspv|].
    split; [apply disc_weight_nonneg|]. split; [exact RS4|].
    assert (Hsqs : sqs s = fmul F c (fsub F (f1 F) (svd_eps M q0 q1))).
    { rewrite Hs. rewrite sqs_map_nth.
      unfold svd_eps. fold S. fold K.
      assert (H1 := kept_disc_sum F S K HKnd RS2).
      assert (H2 := disc_weight_mul F S K ltac:(rewrite <- Ec; exact Hcn)).
      assert (Hk : fsum (map (sqv F S) K) = fsub F (sqsum S) (fmul F (disc_weight S K) (sqsum S))).
      { rewrite H2. rewrite <- H1. ring. }
      rewrite Ec, Hk. ring. }
    split; [rewrite (frob_srows F s v Hnrv Hvv); f_equal; exact Hsqs|].
    split. { intros Ht. rewrite <- (scalecols_srows F u v s) by lia. apply Hex. exact Ht. }
    split; [exact Hort1|]. split; [exact Hort2|].
    split; [rewrite (frob_scalecols s u Hncu Huu); f_equal; exact Hsqs|exact Hs].
  Qed.

  Lemma local_left_svd_spec : local_spec (stepLs dsvd pick tol qd) okL epsL.
  Proof.
    intros dn Dn cur next qb qa c Hpb Hpa Hdn HsA HspA HsN Hcn Hc Hok.
    assert (HA := site_shape_site_ok CF d (length qb) (length qa) cur HsA).
    assert (HN := site_shape_site_ok CF dn (length qa) Dn next HsN).
    destruct (site_ok_dims CF d _ _ cur Hd HA) as (E1 & E2 & E3).
    destruct (site_ok_dims CF dn _ _ next Hdn HN) as (F1 & F2 & F3).
    assert (Hv : valid_in (site_mx cur) (qflat qd qb) qa = true)
      by (apply (valid_in_site_mx CF d (length qb) (length qa) cur qd qb qa Hd Lqd eq_refl eq_refl HA (site_qsparse_qsp CF qd qb qa cur HspA))).
    assert (Hnr : nr (site_mx cur) = d * length qb) by (rewrite nr_site_mx; congruence).
    assert (Hnc : nc (site_mx cur) = length qa) by (rewrite nc_site_mx; congruence).
    assert (Hfr : frob (site_mx cur) (site_mx cur) = emb c) by (rewrite (frob_site_mx d _ _ cur Hd HA); exact Hcn).
    destruct (svd_step_facts (site_mx cur) (qflat qd qb) qa c Hv Hfr Hc Hok)
      as (u & s & v & q & E & Hwu & Hwv & Hnru & Hncu & Hnrv & Hncv & Hls & Hq1 & Hmin & Huu & Hvv & Hspu & Hspv & He0 & He1 & HfG & Hex & Hort & _ & _ & _).
    rewrite Hnr in Hnru. rewrite Hnc in Hncv. rewrite Hnr, Hnc in Hmin.
    exists (mx_site d (length qb) u), (srows s v), q.
    split. { unfold stepLs, local_left_svd. rewrite E, Hncv, F1, Nat.eqb_refl, E3, E1. reflexivity. }
    split; [apply wf_srows|]. split; [rewrite nr_srows; exact Hnrv|]. split; [rewrite nc_srows; exact Hncv|].
    split; [exact Hq1|]. split; [lia|]. split; [lia|].
    split; [apply srows_qsp; exact Hspv|].
    split. { rewrite <- Hncu. apply site_shape_mx_site. }
    split. { apply site_qsp_qsparse. eapply (slab_qsp CF d (length qb)); eauto. }
    split. { eapply (slab_liso CF d (length qb)); eauto. }
    split; [exact He0|]. split; [exact He1|]. split; [exact HfG|].
    split.
    - intros Ht s0 Hs0. eapply (slab_mul CF d (length qb) (length qa) cur u (srows s v)); eauto.
    - intros k l Hk Hl.
      assert (Eg : get (mulmx (adjmx u) (site_mx cur)) k l = get (srows s v) k l) by (rewrite Hort; reflexivity).
      rewrite <- Eg. rewrite get_mulmx by (rewrite ?nr_adjmx; lia). rewrite nc_adjmx, Hnru.
      rewrite (sumn_flatten CF d (length qb)). apply sumn_ext. intros s0 Hs0. apply sumn_ext. intros a Ha.
      rewrite sel_mx_site by exact Hs0. rewrite get_tab by lia. rewrite get_adjmx by (try nia; lia).
      rewrite (get_site_mx CF d (length qb) (length qa) cur s0 a l Hd HA Hs0 Ha Hl). reflexivity.
  Qed.
End CLocal.

Arguments cn2 {F} A.
Arguments local_spec {F} d qd tol step ok epsf.
Arguments svd_call_ok {F} dsvd pick M q0 q1.
Arguments svd_eps {F} tol dsvd pick M q0 q1.
Arguments okL {F} qd dsvd pick c qb qa.
Arguments epsL {F} qd tol dsvd pick c qb qa.
