(* C02, round 3: block sparsity is an invariant of the TWO-SITE sweeps (Model/Sweeps.v: integrate_local_twosite,
   calculate_ground_state_local_twosite).

   The invariant is [ZQ] of Proofs/Hist2Sweep.v (every site tensor charge conserving under the CURRENT bond charges, left
   blocks BL[0..i] and right blocks BR[i..L-1] charge conserving under (psi.qD[j], H.qD[j], psi.qD[j])); between the split of
   a pair (i, i+1) and the following block update the block facing the rebound bond i+1 is stale, which is the gap invariant
   [ZP st i] (BL[0..i], BR[i+1..L-1]).  Per-call contracts [sp2_call_ok], read off the emitted trace:
       KH2 / EIG2     the answer of the local solver on the MERGED pair is charge conserving under
                      (qnumber_flatten([qd, qd]), qD[i], qD[i+2]) whenever its arguments are (merged MPO tensor:
                      [merge_osite_okP]; a theorem for the Krylov solvers, Proofs/Hist3Top.v)
       SPLITL/SPLITR  split_mps_tensor returns factors that are charge conserving under the returned bond charges
                      (C12_split_mps_spec / C02_split_ok)
       KH, EIG, KB, QR  as for the single-site sweeps ([sp_call_ok]).
   Consequences: [tdvp2_mps_ok], [dmrg2_mps_ok]. *)
From Coq Require Import ZArith List Lia Bool Arith Ring.
From PT Require Import Base.Scalar Base.BigSum Base.Mx Model.Tensor Model.MPSOps Model.Operation Model.Sweeps.
From PT Require Import Proofs.MPSOpsBase Proofs.MPSOpsTop Proofs.MPSOpsShape Proofs.OperationSums Proofs.OperationEntries Proofs.OperationTwoSite.
From PT Require Import Proofs.SweepsFlow Proofs.SweepsRun Proofs.Sweeps2Run.
From PT Require Import Proofs.HistSparse Proofs.HistChain Proofs.HistOps Proofs.Hist2Local Proofs.Hist2Sweep Proofs.Hist2Dmrg.
Import ListNotations.
Open Scope nat_scope.

(* ---------- the merged tensors of a two-site local problem ---------- *)
Section Merge.
  Variable R : cring.
  Notation mx := (mx R).
  Notation site := (site R). Notation osite := (osite R).
  Notation site_okP := (site_okP R). Notation osite_okP := (osite_okP R).

  (* merge_mps_tensor_pair (the copy used by the sweeps) *)
  Lemma merge_site_okP qd0 qd1 ql qm qr (A0 A1 : site) :
    site_okP qd0 ql qm A0 -> site_okP qd1 qm qr A1 -> site_okP (Sweeps.qflat qd0 qd1) ql qr (c04_merge_site A0 A1).
  Proof. exact (merge_pair_ok R qd0 qd1 ql qm qr A0 A1). Qed.

  Lemma merge_row_shape d0 d1 Dl Dm Dr (r0 r1 : site) :
    site_shape d0 Dl Dm r0 = true -> site_shape d1 Dm Dr r1 = true ->
    site_shape (d0 * d1) Dl Dr (flat_map (fun M0 => map (fun M1 => mulmx M0 M1) r1) r0) = true.
  Proof.
    intros S0 S1. unfold site_shape in *. rewrite andb_true_iff, Nat.eqb_eq, forallb_forall in S0, S1.
    destruct S0 as [L0 H0]. destruct S1 as [L1 H1].
    rewrite (length_flat_map_map (fun M0 M1 : mx => mulmx M0 M1)), L0, L1, Nat.eqb_refl. cbn [andb].
    apply forallb_forall. intros M HM. apply in_flat_map in HM. destruct HM as (M0 & HM0 & HM).
    apply in_map_iff in HM. destruct HM as (M1 & <- & HM1).
    pose proof (H0 _ HM0) as E0. pose proof (H1 _ HM1) as E1. rewrite !andb_true_iff, !Nat.eqb_eq in E0, E1.
    assert (W : wfb (mulmx M0 M1) = true) by apply wfb_tab.
    rewrite W, nr_mulmx, nc_mulmx. destruct E0 as [[_ ->] _]. destruct E1 as [_ ->]. rewrite !Nat.eqb_refl. reflexivity.
  Qed.

  (* merge_mpo_tensor_pair: (s0 s1, t0 t1) carries qd0[s0] - qd0[t0] + qd1[s1] - qd1[t1] *)
  Theorem merge_osite_okP qd0 qd1 ql qm qr (W0 W1 : osite) : 0 < length qd1 ->
    osite_okP qd0 ql qm W0 -> osite_okP qd1 qm qr W1 ->
    osite_okP (Sweeps.qflat qd0 qd1) ql qr (c04_merge_osite W0 W1).
  Proof.
    intros Hd1 [S0 H0] [S1 H1].
    pose proof (osite_shape_struct R _ _ _ _ S0) as St0. pose proof (osite_shape_struct R _ _ _ _ S1) as St1.
    split.
    - rewrite Sweeps_qflat_length. unfold osite_shape in *. rewrite andb_true_iff, Nat.eqb_eq, forallb_forall in S0, S1.
      destruct S0 as [L0 K0]. destruct S1 as [L1 K1]. apply andb_true_iff. split.
      + apply Nat.eqb_eq. unfold c04_merge_osite.
        rewrite (length_flat_map_map (fun (row0 row1 : site) => flat_map (fun M0 => map (fun M1 => mulmx M0 M1) row1) row0)).
        exact (f_equal2 Nat.mul L0 L1).
      + apply forallb_forall. intros row Hrow. unfold c04_merge_osite in Hrow. apply in_flat_map in Hrow.
        destruct Hrow as (r0 & Hr0 & Hrow). apply in_map_iff in Hrow. destruct Hrow as (r1 & <- & Hr1).
        apply (merge_row_shape _ _ _ (length qm)); [apply K0; exact Hr0|apply K1; exact Hr1].
    - intros s t Hs Ht. rewrite Sweeps_qflat_length in Hs, Ht.
      assert (Es : s = (s / length qd1) * length qd1 + s mod length qd1) by (rewrite Nat.mul_comm; apply Nat.div_mod; lia).
      assert (Et : t = (t / length qd1) * length qd1 + t mod length qd1) by (rewrite Nat.mul_comm; apply Nat.div_mod; lia).
      assert (Hs0 : s / length qd1 < length qd0) by (apply Nat.div_lt_upper_bound; lia).
      assert (Ht0 : t / length qd1 < length qd0) by (apply Nat.div_lt_upper_bound; lia).
      assert (Hs1 : s mod length qd1 < length qd1) by (apply Nat.mod_upper_bound; lia).
      assert (Ht1 : t mod length qd1 < length qd1) by (apply Nat.mod_upper_bound; lia).
      rewrite (Sweeps_zget_qflat qd0 qd1 s) by (rewrite Nat.mul_comm; lia).
      rewrite (Sweeps_zget_qflat qd0 qd1 t) by (rewrite Nat.mul_comm; lia).
      revert Hs0 Ht0 Hs1 Ht1 Es Et. generalize (s / length qd1) (s mod length qd1) (t / length qd1) (t mod length qd1).
      intros s0 s1 t0 t1 Hs0 Ht0 Hs1 Ht1 Es Et. rewrite Es, Et.
      rewrite (merge_osel R (length qd0) (length qd1)) by assumption.
      destruct (osite_shape_osel R _ _ _ _ s0 t0 S0 Hs0 Ht0) as (_ & r0 & c0).
      destruct (osite_shape_osel R _ _ _ _ s1 t1 S1 Hs1 Ht1) as (_ & r1 & c1).
      replace (zget qd0 s0 + zget qd1 s1 - (zget qd0 t0 + zget qd1 t1))%Z
        with ((zget qd0 s0 - zget qd0 t0) + (zget qd1 s1 - zget qd1 t1))%Z by lia.
      apply (msp_mulmx R _ _ ql qm qr); auto.
  Qed.
End Merge.

Section Sweep2.
  Variable R : cring.
  Notation mx := (mx R).
  Notation site := (site R). Notation osite := (osite R). Notation env := (env R).
  Notation sw := (sw R).
  Notation site_okP := (site_okP R). Notation osite_okP := (osite_okP R).
  Notation env_okP := (env_okP R). Notation bond_okP := (bond_okP R).

  Variable qr : nat -> mx -> list Z -> list Z -> mx * mx * list Z.
  Variable split : nat -> site -> list Z -> list Z -> list Z -> list Z -> bool -> site * site * list Z.
  Variable kexp : nat -> env -> env -> osite -> site -> R -> site.
  Variable kexp0 : nat -> env -> env -> mx -> R -> mx.
  Variable keig : nat -> env -> env -> osite -> site -> R * site.
  Variables (Hs : list osite) (qd : list Z) (qWs : list (list Z)) (dt hdt : R).
  Notation L := (length Hs).
  Notation qW j := (nth j qWs []).
  Notation ZQi := (ZQ R Hs qd qWs).

  Hypothesis Hd : 0 < length qd.
  Hypothesis HWs : chainP (osite_okP qd) qWs Hs.
  Hypothesis HWpos : forall j, j <= L -> 0 < length (qW j).
  Hypothesis HW0 : qW 0 = [0%Z].

  (* merged MPO tensor of the pair (i, i+1) and the physical charges of a merged pair *)
  Definition Hm2 (i : nat) : osite := c04_merge_osite (nth i Hs []) (nth (S i) Hs []).
  Definition qd2 : list Z := Sweeps.qflat qd qd.

  Lemma Hm2_okP i : S i < L -> osite_okP qd2 (qW i) (qW (S (S i))) (Hm2 i).
  Proof.
    intros Hi. apply (merge_osite_okP R qd qd (qW i) (qW (S i)) (qW (S (S i)))); [exact Hd| |];
      apply (HW_at R Hs qd qWs HWs); lia.
  Qed.

  (* ---------- per-call contracts of the two-site traces ---------- *)
  Definition split_sp_ok (q0 q1 ql qr' : list Z) (ans : site * site * list Z) : Prop :=
    let '(A0, A1, qb) := ans in site_okP q0 ql qb A0 /\ site_okP q1 qb qr' A1.
  Definition sp2_call_ok (p : nat) (t : tcall R) : Prop :=
    let i := c_site (t_call t) in
    let tm := tval dt hdt (c_coef (t_call t)) in
    match c_kind (t_call t), t_envs t, t_ten t, t_qs t with
    | KH2, [BL; BR], [Am], _ =>
        forall ql qr', site_okP qd2 ql qr' Am -> env_okP ql (qW i) ql BL -> env_okP qr' (qW (S (S i))) qr' BR ->
          site_okP qd2 ql qr' (kexp p BL BR (Hm2 i) Am tm)
    | EIG2, [BL; BR], [Am], _ =>
        forall ql qr', site_okP qd2 ql qr' Am -> env_okP ql (qW i) ql BL -> env_okP qr' (qW (S (S i))) qr' BR ->
          site_okP qd2 ql qr' (snd (keig p BL BR (Hm2 i) Am))
    | SPLITL, _, [Am], [q0; q1; q2; q3] =>
        site_okP (Sweeps.qflat q0 q1) q2 q3 Am -> split_sp_ok q0 q1 q2 q3 (split p Am q0 q1 q2 q3 true)
    | SPLITR, _, [Am], [q0; q1; q2; q3] =>
        site_okP (Sweeps.qflat q0 q1) q2 q3 Am -> split_sp_ok q0 q1 q2 q3 (split p Am q0 q1 q2 q3 false)
    | _, _, _, _ => sp_call_ok R qr kexp kexp0 keig Hs qd qWs dt hdt p t
    end.
  Fixpoint sp2_tr_ok (tr : list (tcall R)) : Prop :=
    match tr with [] => True | t :: rest => sp2_call_ok (length rest) t /\ sp2_tr_ok rest end.
  Lemma sp2_tr_ok_suffix new old : sp2_tr_ok (new ++ old) -> sp2_tr_ok old.
  Proof. induction new as [|t new IH]; [exact (fun H => H)|]. cbn [app sp2_tr_ok]. intros [_ H]. exact (IH H). Qed.

  (* ---------- the gap invariant ---------- *)
  Definition ZP (st : sw) (i : nat) : Prop :=
    length (s_A st) = L /\ length (s_qD st) = S L /\ length (s_BL st) = L /\ length (s_BR st) = L /\
    (forall j, j < L -> site_okP qd (gq st j) (gq st (S j)) (gA st j)) /\
    (forall j, j <= i -> env_okP (gq st j) (qW j) (gq st j) (gBL st j)) /\
    (forall j, S i <= j -> j < L -> env_okP (gq st (S j)) (qW (S j)) (gq st (S j)) (gBR st j)).

  Lemma ZQ_ZP_l st i : ZQi st i -> ZP st i.
  Proof.
    intros (lA & lq & lBL & lBR & HA & HBL & HBR). refine (conj lA (conj lq (conj lBL (conj lBR (conj HA (conj HBL _)))))).
    intros j Hj1 Hj2. apply HBR; lia.
  Qed.
  Lemma ZQ_ZP_r st i : ZQi st (S i) -> ZP st i.
  Proof.
    intros (lA & lq & lBL & lBR & HA & HBL & HBR). refine (conj lA (conj lq (conj lBL (conj lBR (conj HA (conj _ HBR)))))).
    intros j Hj. apply HBL. lia.
  Qed.

  Lemma Gq_lset (q : list (list Z)) k qb j : k < length q ->
    nth j (lset q k qb) [] = if Nat.eqb j k then qb else nth j q [].
  Proof.
    intros Hk. destruct (Nat.eqb j k) eqn:E.
    - apply Nat.eqb_eq in E. subst j. apply nth_lset_same. exact Hk.
    - apply Nat.eqb_neq in E. apply nth_lset_other. lia.
  Qed.

  (* the pair (i, i+1) is replaced and bond i+1 rebound *)
  Lemma ZP_pair (st st' : sw) i A0 A1 qb : ZP st i -> S i < L ->
    site_okP qd (gq st i) qb A0 -> site_okP qd qb (gq st (S (S i))) A1 ->
    s_A st' = lset (lset (s_A st) i A0) (S i) A1 -> s_qD st' = lset (s_qD st) (S i) qb ->
    s_BL st' = s_BL st -> s_BR st' = s_BR st -> ZP st' i.
  Proof.
    intros (lA & lq & lBL & lBR & HA & HBL & HBR) HSi HA0 HA1 EA Eq EBL EBR. unfold ZP, gq, gA, gBL, gBR in *.
    rewrite EA, Eq, EBL, EBR, !lset_length. repeat (split; [assumption|]).
    assert (Gq : forall j, nth j (lset (s_qD st) (S i) qb) [] = if Nat.eqb j (S i) then qb else nth j (s_qD st) [])
      by (intros j; apply Gq_lset; lia).
    split; [|split].
    - intros j Hj. rewrite !Gq. destruct (Nat.eq_dec j (S i)) as [->|N1].
      + rewrite nth_lset_same by (rewrite lset_length; lia). rewrite Nat.eqb_refl.
        replace (Nat.eqb (S (S i)) (S i)) with false by (symmetry; apply Nat.eqb_neq; lia). exact HA1.
      + rewrite nth_lset_other by lia. replace (Nat.eqb j (S i)) with false by (symmetry; apply Nat.eqb_neq; lia).
        destruct (Nat.eq_dec j i) as [->|N2].
        * rewrite nth_lset_same by lia. rewrite Nat.eqb_refl. exact HA0.
        * rewrite nth_lset_other by lia. replace (Nat.eqb (S j) (S i)) with false by (symmetry; apply Nat.eqb_neq; lia). apply HA. exact Hj.
    - intros j Hj. rewrite !Gq. replace (Nat.eqb j (S i)) with false by (symmetry; apply Nat.eqb_neq; lia). apply HBL. lia.
    - intros j Hj1 Hj2. rewrite !Gq. replace (Nat.eqb (S j) (S i)) with false by (symmetry; apply Nat.eqb_neq; lia). apply HBR; lia.
  Qed.

  (* BL[i+1] = contraction_operator_step_left(psi.A[i], psi.A[i], H.A[i], BL[i]) *)
  Lemma ZP_updBL st i : ZP st i -> S i < L -> ZQi (upd_BL Hs st i) (S i).
  Proof.
    intros (lA & lq & lBL & lBR & HA & HBL & HBR) HSi. unfold upd_BL, ZQ, gq, gA, gBL, gBR in *. cbn [s_A s_qD s_BL s_BR].
    rewrite lset_length. split; [exact lA|]. split; [exact lq|]. split; [exact lBL|]. split; [exact lBR|]. split; [exact HA|]. split; [|exact HBR].
    intros j Hj. destruct (Nat.eq_dec j (S i)) as [->|N1].
    - rewrite nth_lset_same by lia.
      apply (opstep_left_okP R qd (qW i) (qW (S i)) (nth i Hs []) Hd (HWpos i ltac:(lia)) (HWpos (S i) ltac:(lia))
               (HW_at R Hs qd qWs HWs i ltac:(lia)) (nth i (s_qD st) []) (nth (S i) (s_qD st) []) (nth i (s_qD st) []) (nth (S i) (s_qD st) []));
        [apply HA; lia|apply HA; lia|apply HBL; lia].
    - rewrite nth_lset_other by lia. apply HBL. lia.
  Qed.

  (* BR[i] = contraction_operator_step_right(psi.A[i+1], psi.A[i+1], H.A[i+1], BR[i+1]) *)
  Lemma ZP_updBR st i : ZP st i -> S i < L -> ZQi (upd_BR Hs st (S i)) i.
  Proof.
    intros (lA & lq & lBL & lBR & HA & HBL & HBR) HSi. unfold ZQ, gq, gA, gBL, gBR in *. rewrite !upd_BR_S. unfold upd_BR, gBR. cbn [s_A s_qD s_BL].
    rewrite lset_length. split; [exact lA|]. split; [exact lq|]. split; [exact lBL|]. split; [exact lBR|]. split; [exact HA|]. split; [exact HBL|].
    intros j Hj1 Hj2. destruct (Nat.eq_dec j i) as [->|N1].
    - rewrite nth_lset_same by lia.
      apply (opstep_right_okP R qd (qW (S i)) (qW (S (S i))) (nth (S i) Hs []) Hd (HWpos (S i) ltac:(lia)) (HWpos (S (S i)) ltac:(lia))
               (HW_at R Hs qd qWs HWs (S i) ltac:(lia)) (nth (S i) (s_qD st) []) (nth (S (S i)) (s_qD st) []) (nth (S i) (s_qD st) []) (nth (S (S i)) (s_qD st) []));
        [apply HA; lia|apply HA; lia|apply HBR; lia].
    - rewrite nth_lset_other by lia. apply HBR; lia.
  Qed.

  (* the merged pair under the gap invariant *)
  Lemma ZP_merged st i : ZP st i -> S i < L ->
    site_okP qd2 (gq st i) (gq st (S (S i))) (c04_merge_site (gA st i) (gA st (S i))).
  Proof.
    intros (_ & _ & _ & _ & HA & _) HSi. apply (merge_site_okP R qd qd _ (gq st (S i))); apply HA; lia.
  Qed.

  (* ======================= TDVP, two-site ======================= *)
  Lemma tdvp2_pair_sp (st : sw) i c left : ZP st i -> S i < L ->
    sp2_tr_ok (s_tr (tdvp2_pair split kexp Hs qd dt hdt st i c left)) ->
    ZP (tdvp2_pair split kexp Hs qd dt hdt st i c left) i.
  Proof.
    intros HZ HSi Hok. pose proof (ZP_merged st i HZ HSi) as HAm.
    pose proof HZ as (lA & lq & lBL & lBR & HA & HBL & HBR).
    unfold tdvp2_pair in *. cbv zeta in *.
    set (Am := c04_merge_site (gA st i) (gA st (S i))) in *.
    set (Am1 := kexp (length (s_tr st)) (gBL st i) (gBR st (S i)) (c04_merge_osite (nth i Hs []) (nth (S i) Hs [])) Am (tval dt hdt c)) in *.
    destruct (split (S (length (s_tr st))) Am1 qd qd (gq st i) (gq st (S (S i))) left) as [[A0 A1] qb] eqn:Es.
    cbn [s_tr] in Hok. destruct Hok as (HcS & HcK & _).
    unfold sp2_call_ok in HcK. cbn [t_call c_kind c_site c_coef t_envs t_ten t_qs length] in HcK.
    assert (HAm1 : site_okP qd2 (gq st i) (gq st (S (S i))) Am1).
    { apply HcK; [exact HAm|apply HBL; lia|apply HBR; lia]. }
    assert (HS : split_sp_ok qd qd (gq st i) (gq st (S (S i))) (A0, A1, qb)).
    { unfold sp2_call_ok in HcS. destruct left; cbn [t_call c_kind c_site c_coef t_envs t_ten t_qs length] in HcS;
        rewrite Es in HcS; apply HcS; exact HAm1. }
    destruct HS as [HA0 HA1].
    eapply (ZP_pair st _ i A0 A1 qb HZ HSi HA0 HA1); reflexivity.
  Qed.

  Lemma evolve_site_sp (st : sw) j c : ZQi st j -> j < L ->
    sp2_tr_ok (s_tr (evolve_site kexp Hs dt hdt st j c)) -> ZQi (evolve_site kexp Hs dt hdt st j c) j.
  Proof.
    intros HZ Hj Hok. pose proof HZ as (lA & lq & lBL & lBR & HA & HBL & HBR).
    unfold evolve_site in *. cbn [s_tr] in Hok. destruct Hok as [Hc _].
    unfold sp2_call_ok in Hc. cbn [t_call c_kind c_site c_coef t_envs t_ten t_qs] in Hc.
    unfold sp_call_ok in Hc. cbn [t_call c_kind c_site c_coef t_envs t_ten t_qs] in Hc.
    specialize (Hc _ _ (HA j Hj) (HBL j (le_n j)) (HBR j (le_n j) Hj)).
    eapply (ZQ_set_site R Hs qd qWs Hd st _ j _ HZ Hj Hc); reflexivity.
  Qed.

  Lemma tr_evolve st j c : s_tr (evolve_site kexp Hs dt hdt st j c) =
    mkt (mkcall KH j c) [gBL st j; gBR st j] [gA st j] [] :: s_tr st.
  Proof. reflexivity. Qed.
  Lemma tr_updBL st i : exists t, s_tr (upd_BL Hs st i) = t :: s_tr st.
  Proof. eexists. reflexivity. Qed.
  Lemma tr_updBR st i : exists t, s_tr (upd_BR Hs st i) = t :: s_tr st.
  Proof. eexists. reflexivity. Qed.
  Lemma sp2_tl t tr : sp2_tr_ok (t :: tr) -> sp2_tr_ok tr.
  Proof. intros [_ H]. exact H. Qed.

  Lemma tdvp2_lr_sp (st : sw) i : ZQi st i -> S i < L ->
    sp2_tr_ok (s_tr (tdvp2_lr split kexp Hs qd dt hdt st i)) -> ZQi (tdvp2_lr split kexp Hs qd dt hdt st i) (S i).
  Proof.
    intros HZ HSi Hok. unfold tdvp2_lr in *.
    set (st1 := tdvp2_pair split kexp Hs qd dt hdt st i 1 false) in *.
    assert (Hok2 : sp2_tr_ok (s_tr (upd_BL Hs st1 i))) by (rewrite tr_evolve in Hok; exact (sp2_tl _ _ Hok)).
    assert (Hok1 : sp2_tr_ok (s_tr st1)) by (destruct (tr_updBL st1 i) as [t E]; rewrite E in Hok2; exact (sp2_tl _ _ Hok2)).
    pose proof (tdvp2_pair_sp st i 1 false (ZQ_ZP_l st i HZ) HSi Hok1) as H1. fold st1 in H1.
    pose proof (ZP_updBL st1 i H1 HSi) as H2.
    apply evolve_site_sp; [exact H2|lia|exact Hok].
  Qed.

  Lemma tdvp2_mid_sp (st : sw) i : ZQi st i -> S i < L ->
    sp2_tr_ok (s_tr (tdvp2_mid split kexp Hs qd dt hdt st i)) -> ZQi (tdvp2_mid split kexp Hs qd dt hdt st i) i.
  Proof.
    intros HZ HSi Hok. unfold tdvp2_mid in *.
    set (st1 := tdvp2_pair split kexp Hs qd dt hdt st i 2 true) in *.
    assert (Hok1 : sp2_tr_ok (s_tr st1)) by (destruct (tr_updBR st1 (S i)) as [t E]; rewrite E in Hok; exact (sp2_tl _ _ Hok)).
    pose proof (tdvp2_pair_sp st i 2 true (ZQ_ZP_l st i HZ) HSi Hok1) as H1. fold st1 in H1.
    exact (ZP_updBR st1 i H1 HSi).
  Qed.

  Lemma tdvp2_rl_sp (st : sw) i : ZQi st (S i) -> S i < L ->
    sp2_tr_ok (s_tr (tdvp2_rl split kexp Hs qd dt hdt st i)) -> ZQi (tdvp2_rl split kexp Hs qd dt hdt st i) i.
  Proof.
    intros HZ HSi Hok. unfold tdvp2_rl in *.
    set (st0 := evolve_site kexp Hs dt hdt st (S i) (-1)) in *.
    set (st1 := tdvp2_pair split kexp Hs qd dt hdt st0 i 1 true) in *.
    assert (Hok1 : sp2_tr_ok (s_tr st1)) by (destruct (tr_updBR st1 (S i)) as [t E]; rewrite E in Hok; exact (sp2_tl _ _ Hok)).
    assert (Hok0 : sp2_tr_ok (s_tr st0)).
    { unfold st1, tdvp2_pair in Hok1. cbv zeta in Hok1. destruct (split _ _ _ _ _ _ _) as [[A0 A1] qb]. cbn [s_tr] in Hok1.
      exact (proj2 (proj2 Hok1)). }
    pose proof (evolve_site_sp st (S i) (-1) HZ HSi Hok0) as H0. fold st0 in H0.
    pose proof (tdvp2_pair_sp st0 i 1 true (ZQ_ZP_r st0 i H0) HSi Hok1) as H1. fold st1 in H1.
    exact (ZP_updBR st1 i H1 HSi).
  Qed.

  Lemma tdvp2_step_sp (st : sw) : 2 <= L -> ZQi st 0 ->
    sp2_tr_ok (s_tr (tdvp2_step split kexp Hs qd dt hdt L st)) -> ZQi (tdvp2_step split kexp Hs qd dt hdt L st) 0.
  Proof.
    intros HL2 HT Hok. unfold tdvp2_step in *. cbv zeta in *.
    set (st1 := fold_left (tdvp2_lr split kexp Hs qd dt hdt) (seq 0 (L - 2)) st) in *.
    set (st2 := tdvp2_mid split kexp Hs qd dt hdt st1 (L - 2)) in *.
    assert (Hok2 : sp2_tr_ok (s_tr st2)).
    { destruct (fold_mono (@s_tr R) (tdvp2_rl split kexp Hs qd dt hdt) (suf_tdvp2_rl R split kexp Hs qd dt hdt) (rev (seq 0 (L - 2))) st2) as [new E].
      rewrite E in Hok. exact (sp2_tr_ok_suffix _ _ Hok). }
    assert (Hok1 : sp2_tr_ok (s_tr st1)).
    { destruct (suf_tdvp2_mid R split kexp Hs qd dt hdt st1 (L - 2)) as [new E]. fold st2 in E. rewrite E in Hok2. exact (sp2_tr_ok_suffix _ _ Hok2). }
    assert (H1 : ZQi st1 (0 + (L - 2))).
    { unfold st1.
      apply (fold_up (@s_tr R) (tdvp2_lr split kexp Hs qd dt hdt) (suf_tdvp2_lr R split kexp Hs qd dt hdt) sp2_tr_ok sp2_tr_ok_suffix
               (fun i s => ZQi s i) (L - 2) 0 st HT Hok1).
      intros i s' Hi HZ Hoki. apply tdvp2_lr_sp; [exact HZ|lia|exact Hoki]. }
    cbn [Nat.add] in H1.
    assert (H2 : ZQi st2 (L - 2)) by (apply tdvp2_mid_sp; [exact H1|lia|exact Hok2]).
    apply (fold_down0 (@s_tr R) (tdvp2_rl split kexp Hs qd dt hdt) (suf_tdvp2_rl R split kexp Hs qd dt hdt) sp2_tr_ok sp2_tr_ok_suffix
             (fun i s => ZQi s i) (L - 2) st2 H2 Hok).
    intros i s' Hi HZ Hoki. apply tdvp2_rl_sp; [exact HZ|lia|exact Hoki].
  Qed.

  Lemma tdvp2_iter_sp n : forall st, 2 <= L -> ZQi st 0 ->
    sp2_tr_ok (s_tr (iter n (tdvp2_step split kexp Hs qd dt hdt L) st)) ->
    ZQi (iter n (tdvp2_step split kexp Hs qd dt hdt L) st) 0.
  Proof.
    induction n as [|n IH]; intros st HL2 HT Hok; cbn [iter] in *; [exact HT|].
    apply IH; [exact HL2| |exact Hok]. apply tdvp2_step_sp; [exact HL2|exact HT|].
    destruct (suf_tdvp2_iter R split kexp Hs qd dt hdt n (tdvp2_step split kexp Hs qd dt hdt L st)) as [new E].
    rewrite E in Hok. exact (sp2_tr_ok_suffix _ _ Hok).
  Qed.

  (* ======================= DMRG, two-site ======================= *)
  Lemma dmrg2_pair_sp (se : sw * R) i left : ZP (fst se) i -> S i < L ->
    sp2_tr_ok (s_tr (fst (dmrg2_pair split keig Hs qd se i left))) ->
    ZP (fst (dmrg2_pair split keig Hs qd se i left)) i /\
    s_BL (fst (dmrg2_pair split keig Hs qd se i left)) = s_BL (fst se).
  Proof.
    intros HZ HSi Hok. destruct se as [st en0]. cbn [fst] in *. pose proof (ZP_merged st i HZ HSi) as HAm.
    pose proof HZ as (lA & lq & lBL & lBR & HA & HBL & HBR).
    unfold dmrg2_pair in *. cbv zeta in *. cbn [fst snd] in *.
    set (Am := c04_merge_site (gA st i) (gA st (S i))) in *.
    destruct (keig (length (s_tr st)) (gBL st i) (gBR st (S i)) (c04_merge_osite (nth i Hs []) (nth (S i) Hs [])) Am) as [en Am1] eqn:Ek.
    destruct (split (S (length (s_tr st))) Am1 qd qd (gq st i) (gq st (S (S i))) left) as [[A0 A1] qb] eqn:Es.
    cbn [fst snd s_tr] in *. destruct Hok as (HcS & HcK & _).
    unfold sp2_call_ok in HcK. cbn [t_call c_kind c_site c_coef t_envs t_ten t_qs length] in HcK.
    assert (HAm1 : site_okP qd2 (gq st i) (gq st (S (S i))) Am1).
    { specialize (HcK _ _ HAm (HBL i (le_n i)) (HBR (S i) (le_n (S i)) HSi)). unfold Hm2 in HcK. rewrite Ek in HcK. exact HcK. }
    assert (HS : split_sp_ok qd qd (gq st i) (gq st (S (S i))) (A0, A1, qb)).
    { unfold sp2_call_ok in HcS. destruct left; cbn [t_call c_kind c_site c_coef t_envs t_ten t_qs length] in HcS;
        rewrite Es in HcS; apply HcS; exact HAm1. }
    destruct HS as [HA0 HA1]. split; [|reflexivity].
    eapply (ZP_pair st _ i A0 A1 qb HZ HSi HA0 HA1); reflexivity.
  Qed.

  Definition ZD2 (i : nat) (se : sw * R) : Prop := ZQi (fst se) i /\ gBL (fst se) 0 = env_one.

  Lemma dmrg2_lr_sp (se : sw * R) i : ZD2 i se -> S i < L ->
    sp2_tr_ok (s_tr (fst (dmrg2_lr split keig Hs qd se i))) -> ZD2 (S i) (dmrg2_lr split keig Hs qd se i).
  Proof.
    intros [HZ HB0] HSi Hok. unfold dmrg2_lr, lift in *. cbn [fst snd] in *.
    set (se1 := dmrg2_pair split keig Hs qd se i false) in *.
    assert (Hok1 : sp2_tr_ok (s_tr (fst se1))) by (destruct (tr_updBL (fst se1) i) as [t E]; rewrite E in Hok; exact (sp2_tl _ _ Hok)).
    destruct (dmrg2_pair_sp se i false (ZQ_ZP_l _ i HZ) HSi Hok1) as [H1 EBL]. fold se1 in H1, EBL.
    split; [exact (ZP_updBL (fst se1) i H1 HSi)|].
    cbn [fst]. unfold upd_BL, gBL in *. cbn [s_BL]. rewrite nth_lset_other by lia. rewrite EBL. exact HB0.
  Qed.

  Lemma dmrg2_rl_spP (se : sw * R) i : ZP (fst se) i -> gBL (fst se) 0 = env_one -> S i < L ->
    sp2_tr_ok (s_tr (fst (dmrg2_rl split keig Hs qd se i))) -> ZD2 i (dmrg2_rl split keig Hs qd se i).
  Proof.
    intros HZ HB0 HSi Hok. unfold dmrg2_rl, lift in *. cbn [fst snd] in *.
    set (se1 := dmrg2_pair split keig Hs qd se i true) in *.
    assert (Hok1 : sp2_tr_ok (s_tr (fst se1))) by (destruct (tr_updBR (fst se1) (S i)) as [t E]; rewrite E in Hok; exact (sp2_tl _ _ Hok)).
    destruct (dmrg2_pair_sp se i true HZ HSi Hok1) as [H1 EBL]. fold se1 in H1, EBL.
    split; [exact (ZP_updBR (fst se1) i H1 HSi)|].
    cbn [fst]. unfold upd_BR, gBL in *. cbn [s_BL]. rewrite EBL. exact HB0.
  Qed.

  (* trace suffixes (any ring) *)
  Lemma suf2_dmrg2_lr se i : exists new, s_tr (fst (dmrg2_lr split keig Hs qd se i)) = new ++ s_tr (fst se).
  Proof.
    unfold dmrg2_lr, lift, upd_BL, dmrg2_pair. cbv zeta. destruct (keig _ _ _ _ _) as [en A1]. destruct (split _ _ _ _ _ _ _) as [[A0 A1'] qb].
    cbn [fst snd s_tr]. eexists [_; _; _]. reflexivity.
  Qed.
  Lemma suf2_dmrg2_rl se i : exists new, s_tr (fst (dmrg2_rl split keig Hs qd se i)) = new ++ s_tr (fst se).
  Proof.
    unfold dmrg2_rl, lift, upd_BR, dmrg2_pair. cbv zeta. destruct (keig _ _ _ _ _) as [en A1]. destruct (split _ _ _ _ _ _ _) as [[A0 A1'] qb].
    cbn [fst snd s_tr]. eexists [_; _; _]. reflexivity.
  Qed.
  Lemma suf2_dmrg2_sweep st : exists new, s_tr (fst (dmrg2_sweep qr split keig Hs qd L st)) = new ++ s_tr st.
  Proof.
    unfold dmrg2_sweep, lift. cbv zeta. cbn [fst].
    set (se1 := fold_left (dmrg2_lr split keig Hs qd) (seq 0 (L - 2)) (st, k0 R)).
    set (se2 := fold_left (dmrg2_rl split keig Hs qd) (rev (seq 0 (L - 1))) se1).
    destruct (fold_mono (fun se => s_tr (fst se)) (dmrg2_lr split keig Hs qd) suf2_dmrg2_lr (seq 0 (L - 2)) (st, k0 R)) as [n1 E1].
    destruct (fold_mono (fun se => s_tr (fst se)) (dmrg2_rl split keig Hs qd) suf2_dmrg2_rl (rev (seq 0 (L - 1))) se1) as [n2 E2].
    fold se1 in E1. fold se2 in E2. cbn [fst] in E1.
    unfold dmrg_final_qr, qr_right. cbv zeta. destruct (qr _ _ _ _) as [[Q C] qb]. cbn [s_tr].
    rewrite E2, E1. eexists (_ :: n2 ++ n1). cbn [app]. rewrite app_assoc. reflexivity.
  Qed.
  Lemma suf2_dmrg2_loop n : forall st ens, exists new, s_tr (fst (dmrg_loop (dmrg2_sweep qr split keig Hs qd L) n st ens)) = new ++ s_tr st.
  Proof.
    induction n as [|n IH]; intros st ens; cbn [dmrg_loop]; [exists []; reflexivity|].
    destruct (suf2_dmrg2_sweep st) as [n1 E1]. destruct (dmrg2_sweep qr split keig Hs qd L st) as [st' en]. cbn [fst] in E1.
    destruct (IH st' (ens ++ [en])) as [n2 E2]. exists (n2 ++ n1). rewrite E2, E1, app_assoc. reflexivity.
  Qed.

  (* the final QR of a sweep: the single-site lemma, whose contract hypothesis only concerns the head of the trace *)
  Lemma dmrg2_final_sp (st : sw) : ZQi st 0 -> gBL st 0 = env_one -> 1 <= L ->
    sp2_tr_ok (s_tr (dmrg_final_qr qr qd st)) ->
    ZQi (dmrg_final_qr qr qd st) 0 /\ gBL (dmrg_final_qr qr qd st) 0 = env_one.
  Proof.
    intros HZ HB0 HL1 Hok. pose proof HZ as HZu. unfold ZQ in HZu. destruct HZu as (lA & lq & lBL & lBR & HA & HBL & HBR).
    unfold dmrg_final_qr in *.
    pose proof (qr_right_sp R qr qd Hd (length (s_tr st)) (gA st 0) (gq st 0) (gq st 1)) as Hq.
    unfold qr_right in *. cbv zeta in *.
    destruct (qr (length (s_tr st)) (site_flat (site_tr (gA st 0))) (Sweeps.qflat qd (zneg (gq st 1))) (zneg (gq st 0))) as [[Q C] qb0] eqn:Eq.
    cbn [s_tr s_A s_qD s_BL s_BR] in *. destruct Hok as (HcQ & _).
    unfold sp2_call_ok in HcQ. cbn [at_site t_call c_kind c_site c_coef t_envs t_ten t_qs length] in HcQ.
    unfold sp_call_ok in HcQ. cbn [at_site t_call c_kind c_site c_coef t_envs t_ten t_qs length] in HcQ. rewrite Eq in HcQ.
    destruct (Hq (HA 0 ltac:(lia)) HcQ) as (HAq & _ & Hp & Hle).
    set (qb := zneg qb0) in *.
    assert (H01 : length (gq st 0) = 1).
    { destruct (HBL 0 (le_n 0)) as [[_ Hsh] _]. rewrite HB0 in Hsh. destruct (Hsh 0 (HWpos 0 ltac:(lia))) as [E _].
      symmetry. exact E. }
    destruct (len1_single qb ltac:(lia)) as [x Ex].
    split; [|exact HB0].
    unfold ZQ, gq, gA, gBL, gBR in *. cbn [s_A s_qD s_BL s_BR]. rewrite !lset_length. repeat (split; [assumption|]).
    assert (Gq : forall j, nth j (lset (s_qD st) 0 qb) [] = if Nat.eqb j 0 then qb else nth j (s_qD st) [])
      by (intros j; apply Gq_lset; lia).
    split; [|split].
    - intros j Hj. rewrite !Gq. destruct j as [|j].
      + rewrite nth_lset_same by lia. cbn [Nat.eqb]. exact HAq.
      + rewrite nth_lset_other by lia. cbn [Nat.eqb]. apply HA. exact Hj.
    - intros j Hj. assert (j = 0) as -> by lia. rewrite Gq. cbn [Nat.eqb]. rewrite HB0, HW0, Ex. apply env_one_okP.
    - intros j _ Hj. rewrite !Gq. cbn [Nat.eqb]. apply HBR; lia.
  Qed.

  Notation trse := (fun se : sw * R => s_tr (fst se)).
  Lemma dmrg2_sweep_sp (st : sw) : 1 <= L -> ZQi st 0 -> gBL st 0 = env_one ->
    sp2_tr_ok (s_tr (fst (dmrg2_sweep qr split keig Hs qd L st))) ->
    ZQi (fst (dmrg2_sweep qr split keig Hs qd L st)) 0 /\ gBL (fst (dmrg2_sweep qr split keig Hs qd L st)) 0 = env_one.
  Proof.
    intros HL1 HZ HB0 Hok. unfold dmrg2_sweep, lift in *. cbv zeta in *. cbn [fst] in *.
    set (se1 := fold_left (dmrg2_lr split keig Hs qd) (seq 0 (L - 2)) (st, k0 R)) in *.
    destruct (Nat.eq_dec L 1) as [EL1|NL1].
    { (* one site: no pair, only the final QR *)
      unfold se1 in *. clear se1. replace (L - 2) with 0 in * by lia. replace (L - 1) with 0 in * by lia. cbn [seq rev fold_left fst] in *.
      apply dmrg2_final_sp; assumption. }
    assert (HL2 : 2 <= L) by lia.
    replace (L - 1) with (S (L - 2)) in * by lia. rewrite seq_S, rev_app_distr in *. cbn [rev app fold_left Nat.add] in *.
    set (sem := dmrg2_rl split keig Hs qd se1 (L - 2)) in *.
    set (se2 := fold_left (dmrg2_rl split keig Hs qd) (rev (seq 0 (L - 2))) sem) in *.
    assert (Hok2 : sp2_tr_ok (s_tr (fst se2))).
    { revert Hok. generalize (fst se2) as st2. intros st2. unfold dmrg_final_qr, qr_right. cbv zeta.
      destruct (qr _ _ _ _) as [[Q C] qb]. cbn [s_tr]. intros (_ & H). exact H. }
    assert (Hokm : sp2_tr_ok (s_tr (fst sem))).
    { destruct (fold_mono trse (dmrg2_rl split keig Hs qd) suf2_dmrg2_rl (rev (seq 0 (L - 2))) sem) as [new E].
      fold se2 in E. cbn beta in E. rewrite E in Hok2. exact (sp2_tr_ok_suffix _ _ Hok2). }
    assert (Hok1 : sp2_tr_ok (s_tr (fst se1))).
    { destruct (suf2_dmrg2_rl se1 (L - 2)) as [new E]. fold sem in E. rewrite E in Hokm. exact (sp2_tr_ok_suffix _ _ Hokm). }
    assert (H1 : ZD2 (0 + (L - 2)) se1).
    { unfold se1.
      apply (fold_up trse (dmrg2_lr split keig Hs qd) suf2_dmrg2_lr sp2_tr_ok sp2_tr_ok_suffix ZD2 (L - 2) 0 (st, k0 R));
        [split; assumption|exact Hok1|].
      intros i s' Hi HZi Hoki. apply dmrg2_lr_sp; [exact HZi|lia|exact Hoki]. }
    cbn [Nat.add] in H1.
    assert (Hm1 : ZD2 (L - 2) sem).
    { destruct H1 as [HZ1 HB1]. apply dmrg2_rl_spP; [apply ZQ_ZP_l; exact HZ1|exact HB1|lia|exact Hokm]. }
    assert (H2 : ZD2 0 se2).
    { unfold se2.
      apply (fold_down0 trse (dmrg2_rl split keig Hs qd) suf2_dmrg2_rl sp2_tr_ok sp2_tr_ok_suffix ZD2 (L - 2) sem Hm1 Hok2).
      intros i s' Hi [HZi HBi] Hoki. apply dmrg2_rl_spP; [apply ZQ_ZP_r; exact HZi|exact HBi|lia|exact Hoki]. }
    destruct H2 as [HZ2 HB2]. apply dmrg2_final_sp; assumption.
  Qed.

  Lemma dmrg2_loop_sp n : forall st ens, 1 <= L -> ZQi st 0 -> gBL st 0 = env_one ->
    sp2_tr_ok (s_tr (fst (dmrg_loop (dmrg2_sweep qr split keig Hs qd L) n st ens))) ->
    ZQi (fst (dmrg_loop (dmrg2_sweep qr split keig Hs qd L) n st ens)) 0.
  Proof.
    induction n as [|n IH]; intros st ens HL1 HZ HB0 Hok; cbn [dmrg_loop] in *; [exact HZ|].
    pose proof (dmrg2_sweep_sp st HL1 HZ HB0) as Hs1.
    destruct (suf2_dmrg2_loop n (fst (dmrg2_sweep qr split keig Hs qd L st)) (ens ++ [snd (dmrg2_sweep qr split keig Hs qd L st)])) as [new E].
    destruct (dmrg2_sweep qr split keig Hs qd L st) as [st' en]. cbn [fst snd] in *.
    rewrite E in Hok. destruct (Hs1 (sp2_tr_ok_suffix _ _ Hok)) as [HZ' HB'].
    rewrite <- E in Hok. apply IH; assumption.
  Qed.
End Sweep2.
