(* C08/C10 — induction over whole runs of the sweep skeletons: the prologue establishes the mixed-canonical invariant,
   every loop body preserves it (relative to the oracle contracts on the calls the run actually issues, read off the
   emitted trace), hence the statements about the returned state and the reported numbers. *)
From Coq Require Import ZArith Arith List Lia Ring Field Setoid Bool.
From PT Require Import Base.Scalar Base.Field Base.BigSum Base.Mx Model.Tensor Model.Operation Model.Sweeps
  Proofs.OperationSums Proofs.OperationEntries Proofs.OperationChains Proofs.OperationLocal Proofs.OperationUniform
  Proofs.SweepsCanon Proofs.SweepsFlow Proofs.SweepsSched Proofs.SweepsLocal Proofs.SweepsGauge Proofs.SweepsBond Proofs.SweepsInv.
Import ListNotations.

(* ---------------- generic loop principles ---------------- *)
Section Loops.
  Context {S T : Type}.
  Variable tr_of : S -> list T.
  Variable body : S -> nat -> S.
  Hypothesis mono : forall s i, exists new, tr_of (body s i) = new ++ tr_of s.

  Lemma fold_mono l : forall s, exists new, tr_of (fold_left body l s) = new ++ tr_of s.
  Proof.
    induction l as [|i l IH]; intros s; cbn [fold_left]; [exists []; reflexivity|].
    destruct (IH (body s i)) as [n1 E1]. destruct (mono s i) as [n2 E2]. exists (n1 ++ n2). rewrite E1, E2, app_assoc. reflexivity.
  Qed.

  Variable ok : list T -> Prop.
  Hypothesis ok_suffix : forall new old, ok (new ++ old) -> ok old.

  Lemma fold_up (P : nat -> S -> Prop) n : forall a s,
    P a s -> ok (tr_of (fold_left body (seq a n) s)) ->
    (forall i s', a <= i < a + n -> P i s' -> ok (tr_of (body s' i)) -> P (Datatypes.S i) (body s' i)) ->
    P (a + n) (fold_left body (seq a n) s).
  Proof.
    induction n as [|n IH]; intros a s HP Hok Hstep; cbn [seq fold_left] in *; [rewrite Nat.add_0_r; exact HP|].
    replace (a + Datatypes.S n) with (Datatypes.S a + n) by lia. apply IH.
    - apply Hstep; [lia|exact HP|]. destruct (fold_mono (seq (Datatypes.S a) n) (body s a)) as [new E]. rewrite E in Hok. exact (ok_suffix _ _ Hok).
    - exact Hok.
    - intros i s' Hi. apply Hstep. lia.
  Qed.

  (* indices a+n-1, ..., a; the body at index i takes the centre from i to i-1 *)
  Lemma fold_down (P : nat -> S -> Prop) n : forall a s,
    P (a + n) s -> ok (tr_of (fold_left body (rev (seq (Datatypes.S a) n)) s)) ->
    (forall i s', a < i <= a + n -> P i s' -> ok (tr_of (body s' i)) -> P (i - 1) (body s' i)) ->
    P a (fold_left body (rev (seq (Datatypes.S a) n)) s).
  Proof.
    induction n as [|n IH]; intros a s HP Hok Hstep; [cbn [seq rev fold_left]; rewrite Nat.add_0_r in HP; exact HP|].
    rewrite seq_S, rev_app_distr in *. cbn [rev app fold_left] in *. apply IH.
    - replace (a + n) with (Datatypes.S a + n - 1) by lia. apply Hstep; [lia|replace (Datatypes.S a + n) with (a + Datatypes.S n) by lia; exact HP|].
      destruct (fold_mono (rev (seq (Datatypes.S a) n)) (body s (Datatypes.S a + n))) as [new E]. rewrite E in Hok. exact (ok_suffix _ _ Hok).
    - exact Hok.
    - intros i s' Hi. apply Hstep. lia.
  Qed.
End Loops.

(* ---------------- trace suffixes of the model's building blocks ---------------- *)
Section Suffix.
  Variable R : cring.
  Variable qr : nat -> mx R -> list BinNums.Z -> list BinNums.Z -> mx R * mx R * list BinNums.Z.
  Variable kexp : nat -> env R -> env R -> osite R -> site R -> R -> site R.
  Variable kexp0 : nat -> env R -> env R -> mx R -> R -> mx R.
  Variable keig : nat -> env R -> env R -> osite R -> site R -> R * site R.
  Variables (Hs : list (osite R)) (qd : list BinNums.Z) (dt hdt : R).

  Lemma suf_dmrg1_lr se i : exists new, s_tr (fst (dmrg1_lr qr keig Hs qd se i)) = new ++ s_tr (fst se).
  Proof.
    unfold dmrg1_lr, lift, upd_BL, dmrg_qr_left, qr_left, dmrg_opt. cbv zeta. destruct (keig _ _ _ _ _) as [en A1]. cbn [fst snd s_tr].
    destruct (qr _ _ _ _) as [[Q C] qb]. cbn [s_tr]. eexists [_; _; _]. reflexivity.
  Qed.
  Lemma suf_dmrg1_rl se i : exists new, s_tr (fst (dmrg1_rl qr keig Hs qd se i)) = new ++ s_tr (fst se).
  Proof.
    unfold dmrg1_rl, lift, upd_BR, dmrg_qr_right, qr_right, dmrg_opt. cbv zeta. destruct (keig _ _ _ _ _) as [en A1]. cbn [fst snd s_tr].
    destruct (qr _ _ _ _) as [[Q C] qb]. cbn [s_tr]. eexists [_; _; _]. reflexivity.
  Qed.
  Lemma suf_tdvp1_lr st i : exists new, s_tr (tdvp1_lr qr kexp kexp0 Hs qd dt hdt st i) = new ++ s_tr st.
  Proof. unfold tdvp1_lr, qr_left. cbv zeta. destruct (qr _ _ _ _) as [[Q C] qb]. cbn [s_tr]. eexists [_; _; _; _]. reflexivity. Qed.
  Lemma suf_tdvp1_rl st i : exists new, s_tr (tdvp1_rl qr kexp kexp0 Hs qd dt hdt st i) = new ++ s_tr st.
  Proof. unfold tdvp1_rl, qr_right. cbv zeta. destruct (qr _ _ _ _) as [[Q C] qb]. cbn [s_tr]. eexists [_; _; _; _]. reflexivity. Qed.
End Suffix.

(* ---------------- the prologue establishes the invariant ---------------- *)
Section Init.
  Variable R : cring.
  Add Ring Rring_sweeps_run : (k_rt R).
  Variable d : nat.
  Hypothesis Hd : 0 < d.

  Lemma rblocks_length (As : list (site R)) : forall Ws, length As = length Ws -> length (rblocks As Ws) = S (length As).
  Proof.
    induction As as [|A As IH]; intros [|W Ws] Hl; cbn [length] in Hl; try discriminate; [reflexivity|].
    cbn [rblocks length]. rewrite IH by lia. reflexivity.
  Qed.

  Lemma right_iso_norm (X : site R) Dr : site_ok d 1 Dr X -> right_iso X -> site_dot X X = k1 R.
  Proof.
    intros HX Hiso. destruct (site_ok_sdl _ _ _ _ _ Hd HX) as (E1 & E2 & E3).
    specialize (Hiso 0 0). rewrite E1, E2, E3 in Hiso. cbn [Nat.eqb] in Hiso. rewrite <- Hiso by lia.
    unfold site_dot. rewrite E1, E2, E3. apply sumn_ext; intros s _. cbn [sumn].
    transitivity (sumn Dr (fun c => kmul R (kconj R (get (sel X s) 0 c)) (get (sel X s) 0 c))); [ring|].
    apply sumn_ext; intros c _. ring.
  Qed.

  Theorem Z_init (orth_right : mps R -> mps R * R) (H : mpo R) psi st nrm DsW Ds0 :
    sweep_init orth_right H psi = Some (st, nrm) ->
    mpo_shapeb d DsW (o_A H) = true ->
    mps_shapeb d Ds0 (m_A (fst (orth_right psi))) = true ->
    Forall right_iso (m_A (fst (orth_right psi))) ->
    Z R (o_A H) d st 0 /\ NN R (o_A H) d (s_A st) = k1 R /\ s_tr st = [] /\ nrm = snd (orth_right psi) /\
    ochain_ok (repeat d (length (o_A H))) DsW (o_A H) /\ hd 0 DsW = 1.
  Proof.
    intros Hinit HH Hp Hiso. pose proof (sweep_init_blocks R orth_right H psi st nrm Hinit) as (EA & En & GL & GR).
    pose proof (sweep_init_trace R orth_right H psi st nrm Hinit) as [Etr _].
    apply mpo_shapeb_ok in HH. destruct HH as (_ & _ & HWs & HhW).
    apply mps_shapeb_ok in Hp. destruct Hp as (_ & Hne & Hc & Hh0).
    assert (Hlen : length (s_A st) = length (o_A H)).
    { unfold sweep_init in Hinit. destruct (negb _) eqn:El; [discriminate|]. apply negb_false_iff, Nat.eqb_eq in El.
      destruct (orth_right psi) as [psi1 n1]. cbn [fst] in *.
      destruct (compute_right_operator_blocks psi1 H) as [BR|] eqn:EB; [|discriminate].
      unfold compute_right_operator_blocks, compute_right_operator_blocks_sites in EB.
      destruct (negb (Nat.eqb (length (m_A psi1)) (length (o_A H)))) eqn:E2; [discriminate|].
      apply negb_false_iff, Nat.eqb_eq in E2. rewrite EA. exact E2. }
    assert (HlBL : length (s_BL st) = length (o_A H) /\ length (s_BR st) = length (o_A H)).
    { unfold sweep_init in Hinit. destruct (negb _) eqn:El; [discriminate|].
      destruct (orth_right psi) as [psi1 n1]. cbn [fst] in *.
      destruct (compute_right_operator_blocks psi1 H) as [BR|] eqn:EB; [|discriminate].
      destruct (forallb _ _); [|discriminate]. injection Hinit as <- _. cbn [s_BL s_BR s_A] in *.
      unfold compute_right_operator_blocks, compute_right_operator_blocks_sites in EB.
      destruct (negb (Nat.eqb (length (m_A psi1)) (length (o_A H)))) eqn:E2; [discriminate|].
      apply negb_false_iff, Nat.eqb_eq in E2.
      destruct (m_A psi1) as [|A As]; [discriminate|]. destruct (o_A H) as [|W Ws]; [discriminate|]. injection EB as <-.
      cbn [length] in *. rewrite repeat_length, rblocks_length by lia. split; lia. }
    rewrite <- EA in Hc, Hiso, Hne. destruct (s_A st) as [|X Ar] eqn:EAs; [congruence|].
    cbn [length repeat] in Hc. apply chain_ok_cons_inv in Hc.
    destruct Hc as (d0 & ds' & Dl & Dr & Ds' & E1 & -> & _ & HX & HAr). injection E1 as <- <-. cbn [hd] in Hh0. subst Dl.
    assert (HZ : Z R (o_A H) d st 0).
    { exists [], X, Ar, [1], Dr, Ds'. cbn [app length repeat last hd chainx_ok].
      split; [exact EAs|]. split; [reflexivity|]. split; [rewrite <- Hlen; cbn [length]; lia|]. split; [exact I|]. split; [reflexivity|].
      split; [exact HX|]. split; [exact HAr|]. split; [constructor|]. split; [exact (Forall_inv_tail Hiso)|].
      split. { intros j Hj. assert (j = 0) by lia. subst j. rewrite GL. reflexivity. }
      split. { intros j Hj. cbn [Nat.add]. rewrite GR by (cbn [length]; lia). reflexivity. }
      exact HlBL. }
    split; [exact HZ|].
    destruct (Z_center R (o_A H) d DsW Hd HWs HhW st 0 HZ) as (Dl' & Dr' & HX' & N0 & _).
    assert (GA : gA st 0 = X) by (unfold gA; rewrite EAs; reflexivity). rewrite GA in *.
    split; [|auto].
    rewrite <- EAs, N0. apply (right_iso_norm X Dr HX). exact (Forall_inv Hiso).
  Qed.
End Init.

(* ---------------- facts read off the invariant ---------------- *)
Section ZFacts.
  Variable R : cring.
  Variable Hs : list (osite R).
  Variable d : nat.
  Lemma Z_len (st : sw R) i : Z R Hs d st i -> length (s_A st) = length Hs /\ i < length Hs /\ length (s_BL st) = length Hs /\ length (s_BR st) = length Hs.
  Proof.
    intros (Al & X & Ar & DsAl & Dar & DsAr & EA & Hlen & HL & _ & _ & _ & _ & _ & _ & _ & _ & lBL & lBR).
    rewrite EA, app_length. cbn [length]. repeat split; lia.
  Qed.
End ZFacts.

(* ======================= DMRG, single-site ======================= *)
Section DMRG.
  Variable F : ofield.
  Add Field Ffield_sweeps_run : (f_ft F).
  Notation K := (Cx F).
  Add Ring Kring_sweeps_run : (k_rt (Cx F)).
  Variable qr : nat -> mx K -> list BinNums.Z -> list BinNums.Z -> mx K * mx K * list BinNums.Z.
  Variable keig : nat -> env K -> env K -> osite K -> site K -> K * site K.
  Variable Hs : list (osite K).
  Variable qd : list BinNums.Z.
  Variable d : nat.
  Variable DsW : list nat.
  Hypothesis Hd : 0 < d.
  Hypothesis HWs : ochain_ok (repeat d (length Hs)) DsW Hs.
  Hypothesis HhW : hd 0 DsW = 1.
  Notation L := (length Hs).
  Notation Zi := (Z K Hs d).
  Notation NNi := (NN K Hs d).
  Notation EEi := (EE K Hs d).
  (* a property of energies of normalised states (instantiated with "at least lam" for an operator bounded below by lam) *)
  Variable LB : K -> Prop.
  Hypothesis HLB : forall A : list (site K), NNi A = k1 K -> LB (EEi A).

  (* Ritz contract of one local eigensolver call *)
  Definition keig_ok (BL BR : env K) (W : osite K) (A : site K) (ans : K * site K) : Prop :=
    (forall Dl Dr, site_ok d Dl Dr A -> site_ok d Dl Dr (snd ans)) /\
    site_dot (snd ans) (snd ans) = k1 K /\
    fst ans = site_dot (snd ans) (alh K BL BR W (snd ans)) /\
    fle F (fmul F (cre (fst ans)) (cre (site_dot A A))) (cre (site_dot A (alh K BL BR W A))).
  (* contracts of the calls recorded in a trace (positions = indices in program order) *)
  Definition dmrg_call_ok (p : nat) (t : tcall K) : Prop :=
    match c_kind (t_call t), t_envs t, t_ten t, t_qs t with
    | EIG, [BL; BR], [A], _ => keig_ok BL BR (nth (c_site (t_call t)) Hs []) A (keig p BL BR (nth (c_site (t_call t)) Hs []) A)
    | QR, _, [[M]], [q0; q1] => qr_ok M (qr p M q0 q1)
    | _, _, _, _ => True
    end.
  Fixpoint rtr_ok (tr : list (tcall K)) : Prop :=
    match tr with [] => True | t :: rest => dmrg_call_ok (length rest) t /\ rtr_ok rest end.
  Lemma rtr_ok_suffix new old : rtr_ok (new ++ old) -> rtr_ok old.
  Proof. induction new as [|t new IH]; [exact (fun H => H)|]. cbn [app rtr_ok]. intros [_ H]. exact (IH H). Qed.

  Lemma cre_one : cre (k1 K) = f1 F. Proof. reflexivity. Qed.

  (* ---- one local optimisation ---- *)
  Lemma opt_step (se : sw K * K) i e_in :
    Zi (fst se) i -> NNi (s_A (fst se)) = k1 K -> fle F (cre (EEi (s_A (fst se)))) e_in ->
    rtr_ok (s_tr (fst (dmrg_opt keig Hs se i))) ->
    let se' := dmrg_opt keig Hs se i in
    Zi (fst se') i /\ NNi (s_A (fst se')) = k1 K /\ snd se' = EEi (s_A (fst se')) /\
    LB (snd se') /\ fle F (cre (snd se')) e_in.
  Proof.
    intros HZ HN He Hok. unfold dmrg_opt in *. cbv zeta in *. destruct se as [st en0]. cbn [fst snd] in *.
    destruct (keig (length (s_tr st)) (gBL st i) (gBR st i) (nth i Hs []) (gA st i)) as [en A1] eqn:Ek. cbn [fst snd s_tr] in *.
    destruct Hok as [Hc _]. unfold dmrg_call_ok in Hc. cbn [t_call c_kind c_site t_envs t_ten t_qs] in Hc. rewrite Ek in Hc.
    destruct Hc as (Hsh & Hn1 & Hval & Hritz). cbn [fst snd] in *.
    destruct (Z_center K Hs d DsW Hd HWs HhW st i HZ) as (Dl & Dr & HX & N0 & E0 & Hrep).
    destruct (Hrep A1 (mksw (lset (s_A st) i A1) (s_qD st) (s_BL st) (s_BR st)
                 (mkt (mkcall EIG i 0) [gBL st i; gBR st i] [gA st i] [] :: s_tr st)) (Hsh _ _ HX) eq_refl eq_refl eq_refl) as (HZ' & N1 & E1).
    cbn [s_A] in *. split; [exact HZ'|]. rewrite N1, E1. split; [exact Hn1|]. split; [exact Hval|].
    split.
    - rewrite Hval, <- E1. apply HLB. rewrite N1. exact Hn1.
    - rewrite <- N0, HN, cre_one, <- E0 in Hritz.
      eapply fle_trans; [|exact He]. eapply fle_eq; [| reflexivity | exact Hritz]. ring.
  Qed.

  (* ---- the gauge moves ---- *)
  Lemma lr_gauge (st : sw K) i : Zi st i -> S i < L ->
    rtr_ok (s_tr (upd_BL Hs (dmrg_qr_left qr qd st i) i)) ->
    let st' := upd_BL Hs (dmrg_qr_left qr qd st i) i in
    Zi st' (S i) /\ NNi (s_A st') = NNi (s_A st) /\ EEi (s_A st') = EEi (s_A st).
  Proof.
    intros HZ HSi Hok. destruct (Z_len K Hs d st i HZ) as (Hl & Hi & _ & _).
    unfold upd_BL, dmrg_qr_left, qr_left in *. cbv zeta in *.
    destruct (qr (length (s_tr st)) (site_flat (gA st i)) (qflat qd (gq st i)) (gq st (S i))) as [[Q C] qb] eqn:Eq.
    cbn [s_tr s_A s_BL s_BR s_qD] in *. destruct Hok as (_ & Hc & _).
    unfold dmrg_call_ok in Hc. cbn [at_site t_call c_kind c_site t_envs t_ten t_qs] in Hc. rewrite Eq in Hc.
    destruct (Z_move_right K Hs d DsW Hd HWs HhW st i Q C qb HZ HSi Hc) as (N0 & E0 & Hmv).
    set (Aq := site_unflat (length (gA st i)) (sdl (gA st i)) Q) in *.
    assert (GAq : gA (mksw (lset (lset (s_A st) i Aq) (S i) (lmul_site C (gA st (S i)))) (lset (s_qD st) (S i) qb) (s_BL st) (s_BR st)
                      (at_site i (mkt (mkcall QR 0 0) [] [[site_flat (gA st i)]] [qflat qd (gq st i); gq st (S i)]) :: s_tr st)) i = Aq).
    { unfold gA. cbn [s_A]. rewrite nth_lset_other by lia. apply nth_lset_same. lia. }
    match goal with |- Z _ _ _ ?s _ /\ _ =>
      assert (EBL : s_BL s = lset (s_BL st) (S i) (contraction_operator_step_left Aq Aq (nth i Hs []) (gBL st i)))
        by (cbn [s_BL]; rewrite GAq; reflexivity);
      destruct (Hmv C s eq_refl eq_refl eq_refl EBL eq_refl) as (HZ' & N1 & E1) end.
    cbn [s_A] in N1, E1. split; [exact HZ'|]. rewrite N1, E1, N0, E0. split; reflexivity.
  Qed.

  Lemma rl_gauge (st : sw K) i : Zi st i -> 0 < i ->
    rtr_ok (s_tr (upd_BR Hs (dmrg_qr_right qr qd st i) i)) ->
    let st' := upd_BR Hs (dmrg_qr_right qr qd st i) i in
    Zi st' (i - 1) /\ NNi (s_A st') = NNi (s_A st) /\ EEi (s_A st') = EEi (s_A st).
  Proof.
    intros HZ Hi0 Hok. destruct (Z_len K Hs d st i HZ) as (Hl & Hi & _ & _).
    unfold upd_BR, dmrg_qr_right, qr_right in *. cbv zeta in *.
    destruct (qr (length (s_tr st)) (site_flat (site_tr (gA st i))) (qflat qd (zneg (gq st (S i)))) (zneg (gq st i))) as [[Q C] qb] eqn:Eq.
    cbn [s_tr s_A s_BL s_BR s_qD] in *. destruct Hok as (_ & Hc & _).
    unfold dmrg_call_ok in Hc. cbn [at_site t_call c_kind c_site t_envs t_ten t_qs] in Hc. rewrite Eq in Hc.
    destruct (Z_move_left K Hs d DsW Hd HWs HhW st i Q C qb HZ Hi0 Hc) as (N0 & E0 & Hmv).
    set (Aq := site_tr (site_unflat (length (site_tr (gA st i))) (sdl (site_tr (gA st i))) Q)) in *.
    assert (GAq : gA (mksw (lset (lset (s_A st) i Aq) (i - 1) (rmul_site (gA st (i - 1)) (trmx C))) (lset (s_qD st) i (zneg qb)) (s_BL st) (s_BR st)
                      (at_site i (mkt (mkcall QR 0 0) [] [[site_flat (site_tr (gA st i))]] [qflat qd (zneg (gq st (S i))); zneg (gq st i)]) :: s_tr st)) i = Aq).
    { unfold gA. cbn [s_A]. rewrite nth_lset_other by lia. apply nth_lset_same. lia. }
    match goal with |- Z _ _ _ ?s _ /\ _ =>
      assert (EBR : s_BR s = lset (s_BR st) (i - 1) (contraction_operator_step_right Aq Aq (nth i Hs []) (gBR st i)))
        by (cbn [s_BR]; rewrite GAq; reflexivity);
      destruct (Hmv (trmx C) s eq_refl eq_refl eq_refl eq_refl EBR) as (HZ' & N1 & E1) end.
    cbn [s_A] in N1, E1. split; [exact HZ'|]. rewrite N1, E1, N0, E0. split; reflexivity.
  Qed.

  (* ---- the final normalising QR of a sweep ---- *)
  Lemma final_step (st : sw K) : Zi st 0 -> NNi (s_A st) = k1 K ->
    rtr_ok (s_tr (dmrg_final_qr qr qd st)) ->
    let st' := dmrg_final_qr qr qd st in
    Zi st' 0 /\ NNi (s_A st') = k1 K /\ EEi (s_A st') = EEi (s_A st).
  Proof.
    intros HZ HN Hok. unfold dmrg_final_qr, qr_right in *. cbv zeta in *.
    destruct (qr (length (s_tr st)) (site_flat (site_tr (gA st 0))) (qflat qd (zneg (gq st 1))) (zneg (gq st 0))) as [[Q C] qb] eqn:Eq.
    cbn [s_tr s_A s_BL s_BR s_qD] in *. destruct Hok as (Hc & _).
    unfold dmrg_call_ok in Hc. cbn [at_site t_call c_kind c_site t_envs t_ten t_qs] in Hc. rewrite Eq in Hc.
    pose proof HZ as HZ0.
    destruct HZ as (Al & X & Ar & DsAl & Dar & DsAr & EA & Hlen & HL & HAl & Hh & HX & HAr & Hli & Hri & HBL & HBR & lBL & lBR).
    destruct Al; [|discriminate]. cbn [app length repeat] in *.
    apply chainx_ok_nil_inv in HAl. destruct HAl as [_ [D ->]]. cbn [hd last] in *. subst D.
    assert (GA : gA st 0 = X) by (unfold gA; rewrite EA; reflexivity). rewrite GA in *.
    destruct (qr_right_site K d 1 Dar X Q C qb Hd HX Hc) as (HAq & HcC & HisoAq & Hent).
    set (Aq := site_tr (site_unflat (length (site_tr X)) (sdl (site_tr X)) Q)) in *.
    destruct Hc as (q1 & q2 & q3 & q4 & q5 & _).
    destruct (site_flat_shape K d Dar 1 (site_tr X) Hd (site_tr_ok K d 1 Dar X HX)) as [_ S2]. rewrite S2 in q5.
    assert (Hk : nr C = 1) by lia. rewrite Hk in *.
    destruct (Z_center K Hs d DsW Hd HWs HhW st 0 HZ0) as (Dl & Dr & HX' & N0 & E0 & Hrep). rewrite GA in *.
    destruct (site_ok_unique K d _ _ _ _ X Hd HX HX') as [<- <-].
    match goal with |- Z _ _ _ ?s _ /\ _ => destruct (Hrep Aq s HAq eq_refl eq_refl eq_refl) as (HZ' & N1 & E1) end.
    cbn [s_A] in N1, E1. split; [exact HZ'|]. clear HZ'. rewrite EA in N1, E1, HN |- *. cbn [lset] in *.
    assert (Hn1 : site_dot Aq Aq = k1 K) by (apply (right_iso_norm K d Hd Aq Dar); assumption).
    split; [rewrite N1; exact Hn1|].
    set (r := get (trmx C) 0 0).
    assert (Hamp : forall w, In w (words d L) -> amp (X :: Ar) w = kmul K r (amp (Aq :: Ar) w)).
    { intros w Hw. rewrite <- gwords_repeat, <- HL in Hw. change (In w (gwords (d :: repeat d (length Ar)))) in Hw.
      apply in_gwords_cons in Hw. destruct Hw as (s & w' & -> & Hs1 & Hw').
      assert (C1 : chain_ok (d :: repeat d (length Ar)) (1 :: Dar :: DsAr) (X :: Ar)) by (apply chain_ok_cons; assumption).
      assert (C2 : chain_ok (d :: repeat d (length Ar)) (1 :: Dar :: DsAr) (Aq :: Ar)) by (apply chain_ok_cons; assumption).
      rewrite !amp_cvec. rewrite (cvec_cons K d (repeat d (length Ar)) 1 Dar DsAr X Ar s w' 0 C1 Hs1 Hw' ltac:(lia)).
      rewrite (cvec_cons K d (repeat d (length Ar)) 1 Dar DsAr Aq Ar s w' 0 C2 Hs1 Hw' ltac:(lia)).
      rewrite <- sumn_scal_l. apply sumn_ext; intros c Hc. rewrite Hent by (try assumption; lia). cbn [sumn]. unfold r. ring. }
    assert (HNs : NNi (X :: Ar) = kmul K (kmul K (kconj K r) r) (NNi (Aq :: Ar))).
    { unfold NN, dnorm2. rewrite <- suml_scal_l. apply suml_ext; intros w Hw. rewrite (Hamp w Hw), kconj_mul. ring. }
    assert (HEs : EEi (X :: Ar) = kmul K (kmul K (kconj K r) r) (EEi (Aq :: Ar))).
    { unfold EE, denergy. rewrite <- suml_scal_l. apply suml_ext; intros w Hw. rewrite <- suml_scal_l. apply suml_ext; intros w' Hw'.
      rewrite (Hamp w Hw), (Hamp w' Hw'), kconj_mul. ring. }
    rewrite HNs, N1, Hn1 in HN. rewrite HEs.
    replace (kmul K (kconj K r) r) with (k1 K) by (rewrite <- HN; ring). ring.
  Qed.

  (* ---- loop bodies ---- *)
  Definition Pre (e_in : F) (i : nat) (se : sw K * K) : Prop :=
    Zi (fst se) i /\ NNi (s_A (fst se)) = k1 K /\ fle F (cre (EEi (s_A (fst se)))) e_in.
  Definition PP (e_in : F) (i : nat) (se : sw K * K) : Prop :=
    Zi (fst se) i /\ NNi (s_A (fst se)) = k1 K /\ snd se = EEi (s_A (fst se)) /\ LB (snd se) /\ fle F (cre (snd se)) e_in.
  Lemma PP_Pre e_in i se : PP e_in i se -> Pre e_in i se.
  Proof. intros (H1 & H2 & H3 & _ & H5). split; [exact H1|]. split; [exact H2|]. rewrite <- H3. exact H5. Qed.

  Lemma lr_body e_in se i : Pre e_in i se -> S i < L ->
    rtr_ok (s_tr (fst (dmrg1_lr qr keig Hs qd se i))) -> PP e_in (S i) (dmrg1_lr qr keig Hs qd se i).
  Proof.
    intros (HZ & HN & He) HSi Hok. unfold dmrg1_lr, lift in *. cbn [fst snd] in *.
    assert (Hok1 : rtr_ok (s_tr (fst (dmrg_opt keig Hs se i)))).
    { revert Hok. generalize (fst (dmrg_opt keig Hs se i)) as st1. intros st1.
      unfold upd_BL, dmrg_qr_left, qr_left. cbv zeta. destruct (qr _ _ _ _) as [[Q C] qb]. cbn [s_tr]. intros (_ & _ & H). exact H. }
    destruct (opt_step se i e_in HZ HN He Hok1) as (HZ1 & HN1 & Hs1 & Hl1 & He1).
    destruct (lr_gauge _ i HZ1 HSi Hok) as (HZ2 & HN2 & HE2).
    unfold PP. cbn [fst snd]. split; [exact HZ2|]. split; [rewrite HN2; exact HN1|]. split; [rewrite HE2; exact Hs1|]. split; assumption.
  Qed.
  Lemma rl_body e_in se i : Pre e_in i se -> 0 < i ->
    rtr_ok (s_tr (fst (dmrg1_rl qr keig Hs qd se i))) -> PP e_in (i - 1) (dmrg1_rl qr keig Hs qd se i).
  Proof.
    intros (HZ & HN & He) Hi Hok. unfold dmrg1_rl, lift in *. cbn [fst snd] in *.
    assert (Hok1 : rtr_ok (s_tr (fst (dmrg_opt keig Hs se i)))).
    { revert Hok. generalize (fst (dmrg_opt keig Hs se i)) as st1. intros st1.
      unfold upd_BR, dmrg_qr_right, qr_right. cbv zeta. destruct (qr _ _ _ _) as [[Q C] qb]. cbn [s_tr]. intros (_ & _ & H). exact H. }
    destruct (opt_step se i e_in HZ HN He Hok1) as (HZ1 & HN1 & Hs1 & Hl1 & He1).
    destruct (rl_gauge _ i HZ1 Hi Hok) as (HZ2 & HN2 & HE2).
    unfold PP. cbn [fst snd]. split; [exact HZ2|]. split; [rewrite HN2; exact HN1|]. split; [rewrite HE2; exact Hs1|]. split; assumption.
  Qed.

  (* ---- one sweep (L >= 2) ---- *)
  Lemma sweep_step (st : sw K) : 2 <= L -> Zi st 0 -> NNi (s_A st) = k1 K ->
    rtr_ok (s_tr (fst (dmrg1_sweep qr keig Hs qd L st))) ->
    PP (cre (EEi (s_A st))) 0 (dmrg1_sweep qr keig Hs qd L st).
  Proof.
    intros HL2 HZ HN Hok. set (e_in := cre (EEi (s_A st))). unfold dmrg1_sweep, lift in *. cbv zeta in *. cbn [fst snd] in *.
    set (se1 := fold_left (dmrg1_lr qr keig Hs qd) (seq 0 (L - 1)) (st, k0 K)) in *.
    set (se2 := fold_left (dmrg1_rl qr keig Hs qd) (rev (seq 1 (L - 1))) se1) in *.
    assert (Hok2 : rtr_ok (s_tr (fst se2))).
    { revert Hok. generalize (fst se2) as st2. intros st2. unfold dmrg_final_qr, qr_right. cbv zeta.
      destruct (qr _ _ _ _) as [[Q C] qb]. cbn [s_tr]. intros (_ & H). exact H. }
    assert (Hok1 : rtr_ok (s_tr (fst se1))).
    { destruct (fold_mono (fun se => s_tr (fst se)) (dmrg1_rl qr keig Hs qd) (suf_dmrg1_rl K qr keig Hs qd) (rev (seq 1 (L - 1))) se1) as [new E].
      fold se2 in E. rewrite E in Hok2. exact (rtr_ok_suffix _ _ Hok2). }
    (* left-to-right *)
    assert (H1 : PP e_in (L - 1) se1).
    { assert (G : (Pre e_in (0 + (L - 1)) se1) /\ (0 < 0 + (L - 1) -> PP e_in (0 + (L - 1)) se1)).
      { unfold se1.
        apply (fold_up (fun se => s_tr (fst se)) (dmrg1_lr qr keig Hs qd) (suf_dmrg1_lr K qr keig Hs qd) rtr_ok rtr_ok_suffix
                 (fun i se => Pre e_in i se /\ (0 < i -> PP e_in i se)) (L - 1) 0 (st, k0 K)).
        - split; [|intros; lia]. split; [exact HZ|]. split; [exact HN|]. apply fle_refl.
        - exact Hok1.
        - intros i s' Hi [Hpre _] Hoki. pose proof (lr_body e_in s' i Hpre ltac:(lia) Hoki) as Hpp.
          split; [apply PP_Pre; exact Hpp|intros _; exact Hpp]. }
      cbn [Nat.add] in G. apply G. lia. }
    (* right-to-left *)
    assert (H2 : PP e_in 0 se2).
    { unfold se2.
      apply (fold_down (fun se => s_tr (fst se)) (dmrg1_rl qr keig Hs qd) (suf_dmrg1_rl K qr keig Hs qd) rtr_ok rtr_ok_suffix
               (fun i se => PP e_in i se) (L - 1) 0 se1).
      - exact H1.
      - exact Hok2.
      - intros i s' Hi Hpp Hoki. apply (rl_body e_in s' i (PP_Pre _ _ _ Hpp) ltac:(lia) Hoki). }
    destruct H2 as (HZ2 & HN2 & Hs2 & Hl2 & He2).
    destruct (final_step (fst se2) HZ2 HN2 Hok) as (HZ3 & HN3 & HE3).
    unfold PP. cbn [fst snd]. split; [exact HZ3|]. split; [exact HN3|]. split; [rewrite HE3; exact Hs2|]. split; assumption.
  Qed.

  (* ---- all sweeps ---- *)
  Fixpoint noninc (l : list K) : Prop :=
    match l with a :: ((b :: _) as t) => fle F (cre b) (cre a) /\ noninc t | _ => True end.
  Lemma noninc_snoc (l : list K) e : noninc l -> (l = [] \/ fle F (cre e) (cre (last l (k0 K)))) -> noninc (l ++ [e]).
  Proof.
    induction l as [|a [|b t] IH]; intros Hn Hl.
    - exact I.
    - destruct Hl as [Hl|Hl]; [discriminate|]. cbn [app noninc last] in *. auto.
    - destruct Hn as [Hab Hn]. change (fle F (cre b) (cre a) /\ noninc ((b :: t) ++ [e])). split; [exact Hab|].
      apply IH; [exact Hn|]. right. destruct Hl as [Hl|Hl]; [discriminate|exact Hl].
  Qed.
  Definition Good (e0 : F) (st : sw K) (ens : list K) : Prop :=
    fle F (cre (EEi (s_A st))) e0 /\ Forall (fun e => LB e /\ fle F (cre e) e0) ens /\ noninc ens /\
    (ens <> [] -> last ens (k0 K) = EEi (s_A st)).

  Lemma suf_dmrg1_sweep st : exists new, s_tr (fst (dmrg1_sweep qr keig Hs qd L st)) = new ++ s_tr st.
  Proof.
    unfold dmrg1_sweep, lift. cbv zeta. cbn [fst].
    set (se1 := fold_left (dmrg1_lr qr keig Hs qd) (seq 0 (L - 1)) (st, k0 K)).
    set (se2 := fold_left (dmrg1_rl qr keig Hs qd) (rev (seq 1 (L - 1))) se1).
    destruct (fold_mono (fun se => s_tr (fst se)) (dmrg1_lr qr keig Hs qd) (suf_dmrg1_lr K qr keig Hs qd) (seq 0 (L - 1)) (st, k0 K)) as [n1 E1].
    destruct (fold_mono (fun se => s_tr (fst se)) (dmrg1_rl qr keig Hs qd) (suf_dmrg1_rl K qr keig Hs qd) (rev (seq 1 (L - 1))) se1) as [n2 E2].
    fold se1 in E1. fold se2 in E2. cbn [fst] in E1.
    unfold dmrg_final_qr, qr_right. cbv zeta. destruct (qr _ _ _ _) as [[Q C] qb]. cbn [s_tr].
    rewrite E2, E1. eexists (_ :: n2 ++ n1). cbn [app]. rewrite app_assoc. reflexivity.
  Qed.
  Lemma suf_dmrg_loop n : forall st ens, exists new, s_tr (fst (dmrg_loop (dmrg1_sweep qr keig Hs qd L) n st ens)) = new ++ s_tr st.
  Proof.
    induction n as [|n IH]; intros st ens; cbn [dmrg_loop]; [exists []; reflexivity|].
    destruct (suf_dmrg1_sweep st) as [n1 E1]. destruct (dmrg1_sweep qr keig Hs qd L st) as [st' en]. cbn [fst] in E1.
    destruct (IH st' (ens ++ [en])) as [n2 E2]. exists (n2 ++ n1). rewrite E2, E1, app_assoc. reflexivity.
  Qed.

  Lemma loop_run e0 n : forall st ens, 2 <= L -> Zi st 0 -> NNi (s_A st) = k1 K -> Good e0 st ens ->
    rtr_ok (s_tr (fst (dmrg_loop (dmrg1_sweep qr keig Hs qd L) n st ens))) ->
    let r := dmrg_loop (dmrg1_sweep qr keig Hs qd L) n st ens in
    Zi (fst r) 0 /\ NNi (s_A (fst r)) = k1 K /\ Good e0 (fst r) (snd r).
  Proof.
    induction n as [|n IH]; intros st ens HL2 HZ HN HG Hok; cbn [dmrg_loop] in *; [cbn [fst snd]; auto|].
    assert (Hok1 : rtr_ok (s_tr (fst (dmrg1_sweep qr keig Hs qd L st)))).
    { revert Hok. destruct (dmrg1_sweep qr keig Hs qd L st) as [st' en]. cbn [fst]. intros Hok.
      destruct (suf_dmrg_loop n st' (ens ++ [en])) as [new E]. rewrite E in Hok. exact (rtr_ok_suffix _ _ Hok). }
    pose proof (sweep_step st HL2 HZ HN Hok1) as Hpp.
    destruct (dmrg1_sweep qr keig Hs qd L st) as [st' en]. destruct Hpp as (HZ' & HN' & Hs' & Hl' & He'). cbn [fst snd] in *.
    destruct HG as (G1 & G2 & G3 & G4).
    apply IH; try assumption.
    assert (Hle : fle F (cre en) e0) by (eapply fle_trans; [exact He'|exact G1]).
    split; [rewrite <- Hs'; exact Hle|].
    split; [apply Forall_app; split; [exact G2|constructor; [split; assumption|constructor]]|].
    split.
    - apply noninc_snoc; [exact G3|]. destruct ens as [|a t]; [left; reflexivity|right]. rewrite G4 by discriminate. exact He'.
    - intros _. rewrite last_last. exact Hs'.
  Qed.
End DMRG.

Arguments rtr_ok {F} qr keig Hs d tr. Arguments noninc {F} l. Arguments keig_ok {F} d BL BR W A ans.
Arguments dmrg_call_ok {F} qr keig Hs d p t.

Theorem dmrg1_run_gen (F : ofield) orth qr keig (H : mpo (Cx F)) psi n d DsW Ds0 (LB : Cx F -> Prop) A qD ens tr :
  dmrg_singlesite orth qr keig H psi n = Some (A, qD, ens, tr) ->
  mpo_shapeb d DsW (o_A H) = true -> mps_shapeb d Ds0 (m_A (fst (orth psi))) = true ->
  Forall right_iso (m_A (fst (orth psi))) ->
  2 <= length (o_A H) ->
  (forall B : list (site (Cx F)), dnorm2 d (length (o_A H)) B = k1 (Cx F) -> LB (denergy d (length (o_A H)) B (o_A H))) ->
  rtr_ok qr keig (o_A H) d (rev tr) ->
  let L := length (o_A H) in
  let E0 := denergy d L (m_A (fst (orth psi))) (o_A H) in
  dnorm2 d L A = k1 (Cx F) /\ length ens = n /\
  Forall (fun e => LB e /\ fle F (cre e) (cre E0)) ens /\ noninc ens /\
  (ens <> [] -> last ens (k0 (Cx F)) = denergy d L A (o_A H)).
Proof.
  intros Hrun HH Hp Hiso HL2 HLB Hok L E0.
  assert (Hlen : length ens = n) by (apply (dmrg1_trace (Cx F) orth qr keig H psi n A qD ens tr Hrun)).
  unfold dmrg_singlesite in Hrun. destruct (sweep_init orth H psi) as [[st nrm]|] eqn:Einit; [|discriminate].
  assert (Hd : 0 < d).
  { unfold mpo_shapeb in HH. rewrite !andb_true_iff in HH. destruct HH as (((((HH & _) & _) & _) & _) & _). apply Nat.ltb_lt. exact HH. }
  destruct (Z_init (Cx F) d Hd orth H psi st nrm DsW Ds0 Einit HH Hp Hiso) as (HZ & HN & Etr & _ & HWs & HhW).
  pose proof (sweep_init_blocks (Cx F) orth H psi st nrm Einit) as (EA & _).
  destruct (dmrg_loop (dmrg1_sweep qr keig (o_A H) (m_qd psi) (length (o_A H))) n st []) as [st' ens'] eqn:El.
  injection Hrun as <- <- <- <-. rewrite rev_involutive in Hok.
  assert (HG : Good F (o_A H) d LB (cre E0) st []).
  { split; [unfold E0, L; rewrite <- EA; apply fle_refl|]. split; [constructor|]. split; [exact I|]. intros C; exfalso; apply C; reflexivity. }
  pose proof (loop_run F qr keig (o_A H) (m_qd psi) d DsW Hd HWs HhW LB HLB (cre E0) n st [] HL2 HZ HN HG) as Hrunl.
  rewrite El in Hrunl. cbn [fst snd] in Hrunl. destruct (Hrunl Hok) as (HZ' & HN' & (G1 & G2 & G3 & G4)).
  split; [exact HN'|]. split; [exact Hlen|]. split; [exact G2|]. split; [exact G3|exact G4].
Qed.

(* the two instances: every reported energy is >= lam whenever H >= lam; and the lam-free statement *)
Theorem dmrg1_run (F : ofield) orth qr keig (H : mpo (Cx F)) psi n d DsW Ds0 lam A qD ens tr :
  dmrg_singlesite orth qr keig H psi n = Some (A, qD, ens, tr) ->
  mpo_shapeb d DsW (o_A H) = true -> mps_shapeb d Ds0 (m_A (fst (orth psi))) = true ->
  Forall right_iso (m_A (fst (orth psi))) ->
  2 <= length (o_A H) -> bounded_below d (length (o_A H)) (o_A H) lam ->
  rtr_ok qr keig (o_A H) d (rev tr) ->
  let L := length (o_A H) in
  let E0 := denergy d L (m_A (fst (orth psi))) (o_A H) in
  dnorm2 d L A = k1 (Cx F) /\ length ens = n /\
  Forall (fun e => fle F lam (cre e) /\ fle F (cre e) (cre E0)) ens /\ noninc ens /\
  (ens <> [] -> last ens (k0 (Cx F)) = denergy d L A (o_A H)).
Proof.
  intros Hrun HH Hp Hiso HL2 Hlam Hok.
  apply (dmrg1_run_gen F orth qr keig H psi n d DsW Ds0 (fun e => fle F lam (cre e)) A qD ens tr); try assumption.
  intros B HB. pose proof (Hlam (amp B)) as Hb.
  change (fle F (fmul F lam (cre (dnorm2 d (length (o_A H)) B))) (cre (denergy d (length (o_A H)) B (o_A H)))) in Hb.
  rewrite HB in Hb. eapply fle_eq; [| reflexivity | exact Hb]. cbn [cre fst k1 K Cx]. 
  destruct (f_ft F) as [Rth _ _ _]. rewrite (Rmul_comm Rth), (Rmul_1_l Rth). reflexivity.
Qed.

(* ======================= TDVP, single-site ======================= *)
Section TDVP.
  Variable R : cring.
  Add Ring Rring_sweeps_run_tdvp : (k_rt R).
  Variable qr : nat -> mx R -> list BinNums.Z -> list BinNums.Z -> mx R * mx R * list BinNums.Z.
  Variable kexp : nat -> env R -> env R -> osite R -> site R -> R -> site R.
  Variable kexp0 : nat -> env R -> env R -> mx R -> R -> mx R.
  Variable Hs : list (osite R).
  Variable qd : list BinNums.Z.
  Variables (dt hdt : R).
  Variable d : nat.
  Variable DsW : list nat.
  Hypothesis Hd : 0 < d.
  Hypothesis HWs : ochain_ok (repeat d (length Hs)) DsW Hs.
  Hypothesis HhW : hd 0 DsW = 1.
  Notation L := (length Hs).
  Notation Zi := (Z R Hs d).
  Notation NNi := (NN R Hs d).
  Notation EEi := (EE R Hs d).

  (* conservation contracts of the local solvers (what the Lanczos exponential of a Hermitian map gives for imaginary dt) *)
  Definition kexp_ok (BL BR : env R) (W : osite R) (A A' : site R) : Prop :=
    (forall Dl Dr, site_ok d Dl Dr A -> site_ok d Dl Dr A') /\
    site_dot A' A' = site_dot A A /\
    site_dot A' (alh R BL BR W A') = site_dot A (alh R BL BR W A).
  Definition kexp0_ok (BL BR : env R) (C C' : mx R) : Prop :=
    nr C' = nr C /\ nc C' = nc C /\ frob C' C' = frob C C /\
    frob C' (albc R BL BR C') = frob C (albc R BL BR C).
  Definition tdvp_call_ok (p : nat) (t : tcall R) : Prop :=
    let W := nth (c_site (t_call t)) Hs [] in
    let tm := tval dt hdt (c_coef (t_call t)) in
    match c_kind (t_call t), t_envs t, t_ten t, t_qs t with
    | KH, [BL; BR], [A], _ => kexp_ok BL BR W A (kexp p BL BR W A tm)
    | KB, [BL; BR], [[C]], _ => kexp0_ok BL BR C (kexp0 p BL BR C tm)
    | QR, _, [[M]], [q0; q1] => qr_ok M (qr p M q0 q1)
    | _, _, _, _ => True
    end.
  Fixpoint ttr_ok (tr : list (tcall R)) : Prop :=
    match tr with [] => True | t :: rest => tdvp_call_ok (length rest) t /\ ttr_ok rest end.
  Lemma ttr_ok_suffix new old : ttr_ok (new ++ old) -> ttr_ok old.
  Proof. induction new as [|t new IH]; [exact (fun H => H)|]. cbn [app ttr_ok]. intros [_ H]. exact (IH H). Qed.

  (* replacing the centre tensor by the answer of a conserving solver *)
  Lemma evolve_center (st st' : sw R) i A1 :
    Zi st i -> kexp_ok (gBL st i) (gBR st i) (nth i Hs []) (gA st i) A1 ->
    s_A st' = lset (s_A st) i A1 -> s_BL st' = s_BL st -> s_BR st' = s_BR st ->
    Zi st' i /\ NNi (s_A st') = NNi (s_A st) /\ EEi (s_A st') = EEi (s_A st).
  Proof.
    intros HZ (Hsh & Hn & He) EA EBL EBR.
    destruct (Z_center R Hs d DsW Hd HWs HhW st i HZ) as (Dl & Dr & HX & N0 & E0 & Hrep).
    destruct (Hrep A1 st' (Hsh _ _ HX) EA EBL EBR) as (HZ' & N1 & E1).
    split; [exact HZ'|]. rewrite N1, E1, N0, E0. split; assumption.
  Qed.

  Lemma tdvp_mid_step (st : sw R) i : Zi st i -> ttr_ok (s_tr (tdvp1_mid kexp Hs dt hdt st i)) ->
    let st' := tdvp1_mid kexp Hs dt hdt st i in
    Zi st' i /\ NNi (s_A st') = NNi (s_A st) /\ EEi (s_A st') = EEi (s_A st).
  Proof.
    intros HZ Hok. unfold tdvp1_mid in *. cbn [s_tr] in Hok. destruct Hok as [Hc _].
    unfold tdvp_call_ok in Hc. cbn [t_call c_kind c_site c_coef t_envs t_ten t_qs] in Hc.
    cbv zeta. apply (evolve_center st _ i _ HZ Hc); reflexivity.
  Qed.

  Lemma tdvp_lr_step (st : sw R) i : Zi st i -> S i < L ->
    ttr_ok (s_tr (tdvp1_lr qr kexp kexp0 Hs qd dt hdt st i)) ->
    let st' := tdvp1_lr qr kexp kexp0 Hs qd dt hdt st i in
    Zi st' (S i) /\ NNi (s_A st') = NNi (s_A st) /\ EEi (s_A st') = EEi (s_A st).
  Proof.
    intros HZ HSi Hok. destruct (Z_len R Hs d st i HZ) as (Hl & Hi & _ & _).
    unfold tdvp1_lr, qr_left in *. cbv zeta in *.
    set (A1 := kexp (length (s_tr st)) (gBL st i) (gBR st i) (nth i Hs []) (gA st i) (tval dt hdt 1)) in *.
    destruct (qr (S (length (s_tr st))) (site_flat A1) (qflat qd (gq st i)) (gq st (S i))) as [[Q C] qb] eqn:Eq.
    cbn [s_tr s_A s_BL s_BR s_qD] in *. destruct Hok as (HcB & _ & HcQ & HcK & _).
    unfold tdvp_call_ok in HcB, HcQ, HcK. cbn [at_site t_call c_kind c_site c_coef t_envs t_ten t_qs length] in HcB, HcQ, HcK.
    fold A1 in HcK. rewrite Eq in HcQ.
    (* the state after the first half step *)
    set (sta := mksw (lset (s_A st) i A1) (s_qD st) (s_BL st) (s_BR st) (s_tr st)).
    destruct (evolve_center st sta i A1 HZ HcK eq_refl eq_refl eq_refl) as (HZa & Na & Ea).
    assert (GAa : gA sta i = A1) by (unfold gA, sta; cbn [s_A]; apply nth_lset_same; lia).
    assert (GBa : gA sta (S i) = gA st (S i)) by (unfold gA, sta; cbn [s_A]; apply nth_lset_other; lia).
    rewrite <- GAa in HcQ.
    destruct (Z_move_right R Hs d DsW Hd HWs HhW sta i Q C qb HZa HSi HcQ) as (N0 & E0 & Hmv).
    rewrite GAa in E0, Hmv. set (Aq := site_unflat (length A1) (sdl A1) Q) in *.
    change (gBL sta i) with (gBL st i) in *. change (gBR sta i) with (gBR st i) in *.
    destruct HcB as (c1 & c2 & c3 & c4).
    match goal with |- Z _ _ _ ?s _ /\ _ =>
      assert (EAs : s_A s = lset (lset (s_A sta) i Aq) (S i) (lmul_site (kexp0 (S (S (S (length (s_tr st))))) (contraction_operator_step_left Aq Aq (nth i Hs []) (gBL st i)) (gBR st i) C (tval dt hdt (-1))) (gA sta (S i))))
        by (cbn [s_A]; unfold sta at 1; cbn [s_A]; rewrite lset_lset, GBa; reflexivity);
      destruct (Hmv _ s c1 c2 EAs eq_refl eq_refl) as (HZ' & N1 & E1) end.
    cbn [s_A] in N1, E1. split; [exact HZ'|]. rewrite N1, E1, c3, c4, <- N0, <- E0, Na, Ea. split; reflexivity.
  Qed.

  Lemma tdvp_rl_step (st : sw R) i : Zi st i -> 0 < i ->
    ttr_ok (s_tr (tdvp1_rl qr kexp kexp0 Hs qd dt hdt st i)) ->
    let st' := tdvp1_rl qr kexp kexp0 Hs qd dt hdt st i in
    Zi st' (i - 1) /\ NNi (s_A st') = NNi (s_A st) /\ EEi (s_A st') = EEi (s_A st).
  Proof.
    intros HZ Hi0 Hok. destruct (Z_len R Hs d st i HZ) as (Hl & Hi & HlBL & HlBR).
    unfold tdvp1_rl, qr_right in *. cbv zeta in *.
    destruct (qr (length (s_tr st)) (site_flat (site_tr (gA st i))) (qflat qd (zneg (gq st (S i)))) (zneg (gq st i))) as [[Q C] qb] eqn:Eq.
    cbn [s_tr s_A s_BL s_BR s_qD] in *. destruct Hok as (HcK & HcB & _ & HcQ & _).
    unfold tdvp_call_ok in HcB, HcQ, HcK. cbn [at_site t_call c_kind c_site c_coef t_envs t_ten t_qs length] in HcB, HcQ, HcK.
    rewrite Eq in HcQ.
    destruct (Z_move_left R Hs d DsW Hd HWs HhW st i Q C qb HZ Hi0 HcQ) as (N0 & E0 & Hmv).
    set (Aq := site_tr (site_unflat (length (site_tr (gA st i))) (sdl (site_tr (gA st i))) Q)) in *.
    set (BRn := contraction_operator_step_right Aq Aq (nth i Hs []) (gBR st i)) in *.
    set (C1 := kexp0 (S (S (length (s_tr st)))) (gBL st i) BRn (trmx C) (tval dt hdt (-1))) in *.
    destruct HcB as (c1 & c2 & c3 & c4).
    (* the state after the bond step, before the last half step *)
    set (stb := mksw (lset (lset (s_A st) i Aq) (i - 1) (rmul_site (gA st (i - 1)) C1)) (s_qD st) (s_BL st) (lset (s_BR st) (i - 1) BRn) (s_tr st)).
    assert (Hc1 : nr C1 = nc C) by (rewrite c1; reflexivity).
    assert (Hc2 : nc C1 = nr C) by (rewrite c2; reflexivity).
    destruct (Hmv C1 stb Hc1 Hc2 eq_refl eq_refl eq_refl) as (HZb & Nb & Eb).
    assert (GAb : gA stb (i - 1) = rmul_site (gA st (i - 1)) C1) by (unfold gA, stb; cbn [s_A]; apply nth_lset_same; rewrite lset_length; lia).
    assert (GRb : gBR stb (i - 1) = BRn) by (unfold gBR, stb; cbn [s_BR]; apply nth_lset_same; lia).
    change (gBL stb (i - 1)) with (gBL st (i - 1)) in *.
    rewrite <- GAb, <- GRb in HcK.
    match goal with |- Z _ _ _ ?s _ /\ _ =>
      assert (EAs : s_A s = lset (s_A stb) (i - 1) (kexp (S (S (S (length (s_tr st))))) (gBL st (i - 1)) (gBR stb (i - 1)) (nth (i - 1) Hs []) (gA stb (i - 1)) (tval dt hdt 1)))
        by (cbn [s_A]; unfold stb at 1; cbn [s_A]; rewrite lset_lset, GAb, GRb; reflexivity);
      destruct (evolve_center stb s (i - 1) _ HZb HcK EAs eq_refl eq_refl) as (HZ' & N1 & E1) end.
    cbn [s_A] in N1, E1. split; [exact HZ'|]. rewrite N1, E1, Nb, Eb, c3, c4, <- N0, <- E0. split; reflexivity.
  Qed.

  (* ---- one time step, any number of steps ---- *)
  Definition TP (n0 e0 : R) (i : nat) (st : sw R) : Prop := Zi st i /\ NNi (s_A st) = n0 /\ EEi (s_A st) = e0.

  Lemma suf_tdvp1_step st : exists new, s_tr (tdvp1_step qr kexp kexp0 Hs qd dt hdt L st) = new ++ s_tr st.
  Proof.
    unfold tdvp1_step. cbv zeta.
    set (st1 := fold_left (tdvp1_lr qr kexp kexp0 Hs qd dt hdt) (seq 0 (L - 1)) st).
    destruct (fold_mono (@s_tr R) (tdvp1_lr qr kexp kexp0 Hs qd dt hdt) (suf_tdvp1_lr R qr kexp kexp0 Hs qd dt hdt) (seq 0 (L - 1)) st) as [n1 E1].
    fold st1 in E1.
    destruct (fold_mono (@s_tr R) (tdvp1_rl qr kexp kexp0 Hs qd dt hdt) (suf_tdvp1_rl R qr kexp kexp0 Hs qd dt hdt) (rev (seq 1 (L - 1))) (tdvp1_mid kexp Hs dt hdt st1 (L - 1))) as [n2 E2].
    rewrite E2. unfold tdvp1_mid at 1. cbn [s_tr]. rewrite E1. eexists (n2 ++ _ :: n1). rewrite <- app_assoc. reflexivity.
  Qed.

  Lemma tdvp_step_run n0 e0 (st : sw R) : 1 <= L -> TP n0 e0 0 st ->
    ttr_ok (s_tr (tdvp1_step qr kexp kexp0 Hs qd dt hdt L st)) ->
    TP n0 e0 0 (tdvp1_step qr kexp kexp0 Hs qd dt hdt L st).
  Proof.
    intros HL1 HT Hok. unfold tdvp1_step in *. cbv zeta in *.
    set (st1 := fold_left (tdvp1_lr qr kexp kexp0 Hs qd dt hdt) (seq 0 (L - 1)) st) in *.
    set (st2 := tdvp1_mid kexp Hs dt hdt st1 (L - 1)) in *.
    assert (Hok2 : ttr_ok (s_tr st2)).
    { destruct (fold_mono (@s_tr R) (tdvp1_rl qr kexp kexp0 Hs qd dt hdt) (suf_tdvp1_rl R qr kexp kexp0 Hs qd dt hdt) (rev (seq 1 (L - 1))) st2) as [new E].
      rewrite E in Hok. exact (ttr_ok_suffix _ _ Hok). }
    assert (Hok1 : ttr_ok (s_tr st1)).
    { unfold st2, tdvp1_mid in Hok2. cbn [s_tr] in Hok2. exact (proj2 Hok2). }
    assert (H1 : TP n0 e0 (0 + (L - 1)) st1).
    { unfold st1.
      apply (fold_up (@s_tr R) (tdvp1_lr qr kexp kexp0 Hs qd dt hdt) (suf_tdvp1_lr R qr kexp kexp0 Hs qd dt hdt) ttr_ok ttr_ok_suffix
               (TP n0 e0) (L - 1) 0 st HT Hok1).
      intros i s' Hi (HZ & HN & HE) Hoki. destruct (tdvp_lr_step s' i HZ ltac:(lia) Hoki) as (HZ' & N' & E').
      split; [exact HZ'|]. split; congruence. }
    cbn [Nat.add] in H1.
    assert (H2 : TP n0 e0 (L - 1) st2).
    { destruct H1 as (HZ & HN & HE). destruct (tdvp_mid_step st1 (L - 1) HZ Hok2) as (HZ' & N' & E').
      fold st2 in HZ', N', E'. split; [exact HZ'|]. split; congruence. }
    apply (fold_down (@s_tr R) (tdvp1_rl qr kexp kexp0 Hs qd dt hdt) (suf_tdvp1_rl R qr kexp kexp0 Hs qd dt hdt) ttr_ok ttr_ok_suffix
             (TP n0 e0) (L - 1) 0 st2 H2 Hok).
    intros i s' Hi (HZ & HN & HE) Hoki. destruct (tdvp_rl_step s' i HZ ltac:(lia) Hoki) as (HZ' & N' & E').
    split; [exact HZ'|]. split; congruence.
  Qed.

  Lemma suf_tdvp_iter n : forall st, exists new, s_tr (iter n (tdvp1_step qr kexp kexp0 Hs qd dt hdt L) st) = new ++ s_tr st.
  Proof.
    induction n as [|n IH]; intros st; cbn [iter]; [exists []; reflexivity|].
    destruct (IH (tdvp1_step qr kexp kexp0 Hs qd dt hdt L st)) as [n1 E1]. destruct (suf_tdvp1_step st) as [n2 E2].
    exists (n1 ++ n2). rewrite E1, E2, app_assoc. reflexivity.
  Qed.
  Lemma tdvp_iter_run n0 e0 n : forall st, 1 <= L -> TP n0 e0 0 st ->
    ttr_ok (s_tr (iter n (tdvp1_step qr kexp kexp0 Hs qd dt hdt L) st)) ->
    TP n0 e0 0 (iter n (tdvp1_step qr kexp kexp0 Hs qd dt hdt L) st).
  Proof.
    induction n as [|n IH]; intros st HL1 HT Hok; cbn [iter] in *; [exact HT|].
    apply IH; [exact HL1| |exact Hok]. apply tdvp_step_run; [exact HL1|exact HT|].
    destruct (suf_tdvp_iter n (tdvp1_step qr kexp kexp0 Hs qd dt hdt L st)) as [new E]. rewrite E in Hok. exact (ttr_ok_suffix _ _ Hok).
  Qed.
End TDVP.

Arguments ttr_ok {R} qr kexp kexp0 Hs dt hdt d tr. Arguments kexp_ok {R} d BL BR W A A'. Arguments kexp0_ok {R} BL BR C C'.
Arguments tdvp_call_ok {R} qr kexp kexp0 Hs dt hdt d p t.

Theorem tdvp1_run (R : cring) orth qr kexp kexp0 (H : mpo R) psi dt hdt n d DsW Ds0 A qD nrm tr :
  tdvp_singlesite orth qr kexp kexp0 H psi dt hdt n = Some (A, qD, nrm, tr) ->
  mpo_shapeb d DsW (o_A H) = true -> mps_shapeb d Ds0 (m_A (fst (orth psi))) = true ->
  Forall right_iso (m_A (fst (orth psi))) ->
  ttr_ok qr kexp kexp0 (o_A H) dt hdt d (rev tr) ->
  let L := length (o_A H) in
  nrm = snd (orth psi) /\
  dnorm2 d L A = k1 R /\
  denergy d L A (o_A H) = denergy d L (m_A (fst (orth psi))) (o_A H).
Proof.
  intros Hrun HH Hp Hiso Hok L.
  unfold tdvp_singlesite in Hrun. destruct (sweep_init orth H psi) as [[st nrm']|] eqn:Einit; [|discriminate].
  assert (Hd : 0 < d).
  { unfold mpo_shapeb in HH. rewrite !andb_true_iff in HH. destruct HH as (((((HH0 & _) & _) & _) & _) & _). apply Nat.ltb_lt. exact HH0. }
  assert (HL1 : 1 <= length (o_A H)).
  { unfold mpo_shapeb in HH. rewrite !andb_true_iff, negb_true_iff, Nat.eqb_neq in HH. destruct HH as (((((_ & HH1) & _) & _) & _) & _). lia. }
  destruct (Z_init R d Hd orth H psi st nrm' DsW Ds0 Einit HH Hp Hiso) as (HZ & HN & Etr & Enrm & HWs & HhW).
  pose proof (sweep_init_blocks R orth H psi st nrm' Einit) as (EA & _).
  injection Hrun as <- <- <- <-. rewrite rev_involutive in Hok.
  assert (HT : TP R (o_A H) d (k1 R) (EE R (o_A H) d (s_A st)) 0 st) by (split; [exact HZ|split; [exact HN|reflexivity]]).
  destruct (tdvp_iter_run R qr kexp kexp0 (o_A H) (m_qd psi) dt hdt d DsW Hd HWs HhW _ _ n st HL1 HT Hok) as (_ & N' & E').
  split; [exact Enrm|]. split; [exact N'|]. rewrite <- EA. exact E'.
Qed.
