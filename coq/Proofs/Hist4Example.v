(* Concrete data for the round-4 non-vacuity example of Properties/C02.v (history theorem with zero-tensor splits), over Q[i]:
     states[0]  L = 3, qd = [0; 1], bond charges [0] [0; 1] [1] [1], ALL tensors zero (a zero state in an allowed sector)
     states[1]  L = 2, qd = [0; 1], bond charges [0] [0] [5]: the total charge 5 cannot be reached, so the charge rule forces
                the last tensor (hence the state and every merged pair) to be zero; the first tensor is not zero
   history
     SplitMerge 0 0 'right'   shared charges {0, 1}: two LAPACK calls on the 1 x 1 zero block, all singular values zero,
                              retained_bond_indices keeps nothing: qD[1] = [] (bond dimension 0)
     SplitMerge 0 1 'left'    the matrix has no rows (2 * 0 x 2): dummy bond with the label [0] of fix F5: qD[2] = [0]
     SplitMerge 1 0 'right'   disjoint charges [0; 1] / [5; 4]: dummy bond labelled q0[:1] = [0], A0 = e_0 (not zero)
     SubMps 2 1 1             states[2] = states[1] - states[1]   (bond dimension 2)
     SplitMerge 2 0 'sqrt'    dummy bond again. *)
From Coq Require Import ZArith QArith Qcanon List Bool Lia.
From PT Require Import Base.Scalar Base.Field Base.BigSum Base.Mx Model.Tensor Model.MPSOps Model.BondOps Model.BondOpsF5 Model.Operation Model.Sweeps.
From PT Require Import Model.Orthonormalize Model.History.
From PT Require Import Proofs.HistOrth Proofs.Hist2Compress Proofs.Hist2Top Proofs.Hist3Top Proofs.Hist4Top Proofs.Hist2Example.
Import ListNotations.
Open Scope nat_scope.

Definition z4 (m n : nat) : mx (Cx QcF) := zeromx m n.
Definition ex4_z3 : mps (Cx QcF) :=
  mkmps [0; 1]%Z [[0]; [0; 1]; [1]; [1]]%Z [ [z4 1 2; z4 1 2]; [z4 2 1; z4 2 1]; [z4 1 1; z4 1 1] ].
Definition ex4_forb : mps (Cx QcF) :=
  mkmps [0; 1]%Z [[0]; [0]; [5]]%Z [ [mc2 1 1 [[cq2 3 1]]; z4 1 1]; [z4 1 1; z4 1 1] ].
Definition ex4_pool : state (Cx QcF) := mkstate [ex4_z3; ex4_forb] [].
Definition ex4_ops : list (op (Cx QcF)) :=
  [SplitMerge 0 0 1 0; SplitMerge 0 1 0 0; SplitMerge 1 0 1 0; SubMps 2 1 1; SplitMerge 2 0 2 0].

(* numpy.linalg.svd of the 1 x 1 zero block: U = [[1]], s = [0], Vh = [[1]] *)
Definition ex4_stbl : list (mx (Cx QcF) * (mx (Cx QcF) * list QcF * mx (Cx QcF))) :=
  [ (mc2 1 1 [[cq2 0 1]], (mc2 1 1 [[cq2 1 1]], [qq2 0 1], mc2 1 1 [[cq2 1 1]])) ].
Definition ex4_dsvd := svd_oracle ex4_stbl.
Definition ex4_pick : list QcF -> list nat := fun _ => [].      (* never called: every split sees a zero matrix *)
Definition ex4_tols : nat -> QcF := fun _ => qq2 1 4.          (* tol = 1/4 *)
Definition ex4_tolf : nat -> QcF := fun _ => qq2 1 10.
Definition ex4_ksqrt : Cx QcF -> Cx QcF := fun z => z.
Definition ex4_dqr : mx (Cx QcF) -> mx (Cx QcF) * mx (Cx QcF) := fun M => (M, M).
Definition ex4_orth : mps (Cx QcF) -> mps (Cx QcF) * Cx QcF := fun p => (p, k1 (Cx QcF)).
Definition ex4_split := split5 QcF ex4_dsvd ex4_pick ex4_ksqrt (qq2 1 4).
Definition ex4_tpar : nat -> Cx QcF * Cx QcF * nat := fun _ => (k0 (Cx QcF), k0 (Cx QcF), 0).
Definition ex4_dpar : nat -> nat := fun _ => 0.

(* every result function is its executable model *)
Definition ex4_O : oracles (Cx QcF) :=
  mkoracles (fun tag => svd_result5 ex4_dsvd ex4_pick (ex4_tols tag)) ex4_ksqrt
    (orth_result QcF ex4_dqr) (compress_result QcF ex4_dqr ex4_dsvd ex4_pick ex2_abs ex4_tolf) (orth_mpo_result QcF ex4_dqr)
    (fun _ _ _ _ => [])
    (fun two => if two then tdvp2_result (Cx QcF) ex4_orth ex4_split (no_kexp (Cx QcF)) ex4_tpar
                else tdvp1_result (Cx QcF) ex4_orth (no_qr (Cx QcF)) (no_kexp (Cx QcF)) (no_kexp0 (Cx QcF)) ex4_tpar)
    (fun two => if two then dmrg2_result (Cx QcF) ex4_orth (no_qr (Cx QcF)) ex4_split (no_keig (Cx QcF)) ex4_dpar
                else dmrg1_result (Cx QcF) ex4_orth (no_qr (Cx QcF)) (no_keig (Cx QcF)) ex4_dpar).

Definition mps_all_zero (p : mps (Cx QcF)) : bool := forallb (forallb (@is_zeromx (Cx QcF))) (m_A p).
Definition qD_dims (p : mps (Cx QcF)) : list nat := map (@length Z) (m_qD p).
Definition natl_eqb (a b : list nat) : bool := list_eqb Nat.eqb a b.
Definition zll_eqb (a b : list (list Z)) : bool := list_eqb zl_eqb a b.
