(* C06: the chain lists of the four chain-built lattice models are well formed (wf_chains) as soon as one resulting chain has
   a non-zero coefficient; with C05 (success and consistency of from_opchains under the proved cover model) the
   constructors' graphs exist for every L >= 1 and denote the textbook formulas: no "returns Ok" hypothesis. *)
From Coq Require Import ZArith List Lia Bool.
From PT Require Import Base.Scalar Base.BigSum Model.OpGraph Model.FromOpchains Model.Hamiltonians Model.HamFormulas
                       Proofs.DenRev_C05 Proofs.HamShift Proofs.C05Total Proofs.C05Len.
Import ListNotations.
Open Scope Z_scope.

Lemma hd_repeat_app0 (n : nat) (l : list Z) : hd 0 l = 0 -> hd 0 (repeat 0 n ++ l) = 0.
Proof. intros H. destruct n as [|n]; [exact H|reflexivity]. Qed.
Lemma last_app_repeat0 (l : list Z) (n : nat) : last l 0 = 0 -> last (l ++ repeat 0 n) 0 = 0.
Proof.
  intros H. induction n as [|n IH]; [rewrite app_nil_r; exact H|].
  replace (S n) with (n + 1)%nat by lia. rewrite repeat_app, app_assoc. cbn [repeat]. apply last_last.
Qed.
Lemma last_app_keep (a l : list Z) : l <> [] -> last (a ++ l) 0 = last l 0.
Proof.
  intros Hl. induction a as [|x a IH]; [reflexivity|]. cbn [app]. rewrite <- IH.
  destruct (a ++ l) eqn:E; [|reflexivity]. apply app_eq_nil in E. destruct E as [_ E]. contradiction.
Qed.

Section HamTotal.
  Variable R : cring.
  Notation chain := (chain R).
  Notation graph := (graph R).

  (* a local chain: qnums interleave, leading and trailing charge 0 *)
  Definition local_ok (l : chain) : bool :=
    chain_ok l && (hd 0 (c_qnums l) =? 0) && (last (c_qnums l) 0 =? 0).

  Lemma shifted_wf (l : chain) i L : local_ok l = true -> (i + length (c_oids l) <= L)%nat ->
    wf_chain L (shift_chain l i) = true /\ last (padded_qnums L (shift_chain l i)) 0 = 0.
  Proof.
    unfold local_ok. rewrite !andb_true_iff. intros [[Hok Hh] Hl] Hfit.
    apply Z.eqb_eq in Hh. apply Z.eqb_eq in Hl.
    assert (Hne : c_qnums l <> []).
    { unfold chain_ok in Hok. apply Nat.eqb_eq in Hok. destruct (c_qnums l); [discriminate|discriminate]. }
    unfold wf_chain, padded_qnums, shift_chain, chain_ok. cbn [c_oids c_qnums c_istart c_coeff]. split.
    - rewrite !andb_true_iff. repeat split.
      + exact Hok.
      + apply Nat.leb_le. lia.
      + apply Z.eqb_eq. apply hd_repeat_app0. destruct (c_qnums l) as [|q qs]; [contradiction|]. exact Hh.
    - rewrite last_app_keep.
      + apply last_app_repeat0. exact Hl.
      + intros E. apply app_eq_nil in E. destruct E as [E _]. contradiction.
  Qed.

  Lemma forallb_last0 (c0 : chain) L (t : list chain) :
    last (padded_qnums L c0) 0 = 0 -> (forall c, In c t -> last (padded_qnums L c) 0 = 0) ->
    forallb (fun c => last (padded_qnums L c) 0 =? last (padded_qnums L c0) 0) t = true.
  Proof. intros H0 Ht. apply forallb_forall. intros c Hc. rewrite H0, (Ht c Hc). reflexivity. Qed.

  (* the shifted chain list is well formed iff one of its chains has a non-zero coefficient *)
  Theorem shift_chains_wf (lop : list chain) L :
    forallb local_ok lop = true ->
    existsb (@nonzero R) (local_opchains_to_chains lop L) = true ->
    wf_chains L (local_opchains_to_chains lop L) = true.
  Proof.
    intros Hlop Hnz. rewrite forallb_forall in Hlop.
    assert (Hall : forall c, In c (local_opchains_to_chains lop L) ->
                     wf_chain L c = true /\ last (padded_qnums L c) 0 = 0).
    { intros c Hc. apply shift_chains_In in Hc. destruct Hc as [l [i [Hl [Hi ->]]]]. apply shifted_wf; auto. }
    unfold wf_chains. apply andb_true_iff. split.
    - apply forallb_forall. intros c Hc. apply (Hall c Hc).
    - destruct (filter (@nonzero R) (local_opchains_to_chains lop L)) as [|c0 t] eqn:E.
      + apply existsb_exists in Hnz. destruct Hnz as [c [Hc Hn]].
        assert (Hin : In c (filter (@nonzero R) (local_opchains_to_chains lop L))) by (apply filter_In; auto).
        rewrite E in Hin. destruct Hin.
      + apply forallb_last0.
        * assert (Hin : In c0 (filter (@nonzero R) (local_opchains_to_chains lop L))) by (rewrite E; left; reflexivity).
          apply filter_In in Hin. apply (Hall c0 (proj1 Hin)).
        * intros c Hc. assert (Hin : In c (filter (@nonzero R) (local_opchains_to_chains lop L))) by (rewrite E; right; exact Hc).
          apply filter_In in Hin. apply (Hall c (proj1 Hin)).
  Qed.

  (* "not all resulting coefficients zero" in terms of the local table: a local chain that fits has a non-zero coefficient *)
  Definition some_term (lop : list chain) (L : nat) : bool :=
    existsb (fun l => negb (keqb R (c_coeff l) (k0 R)) && Nat.leb (length (c_oids l)) L) lop.
  Lemma some_term_nonzero (lop : list chain) L :
    some_term lop L = true -> existsb (@nonzero R) (local_opchains_to_chains lop L) = true.
  Proof.
    unfold some_term. intros H. apply existsb_exists in H. destruct H as [l [Hl H]].
    apply andb_true_iff in H. destruct H as [Hn Hfit]. apply Nat.leb_le in Hfit.
    apply existsb_exists. exists (shift_chain l 0). split.
    - apply shift_chains_In. exists l, 0%nat. repeat split; auto.
    - unfold nonzero, shift_chain. cbn [c_coeff]. exact Hn.
  Qed.
  Lemma nonzero_some_term (lop : list chain) L :
    existsb (@nonzero R) (local_opchains_to_chains lop L) = true -> some_term lop L = true.
  Proof.
    intros H. apply existsb_exists in H. destruct H as [c [Hc Hn]].
    apply shift_chains_In in Hc. destruct Hc as [l [i [Hl [Hi ->]]]].
    unfold some_term. apply existsb_exists. exists l. split; [exact Hl|].
    apply andb_true_iff. split; [exact Hn|]. apply Nat.leb_le. lia.
  Qed.

  (* the four tables consist of local chains with leading and trailing charge 0, for all parameters *)
  Lemma xxz_local_ok (half J D h : R) : forallb local_ok (xxz_lop half J D h) = true.
  Proof. reflexivity. Qed.
  Lemma xxz1_local_ok (half J D h : R) : forallb local_ok (xxz1_lop half J D h) = true.
  Proof. reflexivity. Qed.
  Lemma bose_local_ok (t U mu : R) : forallb local_ok (bose_lop t U mu) = true.
  Proof. reflexivity. Qed.
  Lemma fermi_local_ok (t U mu : R) : forallb local_ok (fermi_lop t U mu) = true.
  Proof. reflexivity. Qed.

  (* generic: a spec whose table is local_ok, some term present: the graph exists, is linked, passes the consistency check,
     and denotes the sum of identity-padded local terms *)
  Theorem spec_graph_total (sp : hamspec R) L : (1 <= L)%nat ->
    forallb local_ok (h_lop sp) = true -> some_term (h_lop sp) L = true ->
    exists g : graph, spec_graph cover_model sp L = Ok g /\ linked g = true /\
      (forall fuel b, is_consistent_fuel fuel g = Some b -> b = true) /\ glength g = Some L /\
      forall w, den g w = local_sum L (h_idn sp) (h_lop sp) w.
  Proof.
    intros HL Hlop Hsome.
    assert (Hwf : wf_chains L (spec_chains sp L) = true).
    { apply shift_chains_wf; [exact Hlop|]. apply some_term_nonzero. exact Hsome. }
    destruct (from_opchains_total_model_len R (spec_chains sp L) L (h_idn sp) Hwf HL) as [g [Hg [Hl [Hc [Hn Hd]]]]].
    exists g. split; [exact Hg|]. split; [exact Hl|]. split; [exact Hc|]. split; [exact Hn|].
    intros w. rewrite Hd. apply shift_chains_den.
  Qed.

  Theorem xxz_total (half J D h : R) L : (1 <= L)%nat -> some_term (xxz_lop half J D h) L = true ->
    exists g : graph, spec_graph cover_model (xxz_spec half J D h) L = Ok g /\ linked g = true /\
      (forall fuel b, is_consistent_fuel fuel g = Some b -> b = true) /\ glength g = Some L /\
      forall w, den g w = xxz_formula half J D h L w.
  Proof.
    intros HL Hs. destruct (spec_graph_total (xxz_spec half J D h) L HL (xxz_local_ok half J D h) Hs) as [g [Hg [Hl [Hc [Hn Hd]]]]].
    exists g. repeat split; auto. intros w. rewrite Hd. apply xxz_table. exact HL.
  Qed.
  Theorem xxz1_total (half sq2 J D h : R) L : (1 <= L)%nat -> some_term (xxz1_lop half J D h) L = true ->
    exists g : graph, spec_graph cover_model (xxz1_spec half sq2 J D h) L = Ok g /\ linked g = true /\
      (forall fuel b, is_consistent_fuel fuel g = Some b -> b = true) /\ glength g = Some L /\
      forall w, den g w = xxz_formula half J D h L w.
  Proof.
    intros HL Hs. destruct (spec_graph_total (xxz1_spec half sq2 J D h) L HL (xxz1_local_ok half J D h) Hs) as [g [Hg [Hl [Hc [Hn Hd]]]]].
    exists g. repeat split; auto. intros w. rewrite Hd. apply xxz1_table. exact HL.
  Qed.
  Theorem bose_total d sq (t U mu : R) L : (1 <= L)%nat -> some_term (bose_lop t U mu) L = true ->
    exists g : graph, spec_graph cover_model (bose_spec d sq t U mu) L = Ok g /\ linked g = true /\
      (forall fuel b, is_consistent_fuel fuel g = Some b -> b = true) /\ glength g = Some L /\
      forall w, den g w = bose_formula t U mu L w.
  Proof.
    intros HL Hs. destruct (spec_graph_total (bose_spec d sq t U mu) L HL (bose_local_ok t U mu) Hs) as [g [Hg [Hl [Hc [Hn Hd]]]]].
    exists g. repeat split; auto. intros w. rewrite Hd. apply bose_table. exact HL.
  Qed.
  Theorem fermi_total (half t U mu : R) L : (1 <= L)%nat -> some_term (fermi_lop t U mu) L = true ->
    exists g : graph, spec_graph cover_model (fermi_spec half t U mu) L = Ok g /\ linked g = true /\
      (forall fuel b, is_consistent_fuel fuel g = Some b -> b = true) /\ glength g = Some L /\
      forall w, den g w = fermi_formula t U mu L w.
  Proof.
    intros HL Hs. destruct (spec_graph_total (fermi_spec half t U mu) L HL (fermi_local_ok t U mu) Hs) as [g [Hg [Hl [Hc [Hn Hd]]]]].
    exists g. repeat split; auto. intros w. rewrite Hd. apply fermi_table. exact HL.
  Qed.
End HamTotal.
