(* C16, part 5a: what merge_edges returns, in closed form (both branches), for a well-formed graph. *)
From Coq Require Import ZArith List Lia Bool Permutation Ring.
From PT Require Import Base.Scalar Base.BigSum Model.OpGraph Model.Rewrites
  Proofs.RewritesBase Proofs.RewritesIso Proofs.RewritesRename Proofs.RewritesLevels.
Import ListNotations.
Open Scope Z_scope.

Section MergeInv.
  Variable R : cring.
  Notation graph := (graph R).
  Notation gedge := (gedge R).

  Lemma edge_nid_o (e : gedge) d : (d <= 1)%nat -> edge_nid e (1 - d) = end_o R d e.
  Proof. intros H. destruct d as [|[|d]]; try lia; reflexivity. Qed.
  Lemma end_d_o (e : gedge) d : (d <= 1)%nat -> end_d R (1 - d) e = end_o R d e.
  Proof. intros H. destruct d as [|[|d]]; try lia; reflexivity. Qed.
  Lemma ends_ne_d (g : graph) e d : WF R g -> In e (g_edges g) -> end_d R d e <> end_o R d e.
  Proof.
    intros W He. pose proof (ends_ne R g e W He) as H. destruct d; simpl; congruence.
  Qed.
  (* membership in the d-list of a node = the other end of the edge is that node *)
  Lemma in_list_o (g : graph) n e d : WF R g -> (d <= 1)%nat -> In n (g_nodes g) -> In e (g_edges g) ->
    (In (e_id e) (node_eids n d) <-> end_o R d e = n_id n).
  Proof.
    intros W Hd Hn He. destruct d as [|[|d]]; try lia.
    - apply (in_list_iff R g n e 1 W (le_n _) Hn He).
    - apply (in_list_iff R g n e 0 W (le_S _ _ (le_n _)) Hn He).
  Qed.
  Lemma opics_eqb_eq' (x y : list (Z * R)) : opics_eqb x y = true -> x = y.
  Proof.
    revert y. induction x as [|[i c] x IH]; intros [|[j e] y]; simpl; intros H; try discriminate; [reflexivity|].
    rewrite !andb_true_iff in H. destruct H as [[H1 H2] H3]. apply Z.eqb_eq in H1. apply keqb_spec in H2.
    subst. f_equal. apply IH. exact H3.
  Qed.
  Lemma find_node_upd (g : graph) x f y : (forall n, n_id (f n) = n_id n) ->
    find_node (upd_node g x f) y = option_map (fun n => if n_id n =? x then f n else n) (find_node g y).
  Proof.
    intros Hf. unfold find_node, upd_node. simpl. induction (g_nodes g) as [|n l IH]; simpl; [reflexivity|].
    assert (E : n_id (if n_id n =? x then f n else n) = n_id n) by (destruct (n_id n =? x); [apply Hf|reflexivity]).
    rewrite E. destruct (n_id n =? y); [reflexivity|exact IH].
  Qed.
  Lemma singleton_list (l : list Z) x : length l = 1%nat -> In x l -> l = [x].
  Proof. destruct l as [|y [|z l]]; simpl; intros H Hin; try discriminate. destruct Hin as [->|[]]. reflexivity. Qed.

  (* node and edge transformers of the two branches *)
  Definition V1 (d : nat) (base b : Z) (n : gnode) : gnode :=
    if n_id n =? base then node_remove_eid b (1 - d) n else n.
  Definition Vsame (d : nat) (base up b : Z) (n : gnode) : gnode :=
    let n1 := V1 d base b n in if n_id n1 =? up then node_remove_eid b d n1 else n1.
  Definition Usame (a : Z) (o2 : list (Z * R)) (e : gedge) : gedge :=
    if e_id e =? a then edge_set_opics R (opics_add (e_opics e) o2) e else e.
  Definition G_same (g : graph) (a b : Z) (d : nat) (e2 : gedge) : graph :=
    mkgraph (map (Vsame d (end_d R d e2) (end_o R d e2) b) (g_nodes g))
            (map (Usame a (e_opics e2)) (filter (fun e => negb (e_id e =? b)) (g_edges g)))
            (g_t0 g) (g_t1 g).
  Definition V3 (d : nat) (m1 : Z) (L2 : list Z) (n : gnode) : gnode :=
    if n_id n =? m1 then node_append_eids (1 - d) L2 n else n.
  Definition redir (d : nat) (m1 m2 : Z) (e : gedge) : gedge :=
    if end_d R d e =? m2 then edge_set_nid R d m1 e else e.
  Definition G_node (g : graph) (b : Z) (d : nat) (e2 : gedge) (m1 m2 : Z) (L2 : list Z) : graph :=
    mkgraph (map (V3 d m1 L2) (filter (fun n => negb (n_id n =? m2)) (map (V1 d (end_d R d e2) b) (g_nodes g))))
            (map (redir d m1 m2) (filter (fun e => negb (e_id e =? b)) (g_edges g)))
            (g_t0 g) (g_t1 g).

  Lemma merge_edges_inv (g g' : graph) a b d : WF R g -> merge_edges g a b d = Some g' ->
    (d <= 1)%nat /\ a <> b /\
    exists e1 e2, In e1 (g_edges g) /\ In e2 (g_edges g) /\ e_id e1 = a /\ e_id e2 = b /\
      end_d R d e1 = end_d R d e2 /\
      ((end_o R d e1 = end_o R d e2 /\ g' = G_same g a b d e2) \/
       (end_o R d e1 <> end_o R d e2 /\ e_opics e1 = e_opics e2 /\
        exists n1 n2, In n1 (g_nodes g) /\ In n2 (g_nodes g) /\
          n_id n1 = end_o R d e1 /\ n_id n2 = end_o R d e2 /\
          node_eids n1 d = [a] /\ node_eids n2 d = [b] /\ n_q n1 = n_q n2 /\
          g' = G_node g b d e2 (end_o R d e1) (end_o R d e2) (node_eids n2 (1 - d)))).
  Proof.
    intros W. unfold merge_edges.
    destruct (Nat.leb d 1) eqn:Hd; cbn [negb option_map]; [|discriminate]. apply Nat.leb_le in Hd.
    destruct (a =? b) eqn:Hab; [discriminate|]. apply Z.eqb_neq in Hab.
    destruct (find_edge g a) as [e1|] eqn:F1; [|discriminate].
    destruct (find_edge g b) as [e2|] eqn:F2; [|discriminate].
    apply find_edge_Some in F1. apply find_edge_Some in F2. destruct F1 as [He1 Ha]. destruct F2 as [He2 Hb].
    change (edge_nid e1 d) with (end_d R d e1). change (edge_nid e2 d) with (end_d R d e2).
    rewrite (edge_nid_o e1 d Hd), (edge_nid_o e2 d Hd).
    destruct (end_d R d e1 =? end_d R d e2) eqn:Hbase; cbn [negb option_map]; [|discriminate]. apply Z.eqb_eq in Hbase.
    destruct (find_node (remove_edge g b) (end_d R d e2)) as [nb|] eqn:Fb; [|discriminate].
    destruct (zmem b (node_eids nb (1 - d))) eqn:Zb; cbn [negb option_map]; [|discriminate].
    destruct (end_o R d e1 =? end_o R d e2) eqn:Hup.
    - apply Z.eqb_eq in Hup.
      match goal with |- context [match find_node ?G ?x with _ => _ end] => destruct (find_node G x) as [nu|] end;
        [|discriminate].
      destruct (zmem b (node_eids nu d)); cbn [negb option_map]; [|discriminate]. intros E. inversion E; clear E.
      split; [exact Hd|]. split; [exact Hab|]. exists e1, e2. repeat split; auto. left. split; [exact Hup|].
      unfold G_same, upd_node, upd_edge, remove_edge. simpl. f_equal. rewrite map_map. reflexivity.
    - apply Z.eqb_neq in Hup.
      destruct (opics_eqb (e_opics e1) (e_opics e2)) eqn:Hop; cbn [negb option_map]; [|discriminate]. apply opics_eqb_eq' in Hop.
      set (g2 := upd_node (remove_edge g b) (end_d R d e2) (node_remove_eid b (1 - d))).
      assert (Hfind : forall y, find_node g2 y = option_map (V1 d (end_d R d e2) b) (find_node g y)).
      { intros y. unfold g2. rewrite find_node_upd; [reflexivity|]. intros n. destruct (1 - d)%nat; reflexivity. }
      rewrite !Hfind.
      destruct (find_node g (end_o R d e1)) as [n1|] eqn:Fn1; cbn [negb option_map]; [|discriminate].
      destruct (find_node g (end_o R d e2)) as [n2|] eqn:Fn2; cbn [negb option_map]; [|discriminate].
      apply find_node_Some in Fn1. apply find_node_Some in Fn2. destruct Fn1 as [Hn1 Hid1]. destruct Fn2 as [Hn2 Hid2].
      assert (Hne1 : n_id n1 <> end_d R d e2).
      { rewrite Hid1, <- Hbase. intros E. symmetry in E. revert E. apply (ends_ne_d g e1 d W He1). }
      assert (Hne2 : n_id n2 <> end_d R d e2).
      { rewrite Hid2. intros E. symmetry in E. revert E. apply (ends_ne_d g e2 d W He2). }
      assert (HV1 : V1 d (end_d R d e2) b n1 = n1) by (unfold V1; apply Z.eqb_neq in Hne1; rewrite Hne1; reflexivity).
      assert (HV2 : V1 d (end_d R d e2) b n2 = n2) by (unfold V1; apply Z.eqb_neq in Hne2; rewrite Hne2; reflexivity).
      rewrite HV1, HV2.
      destruct (Nat.eqb (length (node_eids n1 d)) 1) eqn:L1; cbn [negb option_map]; [|discriminate]. apply Nat.eqb_eq in L1.
      destruct (Nat.eqb (length (node_eids n2 d)) 1) eqn:L2; cbn [negb option_map]; [|discriminate]. apply Nat.eqb_eq in L2.
      destruct (n_q n1 =? n_q n2) eqn:Q; cbn [negb option_map]; [|discriminate]. apply Z.eqb_eq in Q.
      intros E. inversion E; clear E.
      assert (S1 : node_eids n1 d = [a]).
      { apply singleton_list; [exact L1|]. rewrite <- Ha. apply (in_list_o g n1 e1 d W Hd Hn1 He1). congruence. }
      assert (S2 : node_eids n2 d = [b]).
      { apply singleton_list; [exact L2|]. rewrite <- Hb. apply (in_list_o g n2 e2 d W Hd Hn2 He2). congruence. }
      split; [exact Hd|]. split; [exact Hab|]. exists e1, e2. repeat split; auto. right.
      split; [exact Hup|]. split; [exact Hop|]. exists n1, n2. repeat split; auto.
      destruct (wf_ref R g d W Hd) as [ND _].
      rewrite fold_upd_edge; [|intros e; destruct d; reflexivity|apply ND; exact Hn2].
      unfold G_node, g2, upd_node, remove_node, remove_edge. cbn [g_nodes g_edges g_t0 g_t1]. f_equal.
      apply map_ext_in. intros e He. apply filter_In in He. destruct He as [He _].
      change (match d with O => 1%nat | S _ => O end) with (1 - d)%nat.
      rewrite (zmem_list_end R g n2 e d W Hd Hn2 He). unfold redir. rewrite Hid2, Hid1. reflexivity.
  Qed.
End MergeInv.
