(* C09 exactness -- contract (A) "kexp_global" replaced by a purely analytic contract: definitions.

   Hvec d Hs v        = (the model's dense matrix of the MPO, MPO.as_matrix = opamp_table d Hs) times the vector v;
   unitary_emb m E E' : E is a UNITARY map from the space of site tensors of shape d x Ds m x Ds (m+1) onto the vectors of
                        length d^L: linear, inner-product preserving, with two-sided inverse E';
   solver_natural G m kexp (the contract, "naturality of the solver under unitary changes of basis"):
        for every unitary E that intertwines the LOCAL operator handed to the solver, X |-> apply_local_hamiltonian BL BR W_m X,
        with the DENSE operator, E (H_loc X) = Hdense (E X), the solver is intertwined with the global flow:
        E (kexp BL BR W_m X t) = G t (E X).
   Mathematical content: for kexp(t) = exp(c t H_loc) and G t = exp(c t Hdense) this is the similarity invariance of the matrix
   exponential,  exp(t U^-1 H U) = U^-1 exp(t H) U  (U unitary; H_loc = U^-1 Hdense U is the hypothesis), equivalently
   "A U = U B  implies  exp(tA) U = U exp(tB)".  Nothing about tensor networks, environment blocks or frames is left in it:
   that H_loc = V^H Hdense V for the model's environment blocks between complete frames, and that V is unitary, is PROVED
   (Proofs/ExactGlobalEmbed.v).  A Krylov (Lanczos) solver satisfies the same contract with G t = the same Krylov iteration run on
   Hdense, because Lanczos only uses the operator, linear combinations and inner products. *)
From Coq Require Import ZArith Arith List Lia Ring Setoid Bool.
From PT Require Import Base.Scalar Base.BigSum Base.Mx Model.Tensor Model.Operation Model.Sweeps
  Proofs.OperationEntries Proofs.MPSOpsDense Proofs.MPSOpsLaws Proofs.ReverseDefs Proofs.ExactDefs.
Import ListNotations.
Open Scope nat_scope.

Section GDefs.
  Variable R : cring.
  Notation site := (site R).
  Notation osite := (osite R).
  Notation env := (env R).
  Notation mx := (mx R).
  Notation cj := (kconj R).

  (* vectors (dense states) *)
  Definition vadd (u v : list R) : list R := map (fun p => kadd R (fst p) (snd p)) (combine u v).
  Definition vscale (c : R) (v : list R) : list R := map (kmul R c) v.
  (* <u|v>, first argument conjugated *)
  Definition vdotl (u v : list R) : R := sumn (length u) (fun k => kmul R (cj (nth k u (k0 R))) (nth k v (k0 R))).
  (* site tensors *)
  Definition add_site (X Y : site) : site := tabl (length X) (fun s => addmx (sel X s) (sel Y s)).
  (* the dense operator: MPO.as_matrix times a vector *)
  Definition Hvec (d : nat) (Hs : list osite) (v : list R) : list R := matvec (opamp_table d Hs) v.

  Section Contract.
    Variable Hs : list osite.
    Variable d : nat.
    Variables Ds DW : nat -> nat.
    Notation L := (length Hs).
    Notation Wat i := (nth i Hs []).
    Notation siteT i := (wsite d (Ds i) (Ds (S i))).

    Definition unitary_emb (m : nat) (E : site -> list R) (Einv : list R -> site) : Prop :=
      let N := length (words d L) in
      (forall X, siteT m X -> length (E X) = N) /\
      (forall X Y, siteT m X -> siteT m Y -> E (add_site X Y) = vadd (E X) (E Y)) /\
      (forall c X, siteT m X -> E (scale_site c X) = vscale c (E X)) /\
      (forall X Y, siteT m X -> siteT m Y -> site_dot X Y = vdotl (E X) (E Y)) /\
      (forall v, length v = N -> siteT m (Einv v)) /\
      (forall v, length v = N -> E (Einv v) = v) /\
      (forall X, siteT m X -> Einv (E X) = X).

    Definition solver_natural (G : R -> list R -> list R) (m : nat) (kexp : kexp_t R) : Prop :=
      forall (E : site -> list R) (Einv : list R -> site) p (BL BR : env),
        wenv (DW m) (Ds m) (Ds m) BL -> wenv (DW (S m)) (Ds (S m)) (Ds (S m)) BR ->
        unitary_emb m E Einv ->
        (forall X, siteT m X -> E (apply_local_hamiltonian BL BR (Wat m) X) = Hvec d Hs (E X)) ->
        forall X t, siteT m X -> E (kexp p BL BR (Wat m) X t) = G t (E X).
  End Contract.
End GDefs.

Arguments vadd {R} u v. Arguments vscale {R} c v. Arguments vdotl {R} u v. Arguments add_site {R} X Y.
Arguments Hvec {R} d Hs v.
Arguments unitary_emb {R} Hs d Ds m E Einv. Arguments solver_natural {R} Hs d Ds DW G m kexp.
