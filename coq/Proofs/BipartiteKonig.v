(* Validity of the Koenig vertex-cover construction of minimum_vertex_cover (mirror: explore / min_vertex_cover),
   for any list m of pairs with pairwise distinct first components (in particular any matching), and the
   combination with Hopcroft-Karp validity and weak duality into the certified result. *)
From Coq Require Import ZArith List Bool Lia Sorted.
From PT Require Import Model.Bipartite Proofs.BipartiteCert Proofs.BipartiteGraphSem Proofs.BipartiteHK Proofs.BipartiteBFS.
Import ListNotations.
Open Scope Z_scope.

(* ---------- the two nested for-loops of _explore_alternating_paths as separate folds ---------- *)

Definition explore_inner (rec : Z -> list Z * list Z -> option (list Z * list Z)) (m : list (Z * Z)) (v : Z)
    (acc : option (list Z * list Z)) (u : Z) : option (list Z * list Z) :=
  match acc with None => None | Some uv' => if inm m u v then rec u uv' else Some uv' end.

Definition explore_outer (g : bg) (rec : Z -> list Z * list Z -> option (list Z * list Z)) (m : list (Z * Z)) (u0 : Z)
    (acc : option (list Z * list Z)) (v : Z) : option (list Z * list Z) :=
  match acc with None => None | Some (uvis, vvis) =>
    if inm m u0 v then Some (uvis, vvis) else
    if mem v vvis then Some (uvis, vvis) else
    fold_left (explore_inner rec m v) (adj_v g v) (Some (uvis, vvis ++ [v])) end.

Lemma explore_S g f m u0 uvis vvis :
  explore g (S f) m u0 (uvis, vvis) =
  if mem u0 uvis then Some (uvis, vvis) else
  fold_left (explore_outer g (explore g f m) m u0) (adj_u g u0) (Some (uvis ++ [u0], vvis)).
Proof. reflexivity. Qed.

Section Explore.
  Variable g : bg.
  Variable m : list (Z * Z).
  Variable start : Z.
  (* invariants carried along the alternating search (instantiate with [fun _ => True] when not needed) *)
  Variables PU PV : Z -> Prop.
  Hypothesis HPV : forall u v, PU u -> In v (adj_u g u) -> PV v.
  Hypothesis HPU : forall u v, PV v -> In (u, v) m -> PU u.

  (* all non-matching edges at u lead into V *)
  Definition closed (u : Z) (V : list Z) : Prop := forall v, In v (adj_u g u) -> In (u, v) m \/ In v V.
  (* u is the start vertex or was entered through a matching edge from a visited v *)
  Definition goodp (u : Z) (V : list Z) : Prop := u = start \/ exists v, In v V /\ In (u, v) m.
  (* every matching partner of v listed in adj_v has been visited *)
  Definition vclosed (v : Z) (U : list Z) : Prop := forall u, In u (adj_v g v) -> In (u, v) m -> In u U.

  (* relation between the visited lists before and after a completed piece of the search *)
  Record rel (a b : list Z * list Z) : Prop := {
    r_iu : incl (fst a) (fst b);
    r_iv : incl (snd a) (snd b);
    r_clo : forall u, In u (fst b) -> In u (fst a) \/ (closed u (snd b) /\ goodp u (snd b) /\ PU u);
    r_v : forall x, In x (snd b) ->
          In x (snd a) \/ ((exists u, In u (fst b) /\ In x (adj_u g u)) /\ PV x /\ vclosed x (fst b));
    r_nd : NoDup (fst a) -> NoDup (fst b) }.

  Lemma closed_mono u V V' : incl V V' -> closed u V -> closed u V'.
  Proof. intros Hi Hc v Hv. destruct (Hc v Hv) as [H|H]; [left; exact H|right; apply Hi; exact H]. Qed.

  Lemma goodp_mono u V V' : incl V V' -> goodp u V -> goodp u V'.
  Proof. intros Hi [H|[v [H1 H2]]]; [left; exact H|right]. exists v. split; [apply Hi; exact H1|exact H2]. Qed.

  Lemma vclosed_mono v U U' : incl U U' -> vclosed v U -> vclosed v U'.
  Proof. intros Hi Hc u Hu Hm. apply Hi. apply Hc; assumption. Qed.

  Lemma rel_refl a : rel a a.
  Proof.
    constructor; [apply incl_refl|apply incl_refl| | |exact (fun H => H)]; intros x Hx; left; exact Hx.
  Qed.

  Lemma rel_trans a b c : rel a b -> rel b c -> rel a c.
  Proof.
    intros [I1 I2 C1 R1 N1] [J1 J2 C2 R2 N2]. constructor.
    - eapply incl_tran; eassumption.
    - eapply incl_tran; eassumption.
    - intros u Hu. destruct (C2 u Hu) as [H|H]; [|right; exact H].
      destruct (C1 u H) as [H'|[H1 [H2 H3]]]; [left; exact H'|right].
      split; [apply (closed_mono u (snd b)); assumption|split; [apply (goodp_mono u (snd b)); assumption|exact H3]].
    - intros x Hx. destruct (R2 x Hx) as [H|H]; [|right; exact H].
      destruct (R1 x H) as [H'|[[u [H1 H2]] [H3 H4]]]; [left; exact H'|right].
      split; [exists u; split; [apply J1; exact H1|exact H2]|split; [exact H3|apply (vclosed_mono x (fst b)); assumption]].
    - intros H. apply N2. apply N1. exact H.
  Qed.

  Lemma inner_None rec v l : fold_left (explore_inner rec m v) l None = None.
  Proof. induction l as [|u l IH]; simpl; [reflexivity|exact IH]. Qed.

  Lemma outer_None rec u0 l : fold_left (explore_outer g rec m u0) l None = None.
  Proof. induction l as [|u l IH]; simpl; [reflexivity|exact IH]. Qed.

  Section Rec.
    Variable rec : Z -> list Z * list Z -> option (list Z * list Z).
    Hypothesis IHrec : forall u uv uv', goodp u (snd uv) -> PU u -> rec u uv = Some uv' -> rel uv uv' /\ In u (fst uv').

    Lemma inner_ok v (HPVv : PV v) : forall l uv uv', In v (snd uv) ->
      fold_left (explore_inner rec m v) l (Some uv) = Some uv' ->
      rel uv uv' /\ forall u, In u l -> In (u, v) m -> In u (fst uv').
    Proof.
      induction l as [|u l IH]; intros uv uv' Hv Hr; cbn [fold_left explore_inner] in Hr.
      - injection Hr as <-. split; [apply rel_refl|intros u []].
      - destruct (inm m u v) eqn:E.
        + destruct (rec u uv) as [uv1|] eqn:Er.
          * apply inm_In in E.
            assert (Hg : goodp u (snd uv)). { right. exists v. split; assumption. }
            destruct (IHrec u uv uv1 Hg (HPU u v HPVv E) Er) as [R1 Hu1].
            destruct (IH uv1 uv') as [R2 H2]; [apply (r_iv _ _ R1); exact Hv|exact Hr|].
            split; [apply rel_trans with uv1; assumption|].
            intros x [<-|Hx] Hm; [apply (r_iu _ _ R2); exact Hu1|apply H2; assumption].
          * rewrite inner_None in Hr. discriminate.
        + destruct (IH uv uv' Hv Hr) as [R H]. split; [exact R|].
          intros x [<-|Hx] Hm; [|apply H; assumption]. apply inm_In in Hm. congruence.
    Qed.

    Lemma outer_fold_ok u0 (HPUu : PU u0) : forall l, incl l (adj_u g u0) -> forall uv uv', In u0 (fst uv) ->
      fold_left (explore_outer g rec m u0) l (Some uv) = Some uv' ->
      rel uv uv' /\ forall v, In v l -> In (u0, v) m \/ In v (snd uv').
    Proof.
      induction l as [|v l IH]; intros Hincl [uvis vvis] uv' Hu0 Hr; cbn [fold_left explore_outer] in Hr.
      - injection Hr as <-. split; [apply rel_refl|intros v []].
      - assert (Hincl' : incl l (adj_u g u0)). { intros x Hx. apply Hincl. right. exact Hx. }
        assert (Hv : In v (adj_u g u0)). { apply Hincl. left. reflexivity. }
        destruct (inm m u0 v) eqn:E1.
        + destruct (IH Hincl' _ _ Hu0 Hr) as [R H]. split; [exact R|].
          intros x [<-|Hx]; [left; apply inm_In; exact E1|apply H; exact Hx].
        + destruct (mem v vvis) eqn:E2.
          * destruct (IH Hincl' _ _ Hu0 Hr) as [R H]. split; [exact R|].
            intros x [<-|Hx]; [right|apply H; exact Hx].
            apply (r_iv _ _ R). cbn [snd]. apply mem_In. exact E2.
          * destruct (fold_left (explore_inner rec m v) (adj_v g v) (Some (uvis, vvis ++ [v]))) as [uv1|] eqn:Ei.
            -- assert (HPVv : PV v) by (apply (HPV u0 v); assumption).
               destruct (inner_ok v HPVv (adj_v g v) (uvis, vvis ++ [v]) uv1) as [R1 X1];
                 [cbn [snd]; apply in_or_app; right; left; reflexivity|exact Ei|].
               cbn [fst snd] in Hu0.
               assert (Rv : rel (uvis, vvis) uv1).
               { destruct R1 as [I1 I2 C1 V1 N1]. cbn [fst snd] in *. constructor; cbn [fst snd].
                 - exact I1.
                 - intros x Hx. apply I2. apply in_or_app. left. exact Hx.
                 - exact C1.
                 - intros x Hx. destruct (V1 x Hx) as [H|H]; [|right; exact H].
                   apply in_app_or in H. destruct H as [H|[<-|[]]]; [left; exact H|right].
                   split; [exists u0; split; [apply I1; exact Hu0|exact Hv]|split; [exact HPVv|exact X1]].
                 - exact N1. }
               destruct (IH Hincl' uv1 uv') as [R2 H]; [apply (r_iu _ _ Rv); exact Hu0|exact Hr|]. split.
               ++ apply rel_trans with uv1; assumption.
               ++ intros x [<-|Hx]; [right|apply H; exact Hx].
                  apply (r_iv _ _ R2). apply (r_iv _ _ R1). cbn [snd]. apply in_or_app. right. left. reflexivity.
            -- rewrite outer_None in Hr. discriminate.
    Qed.
  End Rec.

  Lemma explore_ok : forall f u0 uv uv', goodp u0 (snd uv) -> PU u0 -> explore g f m u0 uv = Some uv' ->
    rel uv uv' /\ In u0 (fst uv').
  Proof.
    induction f as [|f IHf]; intros u0 [uvis vvis] uv' Hg HPUu Hr; [simpl in Hr; discriminate|].
    rewrite explore_S in Hr. destruct (mem u0 uvis) eqn:E.
    - injection Hr as <-. split; [apply rel_refl|apply mem_In; exact E].
    - destruct (outer_fold_ok (explore g f m) IHf u0 HPUu (adj_u g u0) (incl_refl _) (uvis ++ [u0], vvis) uv') as [R H];
        [cbn [fst]; apply in_or_app; right; left; reflexivity|exact Hr|].
      destruct R as [I1 I2 C V N]. cbn [fst snd] in *. split.
      + constructor; cbn [fst snd].
        * intros x Hx. apply I1. apply in_or_app. left. exact Hx.
        * exact I2.
        * intros u Hu. destruct (C u Hu) as [Hin|Hc]; [|right; exact Hc].
          apply in_app_or in Hin. destruct Hin as [Hin|[<-|[]]]; [left; exact Hin|right].
          split; [intros v Hv; apply H; exact Hv|split; [apply (goodp_mono u0 vvis); assumption|exact HPUu]].
        * exact V.
        * intros Hnd. apply N. apply NoDup_snoc; [exact Hnd|]. intros Hin. apply mem_In in Hin. congruence.
      + apply I1. apply in_or_app. right. left. reflexivity.
  Qed.

  (* ---------- explore never exhausts its depth fuel (each level adds a new U-vertex to uvis) ---------- *)

  Hypothesis HPU_us : forall u, PU u -> In u (us g).

  Lemma rel_us a b : rel a b -> incl (fst a) (us g) -> incl (fst b) (us g).
  Proof. intros R Ha u Hu. destruct (r_clo _ _ R u Hu) as [H|[_ [_ H]]]; [apply Ha; exact H|apply HPU_us; exact H]. Qed.

  Lemma rel_len a b : rel a b -> NoDup (fst a) -> (length (fst a) <= length (fst b))%nat.
  Proof. intros R Ha. apply NoDup_incl_length; [exact Ha|apply (r_iu _ _ R)]. Qed.

  Section RecT.
    Variable fr : nat.
    Variable rec : Z -> list Z * list Z -> option (list Z * list Z).
    Hypothesis IHrec : forall u uv uv', goodp u (snd uv) -> PU u -> rec u uv = Some uv' -> rel uv uv' /\ In u (fst uv').
    Hypothesis IHtot : forall u uv, goodp u (snd uv) -> PU u -> NoDup (fst uv) -> incl (fst uv) (us g) ->
      (nu g + 1 <= fr + length (fst uv))%nat -> exists uv', rec u uv = Some uv'.

    Lemma inner_total v (HPVv : PV v) : forall l uv, In v (snd uv) -> NoDup (fst uv) -> incl (fst uv) (us g) ->
      (nu g + 1 <= fr + length (fst uv))%nat -> exists uv', fold_left (explore_inner rec m v) l (Some uv) = Some uv'.
    Proof.
      induction l as [|u l IH]; intros uv Hv Hnd Hus Hf; cbn [fold_left explore_inner].
      - eexists. reflexivity.
      - destruct (inm m u v) eqn:E; [|apply IH; assumption].
        apply inm_In in E.
        assert (Hg : goodp u (snd uv)). { right. exists v. split; assumption. }
        pose proof (HPU u v HPVv E) as HPUu.
        destruct (IHtot u uv Hg HPUu Hnd Hus Hf) as [uv1 Er]. rewrite Er.
        destruct (IHrec u uv uv1 Hg HPUu Er) as [R1 _].
        apply IH; [apply (r_iv _ _ R1); exact Hv|apply (r_nd _ _ R1); exact Hnd|apply (rel_us _ _ R1); exact Hus|].
        pose proof (rel_len _ _ R1 Hnd). lia.
    Qed.

    Lemma outer_fold_total u0 (HPUu : PU u0) : forall l, incl l (adj_u g u0) -> forall uv, In u0 (fst uv) ->
      NoDup (fst uv) -> incl (fst uv) (us g) -> (nu g + 1 <= fr + length (fst uv))%nat ->
      exists uv', fold_left (explore_outer g rec m u0) l (Some uv) = Some uv'.
    Proof.
      induction l as [|v l IH]; intros Hincl [uvis vvis] Hu0 Hnd Hus Hf; cbn [fold_left explore_outer].
      - eexists. reflexivity.
      - assert (Hincl' : incl l (adj_u g u0)). { intros x Hx. apply Hincl. right. exact Hx. }
        assert (Hv : In v (adj_u g u0)). { apply Hincl. left. reflexivity. }
        destruct (inm m u0 v); [apply IH; assumption|].
        destruct (mem v vvis); [apply IH; assumption|].
        assert (HPVv : PV v) by (apply (HPV u0 v); assumption).
        cbn [fst snd] in *.
        destruct (inner_total v HPVv (adj_v g v) (uvis, vvis ++ [v])) as [uv1 Ei]; cbn [fst snd]; try assumption.
        { apply in_or_app. right. left. reflexivity. }
        rewrite Ei.
        destruct (inner_ok rec IHrec v HPVv (adj_v g v) (uvis, vvis ++ [v]) uv1) as [R1 _];
          [cbn [snd]; apply in_or_app; right; left; reflexivity|exact Ei|].
        apply IH; [exact Hincl'|apply (r_iu _ _ R1); exact Hu0|apply (r_nd _ _ R1); exact Hnd
                  |apply (rel_us _ _ R1); exact Hus|].
        pose proof (rel_len _ _ R1 Hnd) as Hl. cbn [fst] in Hl. lia.
    Qed.
  End RecT.

  Lemma explore_total : forall f u0 uv, goodp u0 (snd uv) -> PU u0 -> NoDup (fst uv) -> incl (fst uv) (us g) ->
    (nu g + 1 <= f + length (fst uv))%nat -> exists uv', explore g f m u0 uv = Some uv'.
  Proof.
    induction f as [|f IHf]; intros u0 [uvis vvis] Hg HPUu Hnd Hus Hf; cbn [fst snd] in *.
    - pose proof (NoDup_incl_length Hnd Hus) as Hl. rewrite us_length in Hl. lia.
    - rewrite explore_S. destruct (mem u0 uvis) eqn:E; [eexists; reflexivity|].
      assert (Hnin : ~ In u0 uvis). { intros Hin. apply mem_In in Hin. congruence. }
      apply (outer_fold_total f (explore g f m) (explore_ok f) IHf u0 HPUu (adj_u g u0) (incl_refl _)); cbn [fst snd].
      + apply in_or_app. right. left. reflexivity.
      + apply NoDup_snoc; assumption.
      + intros x Hx. apply in_app_or in Hx. destruct Hx as [Hx|[<-|[]]]; [apply Hus; exact Hx|apply HPU_us; exact HPUu].
      + rewrite app_length. simpl. lia.
  Qed.
End Explore.

(* ---------- sortedness of the returned lists ---------- *)

Lemma SS_filter (P : Z -> bool) l : StronglySorted Z.lt l -> StronglySorted Z.lt (filter P l).
Proof.
  induction 1 as [|a l Hs IH Hf]; simpl; [constructor|]. destruct (P a); [|exact IH].
  constructor; [exact IH|]. rewrite Forall_forall in *. intros x Hx. apply Hf. apply filter_In in Hx. apply Hx.
Qed.

Lemma insert_sorted_In x l y : In y (insert_sorted x l) <-> y = x \/ In y l.
Proof.
  induction l as [|a l IH]; simpl.
  - split; intros [H|[]]; left; symmetry; exact H.
  - destruct (x <? a) eqn:E1.
    + simpl. split; [intros [H|H]; [left; symmetry; exact H|right; exact H]|intros [H|H]; [left; symmetry; exact H|right; exact H]].
    + destruct (Z.eqb_spec x a) as [E2|E2].
      * simpl. split; [intros H; right; exact H|]. intros [H|H]; [left; congruence|exact H].
      * simpl. rewrite IH. split.
        -- intros [H|[H|H]]; [right; left; exact H|left; exact H|right; right; exact H].
        -- intros [H|[H|H]]; [right; left; exact H|left; exact H|right; right; exact H].
Qed.

Lemma insert_sorted_SS x l : StronglySorted Z.lt l -> StronglySorted Z.lt (insert_sorted x l).
Proof.
  induction 1 as [|a l Hs IH Hf]; simpl; [repeat constructor|].
  destruct (x <? a) eqn:E1.
  - apply Z.ltb_lt in E1. constructor; [constructor; assumption|]. constructor; [exact E1|].
    rewrite Forall_forall in *. intros y Hy. specialize (Hf y Hy). lia.
  - apply Z.ltb_ge in E1. destruct (Z.eqb_spec x a) as [E2|E2]; [constructor; assumption|].
    constructor; [exact IH|]. rewrite Forall_forall in *. intros y Hy. apply insert_sorted_In in Hy.
    destruct Hy as [->|Hy]; [lia|apply Hf; exact Hy].
Qed.

Lemma fold_insert_In x : forall vs vc, In x (fold_left (fun l v => insert_sorted v l) vs vc) <-> In x vs \/ In x vc.
Proof.
  induction vs as [|v vs IH]; intros vc; simpl.
  - split; [intros H; right; exact H|intros [[]|H]; exact H].
  - rewrite IH, insert_sorted_In. split.
    + intros [H|[H|H]]; [left; right; exact H|left; left; symmetry; exact H|right; exact H].
    + intros [[H|H]|H]; [right; left; symmetry; exact H|left; exact H|right; right; exact H].
Qed.

Lemma fold_insert_SS : forall vs vc, StronglySorted Z.lt vc ->
  StronglySorted Z.lt (fold_left (fun l v => insert_sorted v l) vs vc).
Proof. induction vs as [|v vs IH]; intros vc H; simpl; [exact H|]. apply IH. apply insert_sorted_SS. exact H. Qed.

Lemma SS_zseq s n : StronglySorted Z.lt (map Z.of_nat (seq s n)).
Proof.
  revert s. induction n as [|n IH]; intros s; simpl; constructor; [apply IH|].
  rewrite Forall_forall. intros x Hx. apply in_map_iff in Hx. destruct Hx as [k [<- Hk]]. apply in_seq in Hk. lia.
Qed.

Lemma SS_NoDup l : StronglySorted Z.lt l -> NoDup l.
Proof.
  induction 1 as [|a l Hs IH Hf]; constructor; [|exact IH].
  intros Hin. rewrite Forall_forall in Hf. specialize (Hf _ Hin). lia.
Qed.

Lemma SS_sortedb l : StronglySorted Z.lt l -> sortedb l = true.
Proof.
  induction 1 as [|a l Hs IH Hf]; [reflexivity|]. destruct l as [|b t]; [reflexivity|].
  change (sortedb (a :: b :: t)) with ((a <? b) && sortedb (b :: t)). rewrite IH.
  inversion Hf as [|? ? Hab _]; subst. apply Z.ltb_lt in Hab. rewrite Hab. reflexivity.
Qed.

(* ---------- the cover construction for a given list m ---------- *)

Definition cover_step (g : bg) (m : list (Z * Z)) (acc : option (list Z * list Z)) (u : Z) : option (list Z * list Z) :=
  match acc with None => None | Some (uc, vc) =>
    match explore g (nu g + 2) m u ([], []) with None => None
    | Some (uvis, vvis) => Some (filter (fun x => negb (mem x uvis)) uc,
                                 fold_left (fun l v => insert_sorted v l) vvis vc) end end.
Definition alist_of (g : bg) (m : list (Z * Z)) : list Z :=
  filter (fun u => negb (existsb (fun p => fst p =? u) m)) (us g).
Definition cover_of (g : bg) (m : list (Z * Z)) : option (list Z * list Z) :=
  fold_left (cover_step g m) (alist_of g m) (Some (us g, [])).

Lemma min_vertex_cover_unfold g :
  min_vertex_cover g =
  match hopcroft_karp g with None => None | Some m =>
    match cover_of g m with None => None | Some (uc, vc) =>
      if Nat.eqb (length uc + length vc) (length m) then Some (uc, vc) else None end end.
Proof. reflexivity. Qed.

Lemma NoDup_map_fst_fun {A B} (l : list (A * B)) a b b' :
  NoDup (map fst l) -> In (a, b) l -> In (a, b') l -> b = b'.
Proof.
  induction l as [|[x y] l IH]; simpl; intros Hnd H1 H2; [contradiction|].
  inversion Hnd as [|? ? Hx Hnd']; subst.
  destruct H1 as [H1|H1], H2 as [H2|H2].
  - congruence.
  - inversion H1; subst. exfalso. apply Hx. apply in_map_iff. exists (a, b'). split; [reflexivity|exact H2].
  - inversion H2; subst. exfalso. apply Hx. apply in_map_iff. exists (a, b). split; [reflexivity|exact H1].
  - apply IH; assumption.
Qed.

Section Cover.
  Variable g : bg.
  Hypothesis Hadj : adj_ok g.
  Variable m : list (Z * Z).
  Hypothesis Hm : NoDup (map fst m).
  Let NV := Z.of_nat (nv g).

  (* a completed search from an unmatched start: every visited u has all its neighbours in vvis *)
  Lemma explore_start_closed f s uvis vvis : (forall v, ~ In (s, v) m) ->
    explore g f m s ([], []) = Some (uvis, vvis) ->
    (forall u, In u uvis -> forall v, In v (adj_u g u) -> In v vvis) /\ (forall v, In v vvis -> 0 <= v < NV).
  Proof.
    intros Hs Hr.
    destruct (explore_ok g m s (fun _ => True) (fun _ => True) (fun _ _ _ _ => I) (fun _ _ _ _ => I)
                f s ([], []) (uvis, vvis) (or_introl eq_refl) I Hr) as [[_ _ C R _] _].
    cbn [fst snd] in *. split.
    - intros u Hu v Hv. destruct (C u Hu) as [[]|[Hc [Hg _]]].
      destruct (Hc v Hv) as [Hin|Hin]; [|exact Hin].
      destruct Hg as [->|[v' [Hv' Hin']]]; [exfalso; exact (Hs v Hin)|].
      rewrite (NoDup_map_fst_fun m u v v' Hm Hin Hin'). exact Hv'.
    - intros v Hv. destruct (R v Hv) as [[]|[[u [_ Hu]] _]]. apply (Hadj u v Hu).
  Qed.

  Definition cover_inv (c : list Z * list Z) : Prop :=
    (forall u, In u (us g) -> In u (fst c) \/ forall v, In v (adj_u g u) -> In v (snd c)) /\
    StronglySorted Z.lt (fst c) /\ StronglySorted Z.lt (snd c) /\
    incl (fst c) (us g) /\ (forall v, In v (snd c) -> 0 <= v < NV).

  Lemma cover_fold_None l : fold_left (cover_step g m) l None = None.
  Proof. induction l as [|u l IH]; simpl; [reflexivity|exact IH]. Qed.

  Lemma cover_fold_ok : forall l, (forall s, In s l -> forall v, ~ In (s, v) m) ->
    forall c c', cover_inv c -> fold_left (cover_step g m) l (Some c) = Some c' -> cover_inv c'.
  Proof.
    induction l as [|s l IH]; intros Hl [uc vc] c' Hc Hr; cbn [fold_left cover_step] in Hr.
    - injection Hr as <-. exact Hc.
    - destruct (explore g (nu g + 2) m s ([], [])) as [[uvis vvis]|] eqn:Ee.
      2:{ rewrite cover_fold_None in Hr. discriminate. }
      destruct (explore_start_closed _ s uvis vvis (Hl s (or_introl eq_refl)) Ee) as [Hcl Hrange].
      refine (IH (fun s' Hs' => Hl s' (or_intror Hs')) _ c' _ Hr).
      destruct Hc as [J1 [J2 [J3 [J4 J5]]]]. cbn [fst snd] in *.
      split; [|split; [|split; [|split]]]; cbn [fst snd].
      + intros u Hu. destruct (J1 u Hu) as [H|H].
        * destruct (mem u uvis) eqn:Em.
          -- right. intros v Hv. apply fold_insert_In. left. apply (Hcl u); [apply mem_In; exact Em|exact Hv].
          -- left. apply filter_In. split; [exact H|]. rewrite Em. reflexivity.
        * right. intros v Hv. apply fold_insert_In. right. apply H. exact Hv.
      + apply SS_filter. exact J2.
      + apply fold_insert_SS. exact J3.
      + intros x Hx. apply filter_In in Hx. apply J4. apply Hx.
      + intros v Hv. apply fold_insert_In in Hv. destruct Hv as [Hv|Hv]; [apply Hrange|apply J5]; exact Hv.
  Qed.

  Lemma alist_unmatched s : In s (alist_of g m) -> forall v, ~ In (s, v) m.
  Proof.
    unfold alist_of. rewrite filter_In. intros [_ H] v Hin. apply negb_true_iff in H.
    assert (Ht : existsb (fun p => fst p =? s) m = true).
    { apply existsb_exists. exists (s, v). split; [exact Hin|]. cbn [fst]. apply Z.eqb_refl. }
    congruence.
  Qed.

  Lemma cover_of_inv c : cover_of g m = Some c -> cover_inv c.
  Proof.
    intros Hr. apply (cover_fold_ok (alist_of g m) alist_unmatched (us g, []) c); [|exact Hr].
    split; [|split; [|split; [|split]]]; cbn [fst snd].
    - intros u Hu. left. exact Hu.
    - apply SS_zseq.
    - constructor.
    - apply incl_refl.
    - intros v [].
  Qed.

  (* For any m with distinct first components the construction yields a vertex cover with in-range,
     strictly increasing (hence duplicate-free) entries. *)
  Lemma cover_of_valid uc vc : cover_of g m = Some (uc, vc) ->
    Cover g uc vc /\
    (forall u, In u uc -> 0 <= u < Z.of_nat (nu g)) /\ (forall v, In v vc -> 0 <= v < Z.of_nat (nv g)) /\
    StronglySorted Z.lt uc /\ StronglySorted Z.lt vc.
  Proof.
    intros Hr. destruct (cover_of_inv _ Hr) as [J1 [J2 [J3 [J4 J5]]]]. cbn [fst snd] in *.
    split; [|split; [|split; [|split]]]; try assumption.
    - intros u v He. unfold has_edge in He. rewrite !andb_true_iff in He. destruct He as [[Hu _] Hv].
      apply mem_In in Hv. destruct (J1 u (in_range_us g u Hu)) as [H|H]; [left; exact H|right; apply H; exact Hv].
    - intros u Hu. apply us_In. apply J4. exact Hu.
  Qed.
End Cover.

(* ---------- the routine itself ---------- *)

Definition cover_wf (g : bg) (uc vc : list Z) : Prop :=
  (forall u, In u uc -> 0 <= u < Z.of_nat (nu g)) /\ (forall v, In v vc -> 0 <= v < Z.of_nat (nv g)) /\
  StronglySorted Z.lt uc /\ StronglySorted Z.lt vc /\ NoDup uc /\ NoDup vc /\
  sortedb uc = true /\ sortedb vc = true.

Lemma mvc_inversion g uc vc : min_vertex_cover g = Some (uc, vc) ->
  exists m, hopcroft_karp g = Some m /\ cover_of g m = Some (uc, vc) /\ (length uc + length vc = length m)%nat.
Proof.
  rewrite min_vertex_cover_unfold. destruct (hopcroft_karp g) as [m|]; [|discriminate].
  destruct (cover_of g m) as [[uc' vc']|] eqn:Ec; [|discriminate].
  destruct (Nat.eqb_spec (length uc' + length vc') (length m)) as [E|E]; [|discriminate].
  intros H. injection H as <- <-. exists m. split; [reflexivity|split; [exact Ec|exact E]].
Qed.

(* Whenever minimum_vertex_cover's mirror returns, the result is a vertex cover of g with in-range,
   sorted, duplicate-free entries. *)
Theorem konig_cover_valid g uc vc : adj_ok g ->
  min_vertex_cover g = Some (uc, vc) -> Cover g uc vc /\ cover_wf g uc vc.
Proof.
  intros Hadj Hr. destruct (mvc_inversion g uc vc Hr) as [m [Hm [Hc _]]].
  destruct (hk_matching_valid g Hadj m Hm) as [_ [Hnd _]].
  destruct (cover_of_valid g Hadj m Hnd uc vc Hc) as [H1 [H2 [H3 [H4 H5]]]].
  split; [exact H1|]. unfold cover_wf.
  split; [exact H2|split; [exact H3|split; [exact H4|split; [exact H5|]]]].
  split; [apply SS_NoDup; exact H4|split; [apply SS_NoDup; exact H5|]].
  split; apply SS_sortedb; assumption.
Qed.

(* Whenever the mirror of minimum_vertex_cover returns (its own size assertion passed), the Hopcroft-Karp result
   is a maximum matching and the returned cover is a minimum vertex cover. *)
Theorem mvc_certified g uc vc : adj_ok g ->
  min_vertex_cover g = Some (uc, vc) ->
  exists m, hopcroft_karp g = Some m /\ Matching g m /\ Cover g uc vc /\ cover_wf g uc vc /\
            (length uc + length vc = length m)%nat /\
            (forall m', Matching g m' -> (length m' <= length m)%nat) /\
            (forall uc' vc', Cover g uc' vc' -> (length uc + length vc <= length uc' + length vc')%nat).
Proof.
  intros Hadj Hr. destruct (mvc_inversion g uc vc Hr) as [m [Hm [_ Hsz]]].
  pose proof (hk_matching_valid g Hadj m Hm) as HM.
  destruct (konig_cover_valid g uc vc Hadj Hr) as [HC Hwf].
  destruct (certificate_optimal g m uc vc HM HC Hsz) as [Hmax Hmin].
  exists m. split; [exact Hm|split; [exact HM|split; [exact HC|split; [exact Hwf|split; [exact Hsz|]]]]].
  split; [exact Hmax|exact Hmin].
Qed.

Theorem mvc_certified_mk n_u n_v edges uc vc : (forall e, In e edges -> edge_ok n_u n_v e) ->
  min_vertex_cover (mk_bg n_u n_v edges) = Some (uc, vc) ->
  exists m, hopcroft_karp (mk_bg n_u n_v edges) = Some m /\ Matching (mk_bg n_u n_v edges) m /\
            Cover (mk_bg n_u n_v edges) uc vc /\ cover_wf (mk_bg n_u n_v edges) uc vc /\
            (length uc + length vc = length m)%nat /\
            (forall m', Matching (mk_bg n_u n_v edges) m' -> (length m' <= length m)%nat) /\
            (forall uc' vc', Cover (mk_bg n_u n_v edges) uc' vc' -> (length uc + length vc <= length uc' + length vc')%nat).
Proof. intros Hok. apply mvc_certified. apply mk_bg_adj_ok. exact Hok. Qed.
