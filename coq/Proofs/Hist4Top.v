(* C02, round 4 (1), continued: the history theorem without the hypothesis "split_matrix_svd meets C12's conclusion".

   [C02_history_inv] (Proofs/Hist3Top.v history_inv_contracts) leaves, for the SplitMerge step, the hypothesis
       valid input  ->  svd_ans_ok (or_svd O tag M q0 q1)                                     (oracle_ok_at / split_call_ok)
   which HistSplit.split_contract_from_C12 discharges for the model [block_svd] on NON-ZERO input only.  Here the result
   function of the step is the mirror of split_matrix_svd as it stands ([svd_result5], Model/BondOpsF5.v), and the hypothesis is
   replaced by LAPACK's contract on the calls the step issues ([split_lapack_ok]: numpy.linalg.svd on the blocks; numpy.argsort
   of retained_bond_indices only if the matrix is not zero; 0 <= tol < 1) -- for EVERY merged tensor, zero or not
   (Proofs/Hist4Zero.v split_contract_all).  The same for the split_mps_tensor calls of the two-site sweeps
   ([split5], [split5_sp_ok], [lz5_tr_sp]). *)
From Coq Require Import ZArith List Lia Bool Arith Ring.
From PT Require Import Base.Scalar Base.Field Base.BigSum Base.Mx Model.Tensor Model.MPSOps Model.BondOps Model.BondOpsF5 Model.Operation Model.Krylov Model.Sweeps.
From PT Require Import Model.Orthonormalize Model.History.
From PT Require Import Proofs.BondOpsPerm Proofs.BondOpsLoop Proofs.BondOpsSpec Proofs.BondOpsRetained Proofs.BondOpsSVD.
From PT Require Import Proofs.LinkFlatten Proofs.LinkSolvers Proofs.OrthTop Proofs.CompressTop Proofs.CompressPartial.
From PT Require Import Proofs.HistSparse Proofs.HistChain Proofs.HistOps Proofs.HistInv Proofs.HistOrth Proofs.HistSplit.
From PT Require Import Proofs.Hist2Compress Proofs.Hist2Local Proofs.Hist2Krylov Proofs.Hist2Solvers Proofs.Hist2Sweep Proofs.Hist2Dmrg Proofs.Hist2Top.
From PT Require Import Proofs.Hist3Sweep2 Proofs.Hist3Top Proofs.Hist4Zero.
Import ListNotations.
Open Scope nat_scope.

Section Split5.
  Variable F : ofield.
  Notation CF := (Cx F).
  Variable dsvd : mx CF -> mx CF * list F * mx CF.
  Variable pick : list F -> list nat.

  (* LAPACK's contract on the primitives called by ONE split_matrix_svd(M, q0, q1, tol): only if the assertions at the top of
     the routine pass (otherwise nothing is called) *)
  Definition svd_lapack_ok (tol : F) (M : mx CF) (q0 q1 : list Z) : Prop :=
    valid_in M q0 q1 = true ->
    fle F (f0 F) tol /\ flt F tol (f1 F) /\
    Forall (fun B => dsvd_ok F B (dsvd B)) (block_svd_calls M q0 q1) /\
    (is_zeromx M = false -> let S := block_svd_spectrum F dsvd M q0 q1 in pick_ok F (normsq S) (pick (normsq S))).
  Definition split_lapack_ok (tol : F) (c : option (mx CF * list Z * list Z)) : Prop :=
    match c with Some (M, q0, q1) => svd_lapack_ok tol M q0 q1 | None => True end.

  Theorem split_call_ok5 (tol : F) c : split_lapack_ok tol c -> split_call_ok CF (svd_result5 dsvd pick tol) c.
  Proof.
    destruct c as [[[M q0] q1]|]; [|intros _; exact I]. unfold split_lapack_ok, split_call_ok, svd_lapack_ok.
    intros H Hv. destruct (H Hv) as (Ht0 & Ht1 & Hc & Hp).
    exact (split_contract_all F dsvd pick M q0 q1 tol Hv Ht0 Ht1 Hc Hp).
  Qed.

  (* the SplitMerge step of the state machine, result function = the mirror of split_matrix_svd *)
  Theorem split_step_contract (tols : nat -> F) (O : oracles CF) (s : state CF) (i k distr tag : nat) :
    or_svd O tag = svd_result5 dsvd pick (tols tag) ->
    (forall p, nth_error (states s) i = Some p -> split_lapack_ok (tols tag) (split_call CF k (m_qd p) (m_qD p) (m_A p))) ->
    oracle_ok_at CF O s (SplitMerge i k distr tag).
  Proof. intros EO H. cbn [oracle_ok_at]. intros p Ep. rewrite EO. apply split_call_ok5. exact (H p Ep). Qed.

  (* ---------- split_mps_tensor of the two-site sweeps: Model/MPSOps.v around the mirror of split_matrix_svd ---------- *)
  Variable ksqrt : CF -> CF.
  Definition split5 (tol : F) (_ : nat) (Am : site CF) (q0 q1 q2 q3 : list Z) (left : bool) : site CF * site CF * list Z :=
    split_mps_tensor (svd_result5 dsvd pick tol) ksqrt Am q0 q1 q2 q3 (if left then 0 else 1).

  Theorem split5_sp_ok (tol : F) p (Am : site CF) q0 q1 q2 q3 left : 0 < length q0 * length q1 ->
    svd_lapack_ok tol (split_matrix (length q0) (length q1) Am) (MPSOps.qflat q0 q2) (MPSOps.qflat (map Z.opp q1) q3) ->
    site_okP CF (Sweeps.qflat q0 q1) q2 q3 Am -> split_sp_ok CF q0 q1 q2 q3 (split5 tol p Am q0 q1 q2 q3 left).
  Proof.
    intros Hd Hl HA. unfold split5. apply split_sp_of_C12; [exact Hd| |exact HA].
    intros HA'. pose proof (split_input_valid CF Am q0 q1 q2 q3 HA' Hd) as Hv.
    destruct (Hl Hv) as (Ht0 & Ht1 & Hc & Hp).
    exact (split_contract_all F dsvd pick _ _ _ tol Hv Ht0 Ht1 Hc Hp).
  Qed.
End Split5.

(* ---------- traces of the two-site sweeps with the Krylov solvers and [split5]: what is left to assume of a recorded call ---------- *)
Section Lanczos5.
  Variable F : ofield.
  Notation K := (Cx F).
  Variable dnorm : list K -> F.
  Variable small : F -> bool.
  Variable deigh : list F -> list F -> list F * list (list F).
  Variable dexp : K -> K.
  Variable dexpm : list (list K) -> list (list K).
  Variable numiter : nat.
  Variable qr : nat -> mx K -> list Z -> list Z -> mx K * mx K * list Z.
  Variable dsvd : mx K -> mx K * list F * mx K.
  Variable pick : list F -> list nat.
  Variable ksqrt : K -> K.
  Variable tol : F.
  Variables (Hs : list (osite K)) (qd : list Z) (qWs : list (list Z)) (dt hdt : K).
  Notation kexpL := (kexp_lanczos F dnorm small deigh dexp dexpm numiter).
  Notation kexp0L := (kexp0_lanczos F dnorm small deigh dexp dexpm numiter).
  Notation keigL := (keig_lanczos F dnorm small deigh numiter).
  Notation splitL := (split5 F dsvd pick ksqrt tol).
  Hypothesis Hd : 0 < length qd.
  Hypothesis HWs : chainP (osite_okP K qd) qWs Hs.
  Hypothesis HWpos : forall j, j <= length Hs -> 0 < length (nth j qWs []).

  (* solver calls return; LAPACK's SVD / argsort contract on the split calls; C11's conclusion on the QR calls *)
  Definition lz5_call_ok (p : nat) (t : tcall K) : Prop :=
    match c_kind (t_call t), t_ten t, t_qs t with
    | SPLITL, [Am], [q0; q1; q2; q3] | SPLITR, [Am], [q0; q1; q2; q3] =>
        0 < length q0 * length q1 /\
        svd_lapack_ok F dsvd pick tol (split_matrix (length q0) (length q1) Am) (MPSOps.qflat q0 q2) (MPSOps.qflat (map Z.opp q1) q3)
    | _, _, _ => lz2_call_ok F dnorm small deigh dexp dexpm numiter qr splitL Hs dt hdt p t
    end.

  Theorem lz5_call_lz2 p t : lz5_call_ok p t -> lz2_call_ok F dnorm small deigh dexp dexpm numiter qr splitL Hs dt hdt p t.
  Proof.
    unfold lz5_call_ok, lz2_call_ok. cbv zeta.
    destruct (c_kind (t_call t)); try exact (fun H => H);
      destruct (t_ten t) as [|Am [|? ?]]; try exact (fun H => H);
      destruct (t_qs t) as [|q0 [|q1 [|q2 [|q3 [|? ?]]]]]; try exact (fun H => H).
    - intros [H1 H2]. destruct (t_envs t) as [|? [|? [|? ?]]]; intros HA; apply split5_sp_ok; assumption.
    - intros [H1 H2]. destruct (t_envs t) as [|? [|? [|? ?]]]; intros HA; apply split5_sp_ok; assumption.
  Qed.

  Fixpoint lz5_tr_ok (tr : list (tcall K)) : Prop :=
    match tr with [] => True | t :: rest => lz5_call_ok (length rest) t /\ lz5_tr_ok rest end.
  Theorem lz5_tr_sp tr : lz5_tr_ok tr -> sp2_tr_ok K qr splitL kexpL kexp0L keigL Hs qd qWs dt hdt tr.
  Proof.
    intros H. apply (lz2_tr_sp F dnorm small deigh dexp dexpm numiter qr splitL Hs qd qWs dt hdt Hd HWs HWpos).
    induction tr as [|t tr IH]; [exact I|]. destruct H as [H1 H2]. split; [apply lz5_call_lz2; exact H1|apply IH; exact H2].
  Qed.
End Lanczos5.

(* ---------- the history theorem ---------- *)
Section Final5.
  Variable F : ofield.
  Notation CF := (Cx F).
  Variable dqr : mx CF -> mx CF * mx CF.
  Variable dsvd : mx CF -> mx CF * list F * mx CF.
  Variable pick : list F -> list nat.
  Variable cabs : CF -> F.
  Variable tolf : nat -> F.          (* tolerance of MPS.compress, by tag *)
  Variable tols : nat -> F.          (* tolerance of split_mps_tensor in a SplitMerge step, by tag *)
  Variable orth : mps CF -> mps CF * CF.
  Variable qr : nat -> mx CF -> list Z -> list Z -> mx CF * mx CF * list Z.
  Variable split : nat -> site CF -> list Z -> list Z -> list Z -> list Z -> bool -> site CF * site CF * list Z.
  Variable kexp : nat -> env CF -> env CF -> osite CF -> site CF -> CF -> site CF.
  Variable kexp0 : nat -> env CF -> env CF -> mx CF -> CF -> mx CF.
  Variable keig : nat -> env CF -> env CF -> osite CF -> site CF -> CF * site CF.
  Variable tdvp_par : nat -> CF * CF * nat.
  Variable dmrg_par : nat -> nat.

  (* every result function of the state machine is its executable model, now including split_matrix_svd *)
  Definition model_oracles5 (O : oracles CF) : Prop :=
    model_oracles F dqr dsvd pick cabs tolf orth qr split kexp kexp0 keig tdvp_par dmrg_par O /\
    (forall tag, or_svd O tag = svd_result5 dsvd pick (tols tag)).

  (* SplitMerge: LAPACK's contract on the calls of the one split_matrix_svd; everything else as in [contracts_at] *)
  Definition contracts_at5 (O : oracles CF) (s : state CF) (o : op CF) : Prop :=
    match o with
    | SplitMerge i k _ tag =>
        forall p, nth_error (states s) i = Some p ->
          split_lapack_ok F dsvd pick (tols tag) (split_call CF k (m_qd p) (m_qD p) (m_A p))
    | _ => contracts_at F dqr dsvd pick cabs tolf orth qr split kexp kexp0 keig tdvp_par dmrg_par O s o
    end.
  Fixpoint contracts_ok5 (O : oracles CF) (ops : list (op CF)) (s : state CF) : Prop :=
    match ops with [] => True | o :: r => contracts_at5 O s o /\ contracts_ok5 O r (step O s o) end.

  Theorem contracts_at5_at (O : oracles CF) (s : state CF) (o : op CF) :
    model_oracles5 O -> contracts_at5 O s o ->
    contracts_at F dqr dsvd pick cabs tolf orth qr split kexp kexp0 keig tdvp_par dmrg_par O s o.
  Proof.
    intros [HO Hsvd] H. destruct o; try exact H.
    cbn [contracts_at5] in H. cbn [contracts_at oracle_ok_at]. intros p Ep. rewrite Hsvd. apply split_call_ok5. exact (H p Ep).
  Qed.

  Theorem history_inv5 (O : oracles CF) : model_oracles5 O ->
    forall (ops : list (op CF)) (s : state CF), Inv CF s -> contracts_ok5 O ops s -> Inv CF (run O ops s).
  Proof.
    intros HO ops s HI Hc. apply (history_inv_contracts F dqr dsvd pick cabs tolf orth qr split kexp kexp0 keig tdvp_par dmrg_par O (proj1 HO)); [exact HI|].
    revert s HI Hc. induction ops as [|o ops IH]; intros s HI Hc; [exact I|].
    destruct Hc as [H1 H2]. pose proof (contracts_at5_at O s o HO H1) as H1'.
    split; [exact H1'|]. apply IH; [|exact H2].
    apply step_inv; [exact HI|]. exact (contracts_at_oracle_ok F dqr dsvd pick cabs tolf orth qr split kexp kexp0 keig tdvp_par dmrg_par O s o (proj1 HO) H1').
  Qed.

  (* after every prefix *)
  Theorem history_inv5_prefix (O : oracles CF) : model_oracles5 O ->
    forall (ops1 ops2 : list (op CF)) (s : state CF), Inv CF s -> contracts_ok5 O (ops1 ++ ops2) s -> Inv CF (run O ops1 s).
  Proof.
    intros HO ops1 ops2 s HI Hc. apply (history_inv5 O HO); [exact HI|].
    revert s HI Hc. induction ops1 as [|o ops IH]; intros s HI Hc; [exact I|].
    destruct Hc as [H1 H2]. split; [exact H1|]. apply IH; [|exact H2].
    apply step_inv; [exact HI|].
    exact (contracts_at_oracle_ok F dqr dsvd pick cabs tolf orth qr split kexp kexp0 keig tdvp_par dmrg_par O s o (proj1 HO) (contracts_at5_at O s o HO H1)).
  Qed.
End Final5.
