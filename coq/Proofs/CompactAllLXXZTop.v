(* C20, all lattice sizes, XXZ family, part 3: assembly.
   The local table  o1 o2 = S+ S-, S- S+ (charge step c), Sz Sz, and the one-site term Sz, all coefficients non-zero,
   translated over L sites (what _local_opchains_to_mpo hands to from_opchains):
   the covers chosen by ANY certified cover oracle have sizes [4, 5, ..., 5, 4, 1] ([4, 1], [4, 4, 1], [1] for small L),
   hence (Proofs/CompactAllLWidths.v) the MPO has bond dimensions dims_xxz L, for every L >= 1. *)
From Coq Require Import ZArith List Lia Bool.
From PT Require Import Base.Scalar Base.BigSum Base.Mx Model.OpGraph Model.Bipartite Model.FromOpchains Model.GraphMPO
                       Model.Rewrites Model.Hamiltonians Model.Compact Model.CompactAllL
                       Proofs.FromOpchainsGraph Proofs.FromOpchainsPart Proofs.FromOpchainsSem
                       Proofs.CompactCount Proofs.CompactSweep Proofs.CompactCert Proofs.HamTotal
                       Proofs.CompactAllLPart Proofs.CompactAllLMatch Proofs.CompactAllLWidths
                       Proofs.CompactAllLXXZBody Proofs.CompactAllLXXZSite.
Import ListNotations.
Open Scope Z_scope.

(* cover sizes, site by site: n sites to go *)
Fixpoint xxz_sizes (n : nat) (started : bool) : list nat :=
  match n with O => [] | S m => dsz n started :: xxz_sizes m true end.

Lemma xxz_sizes_bulk j : xxz_sizes (3 + j) true = repeat 5%nat (1 + j) ++ [4; 1]%nat.
Proof.
  induction j as [|j IH]; [reflexivity|].
  change (xxz_sizes (3 + S j) true) with (dsz (S (3 + j)) true :: xxz_sizes (3 + j) true). rewrite IH. reflexivity.
Qed.
Lemma xxz_sizes_dims L : (1 <= L)%nat -> 1%nat :: xxz_sizes L false = dims_xxz L.
Proof.
  intros HL. destruct L as [|[|[|[|j]]]]; [lia|reflexivity|reflexivity|reflexivity|].
  change (xxz_sizes (S (S (S (S j)))) false) with (dsz (S (3 + j)) false :: xxz_sizes (3 + j) true).
  rewrite xxz_sizes_bulk. unfold dims_xxz. change (Nat.ltb (S (S (S (S j)))) 4) with false. cbn [dsz Nat.add].
  replace (S (S (S (S j))) - 3)%nat with (1 + j)%nat by lia. reflexivity.
Qed.

Lemma certified_unpack nu nv es (cv : list nat * list nat) : certified nu nv es cv ->
  exists m, NoDup (fst cv) /\ NoDup (snd cv) /\ (forall e, In e es -> In (fst e) (fst cv) \/ In (snd e) (snd cv)) /\
            incl m es /\ NoDup (map fst m) /\ NoDup (map snd m) /\ length m = (length (fst cv) + length (snd cv))%nat.
Proof.
  intros [m Hm]. exists m. unfold certifiedb, valid_coverb, matchingb in Hm.
  repeat match goal with H : _ && _ = true |- _ => apply andb_true_iff in H; destruct H end.
  match goal with H : Nat.eqb (length m) _ = true |- _ => apply Nat.eqb_eq in H; rename H into Hlen end.
  match goal with H : nodupn (map snd m) = true |- _ => apply nodupn_NoDup' in H; rename H into Hmv end.
  match goal with H : nodupn (map fst m) = true |- _ => apply nodupn_NoDup' in H; rename H into Hmu end.
  match goal with H : forallb (fun e => pmem e es) m = true |- _ => rename H into Hmes end.
  match goal with H : forallb (fun e => _ || _) es = true |- _ => rename H into Hcov end.
  match goal with H : nodupn (snd cv) = true |- _ => apply nodupn_NoDup' in H; rename H into Hvc end.
  match goal with H : nodupn (fst cv) = true |- _ => apply nodupn_NoDup' in H; rename H into Huc end.
  repeat split; try assumption.
  - intros e He. rewrite forallb_forall in Hcov. specialize (Hcov e He). apply orb_true_iff in Hcov.
    destruct Hcov as [Hx|Hx]; [left|right]; apply nmem_In'; exact Hx.
  - intros e He. rewrite forallb_forall in Hmes. apply pmem_In. apply Hmes. exact He.
Qed.

Section Top.
  Variable R : cring.
  Notation chain := (chain R).
  Notation st := (st R).
  Variable c : Z.

  (* ---- the sweep ---- *)
  Lemma xxz_sweep cover : forall n (s s' : st) started, Psi c n started (map fst (s_next s)) ->
    calls_certified cover n s -> sweep cover n s = Ok s' -> cover_sizes cover n s = xxz_sizes n started.
  Proof.
    induction n as [|n IH]; intros s s' started HP Hc H; [reflexivity|].
    cbn [sweep cover_sizes calls_certified xxz_sizes] in *. destruct Hc as [Hc1 Hc2].
    destruct (site cover s) as [s1|] eqn:Es; [|discriminate]. cbn [bind] in H.
    unfold site_call in *. set (p := site_partition (s_next s)) in *.
    set (cv := cover (length (p_u p)) (length (p_v p)) (p_edges p)) in *.
    destruct (certified_unpack _ _ _ cv Hc1) as [m [Huc [Hvc [Hcov [Hm [Hmu [Hmv Hlen]]]]]]].
    pose proof (site_partition_PSpec R (s_next s)) as PS. fold p in PS.
    destruct HP as [nid0 [HF [HL HS]]].
    pose proof (site_size R c p _ PS n started nid0 HF HL HS (fst cv) (snd cv) m Hcov Hm Hmu Hmv Hlen) as Hsz.
    rewrite Hsz. f_equal.
    destruct n as [|n0]; [reflexivity|].
    unfold site in Es. fold p in Es. destruct (Nat.eqb (length (p_u p)) 0 || Nat.eqb (length (p_v p)) 0); [discriminate|]. fold cv in Es.
    destruct (site_step_X R p cv s s1 Hvc Es) as [_ [A2 _]]. cbn zeta in A2.
    apply (IH s1 s' true); [|exact Hc2|exact H]. rewrite A2.
    apply (site_next R c p _ PS (S n0) started nid0 HF HL HS (fst cv) (snd cv) m Hcov Hm Hmu Hmv Hlen Huc). lia.
  Qed.

  (* ---- the translated table ---- *)
  Definition xlop (cJ D ch : R) : list chain :=
    [lc [1; -1] [0; c; 0] cJ; lc [-1; 1] [0; - c; 0] cJ; lc [2; 2] [0; 0; 0] D; lc [2] [0; 0] ch].

  Lemma pad_all_In L idn : forall (l l' : list chain), pad_all L idn l = Ok l' ->
    forall c', In c' l' <-> exists ch, In ch l /\ padded L idn ch = Ok c'.
  Proof.
    induction l as [|a l IH]; intros l' H c'; simpl in H.
    - inversion H; subst. split; [intros []|intros [ch [[] _]]].
    - destruct (padded L idn a) as [a'|] eqn:Ea; [|discriminate]. cbn [bind] in H.
      destruct (pad_all L idn l) as [t|] eqn:Et; [|discriminate]. cbn [bind] in H. inversion H; subst l'. cbn [In]. rewrite (IH t eq_refl). split.
      + intros [<-|[ch [Hch Ep]]]; [exists a; auto|exists ch; auto].
      + intros [ch [[<-|Hch] Ep]]; [left; congruence|right; exists ch; auto].
  Qed.
  Lemma zs_snoc k : zs k ++ [0] = zs (S k).
  Proof. unfold zs. induction k as [|k IH]; [reflexivity|]. cbn [repeat app]. rewrite IH. reflexivity. Qed.
  Lemma zs_app a b : zs a ++ zs b = zs (a + b).
  Proof. unfold zs. symmetry. apply repeat_app. Qed.

  Lemma pad2 L i o1 o2 q (cf : R) : (i + 2 <= L)%nat ->
    exists c', padded L 0 (shift_chain (lc [o1; o2] [0; q; 0] cf) i) = Ok c' /\
               (c_oids c' ++ [0], c_qnums c' ++ [0]) = b2 L i o1 o2 q.
  Proof.
    intros Hi. unfold padded, shift_chain, lc. cbn [c_oids c_qnums c_coeff c_istart length].
    destruct (Nat.ltb_spec L (2 + i)) as [Hlt|_]; [lia|]. eexists. split; [reflexivity|]. cbn [c_oids c_qnums]. unfold b2.
    fold (zs i). fold (zs (L - 2 - i)). rewrite <- !app_assoc. cbn [app]. rewrite !zs_snoc.
    replace (S (L - 2 - i)) with (L - 1 - i)%nat by lia. reflexivity.
  Qed.
  Lemma pad1 L i o (cf : R) : (i + 1 <= L)%nat ->
    exists c', padded L 0 (shift_chain (lc [o] [0; 0] cf) i) = Ok c' /\
               (c_oids c' ++ [0], c_qnums c' ++ [0]) = b1 L i o.
  Proof.
    intros Hi. unfold padded, shift_chain, lc. cbn [c_oids c_qnums c_coeff c_istart length].
    destruct (Nat.ltb_spec L (1 + i)) as [Hlt|_]; [lia|]. eexists. split; [reflexivity|]. cbn [c_oids c_qnums]. unfold b1.
    fold (zs i). fold (zs (L - 1 - i)). rewrite <- !app_assoc. cbn [app]. rewrite !zs_snoc. f_equal.
    - replace (S (L - 1 - i)) with (L - i)%nat by lia. reflexivity.
    - change (0 :: 0 :: zs (S (L - 1 - i))) with (zs 2 ++ zs (S (L - 1 - i))). rewrite !zs_app. f_equal. lia.
  Qed.

  Lemma xxz_start (cJ D ch : R) L cs : keqb R cJ (k0 R) = false -> keqb R D (k0 R) = false -> keqb R ch (k0 R) = false ->
    pad_all L 0 (filter (@nonzero R) (local_opchains_to_chains (xlop cJ D ch) L)) = Ok cs ->
    Psi c L false (map fst (init_next 0 cs)).
  Proof.
    intros N1 N2 N3 Hp. exists 0.
    assert (Hin : forall h, In h (map fst (init_next 0 cs)) <-> h_nidl h = 0 /\ Fut c L (body h)).
    { intros h. unfold init_next. rewrite map_map. cbn [fst]. rewrite in_map_iff.
      assert (Hcs : forall c', In c' cs <-> exists l i, In l (xlop cJ D ch) /\ (i < L + 1 - length (c_oids l))%nat /\ padded L 0 (shift_chain l i) = Ok c').
      { intros c'. rewrite (pad_all_In L 0 _ cs Hp c'). split.
        - intros [x [Hx Ep]]. apply filter_In in Hx. destruct Hx as [Hx _]. unfold local_opchains_to_chains in Hx.
          apply in_flat_map in Hx. destruct Hx as [l [Hl Hx]]. unfold shifts in Hx. apply in_map_iff in Hx. destruct Hx as [i [<- Hi]].
          apply in_seq in Hi. exists l, i. split; [exact Hl|]. split; [lia|exact Ep].
        - intros [l [i [Hl [Hi Ep]]]]. exists (shift_chain l i). split; [|exact Ep]. apply filter_In. split.
          + unfold local_opchains_to_chains. apply in_flat_map. exists l. split; [exact Hl|]. unfold shifts. apply in_map. apply in_seq. lia.
          + unfold nonzero, shift_chain. cbn [c_coeff]. cbn [xlop In] in Hl.
            destruct Hl as [<-|[<-|[<-|[<-|[]]]]]; cbn [lc c_coeff]; [rewrite N1|rewrite N1|rewrite N2|rewrite N3]; reflexivity. }
      split.
      - intros [c' [Eh Hc']]. apply Hcs in Hc'. destruct Hc' as [l [i [Hl [Hi Ep]]]]. subst h. cbn [h_nidl]. split; [reflexivity|].
        unfold body. cbn [h_oids h_qnums]. cbn [xlop In] in Hl.
        destruct Hl as [<-|[<-|[<-|[<-|[]]]]]; cbn [lc c_oids length] in Hi.
        + destruct (pad2 L i 1 (-1) c cJ ltac:(lia)) as [c2 [E2 B2]]. unfold lc in Ep, E2. rewrite Ep in E2. inversion E2; subst c2. rewrite B2.
          left. exists i. split; [lia|auto].
        + destruct (pad2 L i (-1) 1 (- c) cJ ltac:(lia)) as [c2 [E2 B2]]. unfold lc in Ep, E2. rewrite Ep in E2. inversion E2; subst c2. rewrite B2.
          left. exists i. split; [lia|auto].
        + destruct (pad2 L i 2 2 0 D ltac:(lia)) as [c2 [E2 B2]]. unfold lc in Ep, E2. rewrite Ep in E2. inversion E2; subst c2. rewrite B2.
          left. exists i. split; [lia|auto].
        + destruct (pad1 L i 2 ch ltac:(lia)) as [c2 [E2 B2]]. unfold lc in Ep, E2. rewrite Ep in E2. inversion E2; subst c2. rewrite B2.
          right. exists i. split; [lia|reflexivity].
      - intros [Hn Hf]. assert (Hmk : forall c' : chain, (c_oids c' ++ [0], c_qnums c' ++ [0]) = body h -> mkh (c_oids c' ++ [0]) (c_qnums c' ++ [0]) 0 = h).
        { intros c' Eb. destruct h as [ho hq hn]. unfold body in Eb. cbn [h_oids h_qnums h_nidl] in *. inversion Eb. subst. reflexivity. }
        destruct Hf as [[i [Hi Hb]]|[i [Hi Hb]]].
        + destruct Hb as [Hb|[Hb|Hb]].
          * destruct (pad2 L i 1 (-1) c cJ Hi) as [c2 [E2 B2]]. exists c2. split; [apply Hmk; congruence|].
            apply Hcs. eexists. exists i. split; [left; reflexivity|]. split; [cbn [lc c_oids length]; lia|exact E2].
          * destruct (pad2 L i (-1) 1 (- c) cJ Hi) as [c2 [E2 B2]]. exists c2. split; [apply Hmk; congruence|].
            apply Hcs. eexists. exists i. split; [right; left; reflexivity|]. split; [cbn [lc c_oids length]; lia|exact E2].
          * destruct (pad2 L i 2 2 0 D Hi) as [c2 [E2 B2]]. exists c2. split; [apply Hmk; congruence|].
            apply Hcs. eexists. exists i. split; [right; right; left; reflexivity|]. split; [cbn [lc c_oids length]; lia|exact E2].
        + destruct (pad1 L i 2 ch Hi) as [c2 [E2 B2]]. exists c2. split; [apply Hmk; congruence|].
          apply Hcs. eexists. exists i. split; [right; right; right; left; reflexivity|]. split; [cbn [lc c_oids length]; lia|exact E2]. }
    split; [|split].
    - intros h Hn. rewrite Hin. tauto.
    - intros h Hh Hne. apply Hin in Hh. tauto.
    - intros h Hh. apply Hin in Hh. tauto.
  Qed.

  (* ---- bond dimensions for every L, every certified cover oracle ---- *)
  Theorem xlop_bond_dims cover (cJ D ch : R) L g :
    keqb R cJ (k0 R) = false -> keqb R D (k0 R) = false -> keqb R ch (k0 R) = false -> (1 <= L)%nat ->
    (forall s0, start_state (local_opchains_to_chains (xlop cJ D ch) L) L 0 = Some s0 -> calls_certified cover L s0) ->
    from_opchains cover (local_opchains_to_chains (xlop cJ D ch) L) L 0 = Ok g ->
    bond_dims g = Some (dims_xxz L).
  Proof.
    intros N1 N2 N3 HL Hc Hg.
    destruct (opchains_bond_dims_sizes R cover _ L 0 g HL Hc Hg) as [s0 [Hs0 Hb]]. rewrite Hb. f_equal.
    rewrite <- (xxz_sizes_dims L HL). f_equal.
    specialize (Hc s0 Hs0). unfold start_state in Hs0.
    destruct (pad_all L 0 (filter (@nonzero R) (local_opchains_to_chains (xlop cJ D ch) L))) as [cs|] eqn:Ep; [|discriminate].
    inversion Hs0; subst s0. clear Hs0.
    unfold from_opchains in Hg. destruct (negb (forallb (@chain_ok R) _)); [discriminate|].
    destruct (local_opchains_to_chains (xlop cJ D ch) L) as [|c0 ct] eqn:Ech; [discriminate|]. rewrite <- Ech in *.
    rewrite Ep in Hg. cbn [bind] in Hg.
    destruct (sweep cover L (mkst init_graph 1 0 (init_next 0 cs) [])) as [s|] eqn:Es; [|discriminate].
    apply (xxz_sweep cover L _ s false); [|exact Hc|exact Es]. cbn [s_next]. exact (xxz_start cJ D ch L cs N1 N2 N3 Ep).
  Qed.
End Top.

(* ---- the two built-in models ---- *)
Section Models.
  Variable R : cring.

  Lemma some_term_h (lop3 : list (chain R)) (ch : R) L : keqb R ch (k0 R) = false -> (1 <= L)%nat ->
    some_term R (lop3 ++ [lc [2] [0; 0] ch]) L = true.
  Proof.
    intros N HL. unfold some_term. rewrite existsb_app. apply orb_true_iff. right. cbn [existsb lc c_coeff c_oids length].
    rewrite N. cbn [negb andb orb]. destruct L; [lia|reflexivity].
  Qed.

  (* heisenberg_xxz_mpo: J/2 (S+ S- + S- S+) + D Sz Sz - h Sz, spin 1/2, all three of J/2, D, h non-zero *)
  Theorem xxz_bond_dims_all (half J D h : R) (L : nat) :
    keqb R (kmul R half J) (k0 R) = false -> keqb R D (k0 R) = false -> keqb R (kopp R h) (k0 R) = false -> (1 <= L)%nat ->
    exists g, spec_graph cover_model (xxz_spec half J D h) L = Ok g /\ bond_dims g = Some (dims_xxz L).
  Proof.
    intros N1 N2 N3 HL.
    destruct (xxz_total R half J D h L HL (some_term_h [_; _; _] (kopp R h) L N3 HL)) as [g [Hg _]].
    exists g. split; [exact Hg|].
    apply (xlop_bond_dims R 2 cover_model (kmul R half J) D (kopp R h) L g N1 N2 N3 HL); [|exact Hg].
    intros s0 _. apply calls_certified_model.
  Qed.

  (* heisenberg_xxz_spin1_mpo: the same table with charge step 1 *)
  Theorem xxz1_bond_dims_all (half sq2 J D h : R) (L : nat) :
    keqb R (kmul R half J) (k0 R) = false -> keqb R D (k0 R) = false -> keqb R (kopp R h) (k0 R) = false -> (1 <= L)%nat ->
    exists g, spec_graph cover_model (xxz1_spec half sq2 J D h) L = Ok g /\ bond_dims g = Some (dims_xxz L).
  Proof.
    intros N1 N2 N3 HL.
    destruct (xxz1_total R half sq2 J D h L HL (some_term_h [_; _; _] (kopp R h) L N3 HL)) as [g [Hg _]].
    exists g. split; [exact Hg|].
    apply (xlop_bond_dims R 1 cover_model (kmul R half J) D (kopp R h) L g N1 N2 N3 HL); [|exact Hg].
    intros s0 _. apply calls_certified_model.
  Qed.
End Models.
