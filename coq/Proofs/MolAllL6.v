(* C07, all L -- part 6: the spin enumeration never raises and yields well-formed chains, for EVERY L.
   [to_spin_ok]: to_spin_opchain's model accepts a well-formed skeleton on 2 L modes as soon as (P) every site pair of its
   padded mode word is a key of oid_single_pair_map and (Q) the alternating (up minus down) charge sum of the word
   vanishes; both are established letter by letter for the enumerated hopping / interaction chains whose spins match
   (the code's parity tests).  Result: [spin_skels_wfb L = true] for every L, the hypothesis of
   [spin_mol_opt_total_of_check] (Proofs/MolOpt.v). *)
From Coq Require Import ZArith List Lia Bool Arith.
From PT Require Import Base.Scalar Base.BigSum Model.OpGraph Model.FromOpchains Model.Molecular Model.MolFormula
                       Proofs.MolOpt Proofs.MolAllL1 Proofs.MolAllL2 Proofs.MolAllL3 Proofs.MolAllL4.
Import ListNotations.
Open Scope nat_scope.

(* ---- total charge, up-minus-down charge, admissible site pairs of a mode word ---- *)
Fixpoint tot (x : list Z) : Z := match x with [] => 0%Z | o :: r => (ocharge o + tot r)%Z end.
Fixpoint sbal (x : list Z) : Z := match x with a :: b :: r => (ocharge a - ocharge b + sbal r)%Z | _ => 0%Z end.
Fixpoint pairs_ok (x : list Z) : bool :=
  match x with
  | a :: b :: r => match pair_oid a b with Some _ => true | None => false end && pairs_ok r
  | _ => true
  end.

Lemma qwalk_last x : forall q d, last (q :: qwalk q x) d = (q + tot x)%Z.
Proof.
  induction x as [|o r IH]; intros q d; [cbn; lia|].
  cbn [qwalk tot]. change (last (q :: (q + ocharge o)%Z :: qwalk (q + ocharge o) r) d)
    with (last ((q + ocharge o)%Z :: qwalk (q + ocharge o) r) d). rewrite IH. lia.
Qed.
Lemma qwalk_app x : forall q y, qwalk q (x ++ y) = qwalk q x ++ qwalk (q + tot x) y.
Proof.
  induction x as [|o r IH]; intros q y; cbn [app qwalk tot]; [f_equal; lia|].
  rewrite IH. do 3 f_equal. lia.
Qed.
Lemma tot_app x y : tot (x ++ y) = (tot x + tot y)%Z.
Proof. induction x as [|o r IH]; cbn [app tot]; [lia|rewrite IH; lia]. Qed.

Lemma spin_qnums_step q0 q1 q2 rest sp :
  spin_qnums (q0 :: q1 :: q2 :: rest) sp =
  encode_qpair q2 (sp - (q0 - 2 * q1 + q2)) :: spin_qnums (q2 :: rest) (sp - (q0 - 2 * q1 + q2)).
Proof. reflexivity. Qed.

Lemma spin_qnums_last m : forall x q sp e, length x = 2 * m ->
  last (e :: spin_qnums (q :: qwalk q x) sp) 0%Z =
  match m with 0 => e | S _ => encode_qpair (q + tot x) (sp + sbal x) end.
Proof.
  induction m as [|m IH]; intros x q sp e Hl.
  - destruct x; [reflexivity|discriminate].
  - destruct x as [|o1 [|o2 x]]; try (cbn in Hl; lia).
    cbn [qwalk tot sbal]. rewrite spin_qnums_step.
    set (q2 := ((q + ocharge o1 + ocharge o2))%Z).
    set (sp' := (sp - (q - 2 * (q + ocharge o1) + q2))%Z).
    change (last (e :: encode_qpair q2 sp' :: spin_qnums (q2 :: qwalk q2 x) sp') 0%Z)
      with (last (encode_qpair q2 sp' :: spin_qnums (q2 :: qwalk q2 x) sp') 0%Z).
    rewrite (IH x q2 sp' (encode_qpair q2 sp')) by (cbn [length] in Hl; lia).
    destruct m.
    + destruct x; [|cbn in Hl; lia]. cbn [tot sbal]. unfold sp', q2. f_equal; lia.
    + unfold sp', q2. f_equal; lia.
Qed.
Lemma spin_qnums_length m : forall x q sp, length x = 2 * m -> length (spin_qnums (q :: qwalk q x) sp) = m.
Proof.
  induction m as [|m IH]; intros x q sp Hl.
  - destruct x; [reflexivity|discriminate].
  - destruct x as [|o1 [|o2 x]]; try (cbn in Hl; lia).
    cbn [qwalk]. rewrite spin_qnums_step. cbn [length]. f_equal. apply IH. cbn [length] in Hl. lia.
Qed.

Lemma pairs_ok_rep0 a y : pairs_ok (repeat 0%Z (2 * a) ++ y) = pairs_ok y.
Proof.
  induction a as [|a IH]; [reflexivity|]. replace (2 * S a) with (S (S (2 * a))) by lia.
  cbn [repeat app pairs_ok pair_oid andb]. exact IH.
Qed.
Lemma pair_up_ok m : forall x y, length x = 2 * m -> pairs_ok (x ++ y) = true ->
  exists so, pair_up x = Ok so /\ length so = m.
Proof.
  induction m as [|m IH]; intros x y Hl Hp.
  - destruct x; [|discriminate]. exists []. split; reflexivity.
  - destruct x as [|a [|b x]]; try (cbn in Hl; lia).
    cbn [app pairs_ok] in Hp. apply andb_true_iff in Hp. destruct Hp as [Hab Hp].
    destruct (IH x y) as [so [E1 E2]]; [cbn [length] in Hl; lia | exact Hp |].
    cbn [pair_up]. destruct (pair_oid a b) as [o|]; [|discriminate].
    rewrite E1. cbn [bind]. exists (o :: so). split; [reflexivity|cbn [length]; lia].
Qed.
Lemma sbal_rep0 a y : sbal (repeat 0%Z (2 * a) ++ y) = sbal y.
Proof.
  induction a as [|a IH]; [reflexivity|]. replace (2 * S a) with (S (S (2 * a))) by lia.
  cbn [repeat app sbal]. rewrite IH. reflexivity.
Qed.
Lemma sbal_zeros : forall r, sbal (repeat 0%Z r) = 0%Z.
Proof. fix IHr 1. intros [|[|r]]; try reflexivity. cbn [repeat sbal]. rewrite IHr. reflexivity. Qed.
Lemma sbal_app_rep0 m : forall x r, length x = 2 * m -> sbal (x ++ repeat 0%Z r) = sbal x.
Proof.
  induction m as [|m IH]; intros x r Hl.
  - destruct x; [|discriminate]. cbn [app]. apply sbal_zeros.
  - destruct x as [|a [|b x]]; try (cbn in Hl; lia). cbn [app sbal]. rewrite IH by (cbn [length] in Hl; lia). reflexivity.
Qed.

Lemma last_dflt {A} (x : A) l d d' : last (x :: l) d = last (x :: l) d'.
Proof. revert x. induction l as [|y l IH]; intros x; [reflexivity|]. change (last (y :: l) d = last (y :: l) d'). apply IH. Qed.

(* ---- normal form of the padding, with the charges ---- *)
Lemma spin_nf L ist (o q : list Z) : ist + length o <= 2 * L -> q = 0%Z :: qwalk 0%Z o -> tot o = 0%Z ->
  exists a x m, length x = 2 * m /\ a + m <= L /\
    repeat 0%Z ist ++ o ++ repeat 0%Z (2 * L - length o - ist) = repeat 0%Z (2 * a) ++ x ++ repeat 0%Z (2 * (L - m - a)) /\
    tot x = 0%Z /\
    (let '(oids1, qnums1, istart1) :=
       if Nat.odd ist then (oI :: o, 0%Z :: q, ist - 1) else (o, q, ist) in
     let '(oids2, qnums2) :=
       if Nat.odd (length oids1) then (oids1 ++ [oI], qnums1 ++ [0%Z]) else (oids1, qnums1) in
     oids2 = x /\ qnums2 = 0%Z :: qwalk 0%Z x /\ istart1 / 2 = a).
Proof.
  intros Hfit Hq Ht.
  assert (Hq1 : 0%Z :: q = 0%Z :: qwalk 0%Z (oI :: o)) by (rewrite Hq; reflexivity).
  assert (Hext : forall y qy, qy = 0%Z :: qwalk 0%Z y -> tot y = 0%Z -> qy ++ [0%Z] = 0%Z :: qwalk 0%Z (y ++ [oI])).
  { intros y qy -> Hy. rewrite qwalk_app, Hy. reflexivity. }
  destruct (odd_cases ist) as [[Eo [a Ha]]|[Eo [a Ha]]]; rewrite Eo.
  - destruct (odd_cases (length o)) as [[El [m Hm]]|[El [m Hm]]]; rewrite El.
    + exists a, o, m. repeat split; try lia; try assumption.
      * rewrite Ha, Hm. do 2 f_equal. f_equal. lia.
      * rewrite Ha. apply div2_even.
    + exists a, (o ++ [oI]), (m + 1). repeat split.
      * rewrite app_length. cbn [length]. lia.
      * lia.
      * rewrite Ha, Hm, <- app_assoc. do 2 f_equal. cbn [app].
        replace (2 * L - (2 * m + 1) - 2 * a) with (S (2 * (L - (m + 1) - a))) by lia. reflexivity.
      * rewrite tot_app, Ht. reflexivity.
      * apply Hext; assumption.
      * rewrite Ha. apply div2_even.
  - assert (Ei : ist - 1 = 2 * a) by lia.
    assert (Ht1 : tot (oI :: o) = 0%Z) by (cbn [tot]; rewrite Ht; reflexivity).
    destruct (odd_cases (length (oI :: o))) as [[El [m Hm]]|[El [m Hm]]]; rewrite El.
    + exists a, (oI :: o), m. repeat split; try exact Hm; try exact Ht1; try exact Hq1; try (cbn [length] in Hm; lia).
      * rewrite Ha, pad_start_even. cbn [length] in Hm. cbn [app]. do 4 f_equal. lia.
      * rewrite Ei. apply div2_even.
    + exists a, ((oI :: o) ++ [oI]), (m + 1). cbn [length] in Hm. repeat split.
      * rewrite app_length. cbn [length]. lia.
      * lia.
      * rewrite Ha, pad_start_even, <- app_assoc. cbn [app]. do 3 f_equal.
        replace (2 * L - length o - (2 * a + 1)) with (S (2 * (L - (m + 1) - a))) by lia. reflexivity.
      * rewrite tot_app, Ht1. reflexivity.
      * apply Hext; assumption.
      * rewrite Ei. apply div2_even.
Qed.

(* ---- acceptance criterion ---- *)
Theorem to_spin_ok L s : skel_wf (2 * L) s ->
  pairs_ok (skel_word (2 * L) s) = true -> sbal (skel_word (2 * L) s) = 0%Z ->
  exists s', to_spin_skel s = Ok s' /\ skel_wfb L s' = true.
Proof.
  intros [Hq [Hlast [Hfit Hlen]]] Hp Hs.
  assert (Ht : tot (k_oids s) = 0%Z).
  { rewrite Hq in Hlast. rewrite qwalk_last in Hlast. lia. }
  destruct (spin_nf L (k_istart s) (k_oids s) (k_qnums s) Hfit Hq Ht) as [a [x [m [Hl [Ham [Hw [Htx Hx]]]]]]].
  unfold to_spin_skel.
  replace (hd 0%Z (k_qnums s)) with 0%Z by (rewrite Hq; reflexivity).
  replace (last (k_qnums s) 0%Z) with 0%Z by (rewrite Hq, qwalk_last; lia).
  cbn [Z.eqb negb].
  destruct (if Nat.odd (k_istart s) then _ else _) as [[oids1 qnums1] istart1].
  destruct (if Nat.odd (length oids1) then _ else _) as [oids2 qnums2].
  destruct Hx as [-> [-> <-]].
  unfold skel_word in Hp, Hs. rewrite Hw in Hp, Hs.
  rewrite pairs_ok_rep0 in Hp. rewrite sbal_rep0, (sbal_app_rep0 m x _ Hl) in Hs.
  destruct (pair_up_ok m x _ Hl Hp) as [so [Eso Hso]]. rewrite Eso. cbn [bind].
  assert (Elast : last (0%Z :: spin_qnums (0%Z :: qwalk 0%Z x) 0%Z) 0%Z = 0%Z).
  { rewrite (spin_qnums_last m x 0%Z 0%Z 0%Z Hl). destruct m; [reflexivity|]. rewrite Htx, Hs. reflexivity. }
  rewrite Elast. cbn [Z.eqb negb]. eexists. split; [reflexivity|].
  unfold skel_wfb. cbn [k_oids k_qnums k_istart length].
  rewrite (spin_qnums_length m x 0%Z 0%Z Hl), Hso, Nat.eqb_refl.
  replace (m + istart1 / 2 <=? L) with true by (symmetry; apply Nat.leb_le; lia).
  rewrite hd_padded_q.
  rewrite last_padded_q; [reflexivity | discriminate | rewrite (last_dflt _ _ 1%Z 0%Z); exact Elast].
Qed.

(* ---- (P), (Q) on tabulated words ---- *)
Fixpoint alt (g : nat -> Z) (s L : nat) : Z :=
  match L with 0 => 0%Z | S L' => (g s - g (S s) + alt g (S (S s)) L')%Z end.

Lemma pairs_ok_tab (f : nat -> Z) L : forall s, (forall p, pair_oid (f p) (f (S p)) <> None) ->
  pairs_ok (map f (seq s (2 * L))) = true.
Proof.
  induction L as [|L IH]; intros s H; [reflexivity|].
  replace (2 * S L) with (S (S (2 * L))) by lia. cbn [seq map pairs_ok].
  destruct (pair_oid (f s) (f (S s))) eqn:E; [|exfalso; exact (H s E)]. cbn [andb]. apply IH. exact H.
Qed.
Lemma sbal_tab (f : nat -> Z) L : forall s, sbal (map f (seq s (2 * L))) = alt (fun p => ocharge (f p)) s L.
Proof.
  induction L as [|L IH]; intros s; [reflexivity|].
  replace (2 * S L) with (S (S (2 * L))) by lia. cbn [seq map sbal alt]. rewrite IH. reflexivity.
Qed.

Lemma alt_ext g h L : forall s, (forall p, g p = h p) -> alt g s L = alt h s L.
Proof. induction L as [|L IH]; intros s H; cbn [alt]; [reflexivity|]. rewrite !H, (IH _ H). reflexivity. Qed.
Lemma alt_add g h L : forall s, alt (fun p => (g p + h p)%Z) s L = (alt g s L + alt h s L)%Z.
Proof. induction L as [|L IH]; intros s; cbn [alt]; [reflexivity|]. rewrite IH. lia. Qed.
Lemma alt_sub g h L : forall s, alt (fun p => (g p - h p)%Z) s L = (alt g s L - alt h s L)%Z.
Proof. induction L as [|L IH]; intros s; cbn [alt]; [reflexivity|]. rewrite IH. lia. Qed.
Lemma alt_zero g L : forall s, (forall p, s <= p < s + 2 * L -> g p = 0%Z) -> alt g s L = 0%Z.
Proof.
  induction L as [|L IH]; intros s H; cbn [alt]; [reflexivity|].
  rewrite (H s), (H (S s)) by lia. rewrite IH; [reflexivity|]. intros p Hp. apply H. lia.
Qed.
Lemma alt_app g L1 : forall L2 s, alt g s (L1 + L2) = (alt g s L1 + alt g (s + 2 * L1) L2)%Z.
Proof.
  induction L1 as [|L1 IH]; intros L2 s.
  - cbn [Nat.add alt]. replace (s + 2 * 0) with s by lia. reflexivity.
  - cbn [Nat.add alt]. rewrite IH. replace (S (S s) + 2 * L1) with (s + 2 * S L1) by lia. lia.
Qed.

Definition dl (x p : nat) : Z := if p =? x then 1%Z else 0%Z.
Definition sg (x : nat) : Z := if Nat.odd x then (-1)%Z else 1%Z.
Lemma alt_delta x L : x < 2 * L -> alt (dl x) 0 L = sg x.
Proof.
  intros Hx. unfold sg.
  destruct (odd_cases x) as [[Eo [y Hy]]|[Eo [y Hy]]]; rewrite Eo.
  - replace L with (y + S (L - y - 1)) by lia. rewrite alt_app. cbn [alt Nat.add].
    rewrite alt_zero by (intros p Hp; unfold dl; destruct (Nat.eqb_spec p x); [lia|reflexivity]).
    rewrite alt_zero by (intros p Hp; unfold dl; destruct (Nat.eqb_spec p x); [lia|reflexivity]).
    unfold dl. destruct (Nat.eqb_spec (2 * y) x); [|lia]. destruct (Nat.eqb_spec (S (2 * y)) x); [lia|]. reflexivity.
  - replace L with (y + S (L - y - 1)) by lia. rewrite alt_app. cbn [alt Nat.add].
    rewrite alt_zero by (intros p Hp; unfold dl; destruct (Nat.eqb_spec p x); [lia|reflexivity]).
    rewrite alt_zero by (intros p Hp; unfold dl; destruct (Nat.eqb_spec p x); [lia|reflexivity]).
    unfold dl. destruct (Nat.eqb_spec (2 * y) x); [lia|]. destruct (Nat.eqb_spec (S (2 * y)) x); [|lia]. reflexivity.
Qed.

(* ---- letter level ---- *)
Lemma F2_charge i j p : ocharge (op_id (sop_op (F2 i j p))) = (dl i p - dl j p)%Z.
Proof.
  unfold F2, jwl, dl. destruct (Nat.compare_spec p i); destruct (Nat.compare_spec p j); res_cmp; reflexivity.
Qed.
Lemma F4_charge a b c d p : a < b -> c < d ->
  ocharge (op_id (sop_op (F4 a b c d p))) = (dl a p + dl b p - dl c p - dl d p)%Z.
Proof.
  intros Hab Hcd. unfold F4, jwl, dl.
  destruct (Nat.compare_spec p a); destruct (Nat.compare_spec p b); try lia;
  destruct (Nat.compare_spec p c); destruct (Nat.compare_spec p d); try lia; res_cmp; reflexivity.
Qed.
Lemma F2_adj i j p : pair_oid (op_id (sop_op (F2 i j p))) (op_id (sop_op (F2 i j (S p)))) <> None.
Proof.
  unfold F2, jwl.
  destruct (Nat.compare_spec p i); destruct (Nat.compare_spec (S p) i); try lia;
  destruct (Nat.compare_spec p j); destruct (Nat.compare_spec (S p) j); try lia; vm_compute; discriminate.
Qed.
Lemma F4_adj a b c d p : a < b -> c < d ->
  pair_oid (op_id (sop_op (F4 a b c d p))) (op_id (sop_op (F4 a b c d (S p)))) <> None.
Proof.
  intros Hab Hcd. unfold F4, jwl.
  destruct (Nat.compare_spec p a); destruct (Nat.compare_spec (S p) a); try lia;
  destruct (Nat.compare_spec p b); destruct (Nat.compare_spec (S p) b); try lia;
  destruct (Nat.compare_spec p c); destruct (Nat.compare_spec (S p) c); try lia;
  destruct (Nat.compare_spec p d); destruct (Nat.compare_spec (S p) d); try lia; vm_compute; discriminate.
Qed.

(* ---- the enumerated chains whose spins match are accepted ---- *)
Lemma hop_spin_ok L I J : I < 2 * L -> J < 2 * L -> xorb (par I) (par J) = false ->
  exists s', to_spin_skel (hop_skel I J) = Ok s' /\ skel_wfb L s' = true.
Proof.
  intros HI HJ Hpar. apply to_spin_ok.
  - apply hop_skel_wf; assumption.
  - rewrite hop_word_tab by assumption. apply pairs_ok_tab. intros p. apply F2_adj.
  - rewrite hop_word_tab by assumption. rewrite sbal_tab.
    rewrite (alt_ext _ (fun p => (dl I p - dl J p)%Z)) by (intros p; apply F2_charge).
    rewrite alt_sub, !alt_delta by assumption.
    unfold sg. unfold par in Hpar. destruct (Nat.odd I), (Nat.odd J); try discriminate; reflexivity.
Qed.
Lemma int_spin_ok L I J K Lx : I < J < 2 * L -> K < Lx < 2 * L ->
  Bool.eqb (par I) (par K) && Bool.eqb (par J) (par Lx) || Bool.eqb (par I) (par Lx) && Bool.eqb (par J) (par K) = true ->
  exists s', to_spin_skel (int_skel I J K Lx) = Ok s' /\ skel_wfb L s' = true.
Proof.
  intros HIJ HKL Hpar. apply to_spin_ok.
  - apply int_skel_wf; lia.
  - rewrite int_word_tab by assumption. apply pairs_ok_tab. intros p. apply F4_adj; lia.
  - rewrite int_word_tab by assumption. rewrite sbal_tab.
    rewrite (alt_ext _ (fun p => (dl I p + dl J p - dl K p - dl Lx p)%Z)) by (intros p; apply F4_charge; lia).
    rewrite !alt_sub, alt_add, !alt_delta by lia.
    unfold sg. unfold par in Hpar. destruct (Nat.odd I), (Nat.odd J), (Nat.odd K), (Nat.odd Lx); try discriminate; reflexivity.
Qed.

Lemma res_all_ok {A} (P : A -> Prop) (l : list (res A)) :
  (forall r, In r l -> exists x, r = Ok x /\ P x) -> exists sk, res_all l = Ok sk /\ Forall P sk.
Proof.
  induction l as [|r l IH]; intros H.
  - exists []. split; [reflexivity|constructor].
  - destruct (H r (or_introl eq_refl)) as [x [-> Hx]].
    destruct IH as [sk [E F]]; [intros r' Hr'; apply H; right; exact Hr'|].
    exists (x :: sk). cbn [res_all bind]. rewrite E. split; [reflexivity|constructor; assumption].
Qed.

Theorem spin_skels_wfb_all L : spin_skels_wfb L = true.
Proof.
  unfold spin_skels_wfb, spin_skels.
  destruct (res_all_ok (fun st : skel * stag => skel_wfb L (fst st) = true) (spin_hop_skels L ++ spin_int_skels L)) as [sk [E F]].
  - intros r Hr. apply in_app_or in Hr. destruct Hr as [Hr|Hr].
    + unfold spin_hop_skels in Hr. apply in_flat_map in Hr. destruct Hr as [I [HI Hr]].
      apply in_flat_map in Hr. destruct Hr as [J [HJ Hr]]. apply in_seq in HI. apply in_seq in HJ.
      destruct (xorb (par I) (par J)) eqn:Ex; [destruct Hr|]. destruct Hr as [<-|[]].
      destruct (hop_spin_ok L I J ltac:(lia) ltac:(lia) Ex) as [s' [Es Hw]].
      rewrite Es. eexists. split; [reflexivity|exact Hw].
    + unfold spin_int_skels in Hr. apply in_flat_map in Hr. destruct Hr as [[I J] [HIJ Hr]].
      apply in_flat_map in Hr. destruct Hr as [[K Lx] [HKL Hr]]. cbn [fst snd] in Hr.
      apply pairs_lt_In in HIJ. apply pairs_lt_In in HKL.
      destruct (Bool.eqb (par I) (par K) && Bool.eqb (par J) (par Lx) || Bool.eqb (par I) (par Lx) && Bool.eqb (par J) (par K)) eqn:Ev;
        cbn [negb] in Hr; [|destruct Hr]. destruct Hr as [<-|[]].
      destruct (int_spin_ok L I J K Lx HIJ HKL Ev) as [s' [Es Hw]].
      rewrite Es. eexists. split; [reflexivity|exact Hw].
  - rewrite E. apply forallb_forall. rewrite Forall_forall in F. exact F.
Qed.
