(* C09 exactness — from loop bodies to whole steps and whole runs: one step of integrate_local_singlesite on a complete
   manifold applies G dt to the dense state, n steps apply G (n dt); the prologue (orthonormalize, right blocks) establishes
   the structural invariant.  Top statement: [tdvp1_exact]. *)
From Coq Require Import ZArith Arith List Lia Ring Setoid Bool.
From PT Require Import Base.Scalar Base.BigSum Base.Mx Model.Tensor Model.Operation Model.Sweeps
  Proofs.OperationEntries Proofs.SweepsCanon Proofs.SweepsFlow Proofs.SweepsSched Proofs.SweepsLocal Proofs.SweepsRun Proofs.SweepsGauge
  Proofs.ReverseDefs Proofs.ReverseMx Proofs.ReverseGauge Proofs.ReverseL1 Proofs.ReverseQR Proofs.ReverseFwd Proofs.ReverseTop
  Proofs.ExactDefs Proofs.ExactAmp Proofs.ExactQR Proofs.ExactStep Proofs.ExactPhase.
Import ListNotations.

Section Run.
  Variable R : cring.
  Add Ring Rring_exact_run : (k_rt R).
  Notation site := (site R).
  Notation osite := (osite R).
  Notation env := (env R).
  Notation mx := (mx R).
  Notation sw := (sw R).
  Variable qr : nat -> mx -> list BinNums.Z -> list BinNums.Z -> mx * mx * list BinNums.Z.
  Variable kexp : kexp_t R.
  Variable kexp0 : kexp0_t R.
  Variable Hs : list osite.
  Variable qd : list BinNums.Z.
  Variable d : nat.
  Variables Ds DW : nat -> nat.
  Notation L := (length Hs).
  Variables (dt hdt : R).
  Notation lr := (tdvp1_lr qr kexp kexp0 Hs qd dt hdt).
  Notation rl := (tdvp1_rl qr kexp kexp0 Hs qd dt hdt).
  Notation mid := (tdvp1_mid kexp Hs dt hdt).
  Notation step := (tdvp1_step qr kexp kexp0 Hs qd dt hdt L).
  Notation ok := (ex_tr_ok qr).
  Hypothesis Hd : 0 < d.
  Hypothesis HW : forall j, j < L -> osite_ok d (DW j) (DW (S j)) (nth j Hs []).
  Hypothesis HDW : forall j, 0 < DW j.
  Variable m : nat.
  Hypothesis Hprof : complete_profile Hs d Ds m.
  Hypothesis Hk : kexp_flowH Hs d Ds DW kexp.
  Hypothesis Hk0 : kexp0_shape Hs Ds DW kexp0.
  Hypothesis HIL : intertwine_left Hs d Ds DW kexp kexp0.
  Hypothesis HIR : intertwine_right Hs d Ds DW kexp kexp0.
  Variable G : R -> list R -> list R.
  Hypothesis HG : kexp_global Hs d Ds G m kexp.
  Hypothesis HGf : G_flow Hs d G.
  Hypothesis Hdt : kadd R hdt hdt = dt.
  Notation EIi := (EI Hs d Ds DW m).
  Notation dn := (dense d L).
  Notation Ph2i := (Ph2 kexp0 Hs d Ds DW hdt m).
  Notation Ph3i := (Ph3 kexp Hs d Ds DW hdt m).

  Definition PLf (phi : list R) (i : nat) (st : sw) : Prop :=
    if Nat.leb i m then EIi i st /\ dn (s_A st) = phi else Ph2i i st (G hdt phi).
  Definition PRf (phi : list R) (i : nat) (st : sw) : Prop :=
    if Nat.ltb m i then Ph3i i st (G hdt phi) else EIi i st /\ dn (s_A st) = G hdt (G hdt phi).

  Theorem step_exact (X : sw) : EIi 0 X -> ok (s_tr (step X)) -> EIi 0 (step X) /\ dn (s_A (step X)) = G dt (dn (s_A X)).
  Proof.
    intros HEI Hok1. set (phi := dn (s_A X)). pose proof Hprof as (_ & _ & HmL & _).
    unfold tdvp1_step in *. cbv zeta in *.
    set (X1 := fold_left lr (seq 0 (L - 1)) X) in *. set (X2 := mid X1 (L - 1)) in *.
    pose proof (suf_tdvp1_lr R qr kexp kexp0 Hs qd dt hdt) as mlr. pose proof (suf_tdvp1_rl R qr kexp kexp0 Hs qd dt hdt) as mrl.
    pose proof (ex_tr_ok_suffix R qr) as sF.
    assert (Hok2 : ok (s_tr X2)).
    { destruct (fold_mono (@s_tr R) rl mrl (rev (seq 1 (L - 1))) X2) as [new E]. rewrite E in Hok1. exact (sF _ _ Hok1). }
    assert (Hok0 : ok (s_tr X1)) by (unfold X2, tdvp1_mid in Hok2; cbn [s_tr] in Hok2; exact (proj2 Hok2)).
    (* left-to-right sweep *)
    assert (G1 : PLf phi (0 + (L - 1)) X1).
    { unfold X1. apply (fold_up (@s_tr R) lr mlr ok sF (PLf phi) (L - 1) 0 X); [|exact Hok0|].
      - unfold PLf. cbn [Nat.leb]. split; [exact HEI|reflexivity].
      - intros i s' Hi HP Hok. unfold PLf in *.
        destruct (Nat.leb_spec i m) as [Him|Him].
        + destruct HP as [HE Hph]. destruct (Nat.leb_spec (S i) m) as [Him'|Him'].
          * split; [apply (EI_lr R qr kexp kexp0 Hs qd d Ds DW dt hdt Hd HW m Hprof Hk Hk0 s' i HE ltac:(lia) Hok)|].
            rewrite <- Hph. apply (ph1_lr R qr kexp kexp0 Hs qd d Ds DW dt hdt Hd HW m Hprof Hk Hk0 HIL s' i HE ltac:(lia) Hok).
          * assert (i = m) by lia. subst i.
            apply (ph12 R qr kexp kexp0 Hs qd d Ds DW dt hdt Hd HW m Hprof Hk Hk0 G HG s' phi HE Hph ltac:(lia) Hok).
        + destruct (Nat.leb_spec (S i) m) as [Him'|Him']; [lia|].
          apply (ph2_lr R qr kexp kexp0 Hs qd d Ds DW dt hdt Hd HW m Hprof Hk Hk0 HIR s' i (G hdt phi) HP ltac:(lia) Hok). }
    cbn [Nat.add] in G1.
    (* the middle step *)
    assert (Hphi2 : G hdt (G hdt phi) = G dt phi).
    { unfold phi. rewrite (proj2 (HGf (s_A X)) hdt hdt), Hdt. reflexivity. }
    assert (G2 : PRf phi (L - 1) X2).
    { unfold PLf in G1. unfold PRf, X2. destruct (Nat.leb_spec (L - 1) m) as [Hlm|Hlm].
      - assert (Em : m = L - 1) by lia. destruct G1 as [HE Hph].
        replace (Nat.ltb m (L - 1)) with false by (symmetry; apply Nat.ltb_ge; lia).
        split; [apply (EI_mid R kexp Hs d Ds DW dt hdt Hd m Hk X1 (L - 1) HE); lia|].
        rewrite (ph1_mid R kexp Hs d Ds DW dt hdt Hd m Hprof G HG X1 HE Em), Hph, Hphi2. reflexivity.
      - replace (Nat.ltb m (L - 1)) with true by (symmetry; apply Nat.ltb_lt; lia).
        apply (ph2_mid R kexp kexp0 Hs d Ds DW dt hdt Hd m Hk HIR Hdt X1 (G hdt phi) G1). }
    (* right-to-left sweep *)
    assert (G3 : PRf phi 0 (fold_left rl (rev (seq 1 (L - 1))) X2)).
    { apply (fold_down (@s_tr R) rl mrl ok sF (PRf phi) (L - 1) 0 X2 G2 Hok1).
      intros i s' Hi HP Hok. destruct i as [|k]; [lia|]. replace (S k - 1) with k by lia. unfold PRf in *.
      destruct (Nat.ltb_spec m (S k)) as [Hmk|Hmk].
      - pose proof (ph3_rl R qr kexp kexp0 Hs qd d Ds DW dt hdt Hd HW m Hprof Hk Hk0 HIR s' k (G hdt phi) HP Hmk ltac:(lia) Hok) as H3.
        destruct (Nat.ltb_spec m k) as [Hmk'|Hmk']; [exact H3|].
        assert (k = m) by lia. subst k. split; [exact (proj1 H3)|].
        apply (ph34 R kexp Hs d Ds DW hdt Hd m G HG _ (G hdt phi) H3).
      - destruct HP as [HE Hph]. replace (Nat.ltb m k) with false by (symmetry; apply Nat.ltb_ge; lia).
        split; [apply (EI_rl R qr kexp kexp0 Hs qd d Ds DW dt hdt Hd HW m Hprof Hk Hk0 s' k HE ltac:(lia) Hok)|].
        rewrite <- Hph. apply (ph4_rl R qr kexp kexp0 Hs qd d Ds DW dt hdt Hd HW m Hprof Hk Hk0 HIL s' k HE Hmk Hok). }
    unfold PRf in G3. cbn [Nat.ltb Nat.leb] in G3. destruct G3 as [HE Hph]. split; [exact HE|]. rewrite Hph. exact Hphi2.
  Qed.

  Theorem iter_exact n : forall (X : sw) (As0 : list site) (tau : R),
    EIi 0 X -> dn (s_A X) = G tau (dn As0) -> ok (s_tr (iter n step X)) ->
    EIi 0 (iter n step X) /\ dn (s_A (iter n step X)) = G (kadd R tau (nmul n dt)) (dn As0).
  Proof.
    induction n as [|n IH]; intros X As0 tau HEI Hph Hok.
    - cbn [iter nmul]. split; [exact HEI|]. rewrite Hph. f_equal. ring.
    - cbn [iter] in *.
      assert (Hok1 : ok (s_tr (step X))).
      { destruct (suf_tdvp_iter R qr kexp kexp0 Hs qd dt hdt n (step X)) as [new E]. rewrite E in Hok. exact (ex_tr_ok_suffix R qr _ _ Hok). }
      destruct (step_exact X HEI Hok1) as [HE1 Hd1].
      destruct (IH (step X) As0 (kadd R tau dt) HE1) as [HE2 Hd2]; [|exact Hok|].
      + rewrite Hd1, Hph. apply (proj2 (HGf As0)).
      + split; [exact HE2|]. rewrite Hd2. f_equal. rewrite nmul_S. ring.
  Qed.
End Run.

Section Top.
  Variable R : cring.
  Add Ring Rring_exact_top : (k_rt R).
  Notation site := (site R).
  Notation osite := (osite R).
  Notation mx := (mx R).
  Notation sw := (sw R).

  (* the structural invariant at the start of a call *)
  Lemma init_EI (Hs : list osite) d Ds DW m (st : sw) : 0 < d ->
    (forall j, j < length Hs -> osite_ok d (DW j) (DW (S j)) (nth j Hs [])) -> DW 0 = 1 -> DW (length Hs) = 1 ->
    complete_profile Hs d Ds m -> 1 <= length Hs ->
    length (s_A st) = length Hs -> length (s_BL st) = length Hs -> length (s_BR st) = length Hs ->
    gBL st 0 = env_one -> gBR st (length Hs - 1) = env_one ->
    (forall j, 0 < j < length Hs -> gBR st (j - 1) = contraction_operator_step_right (gA st j) (gA st j) (nth j Hs []) (gBR st j)) ->
    (forall j, j < length Hs -> wsite d (Ds j) (Ds (S j)) (gA st j)) -> (forall j, m < j < length Hs -> runitary (gA st j)) ->
    EI Hs d Ds DW m 0 st.
  Proof.
    intros Hd HW HW0 HWL (HD0 & HDL & HmL & _) HL lA lBL lBR GL GRl Hrec Hsh Hru. set (L := length Hs) in *.
    assert (HwR : forall k, k < L -> wenv (DW (S (L - 1 - k))) (Ds (S (L - 1 - k))) (Ds (S (L - 1 - k))) (gBR st (L - 1 - k))).
    { induction k as [|k IH]; intros Hk.
      - rewrite Nat.sub_0_r, GRl. replace (S (L - 1)) with L by lia. rewrite HWL, HDL. apply wenv_one.
      - specialize (IH ltac:(lia)). replace (L - 1 - S k) with (L - 1 - k - 1) by lia.
        rewrite (Hrec (L - 1 - k)) by lia. replace (S (L - 1 - k - 1)) with (L - 1 - k) by lia.
        apply (wenv_stepR R Hs d Ds DW Hd HW); [unfold L in *; lia|apply Hsh; lia]. }
    split; [exact lA|]. split; [exact lBL|]. split; [exact lBR|]. split; [exact Hsh|].
    split; [intros j Hj; lia|]. split; [intros j Hj Hjm; apply Hru; lia|].
    split; [intros j Hj; assert (j = 0) by lia; subst j; rewrite GL, HW0, HD0; apply wenv_one|].
    split; [intros j Hj; replace j with (L - 1 - (L - 1 - j)) by lia; apply HwR; lia|].
    split; [intros j Hj; lia|]. split; [intros j Hj; apply Hrec; lia|]. split; assumption.
  Qed.

  Theorem tdvp1_exact orth qr (kexp : kexp_t R) (kexp0 : kexp0_t R) (H : mpo R) psi dt hdt n d Ds DW m G A1 qD1 nrm tr :
    let L := length (o_A H) in
    tdvp_singlesite orth qr kexp kexp0 H psi dt hdt n = Some (A1, qD1, nrm, tr) ->
    0 < d -> (forall j, j < L -> osite_ok d (DW j) (DW (S j)) (nth j (o_A H) [])) -> (forall j, 0 < DW j) ->
    DW 0 = 1 -> DW L = 1 -> complete_profile (o_A H) d Ds m -> kadd R hdt hdt = dt ->
    kexp_flowH (o_A H) d Ds DW kexp -> kexp0_shape (o_A H) Ds DW kexp0 ->
    intertwine_left (o_A H) d Ds DW kexp kexp0 -> intertwine_right (o_A H) d Ds DW kexp kexp0 ->
    kexp_global (o_A H) d Ds G m kexp -> G_flow (o_A H) d G ->
    (forall j, j < L -> wsite d (Ds j) (Ds (S j)) (nth j (m_A (fst (orth psi))) [])) ->
    (forall j, m < j < L -> runitary (nth j (m_A (fst (orth psi))) [])) ->
    ex_tr_ok qr (rev tr) ->
    nrm = snd (orth psi) /\ dense d L A1 = G (nmul n dt) (dense d L (m_A (fst (orth psi)))).
  Proof.
    intros L Hrun Hd HW HDW HW0 HWL Hprof Hdt Hk Hk0 HIL HIR HG HGf Hsh Hru Hok.
    unfold tdvp_singlesite in Hrun.
    destruct (sweep_init orth H psi) as [[st n1]|] eqn:E1; [|discriminate].
    destruct (sweep_init_rec R orth H psi st n1 E1) as (a1 & a2 & a3 & HL & a5 & a6 & a7 & a8 & a9 & a10).
    fold L in HL, a5, a6, a7, a9, a10.
    injection Hrun as EA1 _ En Etr. split; [congruence|].
    rewrite <- Etr, rev_involutive in Hok. rewrite <- a1 in Hsh, Hru |- *.
    assert (E0 : EI (o_A H) d Ds DW m 0 st) by (apply (init_EI (o_A H) d Ds DW m st); assumption).
    fold L in EA1, Hok.
    destruct (iter_exact R qr kexp kexp0 (o_A H) (m_qd psi) d Ds DW dt hdt Hd HW m Hprof Hk Hk0 HIL HIR G HG HGf Hdt n st (s_A st) (k0 R) E0) as [_ Hden].
    - symmetry. apply (proj1 (HGf (s_A st))).
    - exact Hok.
    - fold L in Hden. rewrite <- EA1, Hden. f_equal. ring.
  Qed.
End Top.

(* ---------------- L = 1: the site flow IS the global flow; only (F), (A), (G) are needed ---------------- *)
Section TopL1.
  Variable R : cring.
  Add Ring Rring_exact_top1 : (k_rt R).
  Notation site := (site R).
  Notation osite := (osite R).
  Notation mx := (mx R).
  Notation sw := (sw R).
  Variable qr : nat -> mx -> list BinNums.Z -> list BinNums.Z -> mx * mx * list BinNums.Z.
  Variable kexp : kexp_t R.
  Variable kexp0 : kexp0_t R.
  Variable Hs : list osite.
  Variable qd : list BinNums.Z.
  Variable d : nat.
  Variables Ds DW : nat -> nat.
  Variables (dt hdt : R).
  Hypothesis Hd : 0 < d.
  Hypothesis HL : length Hs = 1.
  Hypothesis Hprof : complete_profile Hs d Ds 0.
  Hypothesis Hk : kexp_flowH Hs d Ds DW kexp.
  Variable G : R -> list R -> list R.
  Hypothesis HG : kexp_global Hs d Ds G 0 kexp.
  Hypothesis HGf : G_flow Hs d G.
  Notation step := (tdvp1_step qr kexp kexp0 Hs qd dt hdt (length Hs)).

  Lemma step_exact_L1 (X : sw) : EI Hs d Ds DW 0 0 X -> EI Hs d Ds DW 0 0 (step X) /\ dense d (length Hs) (s_A (step X)) = G dt (dense d (length Hs) (s_A X)).
  Proof.
    intros HEI. unfold tdvp1_step. replace (length Hs - 1) with 0 by lia. cbn [seq rev fold_left].
    split.
    - apply (EI_mid R kexp Hs d Ds DW dt hdt Hd 0 Hk X 0 HEI). lia.
    - assert (E : 0 = length Hs - 1) by lia. pose proof HEI as HEI'. rewrite E in HEI' at 2.
      pose proof (ph1_mid R kexp Hs d Ds DW dt hdt Hd 0 Hprof G HG X HEI' E) as H. rewrite <- E in H. exact H.
  Qed.

  Lemma iter_exact_L1 n : forall (X : sw) (As0 : list site) (tau : R),
    EI Hs d Ds DW 0 0 X -> dense d (length Hs) (s_A X) = G tau (dense d (length Hs) As0) ->
    dense d (length Hs) (s_A (iter n step X)) = G (kadd R tau (nmul n dt)) (dense d (length Hs) As0).
  Proof.
    induction n as [|n IH]; intros X As0 tau HEI Hph.
    - cbn [iter nmul]. rewrite Hph. f_equal. ring.
    - cbn [iter]. destruct (step_exact_L1 X HEI) as [HE1 Hd1].
      rewrite (IH (step X) As0 (kadd R tau dt) HE1).
      + f_equal. rewrite nmul_S. ring.
      + rewrite Hd1, Hph. apply (proj2 (HGf As0)).
  Qed.
End TopL1.

Section TopL1Thm.
Variable R : cring.
Add Ring Rring_exact_top1b : (k_rt R).
Theorem tdvp1_exact_L1 orth qr (kexp : kexp_t R) (kexp0 : kexp0_t R) (H : mpo R) psi dt hdt n d Ds DW G A1 qD1 nrm tr :
  length (o_A H) = 1 ->
  tdvp_singlesite orth qr kexp kexp0 H psi dt hdt n = Some (A1, qD1, nrm, tr) ->
  0 < d -> osite_ok d (DW 0) (DW 1) (nth 0 (o_A H) []) -> DW 0 = 1 -> DW 1 = 1 -> Ds 0 = 1 -> Ds 1 = 1 ->
  kexp_flowH (o_A H) d Ds DW kexp -> kexp_global (o_A H) d Ds G 0 kexp -> G_flow (o_A H) d G ->
  wsite d 1 1 (nth 0 (m_A (fst (orth psi))) []) ->
  nrm = snd (orth psi) /\ dense d 1 A1 = G (nmul n dt) (dense d 1 (m_A (fst (orth psi)))).
Proof.
  intros HL Hrun Hd HW HW0 HW1 HD0 HD1 Hk HG HGf Hsh.
  unfold tdvp_singlesite in Hrun.
  destruct (sweep_init orth H psi) as [[st n1]|] eqn:E1; [|discriminate].
  destruct (sweep_init_rec R orth H psi st n1 E1) as (a1 & a2 & a3 & HL1 & a5 & a6 & a7 & a8 & a9 & a10).
  injection Hrun as EA1 _ En Etr. split; [congruence|].
  assert (Hprof : complete_profile (o_A H) d Ds 0).
  { split; [exact HD0|]. split; [rewrite HL; exact HD1|]. split; [lia|]. split; intros j Hj; lia. }
  assert (E0 : EI (o_A H) d Ds DW 0 0 st).
  { apply (init_EI R (o_A H) d Ds DW 0 st); try assumption.
    - intros j Hj. assert (j = 0) by lia. subst j. exact HW.
    - rewrite HL. exact HW1.
    - intros j Hj. assert (j = 0) by lia. subst j. rewrite HD0, HD1. unfold gA. rewrite a1. exact Hsh.
    - intros j Hj. lia. }
  pose proof (iter_exact_L1 R qr kexp kexp0 (o_A H) (m_qd psi) d Ds DW dt hdt Hd HL Hprof Hk G HG HGf n st (s_A st) (k0 R) E0) as Hden.
  rewrite HL in *. rewrite <- EA1, <- a1. rewrite Hden.
  - f_equal. ring.
  - symmetry. pose proof (proj1 (HGf (s_A st))) as H0. rewrite HL in H0. exact H0.
Qed.

(* ---------------- L = 2, bond dimensions 1, d, 1 (split site 1): special case of [tdvp1_exact] ---------------- *)
Theorem tdvp1_exact_L2 orth qr (kexp : kexp_t R) (kexp0 : kexp0_t R) (H : mpo R) psi dt hdt n d DW G A1 qD1 nrm tr :
  let Ds := fun j => if Nat.eqb j 1 then d else 1 in
  length (o_A H) = 2 ->
  tdvp_singlesite orth qr kexp kexp0 H psi dt hdt n = Some (A1, qD1, nrm, tr) ->
  0 < d -> (forall j, j < 2 -> osite_ok d (DW j) (DW (S j)) (nth j (o_A H) [])) -> (forall j, 0 < DW j) -> DW 0 = 1 -> DW 2 = 1 ->
  kadd R hdt hdt = dt ->
  kexp_flowH (o_A H) d Ds DW kexp -> kexp0_shape (o_A H) Ds DW kexp0 ->
  intertwine_left (o_A H) d Ds DW kexp kexp0 -> intertwine_right (o_A H) d Ds DW kexp kexp0 ->
  kexp_global (o_A H) d Ds G 1 kexp -> G_flow (o_A H) d G ->
  wsite d 1 d (nth 0 (m_A (fst (orth psi))) []) -> wsite d d 1 (nth 1 (m_A (fst (orth psi))) []) ->
  ex_tr_ok qr (rev tr) ->
  nrm = snd (orth psi) /\ dense d 2 A1 = G (nmul n dt) (dense d 2 (m_A (fst (orth psi)))).
Proof.
  intros Ds HL Hrun Hd HW HDW HW0 HW2 Hdt Hk Hk0 HIL HIR HG HGf Hs0 Hs1 Hok.
  pose proof (tdvp1_exact R orth qr kexp kexp0 H psi dt hdt n d Ds DW 1 G A1 qD1 nrm tr) as T. cbv zeta in T. rewrite HL in T.
  apply T; try assumption.
  - unfold complete_profile. rewrite HL. unfold Ds. cbn [Nat.eqb]. split; [reflexivity|]. split; [reflexivity|]. split; [lia|]. split.
    + intros j Hj. assert (j = 0) by lia. subst j. cbn [Nat.eqb]. lia.
    + intros j Hj. lia.
  - intros j Hj. destruct j as [|[|j]]; [exact Hs0|exact Hs1|lia].
  - intros j Hj. lia.
Qed.
End TopL1Thm.
