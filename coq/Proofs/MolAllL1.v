(* C07 (b), all L — part 1: words as tabulated letter functions.
   A Jordan-Wigner word is [map (jwl k o) (seq 0 n)] with the letter function [jwl k o p] = I (p < k), o (p = k), Z (p > k);
   sitewise products of such words ([wmul], [smul] of Model/MolFormula.v) are tabulations [stab] of LETTER products,
   the sign of the word being the xor [xorl] of the letter signs.  Nothing here depends on the particular terms. *)
From Coq Require Import ZArith List Lia Bool Arith.
From PT Require Import Base.Scalar Base.BigSum Model.OpGraph Model.FromOpchains Model.Molecular Model.MolFormula.
Import ListNotations.
Open Scope nat_scope.

(* ---- letter functions ---- *)
Definition jwl (k : nat) (o : op) (p : nat) : op := match p ?= k with Lt => OI | Eq => o | Gt => OZ end.

Lemma map_seq_const {A} (f : nat -> A) s len x :
  (forall p, s <= p < s + len -> f p = x) -> map f (seq s len) = repeat x len.
Proof.
  revert s; induction len as [|len IH]; intros s H; cbn [seq map repeat]; [reflexivity|].
  rewrite H by lia. f_equal. apply IH. intros; apply H; lia.
Qed.
Lemma seq_split3 k m : seq 0 (k + S m) = seq 0 k ++ k :: seq (S k) m.
Proof. rewrite seq_app. reflexivity. Qed.

Lemma jw_tab n k o : k < n -> jw n k o = map (jwl k o) (seq 0 n).
Proof.
  intros H. unfold jw.
  replace (seq 0 n) with (seq 0 (k + S (n - 1 - k))) by (f_equal; lia).
  rewrite seq_split3, map_app. cbn [map app]. f_equal; [|f_equal].
  - symmetry. apply map_seq_const. intros p Hp. unfold jwl.
    destruct (Nat.compare_spec p k); try lia. reflexivity.
  - unfold jwl. rewrite Nat.compare_refl. reflexivity.
  - symmetry. apply map_seq_const. intros p Hp. unfold jwl.
    destruct (Nat.compare_spec p k); try lia. reflexivity.
Qed.

(* ---- signed letter products ---- *)
Definition sopmul (x : sop) (c : op) : sop :=
  match x with
  | SZero => SZero
  | SOp s o => match omul o c with SZero => SZero | SOp s' o' => SOp (xorb s s') o' end
  end.
Definition sop_op (x : sop) : op := match x with SZero => OI | SOp _ o => o end.

(* tabulation of a signed word from signed letters *)
Fixpoint stab (l : list nat) (F : nat -> sop) : sword :=
  match l with
  | [] => Some (false, [])
  | p :: l' => match F p, stab l' F with
               | SOp s o, Some (s', w) => Some (xorb s s', o :: w)
               | _, _ => None
               end
  end.
Fixpoint xorl (l : list nat) (sg : nat -> bool) : bool :=
  match l with [] => false | p :: l' => xorb (sg p) (xorl l' sg) end.

Lemma wmul_tab l f g : wmul (map f l) (map g l) = stab l (fun p => omul (f p) (g p)).
Proof. induction l as [|p l IH]; cbn [map wmul stab]; [reflexivity|]. rewrite IH. reflexivity. Qed.

Lemma smul_tab l F g : smul (stab l F) (map g l) = stab l (fun p => sopmul (F p) (g p)).
Proof.
  induction l as [|p l IH]; cbn [map stab]; [reflexivity|].
  destruct (F p) as [|s o]; [reflexivity|].
  destruct (stab l F) as [[s' w]|].
  - cbn [smul wmul] in *. cbn [sopmul]. rewrite <- IH.
    destruct (omul o (g p)) as [|s2 o2]; [reflexivity|].
    destruct (wmul w (map g l)) as [[s3 w3]|]; [|reflexivity].
    f_equal. f_equal. destruct s, s', s2, s3; reflexivity.
  - cbn [smul] in *. rewrite <- IH. destruct (sopmul (SOp s o) (g p)); reflexivity.
Qed.

Lemma stab_ext l F G : (forall p, In p l -> F p = G p) -> stab l F = stab l G.
Proof.
  induction l as [|p l IH]; intros H; cbn [stab]; [reflexivity|].
  rewrite H by (left; reflexivity). rewrite IH by (intros; apply H; right; assumption). reflexivity.
Qed.
Lemma stab_some l F sg h : (forall p, In p l -> F p = SOp (sg p) (h p)) -> stab l F = Some (xorl l sg, map h l).
Proof.
  induction l as [|p l IH]; intros H; cbn [stab xorl map]; [reflexivity|].
  rewrite H by (left; reflexivity). rewrite IH by (intros; apply H; right; assumption). reflexivity.
Qed.
Lemma stab_none l F p : In p l -> F p = SZero -> stab l F = None.
Proof.
  induction l as [|q l IH]; intros Hin Hz; [destruct Hin|]. cbn [stab]. destruct Hin as [->|Hin].
  - rewrite Hz. reflexivity.
  - rewrite (IH Hin Hz). destruct (F q); reflexivity.
Qed.

(* ---- parity of sign sets ---- *)
Lemma xorl_ext l f g : (forall p, In p l -> f p = g p) -> xorl l f = xorl l g.
Proof.
  induction l as [|p l IH]; intros H; cbn [xorl]; [reflexivity|].
  rewrite H by (left; reflexivity). rewrite IH by (intros; apply H; right; assumption). reflexivity.
Qed.
Lemma xorl_xor l f g : xorl l (fun p => xorb (f p) (g p)) = xorb (xorl l f) (xorl l g).
Proof. induction l as [|p l IH]; cbn [xorl]; [reflexivity|]. rewrite IH. destruct (f p), (g p), (xorl l f), (xorl l g); reflexivity. Qed.
Lemma xorl_and l c f : xorl l (fun p => c && f p) = c && xorl l f.
Proof. induction l as [|p l IH]; cbn [xorl]; [destruct c; reflexivity|]. rewrite IH. destruct c; reflexivity. Qed.
Lemma xorl_false l f : (forall p, In p l -> f p = false) -> xorl l f = false.
Proof.
  induction l as [|p l IH]; intros H; cbn [xorl]; [reflexivity|].
  rewrite H by (left; reflexivity). rewrite IH by (intros; apply H; right; assumption). reflexivity.
Qed.
Lemma xorl_app l1 l2 f : xorl (l1 ++ l2) f = xorb (xorl l1 f) (xorl l2 f).
Proof. induction l1 as [|p l IH]; cbn [app xorl]; [destruct (xorl l2 f); reflexivity|]. rewrite IH. destruct (f p), (xorl l f), (xorl l2 f); reflexivity. Qed.
Lemma xorl_eqb n m : m < n -> xorl (seq 0 n) (fun p => p =? m) = true.
Proof.
  intros H. replace n with (m + S (n - 1 - m)) by lia. rewrite seq_split3, xorl_app. cbn [xorl].
  rewrite Nat.eqb_refl.
  rewrite !xorl_false; [reflexivity| |].
  - intros p Hp. apply in_seq in Hp. apply Nat.eqb_neq. lia.
  - intros p Hp. apply in_seq in Hp. apply Nat.eqb_neq. lia.
Qed.

(* ---- the two kinds of terms as tabulations ---- *)
Definition F2 (i j p : nat) : sop := omul (jwl i OC p) (jwl j OA p).
Definition F4 (i j k l p : nat) : sop :=
  sopmul (sopmul (omul (jwl i OC p) (jwl j OC p)) (jwl l OA p)) (jwl k OA p).

Lemma term2_tab n i j : i < n -> j < n -> term2 n i j = stab (seq 0 n) (F2 i j).
Proof. intros Hi Hj. unfold term2, cre, ann. rewrite !jw_tab by assumption. apply wmul_tab. Qed.
Lemma term4_tab n i j k l : i < n -> j < n -> k < n -> l < n -> term4 n i j k l = stab (seq 0 n) (F4 i j k l).
Proof.
  intros Hi Hj Hk Hl. unfold term4, cre, ann. rewrite !jw_tab by assumption.
  rewrite wmul_tab, smul_tab, smul_tab. reflexivity.
Qed.

(* ---- lists from their entries ---- *)
Lemma list_eq_tab (w : list Z) n f : length w = n -> (forall p, p < n -> nth p w 0%Z = f p) -> w = map f (seq 0 n).
Proof.
  intros Hl H. apply (nth_ext _ _ 0%Z (f 0)).
  - rewrite map_length, seq_length. exact Hl.
  - intros p Hp. rewrite Hl in Hp. rewrite map_nth, seq_nth by assumption. apply H. exact Hp.
Qed.
Lemma nth_rep_app {A} (x d : A) a r p : nth p (repeat x a ++ r) d = if p <? a then x else nth (p - a) r d.
Proof.
  destruct (Nat.ltb_spec p a) as [H|H].
  - rewrite app_nth1 by (rewrite repeat_length; exact H).
    apply (repeat_spec a x). apply nth_In. rewrite repeat_length. exact H.
  - rewrite app_nth2 by (rewrite repeat_length; exact H). rewrite repeat_length. reflexivity.
Qed.
Lemma nth_cons_if {A} (x d : A) r p : nth p (x :: r) d = if p =? 0 then x else nth (p - 1) r d.
Proof. destruct p; [reflexivity|]. cbn [nth Nat.eqb]. replace (S p - 1) with p by lia. reflexivity. Qed.
Lemma nth_rep_dflt {A} (d : A) a p : nth p (repeat d a) d = d.
Proof. apply nth_repeat. Qed.
