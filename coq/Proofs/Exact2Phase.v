(* C09 exactness, two-site — what each loop body of one two-site TDVP step does to the DENSE state on a complete manifold
   (split site m of the complete profile; the pair (i, i+1) sits between complete frames iff i <= m <= i+1):
     phase 1  left-to-right bodies with i+1 <= m: the forward two-site step K2_i(dt/2) and the backward one-site step
              K_{i+1}(-dt/2) cancel, because the split-off left tensor Q is left-unitary and the two-site flow on merge(Q, C) is
              merge(Q, one-site flow on C)                                                                          [ph1_lr2]
     pair m   both frames complete: the two-site step is the global flow G(dt/2); the backward one-site step at m+1
              stays pending                                                                                          [ph12_2]
     phase 2  left-to-right bodies with i > m: the pending backward step at site i and the forward two-site step at (i, i+1)
              cancel (right neighbour right-unitary); a new backward step is pending at i+1                         [ph2_lr2]
     middle   pair (L-2, L-1), time dt: if m >= L-2 it is G(dt) [ph_mid_G]; otherwise half of it cancels the pending step
              and the other half stays pending as a two-site step                                                    [ph2_mid2]
     phase 3  right-to-left bodies with i > m: the pending two-site step at (i+1, i+2) is cancelled by the backward
              one-site step at i+1; the forward two-site step at (i, i+1) becomes pending                           [ph3_rl2]
     pair m   ... or is the global flow G(dt/2)                                                                      [ph34_2]
     phase 4  right-to-left bodies with i+1 <= m: backward one-site step and forward two-site step cancel (left
              neighbour left-unitary)                                                                                [ph4_rl2] *)
From Coq Require Import ZArith Arith List Lia Ring Setoid Bool.
From PT Require Import Base.Scalar Base.BigSum Base.Mx Model.Tensor Model.Operation Model.Sweeps
  Proofs.OperationEntries Proofs.OperationLocal Proofs.OperationTwoSite Proofs.SweepsCanon Proofs.SweepsFlow Proofs.SweepsGauge
  Proofs.ReverseDefs Proofs.ReverseMx Proofs.ReverseGauge Proofs.ReverseQR Proofs.ReverseFwd
  Proofs.ExactDefs Proofs.ExactAmp Proofs.ExactStep Proofs.Exact2Defs Proofs.Exact2Step.
Import ListNotations.

(* ---------------- replacing a neighbouring pair of a list ---------------- *)
Section Set2.
  Context {T : Type}.
  Definition set2 (l : list T) (i : nat) (a b : T) : list T := lset (lset l i a) (S i) b.
  Lemma set2_length l i a b : length (set2 l i a b) = length l.
  Proof. unfold set2. rewrite !lset_length. reflexivity. Qed.
  Lemma nth_set2 l i a b k dflt : S i < length l ->
    nth k (set2 l i a b) dflt = if Nat.eqb k i then a else if Nat.eqb k (S i) then b else nth k l dflt.
  Proof.
    intros Hi. unfold set2. rewrite nth_lset_if by (rewrite lset_length; exact Hi). rewrite nth_lset_if by lia.
    destruct (Nat.eqb_spec k (S i)) as [->|N]; [|reflexivity].
    replace (Nat.eqb (S i) i) with false by (symmetry; apply Nat.eqb_neq; lia). reflexivity.
  Qed.
  Lemma set2_set2 l i a b a' b' : S i < length l -> set2 (set2 l i a b) i a' b' = set2 l i a' b'.
  Proof.
    intros Hi. apply (list_eq_nth a); [rewrite !set2_length; reflexivity|]. intros k _.
    rewrite !nth_set2 by (rewrite ?set2_length; exact Hi).
    destruct (Nat.eqb k i); [reflexivity|]. destruct (Nat.eqb k (S i)); reflexivity.
  Qed.
  Lemma set2_nth_r l i a dflt : S i < length l -> set2 l i a (nth (S i) l dflt) = lset l i a.
  Proof.
    intros Hi. apply (list_eq_nth dflt); [rewrite set2_length, lset_length; reflexivity|]. intros k _.
    rewrite nth_set2 by exact Hi. rewrite nth_lset_if by lia.
    destruct (Nat.eqb_spec k i) as [->|N]; [reflexivity|]. destruct (Nat.eqb_spec k (S i)) as [->|N']; reflexivity.
  Qed.
  Lemma set2_nth_l l i b dflt : S i < length l -> set2 l i (nth i l dflt) b = lset l (S i) b.
  Proof.
    intros Hi. apply (list_eq_nth dflt); [rewrite set2_length, lset_length; reflexivity|]. intros k _.
    rewrite nth_set2 by exact Hi. rewrite nth_lset_if by lia.
    destruct (Nat.eqb_spec k i) as [->|N].
    - replace (Nat.eqb i (S i)) with false by (symmetry; apply Nat.eqb_neq; lia). reflexivity.
    - reflexivity.
  Qed.
  Lemma set2_self l i dflt : S i < length l -> set2 l i (nth i l dflt) (nth (S i) l dflt) = l.
  Proof. intros Hi. rewrite set2_nth_r by exact Hi. apply lset_nth. Qed.
  Lemma lset_set2_r l i a b b' : S i < length l -> lset (set2 l i a b) (S i) b' = set2 l i a b'.
  Proof. intros Hi. unfold set2. apply lset_lset. Qed.
  Lemma eq_set2 l l' i a b dflt : length l = length l' -> S i < length l ->
    (forall k, nth k l' dflt = if Nat.eqb k i then a else if Nat.eqb k (S i) then b else nth k l dflt) -> l' = set2 l i a b.
  Proof.
    intros Hl Hi H. apply (list_eq_nth dflt); [rewrite set2_length; lia|]. intros k _. rewrite H, nth_set2 by exact Hi. reflexivity.
  Qed.
End Set2.

Section Phase2.
  Variable R : cring.
  Add Ring Rring_exact2_phase : (k_rt R).
  Notation site := (site R).
  Notation osite := (osite R).
  Notation env := (env R).
  Notation mx := (mx R).
  Notation sw := (sw R).
  Variable split : nat -> site -> list BinNums.Z -> list BinNums.Z -> list BinNums.Z -> list BinNums.Z -> bool -> site * site * list BinNums.Z.
  Variable kexp : kexp_t R.
  Variable Hs : list osite.
  Variable qd : list BinNums.Z.
  Variable d : nat.
  Variables Ds DW : nat -> nat.
  Notation L := (length Hs).
  Variables (dt hdt : R).
  Notation lr := (tdvp2_lr split kexp Hs qd dt hdt).
  Notation rl := (tdvp2_rl split kexp Hs qd dt hdt).
  Notation mid := (tdvp2_mid split kexp Hs qd dt hdt).
  Notation ok := (ex2_tr_ok split d Ds).
  Notation Wat i := (nth i Hs []).
  Notation W2at i := (c04_merge_osite (nth i Hs []) (nth (S i) Hs [])).
  Notation mrg := (@c04_merge_site R).
  Notation stepL := (@contraction_operator_step_left R).
  Notation stepR := (@contraction_operator_step_right R).
  Hypothesis Hd : 0 < d.
  Hypothesis HW : forall j, j < L -> osite_ok d (DW j) (DW (S j)) (nth j Hs []).
  Hypothesis HDW : forall j, 0 < DW j.
  Variable m : nat.
  Hypothesis Hprof : complete_profile Hs d Ds m.
  Hypothesis Hk : kexp_flowH Hs d Ds DW kexp.
  Hypothesis Hk2 : kexp2_flowH Hs d Ds DW kexp.
  Hypothesis HIL : intertwine2_left Hs d Ds DW kexp.
  Hypothesis HIR : intertwine2_right Hs d Ds DW kexp.
  Variable G : R -> list R -> list R.
  Variable mp : nat.
  Hypothesis HG : kexp2_global Hs d Ds G mp kexp.
  Hypothesis Hdt : kadd R hdt hdt = dt.
  Notation EIi := (EI Hs d Ds DW m).
  Notation dn := (dense d L).
  Notation siteT i := (wsite d (Ds i) (Ds (S i))).
  Notation pairT i := (wsite (d * d) (Ds i) (Ds (S (S i)))).
  Notation envL i := (wenv (DW i) (Ds i) (Ds i)).

  (* ---------------- consequences of (F), (F2) ---------------- *)
  Lemma kflow i p q r BL BR A s t u : i < L -> siteT i A -> envL i BL -> envL (S i) BR -> kadd R s t = u ->
    kexp q BL BR (Wat i) (kexp p BL BR (Wat i) A s) t = kexp r BL BR (Wat i) A u.
  Proof. intros Hi HA HL HR <-. apply (Hk i p q r BL BR A s t Hi HA HL HR). Qed.
  Lemma kflow0 i p q BL BR A s t : i < L -> siteT i A -> envL i BL -> envL (S i) BR -> kadd R s t = k0 R ->
    kexp q BL BR (Wat i) (kexp p BL BR (Wat i) A s) t = A.
  Proof.
    intros Hi HA HL HR E. rewrite (kflow i p q p BL BR A s t (k0 R) Hi HA HL HR E).
    apply (Hk i p p p BL BR A s t Hi HA HL HR).
  Qed.
  Lemma k2flow0 i p q BL BR M s t : S i < L -> pairT i M -> envL i BL -> envL (S (S i)) BR -> kadd R s t = k0 R ->
    kexp q BL BR (W2at i) (kexp p BL BR (W2at i) M s) t = M.
  Proof.
    intros Hi HM HL HR E. destruct (Hk2 i p q p BL BR M s t Hi HM HL HR) as (_ & H0 & Hf). rewrite Hf, E. exact H0.
  Qed.
  Lemma r_hm : kadd R hdt (kopp R hdt) = k0 R. Proof. ring. Qed.
  Lemma r_mh : kadd R (kopp R hdt) hdt = k0 R. Proof. ring. Qed.
  Lemma r_md : kadd R (kopp R hdt) dt = hdt. Proof. rewrite <- Hdt. ring. Qed.

  (* ---------------- dense vectors of chains that differ in one pair, with equal merged pair tensors ---------------- *)
  Lemma dense_set2 (As : list site) i (P0 P1 Q0 Q1 : site) : length As = L -> S i < L ->
    (forall j, j < L -> siteT j (nth j As [])) -> siteT i P0 -> siteT (S i) P1 -> siteT i Q0 -> siteT (S i) Q1 ->
    mrg P0 P1 = mrg Q0 Q1 -> dn (set2 As i P0 P1) = dn (set2 As i Q0 Q1).
  Proof.
    intros lA Hi Hsh HP0 HP1 HQ0 HQ1 E.
    apply (dense_pair_ext R d Ds Hd L _ _ i); try (rewrite set2_length; exact lA); try exact Hi.
    - intros j Hj. rewrite nth_set2 by lia. destruct (Nat.eqb_spec j i) as [->|N1]; [exact HP0|]. destruct (Nat.eqb_spec j (S i)) as [->|N2]; [exact HP1|apply Hsh; exact Hj].
    - intros j Hj. rewrite nth_set2 by lia. destruct (Nat.eqb_spec j i) as [->|N1]; [exact HQ0|]. destruct (Nat.eqb_spec j (S i)) as [->|N2]; [exact HQ1|apply Hsh; exact Hj].
    - intros j Hj N1 N2. rewrite !nth_set2 by lia.
      replace (Nat.eqb j i) with false by (symmetry; apply Nat.eqb_neq; lia).
      replace (Nat.eqb j (S i)) with false by (symmetry; apply Nat.eqb_neq; lia). reflexivity.
    - intros s t Hs0 Ht. rewrite !nth_set2 by lia. rewrite !Nat.eqb_refl.
      replace (Nat.eqb (S i) i) with false by (symmetry; apply Nat.eqb_neq; lia).
      apply (merge_eq_pair R d (Ds i) (Ds (S i)) (Ds (S (S i))) (Ds i) (Ds (S i)) (Ds (S (S i)))); assumption.
  Qed.

  Lemma sA_set2 (X X' : sw) i (A0 A1 : site) : length (s_A X) = L -> length (s_A X') = L -> S i < L ->
    (forall k, gA X' k = if Nat.eqb k i then A0 else if Nat.eqb k (S i) then A1 else gA X k) -> s_A X' = set2 (s_A X) i A0 A1.
  Proof. intros lA lA' Hi H. apply (eq_set2 (s_A X) (s_A X') i A0 A1 []); [lia|lia|exact H]. Qed.
  Lemma sA_self (X : sw) i : length (s_A X) = L -> S i < L -> set2 (s_A X) i (gA X i) (gA X (S i)) = s_A X.
  Proof. intros lA Hi. unfold gA. apply set2_self. lia. Qed.

  (* ---------------- phase 1 ---------------- *)
  Theorem ph1_lr2 (X : sw) i : EIi i X -> S i <= m -> S (S i) < L -> ok (s_tr (lr X i)) -> dn (s_A (lr X i)) = dn (s_A X).
  Proof.
    intros HEI Him HSi Hok. pose proof Hprof as (_ & _ & HmL & PL & PR).
    destruct (lr2_facts R split kexp Hs qd d Ds DW dt hdt Hd HW m Hk Hk2 X i HEI HSi Hok)
      as (p & p' & A0 & A1 & HM0 & HM1 & HA0 & HA1 & Em & Hun & HBLn & HA1' & EA & EBL & EBR & l1 & l2 & l3).
    cbv zeta in *. destruct HEI as (lA & lBL & lBR & Hsh & Hlu & Hru & HwL & HwR & HrL & HrR & H0 & HL1).
    assert (HBL : envL i (gBL X i)) by (apply HwL; lia).
    assert (HBR : envL (S (S i)) (gBR X (S i))) by (apply HwR; lia).
    assert (HU : lunitary A0) by (apply Hun; apply PL; lia).
    set (A1' := kexp p' (stepL A0 A0 (Wat i) (gBL X i)) (gBR X (S i)) (Wat (S i)) A1 (kopp R hdt)) in *.
    assert (E1 : mrg A0 A1' = mrg (gA X i) (gA X (S i))).
    { unfold A1'. rewrite <- (HIL i p p' (gBL X i) (gBR X (S i)) A0 A1 (kopp R hdt)) by (try assumption; lia).
      rewrite Em. apply (k2flow0 i p p); try assumption; [lia|apply r_hm]. }
    rewrite (sA_set2 X (lr X i) i A0 A1' lA l1 ltac:(lia) EA). rewrite <- (sA_self X i lA ltac:(lia)) at 2.
    apply dense_set2; try assumption; try lia; apply Hsh; lia.
  Qed.

  (* ---------------- phase 2: a backward one-site step is pending at site i ---------------- *)
  Definition Ph2 (i : nat) (st : sw) (phi1 : list R) : Prop :=
    EIi i st /\ m < i /\ exists (Ap : site) (p : nat), siteT i Ap /\
      gA st i = kexp p (gBL st i) (gBR st i) (Wat i) Ap (kopp R hdt) /\ dn (lset (s_A st) i Ap) = phi1.

  (* common end: whatever exact split of the evolved pair tensor is taken, the chain carrying it has dense vector phi1 *)
  Lemma ph2_make (X : sw) i phi1 : EIi i X -> m <= i -> S (S i) < L -> ok (s_tr (lr X i)) ->
    (forall p A0 A1, siteT i A0 -> siteT (S i) A1 ->
       mrg A0 A1 = kexp p (gBL X i) (gBR X (S i)) (W2at i) (mrg (gA X i) (gA X (S i))) hdt -> dn (set2 (s_A X) i A0 A1) = phi1) ->
    Ph2 (S i) (lr X i) phi1.
  Proof.
    intros HEI Hmi HSi Hok Hphi.
    pose proof (EI2_lr R split kexp Hs qd d Ds DW dt hdt Hd HW m Hprof Hk Hk2 X i HEI HSi Hok) as HEI'.
    destruct (lr2_facts R split kexp Hs qd d Ds DW dt hdt Hd HW m Hk Hk2 X i HEI HSi Hok)
      as (p & p' & A0 & A1 & HM0 & HM1 & HA0 & HA1 & Em & Hun & HBLn & HA1' & EA & EBL & EBR & l1 & l2 & l3).
    cbv zeta in *. destruct HEI as (lA & lBL & lBR & Hsh & Hlu & Hru & HwL & HwR & HrL & HrR & H0 & HL1).
    split; [exact HEI'|]. split; [lia|].
    exists A1, p'. split; [exact HA1|]. split.
    - rewrite (EA (S i)), Nat.eqb_refl. replace (Nat.eqb (S i) i) with false by (symmetry; apply Nat.eqb_neq; lia).
      rewrite (EBL (S i)), Nat.eqb_refl, EBR. reflexivity.
    - rewrite (sA_set2 X (lr X i) i A0 _ lA l1 ltac:(lia) EA). rewrite lset_set2_r by lia.
      apply (Hphi p A0 A1 HA0 HA1 Em).
  Qed.

  Theorem ph12_2 (X : sw) phi : mp = m -> EIi m X -> dn (s_A X) = phi -> S (S m) < L -> ok (s_tr (lr X m)) -> Ph2 (S m) (lr X m) (G hdt phi).
  Proof.
    intros Emp HEI Hphi HSm Hok. apply ph2_make; try assumption; [lia|].
    intros p A0 A1 HA0 HA1 Em. destruct HEI as (lA & lBL & lBR & Hsh & Hlu & Hru & HwL & HwR & HrL & HrR & H0 & HL1).
    rewrite Emp in HG. pose proof (sA_self X m lA ltac:(lia)) as Es. unfold set2 in Es |- *.
    rewrite (HG (s_A X) (gBL X) (gBR X) p (gA X m) (gA X (S m)) A0 A1 hdt); try assumption.
    - rewrite Es, Hphi. reflexivity.
    - apply Hsh. lia.
    - apply Hsh. lia.
    - intros j Hj. apply Hlu; assumption.
    - intros j Hj. apply Hru; lia.
    - intros j Hj. apply HrR. lia.
  Qed.

  (* the pending backward step at site i, seen through the right-unitary neighbour: merge(kexp(-dt/2) Ap, B) evolved by the two-site
     solver for time t is merge(kexp(t - dt/2) Ap, B) *)
  Lemma pending_pair (X : sw) i (Ap : site) po p t u : EIi i X -> m < i -> S i < L -> siteT i Ap ->
    gA X i = kexp po (gBL X i) (gBR X i) (Wat i) Ap (kopp R hdt) -> kadd R (kopp R hdt) t = u ->
    kexp p (gBL X i) (gBR X (S i)) (W2at i) (mrg (gA X i) (gA X (S i))) t =
    mrg (kexp p (gBL X i) (gBR X i) (Wat i) Ap u) (gA X (S i)).
  Proof.
    intros (lA & lBL & lBR & Hsh & Hlu & Hru & HwL & HwR & HrL & HrR & H0 & HL1) Hmi HSi HAp EAi Eu.
    assert (HBL : envL i (gBL X i)) by (apply HwL; lia).
    assert (HBR : envL (S i) (gBR X i)) by (apply HwR; lia).
    assert (HBR2 : envL (S (S i)) (gBR X (S i))) by (apply HwR; lia).
    assert (HB : siteT (S i) (gA X (S i))) by (apply Hsh; lia).
    assert (HUB : runitary (gA X (S i))) by (apply Hru; lia).
    assert (EBR : gBR X i = stepR (gA X (S i)) (gA X (S i)) (Wat (S i)) (gBR X (S i))).
    { replace i with (S i - 1) at 1 by lia. apply HrR. lia. }
    rewrite (HIR i p p (gBL X i) (gBR X (S i)) (gA X i) (gA X (S i)) t) by (try assumption; try lia; apply Hsh; lia).
    rewrite <- EBR. f_equal. rewrite EAi. apply kflow; try assumption; lia.
  Qed.

  Theorem ph2_lr2 (X : sw) i phi1 : Ph2 i X phi1 -> S (S i) < L -> ok (s_tr (lr X i)) -> Ph2 (S i) (lr X i) phi1.
  Proof.
    intros (HEI & Hmi & Ap & po & HAp & EAi & Hphi) HSi Hok.
    apply ph2_make; try assumption; [lia|].
    intros p A0 A1 HA0 HA1 Em.
    rewrite (pending_pair X i Ap po p hdt (k0 R) HEI Hmi ltac:(lia) HAp EAi r_mh) in Em.
    destruct HEI as (lA & lBL & lBR & Hsh & Hlu & Hru & HwL & HwR & HrL & HrR & H0 & HL1).
    assert (E0 : kexp p (gBL X i) (gBR X i) (Wat i) Ap (k0 R) = Ap).
    { apply (Hk i p p p (gBL X i) (gBR X i) Ap hdt hdt); [lia|exact HAp|apply HwL; lia|apply HwR; lia]. }
    rewrite E0 in Em.
    rewrite <- Hphi. unfold gA in Em. rewrite <- (set2_nth_r (s_A X) i Ap []) by lia.
    apply dense_set2; try assumption; try lia. apply Hsh; lia.
  Qed.

  (* ---------------- phase 3: a forward two-site step is pending at the pair (j, j+1) ---------------- *)
  Definition Ph3 (j : nat) (st : sw) (phi1 : list R) : Prop :=
    EIi j st /\ m < j /\ exists (P0 P1 : site) (p : nat), siteT j P0 /\ siteT (S j) P1 /\
      mrg (gA st j) (gA st (S j)) = kexp p (gBL st j) (gBR st (S j)) (W2at j) (mrg P0 P1) hdt /\
      dn (set2 (s_A st) j P0 P1) = phi1.

  Theorem ph2_mid2 (X : sw) i phi1 : Ph2 i X phi1 -> S i < L -> ok (s_tr (mid X i)) -> Ph3 i (mid X i) phi1.
  Proof.
    intros (HEI & Hmi & Ap & po & HAp & EAi & Hphi) HSi Hok.
    pose proof (EI2_mid R split kexp Hs qd d Ds DW dt hdt Hd HW m Hprof Hk2 X i HEI HSi Hok) as HEI'.
    destruct (mid2_facts R split kexp Hs qd d Ds DW dt hdt Hd HW m Hk2 X i HEI HSi Hok)
      as (p & A0 & A1 & HM0 & HM1 & HA0 & HA1 & Em & Hun & HBRn & EA & EBL & EBR & l1 & l2 & l3).
    cbv zeta in *.
    rewrite (pending_pair X i Ap po p dt hdt HEI Hmi HSi HAp EAi r_md) in Em.
    destruct HEI as (lA & lBL & lBR & Hsh & Hlu & Hru & HwL & HwR & HrL & HrR & H0 & HL1).
    assert (HBL : envL i (gBL X i)) by (apply HwL; lia).
    assert (HBR : envL (S i) (gBR X i)) by (apply HwR; lia).
    assert (HBR2 : envL (S (S i)) (gBR X (S i))) by (apply HwR; lia).
    assert (HB : siteT (S i) (gA X (S i))) by (apply Hsh; lia).
    assert (HUB : runitary (gA X (S i))) by (apply Hru; lia).
    assert (EBRi : gBR X i = stepR (gA X (S i)) (gA X (S i)) (Wat (S i)) (gBR X (S i))).
    { replace i with (S i - 1) at 1 by lia. apply HrR. lia. }
    split; [exact HEI'|]. split; [exact Hmi|].
    exists Ap, (gA X (S i)), p. split; [exact HAp|]. split; [exact HB|]. split.
    - rewrite (EA i), Nat.eqb_refl, (EA (S i)), Nat.eqb_refl. replace (Nat.eqb (S i) i) with false by (symmetry; apply Nat.eqb_neq; lia).
      rewrite EBL, (EBR (S i)). replace (Nat.eqb (S i) i) with false by (symmetry; apply Nat.eqb_neq; lia).
      rewrite Em. rewrite (HIR i p p (gBL X i) (gBR X (S i)) Ap (gA X (S i)) hdt) by (try assumption; lia).
      rewrite <- EBRi. reflexivity.
    - rewrite (sA_set2 X (mid X i) i A0 A1 lA l1 HSi EA). rewrite set2_set2 by lia.
      unfold gA. rewrite set2_nth_r by lia. exact Hphi.
  Qed.

  (* the middle pair between complete frames *)
  Theorem ph_mid_G (X : sw) i : mp = i -> EIi i X -> i <= m -> S (S i) = L -> ok (s_tr (mid X i)) ->
    dn (s_A (mid X i)) = G dt (dn (s_A X)).
  Proof.
    intros Emp HEI Him HSi Hok.
    destruct (mid2_facts R split kexp Hs qd d Ds DW dt hdt Hd HW m Hk2 X i HEI ltac:(lia) Hok)
      as (p & A0 & A1 & HM0 & HM1 & HA0 & HA1 & Em & Hun & HBRn & EA & EBL & EBR & l1 & l2 & l3).
    cbv zeta in *. destruct HEI as (lA & lBL & lBR & Hsh & Hlu & Hru & HwL & HwR & HrL & HrR & H0 & HL1).
    rewrite Emp in HG.
    rewrite (sA_set2 X (mid X i) i A0 A1 lA l1 ltac:(lia) EA).
    pose proof (sA_self X i lA ltac:(lia)) as Es. unfold set2 in Es |- *.
    rewrite (HG (s_A X) (gBL X) (gBR X) p (gA X i) (gA X (S i)) A0 A1 dt); try assumption.
    - rewrite Es. reflexivity.
    - apply Hsh. lia.
    - apply Hsh. lia.
    - intros j Hj. apply Hlu; lia.
    - intros j Hj. lia.
    - intros j Hj. lia.
  Qed.

  (* one right-to-left body entered with a pending two-site step at (k+1, k+2): after the backward one-site step at k+1 the dense
     state is phi1; what the forward two-site step at (k, k+1) does is left to the caller *)
  Lemma ph3_enter (X : sw) k phi1 : Ph3 (S k) X phi1 -> S (S k) < L -> ok (s_tr (rl X k)) ->
    exists p p' A0 A1,
      let Ae := kexp p (gBL X (S k)) (gBR X (S k)) (Wat (S k)) (gA X (S k)) (kopp R hdt) in
      siteT (S k) Ae /\ siteT k A0 /\ siteT (S k) A1 /\
      mrg A0 A1 = kexp p' (gBL X k) (gBR X (S k)) (W2at k) (mrg (gA X k) Ae) hdt /\
      dn (set2 (s_A X) k (gA X k) Ae) = phi1 /\
      s_A (rl X k) = set2 (s_A X) k A0 A1 /\
      (forall j, gA (rl X k) j = if Nat.eqb j k then A0 else if Nat.eqb j (S k) then A1 else gA X j) /\
      (forall j, gBL (rl X k) j = gBL X j) /\ gBR (rl X k) (S k) = gBR X (S k).
  Proof.
    intros (HEI & Hmk & P0 & P1 & po & HP0 & HP1 & EM & Hphi) HSk Hok.
    destruct (rl2_facts R split kexp Hs qd d Ds DW dt hdt Hd HW m Hk Hk2 X k HEI HSk Hok)
      as (p & p' & A0 & A1 & HAe & HM0 & HM1 & HA0 & HA1 & Em & Hun & HBRn & EA & EBL & EBR & l1 & l2 & l3).
    cbv zeta in *. destruct HEI as (lA & lBL & lBR & Hsh & Hlu & Hru & HwL & HwR & HrL & HrR & H0 & HL1).
    set (Ae := kexp p (gBL X (S k)) (gBR X (S k)) (Wat (S k)) (gA X (S k)) (kopp R hdt)) in *.
    set (B := gA X (S (S k))) in *.
    assert (HBL : envL (S k) (gBL X (S k))) by (apply HwL; lia).
    assert (HBR2 : envL (S (S (S k))) (gBR X (S (S k)))) by (apply HwR; lia).
    assert (HB : siteT (S (S k)) B) by (apply Hsh; lia).
    assert (HUB : runitary B) by (apply Hru; lia).
    assert (EBRk : gBR X (S k) = stepR B B (Wat (S (S k))) (gBR X (S (S k)))).
    { replace (S k) with (S (S k) - 1) at 1 by lia. apply HrR. lia. }
    (* the backward one-site step undoes the pending two-site step *)
    assert (E1 : mrg Ae B = mrg P0 P1).
    { unfold Ae. rewrite EBRk.
      rewrite <- (HIR (S k) p p (gBL X (S k)) (gBR X (S (S k))) (gA X (S k)) B (kopp R hdt)) by (try assumption; try lia; apply Hsh; lia).
      rewrite EM. apply (k2flow0 (S k) po p); try assumption; [apply (wsite_merge R d (Ds (S k)) (Ds (S (S k)))); assumption|apply r_hm]. }
    exists p, p', A0, A1. cbv zeta. fold Ae.
    split; [exact HAe|]. split; [exact HA0|]. split; [exact HA1|]. split; [exact Em|].
    split.
    { unfold gA. rewrite set2_nth_l by lia. rewrite <- Hphi.
      rewrite <- (set2_nth_r (s_A X) (S k) Ae []) by lia. change (nth (S (S k)) (s_A X) []) with B.
      apply dense_set2; try assumption; lia. }
    split; [apply (sA_set2 X (rl X k) k A0 A1 lA l1 ltac:(lia) EA)|].
    split; [exact EA|]. split; [exact EBL|].
    rewrite EBR. replace (Nat.eqb (S k) k) with false by (symmetry; apply Nat.eqb_neq; lia). reflexivity.
  Qed.

  Theorem ph3_rl2 (X : sw) k phi1 : Ph3 (S k) X phi1 -> m < k -> S (S k) < L -> ok (s_tr (rl X k)) -> Ph3 k (rl X k) phi1.
  Proof.
    intros HP Hmk HSk Hok. pose proof HP as (HEI & _).
    pose proof (EI2_rl R split kexp Hs qd d Ds DW dt hdt Hd HW m Hprof Hk Hk2 X k HEI HSk Hok) as HEI'.
    destruct (ph3_enter X k phi1 HP HSk Hok) as (p & p' & A0 & A1 & HAe & HA0 & HA1 & Em & Hphi & EsA & EA & EBL & EBRk).
    cbv zeta in *. destruct HEI as (lA & lBL & lBR & Hsh & Hlu & Hru & HwL & HwR & HrL & HrR & H0 & HL1).
    split; [exact HEI'|]. split; [exact Hmk|].
    exists (gA X k), (kexp p (gBL X (S k)) (gBR X (S k)) (Wat (S k)) (gA X (S k)) (kopp R hdt)), p'.
    split; [apply Hsh; lia|]. split; [exact HAe|]. split.
    - rewrite (EA k), Nat.eqb_refl, (EA (S k)), Nat.eqb_refl. replace (Nat.eqb (S k) k) with false by (symmetry; apply Nat.eqb_neq; lia).
      rewrite EBL, EBRk. exact Em.
    - rewrite EsA, set2_set2 by lia. exact Hphi.
  Qed.

  Theorem ph34_2 (X : sw) phi1 : mp = m -> Ph3 (S m) X phi1 -> S (S m) < L -> ok (s_tr (rl X m)) -> dn (s_A (rl X m)) = G hdt phi1.
  Proof.
    intros Emp HP HSm Hok. pose proof HP as (HEI & _).
    destruct (ph3_enter X m phi1 HP HSm Hok) as (p & p' & A0 & A1 & HAe & HA0 & HA1 & Em & Hphi & EsA & EA & EBL & EBRk).
    cbv zeta in *. destruct HEI as (lA & lBL & lBR & Hsh & Hlu & Hru & HwL & HwR & HrL & HrR & H0 & HL1).
    rewrite Emp in HG. rewrite EsA, <- Hphi. unfold set2.
    apply (HG (s_A X) (gBL X) (gBR X) p'); try assumption.
    - apply Hsh. lia.
    - intros j Hj. apply Hlu; lia.
    - intros j Hj. apply Hru; lia.
    - intros j Hj. apply HrL. lia.
  Qed.

  (* ---------------- phase 4 ---------------- *)
  Theorem ph4_rl2 (X : sw) k : EIi (S k) X -> S k <= m -> S (S k) < L -> ok (s_tr (rl X k)) -> dn (s_A (rl X k)) = dn (s_A X).
  Proof.
    intros HEI Hkm HSk Hok.
    destruct (rl2_facts R split kexp Hs qd d Ds DW dt hdt Hd HW m Hk Hk2 X k HEI HSk Hok)
      as (p & p' & A0 & A1 & HAe & HM0 & HM1 & HA0 & HA1 & Em & Hun & HBRn & EA & EBL & EBR & l1 & l2 & l3).
    cbv zeta in *. destruct HEI as (lA & lBL & lBR & Hsh & Hlu & Hru & HwL & HwR & HrL & HrR & H0 & HL1).
    set (Q := gA X k) in *.
    assert (HQ : siteT k Q) by (apply Hsh; lia).
    assert (HUQ : lunitary Q) by (apply Hlu; lia).
    assert (HBLk : envL k (gBL X k)) by (apply HwL; lia).
    assert (HBLSk : envL (S k) (gBL X (S k))) by (apply HwL; lia).
    assert (HBR : envL (S (S k)) (gBR X (S k))) by (apply HwR; lia).
    assert (HX1 : siteT (S k) (gA X (S k))) by (apply Hsh; lia).
    assert (EBLk : gBL X (S k) = stepL Q Q (Wat k) (gBL X k)) by (apply HrL; lia).
    assert (E1 : mrg A0 A1 = mrg Q (gA X (S k))).
    { rewrite Em. rewrite (HIL k p' p (gBL X k) (gBR X (S k)) Q _ hdt) by (try assumption; lia).
      rewrite <- EBLk. f_equal. apply (kflow0 (S k) p p); try assumption; [lia|apply r_mh]. }
    rewrite (sA_set2 X (rl X k) k A0 A1 lA l1 ltac:(lia) EA). rewrite <- (sA_self X k lA ltac:(lia)) at 2.
    apply dense_set2; try assumption; lia.
  Qed.
End Phase2.

Arguments Ph2 {R} kexp Hs d Ds DW hdt m i st phi1. Arguments Ph3 {R} kexp Hs d Ds DW hdt m j st phi1.
