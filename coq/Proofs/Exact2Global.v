(* C09 exactness, two-site -- contract (A2) [kexp2_global] DERIVED from a purely analytic contract, as (A) was for the single-site
   integrator (Proofs/ExactGlobalDefs.v, ExactGlobalTop.v):
     unitary_emb2 i E E'      E is a UNITARY map from the merged pair tensors of shape d^2 x Ds i x Ds (i+2) onto the vectors of length d^L
                              (linear, inner-product preserving, two-sided inverse E');
     solver2_natural G i kexp for every such E that intertwines the two-site local operator handed to the solver,
                              X |-> apply_local_hamiltonian BL BR (merge W_i W_{i+1}) X, with the dense operator, E (H_loc X) = Hdense (E X),
                              the solver is intertwined with the global flow: E (kexp BL BR (merge W_i W_{i+1}) X t) = G t (E X)
                              -- the similarity invariance of the matrix exponential under unitaries, exp(t U^-1 H U) = U^-1 exp(tH) U.
   The tensor-network content is PROVED here by REDUCTION to the single-site embedding theorem (complete_frames_embedding): when the bond
   between the two sites of the pair is complete from the right, Ds (m+1) = d * Ds (m+2), every merged tensor M is merge(unm M, Ib) with
   Ib the right-unitary "identity" tensor Ib[t][(t', c'), c] = delta, M |-> unm M is a unitary map onto the site tensors at m, and the
   model's two-site operator is merge(one-site operator, Ib) (Proofs/Exact2Local.v, alh2_intertwine_right).  Hence
     natural2_global : solver2_natural Hs d Ds DW G m kexp -> kexp2_global Hs d Ds G m kexp        (S m < L, Ds (m+1) = d * Ds (m+2))
   and the main theorem with (A2) replaced by the naturality contract: [tdvp2_exact_natural]. *)
From Coq Require Import ZArith Arith List Lia Ring Setoid Bool.
From PT Require Import Base.Scalar Base.BigSum Base.Mx Model.Tensor Model.Operation Model.Sweeps
  Proofs.OperationEntries Proofs.OperationTwoSite Proofs.SweepsCanon Proofs.SweepsFlow Proofs.SweepsGauge
  Proofs.ReverseDefs Proofs.ReverseMx Proofs.ReverseGauge Proofs.ReverseFwd
  Proofs.ExactDefs Proofs.ExactAmp Proofs.ExactMx Proofs.ExactLocal Proofs.ExactRun
  Proofs.ExactGlobalDefs Proofs.ExactGlobalFrames Proofs.ExactGlobalEmbed Proofs.ExactGlobalTop
  Proofs.Exact2Defs Proofs.Exact2Local Proofs.Exact2Phase Proofs.Exact2Run.
Import ListNotations.
Open Scope nat_scope.

Section G2Defs.
  Variable R : cring.
  Notation site := (site R).
  Notation osite := (osite R).
  Notation env := (env R).
  Variable Hs : list osite.
  Variable d : nat.
  Variables Ds DW : nat -> nat.
  Notation L := (length Hs).
  Notation W2at i := (c04_merge_osite (nth i Hs []) (nth (S i) Hs [])).
  Notation pairT i := (wsite (d * d) (Ds i) (Ds (S (S i)))).

  Definition unitary_emb2 (i : nat) (E : site -> list R) (Einv : list R -> site) : Prop :=
    let N := length (words d L) in
    (forall X, pairT i X -> length (E X) = N) /\
    (forall X Y, pairT i X -> pairT i Y -> E (add_site X Y) = vadd (E X) (E Y)) /\
    (forall c X, pairT i X -> E (scale_site c X) = vscale c (E X)) /\
    (forall X Y, pairT i X -> pairT i Y -> site_dot X Y = vdotl (E X) (E Y)) /\
    (forall v, length v = N -> pairT i (Einv v)) /\
    (forall v, length v = N -> E (Einv v) = v) /\
    (forall X, pairT i X -> Einv (E X) = X).

  Definition solver2_natural (G : R -> list R -> list R) (i : nat) (kexp : kexp_t R) : Prop :=
    forall (E : site -> list R) (Einv : list R -> site) p (BL BR : env),
      wenv (DW i) (Ds i) (Ds i) BL -> wenv (DW (S (S i))) (Ds (S (S i))) (Ds (S (S i))) BR ->
      unitary_emb2 i E Einv ->
      (forall X, pairT i X -> E (apply_local_hamiltonian BL BR (W2at i) X) = Hvec d Hs (E X)) ->
      forall X t, pairT i X -> E (kexp p BL BR (W2at i) X t) = G t (E X).
End G2Defs.
Arguments unitary_emb2 {R} Hs d Ds i E Einv. Arguments solver2_natural {R} Hs d Ds DW G i kexp.

(* ---------------- the identity tensor and the un-merging map ---------------- *)
Section Unmerge.
  Variable R : cring.
  Add Ring Rring_exact2_global : (k_rt R).
  Infix "*" := (kmul R).
  Infix "+" := (kadd R).
  Notation site := (site R).
  Notation mx := (mx R).
  Notation cj := (kconj R).
  Notation mrg := (@c04_merge_site R).
  Variable d : nat.
  Hypothesis Hd : (0 < d)%nat.

  (* Ib[t][t' * D + c', c] = delta(t, t') delta(c, c'): right-unitary of shape d x (d*D) x D *)
  Definition Ib (D : nat) : site := tabl d (fun t => tab (d * D)%nat D (fun j c => if Nat.eqb j (t * D + c)%nat then k1 R else k0 R)).
  (* (unm M)[s][a, t * D + c] = M[s * d + t][a, c] *)
  Definition unm (Dl D : nat) (M : site) : site :=
    tabl d (fun s => tab Dl (d * D)%nat (fun a j => get (sel M (s * d + j / D)%nat) a (j mod D))).

  Lemma wsite_Ib D : wsite d (d * D)%nat D (Ib D).
  Proof. apply wsite_tabl. intros t _. split; [apply wf_tab|split; reflexivity]. Qed.
  Lemma wsite_unm Dl D M : wsite d Dl (d * D)%nat (unm Dl D M).
  Proof. apply wsite_tabl. intros t _. split; [apply wf_tab|split; reflexivity]. Qed.
  Lemma get_Ib D t j c : (t < d)%nat -> (j < d * D)%nat -> (c < D)%nat ->
    get (sel (Ib D) t) j c = if Nat.eqb j (t * D + c)%nat then k1 R else k0 R.
  Proof. intros Ht Hj Hc. unfold Ib. rewrite (sel_tabl R d) by exact Ht. rewrite get_tab by assumption. reflexivity. Qed.
  Lemma get_unm Dl D M s a j : (s < d)%nat -> (a < Dl)%nat -> (j < d * D)%nat ->
    get (sel (unm Dl D M) s) a j = get (sel M (s * d + j / D)%nat) a (j mod D).
  Proof. intros Hs Ha Hj. unfold unm. rewrite (sel_tabl R d) by exact Hs. rewrite get_tab by assumption. reflexivity. Qed.

  Lemma divmodD D t c : (c < D)%nat -> ((t * D + c) / D = t /\ (t * D + c) mod D = c)%nat.
  Proof.
    intros Hc. split.
    - rewrite Nat.div_add_l by lia. rewrite Nat.div_small by exact Hc. lia.
    - rewrite Nat.add_comm, Nat.mod_add by lia. apply Nat.mod_small. exact Hc.
  Qed.
  Lemma divmodD' D j : (0 < D)%nat -> (j < d * D)%nat -> (j = (j / D) * D + j mod D /\ j / D < d /\ j mod D < D)%nat.
  Proof.
    intros HD Hj. split; [rewrite Nat.mul_comm; apply Nat.div_mod; lia|].
    split; [apply Nat.div_lt_upper_bound; lia|apply Nat.mod_upper_bound; lia].
  Qed.

  Lemma mrg_unm Dl D M : wsite (d * d) Dl D M -> mrg (unm Dl D M) (Ib D) = M.
  Proof.
    intros HM. apply (wsite_ext R (d * d) Dl D); [apply (wsite_merge R d Dl (d * D)%nat D _ _ Hd (wsite_unm Dl D M) (wsite_Ib D))|exact HM|].
    intros u a c Hu Ha Hc. destruct (divmod_lt d u Hd Hu) as (Eu & Hs & Ht). set (s := (u / d)%nat) in *. set (t := (u mod d)%nat) in *.
    rewrite Eu. rewrite (merge_sel R d (unm Dl D M) (Ib D) s t). 2: exact (proj1 (wsite_Ib D)). 2: (rewrite (proj1 (wsite_unm Dl D M)); exact Hs). 2: exact Ht.
    destruct (wsite_sel R _ _ _ _ s (wsite_unm Dl D M) Hs) as (_ & u1 & u2). destruct (wsite_sel R _ _ _ _ t (wsite_Ib D) Ht) as (_ & i1 & i2).
    rewrite get_mulmx by lia. rewrite u2.
    assert (Hj0 : (t * D + c < d * D)%nat) by nia.
    rewrite (sumn_single R (d * D) (t * D + c)%nat) by
      (try exact Hj0; intros j Hj N; rewrite get_Ib by assumption; replace (Nat.eqb j (t * D + c)) with false by (symmetry; apply Nat.eqb_neq; lia); ring).
    rewrite get_Ib by assumption. rewrite Nat.eqb_refl. rewrite get_unm by assumption.
    destruct (divmodD D t c Hc) as [e1 e2]. rewrite e1, e2. ring.
  Qed.

  Lemma unm_mrg Dl D C : wsite d Dl (d * D)%nat C -> unm Dl D (mrg C (Ib D)) = C.
  Proof.
    intros HC. apply (wsite_ext R d Dl (d * D)%nat); [apply wsite_unm|exact HC|].
    intros s a j Hs Ha Hj. rewrite get_unm by assumption.
    assert (HD : (0 < D)%nat) by nia. destruct (divmodD' D j HD Hj) as (Ej & Ht & Hc).
    rewrite (merge_sel R d C (Ib D) s (j / D)%nat). 2: exact (proj1 (wsite_Ib D)). 2: (rewrite (proj1 HC); exact Hs). 2: exact Ht.
    destruct (wsite_sel R _ _ _ _ s HC Hs) as (_ & c1 & c2). destruct (wsite_sel R _ _ _ _ (j / D)%nat (wsite_Ib D) Ht) as (_ & i1 & i2).
    rewrite get_mulmx by lia. rewrite c2.
    rewrite (sumn_single R (d * D) j) by
      (try exact Hj; intros j' Hj' N; rewrite get_Ib by assumption; replace (Nat.eqb j' (j / D * D + j mod D)) with false by (symmetry; apply Nat.eqb_neq; lia); ring).
    rewrite get_Ib by assumption. rewrite <- Ej, Nat.eqb_refl. ring.
  Qed.

  (* Ib is right-unitary *)
  Lemma Ib_runitary D : runitary (Ib D).
  Proof.
    destruct (site_ok_sdl R _ _ _ _ Hd (wsite_ok R _ _ _ _ (wsite_Ib D))) as (E1 & E2 & E3).
    split.
    - intros a a' Ha Ha'. rewrite E1 in Ha, Ha'. rewrite E2, E3.
      transitivity (sumn (d * D) (fun j => (if Nat.eqb a j then k1 R else k0 R) * cj (if Nat.eqb a' j then k1 R else k0 R))).
      { rewrite sumn_flatten. apply sumn_ext; intros t Ht. apply sumn_ext; intros c Hc. rewrite !get_Ib by assumption. reflexivity. }
      rewrite (sumn_single R (d * D) a) by (try exact Ha; intros j Hj N; replace (Nat.eqb a j) with false by (symmetry; apply Nat.eqb_neq; lia); ring).
      rewrite Nat.eqb_refl, (Nat.eqb_sym a' a). destruct (Nat.eqb a a'); [rewrite kconj_1|rewrite kconj_0]; ring.
    - intros s s' c c' Hs Hs' Hc Hc'. rewrite E3 in Hs, Hs'. rewrite E2 in Hc, Hc'. rewrite E1.
      assert (Hj0 : (s * D + c < d * D)%nat) by nia.
      transitivity (sumn (d * D) (fun a => (if Nat.eqb a (s * D + c) then k1 R else k0 R) * cj (if Nat.eqb a (s' * D + c') then k1 R else k0 R))).
      { apply sumn_ext; intros a Ha. rewrite !get_Ib by assumption. reflexivity. }
      rewrite (sumn_single R (d * D) (s * D + c)%nat) by
        (try exact Hj0; intros j Hj N; replace (Nat.eqb j (s * D + c)) with false by (symmetry; apply Nat.eqb_neq; lia); ring).
      rewrite Nat.eqb_refl.
      assert (Eb : Nat.eqb (s * D + c) (s' * D + c') = (Nat.eqb s s' && Nat.eqb c c')%bool).
      { destruct (Nat.eqb_spec s s') as [->|N1]; cbn [andb].
        - destruct (Nat.eqb_spec c c') as [->|N2]; [apply Nat.eqb_refl|apply Nat.eqb_neq; lia].
        - apply Nat.eqb_neq. intros E. apply N1.
          destruct (divmodD D s c Hc) as [e1 _]. destruct (divmodD D s' c' Hc') as [e2 _]. rewrite <- e1, <- e2, E. reflexivity. }
      rewrite Eb. destruct (Nat.eqb s s' && Nat.eqb c c')%bool; [rewrite kconj_1|rewrite kconj_0]; ring.
  Qed.

  (* unm is linear and preserves the inner product *)
  Lemma wmx_addmx2 mm nn (A B : mx) : wmx mm nn A -> wmx mm nn (addmx A B).
  Proof. intros (_ & H1 & H2). split; [apply wf_addmx|]. rewrite nr_addmx, nc_addmx. auto. Qed.
  Lemma wsite_add2 dd Dl Dr (X Y : site) : wsite dd Dl Dr X -> wsite dd Dl Dr (add_site X Y).
  Proof.
    intros HX. unfold add_site. rewrite (proj1 HX). apply wsite_tabl. intros s Hs. apply wmx_addmx2. apply (wsite_sel R _ _ _ _ s HX Hs).
  Qed.
  Lemma get_add_site2 dd Dl Dr (X Y : site) s b c : wsite dd Dl Dr X -> (s < dd)%nat -> (b < Dl)%nat -> (c < Dr)%nat ->
    get (sel (add_site X Y) s) b c = get (sel X s) b c + get (sel Y s) b c.
  Proof.
    intros HX Hs Hb Hc. unfold add_site. rewrite (proj1 HX). rewrite (sel_tabl R dd) by exact Hs.
    destruct (wsite_sel R _ _ _ _ s HX Hs) as (_ & x1 & x2). apply get_addmx; lia.
  Qed.

  Lemma unm_add Dl D (X Y : site) : wsite (d * d) Dl D X -> wsite (d * d) Dl D Y ->
    unm Dl D (add_site X Y) = add_site (unm Dl D X) (unm Dl D Y).
  Proof.
    intros HX HY. apply (wsite_ext R d Dl (d * D)%nat); [apply wsite_unm|apply wsite_add2; apply wsite_unm|].
    intros s a j Hs Ha Hj. assert (HD : (0 < D)%nat) by nia. destruct (divmodD' D j HD Hj) as (Ej & Ht & Hc).
    rewrite (get_add_site2 d Dl (d * D)%nat) by (try assumption; apply wsite_unm). rewrite !get_unm by assumption.
    apply (get_add_site2 (d * d) Dl D); try assumption. nia.
  Qed.
  Lemma unm_scale Dl D a (X : site) : wsite (d * d) Dl D X -> unm Dl D (scale_site a X) = scale_site a (unm Dl D X).
  Proof.
    intros HX. apply (wsite_ext R d Dl (d * D)%nat); [apply wsite_unm|apply wsite_scale; apply wsite_unm|].
    intros s b j Hs Hb Hj. assert (HD : (0 < D)%nat) by nia. destruct (divmodD' D j HD Hj) as (Ej & Ht & Hc).
    rewrite (get_scale_site R d Dl (d * D)%nat) by (try assumption; apply wsite_unm). rewrite !get_unm by assumption.
    apply (get_scale_site R (d * d) Dl D); try assumption. nia.
  Qed.
  Lemma unm_dot Dl D (X Y : site) : wsite (d * d) Dl D X -> wsite (d * d) Dl D Y ->
    site_dot (unm Dl D X) (unm Dl D Y) = site_dot X Y.
  Proof.
    intros HX HY. assert (Hdd : (0 < d * d)%nat) by nia.
    destruct (site_ok_sdl R _ _ _ _ Hd (wsite_ok R _ _ _ _ (wsite_unm Dl D X))) as (E1 & E2 & E3).
    destruct (site_ok_sdl R _ _ _ _ Hdd (wsite_ok R _ _ _ _ HX)) as (F1 & F2 & F3).
    unfold site_dot. rewrite E1, E2, E3, F1, F2, F3. rewrite sumn_flatten.
    apply sumn_ext; intros s Hs.
    transitivity (sumn Dl (fun b => sumn d (fun t => sumn D (fun c => cj (get (sel X (s * d + t)%nat) b c) * get (sel Y (s * d + t)%nat) b c)))).
    - apply sumn_ext; intros b Hb. rewrite sumn_flatten. apply sumn_ext; intros t Ht. apply sumn_ext; intros c Hc.
      assert (Hj : (t * D + c < d * D)%nat) by nia. rewrite !get_unm by assumption.
      destruct (divmodD D t c Hc) as [e1 e2]. rewrite e1, e2. reflexivity.
    - apply sumn_exch.
  Qed.
End Unmerge.

(* ---------------- (A2) from naturality ---------------- *)
Lemma lset_swap_set2 {T} (l : list T) i (z b : T) : S i < length l -> lset (lset l (S i) b) i z = set2 l i z b.
Proof.
  intros Hi. apply (list_eq_nth z); [rewrite set2_length, !lset_length; reflexivity|]. intros k _.
  rewrite nth_set2 by exact Hi. rewrite nth_lset_if by (rewrite lset_length; lia). rewrite nth_lset_if by lia.
  destruct (Nat.eqb_spec k i) as [->|N]; reflexivity.
Qed.

Section Global2.
  Variable R : cring.
  Notation site := (site R).
  Notation osite := (osite R).
  Notation env := (env R).
  Notation mx := (mx R).
  Notation mrg := (@c04_merge_site R).
  Variable Hs : list osite.
  Variable d : nat.
  Variables Ds DW : nat -> nat.
  Variable m : nat.
  Notation L := (length Hs).
  Hypothesis Hd : 0 < d.
  Hypothesis HW : forall j, j < L -> osite_ok d (DW j) (DW (S j)) (nth j Hs []).
  Hypothesis HWst : forall j, j < L -> osite_struct d (nth j Hs []).
  Hypothesis HDWpos : forall j, 0 < DW j.
  Hypothesis HDW0 : DW 0 = 1.
  Hypothesis HDWL : DW L = 1.
  Hypothesis HD0 : Ds 0 = 1.
  Hypothesis HDL : Ds L = 1.
  Hypothesis HmL : S m < L.
  Hypothesis HDm : Ds (S m) = d * Ds (S (S m)).
  Notation pairT i := (wsite (d * d) (Ds i) (Ds (S (S i)))).
  Notation siteT i := (wsite d (Ds i) (Ds (S i))).

  Theorem natural2_global (G : R -> list R -> list R) (kexp : kexp_t R) :
    solver2_natural Hs d Ds DW G m kexp -> kexp2_global Hs d Ds G m kexp.
  Proof.
    intros Hnat As EL ER p P0 P1 Q0 Q1 t lA Hsh HP0 HP1 HQ0 HQ1 Hlu Hru EL0 ELr ERl ERr EQ.
    set (D := Ds (S (S m))) in *.
    set (B := Ib R d D).
    assert (HB : siteT (S m) B) by (unfold B; rewrite HDm; apply wsite_Ib).
    assert (HUB : runitary B) by (apply Ib_runitary; exact Hd).
    set (As' := lset As (S m) B).
    set (ER' := fun j => if Nat.eqb j m then contraction_operator_step_right B B (nth (S m) Hs []) (ER (S m)) else ER j).
    assert (lA' : length As' = L) by (unfold As'; rewrite lset_length; exact lA).
    assert (nA' : forall j, nth j As' [] = if Nat.eqb j (S m) then B else nth j As []) by (intros j; unfold As'; apply nth_lset_if; lia).
    assert (Hsh' : forall j, j < L -> siteT j (nth j As' [])).
    { intros j Hj. rewrite nA'. destruct (Nat.eqb_spec j (S m)) as [->|N]; [exact HB|apply Hsh; exact Hj]. }
    assert (Hlu' : forall j, j < m -> lunitary (nth j As' [])).
    { intros j Hj. rewrite nA'. replace (Nat.eqb j (S m)) with false by (symmetry; apply Nat.eqb_neq; lia). apply Hlu. exact Hj. }
    assert (Hru' : forall j, m < j < L -> runitary (nth j As' [])).
    { intros j Hj. rewrite nA'. destruct (Nat.eqb_spec j (S m)) as [->|N]; [exact HUB|apply Hru; lia]. }
    assert (ELr' : forall j, j < m -> EL (S j) = contraction_operator_step_left (nth j As' []) (nth j As' []) (nth j Hs []) (EL j)).
    { intros j Hj. rewrite nA'. replace (Nat.eqb j (S m)) with false by (symmetry; apply Nat.eqb_neq; lia). apply ELr. exact Hj. }
    assert (ERl' : ER' (L - 1) = env_one).
    { unfold ER'. replace (Nat.eqb (L - 1) m) with false by (symmetry; apply Nat.eqb_neq; lia). exact ERl. }
    assert (ERr' : forall j, m < j < L -> ER' (j - 1) = contraction_operator_step_right (nth j As' []) (nth j As' []) (nth j Hs []) (ER' j)).
    { intros j Hj. unfold ER'. rewrite nA'. replace (Nat.eqb j m) with false by (symmetry; apply Nat.eqb_neq; lia).
      destruct (Nat.eqb_spec j (S m)) as [->|N].
      - replace (S m - 1) with m by lia. rewrite Nat.eqb_refl. reflexivity.
      - replace (Nat.eqb (j - 1) m) with false by (symmetry; apply Nat.eqb_neq; lia). apply ERr. lia. }
    assert (HmL' : m < L) by lia.
    destruct (complete_frames_embedding R Hs d Ds DW m Hd HW HDWpos HDW0 HDWL HD0 HDL HmL' As' EL ER' lA' Hsh' Hlu' Hru' EL0 ELr' ERl' ERr')
      as (wL & wR & (Einv1 & HU1) & Hint1).
    set (E1 := fun Z => dense d L (lset As' m Z)) in *.
    assert (wR2 : wenv (DW (S (S m))) (Ds (S (S m))) (Ds (S (S m))) (ER (S m))).
    { pose proof (ER_wenv R Hs d Ds DW m Hd HW HDW0 HDWL HD0 HDL HmL' As' ER' lA' Hsh' ERl' ERr' (S m) ltac:(lia) HmL) as H.
      unfold ER' in H. replace (Nat.eqb (S m) m) with false in H by (symmetry; apply Nat.eqb_neq; lia). exact H. }
    assert (EERm : ER' m = contraction_operator_step_right B B (nth (S m) Hs []) (ER (S m))) by (unfold ER'; rewrite Nat.eqb_refl; reflexivity).
    (* the pair embedding *)
    set (E2 := fun M => E1 (unm R d (Ds m) D M)).
    set (E2inv := fun v => mrg (Einv1 v) B).
    assert (Hunm : forall M, siteT m (unm R d (Ds m) D M)) by (intros M; rewrite HDm; apply wsite_unm).
    destruct HU1 as (Ulen & Uadd & Uscale & Udot & Uinv1 & Uinv2 & Uinv3).
    assert (HU2 : unitary_emb2 Hs d Ds m E2 E2inv).
    { unfold unitary_emb2, E2, E2inv. cbv zeta.
      split; [intros X _; apply Ulen; apply Hunm|].
      split; [intros X Y HX HY; rewrite (unm_add R d Hd (Ds m) D X Y HX HY); apply Uadd; apply Hunm|].
      split; [intros c X HX; rewrite (unm_scale R d Hd (Ds m) D c X HX); apply Uscale; apply Hunm|].
      split; [intros X Y HX HY; rewrite <- (unm_dot R d Hd (Ds m) D X Y HX HY); apply Udot; apply Hunm|].
      split; [intros v Hv; apply (wsite_merge R d (Ds m) (Ds (S m)) D _ _ Hd); [apply Uinv1; exact Hv|exact HB]|].
      split.
      - intros v Hv. unfold B. rewrite (unm_mrg R d Hd (Ds m) D); [apply Uinv2; exact Hv|]. rewrite <- HDm. apply Uinv1. exact Hv.
      - intros X HX. rewrite Uinv3 by apply Hunm. unfold B. apply (mrg_unm R d Hd (Ds m) D X HX). }
    assert (Hint2 : forall X, pairT m X ->
              E2 (apply_local_hamiltonian (EL m) (ER (S m)) (c04_merge_osite (nth m Hs []) (nth (S m) Hs [])) X) = Hvec d Hs (E2 X)).
    { intros X HX. unfold E2.
      rewrite <- (mrg_unm R d Hd (Ds m) D X HX) at 1. fold B.
      rewrite (alh2_intertwine_right R d (Ds m) (Ds (S m)) D (DW m) (DW (S m)) (DW (S (S m))) (EL m) (ER (S m))
                 (nth m Hs []) (nth (S m) Hs []) (unm R d (Ds m) D X) B); try assumption; try apply HDWpos; try apply Hunm;
        try (apply HWst; lia); try (apply HW; lia); try (apply HUB).
      rewrite <- EERm. unfold B. rewrite (unm_mrg R d Hd (Ds m) D).
      - apply Hint1. apply Hunm.
      - rewrite <- HDm. apply (wsite_alh R d (Ds m) (Ds (S m)) (DW m) (DW (S m))); try assumption; try apply HDWpos. apply HW. lia. }
    pose proof (Hnat E2 E2inv p (EL m) (ER (S m)) wL wR2 HU2 Hint2 (mrg P0 P1) t
                  (wsite_merge R d (Ds m) (Ds (S m)) D P0 P1 Hd HP0 HP1)) as Hmain.
    rewrite <- EQ in Hmain.
    assert (E2dense : forall X Y, siteT m X -> siteT (S m) Y -> E2 (mrg X Y) = dense d L (lset (lset As m X) (S m) Y)).
    { intros X Y HX HY. unfold E2, E1, As'. rewrite lset_swap_set2 by lia.
      change (lset (lset As m X) (S m) Y) with (set2 As m X Y).
      apply (dense_set2 R Hs d Ds Hd As m); try assumption; try lia; try apply Hunm.
      unfold B. apply (mrg_unm R d Hd (Ds m) D). apply (wsite_merge R d (Ds m) (Ds (S m)) D _ _ Hd); assumption. }
    rewrite <- !E2dense by assumption. exact Hmain.
  Qed.
End Global2.

(* ---------------- the exactness theorem with (A2) replaced by the naturality contract ---------------- *)
Section Top2N.
  Variable R : cring.

  Theorem tdvp2_exact_natural orth split (kexp : kexp_t R) (H : mpo R) psi dt hdt n d Ds DW m G A1 qD1 nrm tr :
    let L := length (o_A H) in
    tdvp_twosite orth split kexp H psi dt hdt n = Some (A1, qD1, nrm, tr) ->
    0 < d -> (forall j, j < L -> osite_ok d (DW j) (DW (S j)) (nth j (o_A H) [])) ->
    (forall j, j < L -> osite_struct d (nth j (o_A H) [])) -> (forall j, 0 < DW j) ->
    DW 0 = 1 -> DW L = 1 -> complete_profile (o_A H) d Ds m -> S m < L -> kadd R hdt hdt = dt ->
    kexp_flowH (o_A H) d Ds DW kexp -> kexp2_flowH (o_A H) d Ds DW kexp ->
    intertwine2_left (o_A H) d Ds DW kexp -> intertwine2_right (o_A H) d Ds DW kexp ->
    solver2_natural (o_A H) d Ds DW G m kexp -> G_flow (o_A H) d G ->
    (forall j, j < L -> wsite d (Ds j) (Ds (S j)) (nth j (m_A (fst (orth psi))) [])) ->
    (forall j, m < j < L -> runitary (nth j (m_A (fst (orth psi))) [])) ->
    ex2_tr_ok split d Ds (rev tr) ->
    2 <= L /\ nrm = snd (orth psi) /\ dense d L A1 = G (nmul n dt) (dense d L (m_A (fst (orth psi)))).
  Proof.
    intros L Hrun Hd HW HWst HDW HW0 HWL Hprof HmL Hdt Hk Hk2 HIL HIR Hnat HGf Hsh Hru Hok.
    pose proof Hprof as (HD0 & HDL & _ & _ & PR).
    apply (tdvp2_exact R orth split kexp H psi dt hdt n d Ds DW m G A1 qD1 nrm tr); try assumption.
    fold L. replace (Nat.min m (L - 2)) with m by lia.
    apply (natural2_global R (o_A H) d Ds DW m Hd HW HWst HDW HW0 HWL HD0 HDL HmL); [|exact Hnat].
    apply PR. fold L. lia.
  Qed.
  (* L = 2 (bond dimensions 1, d, 1) and L = 3 (bond dimensions 1, d, d, 1) *)
  Theorem tdvp2_exact_L2_natural orth split (kexp : kexp_t R) (H : mpo R) psi dt hdt n d DW G A1 qD1 nrm tr :
    let Ds := fun j => if Nat.eqb j 1 then d else 1 in
    length (o_A H) = 2 ->
    tdvp_twosite orth split kexp H psi dt hdt n = Some (A1, qD1, nrm, tr) ->
    0 < d -> (forall j, j < 2 -> osite_ok d (DW j) (DW (S j)) (nth j (o_A H) [])) ->
    (forall j, j < 2 -> osite_struct d (nth j (o_A H) [])) -> (forall j, 0 < DW j) -> DW 0 = 1 -> DW 2 = 1 ->
    kexp2_flowH (o_A H) d Ds DW kexp -> solver2_natural (o_A H) d Ds DW G 0 kexp -> G_flow (o_A H) d G ->
    wsite d 1 d (nth 0 (m_A (fst (orth psi))) []) -> wsite d d 1 (nth 1 (m_A (fst (orth psi))) []) ->
    ex2_tr_ok split d Ds (rev tr) ->
    nrm = snd (orth psi) /\ dense d 2 A1 = G (nmul n dt) (dense d 2 (m_A (fst (orth psi)))).
  Proof.
    intros Ds HL Hrun Hd HW HWst HDW HW0 HW2 Hk2 Hnat HGf Hs0 Hs1 Hok.
    apply (tdvp2_exact_L2 R orth split kexp H psi dt hdt n d DW G A1 qD1 nrm tr); try assumption.
    apply (natural2_global R (o_A H) d Ds DW 0 Hd); try assumption; rewrite ?HL; try assumption; try reflexivity; try lia.
    unfold Ds. cbn [Nat.eqb]. lia.
  Qed.

  Theorem tdvp2_exact_L3_natural orth split (kexp : kexp_t R) (H : mpo R) psi dt hdt n d DW G A1 qD1 nrm tr :
    let Ds := fun j => if Nat.eqb j 1 then d else if Nat.eqb j 2 then d else 1 in
    length (o_A H) = 3 ->
    tdvp_twosite orth split kexp H psi dt hdt n = Some (A1, qD1, nrm, tr) ->
    0 < d -> (forall j, j < 3 -> osite_ok d (DW j) (DW (S j)) (nth j (o_A H) [])) ->
    (forall j, j < 3 -> osite_struct d (nth j (o_A H) [])) -> (forall j, 0 < DW j) -> DW 0 = 1 -> DW 3 = 1 ->
    kadd R hdt hdt = dt ->
    kexp_flowH (o_A H) d Ds DW kexp -> kexp2_flowH (o_A H) d Ds DW kexp ->
    intertwine2_left (o_A H) d Ds DW kexp -> intertwine2_right (o_A H) d Ds DW kexp ->
    solver2_natural (o_A H) d Ds DW G 1 kexp -> G_flow (o_A H) d G ->
    wsite d 1 d (nth 0 (m_A (fst (orth psi))) []) -> wsite d d d (nth 1 (m_A (fst (orth psi))) []) ->
    wsite d d 1 (nth 2 (m_A (fst (orth psi))) []) -> runitary (nth 2 (m_A (fst (orth psi))) []) ->
    ex2_tr_ok split d Ds (rev tr) ->
    nrm = snd (orth psi) /\ dense d 3 A1 = G (nmul n dt) (dense d 3 (m_A (fst (orth psi)))).
  Proof.
    intros Ds HL Hrun Hd HW HWst HDW HW0 HW3 Hdt Hk Hk2 HIL HIR Hnat HGf Hs0 Hs1 Hs2 Hu2 Hok.
    apply (tdvp2_exact_L3 R orth split kexp H psi dt hdt n d DW G A1 qD1 nrm tr); try assumption.
    apply (natural2_global R (o_A H) d Ds DW 1 Hd); try assumption; rewrite ?HL; try assumption; try reflexivity; try lia.
    unfold Ds. cbn [Nat.eqb]. lia.
  Qed.
End Top2N.
