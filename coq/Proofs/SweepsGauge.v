(* C08/C10 — the QR gauge moves of the sweeps: reshapes around the block QR (site <-> matrix), the site-level
   consequences of the matrix-level QR contract (isometry, factorisation), and invariance of all amplitudes when the
   bond matrix is moved from one tensor to its neighbour. *)
From Coq Require Import ZArith Arith List Lia Ring Setoid Morphisms Bool.
From PT Require Import Base.Scalar Base.BigSum Base.Mx Model.Tensor Model.Operation Model.Sweeps
  Proofs.OperationSums Proofs.OperationEntries Proofs.OperationChains Proofs.OperationLocal Proofs.SweepsCanon.
Import ListNotations.

Section Gauge.
  Variable R : cring.
  Add Ring Rring_sweeps_gauge : (k_rt R).
  Notation "0" := (k0 R). Notation "1" := (k1 R).
  Infix "+" := (kadd R). Infix "*" := (kmul R).
  Notation site := (site R).
  Notation osite := (osite R).
  Notation env := (env R).
  Notation mx := (mx R).
  Notation cj := (kconj R).
  Notation dlt a b := (if Nat.eqb a b then 1 else 0).

  (* ---------------- LAPACK's contract for one QR call (matrix level) ---------------- *)
  Definition qr_ok (M : mx) (ans : mx * mx * list Z) : Prop :=
    let '(Q, C, _) := ans in
    nr Q = nr M /\ nc Q = nr C /\ nc C = nc M /\ (0 < nc Q)%nat /\ (nc Q <= nc M)%nat /\
    (forall i j, (i < nr M)%nat -> (j < nc M)%nat -> get M i j = sumn (nc Q) (fun k => get Q i k * get C k j)) /\
    (forall c c', (c < nc Q)%nat -> (c' < nc Q)%nat -> sumn (nr Q) (fun i => get Q i c * cj (get Q i c')) = dlt c c').

  (* ---------------- reshapes ---------------- *)
  Lemma sel_map (f : mx -> mx) (A : site) s : (s < length A)%nat -> sel (map f A) s = f (sel A s).
  Proof.
    intros Hs. unfold sel. rewrite (nth_indep _ (zeromx 0 0) (f (zeromx 0 0))) by (rewrite map_length; exact Hs). apply map_nth.
  Qed.
  Lemma sel_tabl d (f : nat -> mx) s : (s < d)%nat -> sel (tabl d f) s = f s.
  Proof. intros Hs. unfold sel, tabl. apply nth_map_seq. exact Hs. Qed.

  Lemma site_flat_shape d Dl Dr (X : site) : (0 < d)%nat -> site_ok d Dl Dr X ->
    nr (site_flat X) = (d * Dl)%nat /\ nc (site_flat X) = Dr.
  Proof. intros Hd HX. destruct (site_ok_sdl _ _ _ _ _ Hd HX) as (E1 & E2 & E3). unfold site_flat. cbv zeta. rewrite E1, E2, E3. split; reflexivity. Qed.
  Lemma get_site_flat d Dl Dr (X : site) s a c : (0 < d)%nat -> site_ok d Dl Dr X -> (s < d)%nat -> (a < Dl)%nat -> (c < Dr)%nat ->
    get (site_flat X) (s * Dl + a) c = get (sel X s) a c.
  Proof.
    intros Hd HX Hs Ha Hc. destruct (site_ok_sdl _ _ _ _ _ Hd HX) as (E1 & E2 & E3). unfold site_flat. cbv zeta. rewrite E1, E2, E3.
    rewrite get_tab by (try assumption; nia).
    rewrite Nat.div_add_l by lia. rewrite (Nat.div_small a Dl) by exact Ha. rewrite Nat.add_0_r.
    rewrite Nat.add_comm, Nat.mod_add by lia. rewrite Nat.mod_small by exact Ha. reflexivity.
  Qed.
  Lemma site_unflat_ok d Dl (Q : mx) : site_ok d Dl (nc Q) (site_unflat d Dl Q).
  Proof.
    split; [unfold site_unflat, tabl; rewrite map_length, seq_length; reflexivity|].
    intros s Hs. unfold site_unflat. rewrite sel_tabl by exact Hs. split; reflexivity.
  Qed.
  Lemma get_site_unflat d Dl (Q : mx) s a j : (s < d)%nat -> (a < Dl)%nat -> (j < nc Q)%nat ->
    get (sel (site_unflat d Dl Q) s) a j = get Q (s * Dl + a) j.
  Proof. intros Hs Ha Hj. unfold site_unflat. rewrite sel_tabl by exact Hs. rewrite get_tab by assumption. reflexivity. Qed.
  Lemma site_tr_ok d Dl Dr (X : site) : site_ok d Dl Dr X -> site_ok d Dr Dl (site_tr X).
  Proof.
    intros [Hl H]. split; [unfold site_tr; rewrite map_length; exact Hl|].
    intros s Hs. unfold site_tr. rewrite sel_map by lia. destruct (H s Hs) as [F1 F2]. unfold trmx. cbn [nr nc]. auto.
  Qed.
  Lemma get_site_tr d Dl Dr (X : site) s a c : site_ok d Dl Dr X -> (s < d)%nat -> (a < Dl)%nat -> (c < Dr)%nat ->
    get (sel (site_tr X) s) c a = get (sel X s) a c.
  Proof.
    intros [Hl H] Hs Ha Hc. unfold site_tr. rewrite sel_map by lia. destruct (H s Hs) as [F1 F2].
    unfold trmx. rewrite get_tab by lia. reflexivity.
  Qed.
  Lemma rmul_site_ok d Dl Dr Dc (A : site) (C : mx) : site_ok d Dl Dr A -> nc C = Dc -> site_ok d Dl Dc (rmul_site A C).
  Proof.
    intros [Hl H] HC. split; [unfold rmul_site; rewrite map_length; exact Hl|].
    intros s Hs. unfold rmul_site. rewrite (sel_map (fun M => mulmx M C)) by lia. rewrite nr_mulmx, nc_mulmx. destruct (H s Hs). auto.
  Qed.
  Lemma get_rmul_site d Dl Dr Dc (A : site) (C : mx) s a j : site_ok d Dl Dr A -> nr C = Dr -> nc C = Dc ->
    (s < d)%nat -> (a < Dl)%nat -> (j < Dc)%nat ->
    get (sel (rmul_site A C) s) a j = sumn Dr (fun c => get (sel A s) a c * get C c j).
  Proof.
    intros [Hl H] H1 H2 Hs Ha Hj. unfold rmul_site. rewrite (sel_map (fun M => mulmx M C)) by lia. destruct (H s Hs) as [F1 F2].
    rewrite get_mulmx by lia. rewrite F2. reflexivity.
  Qed.

  (* ---------------- site-level consequences of the QR contract ---------------- *)
  (* left move: X = Aq . C with Aq left-isometric *)
  Theorem qr_left_site d Dl Dr (X : site) (Q C : mx) qb :
    (0 < d)%nat -> site_ok d Dl Dr X -> qr_ok (site_flat X) (Q, C, qb) ->
    let Aq := site_unflat (length X) (sdl X) Q in
    site_ok d Dl (nr C) Aq /\ nc C = Dr /\ left_iso Aq /\
    (forall s a c, (s < d)%nat -> (a < Dl)%nat -> (c < Dr)%nat ->
       get (sel X s) a c = sumn (nr C) (fun j => get (sel Aq s) a j * get C j c)).
  Proof.
    intros Hd HX Hq Aq. destruct (site_ok_sdl _ _ _ _ _ Hd HX) as (E1 & E2 & E3).
    destruct (site_flat_shape d Dl Dr X Hd HX) as [S1 S2].
    destruct Hq as (q1 & q2 & q3 & _ & _ & q4 & q5). rewrite S1 in q1. rewrite S2 in q3.
    unfold Aq. rewrite E1, E3.
    assert (HAq : site_ok d Dl (nr C) (site_unflat d Dl Q)) by (rewrite <- q2; apply site_unflat_ok).
    split; [exact HAq|]. split; [exact q3|]. split.
    - intros c c' Hc Hc'. destruct (site_ok_sdl _ _ _ _ _ Hd HAq) as (G1 & G2 & G3). rewrite G1, G2, G3 in *.
      rewrite <- q2 in Hc, Hc'. rewrite <- (q5 c c' Hc Hc'), q1, sumn_flatten.
      apply sumn_ext; intros s Hs. apply sumn_ext; intros a Ha. rewrite !get_site_unflat by assumption. reflexivity.
    - intros s a c Hs Ha Hc. rewrite <- (get_site_flat d Dl Dr X s a c) by assumption.
      rewrite q4 by (rewrite ?S1, ?S2; try assumption; nia). rewrite q2.
      apply sumn_ext; intros j Hj. rewrite get_site_unflat by (try assumption; rewrite q2; exact Hj). reflexivity.
  Qed.

  (* right move: X = C^T . Aq with Aq right-isometric *)
  Theorem qr_right_site d Dl Dr (X : site) (Q C : mx) qb :
    (0 < d)%nat -> site_ok d Dl Dr X -> qr_ok (site_flat (site_tr X)) (Q, C, qb) ->
    let Aq := site_tr (site_unflat (length (site_tr X)) (sdl (site_tr X)) Q) in
    site_ok d (nr C) Dr Aq /\ nc C = Dl /\ right_iso Aq /\
    (forall s a c, (s < d)%nat -> (a < Dl)%nat -> (c < Dr)%nat ->
       get (sel X s) a c = sumn (nr C) (fun j => get (trmx C) a j * get (sel Aq s) j c)).
  Proof.
    intros Hd HX Hq Aq. pose proof (site_tr_ok d Dl Dr X HX) as HXt.
    destruct (site_ok_sdl _ _ _ _ _ Hd HXt) as (E1 & E2 & E3).
    destruct (site_flat_shape d Dr Dl (site_tr X) Hd HXt) as [S1 S2].
    destruct Hq as (q1 & q2 & q3 & _ & _ & q4 & q5). rewrite S1 in q1. rewrite S2 in q3.
    unfold Aq. rewrite E1, E3.
    assert (HU : site_ok d Dr (nr C) (site_unflat d Dr Q)) by (rewrite <- q2; apply site_unflat_ok).
    assert (HAq : site_ok d (nr C) Dr (site_tr (site_unflat d Dr Q))) by (apply site_tr_ok; exact HU).
    split; [exact HAq|]. split; [exact q3|]. split.
    - intros j j' Hj Hj'. destruct (site_ok_sdl _ _ _ _ _ Hd HAq) as (G1 & G2 & G3). rewrite G1, G2, G3 in *.
      rewrite <- q2 in Hj, Hj'. rewrite <- (q5 j j' Hj Hj'), q1, sumn_flatten.
      apply sumn_ext; intros s Hs. apply sumn_ext; intros c Hc.
      rewrite !(get_site_tr d Dr (nr C)) by (try assumption; rewrite <- q2; assumption).
      rewrite !get_site_unflat by assumption. reflexivity.
    - intros s a c Hs Ha Hc. rewrite <- (get_site_tr d Dl Dr X s a c) by assumption.
      rewrite <- (get_site_flat d Dr Dl (site_tr X) s c a) by assumption.
      rewrite q4 by (rewrite ?S1, ?S2; try assumption; nia). rewrite q2.
      apply sumn_ext; intros j Hj.
      rewrite (get_site_tr d Dr (nr C)) by assumption.
      rewrite get_site_unflat by (try assumption; rewrite q2; exact Hj).
      unfold trmx. rewrite get_tab by lia. ring.
  Qed.

  (* ---------------- amplitudes are unchanged when the bond matrix moves ---------------- *)
  Lemma site_ok_unique d Dl Dr Dl' Dr' (A : site) : (0 < d)%nat -> site_ok d Dl Dr A -> site_ok d Dl' Dr' A -> Dl = Dl' /\ Dr = Dr'.
  Proof. intros Hd [_ H] [_ H']. destruct (H 0%nat Hd), (H' 0%nat Hd). split; congruence. Qed.

  Lemma cvec_prefix_ext (Al : list site) : forall ds Ds1 Ds2 (rest1 rest2 : list site),
    chain_ok ds Ds1 (Al ++ rest1) -> chain_ok ds Ds2 (Al ++ rest2) -> hd 0%nat Ds1 = hd 0%nat Ds2 ->
    hd 0%nat (skipn (length Al) Ds1) = hd 0%nat (skipn (length Al) Ds2) ->
    (forall w' a', In w' (gwords (skipn (length Al) ds)) -> (a' < hd 0%nat (skipn (length Al) Ds1))%nat -> cvec rest1 w' a' = cvec rest2 w' a') ->
    forall w a, In w (gwords ds) -> (a < hd 0%nat Ds1)%nat -> cvec (Al ++ rest1) w a = cvec (Al ++ rest2) w a.
  Proof.
    induction Al as [|A Al IH]; intros ds Ds1 Ds2 rest1 rest2 H1 H2 Hh Hm Heq w a Hw Ha.
    - cbn [app length skipn] in *. apply Heq; assumption.
    - cbn [app] in *. pose proof H1 as H1'. pose proof H2 as H2'.
      apply chain_ok_cons_inv in H1. destruct H1 as (d & ds' & Dl1 & Dr1 & Ds1' & -> & -> & Hd & HA1 & Hc1).
      apply chain_ok_cons_inv in H2. destruct H2 as (d2 & ds2 & Dl2 & Dr2 & Ds2' & E & -> & _ & HA2 & Hc2).
      injection E as <- <-. destruct (site_ok_unique _ _ _ _ _ _ Hd HA1 HA2) as [<- <-]. cbn [hd length skipn] in *.
      apply in_gwords_cons in Hw. destruct Hw as (s & w' & -> & Hs & Hw').
      rewrite (cvec_cons R d ds' Dl1 Dr1 Ds1') by assumption. rewrite (cvec_cons R d ds' Dl1 Dr1 Ds2') by assumption.
      apply sumn_ext; intros c Hc. f_equal.
      apply (IH ds' (Dr1 :: Ds1') (Dr1 :: Ds2')); try assumption; reflexivity.
  Qed.

  Theorem gauge_amp (Al Ar : list site) (P1 B1 P2 B2 : site) dsl DsAl d1 d2 D0 D1 D1' D2 dsr DsAr :
    chainx_ok dsl DsAl Al -> last DsAl 0%nat = D0 -> (0 < d1)%nat -> (0 < d2)%nat ->
    site_ok d1 D0 D1 P1 -> site_ok d2 D1 D2 B1 -> site_ok d1 D0 D1' P2 -> site_ok d2 D1' D2 B2 ->
    chain_ok dsr (D2 :: DsAr) Ar ->
    (forall s t a e, (s < d1)%nat -> (t < d2)%nat -> (a < D0)%nat -> (e < D2)%nat ->
       sumn D1 (fun c => get (sel P1 s) a c * get (sel B1 t) c e) = sumn D1' (fun j => get (sel P2 s) a j * get (sel B2 t) j e)) ->
    forall w, In w (gwords (dsl ++ d1 :: d2 :: dsr)) -> hd 0%nat DsAl = 1%nat ->
    amp (Al ++ P1 :: B1 :: Ar) w = amp (Al ++ P2 :: B2 :: Ar) w.
  Proof.
    intros HAl Hl Hd1 Hd2 HP1 HB1 HP2 HB2 HAr Hmid w Hw Hh.
    assert (G1 : chain_ok (d2 :: dsr) (D1 :: D2 :: DsAr) (B1 :: Ar)) by (apply chain_ok_cons; assumption).
    assert (G2 : chain_ok (d2 :: dsr) (D1' :: D2 :: DsAr) (B2 :: Ar)) by (apply chain_ok_cons; assumption).
    destruct (chain_glue R Al dsl DsAl d1 D0 D1 P1 (d2 :: dsr) (D2 :: DsAr) (B1 :: Ar) HAl Hl Hd1 HP1 G1) as [C1 h1].
    destruct (chain_glue R Al dsl DsAl d1 D0 D1' P2 (d2 :: dsr) (D2 :: DsAr) (B2 :: Ar) HAl Hl Hd1 HP2 G2) as [C2 h2].
    rewrite !amp_cvec.
    assert (Hlen : length Al = length dsl) by (apply (chainx_ok_length R dsl DsAl Al HAl)).
    assert (HlenD : length DsAl = S (length dsl)).
    { clear - HAl. revert dsl DsAl HAl. induction Al as [|A Al IH]; intros dsl DsAl H.
      - apply chainx_ok_nil_inv in H. destruct H as [-> [D ->]]. reflexivity.
      - apply chainx_ok_cons_inv in H. destruct H as (d & ds' & Dl & Dr & Ds' & -> & -> & _ & _ & H). pose proof (IH _ _ H) as E. cbn [length] in *. lia. }
    assert (Hsk : forall Dx rest, skipn (length Al) (DsAl ++ Dx :: rest) = last DsAl 0%nat :: Dx :: rest).
    { intros Dx rest. rewrite Hlen. clear - HlenD. revert DsAl HlenD. induction dsl as [|x dsl IH]; intros DsAl H.
      - destruct DsAl as [|D [|? ?]]; cbn [length] in H; try discriminate. reflexivity.
      - destruct DsAl as [|D [|D' Ds']]; cbn [length] in H; try discriminate. cbn [length skipn app].
        change (last (D :: D' :: Ds') 0%nat) with (last (D' :: Ds') 0%nat). apply (IH (D' :: Ds')). cbn [length]. lia. }
    assert (Hskd : skipn (length Al) (dsl ++ d1 :: d2 :: dsr) = d1 :: d2 :: dsr).
    { rewrite Hlen. clear. induction dsl; [reflexivity|]. cbn [length skipn app]. exact IHdsl. }
    apply (cvec_prefix_ext Al (dsl ++ d1 :: d2 :: dsr) (DsAl ++ D1 :: D2 :: DsAr) (DsAl ++ D1' :: D2 :: DsAr) (P1 :: B1 :: Ar) (P2 :: B2 :: Ar));
      try assumption.
    - rewrite h1, h2. reflexivity.
    - rewrite !Hsk. reflexivity.
    - intros w' a' Hw' Ha'. rewrite Hskd in Hw'. rewrite Hsk, Hl in Ha'. cbn [hd] in Ha'.
      apply in_gwords_cons in Hw'. destruct Hw' as (s & w1 & -> & Hs & Hw1).
      apply in_gwords_cons in Hw1. destruct Hw1 as (t & w2 & -> & Ht & Hw2).
      rewrite (cvec_cons R d1 (d2 :: dsr) D0 D1 (D2 :: DsAr)); try assumption.
      2: { apply chain_ok_cons; assumption. }
      2: { cbn [gwords]. apply in_flat_map. exists t. split; [apply in_seq; lia|]. apply in_map. exact Hw2. }
      rewrite (cvec_cons R d1 (d2 :: dsr) D0 D1' (D2 :: DsAr)); try assumption.
      2: { apply chain_ok_cons; assumption. }
      2: { cbn [gwords]. apply in_flat_map. exists t. split; [apply in_seq; lia|]. apply in_map. exact Hw2. }
      transitivity (sumn D2 (fun e => sumn D1 (fun c => get (sel P1 s) a' c * get (sel B1 t) c e) * cvec Ar w2 e)).
      { transitivity (sumn D1 (fun c => sumn D2 (fun e => get (sel P1 s) a' c * get (sel B1 t) c e * cvec Ar w2 e))).
        - apply sumn_ext; intros c Hc. rewrite (cvec_cons R d2 dsr D1 D2 DsAr) by assumption.
          rewrite <- sumn_scal_l. apply sumn_ext; intros e _. ring.
        - rewrite sumn_exch. apply sumn_ext; intros e _. rewrite <- sumn_scal_r. reflexivity. }
      transitivity (sumn D2 (fun e => sumn D1' (fun j => get (sel P2 s) a' j * get (sel B2 t) j e) * cvec Ar w2 e)).
      { apply sumn_ext; intros e He. rewrite Hmid by assumption. reflexivity. }
      symmetry.
      transitivity (sumn D1' (fun c => sumn D2 (fun e => get (sel P2 s) a' c * get (sel B2 t) c e * cvec Ar w2 e))).
      + apply sumn_ext; intros c Hc. rewrite (cvec_cons R d2 dsr D1' D2 DsAr) by assumption.
        rewrite <- sumn_scal_l. apply sumn_ext; intros e _. ring.
      + rewrite sumn_exch. apply sumn_ext; intros e _. rewrite <- sumn_scal_r. reflexivity.
    - rewrite h1, Hh. lia.
  Qed.

  (* the two instances used by the sweeps *)
  Lemma mid_left d1 d2 D0 D1 k D2 (X Aq B : site) (C : mx) :
    site_ok d1 D0 k Aq -> site_ok d2 D1 D2 B -> nr C = k -> nc C = D1 ->
    (forall s a c, (s < d1)%nat -> (a < D0)%nat -> (c < D1)%nat -> get (sel X s) a c = sumn k (fun j => get (sel Aq s) a j * get C j c)) ->
    forall s t a e, (s < d1)%nat -> (t < d2)%nat -> (a < D0)%nat -> (e < D2)%nat ->
      sumn D1 (fun c => get (sel X s) a c * get (sel B t) c e) = sumn k (fun j => get (sel Aq s) a j * get (sel (cmul_site C B) t) j e).
  Proof.
    intros HAq HB HrC HcC HX s t a e Hs Ht Ha He.
    transitivity (sumn D1 (fun c => sumn k (fun j => get (sel Aq s) a j * get C j c * get (sel B t) c e))).
    { apply sumn_ext; intros c Hc. rewrite HX by assumption. rewrite <- sumn_scal_r. reflexivity. }
    rewrite sumn_exch. apply sumn_ext; intros j Hj.
    rewrite (get_cmul_site R d2 k D1 D2) by assumption. rewrite <- sumn_scal_l. apply sumn_ext; intros c _. ring.
  Qed.
  Lemma mid_right d1 d2 D0 D1 k D2 (P X Aq : site) (Ct : mx) :
    site_ok d1 D0 D1 P -> site_ok d2 k D2 Aq -> nr Ct = D1 -> nc Ct = k ->
    (forall t c e, (t < d2)%nat -> (c < D1)%nat -> (e < D2)%nat -> get (sel X t) c e = sumn k (fun j => get Ct c j * get (sel Aq t) j e)) ->
    forall s t a e, (s < d1)%nat -> (t < d2)%nat -> (a < D0)%nat -> (e < D2)%nat ->
      sumn D1 (fun c => get (sel P s) a c * get (sel X t) c e) = sumn k (fun j => get (sel (rmul_site P Ct) s) a j * get (sel Aq t) j e).
  Proof.
    intros HP HAq HrC HcC HX s t a e Hs Ht Ha He.
    transitivity (sumn D1 (fun c => sumn k (fun j => get (sel P s) a c * get Ct c j * get (sel Aq t) j e))).
    { apply sumn_ext; intros c Hc. rewrite HX by assumption. rewrite <- sumn_scal_l. apply sumn_ext; intros j _. ring. }
    rewrite sumn_exch. apply sumn_ext; intros j Hj.
    rewrite (get_rmul_site d1 D0 D1 k) by assumption. rewrite <- sumn_scal_r. reflexivity.
  Qed.
End Gauge.

Arguments qr_ok {R} M ans.

(* the QR shape bound: a left move never increases the right bond dimension of the tensor, a right move never the left one *)
Lemma qr_left_bond_bound (R : cring) (X : site R) (Q C : mx R) qb :
  qr_ok (site_flat X) (Q, C, qb) -> sdr (site_unflat (length X) (sdl X) Q) <= sdr X.
Proof.
  intros (_ & _ & _ & _ & Hle & _). unfold site_flat in Hle. cbv zeta in Hle. cbn [nc tab] in Hle.
  unfold sdr at 1, site_unflat, sel, tabl. destruct (length X) as [|n]; [cbn; lia|].
  rewrite (nth_map_seq (zeromx 0 0)) by lia. cbn [nc tab]. exact Hle.
Qed.
Lemma qr_right_bond_bound (R : cring) (X : site R) (Q C : mx R) qb :
  qr_ok (site_flat (site_tr X)) (Q, C, qb) ->
  sdl (site_tr (site_unflat (length (site_tr X)) (sdl (site_tr X)) Q)) <= sdl X.
Proof.
  intros (_ & _ & _ & _ & Hle & _). unfold site_flat in Hle. cbv zeta in Hle. cbn [nc tab] in Hle.
  assert (E : sdr (site_tr X) = sdl X).
  { unfold sdr, sdl, site_tr, sel. destruct X as [|M X']; [reflexivity|]. reflexivity. }
  rewrite E in Hle. unfold site_tr at 1. unfold sdl at 1, sel.
  destruct (length (site_tr X)) as [|n] eqn:El; [cbn; lia|].
  unfold site_unflat, tabl. cbn [seq map nth]. cbn [trmx nr tab]. exact Hle.
Qed.
