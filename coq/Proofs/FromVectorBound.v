(* C13 — MPS.from_vector(tol): squared error bound  || as_vector(from_vector v tol) - v ||^2 <= n * tol * ||v||^2.
   Each TT-SVD step splits the current remainder M = U diag(s) V as  U_K (diag(s_K) V_K)  +  residual, the residual is
   orthogonal to the kept left factor and has squared norm sum_{discarded} s^2 <= tol ||M||^2 (C12_retained_spec), the kept
   left factor is an isometry, and the norm of the remainder never grows; Pythagoras per step and induction over the loop. *)
From Coq Require Import ZArith List Bool Lia Arith Permutation Sorted Ring Field.
From PT Require Import Base.Scalar Base.Field Base.BigSum Base.Mx Model.Tensor Model.MPSOps Model.BondOps Model.FromVector.
From PT Require Import Proofs.MPSOpsBase Proofs.MPSOpsMul Proofs.MPSOpsDense Proofs.MPSOpsTop Proofs.MPSOpsShape Proofs.MPSOpsSparseFull.
From PT Require Import Proofs.BondOpsPerm Proofs.BondOpsLoop Proofs.BondOpsSpec Proofs.BondOpsRetained Proofs.BondOpsFrob Proofs.BondOpsSVD.
From PT Require Import Proofs.FromVectorRetained Proofs.FromVectorExact Proofs.OrthGram Proofs.CompressPartial Proofs.CompressSVD.
Import ListNotations.
Open Scope nat_scope.

Section FVAlg.
  Variable R : cring.
  Add Ring Rring_fvb : (k_rt R).
  Notation rO := (k0 R). Notation rI := (k1 R).
  Infix "+!" := (kadd R) (at level 50, left associativity).
  Infix "*!" := (kmul R) (at level 40, left associativity).
  Notation cj := (kconj R).

  Definition n2 (m n : nat) (f : nat -> nat -> R) : R := sumn m (fun a => sumn n (fun c => cj (f a c) *! f a c)).

  Lemma n2_ext m n f g : (forall a c, a < m -> c < n -> f a c = g a c) -> n2 m n f = n2 m n g.
  Proof. intros H. unfold n2. apply sumn_ext; intros a Ha. apply sumn_ext; intros c Hc. rewrite H by assumption. reflexivity. Qed.

  Lemma iso_norm m n k (U X : nat -> nat -> R) :
    (forall l l', l < k -> l' < k -> sumn m (fun r => cj (U r l) *! U r l') = delta R l l') ->
    n2 m n (fun r c => sumn k (fun l => U r l *! X l c)) = n2 k n X.
  Proof.
    intros HU. unfold n2.
    transitivity (sumn m (fun r => sumn n (fun c => sumn k (fun l => sumn k (fun l' =>
                    (cj (U r l) *! U r l') *! (cj (X l c) *! X l' c)))))).
    { apply sumn_ext; intros r _. apply sumn_ext; intros c _. rewrite sumn_conj, (sum_mul2 R).
      apply sumn_ext; intros l _. apply sumn_ext; intros l' _. rewrite kconj_mul. ring. }
    rewrite sumn_exch. transitivity (sumn n (fun c => sumn k (fun l => cj (X l c) *! X l c))); [|apply sumn_exch].
    apply sumn_ext; intros c _. rewrite sumn_exch. apply sumn_ext; intros l Hl. rewrite sumn_exch.
    transitivity (sumn k (fun l' => (if Nat.eqb l' l then rI else rO) *! (cj (X l c) *! X l' c))).
    { apply sumn_ext; intros l' Hl'. rewrite sumn_scal_r. rewrite (HU l l' Hl Hl'). unfold delta. rewrite (Nat.eqb_sym l l'). reflexivity. }
    apply (sumn_delta_l R k l (fun l' => cj (X l c) *! X l' c) Hl).
  Qed.

  Lemma pyth m n k (W D Rs : nat -> nat -> R) :
    (forall b b', b < k -> b' < k -> sumn m (fun r => cj (W r b) *! W r b') = delta R b b') ->
    (forall b c, b < k -> c < n -> sumn m (fun r => cj (W r b) *! Rs r c) = rO) ->
    n2 m n (fun r c => sumn k (fun b => W r b *! D b c) +! Rs r c) = n2 k n D +! n2 m n Rs.
  Proof.
    intros HW Hort. rewrite <- (iso_norm m n k W D HW). unfold n2.
    assert (HB : sumn m (fun r => sumn n (fun c => cj (sumn k (fun b => W r b *! D b c)) *! Rs r c)) = rO).
    { rewrite sumn_exch. apply sumn_zero; intros c Hc.
      transitivity (sumn k (fun b => cj (D b c) *! sumn m (fun r => cj (W r b) *! Rs r c))).
      - transitivity (sumn m (fun r => sumn k (fun b => cj (D b c) *! (cj (W r b) *! Rs r c)))).
        + apply sumn_ext; intros r _. rewrite sumn_conj, <- sumn_scal_r. apply sumn_ext; intros b _. rewrite kconj_mul. ring.
        + rewrite sumn_exch. apply sumn_ext; intros b _. apply sumn_scal_l.
      - apply sumn_zero; intros b Hb. rewrite (Hort b c Hb Hc). ring. }
    assert (HC : sumn m (fun r => sumn n (fun c => cj (Rs r c) *! sumn k (fun b => W r b *! D b c))) = rO).
    { rewrite <- (kconj_0 R). rewrite <- HB. rewrite sumn_conj. apply sumn_ext; intros r _. rewrite sumn_conj.
      apply sumn_ext; intros c _. rewrite kconj_mul, kconj_inv. ring. }
    transitivity (sumn m (fun r => sumn n (fun c => cj (sumn k (fun b => W r b *! D b c)) *! sumn k (fun b => W r b *! D b c))) +!
                  (sumn m (fun r => sumn n (fun c => cj (sumn k (fun b => W r b *! D b c)) *! Rs r c)) +!
                   (sumn m (fun r => sumn n (fun c => cj (Rs r c) *! sumn k (fun b => W r b *! D b c))) +!
                    sumn m (fun r => sumn n (fun c => cj (Rs r c) *! Rs r c))))).
    - rewrite <- !sumn_add. apply sumn_ext; intros r _. rewrite <- !sumn_add. apply sumn_ext; intros c _.
      rewrite kconj_add. ring.
    - rewrite HB, HC. ring.
  Qed.

  (* a sum over 0..K-1 splits into the selected positions and the rest *)
  Lemma sum_split_g K (g : nat -> bool) (f : nat -> R) :
    sumn K f = sumn (length (filter g (seq 0 K))) (fun b => f (nth b (filter g (seq 0 K)) 0)) +!
               sumn K (fun l => if g l then rO else f l).
  Proof.
    rewrite <- (suml_nth' R 0 (filter g (seq 0 K)) f). rewrite (suml_filter R), !suml_seq. rewrite <- sumn_add.
    apply sumn_ext. intros l _. destruct (g l); ring.
  Qed.
End FVAlg.
Arguments n2 {R} m n f.

Section FVBound.
  Variable F : ofield.
  Add Field Ffield_fvb : (f_ft F).
  Notation CF := (Cx F).
  Add Ring CFring_fvb : (k_rt CF).
  Notation mx := (mx CF).
  Notation site := (site CF).
  Notation cO := (k0 CF). Notation cI := (k1 CF).
  Infix "+!" := (kadd CF) (at level 50, left associativity).
  Infix "*!" := (kmul CF) (at level 40, left associativity).
  Notation cj := (kconj CF).
  Notation emb := (@cof F).

  Variable dsvd : nat -> mx -> mx * list F * mx.
  Variable srt : nat -> list F -> list nat.
  Variable tol : F.
  Hypothesis Htol0 : fle F (f0 F) tol.
  Hypothesis Htol1 : flt F tol (f1 F).

  (* contract of call i: LAPACK's contract [dsvd_ok] (C12: shapes, U diag(s) V = M, U^H U = I, V V^H = I, s >= 0) and [pick_ok] *)
  Definition fv_call_ok2 (c : nat * mx) : Prop :=
    dsvd_ok F (snd c) (dsvd (fst c) (snd c)) /\
    pick_ok F (normsq (snd (fst (dsvd (fst c) (snd c))))) (srt (fst c) (normsq (snd (fst (dsvd (fst c) (snd c)))))).

  Lemma fsum_sq_nonneg (s : list F) (L : list nat) : fle F (f0 F) (fsum (map (sqv F s) L)).
  Proof. induction L as [|x L IH]; simpl; [apply fle_refl|]. apply fle_add_nonneg; [apply fsq_nonneg|exact IH]. Qed.
  Lemma fsum_filter_split (f : nat -> F) (g : nat -> bool) (L : list nat) :
    fadd F (fsum (map f (filter g L))) (fsum (map f (filter (fun l => negb (g l)) L))) = fsum (map f L).
  Proof. induction L as [|x L IH]; simpl; [ring|]. destruct (g x); simpl; rewrite <- IH; ring. Qed.
  Lemma filter_eqb0 n : filter (fun l => Nat.eqb l 0) (seq 0 (S n)) = [0].
  Proof.
    simpl. f_equal. assert (H : forall a, 0 < a -> filter (fun l => Nat.eqb l 0) (seq a n) = []).
    { induction n as [|n IH]; intros a Ha; [reflexivity|]. simpl. destruct a; [lia|]. simpl. apply IH. lia. }
    apply H. lia.
  Qed.

  (* the kept index list is a filter of 0..K-1, and the discarded squares are within tolerance *)
  Lemma fv_idx_g i (s : list F) : 0 < length s -> (forall x, In x s -> fle F (f0 F) x) ->
    pick_ok F (normsq s) (srt i (normsq s)) ->
    exists g, fv_idx srt i s tol = filter g (seq 0 (length s)) /\
      fle F (fsum (map (sqv F s) (filter (fun l => negb (g l)) (seq 0 (length s))))) (fmul F tol (sqsum s)).
  Proof.
    intros Hlen Hnn Hpick. unfold fv_idx.
    destruct (feqb F (sqsum s) (f0 F)) eqn:E.
    - assert (Er : retained (srt i) s tol = []) by (unfold retained; rewrite E; reflexivity). rewrite Er.
      exists (fun l => Nat.eqb l 0). split.
      + destruct (length s) as [|n]; [lia|]. rewrite filter_eqb0. reflexivity.
      + apply feqb_spec in E. rewrite E. rewrite fsum_zero.
        * replace (fmul F tol (f0 F)) with (f0 F) by ring. apply fle_refl.
        * intros x Hx. apply in_map_iff in Hx. destruct Hx as (l & <- & Hl). apply filter_In in Hl. destruct Hl as [Hl _]. apply in_seq in Hl.
          unfold sqv. rewrite (sqsum_zero_all F s E (nth l s (f0 F))) by (apply nth_In; lia). ring.
    - assert (Hw : sqsum s <> f0 F) by (intros E2; apply (feqb_spec F) in E2; congruence).
      assert (Hne : exists x, In x s /\ x <> f0 F).
      { destruct (all_zero_or_not F s) as [H|H]; [|exact H]. exfalso. apply Hw. apply all_zero_sqsum. exact H. }
      destruct (retained_spec F (srt i) s tol Hnn Hne Htol0 Htol1 Hpick) as (_ & _ & RS3 & RS4 & _).
      assert (Er : retained (srt i) s tol = filter (fun i0 => fltb F tol (nth i0 (cumweights (srt i) s) (f0 F))) (seq 0 (length s)))
        by (unfold retained; rewrite E; reflexivity).
      set (g := fun i0 => fltb F tol (nth i0 (cumweights (srt i) s) (f0 F))) in *.
      exists g. split.
      + destruct (retained (srt i) s tol) as [|x r] eqn:Ek; [congruence|]. exact Er.
      + assert (Ed : discarded s (retained (srt i) s tol) = filter (fun l => negb (g l)) (seq 0 (length s))).
        { unfold discarded. apply filter_ext_in. intros l Hl. rewrite Er. rewrite existsb_eqb_filter by exact Hl. reflexivity. }
        rewrite <- Ed. rewrite <- (disc_weight_mul F s _ Hw).
        apply fle_mul_nonneg_compat; [apply sqsum_nonneg|exact RS4].
  Qed.

  Definition sq (z : CF) : CF := cj z *! z.

  (* ---------- one iteration ---------- *)
  Lemma fv_step2 d rem' i (v : mx) :
    0 < d -> 0 < nr v -> nc v = d * d ^ rem' ->
    let M := fv_mat d rem' v in
    fv_call_ok2 (i, M) ->
    let '(u, s, vt) := dsvd i M in
    let idx := fv_idx srt i s tol in
    let A := fv_site d (nr v) (colsel idx u) in
    let v' := fv_next idx s vt in
    fv_shapes_ok M u s vt idx = true /\
    0 < length idx /\ length idx <= Nat.min (nr v * d) (d ^ rem') /\
    site_shape d (nr v) (length idx) A = true /\
    nr v' = length idx /\ nc v' = d ^ rem' /\
    exists nv' dsc,
      n2 (length idx) (d ^ rem') (get v') = emb nv' /\ fle F (f0 F) nv' /\ fle F (f0 F) dsc /\
      fle F dsc (fmul F tol (fadd F nv' dsc)) /\
      forall Rc : nat -> nat -> CF,
        sumn (nr v) (fun a => sumn d (fun sp => sumn (d ^ rem') (fun c =>
          sq (ksub CF (get v a (sp * d ^ rem' + c)) (sumn (length idx) (fun b' => get (sel A sp) a b' *! Rc b' c))))))
        = n2 (length idx) (d ^ rem') (fun b c => ksub CF (get v' b c) (Rc b c)) +! emb dsc.
  Proof.
    intros Hd HDl Hcv M. set (m' := d ^ rem') in *.
    assert (Hm' : 0 < m') by (unfold m'; apply Nat.neq_0_lt_0, Nat.pow_nonzero; lia).
    assert (HrM : nr M = nr v * d) by reflexivity.
    assert (HcM : nc M = m') by reflexivity.
    intros [Hsvd Hpick]. cbn [fst snd] in Hsvd, Hpick.
    assert (Hfac := dsvd_fac_ok F (dsvd i) M Hsvd).
    destruct (dsvd i M) as [[u s] vt]. cbn [fst snd] in Hpick.
    unfold dsvd_ok in Hsvd. rewrite HrM, HcM in Hsvd.
    set (K := Nat.min (nr v * d) m') in *.
    destruct Hsvd as (_ & _ & Hru & Hcu & Hls & Hrvt & Hcvt & _ & _ & _ & Hnn).
    unfold fac_ok in Hfac. rewrite HrM, HcM, Hls in Hfac.
    destruct Hfac as (_ & _ & _ & _ & _ & _ & _ & Hprod & HorU & HorV & _). specialize (HorV I).
    assert (HK : 0 < K) by (unfold K; apply Nat.min_glb_lt; nia).
    cbv zeta.
    set (idx := fv_idx srt i s tol).
    destruct (fv_idx_bounds F srt i s tol ltac:(lia)) as (Hi0 & Hi1 & Hi2). fold idx in Hi0, Hi1, Hi2.
    destruct (fv_idx_g i s ltac:(lia) ltac:(rewrite Forall_forall in Hnn; exact Hnn) Hpick) as (g & Eg & Hdsc).
    fold idx in Eg. rewrite Hls in Eg, Hdsc.
    split.
    { unfold fv_shapes_ok. rewrite HrM, HcM. fold K. rewrite Hru, Hcu, Hls, Hrvt, Hcvt, !Nat.eqb_refl. cbn [andb].
      apply forallb_forall. intros l Hl. apply Nat.ltb_lt. rewrite <- Hls. apply Hi2. exact Hl. }
    split; [exact Hi0|]. split; [rewrite <- Hls; exact Hi1|].
    split.
    { unfold fv_site. apply site_shape_stab. intros sp Hsp. unfold colsel. rewrite nc_tab.
      split; [apply wfb_tab|]. split; reflexivity. }
    split; [reflexivity|]. split; [unfold fv_next, rowsel; rewrite !nc_tab; exact Hcvt|].
    (* entry-level facts *)
    assert (Hidx : forall b, b < length idx -> nth b idx 0 < K).
    { intros b Hb. rewrite <- Hls. apply Hi2. apply nth_In. exact Hb. }
    assert (Hgi : forall b, b < length idx -> g (nth b idx 0) = true).
    { intros b Hb. assert (Hin := nth_In idx 0 Hb). rewrite Eg in Hin at 2. apply filter_In in Hin. tauto. }
    assert (GV' : forall b c, b < length idx -> c < m' ->
              get (fv_next idx s vt) b c = get vt (nth b idx 0) c *! emb (nth (nth b idx 0) s (f0 F))).
    { intros b c Hb Hc. unfold fv_next. rewrite get_tab by (unfold rowsel; rewrite ?nr_tab, ?nc_tab, ?Hcvt; assumption).
      unfold rowsel. rewrite get_tab by (rewrite ?Hcvt; assumption).
      rewrite (nth_map_lt (fun l => nth l s (f0 F)) idx b 0 (f0 F) Hb). reflexivity. }
    assert (GA : forall a sp b, a < nr v -> sp < d -> b < length idx ->
              get (sel (fv_site d (nr v) (colsel idx u)) sp) a b = get u (a * d + sp) (nth b idx 0)).
    { intros a sp b Ha Hsp Hb. unfold fv_site. rewrite sel_stab by exact Hsp.
      unfold colsel at 1. rewrite nc_tab. rewrite get_tab by assumption.
      unfold colsel. rewrite get_tab by (rewrite ?Hru; try assumption; apply flat_lt; assumption). reflexivity. }
    assert (GM : forall a sp c, a < nr v -> sp < d -> c < m' -> get v a (sp * m' + c) = get M (a * d + sp) c).
    { intros a sp c Ha Hsp Hc. unfold M, fv_mat. rewrite (get_reshape CF) by (try apply flat_lt; assumption). fold m'. rewrite Hcv. fold m'.
      destruct (divmod_flat a (sp * m' + c) (d * m') ((a * d + sp) * m' + c)) as [E1 E2].
      { apply flat_lt; assumption. } { lia. }
      rewrite E1, E2. reflexivity. }
    set (w' := fun l => if g l then cO else emb (nth l s (f0 F))).
    set (W := fun r b => get u r (nth b idx 0)).
    set (Rs := fun r c => sumn K (fun l => get u r l *! w' l *! get vt l c)).
    assert (HU : forall k l, k < K -> l < K -> sumn (nr v * d) (fun r => cj (get u r k) *! get u r l) = delta CF k l)
      by (intros k l Hk Hl; apply HorU; assumption).
    assert (HV : forall k l, k < K -> l < K -> sumn m' (fun j => get vt k j *! cj (get vt l j)) = delta CF k l)
      by (intros k l Hk Hl; apply HorV; assumption).
    assert (HW : forall b b', b < length idx -> b' < length idx -> sumn (nr v * d) (fun r => cj (W r b) *! W r b') = delta CF b b').
    { intros b b' Hb Hb'. unfold W. rewrite (HU _ _ (Hidx b Hb) (Hidx b' Hb')).
      rewrite Eg. apply (K_delta CF K g); rewrite <- Eg; assumption. }
    assert (Hort : forall b c, b < length idx -> c < m' -> sumn (nr v * d) (fun r => cj (W r b) *! Rs r c) = cO).
    { intros b c Hb Hc. unfold W, Rs.
      transitivity (sumn K (fun l => delta CF (nth b idx 0) l *! (w' l *! get vt l c))).
      - transitivity (sumn (nr v * d) (fun r => sumn K (fun l => (cj (get u r (nth b idx 0)) *! get u r l) *! (w' l *! get vt l c)))).
        + apply sumn_ext; intros r _. rewrite <- sumn_scal_l. apply sumn_ext; intros l _. ring.
        + rewrite sumn_exch. apply sumn_ext; intros l Hl. rewrite sumn_scal_r. rewrite (HU _ _ (Hidx b Hb) Hl). reflexivity.
      - apply sumn_zero. intros l Hl. unfold delta. destruct (Nat.eqb (nth b idx 0) l) eqn:El; [|ring].
        apply Nat.eqb_eq in El. subst l. unfold w'. rewrite (Hgi b Hb). ring. }
    set (dsc := fsum (map (sqv F s) (filter (fun l => negb (g l)) (seq 0 K)))) in *.
    assert (HRs : n2 (nr v * d) m' Rs = emb dsc).
    { unfold n2, Rs. rewrite (frob_usv CF (nr v * d) m' K (fun r l => get u r l) (fun l c => get vt l c) w' HU HV).
      rewrite <- (suml_seq CF K). unfold w'. apply (suml_disc F s g (seq 0 K)). }
    set (nv' := fsum (map (sqv F s) idx)).
    exists nv', dsc.
    split.
    { unfold n2. transitivity (@sumn CF (length idx) (fun b => emb (sqv F s (nth b idx 0)))).
      - apply sumn_ext; intros b Hb.
        transitivity (sumn m' (fun c => emb (sqv F s (nth b idx 0)) *! (get vt (nth b idx 0) c *! cj (get vt (nth b idx 0) c)))).
        + apply sumn_ext; intros c Hc. rewrite !GV' by assumption. rewrite kconj_mul, (conj_cof F). unfold sqv. rewrite <- (cof_mul F). ring.
        + rewrite sumn_scal_l. rewrite (HV _ _ (Hidx b Hb) (Hidx b Hb)). unfold delta. rewrite Nat.eqb_refl. ring.
      - unfold nv'. rewrite <- (sqs_map_nth F s idx). rewrite <- (sumn_emb_sq F). rewrite map_length.
        apply sumn_ext; intros b Hb. unfold sqv. rewrite (nth_map_lt (fun l => nth l s (f0 F)) idx b 0 (f0 F) Hb). reflexivity. }
    split; [apply fsum_sq_nonneg|]. split; [apply fsum_sq_nonneg|].
    split.
    { unfold nv', dsc. rewrite Eg. rewrite (fsum_filter_split (sqv F s) g (seq 0 K)). rewrite <- Hls. rewrite (sqsum_seq F s). rewrite Hls. exact Hdsc. }
    intros Rc.
    set (D := fun b c => ksub CF (get (fv_next idx s vt) b c) (Rc b c)).
    assert (Hpt : forall a sp c, a < nr v -> sp < d -> c < m' ->
              ksub CF (get v a (sp * m' + c)) (sumn (length idx) (fun b' => get (sel (fv_site d (nr v) (colsel idx u)) sp) a b' *! Rc b' c))
              = sumn (length idx) (fun b => W (a * d + sp) b *! D b c) +! Rs (a * d + sp) c).
    { intros a sp c Ha Hsp Hc. rewrite (GM a sp c Ha Hsp Hc).
      rewrite <- (Hprod (a * d + sp) c ltac:(apply flat_lt; assumption) Hc).
      rewrite (sum_split_g CF K g (fun l => get u (a * d + sp) l *! wt CF F emb s l *! get vt l c)). rewrite <- Eg.
      assert (EX2 : sumn K (fun l => if g l then cO else get u (a * d + sp) l *! wt CF F emb s l *! get vt l c) = Rs (a * d + sp) c).
      { unfold Rs. apply sumn_ext; intros l Hl. unfold w'. destruct (g l); [ring|]. rewrite (wt_cof F) by (rewrite Hls; exact Hl). reflexivity. }
      assert (EX1 : ksub CF (sumn (length idx) (fun b => get u (a * d + sp) (nth b idx 0) *! wt CF F emb s (nth b idx 0) *! get vt (nth b idx 0) c))
                           (sumn (length idx) (fun b' => get (sel (fv_site d (nr v) (colsel idx u)) sp) a b' *! Rc b' c))
                    = sumn (length idx) (fun b => W (a * d + sp) b *! D b c)).
      { rewrite <- sumn_sub. apply sumn_ext; intros b Hb. unfold W, D. rewrite (GA a sp b Ha Hsp Hb), (GV' b c Hb Hc).
        rewrite (wt_cof F) by (rewrite Hls; apply Hidx; exact Hb). ring. }
      rewrite <- EX1, EX2. ring. }
    transitivity (n2 (nr v * d) m' (fun r c => sumn (length idx) (fun b => W r b *! D b c) +! Rs r c)).
    - unfold n2. rewrite (sumn_flatten CF (nr v) d). apply sumn_ext; intros a Ha. apply sumn_ext; intros sp Hsp.
      apply sumn_ext; intros c Hc. unfold sq. rewrite (Hpt a sp c Ha Hsp Hc). reflexivity.
    - rewrite (pyth CF (nr v * d) m' (length idx) W D Rs HW Hort). rewrite HRs. reflexivity.
  Qed.

  (* ---------- reconstruction from the tensors produced so far ---------- *)
  Definition fv_recon (d rem Dl : nat) (ks : list nat) (As : list site) (vf : mx) (a u : nat) : CF :=
    sumn (last (Dl :: ks) 0) (fun b => get (mprod Dl (pick As (nth u (words d rem) []))) a b *! get vf b 0).

  Lemma recon_step d rem' Dl k ks (A : site) (As : list site) (vf : mx) a sp u1 :
    0 < d -> site_shape d Dl k A = true -> chain_shape d (k :: ks) As = true -> length As = rem' ->
    a < Dl -> sp < d -> u1 < d ^ rem' ->
    fv_recon d (S rem') Dl (k :: ks) (A :: As) vf a (sp * d ^ rem' + u1) =
    sumn k (fun b' => get (sel A sp) a b' *! fv_recon d rem' k ks As vf b' u1).
  Proof.
    intros Hd HA HS HlenA Ha Hsp Hu1. unfold fv_recon. rewrite nth_words_S by assumption. rewrite (last_cons_cons Dl).
    set (w := nth u1 (words d rem') []).
    change (pick (A :: As) (sp :: w)) with (sel A sp :: pick As w).
    change (mprod Dl (sel A sp :: pick As w)) with (mulmx (sel A sp) (mprod (nc (sel A sp)) (pick As w))).
    destruct (site_shape_sel _ _ _ _ _ sp HA Hsp) as (_ & HrA & HcA). rewrite HcA.
    set (P := mprod k (pick As w)).
    assert (Hw : word_ok d (length As) w) by (rewrite HlenA; apply nth_words_ok; exact Hu1).
    assert (HcP : nc P = last (k :: ks) 0).
    { pose proof (mchain_pick CF d (k :: ks) As w HS Hw) as Hc. destruct (mprod_shape CF _ _ Hc) as [_ Hcc]. exact Hcc. }
    transitivity (sumn (last (k :: ks) 0) (fun b => sumn k (fun b' => get (sel A sp) a b' *! get P b' b *! get vf b 0))).
    - apply sumn_ext. intros b Hb. rewrite get_mulmx by (rewrite ?HrA, ?HcP; assumption).
      rewrite HcA, <- sumn_scal_r. reflexivity.
    - rewrite sumn_exch. apply sumn_ext. intros b' Hb'. rewrite <- sumn_scal_l. apply sumn_ext. intros b Hb. ring.
  Qed.

  Lemma sum_real n (g : nat -> CF) : (forall i, i < n -> exists x, fle F (f0 F) x /\ g i = emb x) ->
    exists x, fle F (f0 F) x /\ sumn n g = emb x.
  Proof.
    induction n as [|n IH]; intros H.
    - exists (f0 F). split; [apply fle_refl|reflexivity].
    - destruct IH as (x & Hx & Ex); [intros i Hi; apply H; lia|]. destruct (H n ltac:(lia)) as (y & Hy & Ey).
      exists (fadd F x y). split; [apply fle_add_nonneg; assumption|]. cbn [sumn]. rewrite Ex, Ey. apply (cof_add F).
  Qed.
  Lemma n2_real m n (f : nat -> nat -> CF) : exists x, fle F (f0 F) x /\ n2 m n f = emb x.
  Proof.
    unfold n2. apply sum_real. intros a _. apply sum_real. intros c _. exists (cnorm2 (f a c)).
    split; [apply cnorm2_nonneg|]. exact (cconj_mul_self F (f a c)).
  Qed.
  Lemma nsmul_nonneg n : fle F (f0 F) (nsmul n tol).
  Proof. induction n as [|n IH]; simpl; [apply fle_refl|apply fle_add_nonneg; assumption]. Qed.

  (* ---------- the loop ---------- *)
  Lemma fv_loop_bound d : 0 < d -> forall rem i (v : mx),
    0 < nr v -> nc v = d ^ rem ->
    Forall fv_call_ok2 (fv_calls dsvd srt d tol i rem v) ->
    exists As ks vf, fv_loop dsvd srt d tol i rem v = Some (As, ks, vf) /\
      length As = rem /\ chain_shape d (nr v :: ks) As = true /\
      nr vf = last (nr v :: ks) 0 /\ nc vf = 1 /\
      (0 < rem -> last (nr v :: ks) 0 = 1) /\
      exists e nv, n2 (nr v) (d ^ rem) (get v) = emb nv /\ fle F (f0 F) nv /\
        n2 (nr v) (d ^ rem) (fun a u => ksub CF (get v a u) (fv_recon d rem (nr v) ks As vf a u)) = emb e /\
        fle F (f0 F) e /\ fle F e (fmul F (nsmul rem tol) nv).
  Proof.
    intros Hd. induction rem as [|rem' IH]; intros i v HDl Hcv Hcalls.
    - exists [], [], v. cbn [fv_loop length chain_shape last Nat.pow] in *.
      split; [reflexivity|]. split; [reflexivity|]. split; [reflexivity|]. split; [reflexivity|]. split; [exact Hcv|].
      split; [lia|]. destruct (n2_real (nr v) 1 (get v)) as (nv & Hnv0 & Hnv).
      exists (f0 F), nv. split; [exact Hnv|]. split; [exact Hnv0|].
      split.
      + unfold n2. apply (sumn_zero CF). intros a Ha. apply (sumn_zero CF). intros u Hu. assert (u = 0) by lia. subst u.
        unfold fv_recon. cbn [words nth pick mprod last].
        assert (E : sumn (nr v) (fun b => get (idmx (nr v)) a b *! get v b 0) = get v a 0).
        { transitivity (sumn (nr v) (fun b => (if Nat.eqb b a then cI else cO) *! get v b 0)).
          - apply sumn_ext. intros b Hb. rewrite get_idmx by assumption. rewrite (Nat.eqb_sym a b). reflexivity.
          - apply (sumn_delta_l CF (nr v) a (fun b => get v b 0)). exact Ha. }
        rewrite E. ring.
      + split; [apply fle_refl|]. cbn [nsmul]. replace (fmul F (f0 F) nv) with (f0 F) by ring. apply fle_refl.
    - cbn [fv_calls fv_loop] in *. change (d ^ S rem') with (d * d ^ rem') in *.
      set (M := fv_mat d rem' v) in *.
      pose proof (fv_step2 d rem' i v Hd HDl Hcv) as Hstep. cbv zeta in Hstep. fold M in Hstep.
      destruct (dsvd i M) as [[uu s] vt] eqn:Ed.
      set (idx := fv_idx srt i s tol) in *.
      pose proof (Forall_inv Hcalls) as Hc0. pose proof (Forall_inv_tail Hcalls) as Hct.
      assert (Hc0' : fv_call_ok2 (i, M)) by exact Hc0.
      unfold fv_call_ok2 in Hc0'. cbn [fst snd] in Hc0'. unfold fv_call_ok2 in Hstep. cbn [fst snd] in Hstep. rewrite Ed in Hstep, Hc0'.
      destruct (Hstep Hc0') as (Hok & Hk0 & Hk1 & HA & Hrv' & Hcv' & nv' & dsc & Hnv' & Hnv'0 & Hdsc0 & Hdscle & Hpy).
      rewrite Hok in *.
      set (A := fv_site d (nr v) (colsel idx uu)) in *. set (v' := fv_next idx s vt) in *.
      destruct (IH (S i) v' ltac:(lia) Hcv' Hct) as (As & ks & vf & EL & HlenA & HS & Hrvf & Hcvf & Hlast & e' & nvI & HnvI & _ & He' & He'0 & He'le).
      rewrite EL. exists (A :: As), (length idx :: ks), vf. rewrite Hrv' in *.
      split; [reflexivity|]. split; [simpl; lia|].
      split; [rewrite chain_shape_cons, HA, HS; reflexivity|].
      rewrite (last_cons_cons (nr v)).
      split; [exact Hrvf|]. split; [exact Hcvf|].
      assert (Hl1 : last (length idx :: ks) 0 = 1).
      { destruct rem' as [|rem'']; [|apply Hlast; lia].
        destruct As; [|discriminate HlenA]. destruct ks as [|? ?]; [|discriminate HS].
        cbn [last]. cbn [Nat.pow] in Hk1. lia. }
      split; [intros _; exact Hl1|].
      set (m' := d ^ rem') in *.
      assert (EnvI : nvI = nv') by (apply (cof_inj F); rewrite <- HnvI; exact Hnv').
      subst nvI.
      exists (fadd F e' dsc), (fadd F nv' dsc).
      split.
      { rewrite <- (cof_add F). rewrite <- Hnv'.
        transitivity (n2 (length idx) m' (fun b c => ksub CF (get v' b c) cO) +! emb dsc).
        - rewrite <- (Hpy (fun _ _ => cO)). unfold n2. apply sumn_ext; intros a Ha. rewrite (sumn_flatten CF d m').
          apply sumn_ext; intros sp Hsp. apply sumn_ext; intros c Hc. unfold sq.
          rewrite (sumn_zero CF (length idx) (fun b' => get (sel A sp) a b' *! cO)) by (intros; ring).
          replace (ksub CF (get v a (sp * m' + c)) cO) with (get v a (sp * m' + c)) by ring. reflexivity.
        - f_equal. apply n2_ext. intros; ring. }
      split; [apply fle_add_nonneg; assumption|].
      split.
      { rewrite <- (cof_add F). rewrite <- He'. rewrite <- (Hpy (fun b c => fv_recon d rem' (length idx) ks As vf b c)).
        unfold n2. apply sumn_ext; intros a Ha. rewrite (sumn_flatten CF d m').
        apply sumn_ext; intros sp Hsp. apply sumn_ext; intros c Hc. unfold sq.
        pose proof (recon_step d rem' (nr v) (length idx) ks A As vf a sp c Hd HA HS HlenA Ha Hsp Hc) as Hrs. fold m' in Hrs. rewrite Hrs. reflexivity. }
      split; [apply fle_add_nonneg; assumption|].
      cbn [nsmul]. set (N := nsmul rem' tol) in *. assert (HN := nsmul_nonneg rem'). fold N in HN.
      apply (proj2 (fle_sub_nonneg F _ _)).
      replace (fsub F (fmul F (fadd F tol N) (fadd F nv' dsc)) (fadd F e' dsc))
        with (fadd F (fadd F (fsub F (fmul F N nv') e') (fsub F (fmul F tol (fadd F nv' dsc)) dsc)) (fmul F N dsc)) by ring.
      apply fle_add_nonneg; [apply fle_add_nonneg|].
      + apply (proj1 (fle_sub_nonneg F _ _)). exact He'le.
      + apply (proj1 (fle_sub_nonneg F _ _)). exact Hdscle.
      + apply fle_mul; assumption.
  Qed.

  (* ---------- the theorem ---------- *)
  Theorem from_vector_bound d n (vec : list CF) :
    0 < d -> 0 < n -> length vec = d ^ n ->
    Forall fv_call_ok2 (from_vector_calls dsvd srt d n vec tol) ->
    exists p e nv, from_vector dsvd srt d n vec tol = Some p /\ length (m_A p) = n /\
      sumn (d ^ n) (fun u => sq (ksub CF (nth u vec cO) (amp (m_A p) (nth u (words d n) [])))) = emb e /\
      sumn (d ^ n) (fun u => sq (nth u vec cO)) = emb nv /\
      fle F (f0 F) e /\ fle F e (fmul F (nsmul n tol) nv).
  Proof.
    intros Hd Hn Hlen Hcalls. unfold from_vector, from_vector_calls in *.
    destruct d as [|d']; [lia|]. destruct n as [|n']; [lia|]. cbn [Nat.eqb orb].
    set (d := S d') in *. set (n := S n') in *.
    rewrite Hlen, Nat.eqb_refl. cbn [negb].
    assert (Hr0 : nr (fv_row vec) = 1) by reflexivity.
    assert (Hc0 : nc (fv_row vec) = d ^ n) by (unfold fv_row; rewrite nc_tab; exact Hlen).
    destruct (fv_loop_bound d Hd n 0 (fv_row vec) ltac:(rewrite Hr0; lia) Hc0 Hcalls)
      as (As & ks & vf & EL & HlenA & HS & Hrvf & Hcvf & Hlast & e & nv & Hnv & Hnv0 & He & He0 & Hele).
    rewrite EL. rewrite Hr0 in *. rewrite (Hlast Hn) in *. rewrite Hrvf, Hcvf. cbn [Nat.eqb andb].
    set (c := get vf 0 0).
    eexists. exists e, nv. split; [reflexivity|]. cbn [m_qd m_qD m_A].
    split; [rewrite length_scale_last; exact HlenA|].
    assert (Hne : As <> []) by (intros E; rewrite E in HlenA; simpl in HlenA; lia).
    split.
    { rewrite <- He. unfold n2. cbn [sumn]. transitivity (sumn (d ^ n) (fun u => sq (ksub CF (get (fv_row vec) 0 u) (fv_recon d n 1 ks As vf 0 u)))); [|unfold sq; ring].
      apply sumn_ext. intros u Hu. f_equal. f_equal.
      - unfold fv_row. rewrite get_tab by lia. reflexivity.
      - set (w := nth u (words d n) []).
        assert (Hw : word_ok d (length As) w) by (rewrite HlenA; apply nth_words_ok; exact Hu).
        unfold amp. rewrite (mprod_scale_last F d c As _ w 1 HS Hne Hw).
        pose proof (mchain_pick CF d (1 :: ks) As w HS Hw) as Hc.
        destruct (mprod_shape CF _ _ Hc) as [HrP HcP]. cbn [hd] in HrP, HcP. rewrite (Hlast Hn) in HcP.
        rewrite get_scalemx by lia. unfold fv_recon. rewrite (Hlast Hn). cbn [sumn]. fold w. unfold c. ring. }
    split.
    { rewrite <- Hnv. unfold n2. cbn [sumn]. transitivity (sumn (d ^ n) (fun u => sq (get (fv_row vec) 0 u))); [|unfold sq; ring].
      apply sumn_ext. intros u Hu. unfold fv_row. rewrite get_tab by lia. reflexivity. }
    split; assumption.
  Qed.

  (* boolean checker for the Example (bond dimension one: the argsort answer is [0]) *)
  Definition fv_pick1b (sn : list F) (p : list nat) : bool :=
    Nat.eqb (length sn) 1 && match p with [0] => true | _ => false end.
  Lemma fv_pick1b_sound sn p : fv_pick1b sn p = true -> pick_ok F sn p.
  Proof.
    unfold fv_pick1b. rewrite andb_true_iff, Nat.eqb_eq. intros [Hl Hp].
    destruct p as [|[|?] [|? ?]]; try discriminate. unfold pick_ok. rewrite Hl. split; [apply Permutation_refl|].
    intros a b Hab Hb. assert (b = 0) by lia. assert (a = 0) by lia. subst. apply fle_refl.
  Qed.
  Definition fv_call_ok2b (c : nat * mx) : bool :=
    dsvd_okb F (snd c) (dsvd (fst c) (snd c)) &&
    fv_pick1b (normsq (snd (fst (dsvd (fst c) (snd c))))) (srt (fst c) (normsq (snd (fst (dsvd (fst c) (snd c)))))).
  Lemma fv_call_ok2b_ok (calls : list (nat * mx)) : forallb fv_call_ok2b calls = true -> Forall fv_call_ok2 calls.
  Proof.
    intros H. apply Forall_forall. intros c Hc. rewrite forallb_forall in H. specialize (H c Hc).
    unfold fv_call_ok2b in H. apply andb_true_iff in H. destruct H as [H1 H2].
    split; [apply (dsvd_okb_sound F); exact H1|apply fv_pick1b_sound; exact H2].
  Qed.
End FVBound.

Arguments fv_call_ok2b {F} dsvd srt c.
Arguments fv_call_ok2 {F} dsvd srt c. Arguments sq {F} z.
