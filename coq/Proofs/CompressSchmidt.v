(* C13 — clause (e): the first truncated bond of MPS.compress keeps exactly the Schmidt values that the tolerance rule
   [retained] prescribes.

   Three ingredients:
     (1) [block_svd_full]  the loop invariant of the block SVD (Proofs/BondOpsLoop.v [post], lifted through the charge sorting
         by Proofs/BondOpsSpec.v [lift]) exposes the FULL factorisation A = Uf diag(S) Vf with Uf^H Uf = I, Vf Vf^H = I over
         all block singular values S (any block structure, unsorted charges); the factors returned by [block_svd] are the
         columns / rows [retained pick S tol] of Uf / Vf;
     (2) [rho1_gram]       for a chain whose sites >= 1 are right isometries, the reduced density matrix of the first site,
         rho[s,s'] = sum over the words w of the other sites of amp (s :: w) * conj (amp (s' :: w)), equals (M M^H)[s,s'] for
         the matrix M of the first site tensor ([riso_gram] collapses the word sum);
     (3) hence rho = Uf diag(S^2) Uf^H, rho Uf = Uf diag(S^2), sum S^2 = tr rho = 1: the S^2 are the eigenvalues of rho
         (no spectral theorem is needed for this form), i.e. S are the Schmidt values of the normalised state across cut 1. *)
From Coq Require Import ZArith List Bool Lia Arith Permutation Sorted Ring Field.
From PT Require Import Base.Scalar Base.Field Base.BigSum Base.Mx Model.Tensor Model.BondOps Model.Orthonormalize.
From PT Require Import Proofs.BondOpsPerm Proofs.BondOpsLoop Proofs.BondOpsSpec Proofs.MPSOpsBase Proofs.MPSOpsShape Proofs.MPSOpsMul.
From PT Require Import Proofs.BondOpsRetained Proofs.BondOpsFrob Proofs.BondOpsSVD.
From PT Require Import Proofs.OrthDefs Proofs.OrthQRExtra Proofs.OrthGram Proofs.OrthLocal Proofs.OrthSweep Proofs.OrthTop Proofs.OrthRight.
From PT Require Import Proofs.CompressPartial Proofs.CompressSVD Proofs.CompressLocal Proofs.CompressSweep Proofs.CompressTop.
Import ListNotations.
Open Scope nat_scope.

(* ------------------------------------------------------------------ *)
(* (1) the full factorisation behind block_svd                          *)
(* ------------------------------------------------------------------ *)
Section FullSVD.
  Variable F : ofield.
  Add Field Ffield_csch1 : (f_ft F).
  Notation CF := (Cx F).
  Add Ring CFring_csch1 : (k_rt CF).
  Notation mx := (mx CF).
  Notation cO := (k0 CF). Notation cI := (k1 CF).
  Infix "*!" := (kmul CF) (at level 40, left associativity).
  Notation cj := (kconj CF).
  Notation emb := (@cof F).

  Theorem block_svd_full : forall dsvd pick (A : mx) q0 q1 tol,
    valid_in A q0 q1 = true -> is_zeromx A = false ->
    Forall (fun B => dsvd_ok F B (dsvd B)) (block_svd_calls A q0 q1) ->
    let S := block_svd_spectrum F dsvd A q0 q1 in
    exists Uf Vf : mx,
      wf Uf /\ nr Uf = nr A /\ nc Uf = length S /\ wf Vf /\ nr Vf = length S /\ nc Vf = nc A /\
      length S <= Nat.min (nr A) (nc A) /\
      (forall i j, i < nr A -> j < nc A ->
         get A i j = sumn (length S) (fun c => get Uf i c *! emb (nth c S (f0 F)) *! get Vf c j)) /\
      (forall k l, k < length S -> l < length S -> sumn (nr A) (fun i => cj (get Uf i k) *! get Uf i l) = delta CF k l) /\
      (forall k l, k < length S -> l < length S -> sumn (nc A) (fun j => get Vf k j *! cj (get Vf l j)) = delta CF k l) /\
      (forall a, a < length (retained pick S tol) -> nth a (retained pick S tol) 0 < length S) /\
      forall u s v q, block_svd dsvd pick A q0 q1 tol = Some (u, s, v, q) ->
        u = colsel (retained pick S tol) Uf /\ v = rowsel (retained pick S tol) Vf.
  Proof.
    intros dsvd pick A q0 q1 tol Hv Hnz Hcalls S.
    destruct (valid_in_spec CF A q0 q1 Hv) as (HwfA & Hl0 & Hl1 & HspA).
    unfold block_svd. rewrite Hv. cbn [negb].
    subst S. unfold block_svd_spectrum in *.
    destruct (intersect1d q0 q1) as [|x qs] eqn:Eq.
    { exfalso. rewrite (is_zeromx_true CF A (disjoint_zero CF A q0 q1 Hl0 Hl1 HspA Eq)) in Hnz. discriminate. }
    remember (x :: qs) as qis eqn:Eqis.
    destruct (sel_choice CF q0 (nr A) Hl0) as (p0 & i0 & Hp0 & Hi0 & Hinv0 & Eq0 & Hz0 & Hrow0 & _ & Hunrow0 & _).
    destruct (sel_choice CF q1 (nc A) Hl1) as (p1 & i1 & Hp1 & Hi1 & Hinv1 & Eq1 & Hz1 & _ & Hcol1 & _ & Huncol1).
    assert (EA : sA (sort_input A q0 q1) = colsel p1 (rowsel p0 A)).
    { unfold sort_input. cbn [sA]. rewrite (Hrow0 A HwfA eq_refl). apply Hcol1; [apply wf_tab|reflexivity]. }
    assert (E0 : sq0 (sort_input A q0 q1) = takez p0 q0) by (unfold sort_input; cbn [sq0]; exact Eq0).
    assert (E1 : sq1 (sort_input A q0 q1) = takez p1 q1) by (unfold sort_input; cbn [sq1]; exact Eq1).
    unfold block_svd_calls, block_calls in Hcalls. rewrite Eq, EA, E0, E1 in Hcalls.
    assert (Hp0' : Permutation p0 (seq 0 (length q0))) by (rewrite Hl0; exact Hp0).
    assert (Hp1' : Permutation p1 (seq 0 (length q1))) by (rewrite Hl1; exact Hp1).
    assert (L0 : length (takez p0 q0) = nr (colsel p1 (rowsel p0 A))) by (eapply lenq0'; eauto).
    assert (L1 : length (takez p1 q1) = nc (colsel p1 (rowsel p0 A))) by (eapply lenq1'; eauto).
    assert (NR : nr (colsel p1 (rowsel p0 A)) = nr A) by (eapply nrA'; eauto).
    assert (NC : nc (colsel p1 (rowsel p0 A)) = nc A) by (eapply ncA'; eauto).
    destruct (loop_ok CF F emb True (nonneg F) dsvd (colsel p1 (rowsel p0 A)) (takez p0 q0) (takez p1 q1)
                L0 L1 Hz0 Hz1 qis) as (st & E & P).
    { rewrite <- Eq. apply intersect1d_sorted. }
    { intros y. rewrite <- Eq. rewrite intersect1d_In, (takez_In p0 q0 y Hp0'), (takez_In p1 q1 y Hp1'). tauto. }
    { eapply qspA'; eauto. }
    { intros y Hy. apply dsvd_fac_ok. rewrite Forall_forall in Hcalls. apply Hcalls. apply in_map. exact Hy. }
    rewrite EA, E0, E1 in *. rewrite E in *.
    set (S := bS st) in *. set (D := bD st) in *.
    assert (HlenS : length S = D) by (apply (p_lenS _ _ _ _ _ _ _ _ _ _ P)).
    assert (Pfull : post CF F emb True (nonneg F) A q0 q1 True (mkbst (rowsel i0 (bU st)) (colsel i1 (bV st)) (bS st) (bq st) (bD st)))
      by (apply (lift CF F emb True (nonneg F) A q0 q1 p0 i0 p1 i1); assumption).
    assert (HnrU : nr (bU st) = nr A) by (rewrite (p_nrU _ _ _ _ _ _ _ _ _ _ P); exact NR).
    assert (HncU : nc (bU st) = D) by (apply (p_ncU _ _ _ _ _ _ _ _ _ _ P)).
    assert (HnrV : nr (bV st) = D) by (apply (p_nrV _ _ _ _ _ _ _ _ _ _ P)).
    assert (HncV : nc (bV st) = nc A) by (rewrite (p_ncV _ _ _ _ _ _ _ _ _ _ P); exact NC).
    assert (Li0 := perm_length _ _ Hi0). assert (Li1 := perm_length _ _ Hi1).
    exists (rowsel i0 (bU st)), (colsel i1 (bV st)).
    split; [apply wf_tab|]. split; [unfold rowsel; rewrite nr_tab; exact Li0|].
    split; [unfold rowsel; rewrite nc_tab; lia|]. split; [apply wf_tab|].
    split; [unfold colsel; rewrite nr_tab; lia|]. split; [unfold colsel; rewrite nc_tab; exact Li1|].
    split. { rewrite HlenS. apply (p_D _ _ _ _ _ _ _ _ _ _ Pfull). }
    split.
    { intros i j Hi Hj. rewrite <- (p_prod _ _ _ _ _ _ _ _ _ _ Pfull I i j Hi Hj). cbn [bU bV bS bD]. fold S. fold D. rewrite HlenS.
      apply sumn_ext. intros c Hc. rewrite (wt_cof F) by (rewrite HlenS; exact Hc). reflexivity. }
    split. { rewrite HlenS. intros k l Hk Hl. apply (p_orth _ _ _ _ _ _ _ _ _ _ Pfull k l Hk Hl). }
    split. { rewrite HlenS. intros k l Hk Hl. apply (p_co _ _ _ _ _ _ _ _ _ _ Pfull I k l Hk Hl). }
    assert (HK : exists g, retained pick S tol = filter g (seq 0 D)).
    { unfold retained. destruct (feqb F (sqsum S) (f0 F)).
      - exists (fun _ => false). clear. induction (seq 0 D); simpl; auto.
      - rewrite HlenS. eexists. reflexivity. }
    destruct HK as (g & HK).
    set (K := retained pick S tol) in *.
    assert (Klt := K_lt D g). rewrite <- HK in Klt.
    split. { rewrite HlenS. exact Klt. }
    intros u s v q Eres.
    assert (EU : unperm_rows (sort_input A q0 q1) (colsel K (bU st)) = rowsel i0 (colsel K (bU st))).
    { unfold unperm_rows, sort_input. cbn [sperm0 sidx0]. apply Hunrow0; [apply wf_tab|].
      unfold colsel. rewrite nr_tab. exact HnrU. }
    assert (EV : unperm_cols (sort_input A q0 q1) (rowsel K (bV st)) = colsel i1 (rowsel K (bV st))).
    { unfold unperm_cols, sort_input. cbn [sperm1 sidx1]. apply Huncol1; [apply wf_tab|].
      unfold rowsel. rewrite nc_tab. exact HncV. }
    rewrite EU, EV in Eres. inversion Eres as [[Eu Es Ev Eq']]. clear Eres.
    assert (Hi0lt : forall i, i < nr A -> nth i i0 0 < nr A) by (intros i Hi; apply (perm_nth_lt _ _ _ Hi0); exact Hi).
    assert (Hi1lt : forall j, j < nc A -> nth j i1 0 < nc A) by (intros j Hj; apply (perm_nth_lt _ _ _ Hi1); exact Hj).
    split.
    - apply mx_ext; [apply wf_tab|apply wf_tab| | |].
      + unfold rowsel, colsel. rewrite ?nr_tab. reflexivity.
      + unfold rowsel, colsel. rewrite ?nc_tab. reflexivity.
      + replace (nr (rowsel i0 (colsel K (bU st)))) with (length i0) by reflexivity.
        replace (nc (rowsel i0 (colsel K (bU st)))) with (length K) by reflexivity. rewrite Li0.
        intros i a Hi Ha.
        rewrite get_rowsel by (unfold colsel; rewrite ?nc_tab; lia).
        rewrite get_colsel by (try exact Ha; rewrite HnrU; apply Hi0lt; exact Hi).
        rewrite get_colsel by (try exact Ha; unfold rowsel; rewrite nr_tab; lia).
        rewrite get_rowsel by (try lia; rewrite HncU; apply Klt; exact Ha). reflexivity.
    - apply mx_ext; [apply wf_tab|apply wf_tab| | |].
      + unfold rowsel, colsel. rewrite ?nr_tab. reflexivity.
      + unfold rowsel, colsel. rewrite ?nc_tab. reflexivity.
      + replace (nr (colsel i1 (rowsel K (bV st)))) with (length K) by reflexivity.
        replace (nc (colsel i1 (rowsel K (bV st)))) with (length i1) by reflexivity. rewrite Li1.
        intros a j Ha Hj.
        rewrite get_colsel by (unfold rowsel; rewrite ?nr_tab; lia).
        rewrite get_rowsel by (try exact Ha; rewrite HncV; apply Hi1lt; exact Hj).
        rewrite get_rowsel by (try exact Ha; unfold colsel; rewrite nc_tab; lia).
        rewrite get_colsel by (try lia; rewrite HnrV; apply Klt; exact Ha). reflexivity.
  Qed.
End FullSVD.

(* ------------------------------------------------------------------ *)
(* (2) Gram matrix of a factorised matrix (raw index sums)              *)
(* ------------------------------------------------------------------ *)
Section GramAlg.
  Variable R : cring.
  Add Ring Rring_csch2 : (k_rt R).
  Infix "*!" := (kmul R) (at level 40, left associativity).
  Notation cj := (kconj R).

  (* (A A^H)[i,i'] = sum_c U[i,c] |w_c|^2 conj(U[i',c])  for A = U diag(w) V with orthonormal rows of V *)
  Lemma gram_of_factor n D (U : nat -> nat -> R) (V : nat -> nat -> R) (w : nat -> R) (i i' : nat) :
    (forall k l, k < D -> l < D -> sumn n (fun j => V k j *! cj (V l j)) = delta R k l) ->
    sumn n (fun j => sumn D (fun c => U i c *! w c *! V c j) *! cj (sumn D (fun c => U i' c *! w c *! V c j)))
    = sumn D (fun c => U i c *! (w c *! cj (w c)) *! cj (U i' c)).
  Proof.
    intros HV.
    set (X := fun c e => U i c *! w c *! cj (U i' e) *! cj (w e)).
    transitivity (sumn n (fun j => sumn D (fun c => sumn D (fun e => X c e *! (V c j *! cj (V e j)))))).
    { apply sumn_ext; intros j Hj. rewrite sumn_conj, (sum_mul2 R).
      apply sumn_ext; intros c Hc. apply sumn_ext; intros e He. unfold X. rewrite !kconj_mul. ring. }
    rewrite sumn_exch. apply sumn_ext; intros c Hc.
    transitivity (sumn D (fun e => X c e *! delta R c e)).
    { rewrite sumn_exch. apply sumn_ext; intros e He. rewrite sumn_scal_l. rewrite (HV c e Hc He). reflexivity. }
    unfold delta.
    transitivity (sumn D (fun e => X c e *! (if Nat.eqb e c then k1 R else k0 R))).
    { apply sumn_ext; intros e He. rewrite (Nat.eqb_sym c e). reflexivity. }
    rewrite (sumn_delta_r R D c (fun e => X c e) Hc). unfold X. ring.
  Qed.

  (* rho = U diag(lam) U^H and U^H U = I  give  rho U = U diag(lam) *)
  Lemma eigen_of_spectral m D (U : nat -> nat -> R) (lam : nat -> R) (i k : nat) : k < D ->
    (forall a b, a < D -> b < D -> sumn m (fun t => cj (U t a) *! U t b) = delta R a b) ->
    sumn m (fun t => sumn D (fun c => U i c *! lam c *! cj (U t c)) *! U t k) = U i k *! lam k.
  Proof.
    intros Hk HU.
    transitivity (sumn D (fun c => (U i c *! lam c) *! delta R c k)).
    { transitivity (sumn m (fun t => sumn D (fun c => (U i c *! lam c) *! (cj (U t c) *! U t k)))).
      { apply sumn_ext; intros t Ht. rewrite <- sumn_scal_r. apply sumn_ext; intros c Hc. ring. }
      rewrite sumn_exch. apply sumn_ext; intros c Hc. rewrite sumn_scal_l. rewrite (HU c k Hc Hk). reflexivity. }
    unfold delta. apply (sumn_delta_r R D k (fun c => U i c *! lam c) Hk).
  Qed.
End GramAlg.

(* ------------------------------------------------------------------ *)
(* (3) reduced density matrix of the first site                         *)
(* ------------------------------------------------------------------ *)
Section Rho.
  Variable R : cring.
  Add Ring Rring_csch3 : (k_rt R).
  Infix "*!" := (kmul R) (at level 40, left associativity).
  Notation cj := (kconj R).
  Notation mx := (mx R).
  Notation site := (site R).

  (* rho[s,s'] = sum over the words w of the sites 1..L-1 of  amp (s :: w) * conj (amp (s' :: w)) *)
  Definition rho1 (d : nat) (As : list site) (s s' : nat) : R :=
    suml (words d (length As - 1)) (fun w => amp As (s :: w) *! cj (amp As (s' :: w))).

  (* ... and the same with the roles mirrored: reduced density matrix of the LAST site *)
  Definition rhoL (d : nat) (As : list site) (s s' : nat) : R :=
    suml (words d (length As - 1)) (fun w => amp As (w ++ [s]) *! cj (amp As (w ++ [s']))).

  Lemma rho1_gram d Dr Ds (A0 : site) (rest : list site) s s' :
    chain_shape d (1 :: Dr :: Ds) (A0 :: rest) = true -> chain_riso (Dr :: Ds) rest -> last (Dr :: Ds) 0 = 1 ->
    s < d -> s' < d ->
    rho1 d (A0 :: rest) s s' = sumn Dr (fun b => get (sel A0 s) 0 b *! cj (get (sel A0 s') 0 b)).
  Proof.
    intros Hs Hiso Hl Hs1 Hs2. rewrite chain_shape_cons in Hs. apply andb_true_iff in Hs. destruct Hs as [HA Hs].
    destruct (site_shape_sel R _ _ _ _ s HA Hs1) as (Hw1 & Hr1 & Hc1).
    destruct (site_shape_sel R _ _ _ _ s' HA Hs2) as (Hw2 & Hr2 & Hc2).
    unfold rho1. replace (length (A0 :: rest) - 1) with (length rest) by (simpl; lia).
    set (a := fun b => get (sel A0 s) 0 b). set (a' := fun b => get (sel A0 s') 0 b).
    transitivity (suml (words d (length rest)) (fun w => sumn Dr (fun b => sumn Dr (fun c =>
                    (a b *! cj (a' c)) *! gr R (mprod Dr (pick rest w)) b c)))).
    { apply suml_ext. intros w Hw. apply words_ok in Hw.
      pose proof (mchain_pick R d _ rest w Hs Hw) as Hc. destruct (mprod_shape R _ _ Hc) as [HPr HPc].
      change (hd 0 (Dr :: Ds)) with Dr in HPr, HPc. rewrite Hl in HPc.
      unfold amp.
      change (mprod 1 (pick (A0 :: rest) (s :: w))) with (mulmx (sel A0 s) (mprod (nc (sel A0 s)) (pick rest w))).
      change (mprod 1 (pick (A0 :: rest) (s' :: w))) with (mulmx (sel A0 s') (mprod (nc (sel A0 s')) (pick rest w))).
      rewrite Hc1, Hc2. set (P := mprod Dr (pick rest w)) in *.
      rewrite !get_mulmx by lia. rewrite Hc1, Hc2. rewrite sumn_conj, (sum_mul2 R).
      apply sumn_ext; intros b Hb. apply sumn_ext; intros c Hc'. unfold gr. rewrite HPc. rewrite (sumn_one R).
      unfold a, a'. rewrite kconj_mul. ring. }
    rewrite (suml_pull R (words d (length rest)) Dr (fun b c => a b *! cj (a' c)) (fun w b c => gr R (mprod Dr (pick rest w)) b c)).
    transitivity (sumn Dr (fun b => sumn Dr (fun c => (a b *! cj (a' c)) *! delta R b c))).
    { apply sumn_ext; intros b Hb. apply sumn_ext; intros c Hc. f_equal.
      exact (riso_gram R rest (Dr :: Ds) d Hs Hiso b c Hb Hc). }
    apply (sum2_delta R Dr (fun b c => a b *! cj (a' c))).
  Qed.

  (* tr rho = <psi|psi> *)
  Lemma rho1_trace d (A0 : site) (rest : list site) :
    sumn d (fun s => rho1 d (A0 :: rest) s s) = norm2 d (A0 :: rest).
  Proof.
    unfold norm2, rho1. change (length (A0 :: rest)) with (S (length rest)). rewrite suml_words_S.
    replace (S (length rest) - 1) with (length rest) by lia.
    apply sumn_ext; intros s Hs. apply suml_ext; intros w Hw. ring.
  Qed.

  (* amplitudes proportional  ==>  reduced density matrices proportional *)
  Lemma rho1_scale d (As Bs : list site) (c : R) s s' : As <> [] -> length Bs = length As -> s < d -> s' < d ->
    (forall w, length w = length As -> letters d w -> amp As w = c *! amp Bs w) ->
    rho1 d As s s' = (c *! cj c) *! rho1 d Bs s s'.
  Proof.
    intros Hne Hlen Hs Hs' H. unfold rho1. rewrite Hlen. rewrite <- suml_scal_l. apply suml_ext. intros w Hw.
    apply words_ok in Hw. destruct Hw as [Hlw Hw].
    assert (HL : S (length As - 1) = length As) by (destruct As; [congruence|simpl; lia]).
    rewrite (H (s :: w)) by (simpl; try lia; constructor; assumption).
    rewrite (H (s' :: w)) by (simpl; try lia; constructor; assumption).
    rewrite kconj_mul. ring.
  Qed.
End Rho.

Arguments rho1 {R} d As s s'.
Arguments rhoL {R} d As s s'.

(* ------------------------------------------------------------------ *)
(* (4) the first step of the truncation sweep of MPS.compress           *)
(* ------------------------------------------------------------------ *)
Section FirstStep.
  Variable R : cring.
  Notation site := (site R).

  (* a successful sweep starts with a successful step on the first tensor; its first two results head the returned lists *)
  Lemma sweep_first (step : step_t R) cur qb rest qrest As qs T :
    sweep step cur qb rest qrest = Some (As, qs, T) ->
    exists next A' n' q' As' qs',
      step cur next qb (hd [] qrest) = Some (A', n', q') /\ As = A' :: As' /\ qs = qb :: q' :: qs' /\
      (rest <> [] -> As' <> []).
  Proof.
    intros E. destruct rest as [|An rest].
    - destruct qrest as [|qa [|? ?]]; try discriminate E. cbn [sweep hd] in *.
      destruct (step cur one_site qb qa) as [[[A' T'] q']|] eqn:ES; [|discriminate E]. inversion E; subst.
      exists one_site, A', T, q', [], []. repeat split; try reflexivity; try exact ES. intros H; congruence.
    - destruct qrest as [|qa qrest]; [discriminate E|]. cbn [sweep hd] in *.
      destruct (step cur An qb qa) as [[[A' An'] q']|] eqn:ES; [|discriminate E].
      destruct (sweep step An' q' rest qrest) as [[[As0 qs0] T0]|] eqn:ES2; [|discriminate E]. inversion E; subst.
      assert (H : exists A1 As1 t, As0 = A1 :: As1 /\ qs0 = q' :: t).
      { destruct rest as [|Am rest].
        - destruct qrest as [|qa' [|? ?]]; try discriminate ES2. cbn [sweep] in ES2.
          destruct (step An' one_site q' qa') as [[[A1 T1] q1]|]; [|discriminate ES2]. inversion ES2; subst. eauto.
        - destruct qrest as [|qa' qrest]; [discriminate ES2|]. cbn [sweep] in ES2.
          destruct (step An' Am q' qa') as [[[A1 Am'] q1]|]; [|discriminate ES2].
          destruct (sweep step Am' q1 rest qrest) as [[[As1 qs1] T1]|]; [|discriminate ES2]. inversion ES2; subst. eauto. }
      destruct H as (A1 & As1 & t & -> & ->).
      exists An, A', An', q', (A1 :: As1), t. repeat split; try reflexivity; try exact ES. intros _; discriminate.
  Qed.

  Lemma sweep_args_first (step : step_t R) cur qb rest qa qrest :
    (rest = [] -> qrest = []) ->
    exists tl, sweep_args step cur qb rest (qa :: qrest) = (cur, qb, qa) :: tl.
  Proof.
    intros H. destruct rest as [|An rest].
    - rewrite (H eq_refl). cbn [sweep_args]. eauto.
    - cbn [sweep_args]. eauto.
  Qed.

  Lemma hd_map_last (f : site -> site) (A : site) (As : list site) : As <> [] -> hd [] (map_last f (A :: As)) = A.
  Proof. destruct As; [congruence|reflexivity]. Qed.
End FirstStep.

Section Schmidt.
  Variable F : ofield.
  Add Field Ffield_csch4 : (f_ft F).
  Notation CF := (Cx F).
  Add Ring CFring_csch4 : (k_rt CF).
  Notation mx := (mx CF).
  Notation site := (site CF).
  Infix "*!" := (kmul CF) (at level 40, left associativity).
  Notation cj := (kconj CF).
  Notation emb := (@cof F).

  Variable dqr : mx -> mx * mx.
  Variable dsvd : mx -> mx * list F * mx.
  Variable pick : list F -> list nat.
  Variable cabs : CF -> F.

  (* the matrix and the two charge vectors handed to split_matrix_svd by the first step of the left sweep on p1:
     A[0].reshape((d * 1, D1)), qnumber_flatten([qd, qD[0]]), qD[1] *)
  Definition first_mx (p1 : mps CF) : mx := site_mx (hd [] (m_A p1)).
  Definition first_q0 (p1 : mps CF) : list Z := qflat (m_qd p1) (hd [] (m_qD p1)).
  Definition first_q1 (p1 : mps CF) : list Z := nth 1 (m_qD p1) [].
  (* all block singular values the oracle returns for it, and the index set kept by the tolerance rule *)
  Definition first_spectrum (p1 : mps CF) : list F := block_svd_spectrum F dsvd (first_mx p1) (first_q0 p1) (first_q1 p1).
  Definition first_kept (tol : F) (p1 : mps CF) : list nat := retained pick (first_spectrum p1) tol.
  (* reduced density matrix of the first site as a d x d matrix *)
  Definition rho1_mx (d : nat) (As : list site) : mx := tab d d (fun s s' => rho1 d As s s').
  Definition sqlist (S : list F) : list F := map (fun x => fmul F x x) S.

  Theorem compress_first_bond_left (p : mps CF) (d : nat) (tol : F) :
    1 <= d -> length (m_qd p) = d -> m_A p <> [] -> mps_ok p = true ->
    length (hd [] (m_qD p)) = 1 -> length (last (m_qD p) []) = 1 ->
    Forall (fun q => 1 <= length q) (m_qD p) ->
    fle F (f0 F) tol -> flt F tol (f1 F) ->
    Forall (qr_call_ok F dqr) (mps_orth_calls dqr false p) ->
    (forall p1 n1, mps_orthonormalize dqr false p = Some (p1, n1) -> compress_ok dsvd pick tol true p1) ->
    (forall t, compress_T dqr dsvd pick tol true p = Some t -> abs_ok cabs t) ->
    exists p1 p' nrm sc,
      mps_orthonormalize dqr false p = Some (p1, nrm) /\
      mps_compress dqr dsvd pick cabs tol true p = Some (p', nrm, sc) /\
      (* psi1 = state after the preliminary right-orthonormalisation: normalised, sites >= 1 right isometries, psi = nrm psi1 *)
      length (m_A p1) = length (m_A p) /\ m_qd p1 = m_qd p /\ length (hd [] (m_qD p1)) = 1 /\
      norm2 d (m_A p1) = k1 CF /\ chain_riso (lens (m_qD p1)) (m_A p1) /\
      fle F (f0 F) nrm /\ norm2 d (m_A p) = emb (fmul F nrm nrm) /\
      (forall w, length w = length (m_A p) -> letters d w -> amp (m_A p) w = emb nrm *! amp (m_A p1) w) /\
      (* (i) the first call of the sweep: block_svd on M = first site tensor as d x D1 matrix (row = physical index) *)
      wf (first_mx p1) /\ nr (first_mx p1) = d /\ nc (first_mx p1) = length (first_q1 p1) /\
      (forall s b, s < d -> b < length (first_q1 p1) -> get (first_mx p1) s b = get (sel (hd [] (m_A p1)) s) 0 b) /\
      (exists tl, compress_args dsvd pick tol true p1 = (hd [] (m_A p1), hd [] (m_qD p1), first_q1 p1) :: tl) /\
      step_mx true (m_qd p1) (hd [] (m_A p1), hd [] (m_qD p1), first_q1 p1) = (first_mx p1, first_q0 p1, first_q1 p1) /\
      (exists tl, compress_svd_calls dsvd pick tol true p1 = block_svd_calls (first_mx p1) (first_q0 p1) (first_q1 p1) ++ tl) /\
      (* (ii) its result: kept values S[K], new bond dimension |K|, kept left factor = columns K of the full Uf *)
      (exists u s v q' Uf,
         block_svd dsvd pick (first_mx p1) (first_q0 p1) (first_q1 p1) tol = Some (u, s, v, q') /\
         s = map (fun i => nth i (first_spectrum p1) (f0 F)) (first_kept tol p1) /\
         length q' = length (first_kept tol p1) /\
         nth 1 (m_qD p') [] = q' /\
         (2 <= length (m_A p) -> hd [] (m_A p') = mx_site d 1 u) /\
         (* (iii) S^2 = eigenvalues of rho with eigenvectors the columns of Uf *)
         wf Uf /\ nr Uf = d /\ nc Uf = length (first_spectrum p1) /\
         mulmx (adjmx Uf) Uf = idmx (length (first_spectrum p1)) /\
         mulmx (rho1_mx d (m_A p1)) Uf = scalecols F Uf (sqlist (first_spectrum p1)) /\
         (forall t t', t < d -> t' < d -> rho1 d (m_A p1) t t' =
            sumn (length (first_spectrum p1)) (fun c =>
              get Uf t c *! emb (fmul F (nth c (first_spectrum p1) (f0 F)) (nth c (first_spectrum p1) (f0 F))) *! cj (get Uf t' c))) /\
         u = colsel (first_kept tol p1) Uf) /\
      rho1_mx d (m_A p1) = mulmx (first_mx p1) (adjmx (first_mx p1)) /\
      (forall t t', t < d -> t' < d -> rho1 d (m_A p) t t' = emb (fmul F nrm nrm) *! rho1 d (m_A p1) t t') /\
      sumn d (fun t => rho1 d (m_A p1) t t) = k1 CF /\
      sqsum (first_spectrum p1) = f1 F /\
      (forall x, In x (first_spectrum p1) -> fle F (f0 F) x) /\
      length (first_spectrum p1) <= Nat.min d (length (first_q1 p1)) /\
      (* (iv) the tolerance rule on these Schmidt values (C12_retained_spec) *)
      StronglySorted lt (first_kept tol p1) /\ (forall i, In i (first_kept tol p1) -> i < length (first_spectrum p1)) /\
      first_kept tol p1 <> [] /\
      fle F (disc_weight (first_spectrum p1) (first_kept tol p1)) tol /\
      (forall i j, In i (first_kept tol p1) -> j < length (first_spectrum p1) -> ~ In j (first_kept tol p1) ->
         fle F (nth j (first_spectrum p1) (f0 F)) (nth i (first_spectrum p1) (f0 F))) /\
      (forall m, In m (first_kept tol p1) ->
         flt F tol (fadd F (disc_weight (first_spectrum p1) (first_kept tol p1)) (weight (first_spectrum p1) m))) /\
      (tol = f0 F -> forall i, i < length (first_spectrum p1) ->
         (In i (first_kept tol p1) <-> nth i (first_spectrum p1) (f0 F) <> f0 F)).
  Proof.
    intros Hd Lqd Hne Hok Hfirst Hlast Hpos Htol0 Htol1 Hcalls Hsvd Habs.
    destruct (compress_left_spec F dqr dsvd pick cabs p d tol Hd Lqd Hne Hok Hfirst Hlast Hpos Htol0 Htol1 Hcalls Hsvd Habs)
      as (p1 & p' & nrm & sc & E1 & E2 & _).
    destruct (orth_right_spec F dqr p d Hd Lqd Hne Hok Hfirst Hlast Hpos Hcalls)
      as (p1' & nrm' & E1' & Hqd1 & Hlen1 & Hok1 & Hlast1 & Hhd1 & Hpos1 & Hbb1 & Hriso1 & Hnrm & Hamp1 & Hn2 & Hn1).
    rewrite E1 in E1'. inversion E1'; subst p1' nrm'. clear E1'.
    specialize (Hsvd p1 nrm E1).
    exists p1, p', nrm, sc.
    split; [exact E1|]. split; [exact E2|]. split; [exact Hlen1|]. split; [exact Hqd1|]. split; [exact Hhd1|].
    split; [exact Hn1|]. split; [exact Hriso1|]. split; [exact Hnrm|]. split; [exact Hn2|]. split; [exact Hamp1|].
    unfold first_kept, first_spectrum, first_mx, first_q0, first_q1.
    destruct p1 as [qd1 qDs1 As1]. cbn [m_qd m_qD m_A] in *. subst qd1.
    destruct As1 as [|A0 rest]; [destruct (m_A p); [congruence|simpl in Hlen1; discriminate]|].
    unfold mps_ok in Hok1. cbn [m_qd m_qD m_A] in Hok1. rewrite Lqd in Hok1.
    apply andb_true_iff in Hok1. destruct Hok1 as [Hshape Hsparse].
    destruct qDs1 as [|q0 qrest]; [simpl in Hshape; discriminate|].
    destruct qrest as [|qa qrest]; [simpl in Hshape; discriminate|].
    cbn [hd nth] in *.
    assert (HrestE : rest = [] -> qrest = []).
    { intros ->. cbn [map] in Hshape. rewrite chain_shape_cons in Hshape. apply andb_true_iff in Hshape. destruct Hshape as [_ H].
      destruct qrest; [reflexivity|simpl in H; discriminate]. }
    unfold lens in Hriso1. cbn [map] in Hriso1. destruct Hriso1 as [HrA0 HrRest]. rewrite Hhd1 in HrA0.
    assert (Hshape0 := Hshape). cbn [map] in Hshape. rewrite Hhd1 in Hshape.
    assert (Hshape' := Hshape). rewrite chain_shape_cons in Hshape'. apply andb_true_iff in Hshape'. destruct Hshape' as [HsA0 HsRest].
    rewrite (chain_qsparse_cons CF) in Hsparse. apply andb_true_iff in Hsparse. destruct Hsparse as [HqA0 HqRest].
    assert (HA := site_shape_site_ok CF d 1 (length qa) A0 HsA0).
    destruct (site_ok_dims CF d _ _ A0 Hd HA) as (D1 & D2 & D3).
    set (M := site_mx A0) in *.
    assert (Hnr : nr M = d) by (unfold M; rewrite nr_site_mx, D1, D3; lia).
    assert (Hnc : nc M = length qa) by (unfold M; rewrite nc_site_mx; exact D2).
    assert (HwfM : wf M) by (apply wf_tab).
    assert (HgM : forall s b, s < d -> b < length qa -> get M s b = get (sel A0 s) 0 b).
    { intros s b Hs Hb. pose proof (get_site_mx CF d 1 (length qa) A0 s 0 b Hd HA Hs ltac:(lia) Hb) as H.
      replace (s * 1 + 0) with s in H by lia. exact H. }
    (* last bond dimension 1 *)
    assert (HlastD : last (length qa :: map (@length Z) qrest) 0 = 1).
    { change (last (lens (qa :: qrest)) 0 = 1). rewrite last_lens.
      replace (last (qa :: qrest) []) with (last (q0 :: qa :: qrest) []) by reflexivity. rewrite Hlast1. exact Hlast. }
    (* norm of the centre tensor *)
    assert (Hcn : cn2 A0 = emb (f1 F)).
    { unfold cn2. transitivity (delta CF 0 0); [|reflexivity].
      rewrite <- (HrA0 0 0 ltac:(lia) ltac:(lia)). rewrite D3. apply sumn_ext. intros s Hs.
      destruct (site_shape_sel CF d _ _ A0 s HsA0 Hs) as (Hw & Hr & Hc).
      unfold frob. rewrite Hr, Hc. cbn [sumn].
      transitivity (sumn (length qa) (fun j => cj (get (sel A0 s) 0 j) *! get (sel A0 s) 0 j)); [ring|].
      apply sumn_ext. intros b Hb. ring. }
    assert (Hfr : frob M M = emb (f1 F)) by (unfold M; rewrite (frob_site_mx F d _ _ A0 Hd HA); exact Hcn).
    assert (Hv : valid_in M (qflat (m_qd p) q0) qa = true)
      by (apply (valid_in_site_mx CF d 1 (length qa) A0 (m_qd p) q0 qa Hd Lqd Hhd1 eq_refl HA (site_qsparse_qsp CF _ _ _ A0 HqA0))).
    (* the first step *)
    unfold compress_ok, compress_args in Hsvd. cbn [m_qd m_qD m_A] in Hsvd.
    destruct (sweep_args_first CF (stepLs dsvd pick tol (m_qd p)) A0 q0 rest qa qrest HrestE) as (tl & Eargs).
    rewrite Eargs in Hsvd. assert (Hok0 := Forall_inv Hsvd). unfold cstep_ok, step_mx in Hok0. cbn [fst snd] in Hok0. fold M in Hok0.
    destruct (svd_step_facts F d (m_qd p) tol dsvd pick Hd Lqd Htol0 Htol1 M (qflat (m_qd p) q0) qa (f1 F) Hv Hfr (f1_pos F) Hok0)
      as (u & s & v & q & E & Hwu & Hwv & Hnru & Hncu & Hnrv & Hncv & Hls & Hq1 & Hmin & Huu & Hvv & _ & _ & _ & _ & _ & _ & _ & _ & _ & Hs).
    assert (Hnz : is_zeromx M = false).
    { apply (nonzero_of_norm F M (f1 F) Hfr). intros E0. apply (flt_irrefl F (f0 F)). rewrite <- E0 at 2. apply f1_pos. }
    destruct Hok0 as [Hcalls0 Hpick0].
    destruct (block_svd_spec_gen F dsvd pick M (qflat (m_qd p) q0) qa tol Hv Hnz Htol0 Htol1 Hcalls0 Hpick0) as (Hnn & Hnez & _).
    destruct (block_svd_ext F dsvd pick M (qflat (m_qd p) q0) qa tol Hv Hnz Hcalls0) as (Hnorm & _).
    destruct (block_svd_full F dsvd pick M (qflat (m_qd p) q0) qa tol Hv Hnz Hcalls0)
      as (Uf & Vf & HwUf & HnrUf & HncUf & HwVf & HnrVf & HncVf & HlenS & Hfac & HUo & HVo & HKlt & Hsel).
    destruct (Hsel u s v q E) as [Hu _]. clear Hsel.
    set (S := block_svd_spectrum F dsvd M (qflat (m_qd p) q0) qa) in *.
    set (K := retained pick S tol) in *.
    destruct (retained_spec F pick S tol Hnn Hnez Htol0 Htol1 Hpick0) as (RS1 & RS2 & RS3 & RS4 & RS5 & RS6 & RS7).
    fold K in RS1, RS2, RS3, RS4, RS5, RS6, RS7.
    rewrite Hnr in *. rewrite Hnc in *.
    (* rho = M M^H entrywise *)
    assert (Hrho : forall t t', t < d -> t' < d ->
              rho1 d (A0 :: rest) t t' = sumn (length qa) (fun b => get M t b *! cj (get M t' b))).
    { intros t t' Ht Ht'.
      rewrite (rho1_gram CF d (length qa) (map (@length Z) qrest) A0 rest t t' Hshape HrRest HlastD Ht Ht').
      apply sumn_ext; intros b Hb. rewrite !HgM by assumption. reflexivity. }
    assert (Hspec : forall t t', t < d -> t' < d -> rho1 d (A0 :: rest) t t' =
              sumn (length S) (fun c => get Uf t c *! emb (fmul F (nth c S (f0 F)) (nth c S (f0 F))) *! cj (get Uf t' c))).
    { intros t t' Ht Ht'. rewrite (Hrho t t' Ht Ht').
      transitivity (sumn (length qa) (fun j =>
         sumn (length S) (fun c => get Uf t c *! emb (nth c S (f0 F)) *! get Vf c j) *!
         cj (sumn (length S) (fun c => get Uf t' c *! emb (nth c S (f0 F)) *! get Vf c j)))).
      { apply sumn_ext; intros j Hj. rewrite !Hfac by assumption. reflexivity. }
      rewrite (gram_of_factor CF (length qa) (length S) (fun i c => get Uf i c) (fun c j => get Vf c j)
                 (fun c => emb (nth c S (f0 F))) t t' HVo).
      apply sumn_ext; intros c Hc. rewrite (conj_cof F), <- (cof_mul F). reflexivity. }
    (* assemble *)
    split; [exact HwfM|]. split; [reflexivity|]. split; [reflexivity|]. split; [exact HgM|].
    split. { unfold compress_args. cbn [m_qd m_qD m_A]. exists tl. exact Eargs. }
    split; [reflexivity|].
    split.
    { rewrite compress_svd_calls_args. unfold compress_args. cbn [m_qd m_qD m_A]. rewrite Eargs. cbn [flat_map step_mx fst snd].
      eexists. reflexivity. }
    split.
    { exists u, s, v, q, Uf. split; [exact E|]. split; [exact Hs|].
      split. { rewrite <- Hls, Hs, map_length. reflexivity. }
      (* the result of the model *)
      unfold mps_compress in E2. cbn [negb] in E2. rewrite E1 in E2. cbn [m_qd m_qD m_A] in E2.
      unfold compress_core in E2.
      destruct (sweep (stepLs dsvd pick tol (m_qd p)) A0 q0 rest (qa :: qrest)) as [[[As' qs'] T]|] eqn:ES; [|discriminate E2].
      destruct (is111 T); [|discriminate E2].
      destruct (sweep_first CF _ _ _ _ _ _ _ _ ES) as (next & A' & n' & q' & As'' & qs'' & Est & -> & -> & Hne').
      cbn [hd] in Est. unfold stepLs, local_left_svd in Est. fold M in Est. rewrite E in Est.
      destruct (Nat.eqb (nc v) (sDl next)); [|discriminate Est]. inversion Est; subst A' n' q'. clear Est.
      inversion E2; subst p'. cbn [m_qD m_A nth].
      split; [reflexivity|].
      split.
      { intros HL. rewrite D3, D1. apply hd_map_last. apply Hne'. intros ->. simpl in Hlen1. lia. }
      split; [exact HwUf|]. split; [exact HnrUf|]. split; [exact HncUf|].
      split.
      { apply mx_ext; [apply wf_mulmx|apply wf_tab| | |].
        - rewrite nr_mulmx, nr_adjmx, nr_idmx. exact HncUf.
        - rewrite nc_mulmx, nc_idmx. exact HncUf.
        - rewrite nr_mulmx, nc_mulmx, nr_adjmx, HncUf. intros k l Hk Hl.
          rewrite get_mulmx by (rewrite ?nr_adjmx; lia). rewrite nc_adjmx, HnrUf.
          transitivity (delta CF k l); [|rewrite get_idmx by assumption; reflexivity].
          rewrite <- (HUo k l Hk Hl). apply sumn_ext; intros i Hi. rewrite get_adjmx by lia. reflexivity. }
      split.
      { apply mx_ext; [apply wf_mulmx|apply wf_tab| | |].
        - rewrite nr_mulmx, nr_scalecols. unfold rho1_mx. rewrite nr_tab. lia.
        - rewrite nc_mulmx, nc_scalecols. reflexivity.
        - rewrite nr_mulmx, nc_mulmx. unfold rho1_mx at 1. rewrite nr_tab, HncUf. intros i k Hi Hk.
          rewrite get_mulmx by (unfold rho1_mx; rewrite ?nr_tab; lia). unfold rho1_mx. rewrite nc_tab.
          unfold scalecols. rewrite get_tab by lia. unfold sqlist. rewrite (nth_map_lt _ _ _ (f0 F)) by exact Hk.
          rewrite <- (eigen_of_spectral CF d (length S) (fun i c => get Uf i c)
                        (fun c => emb (fmul F (nth c S (f0 F)) (nth c S (f0 F)))) i k Hk HUo).
          apply sumn_ext; intros t Ht. rewrite get_tab by lia. rewrite (Hspec i t Hi Ht). reflexivity. }
      split; [exact Hspec|exact Hu]. }
    split.
    { apply mx_ext; [apply wf_tab|apply wf_mulmx| | |].
      - unfold rho1_mx. rewrite nr_tab, nr_mulmx. lia.
      - unfold rho1_mx. rewrite nc_tab, nc_mulmx, nc_adjmx. lia.
      - unfold rho1_mx. rewrite nr_tab, nc_tab. intros t t' Ht Ht'. rewrite get_tab by assumption.
        rewrite get_mulmx by (rewrite ?nc_adjmx; lia). rewrite Hnc. rewrite (Hrho t t' Ht Ht').
        apply sumn_ext; intros b Hb. rewrite get_adjmx by lia. reflexivity. }
    split.
    { intros t t' Ht Ht'. rewrite (rho1_scale CF d (m_A p) (A0 :: rest) (emb nrm) t t' Hne Hlen1 Ht Ht' Hamp1).
      rewrite (conj_cof F), <- (cof_mul F). reflexivity. }
    split; [rewrite rho1_trace; exact Hn1|].
    split. { apply (cof_inj F). rewrite <- Hnorm. exact Hfr. }
    split; [exact Hnn|]. split; [exact HlenS|].
    split; [exact RS1|]. split; [exact RS2|]. split; [exact RS3|]. split; [exact RS4|]. split; [exact RS5|].
    split; [exact RS6|exact RS7].
  Qed.
End Schmidt.

Arguments first_mx {F} p1. Arguments first_q0 {F} p1. Arguments first_q1 {F} p1.
Arguments first_spectrum {F} dsvd p1. Arguments first_kept {F} dsvd pick tol p1.
Arguments rho1_mx {F} d As. Arguments sqlist {F} S.
