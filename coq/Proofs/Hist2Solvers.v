(* C02, round 2: block sparsity through the local Krylov solvers of TDVP / DMRG.

   The charge-forbidden positions of a flattened site tensor of shape (d, Dl, Dr) under (qd, ql, qr) form a zero pattern
   [Zs]; a site tensor is charge conserving iff its flattening vanishes on Zs ([site_vec_supp], [vec_site_okP]).  Hence the
   flattened local operator preserves the pattern whenever the operator on tensors preserves charge conservation
   ([flat_op_supp]), and by Proofs/Hist2Krylov.v the results of
       _local_hamiltonian_step, _local_bond_step, _minimize_local_energy     (Proofs/LinkSolvers.v: kexp_lanczos, kexp0_lanczos, keig_lanczos)
   are charge conserving under the charges of their start tensor whenever the call returns (does not raise) -- with NO
   contract on numpy.linalg.norm, eigh_tridiagonal, exp (Proofs/Hist2Local.v gives the operator hypothesis for
   apply_local_hamiltonian / apply_local_bond_contraction with charge-conserving environment blocks and MPO tensor). *)
From Coq Require Import ZArith List Bool Arith Lia Ring Field.
From PT Require Import Base.Scalar Base.Field Base.BigSum Base.Mx Model.Tensor Model.MPSOps Model.Operation Model.Krylov Model.Sweeps.
From PT Require Import Proofs.MPSOpsBase Proofs.MPSOpsTop Proofs.MPSOpsShape Proofs.OperationSums Proofs.OperationEntries.
From PT Require Import Proofs.KrylovVec Proofs.KrylovLanczos Proofs.KrylovMatvec Proofs.KrylovExpm Proofs.KrylovRitz.
From PT Require Import Proofs.LinkExpmEnergy Proofs.LinkFlatten Proofs.LinkLocalOps Proofs.LinkSolvers.
From PT Require Import Proofs.HistSparse Proofs.Hist2Krylov Proofs.Hist2Local.
Import ListNotations.
Open Scope nat_scope.

Section SitePattern.
  Variable F : ofield.
  Notation K := (Cx F).
  Notation vec := (list K).
  Notation site := (site K).
  Variables qd ql qr : list Z.
  Notation d := (length qd). Notation Dl := (length ql). Notation Dr := (length qr).
  Notation n := (d * Dl * Dr).
  Notation sv := (site_vec F d Dl Dr).
  Notation vs := (vec_site F d Dl Dr).

  (* position i = ((s*Dl + a)*Dr + c) of the flattened tensor is forbidden when qd[s] + ql[a] <> qr[c] *)
  Definition Zs (i : nat) : Prop :=
    i < n /\ (zget qd (i / Dr / Dl) + zget ql ((i / Dr) mod Dl) <> zget qr (i mod Dr))%Z.
  Notation supps := (supp F Zs).

  Lemma site_vec_supp (A : site) : site_okP K qd ql qr A -> supps (sv A).
  Proof.
    intros [SA HA] i [Hi Hne]. rewrite nth_site_vec_raw by exact Hi.
    destruct (fidx_recomp d Dl Dr i Hi) as (H1 & H2 & H3 & _).
    destruct (keqb K (get (sel A (i / Dr / Dl)) ((i / Dr) mod Dl) (i mod Dr)) (k0 K)) eqn:E; [apply keqb_spec in E; exact E|].
    apply keqb_false in E. exfalso. apply Hne. exact (HA _ H1 _ _ H2 H3 E).
  Qed.

  Lemma vec_site_okP (x : vec) : supps x -> site_okP K qd ql qr (vs x).
  Proof.
    intros Hx. split.
    - unfold vec_site. apply (site_shape_stab K). intros s Hs. split; [apply wfb_tab|]. split; reflexivity.
    - intros s Hs a c Ha Hc Hnz. rewrite get_vec_site in Hnz by assumption.
      destruct (Z.eq_dec (zget qd s + zget ql a) (zget qr c)) as [E|E]; [exact E|]. exfalso. apply Hnz. apply Hx.
      destruct (fidx_decomp Dl Dr s a c Ha Hc) as (E1 & E2 & E3). split; [apply fidx_lt; assumption|]. rewrite E1, E2, E3. exact E.
  Qed.

  (* the flattened operator preserves the pattern *)
  Theorem flat_op_supp (op : site -> site) :
    (forall X, site_okP K qd ql qr X -> site_okP K qd ql qr (op X)) ->
    forall x, supps x -> supps (flat_op F d Dl Dr op x).
  Proof. intros Hop x Hx. unfold flat_op. apply site_vec_supp, Hop, vec_site_okP. exact Hx. Qed.

  Variable op : site -> site.
  Variable dnorm : vec -> F.
  Variable small : F -> bool.
  Variable deigh : list F -> list F -> list F * list (list F).
  Variable dexp : K -> K.
  Variable dexpm : list (list K) -> list (list K).
  Variable numiter : nat.
  Hypothesis Hop : forall X, site_okP K qd ql qr X -> site_okP K qd ql qr (op X).

  (* expm_krylov(...).reshape(A.shape) *)
  Theorem kexp_gen_okP (A : site) (t : K) : site_okP K qd ql qr A ->
    expm_krylov F (flat_op F d Dl Dr op) dnorm small deigh dexp dexpm (sv A) (kopp K t) numiter true <> None ->
    site_okP K qd ql qr (kexp_gen F d Dl Dr op dnorm small deigh dexp dexpm numiter A t).
  Proof.
    intros HA Hret. unfold kexp_gen.
    destruct (expm_krylov F (flat_op F d Dl Dr op) dnorm small deigh dexp dexpm (sv A) (kopp K t) numiter true) as [x|] eqn:E;
      [|contradiction Hret; reflexivity].
    apply vec_site_okP.
    apply (expm_krylov_supp F Zs (flat_op F d Dl Dr op) dnorm small (flat_op_supp op Hop) deigh dexp dexpm (sv A) (kopp K t) numiter true x);
      [apply site_vec_supp; exact HA|exact E].
  Qed.
  (* u_ritz[:, 0].reshape(A.shape) *)
  Theorem keig_gen_okP (A : site) : site_okP K qd ql qr A ->
    eigh_krylov F (flat_op F d Dl Dr op) dnorm small deigh (sv A) numiter 1 <> None ->
    site_okP K qd ql qr (snd (keig_gen F d Dl Dr op dnorm small deigh numiter A)).
  Proof.
    intros HA Hret. unfold keig_gen.
    destruct (eigh_krylov F (flat_op F d Dl Dr op) dnorm small deigh (sv A) numiter 1) as [[ws us]|] eqn:E;
      [|contradiction Hret; reflexivity].
    cbn [snd]. apply vec_site_okP.
    apply (eigh_krylov_supp0 F Zs (flat_op F d Dl Dr op) dnorm small (flat_op_supp op Hop) deigh (sv A) numiter 1 ws us);
      [apply site_vec_supp; exact HA|exact E].
  Qed.
End SitePattern.

(* ================= the concrete solvers of evolution.py / minimization.py ================= *)
Section ConcretePattern.
  Variable F : ofield.
  Notation K := (Cx F).
  Notation vec := (list K).
  Variable dnorm : vec -> F.
  Variable small : F -> bool.
  Variable deigh : list F -> list F -> list F * list (list F).
  Variable dexp : K -> K.
  Variable dexpm : list (list K) -> list (list K).
  Variable numiter : nat.

  (* "the call returns": the Krylov routine underneath does not raise (assert nrmv > 0, numiter >= 1) *)
  Definition kexp_lanczos_returns (BL BR : env K) (W : osite K) (A : site K) (t : K) : Prop :=
    expm_krylov F (flat_op F (length A) (sdl A) (sdr A) (apply_local_hamiltonian BL BR W)) dnorm small deigh dexp dexpm
                (site_vec F (length A) (sdl A) (sdr A) A) (kopp K t) numiter true <> None.
  Definition kexp0_lanczos_returns (BL BR : env K) (C : mx K) (t : K) : Prop :=
    expm_krylov F (flat_op F 1 (nr C) (nc C) (bond_op F BL BR)) dnorm small deigh dexp dexpm
                (site_vec F 1 (nr C) (nc C) [C]) (kopp K t) numiter true <> None.
  Definition keig_lanczos_returns (BL BR : env K) (W : osite K) (A : site K) : Prop :=
    eigh_krylov F (flat_op F (length A) (sdl A) (sdr A) (apply_local_hamiltonian BL BR W)) dnorm small deigh
                (site_vec F (length A) (sdl A) (sdr A) A) numiter 1 <> None.

  Section OneSite.
    Variables qd qwl qwr ql qr : list Z.
    Variables (BL BR : env K) (W : osite K).
    Hypothesis Hd : 0 < length qd.
    Hypothesis Hwl : 0 < length qwl.
    Hypothesis Hwr : 0 < length qwr.
    Hypothesis HW : osite_okP K qd qwl qwr W.
    Hypothesis HL : env_okP K ql qwl ql BL.
    Hypothesis HR : env_okP K qr qwr qr BR.

    (* _local_hamiltonian_step *)
    Theorem kexp_lanczos_okP pos (A : site K) (t : K) : site_okP K qd ql qr A -> kexp_lanczos_returns BL BR W A t ->
      site_okP K qd ql qr (kexp_lanczos F dnorm small deigh dexp dexpm numiter pos BL BR W A t).
    Proof.
      intros HA Hret. destruct (site_okP_sdl K qd Hd ql qr A HA) as (E1 & E2 & E3).
      unfold kexp_lanczos, kexp_lanczos_returns in *. rewrite E1, E2, E3 in *.
      apply kexp_gen_okP; [|exact HA|exact Hret]. intros X HX. apply (alh_okP K qd qwl qwr W); assumption.
    Qed.
    (* _minimize_local_energy *)
    Theorem keig_lanczos_okP pos (A : site K) : site_okP K qd ql qr A -> keig_lanczos_returns BL BR W A ->
      site_okP K qd ql qr (snd (keig_lanczos F dnorm small deigh numiter pos BL BR W A)).
    Proof.
      intros HA Hret. destruct (site_okP_sdl K qd Hd ql qr A HA) as (E1 & E2 & E3).
      unfold keig_lanczos, keig_lanczos_returns in *. rewrite E1, E2, E3 in *.
      apply keig_gen_okP; [|exact HA|exact Hret]. intros X HX. apply (alh_okP K qd qwl qwr W); assumption.
    Qed.
  End OneSite.

  (* a bond matrix as the one-matrix site [C] with physical charge 0 *)
  Lemma bond_site_okP ql qr (C : mx K) : wfb C = true -> bond_okP K ql qr C -> site_okP K [0%Z] ql qr [C].
  Proof.
    intros Hwf (rC & cC & HC). split.
    - unfold site_shape. cbn [length forallb Nat.eqb andb]. rewrite Hwf, rC, cC, !Nat.eqb_refl. reflexivity.
    - intros s Hs. cbn [length] in Hs. assert (s = 0) as -> by lia. exact HC.
  Qed.
  Lemma site_bond_okP ql qr (S : site K) : site_okP K [0%Z] ql qr S -> bond_okP K ql qr (sel S 0).
  Proof.
    intros [SS HS]. destruct (site_shape_sel K _ _ _ S 0 SS ltac:(cbn [length]; lia)) as (_ & rM & cM).
    split; [exact rM|]. split; [exact cM|]. apply (HS 0). cbn [length]. lia.
  Qed.

  (* _local_bond_step *)
  Theorem kexp0_lanczos_okP qw ql qr pos (BL BR : env K) (C : mx K) (t : K) : 0 < length qw ->
    env_okP K ql qw ql BL -> env_okP K qr qw qr BR -> wfb C = true -> bond_okP K ql qr C ->
    kexp0_lanczos_returns BL BR C t ->
    bond_okP K ql qr (kexp0_lanczos F dnorm small deigh dexp dexpm numiter pos BL BR C t).
  Proof.
    intros Hw HL HR Hwf HC Hret. pose proof HC as (rC & cC & _).
    unfold kexp0_lanczos, kexp0_lanczos_returns in *. rewrite rC, cC in *.
    apply site_bond_okP.
    apply (kexp_gen_okP F [0%Z] ql qr (bond_op F BL BR) dnorm small deigh dexp dexpm numiter); [|apply bond_site_okP; assumption|exact Hret].
    intros X HX. unfold bond_op. apply bond_site_okP; [apply wfb_tab|].
    apply (albc_okP K qw); try assumption. apply site_bond_okP. exact HX.
  Qed.
End ConcretePattern.
