(* C09 — adjacent inverse pairs.  The backward run (time step -dt) started from a state that is gauge-equivalent to the
   forward state (up to the scalar c = 1/nrm of the second call's normalisation, sitting on the centre tensor) undoes the
   forward loop bodies one by one, in reverse order:
     the backward left-to-right body at bond (i, i+1) undoes the forward right-to-left body at site i+1      [undo_rl]
     the backward middle step undoes the forward middle step                                                 [undo_mid]
     the backward right-to-left body at site i+1 undoes the forward left-to-right body at site i             [undo_lr]
   Each time the gauge-equivalence is re-established, with a new unitary on the one bond that was re-factorised. *)
From Coq Require Import ZArith Arith List Lia Ring Setoid Bool.
From PT Require Import Base.Scalar Base.BigSum Base.Mx Model.Tensor Model.Operation Model.Sweeps
  Proofs.OperationEntries Proofs.OperationLocal Proofs.SweepsCanon Proofs.SweepsFlow Proofs.SweepsGauge
  Proofs.ReverseDefs Proofs.ReverseMx Proofs.ReverseGauge Proofs.ReverseQR Proofs.ReverseFwd.
Import ListNotations.

Ltac neq := (symmetry; apply Nat.eqb_neq; lia).
Ltac eqb_simp := repeat match goal with |- context [Nat.eqb ?a ?b] =>
  first [ replace (Nat.eqb a b) with true by (symmetry; apply Nat.eqb_eq; lia)
        | replace (Nat.eqb a b) with false by (symmetry; apply Nat.eqb_neq; lia) ] end.

Section SiteAlgebra.
  Variable R : cring.
  Add Ring Rring_reverse_pair0 : (k_rt R).
  Notation site := (site R).
  Notation mx := (mx R).

  Ltac permx HA M HM m0 m1 m2 :=
    let H := fresh in pose proof (proj2 HA) as H; rewrite Forall_forall in H; destruct (H M HM) as (m0 & m1 & m2); clear H.

  Lemma alg_S1 d D1 D2 c (G1 G2 C1 : mx) (B : site) : wsite d D1 D2 B -> wmx D1 D1 G1 -> wmx D2 D2 G2 -> wmx D1 D1 C1 ->
    scale_site c (gsite G1 G2 (lmul_site C1 B)) = lmul_site (scalemx c (mulmx (adjmx G1) C1)) (rmul_site B G2).
  Proof.
    intros HB (a0 & a1 & a2) (b0 & b1 & b2) (c0 & c1 & c2).
    unfold scale_site, gsite, lmul_site, rmul_site, gmx. rewrite !map_map. apply map_ext_in. intros M HM. permx HB M HM m0 m1 m2.
    rewrite mulmx_scalemx_l. f_equal. repeat rewrite mulmx_assoc by shp. reflexivity.
  Qed.
  Lemma alg_S2 d D1 D2 (U G2 : mx) (B : site) : wsite d D1 D2 B -> wmx D1 D1 U -> wmx D2 D2 G2 ->
    lmul_site (adjmx U) (rmul_site B G2) = gsite U G2 B.
  Proof.
    intros HB (a0 & a1 & a2) (b0 & b1 & b2).
    unfold gsite, lmul_site, rmul_site, gmx. rewrite !map_map. apply map_ext_in. intros M HM. permx HB M HM m0 m1 m2.
    rewrite mulmx_assoc by shp. reflexivity.
  Qed.
  Lemma alg_S3 d D0 D1 c (G0 G1 U C : mx) (Aq : site) : wsite d D0 D1 Aq -> wmx D0 D0 G0 -> unitary D1 G1 -> wmx D1 D1 U -> wmx D1 D1 C ->
    rmul_site (gsite G0 G1 Aq) (scalemx c (gmx G1 U C)) = scale_site c (gsite G0 U (rmul_site Aq C)).
  Proof.
    intros HA (a0 & a1 & a2) ((g0 & g1 & g2) & _ & HU) (u0 & u1 & u2) (c0 & c1 & c2).
    unfold scale_site, gsite, rmul_site, gmx. rewrite !map_map. apply map_ext_in. intros M HM. permx HA M HM m0 m1 m2.
    rewrite mulmx_scalemx_r by shp. f_equal. repeat rewrite mulmx_assoc by shp.
    rewrite (mulmx_cancel R G1 (adjmx G1) _ D1 HU) by (shp; apply wf_mulmx). reflexivity.
  Qed.
  Lemma alg_S4 d D0 D1 c (G0 G1 C1 : mx) (P : site) : wsite d D0 D1 P -> wmx D0 D0 G0 -> wmx D1 D1 G1 -> wmx D1 D1 C1 ->
    scale_site c (gsite G0 G1 (rmul_site P C1)) = rmul_site (lmul_site (adjmx G0) P) (scalemx c (mulmx C1 G1)).
  Proof.
    intros HP (a0 & a1 & a2) (b0 & b1 & b2) (c0 & c1 & c2).
    unfold scale_site, gsite, lmul_site, rmul_site, gmx. rewrite !map_map. apply map_ext_in. intros M HM. permx HP M HM m0 m1 m2.
    rewrite mulmx_scalemx_r by shp. f_equal. repeat rewrite mulmx_assoc by shp. reflexivity.
  Qed.
  Lemma alg_S5 (G0 U : mx) (P : site) : rmul_site (lmul_site (adjmx G0) P) U = gsite G0 U P.
  Proof. unfold gsite, lmul_site, rmul_site, gmx. rewrite map_map. reflexivity. Qed.
  Lemma alg_S6 d D1 D2 c (U G1 G2 Ct : mx) (Q : site) : wsite d D1 D2 Q -> wmx D1 D1 U -> unitary D1 G1 -> wmx D2 D2 G2 -> wmx D1 D1 Ct ->
    lmul_site (scalemx c (gmx U G1 Ct)) (gsite G1 G2 Q) = scale_site c (gsite U G2 (lmul_site Ct Q)).
  Proof.
    intros HQ (u0 & u1 & u2) ((g0 & g1 & g2) & _ & HU) (b0 & b1 & b2) (c0 & c1 & c2).
    unfold scale_site, gsite, lmul_site, gmx. rewrite !map_map. apply map_ext_in. intros M HM. permx HQ M HM m0 m1 m2.
    rewrite mulmx_scalemx_l. f_equal. repeat rewrite mulmx_assoc by shp.
    rewrite (mulmx_cancel R G1 (adjmx G1) _ D1 HU) by (shp; apply wf_mulmx). reflexivity.
  Qed.
  Lemma lmul_adj_gsite d D0 D1 (G0 : mx) (P : site) : wsite d D0 D1 P -> wmx D0 D0 G0 ->
    lmul_site (adjmx G0) P = gsite G0 (idmx D1) P.
  Proof.
    intros HP (a0 & a1 & a2). unfold gsite, lmul_site, gmx. apply map_ext_in. intros M HM. permx HP M HM m0 m1 m2.
    symmetry. transitivity (mulmx (mulmx (adjmx G0) M) (idmx (nc (mulmx (adjmx G0) M)))); [f_equal; f_equal; shp|].
    apply mulmx_1_r. apply wf_mulmx.
  Qed.
  Lemma rmul_gsite d D0 D1 (G1 : mx) (B : site) : wsite d D0 D1 B -> wmx D1 D1 G1 ->
    rmul_site B G1 = gsite (idmx D0) G1 B.
  Proof.
    intros HB (a0 & a1 & a2). unfold gsite, rmul_site, gmx. apply map_ext_in. intros M HM. permx HB M HM m0 m1 m2.
    rewrite adjmx_idmx. f_equal. symmetry. rewrite <- m1. apply mulmx_1_l. exact m0.
  Qed.
  Lemma mul_scale_gmx_l D c (G1 U C1 : mx) : wmx D D G1 -> wmx D D U -> wmx D D C1 ->
    mulmx (scalemx c (mulmx (adjmx G1) C1)) U = scalemx c (gmx G1 U C1).
  Proof. intros _ _ _. unfold gmx. apply mulmx_scalemx_l. Qed.
  Lemma mul_scale_gmx_r D c (G1 U C1 : mx) : wmx D D G1 -> wmx D D U -> wmx D D C1 ->
    mulmx (adjmx U) (scalemx c (mulmx C1 G1)) = scalemx c (gmx U G1 C1).
  Proof.
    intros (a0 & a1 & a2) (u0 & u1 & u2) (c0 & c1 & c2). unfold gmx. rewrite mulmx_scalemx_r by shp. f_equal.
    rewrite mulmx_assoc by shp. reflexivity.
  Qed.
End SiteAlgebra.

Section Pair.
  Variable R : cring.
  Add Ring Rring_reverse_pair : (k_rt R).
  Notation site := (site R).
  Notation osite := (osite R).
  Notation env := (env R).
  Notation mx := (mx R).
  Notation sw := (sw R).
  Variable qr : nat -> mx -> list BinNums.Z -> list BinNums.Z -> mx * mx * list BinNums.Z.
  Variable kexp : kexp_t R.
  Variable kexp0 : kexp0_t R.
  Variable Hs : list osite.
  Variable qd : list BinNums.Z.
  Variable d : nat.
  Variables Ds DW : nat -> nat.
  Notation L := (length Hs).
  Hypothesis Hd : 0 < d.
  Hypothesis HW : forall j, j < L -> osite_ok d (DW j) (DW (S j)) (nth j Hs []).
  Hypothesis HDW : forall j, 0 < DW j.
  Hypothesis Hk : kexp_flow d kexp.
  Hypothesis Hk0 : kexp0_flow kexp0.
  Hypothesis Hcov : kexp_covariant d kexp.
  Hypothesis Hcov0 : kexp0_covariant kexp0.
  Variables (dt hdt : R).
  (* the scalar on the backward centre tensor and its inverse *)
  Variables (c ci : R).
  Hypothesis Hc : kmul R c ci = k1 R.

  Notation lrF := (tdvp1_lr qr kexp kexp0 Hs qd dt hdt).
  Notation rlF := (tdvp1_rl qr kexp kexp0 Hs qd dt hdt).
  Notation midF := (tdvp1_mid kexp Hs dt hdt).
  Notation lrB := (tdvp1_lr qr kexp kexp0 Hs qd (kopp R dt) (kopp R hdt)).
  Notation rlB := (tdvp1_rl qr kexp kexp0 Hs qd (kopp R dt) (kopp R hdt)).
  Notation midB := (tdvp1_mid kexp Hs (kopp R dt) (kopp R hdt)).
  Notation fok := (rev_tr_ok qr kexp0 true dt hdt).
  Notation bok := (rev_tr_ok qr kexp0 false (kopp R dt) (kopp R hdt)).
  Notation FIi := (FI Hs d Ds DW).

  (* backward state b is gauge-equivalent to forward state X, both with centre i *)
  Definition Rel (i : nat) (X b : sw) : Prop :=
    exists g : nat -> mx,
      g 0 = idmx 1 /\ g L = idmx 1 /\ (forall j, j <= L -> unitary (Ds j) (g j)) /\
      length (s_A b) = L /\ length (s_BL b) = L /\ length (s_BR b) = L /\
      (forall j, j < L -> gA b j = if Nat.eqb j i then scale_site c (gsite (g j) (g (S j)) (gA X j))
                                   else gsite (g j) (g (S j)) (gA X j)) /\
      (forall j, j <= i -> gBL b j = genvL (g j) (gBL X j)) /\
      (forall j, i <= j < L -> gBR b j = genvR (g (S j)) (gBR X j)).

  Lemma kopp_kopp (x : R) : kopp R (kopp R x) = x. Proof. ring. Qed.

  (* ---------------- the middle steps ---------------- *)
  Theorem undo_mid (X b : sw) i : FIi i X -> i < L -> Rel i (midF X i) b -> Rel i X (midB b i).
  Proof.
    intros HFI HiL (g & g0 & gL & gU & lA & lBL & lBR & RA & RBL & RBR).
    destruct HFI as (fA & fBL & fBR & Hsh & Hli & Hri & HwL & HwR & HrL & HrR & H0 & HL1).
    destruct (mid_unfold R kexp Hs dt hdt X i ltac:(lia)) as (p & EA & EBL & EBR & _).
    destruct (mid_unfold R kexp Hs (kopp R dt) (kopp R hdt) b i ltac:(lia)) as (p' & EA' & EBL' & EBR' & l1 & l2 & l3).
    exists g. split; [exact g0|]. split; [exact gL|]. split; [exact gU|]. split; [lia|]. split; [lia|]. split; [lia|].
    split; [|split].
    - intros j Hj. rewrite EA'. destruct (Nat.eqb_spec j i) as [->|N1].
      + rewrite (RA i HiL), Nat.eqb_refl, EA, Nat.eqb_refl, (RBL i (le_n i)), (RBR i ltac:(lia)), EBL, EBR.
        set (A := gA X i). set (A1 := kexp p (gBL X i) (gBR X i) (nth i Hs []) A dt).
        assert (HA : wsite d (Ds i) (Ds (S i)) A) by (apply Hsh; exact HiL).
        assert (HA1 : wsite d (Ds i) (Ds (S i)) A1) by (destruct Hk as (Hs' & _); apply Hs'; exact HA).
        destruct Hk as (_ & _ & _ & Hhom).
        rewrite (Hhom p' p' _ _ _ (gsite (g i) (g (S i)) A1) (kopp R dt) c (Ds i) (Ds (S i))).
        2: { apply (wsite_gsite R d (Ds i) (Ds (S i))); [exact HA1| |]; [destruct (gU i ltac:(lia)) as ((_ & _ & E) & _); exact E|destruct (gU (S i) ltac:(lia)) as ((_ & _ & E) & _); exact E]. }
        f_equal.
        rewrite (Hcov p' p' (gBL X i) (gBR X i) (nth i Hs []) A1 (kopp R dt) (Ds i) (Ds (S i)) (DW i) (DW (S i)) (g i) (g (S i)) HA1
                   (HwL i (le_n i)) (HwR i ltac:(lia)) (gU i ltac:(lia)) (gU (S i) ltac:(lia))).
        f_equal. apply (kexp_flow_inv R d kexp Hk p p' _ _ _ A dt (Ds i) (Ds (S i)) HA).
      + rewrite (RA j Hj). replace (Nat.eqb j i) with false by neq. rewrite EA. replace (Nat.eqb j i) with false by neq. reflexivity.
    - intros j Hj. rewrite EBL', (RBL j Hj), EBL. reflexivity.
    - intros j Hj. rewrite EBR', (RBR j Hj), EBR. reflexivity.
  Qed.

  (* unitarity facts in the shape needed below *)
  Lemma unitary_wmx D (G : mx) : unitary D G -> wmx D D G. Proof. intros (H & _). exact H. Qed.
  Lemma unitary_nc D (G : mx) : unitary D G -> nc G = D. Proof. intros ((_ & _ & H) & _). exact H. Qed.

  (* ---------------- the backward right-to-left body at site i+1 undoes the forward left-to-right body at site i ---------------- *)
  Theorem undo_lr (X b : sw) i : FIi i X -> S i < L -> fok (s_tr (lrF X i)) ->
    Rel (S i) (lrF X i) b -> bok (s_tr (rlB b (S i))) -> Rel i X (rlB b (S i)).
  Proof.
    intros HFI HSi Hfok (g & g0 & gL & gU & lA & lBL & lBR & RA & RBL & RBR) Hbok.
    destruct (lr_facts R qr kexp kexp0 Hs qd d Ds DW Hd HW Hk dt hdt X i HFI HSi Hfok)
      as (p & p' & Aq & C & HA1 & HAq & HisoAq & HinvC & EA1 & HinvC1 & HBLn & EA & EBL & EBR & _).
    cbv zeta in *.
    destruct HFI as (fA & fBL & fBR & Hsh & Hli & Hri & HwL & HwR & HrL & HrR & H0 & HL1).
    set (W := nth i Hs []) in *. set (A := gA X i) in *. set (B := gA X (S i)) in *.
    set (BLi := gBL X i) in *. set (BRi := gBR X i) in *.
    set (A1 := kexp p BLi BRi W A hdt) in *.
    set (BLn := contraction_operator_step_left Aq Aq W BLi) in *.
    set (C1 := kexp0 p' BLn BRi C (kopp R hdt)) in *.
    set (G0 := g i). set (G1 := g (S i)). set (G2 := g (S (S i))).
    assert (U0 : unitary (Ds i) G0) by (apply gU; lia).
    assert (U1 : unitary (Ds (S i)) G1) by (apply gU; lia).
    assert (U2 : unitary (Ds (S (S i))) G2) by (apply gU; lia).
    assert (HA : wsite d (Ds i) (Ds (S i)) A) by (apply Hsh; lia).
    assert (HB : wsite d (Ds (S i)) (Ds (S (S i))) B) by (apply Hsh; lia).
    assert (HisoB : right_iso B) by (apply Hri; lia).
    assert (HBLi : wenv (DW i) (Ds i) (Ds i) BLi) by (apply HwL; lia).
    assert (HBRi : wenv (DW (S i)) (Ds (S i)) (Ds (S i)) BRi) by (apply HwR; lia).
    (* what b looks like around the bond *)
    assert (Eb1 : gA b (S i) = scale_site c (gsite G1 G2 (lmul_site C1 B))).
    { rewrite (RA (S i) HSi), Nat.eqb_refl, EA. replace (Nat.eqb (S i) i) with false by neq. rewrite Nat.eqb_refl. reflexivity. }
    assert (Eb0 : gA b i = gsite G0 G1 Aq).
    { rewrite (RA i ltac:(lia)). replace (Nat.eqb i (S i)) with false by neq. rewrite EA, Nat.eqb_refl. reflexivity. }
    assert (EbL1 : gBL b (S i) = genvL G1 BLn) by (rewrite (RBL (S i) (le_n _)), EBL, Nat.eqb_refl; reflexivity).
    assert (EbL0 : gBL b i = genvL G0 BLi).
    { rewrite (RBL i ltac:(lia)), EBL. replace (Nat.eqb i (S i)) with false by neq. reflexivity. }
    assert (EbR1 : gBR b (S i) = genvR G2 (gBR X (S i))) by (rewrite (RBR (S i) ltac:(lia)), EBR; reflexivity).
    (* the backward body *)
    destruct (rl_unfold R qr kexp kexp0 Hs qd false (kopp R dt) (kopp R hdt) b (S i) ltac:(lia) ltac:(lia) ltac:(lia) Hbok)
      as (q' & q'' & Q' & C' & qb' & Hq' & _ & EA' & EBL' & EBR' & l1 & l2 & l3).
    cbv zeta in *. replace (S i - 1) with i in * by lia.
    rewrite Eb1, EbR1, EbL1, EbL0, Eb0 in *.
    set (X' := scale_site c (gsite G1 G2 (lmul_site C1 B))) in *.
    assert (HC1w : wmx (Ds (S i)) (Ds (S i)) C1) by exact (proj1 HinvC1).
    assert (HX' : wsite d (Ds (S i)) (Ds (S (S i))) X').
    { apply wsite_scale. apply (wsite_gsite R d (Ds (S i)) (Ds (S (S i)))); [|apply (unitary_nc _ _ U1)|apply (unitary_nc _ _ U2)].
      apply (wsite_lmul R d (Ds (S i)) (Ds (S i))); assumption. }
    destruct (qr_right_good R d (Ds (S i)) (Ds (S (S i))) X' Q' C' qb' Hd HX' Hq') as (HAq' & HisoAq' & HinvT' & EX').
    set (Aq' := site_tr (site_unflat (length (site_tr X')) (sdl (site_tr X')) Q')) in *.
    (* the known factorisation of X' *)
    set (T0 := scalemx c (mulmx (adjmx G1) C1)). set (B0 := rmul_site B G2).
    assert (EX0 : X' = lmul_site T0 B0).
    { unfold X', T0, B0. apply (alg_S1 R d (Ds (S i)) (Ds (S (S i)))); try assumption; apply unitary_wmx; assumption. }
    assert (HB0 : wsite d (Ds (S i)) (Ds (S (S i))) B0) by (apply (wsite_rmul R d (Ds (S (S i))) (Ds (S i)) (Ds (S (S i)))); [exact HB|apply unitary_wmx; exact U2]).
    assert (HisoB0 : right_iso B0).
    { unfold B0. rewrite (rmul_gsite R d (Ds (S i)) (Ds (S (S i)))) by (try assumption; apply unitary_wmx; exact U2).
      apply (right_iso_gsite R d (Ds (S i)) (Ds (S (S i)))); try assumption. apply unitary_idmx. }
    assert (HinvT0 : invertible (Ds (S i)) T0).
    { unfold T0. apply (invertible_scale R _ c ci); [exact Hc|]. apply invertible_mul; [|exact HinvC1].
      apply invertible_unitary. destruct U1 as ((u0 & u1 & u2) & E1 & E2). split; [split; [apply wf_adjmx|split; shp]|].
      rewrite adjmx_adjmx by exact u0. split; assumption. }
    destruct (uniq_right R d (Ds (S i)) (Ds (S (S i))) (trmx C') T0 Aq' B0 Hd HAq' HB0 HisoAq' HisoB0 HinvT' HinvT0 ltac:(rewrite <- EX'; exact EX0))
      as (U & UU & EAq' & ET').
    assert (EAq'' : Aq' = gsite U G2 B).
    { rewrite EAq'. unfold B0. apply (alg_S2 R d (Ds (S i)) (Ds (S (S i)))); try assumption; apply unitary_wmx; assumption. }
    assert (ET'' : trmx C' = scalemx c (gmx G1 U C1)).
    { rewrite ET'. unfold T0. apply (mul_scale_gmx_l R (Ds (S i))); try assumption; apply unitary_wmx; assumption. }
    (* the new right block *)
    set (BRn' := contraction_operator_step_right Aq' Aq' (nth (S i) Hs []) (genvR G2 (gBR X (S i)))) in *.
    assert (EBRn' : BRn' = genvR U BRi).
    { unfold BRn'. rewrite EAq''.
      rewrite (opstep_right_gauge R d (Ds (S i)) (Ds (S (S i))) (DW (S i)) (DW (S (S i))) B (nth (S i) Hs []) (gBR X (S i)) U G2 Hd (HDW _) HB (HW _ HSi)
                 (HwR (S i) ltac:(lia)) U2 (unitary_wmx _ _ UU)).
      f_equal. unfold BRi. replace i with (S i - 1) at 3 by lia. symmetry. apply HrR. lia. }
    (* the bond matrix evolves back *)
    rewrite ET'', EBRn' in *.
    set (C1' := kexp0 q' (genvL G1 BLn) (genvR U BRi) (scalemx c (gmx G1 U C1)) (kopp R (kopp R hdt))) in *.
    assert (HCw : wmx (Ds (S i)) (Ds (S i)) C) by exact (proj1 HinvC).
    assert (EC1' : C1' = scalemx c (gmx G1 U C)).
    { unfold C1'. destruct Hk0 as (_ & _ & _ & Hhom0).
      rewrite (Hhom0 q' q' _ _ (gmx G1 U C1) _ c (Ds (S i)) (Ds (S i))) by (apply wmx_gmx; [apply (unitary_nc _ _ U1)|apply (unitary_nc _ _ UU)]).
      f_equal.
      rewrite (Hcov0 q' q' BLn BRi C1 (kopp R (kopp R hdt)) (Ds (S i)) (Ds (S i)) (DW (S i)) G1 U HC1w HBLn HBRi U1 UU).
      f_equal. unfold C1. apply (kexp0_flow_inv R kexp0 Hk0 p' q' BLn BRi C (kopp R hdt) _ _ HCw). }
    (* absorbing it into the left neighbour gives the evolved forward centre, then the site step evolves back *)
    assert (EAp' : rmul_site (gsite G0 G1 Aq) C1' = scale_site c (gsite G0 U A1)).
    { rewrite EC1', EA1. apply (alg_S3 R d (Ds i) (Ds (S i))); try assumption; apply unitary_wmx; assumption. }
    rewrite EAp' in EA'.
    set (Ap1' := kexp q'' (genvL G0 BLi) (genvR U BRi) (nth i Hs []) (scale_site c (gsite G0 U A1)) (kopp R hdt)) in *.
    assert (EAp1' : Ap1' = scale_site c (gsite G0 U A)).
    { unfold Ap1'. destruct Hk as (_ & _ & _ & Hhom).
      rewrite (Hhom q'' q'' _ _ _ (gsite G0 U A1) (kopp R hdt) c (Ds i) (Ds (S i)))
        by (apply (wsite_gsite R d (Ds i) (Ds (S i))); [exact HA1|apply (unitary_nc _ _ U0)|apply (unitary_nc _ _ UU)]).
      f_equal. fold W.
      rewrite (Hcov q'' q'' BLi BRi W A1 (kopp R hdt) (Ds i) (Ds (S i)) (DW i) (DW (S i)) G0 U HA1 HBLi HBRi U0 UU).
      f_equal. apply (kexp_flow_inv R d kexp Hk p q'' BLi BRi W A hdt _ _ HA). }
    (* the new gauge: U on the bond (i, i+1) *)
    exists (fun j => if Nat.eqb j (S i) then U else g j).
    split; [exact g0|]. split; [replace (Nat.eqb L (S i)) with false by neq; exact gL|].
    split; [intros j Hj; destruct (Nat.eqb_spec j (S i)) as [->|N]; [exact UU|apply gU; exact Hj]|].
    split; [lia|]. split; [lia|]. split; [lia|].
    split; [|split].
    - intros j Hj. rewrite EA'. destruct (Nat.eqb_spec j i) as [->|N1]; [|destruct (Nat.eqb_spec j (S i)) as [->|N2]]; eqb_simp.
      + fold G0. rewrite EAp1'. reflexivity.
      + fold G2. rewrite EAq''. reflexivity.
      + rewrite (RA j Hj), EA. eqb_simp. reflexivity.
    - intros j Hj. rewrite EBL', (RBL j ltac:(lia)), EBL. eqb_simp. reflexivity.
    - intros j Hj. rewrite EBR'. destruct (Nat.eqb_spec j i) as [->|N1]; eqb_simp; [reflexivity|].
      rewrite (RBR j ltac:(lia)), EBR. reflexivity.
  Qed.

  (* ---------------- the backward left-to-right body at site i undoes the forward right-to-left body at site i+1 ---------------- *)
  Theorem undo_rl (X b : sw) i : FIi (S i) X -> S i < L -> fok (s_tr (rlF X (S i))) ->
    Rel i (rlF X (S i)) b -> bok (s_tr (lrB b i)) -> Rel (S i) X (lrB b i).
  Proof.
    intros HFI HSi Hfok (g & g0 & gL & gU & lA & lBL & lBR & RA & RBL & RBR) Hbok.
    destruct (rl_facts R qr kexp kexp0 Hs qd d Ds DW Hd HW dt hdt X (S i) HFI ltac:(lia) HSi Hfok)
      as (p' & p'' & Aq & Ct & HAq & HisoAq & HinvCt & EXm & HinvC1 & HBRn & HAp & EA & EBL & EBR & _).
    cbv zeta in *. replace (S i - 1) with i in * by lia.
    destruct HFI as (fA & fBL & fBR & Hsh & Hli & Hri & HwL & HwR & HrL & HrR & H0 & HL1).
    set (W := nth i Hs []) in *. set (P := gA X i) in *.
    set (BLi := gBL X i) in *. set (BLm := gBL X (S i)) in *.
    set (BRn := contraction_operator_step_right Aq Aq (nth (S i) Hs []) (gBR X (S i))) in *.
    set (C1 := kexp0 p' BLm BRn Ct (kopp R hdt)) in *.
    set (Ap := rmul_site P C1) in *.
    set (Ap1 := kexp p'' BLi BRn W Ap hdt) in *.
    set (G0 := g i). set (G1 := g (S i)). set (G2 := g (S (S i))).
    assert (U0 : unitary (Ds i) G0) by (apply gU; lia).
    assert (U1 : unitary (Ds (S i)) G1) by (apply gU; lia).
    assert (U2 : unitary (Ds (S (S i))) G2) by (apply gU; lia).
    assert (HP : wsite d (Ds i) (Ds (S i)) P) by (apply Hsh; lia).
    assert (HisoP : left_iso P) by (apply Hli; lia).
    assert (HBLi : wenv (DW i) (Ds i) (Ds i) BLi) by (apply HwL; lia).
    assert (HBLm : wenv (DW (S i)) (Ds (S i)) (Ds (S i)) BLm) by (apply HwL; lia).
    assert (HAp1 : wsite d (Ds i) (Ds (S i)) Ap1) by (destruct Hk as (Hs' & _); apply Hs'; exact HAp).
    assert (HC1w : wmx (Ds (S i)) (Ds (S i)) C1) by exact (proj1 HinvC1).
    assert (HCtw : wmx (Ds (S i)) (Ds (S i)) Ct) by exact (proj1 HinvCt).
    (* what b looks like around the bond *)
    assert (Eb0 : gA b i = scale_site c (gsite G0 G1 Ap1)) by (rewrite (RA i ltac:(lia)), Nat.eqb_refl, EA, Nat.eqb_refl; reflexivity).
    assert (Eb1 : gA b (S i) = gsite G1 G2 Aq).
    { rewrite (RA (S i) HSi). replace (Nat.eqb (S i) i) with false by neq. rewrite EA.
      replace (Nat.eqb (S i) i) with false by neq. rewrite Nat.eqb_refl. reflexivity. }
    assert (EbL0 : gBL b i = genvL G0 BLi) by (rewrite (RBL i (le_n _)), EBL; reflexivity).
    assert (EbR0 : gBR b i = genvR G1 BRn) by (rewrite (RBR i ltac:(lia)), EBR, Nat.eqb_refl; reflexivity).
    (* the backward body *)
    destruct (lr_unfold R qr kexp kexp0 Hs qd false (kopp R dt) (kopp R hdt) b i ltac:(lia) ltac:(lia) Hbok)
      as (q & q' & Q' & C' & qb' & Hq' & _ & EA' & EBL' & EBR' & l1 & l2 & l3).
    cbv zeta in *. rewrite Eb0, Eb1, EbL0, EbR0 in *. fold W in Hq', EA', EBL'.
    (* the site step evolves back *)
    set (A1' := kexp q (genvL G0 BLi) (genvR G1 BRn) W (scale_site c (gsite G0 G1 Ap1)) (kopp R hdt)) in *.
    assert (EA1' : A1' = scale_site c (gsite G0 G1 Ap)).
    { unfold A1'. destruct Hk as (_ & _ & _ & Hhom).
      rewrite (Hhom q q _ _ _ (gsite G0 G1 Ap1) (kopp R hdt) c (Ds i) (Ds (S i)))
        by (apply (wsite_gsite R d (Ds i) (Ds (S i))); [exact HAp1|apply (unitary_nc _ _ U0)|apply (unitary_nc _ _ U1)]).
      f_equal.
      rewrite (Hcov q q BLi BRn W Ap1 (kopp R hdt) (Ds i) (Ds (S i)) (DW i) (DW (S i)) G0 G1 HAp1 HBLi HBRn U0 U1).
      f_equal. apply (kexp_flow_inv R d kexp Hk p'' q BLi BRn W Ap hdt _ _ HAp). }
    assert (HA1' : wsite d (Ds i) (Ds (S i)) A1').
    { rewrite EA1'. apply wsite_scale. apply (wsite_gsite R d (Ds i) (Ds (S i))); [exact HAp|apply (unitary_nc _ _ U0)|apply (unitary_nc _ _ U1)]. }
    destruct (qr_left_good R d (Ds i) (Ds (S i)) A1' Q' C' qb' Hd HA1' Hq') as (HAq' & HisoAq' & HinvC' & EQ').
    set (Aq' := site_unflat (length A1') (sdl A1') Q') in *.
    (* the known factorisation *)
    set (B0 := lmul_site (adjmx G0) P). set (T0 := scalemx c (mulmx C1 G1)).
    assert (EX0 : A1' = rmul_site B0 T0).
    { rewrite EA1'. unfold Ap, B0, T0. apply (alg_S4 R d (Ds i) (Ds (S i))); try assumption; apply unitary_wmx; assumption. }
    assert (EB0 : B0 = gsite G0 (idmx (Ds (S i))) P) by (apply (lmul_adj_gsite R d (Ds i) (Ds (S i))); [exact HP|apply unitary_wmx; exact U0]).
    assert (HB0 : wsite d (Ds i) (Ds (S i)) B0).
    { rewrite EB0. apply (wsite_gsite R d (Ds i) (Ds (S i))); [exact HP|apply (unitary_nc _ _ U0)|reflexivity]. }
    assert (HisoB0 : left_iso B0).
    { rewrite EB0. apply (left_iso_gsite R d (Ds i) (Ds (S i))); try assumption. apply unitary_idmx. }
    assert (HinvT0 : invertible (Ds (S i)) T0).
    { unfold T0. apply (invertible_scale R _ c ci); [exact Hc|]. apply invertible_mul; [exact HinvC1|]. apply invertible_unitary. exact U1. }
    destruct (uniq_left R d (Ds i) (Ds (S i)) C' T0 Aq' B0 Hd HAq' HB0 HisoAq' HisoB0 HinvC' HinvT0 ltac:(rewrite <- EQ'; exact EX0))
      as (U & UU & EAq' & EC').
    assert (EAq'' : Aq' = gsite G0 U P) by (rewrite EAq'; apply alg_S5).
    assert (EC'' : C' = scalemx c (gmx U G1 C1)).
    { rewrite EC'. unfold T0. apply (mul_scale_gmx_r R (Ds (S i))); try assumption; apply unitary_wmx; assumption. }
    (* the new left block *)
    set (BLn' := contraction_operator_step_left Aq' Aq' W (genvL G0 BLi)) in *.
    assert (EBLn' : BLn' = genvL U BLm).
    { unfold BLn'. rewrite EAq''.
      rewrite (opstep_left_gauge R d (Ds i) (Ds (S i)) (DW i) (DW (S i)) P W BLi G0 U Hd (HDW _) HP (HW i ltac:(lia)) HBLi U0 (unitary_wmx _ _ UU)).
      f_equal. unfold BLm. symmetry. apply HrL. lia. }
    (* the bond matrix evolves back *)
    rewrite EC'', EBLn' in *.
    set (C1' := kexp0 q' (genvL U BLm) (genvR G1 BRn) (scalemx c (gmx U G1 C1)) (kopp R (kopp R hdt))) in *.
    assert (EC1' : C1' = scalemx c (gmx U G1 Ct)).
    { unfold C1'. destruct Hk0 as (_ & _ & _ & Hhom0).
      rewrite (Hhom0 q' q' _ _ (gmx U G1 C1) _ c (Ds (S i)) (Ds (S i))) by (apply wmx_gmx; [apply (unitary_nc _ _ UU)|apply (unitary_nc _ _ U1)]).
      f_equal.
      rewrite (Hcov0 q' q' BLm BRn C1 (kopp R (kopp R hdt)) (Ds (S i)) (Ds (S i)) (DW (S i)) U G1 HC1w HBLm HBRn UU U1).
      f_equal. unfold C1. apply (kexp0_flow_inv R kexp0 Hk0 p' q' BLm BRn Ct (kopp R hdt) _ _ HCtw). }
    assert (EAn' : lmul_site C1' (gsite G1 G2 Aq) = scale_site c (gsite U G2 (gA X (S i)))).
    { rewrite EC1', EXm. apply (alg_S6 R d (Ds (S i)) (Ds (S (S i)))); try assumption; apply unitary_wmx; assumption. }
    rewrite EAn' in EA'.
    exists (fun j => if Nat.eqb j (S i) then U else g j).
    split; [exact g0|]. split; [replace (Nat.eqb L (S i)) with false by neq; exact gL|].
    split; [intros j Hj; destruct (Nat.eqb_spec j (S i)) as [->|N]; [exact UU|apply gU; exact Hj]|].
    split; [lia|]. split; [lia|]. split; [lia|].
    split; [|split].
    - intros j Hj. rewrite EA'. destruct (Nat.eqb_spec j i) as [->|N1]; [|destruct (Nat.eqb_spec j (S i)) as [->|N2]]; eqb_simp.
      + fold G0. fold P. exact EAq''.
      + fold G2. reflexivity.
      + rewrite (RA j Hj), EA. eqb_simp. reflexivity.
    - intros j Hj. rewrite EBL'. destruct (Nat.eqb_spec j (S i)) as [->|N1]; eqb_simp; [reflexivity|].
      rewrite (RBL j ltac:(lia)), EBL. reflexivity.
    - intros j Hj. rewrite EBR', (RBR j ltac:(lia)), EBR. eqb_simp. reflexivity.
  Qed.
End Pair.

Arguments Rel {R} Hs Ds c i X b.
