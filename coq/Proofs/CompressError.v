(* C13 — the exact truncation error: from <psi'|psi'> = 1, <psi|psi> = nrm^2 and <psi'|psi> = nrm*scale (real)
   follows  || nrm*scale*psi' - psi ||^2 = nrm^2 (1 - scale^2)  (sum over all words of |difference of amplitudes|^2). *)
From Coq Require Import ZArith List Bool Lia Arith Ring Field.
From PT Require Import Base.Scalar Base.Field Base.BigSum Base.Mx Model.Tensor Model.BondOps Model.Orthonormalize.
From PT Require Import Proofs.OrthDefs Proofs.OrthSweep Proofs.OrthTop Proofs.CompressPartial Proofs.CompressTop.
Import ListNotations.

Section CError.
  Variable F : ofield.
  Add Field Ffield_cerr : (f_ft F).
  Notation CF := (Cx F).
  Add Ring CFring_cerr : (k_rt CF).
  Notation site := (site CF).
  Infix "*!" := (kmul CF) (at level 40, left associativity).
  Infix "+!" := (kadd CF) (at level 50, left associativity).
  Notation cj := (kconj CF).
  Notation emb := (@cof F).

  Lemma cj_emb (x : F) : cj (emb x) = emb x.
  Proof. unfold cof. simpl. unfold cconj. cbn [fst snd]. f_equal. ring. Qed.

  Lemma emb_poly (x n2 : F) :
    emb x *! emb x *! k1 CF +! (kopp CF (emb x) *! emb x +! (kopp CF (emb x) *! emb x +! emb n2))
    = emb (fsub F n2 (fmul F x x)).
  Proof. unfold cof. simpl. unfold cadd, cmul, copp. cbn [fst snd]. apply injective_projections; cbn [fst snd]; ring. Qed.

  (* squared distance of two states given by their amplitudes *)
  Definition dist2 (d : nat) (al : CF) (Bs As : list site) : CF :=
    suml (words d (length As)) (fun w => cj (ksub CF (al *! amp Bs w) (amp As w)) *! ksub CF (al *! amp Bs w) (amp As w)).

  Theorem error_identity d (As Bs : list site) (nrm sc : F) :
    length Bs = length As ->
    norm2 d Bs = k1 CF -> norm2 d As = emb (fmul F nrm nrm) ->
    suml (words d (length As)) (fun w => cj (amp Bs w) *! amp As w) = emb (fmul F nrm sc) ->
    dist2 d (emb (fmul F nrm sc)) Bs As = emb (fmul F (fmul F nrm nrm) (fsub F (f1 F) (fmul F sc sc))).
  Proof.
    intros Hl Hb Ha Hov. unfold dist2. set (al := emb (fmul F nrm sc)) in *. set (L := words d (length As)) in *.
    assert (Hcal : cj al = al) by apply cj_emb.
    transitivity (suml L (fun w => (al *! al) *! (cj (amp Bs w) *! amp Bs w) +!
                                  (kopp CF al *! (cj (amp Bs w) *! amp As w) +!
                                   (kopp CF al *! (cj (amp As w) *! amp Bs w) +! cj (amp As w) *! amp As w)))).
    { apply suml_ext. intros w _. rewrite kconj_sub, kconj_mul, Hcal. ring. }
    rewrite !suml_add, !suml_scal_l.
    assert (H1 : suml L (fun w => cj (amp Bs w) *! amp Bs w) = k1 CF) by (unfold norm2 in Hb; rewrite Hl in Hb; exact Hb).
    assert (H2 : suml L (fun w => cj (amp As w) *! amp Bs w) = al).
    { rewrite <- Hcal at 1. rewrite <- Hov. rewrite suml_conj. apply suml_ext. intros w _.
      rewrite kconj_mul, kconj_inv. ring. }
    rewrite H1, Hov, H2. unfold norm2 in Ha. fold L in Ha. rewrite Ha. unfold al.
    rewrite emb_poly. f_equal. ring.
  Qed.

  (* scale bounds and error bound from the product formula *)
  Lemma scale_and_error d (As Bs : list site) (nrm sc tol : F) (eps : list F) :
    length Bs = length As ->
    norm2 d Bs = k1 CF -> norm2 d As = emb (fmul F nrm nrm) ->
    suml (words d (length As)) (fun w => cj (amp Bs w) *! amp As w) = emb (fmul F nrm sc) ->
    flt F tol (f1 F) ->
    (forall e, In e eps -> fle F (f0 F) e /\ fle F e tol) ->
    fmul F sc sc = fprod (map (fun e => fsub F (f1 F) e) eps) ->
    fle F (fsub F (f1 F) (nsmul (length eps) tol)) (fmul F sc sc) /\ fle F (fmul F sc sc) (f1 F) /\
    dist2 d (emb (fmul F nrm sc)) Bs As = emb (fmul F (fmul F nrm nrm) (fsub F (f1 F) (fmul F sc sc))) /\
    fle F (fmul F (fmul F nrm nrm) (fsub F (f1 F) (fmul F sc sc))) (fmul F (fmul F nrm nrm) (nsmul (length eps) tol)).
  Proof.
    intros Hl Hb Ha Hov Ht1 Heps Hsq.
    destruct (scale_bounds F eps tol Heps (flt_le F _ _ Ht1)) as (B1 & B2 & B3). rewrite <- Hsq in B1, B2, B3.
    split; [exact B1|]. split; [exact B2|]. split; [apply error_identity; assumption|].
    replace (fmul F (fmul F nrm nrm) (fsub F (f1 F) (fmul F sc sc))) with (fmul F (fsub F (f1 F) (fmul F sc sc)) (fmul F nrm nrm)) by ring.
    replace (fmul F (fmul F nrm nrm) (nsmul (length eps) tol)) with (fmul F (nsmul (length eps) tol) (fmul F nrm nrm)) by ring.
    apply fle_mul_nonneg_compat; [apply fsq_nonneg|].
    apply (proj2 (fle_sub_nonneg F _ _)).
    replace (fsub F (nsmul (length eps) tol) (fsub F (f1 F) (fmul F sc sc)))
      with (fsub F (fmul F sc sc) (fsub F (f1 F) (nsmul (length eps) tol))) by ring.
    apply (proj1 (fle_sub_nonneg F _ _)). exact B1.
  Qed.

  Variable dqr : mx CF -> mx CF * mx CF.
  Variable dsvd : mx CF -> mx CF * list F * mx CF.
  Variable pick : list F -> list nat.
  Variable cabs : CF -> F.

  (* MPS.compress(tol, 'left'): 1 - L tol <= scale^2 <= 1,  || nrm scale psi' - psi ||^2 = nrm^2 (1 - scale^2) <= nrm^2 L tol *)
  Theorem compress_left_error (p : mps CF) (d : nat) (tol : F) :
    1 <= d -> length (m_qd p) = d -> m_A p <> [] -> mps_ok p = true ->
    length (hd [] (m_qD p)) = 1 -> length (last (m_qD p) []) = 1 ->
    Forall (fun q => 1 <= length q) (m_qD p) ->
    fle F (f0 F) tol -> flt F tol (f1 F) ->
    Forall (qr_call_ok F dqr) (mps_orth_calls dqr false p) ->
    (forall p1 n1, mps_orthonormalize dqr false p = Some (p1, n1) -> compress_ok dsvd pick tol true p1) ->
    (forall t, compress_T dqr dsvd pick tol true p = Some t -> abs_ok cabs t) ->
    exists p' nrm sc,
      mps_compress dqr dsvd pick cabs tol true p = Some (p', nrm, sc) /\
      fle F (fsub F (f1 F) (nsmul (length (m_A p)) tol)) (fmul F sc sc) /\ fle F (fmul F sc sc) (f1 F) /\
      dist2 d (emb (fmul F nrm sc)) (m_A p') (m_A p) = emb (fmul F (fmul F nrm nrm) (fsub F (f1 F) (fmul F sc sc))) /\
      fle F (fmul F (fmul F nrm nrm) (fsub F (f1 F) (fmul F sc sc))) (fmul F (fmul F nrm nrm) (nsmul (length (m_A p)) tol)).
  Proof.
    intros Hd Lqd Hne Hok Hf Hl Hpos Ht0 Ht1 Hq Hs Ha.
    destruct (compress_left_spec F dqr dsvd pick cabs p d tol Hd Lqd Hne Hok Hf Hl Hpos Ht0 Ht1 Hq Hs Ha)
      as (p1 & p' & nrm & sc & _ & E & _ & Hlen & _ & _ & _ & _ & _ & _ & _ & Hn1 & _ & Hn2 & _ & Hle & Heps & Hsq & _ & Hov).
    exists p', nrm, sc. split; [exact E|]. rewrite <- Hle.
    apply (scale_and_error d (m_A p) (m_A p') nrm sc tol (compress_eps dsvd pick tol true p1)); assumption.
  Qed.
End CError.

Arguments dist2 {F} d al Bs As.
