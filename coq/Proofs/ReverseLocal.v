(* C09 — gauge covariance of the two local problems (over any cring):
     apply_local_hamiltonian (G_l^T L conj G_l) (G_r^H R G_r) W (G_l^H A G_r) = G_l^H (apply_local_hamiltonian L R W A) G_r
     apply_local_bond_contraction likewise,
   for unitary G_l, G_r.  Hence every solver that is a function of the local linear map commuting with unitary
   conjugation (the exact exponential, Krylov approximations in exact arithmetic) meets contract (b). *)
From Coq Require Import ZArith Arith List Lia Ring Setoid Bool.
From PT Require Import Base.Scalar Base.BigSum Base.Mx Model.Tensor Model.Operation Model.Sweeps
  Proofs.OperationEntries Proofs.ReverseDefs Proofs.ReverseMx Proofs.ReverseGauge.
Import ListNotations.

Section LocalGauge.
  Variable R : cring.
  Add Ring Rring_reverse_local : (k_rt R).
  Infix "*" := (kmul R).
  Notation site := (site R).
  Notation osite := (osite R).
  Notation env := (env R).
  Notation mx := (mx R).

  Lemma trmx_conjmx (A : mx) : trmx (conjmx A) = adjmx A.
  Proof.
    apply mx_ext; try apply wf_trmx; try apply wf_adjmx; auto. rewrite nr_trmx, nc_trmx, nr_conjmx, nc_conjmx.
    intros i j Hi Hj. rewrite get_trmx, get_conjmx, get_adjmx by (rewrite ?nr_conjmx, ?nc_conjmx; assumption). reflexivity.
  Qed.

  Lemma mform_local_hamiltonian d Dal Dar Dbl Dbr Dwl Dwr (L E : env) W (X : site) s b c :
    0 < d -> 0 < Dwl -> 0 < Dwr -> site_ok d Dal Dar X -> osite_ok d Dwl Dwr W ->
    env_ok Dwl Dal Dbl L -> env_ok Dwr Dar Dbr E -> s < d -> b < Dbl -> c < Dbr ->
    get (sel (apply_local_hamiltonian L E W X) s) b c =
    sumn d (fun t => sumn Dwl (fun wl => sumn Dwr (fun wr => get (osel W s t) wl wr *
      get (mulmx (trmx (esel L wl)) (mulmx (sel X t) (esel E wr))) b c))).
  Proof.
    intros Hd Hwl Hwr HX HW HL HE Hs Hb Hc.
    rewrite (get_local_hamiltonian R d Dal Dar Dbl Dbr Dwl Dwr) by assumption.
    transitivity (sumn Dal (fun a => sumn Dwl (fun wl => sumn d (fun t => sumn Dwr (fun wr =>
       get (osel W s t) wl wr * (get (esel L wl) a b * sumn Dar (fun c' => get (sel X t) a c' * get (esel E wr) c' c))))))).
    { apply sumn_ext; intros a _. apply sumn_ext; intros wl _. rewrite <- sumn_scal_r. apply sumn_ext; intros t _.
      rewrite <- sumn_scal_r. apply sumn_ext; intros wr _. ring. }
    transitivity (sumn Dwl (fun wl => sumn d (fun t => sumn Dwr (fun wr => sumn Dal (fun a =>
       get (osel W s t) wl wr * (get (esel L wl) a b * sumn Dar (fun c' => get (sel X t) a c' * get (esel E wr) c' c))))))).
    { rewrite sumn_exch. apply sumn_ext; intros wl _. rewrite sumn_exch. apply sumn_ext; intros t _. apply sumn_exch. }
    rewrite sumn_exch. apply sumn_ext; intros t Ht. apply sumn_ext; intros wl Hwl'. apply sumn_ext; intros wr Hwr'.
    destruct HX as [_ HX]. destruct (HX t Ht) as [x1 x2]. destruct HL as [_ HL]. destruct (HL wl Hwl') as [l1 l2].
    destruct HE as [_ HE]. destruct (HE wr Hwr') as [e1 e2].
    rewrite sumn_scal_l. f_equal. rewrite get_mulmx by shp. rewrite nc_trmx, l1.
    apply sumn_ext; intros a Ha. rewrite get_trmx by lia. f_equal. rewrite get_mulmx by shp. rewrite x2. reflexivity.
  Qed.

  Lemma mform_local_bond Dal Dar Dbl Dbr Dw (L E : env) (C : mx) b c :
    0 < Dw -> env_ok Dw Dal Dbl L -> env_ok Dw Dar Dbr E -> nr C = Dal -> nc C = Dar -> b < Dbl -> c < Dbr ->
    get (apply_local_bond_contraction L E C) b c =
    sumn Dw (fun w => get (mulmx (trmx (esel L w)) (mulmx C (esel E w))) b c).
  Proof.
    intros Hw HL HE HrC HcC Hb Hc. rewrite (get_local_bond R Dal Dar Dbl Dbr Dw) by assumption.
    rewrite sumn_exch. apply sumn_ext; intros w Hw'.
    destruct HL as [_ HL]. destruct (HL w Hw') as [l1 l2]. destruct HE as [_ HE]. destruct (HE w Hw') as [e1 e2].
    rewrite get_mulmx by shp. rewrite nc_trmx, l1. apply sumn_ext; intros a Ha. rewrite get_trmx by lia. f_equal.
    rewrite get_mulmx by shp. rewrite HcC. reflexivity.
  Qed.

  Lemma triple_local Dl Dr (Gl Gr Lw X E : mx) :
    unitary Dl Gl -> unitary Dr Gr -> wmx Dl Dl Lw -> wmx Dl Dr X -> wmx Dr Dr E ->
    mulmx (trmx (mulmx (mulmx (trmx Gl) Lw) (conjmx Gl))) (mulmx (gmx Gl Gr X) (mulmx (mulmx (adjmx Gr) E) Gr)) =
    mulmx (mulmx (adjmx Gl) (mulmx (trmx Lw) (mulmx X E))) Gr.
  Proof.
    intros ((l0 & l1 & l2) & _ & HUl) ((r0 & r1 & r2) & _ & HUr) (w0 & w1 & w2) (x0 & x1 & x2) (e0 & e1 & e2).
    unfold gmx.
    rewrite (trmx_mulmx R (mulmx (trmx Gl) Lw) (conjmx Gl)) by shp. rewrite (trmx_mulmx R (trmx Gl) Lw) by shp.
    rewrite trmx_conjmx, trmx_trmx by exact l0.
    repeat rewrite mulmx_assoc by shp.
    rewrite (mulmx_cancel R Gl (adjmx Gl) _ Dl HUl) by (shp; apply wf_mulmx).
    rewrite (mulmx_cancel R Gr (adjmx Gr) _ Dr HUr) by (shp; apply wf_mulmx).
    reflexivity.
  Qed.

  Theorem local_hamiltonian_gauge d Dl Dr Dwl Dwr (L E : env) (W : osite) (X : site) (Gl Gr : mx) :
    0 < d -> 0 < Dwl -> 0 < Dwr -> wsite d Dl Dr X -> osite_ok d Dwl Dwr W -> wenv Dwl Dl Dl L -> wenv Dwr Dr Dr E ->
    unitary Dl Gl -> unitary Dr Gr ->
    apply_local_hamiltonian (genvL Gl L) (genvR Gr E) W (gsite Gl Gr X) = gsite Gl Gr (apply_local_hamiltonian L E W X).
  Proof.
    intros Hd Hwl Hwr HX HW HL HE HUl HUr. pose proof HUl as ((l0 & l1 & l2) & _). pose proof HUr as ((r0 & r1 & r2) & _).
    assert (HX' : wsite d Dl Dr (gsite Gl Gr X)) by (apply (wsite_gsite R d Dl Dr); assumption).
    assert (HL' : wenv Dwl Dl Dl (genvL Gl L)) by (apply (wenv_genvL R Dwl Dl); assumption).
    assert (HE' : wenv Dwr Dr Dr (genvR Gr E)) by (apply (wenv_genvR R Dwr Dr); assumption).
    destruct (osite_ok_odl R _ _ _ _ Hd HW) as (W1 & W2 & W3).
    assert (Hout : forall (L0 E0 : env) (X0 : site), wenv Dwl Dl Dl L0 -> wenv Dwr Dr Dr E0 -> wsite d Dl Dr (apply_local_hamiltonian L0 E0 W X0)).
    { intros L0 E0 X0 HL0 HE0. unfold apply_local_hamiltonian. cbv zeta. rewrite W3.
      destruct (env_ok_edl R _ _ _ _ Hwl (wenv_ok R _ _ _ _ HL0)) as (_ & G2 & _). destruct (env_ok_edl R _ _ _ _ Hwr (wenv_ok R _ _ _ _ HE0)) as (_ & G5 & _).
      rewrite G2, G5. apply wsite_tabl. intros s _. split; [apply wf_tab|split; reflexivity]. }
    pose proof (Hout L E X HL HE) as HY.
    apply (wsite_ext R d Dl Dr); [apply Hout; assumption|apply (wsite_gsite R d Dl Dr); assumption|].
    intros s b c Hs Hb Hc.
    rewrite (mform_local_hamiltonian d Dl Dr Dl Dr Dwl Dwr) by (try assumption; try apply wsite_ok; try apply wenv_ok; assumption).
    rewrite (sel_gsite R d Dl Dr) by assumption. unfold gmx.
    destruct (wsite_sel R _ _ _ _ s HY Hs) as (y0 & y1 & y2).
    rewrite get_sandwich by shp. rewrite y1, y2.
    rewrite (sand_ext R Dl Dr _ _ _ (fun k l => sumn d (fun t => sumn Dwl (fun wl => sumn Dwr (fun wr => get (osel W s t) wl wr *
               get (mulmx (trmx (esel L wl)) (mulmx (sel X t) (esel E wr))) k l))))).
    2: { intros k l Hk Hl. apply (mform_local_hamiltonian d Dl Dr Dl Dr Dwl Dwr); try assumption; try apply wsite_ok; try apply wenv_ok; assumption. }
    rewrite sand_sum. apply sumn_ext; intros t Ht. rewrite sand_sum. apply sumn_ext; intros wl Hwl'.
    rewrite sand_sum. apply sumn_ext; intros wr Hwr'. rewrite sand_scal. f_equal.
    rewrite (sel_gsite R d Dl Dr) by assumption. unfold genvL, genvR.
    rewrite !(esel_map R) by (rewrite ?(proj1 HL), ?(proj1 HE); assumption).
    rewrite (triple_local Dl Dr) by (try assumption; try (apply (wsite_sel R d); assumption); try (apply (wenv_esel R Dwl); assumption); apply (wenv_esel R Dwr); assumption).
    destruct (wsite_sel R _ _ _ _ t HX Ht) as (t0 & t1 & t2). destruct (wenv_esel R _ _ _ _ wl HL Hwl') as (a0 & a1 & a2).
    destruct (wenv_esel R _ _ _ _ wr HE Hwr') as (e0 & e1 & e2).
    rewrite get_sandwich by shp. autorewrite with mxshape. rewrite a2, e2. reflexivity.
  Qed.

  Theorem local_bond_gauge Dl Dr Dw (L E : env) (C : mx) (Gl Gr : mx) :
    0 < Dw -> wmx Dl Dr C -> wenv Dw Dl Dl L -> wenv Dw Dr Dr E -> unitary Dl Gl -> unitary Dr Gr ->
    apply_local_bond_contraction (genvL Gl L) (genvR Gr E) (gmx Gl Gr C) = gmx Gl Gr (apply_local_bond_contraction L E C).
  Proof.
    intros Hw (c0 & c1 & c2) HL HE HUl HUr. pose proof HUl as ((l0 & l1 & l2) & _). pose proof HUr as ((r0 & r1 & r2) & _).
    assert (HL' : wenv Dw Dl Dl (genvL Gl L)) by (apply (wenv_genvL R Dw Dl); assumption).
    assert (HE' : wenv Dw Dr Dr (genvR Gr E)) by (apply (wenv_genvR R Dw Dr); assumption).
    assert (Hout : forall (L0 E0 : env) (C0 : mx), wenv Dw Dl Dl L0 -> wenv Dw Dr Dr E0 -> wmx Dl Dr (apply_local_bond_contraction L0 E0 C0)).
    { intros L0 E0 C0 HL0 HE0. unfold apply_local_bond_contraction.
      destruct (env_ok_edl R _ _ _ _ Hw (wenv_ok R _ _ _ _ HL0)) as (_ & G2 & _). destruct (env_ok_edl R _ _ _ _ Hw (wenv_ok R _ _ _ _ HE0)) as (_ & G5 & _).
      rewrite G2, G5. split; [apply wf_tab|split; reflexivity]. }
    destruct (Hout L E C HL HE) as (y0 & y1 & y2).
    destruct (Hout (genvL Gl L) (genvR Gr E) (gmx Gl Gr C) HL' HE') as (z0 & z1 & z2).
    apply mx_ext; [exact z0|apply wf_mulmx|rewrite z1; unfold gmx; shp|rewrite z2; unfold gmx; shp|]. rewrite z1, z2. intros b c Hb Hc.
    rewrite (mform_local_bond Dl Dr Dl Dr Dw) by (try assumption; try apply wenv_ok; try assumption; unfold gmx; shp).
    unfold gmx at 2. rewrite get_sandwich by shp. rewrite y1, y2.
    rewrite (sand_ext R Dl Dr _ _ _ (fun k l => sumn Dw (fun w => get (mulmx (trmx (esel L w)) (mulmx C (esel E w))) k l))).
    2: { intros k l Hk Hl. apply (mform_local_bond Dl Dr Dl Dr Dw); try assumption; apply wenv_ok; assumption. }
    rewrite sand_sum. apply sumn_ext; intros w Hw'. unfold genvL, genvR.
    rewrite !(esel_map R) by (rewrite ?(proj1 HL), ?(proj1 HE); assumption).
    rewrite (triple_local Dl Dr) by (try assumption; try (repeat split; assumption); try (apply (wenv_esel R Dw); assumption)).
    destruct (wenv_esel R _ _ _ _ w HL Hw') as (a0 & a1 & a2). destruct (wenv_esel R _ _ _ _ w HE Hw') as (e0 & e1 & e2).
    rewrite get_sandwich by shp. autorewrite with mxshape. rewrite a2, e2. reflexivity.
  Qed.

  (* the four covariance statements in one *)
  Theorem local_problem_gauge_covariant d Dl Dr Dwl Dwr (A : site) (W : osite) (Gl Gr : mx) :
    0 < d -> 0 < Dwl -> 0 < Dwr -> wsite d Dl Dr A -> osite_ok d Dwl Dwr W -> unitary Dl Gl -> unitary Dr Gr ->
    (forall L, wenv Dwl Dl Dl L ->
       contraction_operator_step_left (gsite Gl Gr A) (gsite Gl Gr A) W (genvL Gl L) =
       genvL Gr (contraction_operator_step_left A A W L)) /\
    (forall E, wenv Dwr Dr Dr E ->
       contraction_operator_step_right (gsite Gl Gr A) (gsite Gl Gr A) W (genvR Gr E) =
       genvR Gl (contraction_operator_step_right A A W E)) /\
    (forall L E, wenv Dwl Dl Dl L -> wenv Dwr Dr Dr E ->
       apply_local_hamiltonian (genvL Gl L) (genvR Gr E) W (gsite Gl Gr A) = gsite Gl Gr (apply_local_hamiltonian L E W A)) /\
    (forall L E C, wenv Dwl Dl Dl L -> wenv Dwl Dr Dr E -> wmx Dl Dr C ->
       apply_local_bond_contraction (genvL Gl L) (genvR Gr E) (gmx Gl Gr C) = gmx Gl Gr (apply_local_bond_contraction L E C)).
  Proof.
    intros Hd Hwl Hwr HA HW HUl HUr. split; [|split; [|split]].
    - intros L HL. apply (opstep_left_gauge R d Dl Dr Dwl Dwr); try assumption. exact (proj1 HUr).
    - intros E HE. apply (opstep_right_gauge R d Dl Dr Dwl Dwr); try assumption. exact (proj1 HUl).
    - intros L E HL HE. apply (local_hamiltonian_gauge d Dl Dr Dwl Dwr); assumption.
    - intros L E C HL HE HC. apply (local_bond_gauge Dl Dr Dwl); assumption.
  Qed.
End LocalGauge.
