(* A concrete rational instance for the two-site whole-run theorems of Properties/C08.v and C10.v:
   L = 3, d = 2, bond dimensions 1-2-2-1, H = Z(x)I(x)Z + Z(x)X(x)I + X(x)Z(x)I (MPO bond dimension 2), a right-orthonormal
   rational state (3-4-5 entries), the trivial local solvers of Proofs/SweepsCheck.v and an exact rational split oracle:
     'right' distribution at the left boundary (Dl = 1):  A0[s] = e_s (left-isometric), A1[t][s,:] = Am[s*d+t][0,:];
     'left' distribution at the right boundary (Dr = 1):  A1[t] = e_t (right-isometric), A0[s][:,t] = Am[s*d+t][:,0];
     'left' distribution at the pair (0,1):               (ex3A0, ex3B) with ex3B = A1 . N right-isometric, N the unitary
                                                          formed by the columns of the last tensor.
   With identity solvers the state never changes (only its gauge), so these answers are exact for every step / sweep. *)
From Coq Require Import ZArith QArith Qcanon List Bool.
From PT Require Import Base.Scalar Base.Field Base.BigSum Base.Mx Model.Tensor Model.Operation Model.Sweeps
  Proofs.SweepsCheck Proofs.SweepsExample Proofs.Sweeps2Check.
Import ListNotations.

Open Scope Z_scope.
Definition exm22 (a b c dd : Z) (dn : positive) : mx CQ := exm 2 2 [[exq a dn; exq b dn]; [exq c dn; exq dd dn]].
(* middle tensor: the rows of [A[0] | A[1]] are orthonormal *)
Definition ex3A1 : site CQ := [exm22 3 0 0 4 5; exm22 0 4 (-3) 0 5].
Definition ex3N : mx CQ := exm22 3 4 (-4) 3 5.
Definition ex3B : site CQ := rmul_site ex3A1 ex3N.
(* middle MPO tensor [[I, X], [0, Z]] *)
Definition ex3Wm : osite CQ := [[exm22 1 0 0 1 1; exm22 0 1 0 0 1]; [exm22 0 1 0 0 1; exm22 1 0 0 (-1) 1]].
Definition ex3H : mpo CQ := mkmpo [0; 0] [[0]; [0; 0]; [0; 0]; [0]] [exW0; ex3Wm; exW1].
Definition ex3Psi : mps CQ := mkmps [0; 0] [[0]; [0; 0]; [0; 0]; [0]] [exA0; ex3A1; exA1].
Close Scope Z_scope.

Definition exdlt (a b : nat) : CQ := if Nat.eqb a b then k1 CQ else k0 CQ.
Definition triv_left (Am : site CQ) : site CQ * site CQ :=
  (tabl 2 (fun s => tab 1 2 (fun _ j => exdlt s j)), tabl 2 (fun t => tab 2 (sdr Am) (fun s e => get (sel Am (s * 2 + t)) 0 e))).
Definition triv_right (Am : site CQ) : site CQ * site CQ :=
  (tabl 2 (fun s => tab (sdl Am) 2 (fun a t => get (sel Am (s * 2 + t)) a 0)), tabl 2 (fun t => tab 2 1 (fun j _ => exdlt t j))).
Definition ex3_split (_ : nat) (Am : site CQ) (_ _ _ _ : list Z) (left : bool) : site CQ * site CQ * list Z :=
  if left then (if Nat.eqb (sdr Am) 1 then (triv_right Am, [0; 0]%Z) else ((exA0, ex3B), [0; 0]%Z))
  else (triv_left Am, [0; 0]%Z).
