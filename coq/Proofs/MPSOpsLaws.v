(* C03 — the homomorphism laws on the arrays the user sees: as_vector / as_matrix of a result is the same
   expression evaluated on the operands' dense vectors and matrices. *)
From Coq Require Import ZArith List Lia Bool Arith Ring.
From PT Require Import Base.Scalar Base.BigSum Base.Mx Model.Tensor Model.MPSOps.
From PT Require Import Proofs.MPSOpsBase Proofs.MPSOpsAdd Proofs.MPSOpsMul Proofs.MPSOpsDense Proofs.MPSOpsTop Proofs.MPSOpsShape.
Import ListNotations.

Lemma zipw_map_map {A B C D} (f : B -> C -> D) (g : A -> B) (h : A -> C) l :
  zipw f (map g l) (map h l) = map (fun x => f (g x) (h x)) l.
Proof. induction l as [|x l IH]; simpl; [reflexivity|]. rewrite IH. reflexivity. Qed.

Section Laws.
  Variable R : cring.
  Add Ring Rring_c03laws : (k_rt R).
  Notation "0" := (k0 R). Notation "1" := (k1 R).
  Infix "+" := (kadd R). Infix "*" := (kmul R).
  Notation mx := (mx R).
  Notation mps := (mps R). Notation mpo := (mpo R).

  Lemma suml_nth {A} (dflt : A) (l : list A) (f : A -> R) : suml l f = sumn (length l) (fun k => f (nth k l dflt)).
  Proof. rewrite (list_as_tab dflt l) at 1. rewrite suml_map, suml_seq. reflexivity. Qed.

  Lemma wf_opamp_table d (Ws : list (osite R)) : wf (opamp_table d Ws).
  Proof.
    apply wfb_wf. unfold wfb, opamp_table; cbn [dat nr nc]. rewrite map_length, Nat.eqb_refl. simpl.
    apply forallb_forall. intros r Hr. apply in_map_iff in Hr. destruct Hr as (w & <- & _).
    rewrite map_length. apply Nat.eqb_refl.
  Qed.

  (* dense matrix times dense vector *)
  Definition matvec (M : mx) (v : list R) : list R :=
    map (fun i => sumn (nc M) (fun j => get M i j * nth j v 0)) (seq 0 (nr M)).

  (* ---------- MPS sum / difference ---------- *)
  Theorem add_mps_dense (alpha : R) (p q : mps) :
    mps_wf p = true -> mps_wf q = true -> length (m_qd p) = length (m_qd q) -> length (m_A p) = length (m_A q) ->
    exists vp vq, as_vector (m_A p) = Some vp /\ as_vector (m_A q) = Some vq /\
      as_vector (m_A (add_mps alpha p q)) = Some (zipw (fun x y => x + alpha * y) vp vq).
  Proof.
    intros Hp Hq Hd HL.
    exists (map (amp (m_A p)) (words (length (m_qd p)) (length (m_A p)))).
    exists (map (amp (m_A q)) (words (length (m_qd p)) (length (m_A p)))).
    split; [apply as_vector_words; exact Hp|]. split; [rewrite Hd, HL; apply as_vector_words; exact Hq|].
    rewrite (as_vector_words R _ (add_mps_wf R alpha p q Hp Hq Hd HL)).
    rewrite zipw_map_map. f_equal. unfold add_mps. cbn [m_qd m_A].
    rewrite length_add_chain by exact HL.
    apply map_ext_in. intros w Hw. apply words_ok in Hw. apply word_ok_wordb in Hw.
    apply add_mps_amp; assumption.
  Qed.

  (* ---------- MPO sum / difference ---------- *)
  Theorem add_mpo_dense (alpha : R) (a b : mpo) :
    mpo_wf a = true -> mpo_wf b = true -> length (o_qd a) = length (o_qd b) -> length (o_A a) = length (o_A b) ->
    exists Ma Mb, as_matrix (o_A a) = Some Ma /\ as_matrix (o_A b) = Some Mb /\
      as_matrix (o_A (add_mpo alpha a b)) = Some (addmx Ma (scalemx alpha Mb)).
  Proof.
    intros Ha Hb Hd HL.
    exists (opamp_table (length (o_qd a)) (o_A a)). exists (opamp_table (length (o_qd a)) (o_A b)).
    split; [apply as_matrix_words; exact Ha|]. split; [rewrite Hd; apply as_matrix_words; exact Hb|].
    rewrite (as_matrix_words R _ (add_mpo_wf R alpha a b Ha Hb Hd HL)). f_equal.
    unfold add_mpo at 1 2. cbn [o_qd o_A].
    set (d := length (o_qd a)). set (W := words d (length (o_A a))).
    assert (EL : length (add_chain osite_zip alpha (o_A a) (o_A b)) = length (o_A a)) by (apply length_add_chain; exact HL).
    apply mx_ext; [apply wf_opamp_table | apply wf_addmx | | |].
    - unfold opamp_table; cbn [nr]. rewrite EL. reflexivity.
    - unfold opamp_table; cbn [nc]. rewrite EL. reflexivity.
    - intros i j Hi Hj. unfold opamp_table in Hi, Hj; cbn [nr nc] in Hi, Hj. rewrite EL in Hi, Hj. fold W in Hi, Hj.
      rewrite get_opamp_table by (rewrite EL; assumption). rewrite EL. fold W.
      rewrite get_addmx, get_scalemx by (unfold opamp_table; cbn [nr nc]; rewrite <- ?HL; assumption).
      rewrite !get_opamp_table by (rewrite <- ?HL; assumption). rewrite <- HL. fold W.
      assert (Hwi : wordb d (length (o_A a)) (nth i W []) = true).
      { apply word_ok_wordb, words_ok. apply nth_In. exact Hi. }
      assert (Hwj : wordb d (length (o_A a)) (nth j W []) = true).
      { apply word_ok_wordb, words_ok. apply nth_In. exact Hj. }
      apply (add_mpo_opamp R alpha a b _ _ Ha Hb Hd HL Hwi Hwj).
  Qed.

  (* ---------- composition = matrix product ---------- *)
  Theorem multiply_mpo_dense (a b : mpo) :
    mpo_wf a = true -> mpo_wf b = true -> length (o_qd a) = length (o_qd b) -> length (o_A a) = length (o_A b) ->
    exists Ma Mb, as_matrix (o_A a) = Some Ma /\ as_matrix (o_A b) = Some Mb /\
      as_matrix (o_A (multiply_mpo a b)) = Some (mulmx Ma Mb).
  Proof.
    intros Ha Hb Hd HL.
    exists (opamp_table (length (o_qd a)) (o_A a)). exists (opamp_table (length (o_qd a)) (o_A b)).
    split; [apply as_matrix_words; exact Ha|]. split; [rewrite Hd; apply as_matrix_words; exact Hb|].
    rewrite (as_matrix_words R _ (multiply_mpo_wf R a b Ha Hb Hd HL)). f_equal.
    unfold multiply_mpo at 1 2. cbn [o_qd o_A].
    set (d := length (o_qd a)). set (W := words d (length (o_A a))).
    assert (EL : length (zipw mul_osite (o_A a) (o_A b)) = length (o_A a)) by (apply zipw_length; exact HL).
    apply mx_ext; [apply wf_opamp_table | apply wf_mulmx | | |].
    - unfold opamp_table; cbn [nr]. rewrite nr_mulmx. cbn [nr]. rewrite EL. reflexivity.
    - unfold opamp_table; cbn [nc]. rewrite nc_mulmx. cbn [nc]. rewrite EL, HL. reflexivity.
    - intros i j Hi Hj. unfold opamp_table in Hi, Hj; cbn [nr nc] in Hi, Hj. rewrite EL in Hi, Hj. fold W in Hi, Hj.
      rewrite get_opamp_table by (rewrite EL; assumption). rewrite EL. fold W.
      rewrite get_mulmx by (unfold opamp_table; cbn [nr nc]; rewrite <- ?HL; assumption).
      assert (Hwi : wordb d (length (o_A a)) (nth i W []) = true).
      { apply word_ok_wordb, words_ok. apply nth_In. exact Hi. }
      assert (Hwj : wordb d (length (o_A a)) (nth j W []) = true).
      { apply word_ok_wordb, words_ok. apply nth_In. exact Hj. }
      pose proof (multiply_mpo_opamp R a b _ _ Ha Hb Hd HL Hwi Hwj) as E. unfold multiply_mpo in E; cbn [o_A] in E.
      fold d in E. fold W in E. rewrite E; clear E.
      rewrite (suml_nth []). unfold opamp_table at 1; cbn [nc]. fold W.
      apply sumn_ext. intros k Hk.
      rewrite !get_opamp_table by (rewrite <- ?HL; assumption). rewrite <- HL. reflexivity.
  Qed.

  (* ---------- application = matrix-vector product ---------- *)
  Theorem apply_operator_dense (o : mpo) (p : mps) :
    mpo_wf o = true -> mps_wf p = true -> length (o_qd o) = length (m_qd p) -> length (o_A o) = length (m_A p) ->
    exists M v, as_matrix (o_A o) = Some M /\ as_vector (m_A p) = Some v /\
      as_vector (m_A (apply_operator o p)) = Some (matvec M v).
  Proof.
    intros Ho Hp Hd HL.
    exists (opamp_table (length (o_qd o)) (o_A o)).
    exists (map (amp (m_A p)) (words (length (o_qd o)) (length (o_A o)))).
    split; [apply as_matrix_words; exact Ho|]. split; [rewrite Hd, HL; apply as_vector_words; exact Hp|].
    rewrite (as_vector_words R _ (apply_operator_wf R o p Ho Hp Hd HL)). f_equal.
    unfold apply_operator. cbn [m_qd m_A]. rewrite <- Hd.
    set (d := length (o_qd o)).
    assert (EL : length (zipw apply_site (o_A o) (m_A p)) = length (o_A o)) by (apply zipw_length; exact HL).
    rewrite EL. set (W := words d (length (o_A o))).
    unfold matvec. change (nr (opamp_table d (o_A o))) with (length W). change (nc (opamp_table d (o_A o))) with (length W).
    rewrite (list_as_tab [] W) at 1. rewrite map_map.
    apply map_ext_in. intros i Hi. apply in_seq in Hi.
    assert (Hwi : wordb d (length (o_A o)) (nth i W []) = true).
    { apply word_ok_wordb, words_ok. apply nth_In. fold W. lia. }
    pose proof (apply_operator_amp R o p _ Ho Hp Hd HL Hwi) as E. unfold apply_operator in E; cbn [m_A] in E.
    fold d in E. fold W in E. rewrite E; clear E.
    rewrite (suml_nth []).
    apply sumn_ext. intros k Hk.
    rewrite get_opamp_table by (fold W; lia). fold W.
    rewrite (nth_indep _ 0 (amp (m_A p) [])) by (rewrite map_length; exact Hk).
    rewrite (map_nth (amp (m_A p)) W [] k). reflexivity.
  Qed.
  Lemma results_wf (alpha : R) (p q : mps) (a b : mpo) :
    (mps_wf p = true -> mps_wf q = true -> length (m_qd p) = length (m_qd q) -> length (m_A p) = length (m_A q) ->
       mps_wf (add_mps alpha p q) = true) /\
    (mpo_wf a = true -> mpo_wf b = true -> length (o_qd a) = length (o_qd b) -> length (o_A a) = length (o_A b) ->
       mpo_wf (add_mpo alpha a b) = true /\ mpo_wf (multiply_mpo a b) = true) /\
    (mpo_wf a = true -> mps_wf p = true -> length (o_qd a) = length (m_qd p) -> length (o_A a) = length (m_A p) ->
       mps_wf (apply_operator a p) = true) /\
    (forall qd L, (0 < L)%nat -> mpo_wf (mpo_identity qd L alpha) = true).
  Proof.
    split; [apply add_mps_wf|]. split; [intros; split; [apply add_mpo_wf | apply multiply_mpo_wf]; assumption|].
    split; [apply apply_operator_wf | intros; apply mpo_identity_wf; assumption].
  Qed.
End Laws.

Arguments matvec {R} M v.
