(* C05 success, part 3: the sweep, the final step and the theorem
   "for well-formed chain lists and valid cover answers, from_opchains returns a graph". *)
From Coq Require Import ZArith List Lia Bool.
From PT Require Import Base.Scalar Base.BigSum Model.OpGraph Model.FromOpchains
                       Proofs.FromOpchainsGraph Proofs.FromOpchainsPart Proofs.FromOpchainsSem
                       Proofs.FromOpchainsOk1 Proofs.FromOpchainsOk2.
Import ListNotations.
Open Scope Z_scope.

Section Ok3.
  Variable R : cring.
  Notation "1r" := (k1 R).
  Notation graph := (graph R).
  Notation st := (st R).
  Notation chain := (chain R).

  Variables (idn qf : Z).

  (* shape of a half-chain with k sites to go: operators end with the dummy identity, charges with [qf; 0] *)
  Definition shape (k : nat) (h : hchain) : Prop :=
    exists ro rq, h_oids h = ro ++ [idn] /\ h_qnums h = rq ++ [qf; 0] /\ length ro = k /\ length rq = k.

  Definition OKI (s : st) (k : nat) : Prop :=
    ginv R (s_g s) (s_nid s) (s_eid s) /\ s_next s <> [] /\
    Forall (fun hc : hchain * R => h_nidl (fst hc) < s_nid s /\
              (exists n, find_node (s_g s) (h_nidl (fst hc)) = Some n /\ n_q n = hd 0 (h_qnums (fst hc))) /\
              shape k (fst hc)) (s_next s).
  (* what finish needs *)
  Definition FIN (s : st) : Prop :=
    exists h c, s_next s = [(h, c)] /\ exists n, find_node (s_g s) (h_nidl h) = Some n /\
      (c = 1r \/ exists x e, n_in n = [x] /\ find_edge (s_g s) x = Some e).

  Lemma shape_split_v k h : shape (S k) h -> shape k (split_v h).
  Proof.
    intros [ro [rq [E1 [E2 [L1 L2]]]]]. unfold split_v. cbn [h_oids h_qnums]. rewrite E1, E2.
    destruct ro as [|a ro]; [discriminate|]. destruct rq as [|b rq]; [discriminate|].
    exists ro, rq. simpl in *. repeat split; auto; lia.
  Qed.

  Lemma cover_okb_spec nu nv es cv : cover_okb nu nv es cv = true ->
    NoDup (fst cv) /\ NoDup (snd cv) /\ (forall i, In i (fst cv) -> (i < nu)%nat) /\ (forall j, In j (snd cv) -> (j < nv)%nat) /\
    (forall e, In e es -> In (fst e) (fst cv) \/ In (snd e) (snd cv)) /\
    (nv = 1%nat -> (length (fst cv) + length (snd cv) <= 1)%nat).
  Proof.
    unfold cover_okb. rewrite !andb_true_iff. intros [[[[[A B] C] D] E] F].
    split; [apply nodupn_NoDup; exact A|]. split; [apply nodupn_NoDup; exact B|].
    rewrite forallb_forall in C, D, E. split; [intros i Hi; apply Nat.ltb_lt, C, Hi|]. split; [intros j Hj; apply Nat.ltb_lt, D, Hj|].
    split.
    - intros e He. specialize (E e He). apply orb_true_iff in E. destruct E as [E|E]; [left|right]; apply nmem_In; exact E.
    - intros ->. simpl in F. apply Nat.leb_le. exact F.
  Qed.

  Lemma site_ok cover s k : OKI s (S k) ->
    (let '(nu, nv, es) := site_call s in cover_okb nu nv es (cover nu nv es)) = true ->
    exists s', site cover s = Ok s' /\ OKI s' k /\ (k = O -> FIN s').
  Proof.
    intros [Hg [Hne Hnx]] Hc. unfold site_call in Hc. unfold site.
    set (p := site_partition (s_next s)) in *.
    destruct (site_partition_regroup R (s_next s)) as [Hp [_ [HPU HPV]]]. fold p in Hp, HPU, HPV.
    destruct (site_partition_rel R (fun u v => u_q1 u = hd 0 (h_qnums v)) (s_next s)) as [HQ [_ Hes]].
    { intros hc _. reflexivity. }
    fold p in HQ, Hes. specialize (Hes Hne).
    assert (HU : Forall (fun u => u_nidl u < s_nid s /\ exists n, find_node (s_g s) (u_nidl u) = Some n /\ n_q n = u_q0 u) (p_u p)).
    { apply HPU. intros hc Hh. rewrite Forall_forall in Hnx. destruct (Hnx hc Hh) as [A [B _]]. split; [exact A|exact B]. }
    assert (HV : Forall (shape k) (p_v p)).
    { apply HPV. intros hc Hh. rewrite Forall_forall in Hnx. destruct (Hnx hc Hh) as [_ [_ C]]. apply shape_split_v. exact C. }
    assert (HVq : Forall (fun v => h_qnums v <> []) (p_v p)).
    { eapply Forall_impl; [|exact HV]. intros v [ro [rq [_ [E _]]]]. rewrite E. destruct rq; discriminate. }
    destruct (p_edges p) as [|e0 er] eqn:Ees; [contradiction|]. rewrite <- Ees in *.
    assert (He0 : In e0 (p_edges p)) by (rewrite Ees; left; reflexivity).
    destruct Hp as [Hr Hnd]. pose proof Hr as Hr'. rewrite Forall_forall in Hr'. destruct (Hr' e0 He0) as [R1 R2].
    assert (Z1 : Nat.eqb (length (p_u p)) 0 = false) by (apply Nat.eqb_neq; lia).
    assert (Z2 : Nat.eqb (length (p_v p)) 0 = false) by (apply Nat.eqb_neq; lia).
    rewrite Z1, Z2. cbn [orb].
    destruct (cover (length (p_u p)) (length (p_v p)) (p_edges p)) as [uc vc] eqn:Ecv.
    apply cover_okb_spec in Hc. cbn [fst snd] in Hc. destruct Hc as [C1 [C2 [C3 [C4 [C5 C6]]]]].
    assert (Hes' : p_edges p <> []) by (rewrite Ees; discriminate).
    destruct (site_step_ok R (s_g s) (s_nid s) (s_eid s) p uc vc Hg (conj Hr Hnd) HU HVq HQ C1 C3 C4 C5 Hes' s eq_refl eq_refl eq_refl)
      as [s' [Es [G' [N' [K' [X' [Len' Ne']]]]]]].
    exists s'. split; [exact Es|]. split.
    - split; [exact G'|]. split; [exact Ne'|]. rewrite Forall_forall in *. intros hc Hh.
      destruct (X' hc Hh) as [A [[n [Fn [Q _]]] [v [Hv [Eo Eq]]]]]. split; [lia|]. split; [exists n; auto|].
      destruct (HV v Hv) as [ro [rq [S1 [S2 S3]]]]. exists ro, rq. rewrite Eo, Eq. auto.
    - intros ->.
      (* the last site: a single V vertex, hence a single half-chain is left *)
      assert (Hnv : length (p_v p) = 1%nat).
      { assert (Hs : p_v p = [] \/ p_v p = [mkh [idn] [qf; 0] (-1)]).
        { unfold p, site_partition. apply fold_part_single; [left; reflexivity|].
          intros hc Hh. rewrite Forall_forall in Hnx. destruct (Hnx hc Hh) as [_ [_ [ro [rq [E1 [E2 [L1 L2]]]]]]].
          unfold split_v. rewrite E1, E2. destruct ro as [|a [|? ?]]; try discriminate. destruct rq as [|b [|? ?]]; try discriminate. reflexivity. }
        destruct Hs as [Hs|Hs]; rewrite Hs in *; simpl in *; lia. }
      specialize (Len' Hnv). specialize (C6 Hnv).
      destruct (s_next s') as [|[h c] [|? ?]] eqn:En; [contradiction| |simpl in Len'; lia].
      exists h, c. split; [exact En|]. inversion X' as [|? ? [_ [[n [Fn [_ D]]] _]] _]; subst. exists n. split; [exact Fn|exact D].
  Qed.

  Lemma sweep_ok cover : forall n s, OKI s n -> (n = O -> FIN s) -> calls_okb cover n s = true ->
    exists s', sweep cover n s = Ok s' /\ FIN s'.
  Proof.
    induction n as [|n IH]; intros s HO HF Hc.
    - exists s. split; [reflexivity|apply HF; reflexivity].
    - cbn [calls_okb] in Hc. destruct (site_call s) as [[nu nv] es] eqn:Esc. apply andb_true_iff in Hc. destruct Hc as [Hc1 Hc2].
      destruct (site_ok cover s n HO) as [s1 [E1 [O1 F1]]]; [rewrite Esc; exact Hc1|].
      rewrite E1 in Hc2. cbn [sweep]. rewrite E1. cbn [bind]. apply IH; assumption.
  Qed.

  Lemma finish_ok s : FIN s -> exists g, finish s = Ok g.
  Proof.
    intros [h [c [En [n [Fn D]]]]]. unfold finish. rewrite En.
    destruct (keqb R c 1r) eqn:Ec; cbn [bind]; [eexists; reflexivity|].
    destruct D as [D|[x [e [Hx He]]]]; [subst c; rewrite keqb_refl in Ec; discriminate|].
    unfold absorb. rewrite Fn, Hx, He. cbn [bind]. eexists; reflexivity.
  Qed.
End Ok3.

Section Ok4.
  Variable R : cring.
  Notation chain := (chain R).

  (* the cover answers on the site graphs actually built are valid *)
  Definition covers_ok (cover : cover_t) (chains : list chain) (L : nat) (idn : Z) : bool :=
    match pad_all L idn (filter (@nonzero R) chains) with
    | Ok cs => calls_okb cover L (mkst init_graph 1 0 (init_next idn cs) [])
    | Err _ => true
    end.

  Lemma padded_spec2 L idn (c c' : chain) : padded L idn c = Ok c' ->
    c_oids c' = padded_oids L idn c /\ c_qnums c' = padded_qnums L c.
  Proof.
    unfold padded, padded_oids, padded_qnums. destruct (Nat.ltb L (length (c_oids c) + c_istart c)); [discriminate|].
    intros H. inversion H; subst. cbn. auto.
  Qed.

  Lemma pad_all_ok L idn : forall l : list chain, forallb (wf_chain L) l = true ->
    exists l', pad_all L idn l = Ok l' /\
      Forall2 (fun c c' => c_oids c' = padded_oids L idn c /\ c_qnums c' = padded_qnums L c) l l'.
  Proof.
    induction l as [|c l IH]; intros H; simpl in *.
    - exists []. split; [reflexivity|constructor].
    - apply andb_true_iff in H. destruct H as [H1 H2]. destruct (IH H2) as [l' [E F]].
      destruct (padded L idn c) as [c'|er] eqn:Ec.
      + rewrite E. cbn [bind]. exists (c' :: l'). split; [reflexivity|]. constructor; [apply padded_spec2; exact Ec|exact F].
      + exfalso. unfold padded in Ec. unfold wf_chain in H1. rewrite !andb_true_iff in H1. destruct H1 as [[_ H1] _].
        apply Nat.leb_le in H1. destruct (Nat.ltb L (length (c_oids c) + c_istart c)) eqn:El; [apply Nat.ltb_lt in El; lia|discriminate].
  Qed.

  Lemma padded_len L idn (c : chain) : wf_chain L c = true ->
    length (padded_oids L idn c) = L /\ length (padded_qnums L c) = S L.
  Proof.
    unfold wf_chain, chain_ok, padded_oids, padded_qnums. rewrite !andb_true_iff. intros [[H1 H2] _].
    apply Nat.eqb_eq in H1. apply Nat.leb_le in H2. rewrite !app_length, !repeat_length. lia.
  Qed.

  (* the initial state of the sweep *)
  Lemma init_OKI (chains : list chain) L idn : wf_chains L chains = true ->
    forallb (@chain_ok R) chains = true /\ chains <> [] /\
    exists cs qf, pad_all L idn (filter (@nonzero R) chains) = Ok cs /\
                  OKI R idn qf (mkst init_graph 1 0 (init_next idn cs) []) L.
  Proof.
    intros Hwf. unfold wf_chains in Hwf. apply andb_true_iff in Hwf. destruct Hwf as [Hw1 Hw2].
    assert (Hck : forallb (@chain_ok R) chains = true).
    { apply forallb_forall. intros c Hc. rewrite forallb_forall in Hw1. specialize (Hw1 c Hc).
      unfold wf_chain in Hw1. rewrite !andb_true_iff in Hw1. tauto. }
    split; [exact Hck|].
    destruct (filter (@nonzero R) chains) as [|c0 ct] eqn:Ef; [discriminate|].
    split; [intros ->; discriminate|].
    assert (Hwf' : forallb (wf_chain L) (c0 :: ct) = true).
    { rewrite <- Ef. apply forallb_forall. intros c Hc. apply filter_In in Hc. rewrite forallb_forall in Hw1. apply Hw1. tauto. }
    destruct (pad_all_ok L idn (c0 :: ct) Hwf') as [cs [Ep F2]].
    set (qf := last (padded_qnums L c0) 0).
    exists cs, qf. split; [exact Ep|].
    assert (Hcs : Forall (fun c' : chain => length (c_oids c') = L /\ length (c_qnums c') = S L /\
                           hd 0 (c_qnums c') = 0 /\ last (c_qnums c') 0 = qf) cs).
    { assert (Hall : Forall (fun c => wf_chain L c = true /\ last (padded_qnums L c) 0 = qf) (c0 :: ct)).
      { rewrite forallb_forall in Hwf'. constructor.
        - split; [apply Hwf'; left; reflexivity|reflexivity].
        - apply Forall_forall. intros c Hc. split; [apply Hwf'; right; exact Hc|].
          rewrite forallb_forall in Hw2. apply Z.eqb_eq. apply Hw2. exact Hc. }
      clear - F2 Hall. induction F2 as [|c c' l l' [E1 E2] _ IH]; [constructor|].
      inversion Hall as [|? ? [W Q] Hall']; subst. constructor; [|apply IH; exact Hall'].
      destruct (padded_len L idn c W) as [A B]. rewrite E1, E2. repeat split; auto.
      unfold wf_chain in W. rewrite !andb_true_iff in W. destruct W as [_ W]. apply Z.eqb_eq. exact W. }
    unfold OKI. cbn [s_g s_nid s_eid s_next]. split; [|split].
    - split; [|constructor]. unfold init_graph. cbn [g_nodes].
      constructor; [cbn; split; [lia|split; constructor]|]. constructor; [cbn; split; [lia|split; constructor]|constructor].
    - destruct cs as [|c1 cr]; [inversion F2|]. discriminate.
    - unfold init_next. rewrite Forall_map. eapply Forall_impl; [|exact Hcs]. intros c [A [B [C D]]]. cbn [fst h_nidl h_oids h_qnums].
      split; [lia|]. split.
      + exists (mknode 0 [] [] 0). split; [reflexivity|]. cbn [n_q]. destruct (c_qnums c); [discriminate|]. simpl in *. congruence.
      + exists (c_oids c), (removelast (c_qnums c)). split; [reflexivity|]. split.
        * destruct (c_qnums c) as [|q0 qs] eqn:Eq; [discriminate|].
          assert (Hne : q0 :: qs <> []) by discriminate.
          rewrite (app_removelast_last 0 Hne) at 1. rewrite D. rewrite <- app_assoc. reflexivity.
        * split; [exact A|]. destruct (c_qnums c) as [|q0 qs] eqn:Eq; [discriminate|].
          assert (Hne : q0 :: qs <> []) by discriminate.
          pose proof (f_equal (@length Z) (app_removelast_last 0 Hne)) as X. rewrite app_length in X. change (length [last (q0 :: qs) 0]) with 1%nat in X. lia.
  Qed.

  Theorem from_opchains_ok cover (chains : list chain) L idn :
    wf_chains L chains = true -> covers_ok cover chains L idn = true ->
    (1 <= L)%nat ->
    exists g, from_opchains cover chains L idn = Ok g.
  Proof.
    intros Hwf Hcov HL. destruct (init_OKI chains L idn Hwf) as [Hck [Hne [cs [qf [Ep HO]]]]].
    unfold from_opchains. rewrite Hck. cbn [negb]. destruct chains as [|x xs] eqn:Ech; [contradiction|]. rewrite <- Ech in *.
    unfold covers_ok in Hcov. rewrite Ep in *. cbn [bind].
    destruct (sweep_ok R idn qf cover L _ HO ltac:(lia) Hcov) as [s' [Es F]].
    rewrite Es. cbn [bind]. apply (finish_ok R s' F).
  Qed.

  (* covers that are valid on every in-range edge list *)
  Definition cover_good (cover : cover_t) : Prop :=
    forall nu nv es, (forall e, In e es -> (fst e < nu)%nat /\ (snd e < nv)%nat) -> cover_okb nu nv es (cover nu nv es) = true.

  Lemma calls_okb_good idn qf cover : cover_good cover -> forall n s, OKI R idn qf s n -> calls_okb cover n s = true.
  Proof.
    intros Hgood. induction n as [|n IH]; intros s HO; [reflexivity|]. cbn [calls_okb].
    assert (Hc : (let '(nu, nv, es) := site_call s in cover_okb nu nv es (cover nu nv es)) = true).
    { unfold site_call. apply Hgood. intros e He.
      destruct (site_partition_regroup R (s_next s)) as [[Hr _] _]. rewrite Forall_forall in Hr. apply Hr. exact He. }
    destruct (site_ok R idn qf cover s n HO Hc) as [s1 [E1 [O1 _]]].
    destruct (site_call s) as [[nu nv] es]. rewrite Hc, E1. cbn [andb]. apply IH. exact O1.
  Qed.

  Theorem from_opchains_ok_good cover (chains : list chain) L idn :
    wf_chains L chains = true -> cover_good cover -> (1 <= L)%nat ->
    exists g, from_opchains cover chains L idn = Ok g.
  Proof.
    intros Hwf Hgood HL. apply from_opchains_ok; auto.
    destruct (init_OKI chains L idn Hwf) as [_ [_ [cs [qf [Ep HO]]]]].
    unfold covers_ok. rewrite Ep. eapply calls_okb_good; eauto.
  Qed.
End Ok4.
