(* C07 (b): soundness of the symbolic comparison of Model/MolFormula.v.  For every L for which the boolean check
   [mol_formula_check L] / [spin_formula_check L] evaluates to true, the chain list enumerated by the model of the
   optimized construction and the second-quantised formula have the same coefficient on EVERY word, for ALL coefficient
   functions t, v over EVERY commutative ring R and every value of [half].  The check itself is evaluated by the kernel
   (vm_compute) for the bounded range of L stated in Properties/C07.v. *)
From Coq Require Import ZArith List Lia Bool Ring Permutation.
From PT Require Import Base.Scalar Base.BigSum Model.OpGraph Model.FromOpchains Model.Molecular Model.MolFormula
                       Proofs.FromOpchainsPart.
Import ListNotations.
Open Scope Z_scope.

(* ---- the multiset comparison ---- *)
Lemma ctag_eqb_eq a b : ctag_eqb a b = true -> a = b.
Proof.
  destruct a, b; cbn; try discriminate; rewrite ?andb_true_iff, ?Nat.eqb_eq.
  - intros [-> ->]; reflexivity.
  - intros [[[-> ->] ->] ->]; reflexivity.
Qed.
Lemma sterm_eqb_eq a b : sterm_eqb a b = true -> a = b.
Proof.
  destruct a as [[w s] tg], b as [[w' s'] tg']. unfold sterm_eqb. cbn [fst snd]. rewrite !andb_true_iff.
  intros [[H1 H2] H3]. apply zlist_eqb_eq in H1. apply eqb_prop in H2. apply ctag_eqb_eq in H3. subst. reflexivity.
Qed.
Lemma remove1_perm x l l' : remove1 x l = Some l' -> Permutation l (x :: l').
Proof.
  revert l'. induction l as [|y t IH]; intros l' H; cbn [remove1] in H; [discriminate|].
  destruct (sterm_eqb x y) eqn:E.
  - apply sterm_eqb_eq in E. inversion H; subst. apply Permutation_refl.
  - destruct (remove1 x t) as [t'|]; [|discriminate]. inversion H; subst.
    eapply perm_trans; [apply perm_skip; apply IH; reflexivity|]. apply perm_swap.
Qed.
Lemma perm_b_sound P Q : perm_b P Q = true -> Permutation P Q.
Proof.
  revert Q. induction P as [|x P IH]; intros Q H; cbn [perm_b] in H.
  - destruct Q; [constructor|discriminate].
  - destruct (remove1 x Q) as [Q'|] eqn:E; [|discriminate].
    apply remove1_perm in E. apply IH in H. eapply perm_trans; [apply perm_skip; exact H|]. apply Permutation_sym. exact E.
Qed.

Section FormulaProofs.
  Variable R : cring.
  Variable half : R.
  Add Ring Rring_molformula : (k_rt R).
  Notation "0r" := (k0 R). Notation "1r" := (k1 R).
  Variable t : nat -> nat -> R.
  Variable v : nat -> nat -> nat -> nat -> R.

  Lemma suml_flat_map' {A B} (f : A -> list B) (l : list A) (h : B -> R) :
    suml (flat_map f l) h = suml l (fun x => suml (f x) h).
  Proof. induction l as [|x l IH]; cbn [flat_map suml]; [reflexivity|]. rewrite suml_app, IH. reflexivity. Qed.

  (* ---- chain side ---- *)
  Lemma mol_lhs_ok L w : chains_den L 0 (mol_chains half L t v) w = suml (mol_lhs L) (ev half t v w).
  Proof.
    unfold chains_den, mol_chains, mol_lhs. rewrite suml_map, suml_flat_map'. apply suml_ext. intros [s tg] _.
    unfold padded_oids, attach, mol_expand, skel_word. cbn [c_oids c_istart c_coeff fst snd].
    destruct tg as [i j|i j k l]; unfold ev, phi, mol_coeff; cbn [suml fst snd];
    destruct (zlist_eqb _ w); unfold gint; ring.
  Qed.

  Lemma spin_lhs_ok L sk w : chains_den L 0 (map (attach (spin_coeff half t v)) sk) w = suml (flat_map (spin_expand L) sk) (ev half t v w).
  Proof.
    unfold chains_den. rewrite suml_map, suml_flat_map'. apply suml_ext. intros [s tg] _.
    unfold padded_oids, attach, spin_expand, skel_word. cbn [c_oids c_istart c_coeff fst snd].
    destruct tg as [i j|i j k l c0 c1]; [| destruct c0, c1]; unfold ev, phi, spin_coeff; cbn [suml app fst snd];
    destruct (zlist_eqb _ w); unfold gint0, gint1; ring.
  Qed.

  (* ---- formula side ---- *)
  Lemma sw_terms_t ids x i j w : kmul R (t i j) (sw_coef ids x w) = suml (sw_terms ids x (Tt i j)) (ev half t v w).
  Proof.
    destruct x as [[s u]|]; unfold sw_coef, sw_terms, ev, phi; cbn [suml fst snd]; [|ring].
    destruct (zlist_eqb (ids u) w); destruct s; ring.
  Qed.
  Lemma sw_terms_v ids x i j k l w :
    kmul R half (kmul R (v i j k l) (sw_coef ids x w)) = suml (sw_terms ids x (Tv i j k l)) (ev half t v w).
  Proof.
    destruct x as [[s u]|]; unfold sw_coef, sw_terms, ev, phi; cbn [suml fst snd]; [|ring].
    destruct (zlist_eqb (ids u) w); destruct s; ring.
  Qed.
  Lemma suml_scal_in {A} (l : list A) c (f : A -> R) : kmul R c (suml l f) = suml l (fun x => kmul R c (f x)).
  Proof. symmetry. apply suml_scal_l. Qed.

  Lemma mol_rhs_ok L w : mol_formula half L t v w = suml (mol_rhs L) (ev half t v w).
  Proof.
    unfold mol_formula, mol_rhs. rewrite suml_app. f_equal.
    - rewrite suml_flat_map'. apply suml_ext. intros i _. rewrite suml_flat_map'. apply suml_ext. intros j _.
      apply sw_terms_t.
    - rewrite suml_scal_in, suml_flat_map'. apply suml_ext. intros i _.
      rewrite suml_scal_in, suml_flat_map'. apply suml_ext. intros j _.
      rewrite suml_scal_in, suml_flat_map'. apply suml_ext. intros k _.
      rewrite suml_scal_in, suml_flat_map'. apply suml_ext. intros l _.
      apply sw_terms_v.
  Qed.

  Lemma spin_rhs_ok L w : spin_formula half L t v w = suml (spin_rhs L) (ev half t v w).
  Proof.
    unfold spin_formula, spin_rhs. rewrite suml_app. f_equal.
    - rewrite suml_flat_map'. apply suml_ext. intros i _. rewrite suml_flat_map'. apply suml_ext. intros j _.
      rewrite suml_flat_map'. apply suml_ext. intros s _. apply sw_terms_t.
    - rewrite suml_scal_in, suml_flat_map'. apply suml_ext. intros i _.
      rewrite suml_scal_in, suml_flat_map'. apply suml_ext. intros j _.
      rewrite suml_scal_in, suml_flat_map'. apply suml_ext. intros k _.
      rewrite suml_scal_in, suml_flat_map'. apply suml_ext. intros l _.
      rewrite suml_scal_in, suml_flat_map'. apply suml_ext. intros s _.
      rewrite suml_scal_in, suml_flat_map'. apply suml_ext. intros u _.
      apply sw_terms_v.
  Qed.

  Theorem mol_formula_of_check L : mol_formula_check L = true ->
    forall w, chains_den L 0 (mol_chains half L t v) w = mol_formula half L t v w.
  Proof.
    intros H w. rewrite mol_lhs_ok, mol_rhs_ok. apply suml_permutation. apply perm_b_sound. exact H.
  Qed.

  Theorem spin_formula_of_check L : spin_formula_check L = true ->
    exists cs, spin_chains half L t v = Ok cs /\
    forall w, chains_den L 0 cs w = spin_formula half L t v w.
  Proof.
    unfold spin_formula_check, spin_lhs, spin_chains. destruct (spin_skels L) as [sk|e]; [|discriminate].
    intros H. eexists. split; [reflexivity|]. intros w.
    rewrite spin_lhs_ok, spin_rhs_ok. apply suml_permutation. apply perm_b_sound. exact H.
  Qed.
End FormulaProofs.

(* ---- the kernel-checked bounded range ---- *)
Lemma omul_table_checked : omul_table_ok = true.
Proof. vm_compute. reflexivity. Qed.
Lemma mol_formula_checked_upto_10 : forallb mol_formula_check (seq 0 11) = true.
Proof. vm_compute. reflexivity. Qed.
Lemma spin_formula_checked_upto_6 : forallb spin_formula_check (seq 0 7) = true.
Proof. vm_compute. reflexivity. Qed.

Theorem mol_formula_bounded (R : cring) (half : R) t v L : (L <= 10)%nat ->
  forall w, chains_den L 0 (mol_chains half L t v) w = mol_formula half L t v w.
Proof.
  intros HL. apply mol_formula_of_check.
  pose proof mol_formula_checked_upto_10 as H. rewrite forallb_forall in H. apply H. apply in_seq. lia.
Qed.
Theorem spin_formula_bounded (R : cring) (half : R) t v L : (L <= 6)%nat ->
  exists cs, spin_chains half L t v = Ok cs /\ forall w, chains_den L 0 cs w = spin_formula half L t v w.
Proof.
  intros HL. apply spin_formula_of_check.
  pose proof spin_formula_checked_upto_6 as H. rewrite forallb_forall in H. apply H. apply in_seq. lia.
Qed.
