(* C06, Jordan-Wigner link for every L -- DEFINITIONS (formula side; no proofs).
   The second-quantised Fermi-Hubbard formula written literally with fermionic mode operators:
     formal linear combinations [pol] of words of single-mode letters (Model/MolFormula.v: I, C = a+, A = a, N, Z, M),
     sum [padd], scalar multiple [pscal], product [pmul] = bilinear extension of the SITEWISE word product [wmul]
     (signs of the 2x2 multiplication table [omul], checked against the matrices in C07_omul_table),
     a_k = [ann n k] = I^k A Z^(n-1-k),  a+_k = [cre n k] = I^k C Z^(n-1-k)   (Z string to the right, harness/hamref.py [modes]),
     2 L modes ordered (0 up, 0 dn, 1 up, 1 dn, ...): mode of (site i, spin s) = [md i s] = 2 i + s.
   [fh_jw half t U mu L] is
       -t sum_{i<L-1} sum_s (a+_{i,s} a_{i+1,s} + a+_{i+1,s} a_{i,s})
       + U sum_i (n_{i,up} - half) (n_{i,dn} - half)  -  mu sum_i (n_{i,up} + n_{i,dn}),       n_k = a+_k a_k.
   The site alphabet of fermi_hubbard_mpo (OID 0..10) is related to PAIRS of mode letters (up, dn) by the table [fh_etab]
   (each site letter = a linear combination of pairs; only Nt and NI are composite); [fh_expand f] rewrites a coefficient
   function f on site words into the coefficient function on mode words obtained by substituting every letter by its
   expansion (multilinearly).  [fh_letter_mx] / [fh_table_okb]: the 4x4 matrix of every site letter IS that combination of
   Kronecker products of 2x2 mode matrices.
   Second part: single-mode Jordan-Wigner words for linear_fermionic_mpo ([lf_id]); third: the truncated boson relations. *)
From Coq Require Import ZArith List Lia Bool.
From PT Require Import Base.Scalar Base.BigSum Base.Mx Model.OpGraph Model.FromOpchains Model.GraphMPO Model.Molecular Model.MolFormula
                       Model.Hamiltonians Model.HamFormulas.
Import ListNotations.
Local Open Scope Z_scope.

Definition op_eqb (a b : op) : bool :=
  match a, b with
  | OI, OI | OC, OC | OA, OA | ON, ON | OZ, OZ | OM, OM => true
  | _, _ => false
  end.
Fixpoint opw_eqb (u v : list op) : bool :=
  match u, v with
  | [], [] => true
  | a :: u', b :: v' => op_eqb a b && opw_eqb u' v'
  | _, _ => false
  end.
(* all words of mode letters of length n *)
Fixpoint opwords (n : nat) : list (list op) :=
  match n with O => [[]] | S m => flat_map (fun x => map (cons x) (opwords m)) all_ops end.

Section JWDefs.
  Variable R : cring.
  Notation "0r" := (k0 R). Notation "1r" := (k1 R).
  Infix "+r" := (kadd R) (at level 50, left associativity).
  Infix "*r" := (kmul R) (at level 40, left associativity).

  (* ---- formal sums of mode words ---- *)
  Definition pol : Type := list (R * list op).
  Definition pcoef (p : pol) (v : list op) : R := suml p (fun a => fst a *r indb (opw_eqb (snd a) v)).
  Definition padd (p q : pol) : pol := p ++ q.
  Definition pscal (c : R) (p : pol) : pol := map (fun a => (c *r fst a, snd a)) p.
  Definition psub (p q : pol) : pol := padd p (pscal (kopp R 1r) q).
  Definition psum (n : nat) (F : nat -> pol) : pol := flat_map F (seq 0 n).
  Definition mono_mul (a b : R * list op) : pol :=
    match wmul (snd a) (snd b) with
    | Some (s, u) => [((if s then kopp R (fst a *r fst b) else fst a *r fst b), u)]
    | None => []
    end.
  Definition pmul (p q : pol) : pol := flat_map (fun a => flat_map (fun b => mono_mul a b) q) p.
  Definition pone (n : nat) : pol := [(1r, repeat OI n)].
  Definition pcre (n k : nat) : pol := [(1r, cre n k)].
  Definition pann (n k : nat) : pol := [(1r, ann n k)].
  Definition pnum (n k : nat) : pol := pmul (pcre n k) (pann n k).

  (* ---- the Fermi-Hubbard Hamiltonian in second quantisation on 2 L Jordan-Wigner modes ---- *)
  Definition fh_jw (half t U mu : R) (L : nat) : pol :=
    let n := (2 * L)%nat in
    padd (padd
      (pscal (kopp R t) (psum (L - 1) (fun i => psum 2 (fun s =>
         padd (pmul (pcre n (md i s)) (pann n (md (S i) s))) (pmul (pcre n (md (S i) s)) (pann n (md i s)))))))
      (pscal U (psum L (fun i =>
         pmul (psub (pnum n (md i 0)) (pscal half (pone n))) (psub (pnum n (md i 1)) (pscal half (pone n)))))))
      (pscal (kopp R mu) (psum L (fun i => padd (pnum n (md i 0)) (pnum n (md i 1))))).

  (* ---- site letters of fermi_hubbard_mpo as combinations of pairs (up letter, down letter) ---- *)
  Definition fh_alpha : list Z := [0; 1; 2; 3; 4; 5; 6; 7; 8; 9; 10].
  Definition fh_etab (half : R) (o : Z) : list (R * (op * op)) :=
    if o =? 0 then [(1r, (OI, OI))]
    else if o =? 1 then [(1r, (OC, OI))] else if o =? 2 then [(1r, (OA, OI))]
    else if o =? 3 then [(1r, (OC, OZ))] else if o =? 4 then [(1r, (OA, OZ))]
    else if o =? 5 then [(1r, (OI, OC))] else if o =? 6 then [(1r, (OI, OA))]
    else if o =? 7 then [(1r, (OZ, OC))] else if o =? 8 then [(1r, (OZ, OA))]
    else if o =? 9 then [(1r, (ON, OI)); (1r, (OI, ON))]                                     (* n_up + n_dn *)
    else if o =? 10 then [(1r, (ON, ON)); (kopp R half, (ON, OI)); (kopp R half, (OI, ON)); (half *r half, (OI, OI))]
    else [].
  (* coefficient of the pair (x, y) in the expansion of the site letter o *)
  Definition fh_e (half : R) (o : Z) (x y : op) : R :=
    suml (fh_etab half o) (fun c => fst c *r indb (op_eqb (fst (snd c)) x && op_eqb (snd (snd c)) y)).
  (* substitute, multilinearly, every site letter by its expansion:
       fh_expand f v = sum over site words w of length |v|/2 of  f w . prod_m fh_e (w_m) (v_2m) (v_2m+1)   (0 for odd |v|) *)
  Fixpoint fh_expand (half : R) (f : list Z -> R) (v : list op) {struct v} : R :=
    match v with
    | [] => f []
    | x :: y :: v' => suml fh_alpha (fun o => fh_e half o x y *r fh_expand half (fun w => f (o :: w)) v')
    | [_] => 0r
    end.
  (* the same for a single site word *)
  Fixpoint fh_Ew (half : R) (w : list Z) (v : list op) {struct w} : R :=
    match w, v with
    | [], [] => 1r
    | o :: w', x :: y :: v' => fh_e half o x y *r fh_Ew half w' v'
    | _, _ => 0r
    end.

  (* the 2x2 matrices of the mode letters (those of fermi_hubbard_mpo; M = |0><0|) *)
  Definition opR (x : op) : mx R :=
    match x with
    | OI => f_id2 R | OC => f_adag R | OA => f_aann R | ON => f_num R | OZ => f_Z R | OM => m22 R 1r 0r 0r 0r
    end.
  (* matrix of a site letter according to the table *)
  Definition fh_letter_mx (half : R) (o : Z) : mx R :=
    fold_right (fun c acc => addmx (scalemx (fst c) (kronmx (opR (fst (snd c))) (opR (snd (snd c))))) acc)
               (zeromx 4 4) (fh_etab half o).
  Definition fh_table_okb (half : R) : bool :=
    forallb (fun o => mxeqb (opmap_of (fermi_opmap half) o) (fh_letter_mx half o)) fh_alpha.

  (* matrix element of a mode word between occupation lists, and of a site word between site states (wprod of C05) *)
  Fixpoint mprod (v : list op) (b b' : list nat) : R :=
    match v, b, b' with
    | x :: v', s :: u, t :: u' => get (opR x) s t *r mprod v' u u'
    | _, _, _ => 1r
    end.
  (* site state s in 0..3 = |n_up n_dn>, n_up the more significant bit (first Kronecker factor) *)
  Definition bits (s : list nat) : list nat := flat_map (fun x => [Nat.div x 2; Nat.modulo x 2]) s.

  (* ---- linear_fermionic_mpo: ids A = -1, I = 0, C = 1, Z = 2 of the single-mode letters ---- *)
  Definition lf_id (x : op) : Z := match x with OA => -1 | OI => 0 | OC => 1 | OZ => 2 | ON => 3 | OM => 4 end.
  Definition lf_op (create : bool) : op := if create then OC else OA.
  (* sum_i coeff_i . (a+_i | a_i)  as a formal sum of Jordan-Wigner words on L = |coeff| modes *)
  Definition lf_jw (coeff : list R) (create : bool) : pol :=
    map (fun ic => (snd ic, jw (length coeff) (fst ic) (lf_op create))) (combine (seq 0 (length coeff)) coeff).
  (* coefficient of a word of operator ids *)
  Definition pcoef_ids (ids : op -> Z) (p : pol) (w : list Z) : R :=
    suml p (fun a => fst a *r indb (zlist_eqb (map ids (snd a)) w)).
End JWDefs.

Arguments pcoef {R} _ _. Arguments padd {R} _ _. Arguments pscal {R} _ _. Arguments psub {R} _ _. Arguments psum {R} _ _.
Arguments mono_mul {R} _ _. Arguments pmul {R} _ _. Arguments pone {R} _. Arguments pcre {R} _ _. Arguments pann {R} _ _.
Arguments pnum {R} _ _. Arguments fh_jw {R} _ _ _ _ _. Arguments fh_etab {R} _ _. Arguments fh_e {R} _ _ _ _.
Arguments fh_expand {R} _ _ _. Arguments fh_Ew {R} _ _ _. Arguments opR {R} _. Arguments fh_letter_mx {R} _ _.
Arguments fh_table_okb {R} _. Arguments mprod {R} _ _ _. Arguments lf_jw {R} _ _. Arguments pcoef_ids {R} _ _ _.
