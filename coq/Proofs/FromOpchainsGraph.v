(* Effect of the graph updates used by from_opchains on in-edges and on the prefix meaning [den_to]. *)
From Coq Require Import ZArith List Lia Bool Ring.
From PT Require Import Base.Scalar Base.BigSum Model.OpGraph.
Import ListNotations.
Open Scope Z_scope.

Section GraphOps.
  Variable R : cring.
  Add Ring Rring_fog : (k_rt R).
  Notation graph := (graph R).
  Notation gedge := (gedge R).

  Lemma find_app {A} (p : A -> bool) (l : list A) x :
    find p (l ++ [x]) = match find p l with Some y => Some y | None => if p x then Some x else None end.
  Proof. induction l as [|a l IH]; simpl; [reflexivity|]. destruct (p a); auto. Qed.

  Lemma existsb_find_none {A} (p : A -> bool) l : existsb p l = false -> find p l = None.
  Proof. induction l as [|a l IH]; simpl; auto. destruct (p a); simpl; [discriminate|auto]. Qed.

  Lemma add_edge_spec (g : graph) e g1 : add_edge g e = Some g1 ->
    g1 = mkgraph (g_nodes g) (g_edges g ++ [e]) (g_t0 g) (g_t1 g) /\ find_edge g (e_id e) = None.
  Proof.
    unfold add_edge. destruct (has_edge_id g (e_id e)) eqn:E; [discriminate|]. intros H. inversion H.
    split; [reflexivity|]. apply existsb_find_none. exact E.
  Qed.
  Lemma add_node_spec (g : graph) n g1 : add_node g n = Some g1 ->
    g1 = mkgraph (g_nodes g ++ [n]) (g_edges g) (g_t0 g) (g_t1 g) /\ find_node g (n_id n) = None.
  Proof.
    unfold add_node. destruct (has_node g (n_id n)) eqn:E; [discriminate|]. intros H. inversion H.
    split; [reflexivity|]. apply existsb_find_none. exact E.
  Qed.

  Lemma find_node_id (g : graph) m n : find_node g m = Some n -> n_id n = m /\ In n (g_nodes g).
  Proof. unfold find_node. intros H. apply find_some in H. destruct H as [H1 H2]. apply Z.eqb_eq in H2. auto. Qed.
  Lemma find_edge_id (g : graph) x e : find_edge g x = Some e -> e_id e = x /\ In e (g_edges g).
  Proof. unfold find_edge. intros H. apply find_some in H. destruct H as [H1 H2]. apply Z.eqb_eq in H2. auto. Qed.

  Lemma find_node_upd (g : graph) a f m : (forall n, n_id (f n) = n_id n) ->
    find_node (upd_node g a f) m = option_map (fun n => if n_id n =? a then f n else n) (find_node g m).
  Proof.
    intros Hf. unfold find_node, upd_node. cbn [g_nodes]. induction (g_nodes g) as [|n l IH]; simpl; [reflexivity|].
    assert (E : n_id (if n_id n =? a then f n else n) = n_id n) by (destruct (n_id n =? a); auto).
    rewrite E. destruct (n_id n =? m); simpl; auto.
  Qed.

  Lemma edges_of_ext (g g' : graph) eids :
    (forall x, In x eids -> find_edge g' x = find_edge g x) -> edges_of g' eids = edges_of g eids.
  Proof.
    induction eids as [|x l IH]; intros H; [reflexivity|]. unfold edges_of in *. simpl.
    rewrite H by (left; reflexivity). f_equal. apply IH. intros y Hy. apply H. right. exact Hy.
  Qed.
  Lemma edges_of_app (g : graph) a b : edges_of g (a ++ b) = edges_of g a ++ edges_of g b.
  Proof. unfold edges_of. apply flat_map_app. Qed.
  Lemma edges_of_In (g : graph) eids e : In e (edges_of g eids) -> In e (g_edges g) /\ In (e_id e) eids.
  Proof.
    unfold edges_of. rewrite in_flat_map. intros [x [Hx H]]. destruct (find_edge g x) as [e'|] eqn:E; [|contradiction].
    destruct H as [H|[]]. subst e'. apply find_edge_id in E. destruct E as [E1 E2]. subst. auto.
  Qed.

  (* ---- the invariant of the growing graph ---- *)
  Definition ginv (g : graph) (nb eb : Z) : Prop :=
    Forall (fun n => n_id n < nb /\ Forall (fun x => x < eb) (n_in n) /\
                     Forall (fun e : gedge => e_from e < n_id n /\ e_to e = n_id n) (edges_of g (n_in n))) (g_nodes g) /\
    Forall (fun e : gedge => e_id e < eb) (g_edges g).

  Lemma ginv_mono g nb eb nb' eb' : ginv g nb eb -> nb <= nb' -> eb <= eb' -> ginv g nb' eb'.
  Proof.
    intros [H1 H2] Hn He. split.
    - eapply Forall_impl; [|exact H1]. intros n [A [B C]]. repeat split; auto; [lia|].
      eapply Forall_impl; [|exact B]. intros; simpl in *; lia.
    - eapply Forall_impl; [|exact H2]. intros; simpl in *; lia.
  Qed.

  Lemma find_edge_add (g : graph) e x : x <> e_id e ->
    find_edge (mkgraph (g_nodes g) (g_edges g ++ [e]) (g_t0 g) (g_t1 g)) x = find_edge g x.
  Proof.
    intros Hx. unfold find_edge. cbn [g_edges]. rewrite find_app.
    destruct (find (fun e0 : gedge => e_id e0 =? x) (g_edges g)); [reflexivity|].
    destruct (e_id e =? x) eqn:E; [apply Z.eqb_eq in E; congruence | reflexivity].
  Qed.

  (* add_edge with a fresh id *)
  Lemma ginv_add_edge g nb eb e g1 : ginv g nb eb -> e_id e = eb -> add_edge g e = Some g1 ->
    ginv g1 nb (eb + 1) /\ g_t0 g1 = g_t0 g /\ g_nodes g1 = g_nodes g /\
    (forall m, in_edges g1 m = in_edges g m) /\ find_edge g1 eb = Some e.
  Proof.
    intros [H1 H2] He Ha. apply add_edge_spec in Ha. destruct Ha as [-> Hn].
    assert (EO : forall n, In n (g_nodes g) ->
              edges_of (mkgraph (g_nodes g) (g_edges g ++ [e]) (g_t0 g) (g_t1 g)) (n_in n) = edges_of g (n_in n)).
    { intros n Hin. apply edges_of_ext. intros x Hx. apply find_edge_add.
      rewrite Forall_forall in H1. destruct (H1 n Hin) as [_ [B _]]. rewrite Forall_forall in B. specialize (B x Hx). lia. }
    repeat split.
    - cbn [g_nodes]. rewrite Forall_forall in *. intros n Hin. destruct (H1 n Hin) as [A [B C]].
      repeat split; [exact A| |].
      + rewrite Forall_forall in *. intros x Hx. specialize (B x Hx). lia.
      + rewrite EO by exact Hin. exact C.
    - cbn [g_edges]. apply Forall_app. split.
      + eapply Forall_impl; [|exact H2]. intros; simpl in *; lia.
      + constructor; [lia|constructor].
    - intros m. unfold in_edges. change (find_node (mkgraph (g_nodes g) (g_edges g ++ [e]) (g_t0 g) (g_t1 g)) m) with (find_node g m).
      destruct (find_node g m) as [n|] eqn:E; [|reflexivity]. apply EO. apply find_node_id in E. tauto.
    - unfold find_edge. cbn [g_edges]. rewrite find_app. unfold find_edge in Hn. rewrite <- He, Hn, Z.eqb_refl. reflexivity.
  Qed.

  Lemma g_nodes_upd (g : graph) a f :
    g_nodes (upd_node g a f) = map (fun n => if n_id n =? a then f n else n) (g_nodes g).
  Proof. reflexivity. Qed.
  Lemma node_add_eid_id x d n : n_id (node_add_eid x d n) = n_id n.
  Proof. destruct d; reflexivity. Qed.

  (* registering an out-edge: in-edges untouched *)
  Lemma ginv_upd_out g nb eb a x : ginv g nb eb ->
    let g' := upd_node g a (node_add_eid x 1) in
    ginv g' nb eb /\ g_t0 g' = g_t0 g /\ (forall m, in_edges g' m = in_edges g m) /\
    (forall y, find_edge g' y = find_edge g y) /\
    (forall m, find_node g m = None -> find_node g' m = None).
  Proof.
    intros [H1 H2]. cbn zeta. repeat split.
    - unfold upd_node. cbn [g_nodes]. rewrite Forall_map. eapply Forall_impl; [|exact H1].
      intros n [A [B C]]. destruct (n_id n =? a); simpl; auto.
    - exact H2.
    - intros m. unfold in_edges. rewrite find_node_upd by (intros; apply node_add_eid_id).
      destruct (find_node g m) as [n|]; simpl; [|reflexivity]. destruct (n_id n =? a); reflexivity.
    - intros m Hm. rewrite find_node_upd by (intros; apply node_add_eid_id). rewrite Hm. reflexivity.
  Qed.

  (* adding a node with fresh id nb *)
  Lemma ginv_add_node g nb eb n g1 : ginv g nb eb -> n_id n = nb ->
    Forall (fun x => x < eb) (n_in n) -> Forall (fun e : gedge => e_from e < nb /\ e_to e = nb) (edges_of g (n_in n)) ->
    add_node g n = Some g1 ->
    ginv g1 (nb + 1) eb /\ g_t0 g1 = g_t0 g /\ (forall m, m <> nb -> in_edges g1 m = in_edges g m) /\
    in_edges g1 nb = edges_of g (n_in n) /\ (forall y, find_edge g1 y = find_edge g y) /\ find_node g1 nb = Some n.
  Proof.
    intros [H1 H2] Hid Hin Hsrc Ha. apply add_node_spec in Ha. destruct Ha as [-> Hn]. rewrite Hid in Hn.
    assert (FN : forall m, m <> nb -> find_node (mkgraph (g_nodes g ++ [n]) (g_edges g) (g_t0 g) (g_t1 g)) m = find_node g m).
    { intros m Hm. unfold find_node. cbn [g_nodes]. rewrite find_app.
      destruct (find (fun n0 => n_id n0 =? m) (g_nodes g)); [reflexivity|].
      destruct (n_id n =? m) eqn:E; [apply Z.eqb_eq in E; congruence|reflexivity]. }
    assert (FNb : find_node (mkgraph (g_nodes g ++ [n]) (g_edges g) (g_t0 g) (g_t1 g)) nb = Some n).
    { unfold find_node in *. cbn [g_nodes]. rewrite find_app, Hn, Hid, Z.eqb_refl. reflexivity. }
    repeat split.
    - cbn [g_nodes]. apply Forall_app. split.
      + eapply Forall_impl; [|exact H1]. intros k [A [B C]]. repeat split; auto. lia.
      + constructor; [|constructor]. repeat split; [lia|exact Hin|]. rewrite Hid. exact Hsrc.
    - exact H2.
    - intros m Hm. unfold in_edges. rewrite FN by exact Hm. reflexivity.
    - unfold in_edges. rewrite FNb. reflexivity.
    - exact FNb.
  Qed.

  (* add_connect_edge with fresh edge id eb into the node [a] (whose id is the largest so far), from an older node *)
  Lemma ginv_connect g nb eb e g1 na : ginv g nb eb -> e_id e = eb -> e_from e < e_to e -> e_to e < nb ->
    find_node g (e_to e) = Some na ->
    add_connect_edge g e = Some g1 ->
    ginv g1 nb (eb + 1) /\ g_t0 g1 = g_t0 g /\
    (forall m, m <> e_to e -> in_edges g1 m = in_edges g m) /\
    in_edges g1 (e_to e) = in_edges g (e_to e) ++ [e] /\
    (forall m, find_node g m = None -> find_node g1 m = None) /\
    (forall m n, find_node g m = Some n -> exists n', find_node g1 m = Some n' /\ n_q n' = n_q n).
  Proof.
    intros Hg He Hlt Hto Hna Ha. unfold add_connect_edge in Ha.
    destruct (add_edge g e) as [ga|] eqn:Ea; [|discriminate]. inversion Ha; subst g1. clear Ha.
    destruct (ginv_add_edge _ _ _ _ _ Hg He Ea) as [Ga [T0 [Na [Ia Fa]]]].
    destruct (ginv_upd_out ga nb (eb + 1) (e_from e) (e_id e) Ga) as [Gb [T1 [Ib [Fb Nb]]]].
    set (gb := upd_node ga (e_from e) (node_add_eid (e_id e) 1)) in *.
    assert (FNb : forall m, find_node gb m = option_map (fun n => if n_id n =? e_from e then node_add_eid (e_id e) 1 n else n) (find_node g m)).
    { intros m. unfold gb. rewrite find_node_upd by (intros; apply node_add_eid_id).
      unfold find_node. rewrite Na. reflexivity. }
    assert (FN : forall m, find_node (upd_node gb (e_to e) (node_add_eid (e_id e) 0)) m =
               option_map (fun n => if n_id n =? e_to e then node_add_eid (e_id e) 0 n else n) (find_node gb m)).
    { intros m. apply find_node_upd. intros; apply node_add_eid_id. }
    assert (FE : forall y, find_edge (upd_node gb (e_to e) (node_add_eid (e_id e) 0)) y = find_edge ga y).
    { intros y. rewrite <- Fb. reflexivity. }
    assert (EO : forall l, edges_of (upd_node gb (e_to e) (node_add_eid (e_id e) 0)) l = edges_of gb l).
    { intros l. apply edges_of_ext. intros; reflexivity. }
    assert (Inb : forall m, in_edges gb m = in_edges g m) by (intros; rewrite Ib; apply Ia).
    assert (I1 : forall m, m <> e_to e -> in_edges (upd_node gb (e_to e) (node_add_eid (e_id e) 0)) m = in_edges g m).
    { intros m Hm. rewrite <- Inb. unfold in_edges. rewrite FN.
      destruct (find_node gb m) as [n|] eqn:E; simpl; [|reflexivity].
      apply find_node_id in E. destruct E as [E _]. rewrite E.
      destruct (m =? e_to e) eqn:E2; [apply Z.eqb_eq in E2; congruence|]. apply EO. }
    assert (Egb : edges_of gb [e_id e] = [e]).
    { unfold edges_of. simpl. rewrite Fb, He, Fa. reflexivity. }
    assert (I2 : in_edges (upd_node gb (e_to e) (node_add_eid (e_id e) 0)) (e_to e) = in_edges g (e_to e) ++ [e]).
    { rewrite <- Inb. unfold in_edges. rewrite FN. destruct (find_node gb (e_to e)) as [n|] eqn:E.
      - simpl. destruct (find_node_id _ _ _ E) as [E1 _]. rewrite E1, Z.eqb_refl. simpl.
        rewrite EO, edges_of_app, Egb. reflexivity.
      - rewrite FNb, Hna in E. discriminate. }
    repeat split.
    - destruct Gb as [G1 G2]. rewrite g_nodes_upd, Forall_map.
      rewrite Forall_forall in *. intros n Hn. destruct (G1 n Hn) as [A [B C]].
      destruct (n_id n =? e_to e) eqn:E.
      + rewrite node_add_eid_id. apply Z.eqb_eq in E. repeat split; [exact A| |].
        * simpl. apply Forall_app. split; [exact B|]. constructor; [lia|constructor].
        * simpl. rewrite EO, edges_of_app, Egb. apply Forall_app. split; [exact C|].
          constructor; [split; [lia|congruence]|constructor].
      + repeat split; auto.
    - destruct Gb as [_ G2]. exact G2.
    - cbn. rewrite T0. reflexivity.
    - exact I1.
    - exact I2.
    - intros m Hm. rewrite FN, FNb, Hm. reflexivity.
    - intros m n Hm. rewrite FN, FNb, Hm. simpl.
      eexists. split; [reflexivity|].
      destruct (n_id n =? e_from e); destruct (n_id _ =? e_to e); reflexivity.
  Qed.

  (* ---- stability of the prefix meaning ---- *)
  Lemma in_edges_src g nb eb m e : ginv g nb eb -> In e (in_edges g m) -> e_from e < m /\ e_to e = m.
  Proof.
    intros [H1 _] H. unfold in_edges in H. destruct (find_node g m) as [n|] eqn:E; [|contradiction].
    apply find_node_id in E. destruct E as [E1 E2]. rewrite Forall_forall in H1.
    destruct (H1 n E2) as [_ [_ C]]. rewrite Forall_forall in C. rewrite <- E1. apply C. exact H.
  Qed.

  Lemma den_to_same g g' nb eb b : ginv g nb eb -> g_t0 g' = g_t0 g ->
    (forall m, m < b -> in_edges g' m = in_edges g m) ->
    forall w m, m < b -> den_to g' w m = den_to g w m.
  Proof.
    intros Hg Ht Hin. induction w as [|o w IH]; intros m Hm; simpl.
    - rewrite Ht. reflexivity.
    - rewrite Hin by exact Hm. apply suml_ext. intros e He. f_equal. apply IH.
      pose proof (in_edges_src _ _ _ _ _ Hg He). lia.
  Qed.

  Lemma den_to_ext (g g' : graph) : g_t0 g' = g_t0 g -> (forall m, in_edges g' m = in_edges g m) ->
    forall w m, den_to g' w m = den_to g w m.
  Proof.
    intros Ht Hin. induction w as [|o w IH]; intros m; simpl.
    - rewrite Ht. reflexivity.
    - rewrite Hin. apply suml_ext. intros e He. f_equal. apply IH.
  Qed.
End GraphOps.
