(* C03 / from_vector — what the loop needs from retained_bond_indices at tol = 0, for EVERY answer of the argsort
   oracle (sorted or not, permutation or not) and singular values of any sign: every non-zero value is kept, the kept
   indices are an increasing sublist of 0 .. len(s)-1; with the repaired branch `if len(idx) == 0: idx = [0]` the
   selected terms of a sum whose l-th term vanishes with s_l add up to the whole sum. *)
From Coq Require Import ZArith List Bool Lia Arith Ring Field.
From PT Require Import Base.Scalar Base.Field Base.BigSum Base.Mx Model.BondOps Model.FromVector.
From PT Require Import Proofs.BondOpsRetained.
Import ListNotations.

Section Retained0.
  Variable F : ofield.
  Add Field Ffield_fvret : (f_ft F).
  Local Notation zero := (f0 F).

  Lemma scatter_ge (sn : list F) i : (forall j, fle F zero (nth j sn zero)) ->
    forall idx acc out, fle F zero acc -> i < length out -> fle F (nth i sn zero) (nth i out zero) ->
    fle F (nth i sn zero) (nth i (scatter_cum idx sn acc out) zero).
  Proof.
    intros Hsn. induction idx as [|j idx IH]; intros acc out Hacc Hi Hout; simpl; [exact Hout|].
    assert (Hacc' : fle F zero (fadd F acc (nth j sn zero))) by (apply fle_add_nonneg; [exact Hacc|apply Hsn]).
    apply IH; [exact Hacc' | rewrite upd_length; exact Hi |].
    destruct (Nat.eq_dec i j) as [->|Hne].
    - rewrite nth_upd_eq by exact Hi.
      eapply fle_eq; [| |apply (fle_add_compat F zero acc (nth j sn zero) (nth j sn zero) Hacc (fle_refl F _))]; ring.
    - rewrite nth_upd_neq by exact Hne. exact Hout.
  Qed.

  Lemma retained_filter pick (s : list F) tol :
    exists g, retained pick s tol = filter g (seq 0 (length s)).
  Proof.
    unfold retained. destruct (feqb F (sqsum s) zero).
    - exists (fun _ => false). induction (seq 0 (length s)); simpl; auto.
    - eexists. reflexivity.
  Qed.

  Lemma retained0_keeps pick (s : list F) i : i < length s -> nth i s zero <> zero -> In i (retained pick s zero).
  Proof.
    intros Hi Hnz. unfold retained.
    destruct (feqb F (sqsum s) zero) eqn:E.
    { exfalso. apply feqb_spec in E. apply Hnz. apply (sqsum_zero_all F s E). apply nth_In. exact Hi. }
    assert (Hw : sqsum s <> zero) by (intros E2; apply (feqb_spec F) in E2; congruence).
    assert (Hpos : flt F zero (sqsum s)) by (apply fle_neq_lt; [apply sqsum_nonneg|auto]).
    apply filter_In. split; [apply in_seq; lia|].
    unfold fltb. apply negb_true_iff. change (flt F zero (nth i (cumweights pick s) zero)).
    assert (Hsn : forall j, fle F zero (nth j (normsq s) zero)).
    { intros j. destruct (lt_dec j (length (normsq s))) as [Hj|Hj].
      - apply (normsq_nonneg F s Hpos). apply nth_In. exact Hj.
      - rewrite nth_overflow by lia. apply fle_refl. }
    assert (Hlen : length (normsq s) = length s) by (unfold normsq; apply map_length).
    assert (Hi_pos : flt F zero (nth i (normsq s) zero)).
    { apply fle_neq_lt; [apply Hsn|]. rewrite (normsq_nth F s i Hi). intros E0.
      apply Hnz. apply fsq_zero.
      replace (fmul F (nth i s zero) (nth i s zero))
        with (fmul F (fdiv F (fmul F (nth i s zero) (nth i s zero)) (sqsum s)) (sqsum s)) by (field; exact Hw).
      rewrite <- E0. ring. }
    apply (flt_le_trans F _ _ _ Hi_pos).
    unfold cumweights. apply scatter_ge; [exact Hsn | apply fle_refl | rewrite Hlen; exact Hi | apply fle_refl].
  Qed.

  (* ---- the index vector used by from_vector ---- *)
  Lemma length_filter_le {A} (g : A -> bool) l : length (filter g l) <= length l.
  Proof. induction l as [|x l IH]; simpl; [lia|]. destruct (g x); simpl; lia. Qed.

  Lemma fv_idx_bounds pick i (s : list F) tol : 0 < length s ->
    let idx := fv_idx pick i s tol in
    0 < length idx /\ length idx <= length s /\ forall l, In l idx -> l < length s.
  Proof.
    intros Hs. unfold fv_idx. destruct (retained_filter (pick i) s tol) as [g Eg]. rewrite Eg.
    destruct (filter g (seq 0 (length s))) as [|x r] eqn:E.
    - simpl. repeat split; lia.
    - rewrite <- E. split; [rewrite E; simpl; lia|]. split.
      + etransitivity; [apply length_filter_le|]. rewrite seq_length. lia.
      + intros l Hl. apply filter_In in Hl. destruct Hl as [Hl _]. apply in_seq in Hl. lia.
  Qed.

  Section Sums.
    Variable R : cring.
    Add Ring Rring_fvret : (k_rt R).

    Lemma suml_filter {A} (g : A -> bool) (l : list A) (f : A -> R) :
      suml (filter g l) f = suml l (fun x => if g x then f x else k0 R).
    Proof. induction l as [|x l IH]; simpl; [reflexivity|]. destruct (g x); simpl; rewrite IH; ring. Qed.

    Lemma suml_nth' {A} (dflt : A) (l : list A) (f : A -> R) : suml l f = sumn (length l) (fun k => f (nth k l dflt)).
    Proof.
      induction l as [|x l IH] using rev_ind; [reflexivity|].
      rewrite suml_app, app_length. simpl length. rewrite Nat.add_1_r. simpl sumn.
      rewrite app_nth2 by lia. rewrite Nat.sub_diag. simpl. rewrite IH.
      replace (sumn (length l) (fun k => f (nth k (l ++ [x]) dflt))) with (sumn (length l) (fun k => f (nth k l dflt))).
      - ring.
      - apply sumn_ext. intros k Hk. rewrite app_nth1 by exact Hk. reflexivity.
    Qed.

    (* the selected terms add up to the whole sum *)
    Lemma fv_idx_sum pick i (s : list F) (f : nat -> R) : 0 < length s ->
      (forall l, l < length s -> nth l s zero = zero -> f l = k0 R) ->
      let idx := fv_idx pick i s zero in
      sumn (length idx) (fun b => f (nth b idx 0)) = sumn (length s) f.
    Proof.
      intros Hs Hf. unfold fv_idx.
      destruct (retained (pick i) s zero) as [|x r] eqn:E.
      - (* nothing retained: every value is zero *)
        assert (Hz : forall l, l < length s -> nth l s zero = zero).
        { intros l Hl. destruct (feqb F (nth l s zero) zero) eqn:El; [apply feqb_spec; exact El|].
          exfalso. assert (Hn : nth l s zero <> zero) by (intros E2; apply (feqb_spec F) in E2; congruence).
          pose proof (retained0_keeps (pick i) s l Hl Hn) as Hin. rewrite E in Hin. exact Hin. }
        simpl. rewrite (Hf 0 Hs (Hz 0 Hs)). rewrite sumn_zero; [ring|]. intros l Hl. apply Hf; [exact Hl|apply Hz; exact Hl].
      - rewrite <- E. rewrite <- (suml_nth' 0 (retained (pick i) s zero) f).
        destruct (retained_filter (pick i) s zero) as [g Eg]. rewrite Eg, suml_filter, suml_seq.
        apply sumn_ext. intros l Hl. destruct (g l) eqn:Egl; [reflexivity|]. symmetry. apply Hf; [exact Hl|].
        destruct (feqb F (nth l s zero) zero) eqn:El; [apply feqb_spec; exact El|].
        exfalso. assert (Hn : nth l s zero <> zero) by (intros E2; apply (feqb_spec F) in E2; congruence).
        pose proof (retained0_keeps (pick i) s l Hl Hn) as Hin. rewrite Eg in Hin. apply filter_In in Hin.
        destruct Hin as [_ Hin]. congruence.
    Qed.
  End Sums.
End Retained0.
