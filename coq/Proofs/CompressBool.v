(* C13 — boolean checkers for the hypotheses of the compression theorems, used by the non-vacuity Example
   (bond dimension one on every truncated bond: the argsort answer is [0]). *)
From Coq Require Import ZArith List Bool Lia Arith Permutation.
From PT Require Import Base.Scalar Base.Field Base.BigSum Base.Mx Model.Tensor Model.BondOps Model.Orthonormalize.
From PT Require Import Proofs.BondOpsRetained Proofs.BondOpsSVD Proofs.CompressLocal Proofs.CompressSweep Proofs.CompressTop.
Import ListNotations.

Section CBool.
  Variable F : ofield.
  Notation CF := (Cx F).
  Variable dqr : mx CF -> mx CF * mx CF.
  Variable dsvd : mx CF -> mx CF * list F * mx CF.
  Variable pick : list F -> list nat.
  Variable cabs : CF -> F.

  Definition pick_ok1b (sn : list F) (p : list nat) : bool :=
    Nat.eqb (length sn) 1 && match p with [0] => true | _ => false end.
  Lemma pick_ok1b_sound sn p : pick_ok1b sn p = true -> pick_ok F sn p.
  Proof.
    unfold pick_ok1b. rewrite andb_true_iff, Nat.eqb_eq. intros [Hl Hp].
    destruct p as [|[|?] [|? ?]]; try discriminate. unfold pick_ok. rewrite Hl. split; [apply Permutation_refl|].
    intros a b Hab Hb. assert (b = 0) by lia. assert (a = 0) by lia. subst. apply fle_refl.
  Qed.

  Definition cstep_okb (left : bool) (qd : list Z) (a : site CF * list Z * list Z) : bool :=
    let M := fst (fst (step_mx left qd a)) in let q0 := snd (fst (step_mx left qd a)) in let q1 := snd (step_mx left qd a) in
    forallb (fun B => dsvd_okb F B (dsvd B)) (block_svd_calls M q0 q1) &&
    pick_ok1b (normsq (block_svd_spectrum F dsvd M q0 q1)) (pick (normsq (block_svd_spectrum F dsvd M q0 q1))).

  Lemma compress_hyp_of_bool tol left (p : mps CF) :
    match mps_orthonormalize dqr (negb left) p with
    | Some (p1, _) => forallb (cstep_okb left (m_qd p1)) (compress_args dsvd pick tol left p1)
    | None => false end = true ->
    forall p1 n1, mps_orthonormalize dqr (negb left) p = Some (p1, n1) -> compress_ok dsvd pick tol left p1.
  Proof.
    intros H p1 n1 E. rewrite E in H. unfold compress_ok. apply Forall_forall. intros a Ha.
    rewrite forallb_forall in H. specialize (H a Ha). unfold cstep_okb in H. apply andb_true_iff in H. destruct H as [H1 H2].
    split; [apply (dsvd_ok_forallb F); exact H1|apply pick_ok1b_sound; exact H2].
  Qed.

  Definition abs_okb (t : CF) : bool := fleb F (f0 F) (cabs t) && feqb F (fmul F (cabs t) (cabs t)) (cnorm2 t).
  Lemma abs_hyp_of_bool tol left (p : mps CF) :
    match compress_T dqr dsvd pick tol left p with Some t => abs_okb t | None => true end = true ->
    forall t, compress_T dqr dsvd pick tol left p = Some t -> abs_ok cabs t.
  Proof.
    intros H t E. rewrite E in H. unfold abs_okb in H. apply andb_true_iff in H. destruct H as [H1 H2].
    split; [exact H1|apply feqb_spec; exact H2].
  Qed.
End CBool.
Arguments cstep_okb {F} dsvd pick left qd a.
Arguments abs_okb {F} cabs t.
