(* expm_krylov, Hermitian branch: the result has the norm of the start vector whenever the phases are
   unimodular and the eigenvector matrix returned by eigh_tridiagonal is orthogonal -- for every numiter. *)
From Coq Require Import ZArith List Bool Arith Lia Ring Field.
From PT Require Import Base.Scalar Base.Field Base.BigSum Base.Mx Model.Krylov Proofs.KrylovVec Proofs.KrylovLanczos
  Proofs.KrylovArnoldi Proofs.KrylovMatvec.
Import ListNotations.

Section Expm.
  Variable F : ofield.
  Notation K := (Cx F).
  Add Field Ffield_ke : (f_ft F).
  Add Ring Kring_ke : (k_rt (Cx F)).
  Notation vec := (list K).
  Notation "0" := (k0 K). Notation "1" := (k1 K).
  Infix "+" := (kadd K). Infix "*" := (kmul K).
  Notation conj := (kconj K).
  Variable n : nat.
  Notation vat := (vat F).
  Notation orthonormal := (orthonormal F n).
  Notation delta := (delta F).
  Notation uent U i j := (nth j (nth i U []) (f0 F)).

  (* what is assumed of the eigh_tridiagonal answer here: a k x k real orthogonal matrix
     (U^T U = I, and the first row of U has unit length, i.e. (U U^T)_00 = 1), k eigenvalues *)
  Definition eigh_orth (k : nat) (wU : list F * list (list F)) : Prop :=
    let '(w, U) := wU in
    length w = k /\ length U = k /\ (forall i, i < k -> length (nth i U []) = k) /\
    (forall p q, p < k -> q < k -> sumn k (fun i => cof (uent U i p) * cof (uent U i q)) = delta p q) /\
    sumn k (fun l => cof (uent U 0 l) * cof (uent U 0 l)) = 1.

  Lemma nth_zipw {A B X} (f : A -> B -> X) (x : list A) (y : list B) dx dy d l :
    l < length x -> l < length y -> nth l (zipw f x y) d = f (nth l x dx) (nth l y dy).
  Proof.
    revert y l; induction x as [|a x IH]; intros [|b y] l Hx Hy; cbn [length] in Hx, Hy; try lia.
    destruct l; cbn [zipw nth]; [reflexivity|]. apply IH; lia.
  Qed.

  Lemma cnorm2_mul (a b : K) : cnorm2 (a * b) = fmul F (cnorm2 a) (cnorm2 b).
  Proof. destruct a, b. unfold cnorm2. cbn. ring. Qed.
  Lemma fmul_1_aux (a b : F) : fmul F (fmul F a (f1 F)) b = fmul F a b.
  Proof. ring. Qed.
  Lemma cnorm2_cof r : cnorm2 (@cof F r) = fmul F r r.
  Proof. unfold cnorm2, cof. cbn. ring. Qed.
  Lemma conj_mul_self (a : K) : conj a * a = cof (cnorm2 a).
  Proof. apply (cconj_mul_self F). Qed.
  Lemma nth_map_cof (row : list F) l : nth l (map cof row) 0 = cof (nth l row (f0 F)).
  Proof. change 0 with (@cof F (f0 F)). apply map_nth. Qed.

  (* || sum_i c_i v_i ||^2 = sum_i |c_i|^2 for orthonormal v_i *)
  Lemma vdot_lincomb_orth (Vs : list vec) cs : orthonormal Vs -> length cs = length Vs ->
    vdot (lincomb n cs Vs) (lincomb n cs Vs) = sumn (length Vs) (fun i => conj (nth i cs 0) * nth i cs 0).
  Proof.
    intros Ho Hl. pose proof Ho as [Hlen Hd].
    rewrite (vdot_lincomb_l F n) by (try apply (orth_all F n); try exact Ho; lia).
    apply (sumn_ext (Cx F)). intros i Hi. f_equal.
    rewrite (vdot_lincomb_r F n) by (try apply (orth_all F n); try exact Ho; lia).
    transitivity (sumn (length Vs) (fun j => nth j cs 0 * (if Nat.eqb j i then 1 else 0))).
    - apply (sumn_ext (Cx F)). intros j Hj. fold (vat Vs i). fold (vat Vs j). rewrite Hd by assumption.
      unfold KrylovLanczos.delta. rewrite (Nat.eqb_sym i j). reflexivity.
    - apply (sumn_delta_r (Cx F) (length Vs) i (fun j => nth j cs 0)). exact Hi.
  Qed.

  Variable dexp : K -> K.

  Lemma expm_h_norm (Vs : list vec) w U nrm dt k : orthonormal Vs -> length Vs = k -> 0 < k ->
    eigh_orth k (w, U) -> (forall l, l < k -> cnorm2 (dexp (dt * cof (nth l w (f0 F)))) = f1 F) ->
    nrm2 (lincomb n (expm_coeffs_h F dexp nrm dt w U) Vs) = fmul F nrm nrm.
  Proof.
    intros Ho HV Hk (Hw & HU & Hrow & Hcols & Hrow0) Hph.
    cut (vdot (lincomb n (expm_coeffs_h F dexp nrm dt w U) Vs) (lincomb n (expm_coeffs_h F dexp nrm dt w U) Vs) = cof (fmul F nrm nrm)).
    { intros G. apply cof_inj. rewrite <- vdot_self. exact G. }
    set (y := zipw (fun wk u0k => (cof nrm * dexp (dt * cof wk)) * cof u0k) w (nth 0 U [])).
    assert (Ly : length y = k). { unfold y. rewrite length_zipw; [exact Hw|]. rewrite Hw, Hrow by lia. reflexivity. }
    assert (Hy : forall l, l < k -> nth l y 0 = (cof nrm * dexp (dt * cof (nth l w (f0 F)))) * cof (uent U 0 l)).
    { intros l Hl. unfold y. rewrite (nth_zipw _ _ _ (f0 F) (f0 F)); [reflexivity|lia|rewrite Hrow; lia]. }
    assert (Lc : length (expm_coeffs_h F dexp nrm dt w U) = k). { unfold expm_coeffs_h. rewrite map_length. exact HU. }
    assert (Hc : forall i, i < k -> nth i (expm_coeffs_h F dexp nrm dt w U) 0 = sumn k (fun l => cof (uent U i l) * nth l y 0)).
    { intros i Hi. unfold expm_coeffs_h. fold y.
      change 0 with ((fun row : list F => dotu (map cof row) y) []) at 1. rewrite map_nth.
      rewrite (dotu_sumn F k) by (try exact Ly; rewrite map_length; apply Hrow; exact Hi).
      apply (sumn_ext (Cx F)). intros l Hl. rewrite nth_map_cof. reflexivity. }
    rewrite vdot_lincomb_orth by (try exact Ho; lia). rewrite HV.
    (* sum_i |c_i|^2 = sum_l |y_l|^2 *)
    transitivity (sumn k (fun l => sumn k (fun p => (conj (nth l y 0) * nth p y 0) * sumn k (fun i => cof (uent U i l) * cof (uent U i p))))).
    { transitivity (sumn k (fun i => sumn k (fun l => sumn k (fun p => (conj (nth l y 0) * nth p y 0) * (cof (uent U i l) * cof (uent U i p)))))).
      - apply (sumn_ext (Cx F)). intros i Hi. rewrite Hc by exact Hi. rewrite sumn_conj.
        rewrite <- sumn_scal_r. apply (sumn_ext (Cx F)). intros l Hl. rewrite <- sumn_scal_l. apply (sumn_ext (Cx F)). intros p Hp.
        rewrite kconj_mul, conj_cof. ring.
      - rewrite sumn_exch. apply (sumn_ext (Cx F)). intros l Hl. rewrite sumn_exch. apply (sumn_ext (Cx F)). intros p Hp.
        rewrite sumn_scal_l. reflexivity. }
    transitivity (sumn k (fun l => conj (nth l y 0) * nth l y 0)).
    { apply (sumn_ext (Cx F)). intros l Hl.
      transitivity (sumn k (fun p => (conj (nth l y 0) * nth p y 0) * (if Nat.eqb p l then 1 else 0))).
      - apply (sumn_ext (Cx F)). intros p Hp. rewrite Hcols by assumption. unfold KrylovLanczos.delta. rewrite (Nat.eqb_sym l p). reflexivity.
      - apply (sumn_delta_r (Cx F) k l (fun p => conj (nth l y 0) * nth p y 0)). exact Hl. }
    transitivity (sumn k (fun l => cof (fmul F nrm nrm) * (cof (uent U 0 l) * cof (uent U 0 l)))).
    { apply (sumn_ext (Cx F)). intros l Hl. rewrite conj_mul_self, Hy by exact Hl.
      rewrite !cnorm2_mul, !cnorm2_cof, Hph by exact Hl. rewrite <- !cof_mul. apply (f_equal (@cof F)). apply fmul_1_aux. }
    rewrite sumn_scal_l, Hrow0. ring.
  Qed.

  Variable Afunc : vec -> vec.
  Variable dnorm : vec -> F.
  Variable small : F -> bool.
  Variable deigh : list F -> list F -> list F * list (list F).
  Variable dexpm : list (list K) -> list (list K).
  Hypothesis A_len : maps_len F n Afunc.
  Hypothesis A_sa : self_adjoint F n Afunc.
  Hypothesis small_pos : small_sound F small.

  (* the oracle contracts, required only for the calls the model issues on this input *)
  Definition expm_h_oracles_ok (v : vec) (dt : K) (m : nat) : Prop :=
    forall al be (Vs : list vec) wn, lanczos F Afunc dnorm small v m = Some (al, be, Vs, wn) ->
      eigh_orth (length Vs) (deigh al be) /\
      (forall l, l < length Vs -> cnorm2 (dexp (dt * cof (nth l (fst (deigh al be)) (f0 F)))) = f1 F).

  Theorem expm_hermitian_isometry (v : vec) (dt : K) (m : nat) : length v = n -> v <> vzero n -> 1 <= m ->
    Forall (norm_ok F) (lanczos_calls F Afunc dnorm small v m) -> expm_h_oracles_ok v dt m ->
    exists x, expm_krylov F Afunc dnorm small deigh dexp dexpm v dt m true = Some x /\
              length x = n /\ nrm2 x = nrm2 v.
  Proof.
    intros Hv Hnz Hm HC HO.
    destruct (lanczos_spec F n Afunc dnorm small A_len A_sa small_pos v m Hv Hnz Hm HC) as (r & Hr & HP & _).
    destruct r as [[[al be] Vs] wn]. destruct (HO al be Vs wn Hr) as [HE Hph].
    unfold expm_krylov, expm_krylov_h. rewrite Hr. destruct (deigh al be) as [w U] eqn:ED. cbn [fst] in Hph.
    destruct HP as (H1 & _ & _ & _ & _ & Ho & _).
    eexists. split; [reflexivity|]. split.
    - rewrite Hv. apply length_lincomb. apply (orth_all F n). exact Ho.
    - rewrite Hv. rewrite (expm_h_norm Vs w U (dnorm v) dt (length Vs)); auto.
      assert (Hc : norm_ok F (v, dnorm v)).
      { unfold lanczos_calls in HC. inversion HC; assumption. }
      apply Hc.
  Qed.
End Expm.
