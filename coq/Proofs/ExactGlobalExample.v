(* C09 exactness -- the naturality contract on the rational nilpotent example of Proofs/ExactExample.v, and the link between
   [Hvec] and the model's MPO.as_matrix.
     H = sigma^+ (x) sigma^+ (H^2 = 0),  site solver kexp_x(t) X = X + t * apply_local_hamiltonian BL BR W X  (the exact polynomial
     exponential of the local operator: it is nilpotent whenever it is unitarily similar to H),  G t v = v + t * Hdense v.
   [kexp_x_natural]: for EVERY linear map E with  E o H_loc = Hdense o E  one has  E (kexp_x(t) X) = G t (E X)  -- proved for all
   arguments over any cring (only linearity of E and the length of E X are used: a polynomial in the operator is natural with
   respect to every linear intertwiner).  [e_exact_natural]: the conclusion of tdvp1_exact_natural for the rational run. *)
From Coq Require Import ZArith QArith Qcanon List Bool Lia Ring.
From PT Require Import Base.Scalar Base.BigSum Base.Mx Model.Tensor Model.Operation Model.Sweeps
  Proofs.OperationEntries Proofs.SweepsCanon Proofs.MPSOpsBase Proofs.MPSOpsDense Proofs.MPSOpsLaws
  Proofs.ReverseDefs Proofs.ReverseMx Proofs.ReverseGauge Proofs.ReverseExample
  Proofs.ExactDefs Proofs.ExactMx Proofs.ExactLocal Proofs.ExactRun Proofs.ExactExample
  Proofs.ExactGlobalDefs Proofs.ExactGlobalTop.
Import ListNotations.
Open Scope nat_scope.

(* [Hvec] is multiplication with the matrix returned by the model's MPO.as_matrix (Model/MPSOps.v), whenever that succeeds *)
Lemma Hvec_as_matrix (R : cring) d DsW (Hs : list (osite R)) M :
  ochain_shape d DsW Hs = true -> bdim1 DsW = true -> Hs <> [] -> MPSOps.as_matrix Hs = Some M ->
  forall v, Hvec d Hs v = matvec M v.
Proof.
  intros Hsh Hb Hne HM v. rewrite (as_matrix_opamp R d DsW Hs Hsh Hb Hne) in HM. injection HM as <-. reflexivity.
Qed.

Section ExNatural.
  Variable R : cring.
  Add Ring Rring_exact_gex : (k_rt R).
  Notation mx := (mx R).
  Notation site := (site R).
  Notation env := (env R).
  Infix "*" := (kmul R).
  Variable Ds : nat -> nat.

  (* the solver is  X + t * H_loc X *)
  Lemma kexp_x_poly p Dl Dr (BL BR : env) (X : site) t : wsite 2 Dl Dr X -> wenv 1 Dl Dl BL -> wenv 1 Dr Dr BR ->
    kexp_x R p BL BR (Wx R) X t = add_site X (scale_site t (apply_local_hamiltonian BL BR (Wx R) X)).
  Proof.
    intros HX HBL HBR. rewrite (alh_x R Dl Dr BL BR X HX HBL HBR).
    destruct (wsite2_sel R _ _ X HX) as (EX & (x00 & x01 & x02) & (x10 & x11 & x12)).
    unfold kexp_x, add_site, scale_site. rewrite (proj1 HX). cbn [tabl seq map sel nth].
    f_equal. f_equal. rewrite scalemx_zero.
    rewrite <- x11 at 1. rewrite <- x12 at 1. symmetry. apply addmx_zero_r. exact x10.
  Qed.

  (* the global flow is  v + t * Hdense v  on vectors of length 4 *)
  Lemma Gx_poly t (v : list R) : length v = 4 -> Gx R t v = vadd v (vscale t (Hvec 2 (Hsx R) v)).
  Proof.
    intros Hl. destruct v as [|a [|b [|c [|e [|? ?]]]]]; try discriminate.
    unfold Gx, vadd, vscale, Hvec, matvec. cbv -[K kadd kmul k0 k1]. f_equal; [|f_equal; [|f_equal; [|f_equal]]]; ring.
  Qed.

  Theorem kexp_x_natural m : m < 2 -> solver_natural (Hsx R) 2 Ds (DWx) (Gx R) m (kexp_x R).
  Proof.
    intros Hm E Einv p BL BR wBL wBR (Ulen & Uadd & Uscale & _) Hint X t HX.
    assert (EW : nth m (Hsx R) [] = Wx R) by (destruct m as [|[|m]]; [reflexivity|reflexivity|lia]). rewrite EW in *.
    unfold DWx in *.
    assert (HHX : wsite 2 (Ds m) (Ds (S m)) (apply_local_hamiltonian BL BR (Wx R) X)).
    { apply (wsite_alh R 2 (Ds m) (Ds (S m)) 1 1); try lia; try assumption. apply Wx_ok. }
    rewrite (kexp_x_poly p (Ds m) (Ds (S m)) BL BR X t HX wBL wBR).
    rewrite Uadd by (try assumption; apply wsite_scale; exact HHX). rewrite Uscale by exact HHX. rewrite Hint by exact HX.
    symmetry. apply Gx_poly. rewrite (Ulen X HX). reflexivity.
  Qed.
End ExNatural.

(* the rational run of Proofs/ExactExample.v through the theorem with the naturality contract *)
Theorem e_exact_natural :
  rn e_run = snd (x_orth e_Psi) /\
  dense 2 2 (rA e_run) = Gx Qcring (nmul e_steps e_dt) (dense 2 2 (m_A (fst (x_orth e_Psi)))).
Proof.
  pose proof e_shapes as Hs. cbn [forallb] in Hs. rewrite !andb_true_iff in Hs. destruct Hs as (s0 & s1 & _).
  apply (tdvp1_exact_natural Qcring x_orth e_qr (kexp_x Qcring) (kexp0_x Qcring) e_H e_Psi e_dt e_hdt e_steps 2 xDs (DWx) 1 (Gx Qcring)
           (rA e_run) (rq e_run) (rn e_run) (rt e_run)).
  - exact (some_proj e_run e_run_some).
  - lia.
  - intros j Hj. cbn [e_H o_A length] in Hj. destruct j as [|[|j]]; [exact (Wx_ok Qcring)|exact (Wx_ok Qcring)|lia].
  - intros j. unfold DWx. lia.
  - reflexivity.
  - reflexivity.
  - split; [reflexivity|]. split; [reflexivity|]. split; [cbn [e_H o_A length]; lia|]. split.
    + intros j Hj. assert (j = 0) by lia. subst j. reflexivity.
    + intros j Hj. cbn [e_H o_A length] in Hj. lia.
  - exact e_hdt2.
  - exact (kexp_x_flow Qcring xDs).
  - exact (kexp0_x_shape Qcring xDs).
  - exact (kexp_x_IL Qcring xDs).
  - exact (kexp_x_IR Qcring xDs).
  - exact (kexp_x_natural Qcring xDs 1 ltac:(lia)).
  - exact (Gx_flow Qcring).
  - intros j Hj. cbn [e_H o_A length] in Hj. destruct j as [|[|j]]; [exact (site_shape_w Qcring 2 1 2 _ s0)|exact (site_shape_w Qcring 2 2 1 _ s1)|lia].
  - intros j Hj. cbn [e_H o_A length] in Hj. lia.
  - exact (e_tr_okb_ok _ e_tr_ok).
Qed.

(* the model's as_matrix of the example operator succeeds, so Hvec is the product with MPO.as_matrix(e_H) *)
Lemma e_as_matrix : exists M, MPSOps.as_matrix (o_A e_H) = Some M /\ forall v, Hvec 2 (o_A e_H) v = matvec M v.
Proof.
  exists (opamp_table 2 (o_A e_H)).
  assert (HM : MPSOps.as_matrix (o_A e_H) = Some (opamp_table 2 (o_A e_H))).
  { apply (as_matrix_opamp Qcring 2 [1; 1; 1]); [vm_compute; reflexivity|reflexivity|discriminate]. }
  split; [exact HM|]. intros v. reflexivity.
Qed.
