(* C05: the proved model of minimum_vertex_cover (Model/Bipartite.v, C18) is a good cover oracle,
   so that graph construction needs no hypothesis on the cover at all. *)
From Coq Require Import ZArith List Lia Bool.
From PT Require Import Base.Scalar Base.BigSum Model.OpGraph Model.Bipartite Model.FromOpchains
                       Proofs.BipartiteCert Proofs.BipartiteGraphSem Proofs.BipartiteKonig Proofs.BipartiteTotal
                       Proofs.FromOpchainsOk1 Proofs.FromOpchainsOk3.
Import ListNotations.
Open Scope Z_scope.

Lemma NoDup_nodupn l : NoDup l -> nodupn l = true.
Proof.
  induction 1 as [|x l Hx _ IH]; simpl; [reflexivity|]. rewrite IH, andb_true_r.
  destruct (existsb (Nat.eqb x) l) eqn:E; [|reflexivity]. apply nmem_In in E. contradiction.
Qed.
Lemma NoDup_map_to_nat l : NoDup l -> (forall x, In x l -> 0 <= x) -> NoDup (map Z.to_nat l).
Proof.
  induction 1 as [|a l Ha _ IH]; simpl; intros Hp; [constructor|]. constructor.
  - intros Hin. apply in_map_iff in Hin. destruct Hin as [y [Ey Hy]].
    assert (y = a). { pose proof (Hp y (or_intror Hy)). pose proof (Hp a (or_introl eq_refl)). lia. }
    subst. contradiction.
  - apply IH. intros x Hx. apply Hp. right. exact Hx.
Qed.

Theorem cover_model_good : cover_good cover_model.
Proof.
  intros n_u n_v es Hr. unfold cover_model.
  set (esZ := map (fun e : nat * nat => (Z.of_nat (fst e), Z.of_nat (snd e))) es).
  assert (Hok : forall e, In e esZ -> edge_ok n_u n_v e).
  { intros e He. apply in_map_iff in He. destruct He as [[a b] [<- Hab]]. destruct (Hr _ Hab) as [A B]. unfold edge_ok. simpl in *. lia. }
  destruct (mvc_total_mk n_u n_v esZ Hok) as [m [uc [vc [_ [Emvc [_ [Hcov [Hwf [_ [_ Hmin]]]]]]]]]].
  cbn zeta in *. rewrite Emvc.
  pose proof (mk_bg_nu n_u n_v esZ Hok) as Enu. pose proof (mk_bg_nv n_u n_v esZ Hok) as Env.
  destruct Hwf as [W1 [W2 [_ [_ [W3 [W4 _]]]]]]. rewrite Enu in W1. rewrite Env in W2.
  unfold cover_okb. cbn [fst snd]. rewrite !andb_true_iff. repeat split.
  - apply NoDup_nodupn, NoDup_map_to_nat; [exact W3|]. intros x Hx. apply W1 in Hx. lia.
  - apply NoDup_nodupn, NoDup_map_to_nat; [exact W4|]. intros x Hx. apply W2 in Hx. lia.
  - apply forallb_forall. intros i Hi. apply in_map_iff in Hi. destruct Hi as [u [<- Hu]]. apply W1 in Hu. apply Nat.ltb_lt. lia.
  - apply forallb_forall. intros j Hj. apply in_map_iff in Hj. destruct Hj as [v [<- Hv]]. apply W2 in Hv. apply Nat.ltb_lt. lia.
  - apply forallb_forall. intros [i j] He. destruct (Hr _ He) as [A B]. cbn [fst snd] in *.
    assert (HE : has_edge (mk_bg n_u n_v esZ) (Z.of_nat i) (Z.of_nat j) = true).
    { unfold has_edge, in_range. rewrite Enu, Env. rewrite !andb_true_iff. repeat split; try (apply Z.leb_le; lia); try (apply Z.ltb_lt; lia).
      apply mem_In. apply (mk_bg_adj_u n_u n_v esZ Hok); [lia|]. apply in_map_iff. exists (i, j). auto. }
    apply orb_true_iff. destruct (Hcov _ _ HE) as [H|H]; [left|right]; apply nmem_In; apply in_map_iff.
    + exists (Z.of_nat i). split; [apply Nat2Z.id|exact H].
    + exists (Z.of_nat j). split; [apply Nat2Z.id|exact H].
  - destruct (Nat.eqb n_v 1) eqn:E1; [|reflexivity]. apply Nat.eqb_eq in E1. cbn [negb orb]. apply Nat.leb_le.
    rewrite !map_length.
    assert (Hc0 : Cover (mk_bg n_u n_v esZ) [] [0]).
    { intros u v HE. right. unfold has_edge, in_range in HE. rewrite Env, E1 in HE. rewrite !andb_true_iff in HE.
      destruct HE as [[_ [H1 H2]] _]. apply Z.leb_le in H1. apply Z.ltb_lt in H2. left. lia. }
    specialize (Hmin [] [0] Hc0). simpl in Hmin. lia.
Qed.

(* for every well-formed chain list the model with the Bipartite.v cover returns a graph *)
Theorem from_opchains_ok_model (R : cring) (chains : list (chain R)) L idn :
  wf_chains L chains = true -> (1 <= L)%nat -> exists g, from_opchains cover_model chains L idn = Ok g.
Proof. intros Hwf HL. apply from_opchains_ok_good; auto. apply cover_model_good. Qed.
