(* C09 — the forward run: per-call contracts read off the trace, unfolding of the three loop bodies of
   integrate_local_singlesite (Model/Sweeps.v) into pointwise equations, and the (nth-based) mixed-canonical invariant
   [FI] with constant bond dimensions (every R factor is square and invertible) and its preservation. *)
From Coq Require Import ZArith Arith List Lia Ring Setoid Bool.
From PT Require Import Base.Scalar Base.BigSum Base.Mx Model.Tensor Model.Operation Model.Sweeps
  Proofs.OperationEntries Proofs.OperationLocal Proofs.SweepsCanon Proofs.SweepsFlow Proofs.SweepsGauge
  Proofs.ReverseDefs Proofs.ReverseMx Proofs.ReverseGauge Proofs.ReverseQR.
Import ListNotations.

Lemma nth_lset_if {T} (l : list T) i k x dflt : i < length l -> nth k (lset l i x) dflt = if Nat.eqb k i then x else nth k l dflt.
Proof.
  intros Hi. destruct (Nat.eqb_spec k i) as [->|Hne]; [apply nth_lset_same; exact Hi|apply nth_lset_other; lia].
Qed.

Section Fwd.
  Variable R : cring.
  Add Ring Rring_reverse_fwd : (k_rt R).
  Notation site := (site R).
  Notation osite := (osite R).
  Notation env := (env R).
  Notation mx := (mx R).
  Notation sw := (sw R).
  Variable qr : nat -> mx -> list BinNums.Z -> list BinNums.Z -> mx * mx * list BinNums.Z.
  Variable kexp : kexp_t R.
  Variable kexp0 : kexp0_t R.
  Variable Hs : list osite.
  Variable qd : list BinNums.Z.
  Variable d : nat.
  Variables Ds DW : nat -> nat.
  Notation L := (length Hs).

  (* ---------------- contracts of the calls recorded in a trace ----------------
     every QR answer is a well-formed factorisation with invertible R; with [kb] also every evolved bond matrix is
     invertible (full rank: the bond dimensions stay what they are) *)
  Definition rev_call_ok (kb : bool) (dt hdt : R) (p : nat) (t : tcall R) : Prop :=
    match c_kind (t_call t), t_envs t, t_ten t, t_qs t with
    | QR, _, [[M]], [q0; q1] => qr_good M (qr p M q0 q1)
    | KB, [BL; BR], [[C]], _ => if kb then invertible (nr C) (kexp0 p BL BR C (tval dt hdt (c_coef (t_call t)))) else True
    | _, _, _, _ => True
    end.
  Fixpoint rev_tr_ok (kb : bool) (dt hdt : R) (tr : list (tcall R)) : Prop :=
    match tr with [] => True | t :: rest => rev_call_ok kb dt hdt (length rest) t /\ rev_tr_ok kb dt hdt rest end.
  Lemma rev_tr_ok_suffix kb dt hdt new old : rev_tr_ok kb dt hdt (new ++ old) -> rev_tr_ok kb dt hdt old.
  Proof. induction new as [|t new IH]; [exact (fun H => H)|]. cbn [app rev_tr_ok]. intros [_ H]. exact (IH H). Qed.

  (* ---------------- the loop bodies, unfolded ---------------- *)
  Section Unfold.
    Variables (kb : bool) (dt hdt : R).
    Notation lr := (tdvp1_lr qr kexp kexp0 Hs qd dt hdt).
    Notation rl := (tdvp1_rl qr kexp kexp0 Hs qd dt hdt).
    Notation mid := (tdvp1_mid kexp Hs dt hdt).

    Lemma lr_unfold (st : sw) i : S i < length (s_A st) -> S i < length (s_BL st) ->
      rev_tr_ok kb dt hdt (s_tr (lr st i)) ->
      exists (p p' : nat) (Q C : mx) (qb : list BinNums.Z),
        let W := nth i Hs [] in
        let A1 := kexp p (gBL st i) (gBR st i) W (gA st i) hdt in
        let Aq := site_unflat (length A1) (sdl A1) Q in
        let BLn := contraction_operator_step_left Aq Aq W (gBL st i) in
        let C1 := kexp0 p' BLn (gBR st i) C (kopp R hdt) in
        qr_good (site_flat A1) (Q, C, qb) /\ (kb = true -> invertible (nr C) C1) /\
        (forall k, gA (lr st i) k = if Nat.eqb k i then Aq else if Nat.eqb k (S i) then lmul_site C1 (gA st (S i)) else gA st k) /\
        (forall k, gBL (lr st i) k = if Nat.eqb k (S i) then BLn else gBL st k) /\
        (forall k, gBR (lr st i) k = gBR st k) /\
        length (s_A (lr st i)) = length (s_A st) /\ length (s_BL (lr st i)) = length (s_BL st) /\ length (s_BR (lr st i)) = length (s_BR st).
    Proof.
      intros HA HBL Hok. unfold tdvp1_lr, qr_left in *. cbv zeta in *.
      set (A1 := kexp (length (s_tr st)) (gBL st i) (gBR st i) (nth i Hs []) (gA st i) (tval dt hdt 1)) in *.
      destruct (qr (S (length (s_tr st))) (site_flat A1) (qflat qd (gq st i)) (gq st (S i))) as [[Q C] qb] eqn:Eq.
      cbn [s_tr s_A s_BL s_BR] in *. destruct Hok as (HcB & _ & HcQ & _).
      unfold rev_call_ok in HcB, HcQ. cbn [at_site t_call c_kind c_site c_coef t_envs t_ten t_qs length] in HcB, HcQ. rewrite Eq in HcQ.
      exists (length (s_tr st)), (S (S (S (length (s_tr st))))), Q, C, qb. cbv zeta.
      change (tval dt hdt 1) with hdt in *. change (tval dt hdt (-1)) with (kopp R hdt) in *. fold A1.
      split; [exact HcQ|]. split; [intros ->; exact HcB|].
      split; [|split; [|split; [|split; [|split]]]].
      - intros k. unfold gA. cbn [s_A]. rewrite nth_lset_if by (rewrite lset_length; lia).
        destruct (Nat.eqb_spec k (S i)) as [->|Hne].
        + replace (Nat.eqb (S i) i) with false by (symmetry; apply Nat.eqb_neq; lia). reflexivity.
        + rewrite nth_lset_if by lia. reflexivity.
      - intros k. unfold gBL. cbn [s_BL]. apply nth_lset_if. lia.
      - intros k. reflexivity.
      - rewrite !lset_length. reflexivity.
      - rewrite lset_length. reflexivity.
      - reflexivity.
    Qed.

    Lemma rl_unfold (st : sw) i : 0 < i -> i < length (s_A st) -> i < length (s_BR st) ->
      rev_tr_ok kb dt hdt (s_tr (rl st i)) ->
      exists (p' p'' : nat) (Q C : mx) (qb : list BinNums.Z),
        let W := nth i Hs [] in
        let Aq := site_tr (site_unflat (length (site_tr (gA st i))) (sdl (site_tr (gA st i))) Q) in
        let BRn := contraction_operator_step_right Aq Aq W (gBR st i) in
        let C1 := kexp0 p' (gBL st i) BRn (trmx C) (kopp R hdt) in
        let Ap1 := kexp p'' (gBL st (i - 1)) BRn (nth (i - 1) Hs []) (rmul_site (gA st (i - 1)) C1) hdt in
        qr_good (site_flat (site_tr (gA st i))) (Q, C, qb) /\ (kb = true -> invertible (nc C) C1) /\
        (forall k, gA (rl st i) k = if Nat.eqb k (i - 1) then Ap1 else if Nat.eqb k i then Aq else gA st k) /\
        (forall k, gBL (rl st i) k = gBL st k) /\
        (forall k, gBR (rl st i) k = if Nat.eqb k (i - 1) then BRn else gBR st k) /\
        length (s_A (rl st i)) = length (s_A st) /\ length (s_BL (rl st i)) = length (s_BL st) /\ length (s_BR (rl st i)) = length (s_BR st).
    Proof.
      intros Hi HA HBR Hok. unfold tdvp1_rl, qr_right in *. cbv zeta in *.
      destruct (qr (length (s_tr st)) (site_flat (site_tr (gA st i))) (qflat qd (zneg (gq st (S i)))) (zneg (gq st i))) as [[Q C] qb] eqn:Eq.
      cbn [s_tr s_A s_BL s_BR] in *. destruct Hok as (_ & HcB & _ & HcQ & _).
      unfold rev_call_ok in HcB, HcQ. cbn [at_site t_call c_kind c_site c_coef t_envs t_ten t_qs length] in HcB, HcQ. rewrite Eq in HcQ.
      exists (S (S (length (s_tr st)))), (S (S (S (length (s_tr st))))), Q, C, qb. cbv zeta.
      change (tval dt hdt 1) with hdt in *. change (tval dt hdt (-1)) with (kopp R hdt) in *.
      split; [exact HcQ|]. split; [intros ->; exact HcB|].
      split; [|split; [|split; [|split; [|split]]]].
      - intros k. unfold gA. cbn [s_A]. rewrite nth_lset_if by (rewrite lset_length; lia).
        destruct (Nat.eqb_spec k (i - 1)) as [->|Hne]; [reflexivity|].
        rewrite nth_lset_if by lia. reflexivity.
      - intros k. reflexivity.
      - intros k. unfold gBR. cbn [s_BR]. apply nth_lset_if. lia.
      - rewrite !lset_length. reflexivity.
      - reflexivity.
      - rewrite lset_length. reflexivity.
    Qed.

    Lemma mid_unfold (st : sw) i : i < length (s_A st) ->
      exists p,
        (forall k, gA (mid st i) k = if Nat.eqb k i then kexp p (gBL st i) (gBR st i) (nth i Hs []) (gA st i) dt else gA st k) /\
        (forall k, gBL (mid st i) k = gBL st k) /\ (forall k, gBR (mid st i) k = gBR st k) /\
        length (s_A (mid st i)) = length (s_A st) /\ length (s_BL (mid st i)) = length (s_BL st) /\ length (s_BR (mid st i)) = length (s_BR st).
    Proof.
      intros HA. unfold tdvp1_mid. exists (length (s_tr st)). change (tval dt hdt 2) with dt.
      split; [|split; [|split; [|split; [|split]]]]; try (intros k; reflexivity); try reflexivity.
      - intros k. unfold gA at 1. cbn [s_A]. apply nth_lset_if. exact HA.
      - cbn [s_A]. apply lset_length.
    Qed.
  End Unfold.

  (* ---------------- the forward invariant ---------------- *)
  Hypothesis Hd : 0 < d.
  Hypothesis HW : forall j, j < L -> osite_ok d (DW j) (DW (S j)) (nth j Hs []).
  Hypothesis HDW : forall j, 0 < DW j.
  Hypothesis Hk : kexp_flow d kexp.
  Hypothesis Hk0 : kexp0_flow kexp0.

  Definition FI (i : nat) (st : sw) : Prop :=
    length (s_A st) = L /\ length (s_BL st) = L /\ length (s_BR st) = L /\
    (forall j, j < L -> wsite d (Ds j) (Ds (S j)) (gA st j)) /\
    (forall j, j < i -> left_iso (gA st j)) /\ (forall j, i < j < L -> right_iso (gA st j)) /\
    (forall j, j <= i -> wenv (DW j) (Ds j) (Ds j) (gBL st j)) /\
    (forall j, i <= j < L -> wenv (DW (S j)) (Ds (S j)) (Ds (S j)) (gBR st j)) /\
    (forall j, j < i -> gBL st (S j) = contraction_operator_step_left (gA st j) (gA st j) (nth j Hs []) (gBL st j)) /\
    (forall j, i < j < L -> gBR st (j - 1) = contraction_operator_step_right (gA st j) (gA st j) (nth j Hs []) (gBR st j)) /\
    gBL st 0 = env_one /\ gBR st (L - 1) = env_one.

  Lemma wenv_stepL j (Aq : site) (E : env) : j < L -> wsite d (Ds j) (Ds (S j)) Aq ->
    wenv (DW (S j)) (Ds (S j)) (Ds (S j)) (contraction_operator_step_left Aq Aq (nth j Hs []) E).
  Proof.
    intros Hj HAq. pose proof (wenv_opstep_left R Aq Aq (nth j Hs []) E) as H.
    destruct (osite_ok_odl R _ _ _ _ Hd (HW j Hj)) as (W1 & W2 & W3).
    destruct (site_ok_sdl R _ _ _ _ Hd (wsite_ok R _ _ _ _ HAq)) as (E1 & E2 & E3). rewrite W2, E2 in H. exact H.
  Qed.
  Lemma wenv_stepR j (Aq : site) (E : env) : j < L -> wsite d (Ds j) (Ds (S j)) Aq ->
    wenv (DW j) (Ds j) (Ds j) (contraction_operator_step_right Aq Aq (nth j Hs []) E).
  Proof.
    intros Hj HAq. pose proof (wenv_opstep_right R Aq Aq (nth j Hs []) E) as H.
    destruct (osite_ok_odl R _ _ _ _ Hd (HW j Hj)) as (W1 & W2 & W3).
    destruct (site_ok_sdl R _ _ _ _ Hd (wsite_ok R _ _ _ _ HAq)) as (E1 & E2 & E3). rewrite W1, E1 in H. exact H.
  Qed.
  Lemma wsite_lmul d0 k Dl Dr (T : mx) (A : site) : wsite d0 Dl Dr A -> wmx k Dl T -> wsite d0 k Dr (lmul_site T A).
  Proof. intros HA (t0 & t1 & t2). apply (wsite_map R d0 Dl Dr); [exact HA|]. intros M (m0 & m1 & m2). split; [apply wf_mulmx|split; shp]. Qed.
  Lemma wsite_rmul d0 k Dl Dr (T : mx) (A : site) : wsite d0 Dl Dr A -> wmx Dr k T -> wsite d0 Dl k (rmul_site A T).
  Proof. intros HA (t0 & t1 & t2). apply (wsite_map R d0 Dl Dr); [exact HA|]. intros M (m0 & m1 & m2). split; [apply wf_mulmx|split; shp]. Qed.

  Variables (dt hdt : R).
  Notation lr := (tdvp1_lr qr kexp kexp0 Hs qd dt hdt).
  Notation rl := (tdvp1_rl qr kexp kexp0 Hs qd dt hdt).
  Notation mid := (tdvp1_mid kexp Hs dt hdt).
  Notation fok := (rev_tr_ok true dt hdt).

  (* facts about one forward left-to-right body *)
  Lemma lr_facts (X : sw) i : FI i X -> S i < L -> fok (s_tr (lr X i)) ->
    exists p p' Aq C,
      let W := nth i Hs [] in
      let A1 := kexp p (gBL X i) (gBR X i) W (gA X i) hdt in
      let BLn := contraction_operator_step_left Aq Aq W (gBL X i) in
      let C1 := kexp0 p' BLn (gBR X i) C (kopp R hdt) in
      wsite d (Ds i) (Ds (S i)) A1 /\ wsite d (Ds i) (Ds (S i)) Aq /\ left_iso Aq /\ invertible (Ds (S i)) C /\ A1 = rmul_site Aq C /\
      invertible (Ds (S i)) C1 /\ wenv (DW (S i)) (Ds (S i)) (Ds (S i)) BLn /\
      (forall k, gA (lr X i) k = if Nat.eqb k i then Aq else if Nat.eqb k (S i) then lmul_site C1 (gA X (S i)) else gA X k) /\
      (forall k, gBL (lr X i) k = if Nat.eqb k (S i) then BLn else gBL X k) /\
      (forall k, gBR (lr X i) k = gBR X k) /\
      length (s_A (lr X i)) = L /\ length (s_BL (lr X i)) = L /\ length (s_BR (lr X i)) = L.
  Proof.
    intros (lA & lBL & lBR & Hsh & Hli & Hri & HwL & HwR & HrL & HrR & H0 & HL1) HSi Hok.
    destruct (lr_unfold true dt hdt X i ltac:(lia) ltac:(lia) Hok) as (p & p' & Q & C & qb & Hq & HC1 & EA & EBL & EBR & l1 & l2 & l3).
    cbv zeta in *. set (A1 := kexp p (gBL X i) (gBR X i) (nth i Hs []) (gA X i) hdt) in *.
    assert (HA1 : wsite d (Ds i) (Ds (S i)) A1) by (destruct Hk as (Hsh' & _); apply Hsh'; apply Hsh; lia).
    destruct (qr_left_good R d (Ds i) (Ds (S i)) A1 Q C qb Hd HA1 Hq) as (HAq & Hiso & HinvC & EA1).
    exists p, p', (site_unflat (length A1) (sdl A1) Q), C. cbv zeta. fold A1.
    set (Aq := site_unflat (length A1) (sdl A1) Q) in *.
    destruct HinvC as ((c0 & c1 & c2) & HCi). specialize (HC1 eq_refl). rewrite c1 in HC1.
    split; [exact HA1|]. split; [exact HAq|]. split; [exact Hiso|]. split; [split; [repeat split; assumption|exact HCi]|]. split; [exact EA1|].
    split; [exact HC1|]. split; [apply wenv_stepL; [lia|exact HAq]|].
    split; [exact EA|]. split; [exact EBL|]. split; [exact EBR|]. split; [lia|]. split; lia.
  Qed.

  Lemma FI_lr (X : sw) i : FI i X -> S i < L -> fok (s_tr (lr X i)) -> FI (S i) (lr X i).
  Proof.
    intros HFI HSi Hok. destruct (lr_facts X i HFI HSi Hok) as (p & p' & Aq & C & HA1 & HAq & Hiso & HinvC & EA1 & HinvC1 & HBLn & EA & EBL & EBR & l1 & l2 & l3).
    cbv zeta in *. destruct HFI as (lA & lBL & lBR & Hsh & Hli & Hri & HwL & HwR & HrL & HrR & H0 & HL1).
    set (C1 := kexp0 p' _ _ C (kopp R hdt)) in *.
    split; [exact l1|]. split; [exact l2|]. split; [exact l3|].
    split.
    { intros j Hj. rewrite EA. destruct (Nat.eqb_spec j i) as [->|N1]; [exact HAq|].
      destruct (Nat.eqb_spec j (S i)) as [->|N2]; [|apply Hsh; exact Hj].
      apply (wsite_lmul d (Ds (S i)) (Ds (S i))); [apply Hsh; exact Hj|exact (proj1 HinvC1)]. }
    split.
    { intros j Hj. rewrite EA. destruct (Nat.eqb_spec j i) as [->|N1]; [exact Hiso|].
      destruct (Nat.eqb_spec j (S i)) as [->|N2]; [lia|]. apply Hli. lia. }
    split.
    { intros j Hj. rewrite EA. destruct (Nat.eqb_spec j i) as [->|N1]; [lia|].
      destruct (Nat.eqb_spec j (S i)) as [->|N2]; [lia|]. apply Hri. lia. }
    split.
    { intros j Hj. rewrite EBL. destruct (Nat.eqb_spec j (S i)) as [->|N1]; [exact HBLn|]. apply HwL. lia. }
    split.
    { intros j Hj. rewrite EBR. apply HwR. lia. }
    split.
    { intros j Hj. rewrite (EBL (S j)), (EBL j), (EA j).
      destruct (Nat.eqb_spec j i) as [->|N1].
      - rewrite Nat.eqb_refl. replace (Nat.eqb i (S i)) with false by (symmetry; apply Nat.eqb_neq; lia). reflexivity.
      - replace (Nat.eqb (S j) (S i)) with false by (symmetry; apply Nat.eqb_neq; lia).
        replace (Nat.eqb j (S i)) with false by (symmetry; apply Nat.eqb_neq; lia). apply HrL. lia. }
    split.
    { intros j Hj. rewrite !EBR, (EA j).
      replace (Nat.eqb j i) with false by (symmetry; apply Nat.eqb_neq; lia).
      replace (Nat.eqb j (S i)) with false by (symmetry; apply Nat.eqb_neq; lia). apply HrR. lia. }
    split; [rewrite EBL; exact H0|rewrite EBR; exact HL1].
  Qed.

  (* facts about one forward right-to-left body *)
  Lemma rl_facts (X : sw) i : FI i X -> 0 < i -> i < L -> fok (s_tr (rl X i)) ->
    exists p' p'' Aq Ct,
      let W := nth i Hs [] in
      let BRn := contraction_operator_step_right Aq Aq W (gBR X i) in
      let C1 := kexp0 p' (gBL X i) BRn Ct (kopp R hdt) in
      let Ap := rmul_site (gA X (i - 1)) C1 in
      let Ap1 := kexp p'' (gBL X (i - 1)) BRn (nth (i - 1) Hs []) Ap hdt in
      wsite d (Ds i) (Ds (S i)) Aq /\ right_iso Aq /\ invertible (Ds i) Ct /\ gA X i = lmul_site Ct Aq /\
      invertible (Ds i) C1 /\ wenv (DW i) (Ds i) (Ds i) BRn /\ wsite d (Ds (i - 1)) (Ds i) Ap /\
      (forall k, gA (rl X i) k = if Nat.eqb k (i - 1) then Ap1 else if Nat.eqb k i then Aq else gA X k) /\
      (forall k, gBL (rl X i) k = gBL X k) /\
      (forall k, gBR (rl X i) k = if Nat.eqb k (i - 1) then BRn else gBR X k) /\
      length (s_A (rl X i)) = L /\ length (s_BL (rl X i)) = L /\ length (s_BR (rl X i)) = L.
  Proof.
    intros (lA & lBL & lBR & Hsh & Hli & Hri & HwL & HwR & HrL & HrR & H0 & HL1) Hi HiL Hok.
    destruct (rl_unfold true dt hdt X i Hi ltac:(lia) ltac:(lia) Hok) as (p' & p'' & Q & C & qb & Hq & HC1 & EA & EBL & EBR & l1 & l2 & l3).
    cbv zeta in *.
    assert (HXi : wsite d (Ds i) (Ds (S i)) (gA X i)) by (apply Hsh; exact HiL).
    destruct (qr_right_good R d (Ds i) (Ds (S i)) (gA X i) Q C qb Hd HXi Hq) as (HAq & Hiso & HinvC & EX).
    set (Aq := site_tr (site_unflat (length (site_tr (gA X i))) (sdl (site_tr (gA X i))) Q)) in *.
    exists p', p'', Aq, (trmx C). cbv zeta.
    assert (HncC : nc C = Ds i) by (destruct HinvC as ((_ & c1 & _) & _); rewrite nr_trmx in c1; exact c1).
    specialize (HC1 eq_refl). rewrite HncC in HC1.
    split; [exact HAq|]. split; [exact Hiso|]. split; [exact HinvC|]. split; [exact EX|]. split; [exact HC1|].
    split; [apply wenv_stepR; [exact HiL|exact HAq]|].
    split.
    { apply (wsite_rmul d (Ds i) (Ds (i - 1)) (Ds (S (i - 1)))); [apply Hsh; lia|]. replace (S (i - 1)) with i by lia. exact (proj1 HC1). }
    split; [exact EA|]. split; [exact EBL|]. split; [exact EBR|]. split; [lia|]. split; lia.
  Qed.

  Lemma FI_rl (X : sw) i : FI i X -> 0 < i -> i < L -> fok (s_tr (rl X i)) -> FI (i - 1) (rl X i).
  Proof.
    intros HFI Hi HiL Hok.
    destruct (rl_facts X i HFI Hi HiL Hok) as (p' & p'' & Aq & Ct & HAq & Hiso & HinvC & EX & HinvC1 & HBRn & HAp & EA & EBL & EBR & l1 & l2 & l3).
    cbv zeta in *. destruct HFI as (lA & lBL & lBR & Hsh & Hli & Hri & HwL & HwR & HrL & HrR & H0 & HL1).
    split; [exact l1|]. split; [exact l2|]. split; [exact l3|].
    split.
    { intros j Hj. rewrite EA. destruct (Nat.eqb_spec j (i - 1)) as [->|N1].
      - replace (Ds (S (i - 1))) with (Ds i) by (f_equal; lia). destruct Hk as (Hsh' & _). apply Hsh'. exact HAp.
      - destruct (Nat.eqb_spec j i) as [->|N2]; [exact HAq|apply Hsh; exact Hj]. }
    split.
    { intros j Hj. rewrite EA. destruct (Nat.eqb_spec j (i - 1)) as [->|N1]; [lia|].
      destruct (Nat.eqb_spec j i) as [->|N2]; [lia|]. apply Hli. lia. }
    split.
    { intros j Hj. rewrite EA. destruct (Nat.eqb_spec j (i - 1)) as [->|N1]; [lia|].
      destruct (Nat.eqb_spec j i) as [->|N2]; [exact Hiso|]. apply Hri. lia. }
    split.
    { intros j Hj. rewrite EBL. apply HwL. lia. }
    split.
    { intros j Hj. rewrite EBR. destruct (Nat.eqb_spec j (i - 1)) as [->|N1].
      - replace (S (i - 1)) with i by lia. exact HBRn.
      - apply HwR. lia. }
    split.
    { intros j Hj. rewrite !EBL, (EA j).
      replace (Nat.eqb j (i - 1)) with false by (symmetry; apply Nat.eqb_neq; lia).
      replace (Nat.eqb j i) with false by (symmetry; apply Nat.eqb_neq; lia). apply HrL. lia. }
    split.
    { intros j Hj. rewrite (EBR (j - 1)), (EBR j), (EA j).
      replace (Nat.eqb j (i - 1)) with false by (symmetry; apply Nat.eqb_neq; lia).
      destruct (Nat.eqb_spec j i) as [->|N1].
      - rewrite Nat.eqb_refl. reflexivity.
      - replace (Nat.eqb (j - 1) (i - 1)) with false by (symmetry; apply Nat.eqb_neq; lia). apply HrR. lia. }
    split; [rewrite EBL; exact H0|].
    rewrite EBR. replace (Nat.eqb (L - 1) (i - 1)) with false by (symmetry; apply Nat.eqb_neq; lia). exact HL1.
  Qed.

  Lemma FI_mid (X : sw) i : FI i X -> i < L -> FI i (mid X i).
  Proof.
    intros (lA & lBL & lBR & Hsh & Hli & Hri & HwL & HwR & HrL & HrR & H0 & HL1) HiL.
    destruct (mid_unfold dt hdt X i ltac:(lia)) as (p & EA & EBL & EBR & l1 & l2 & l3).
    split; [lia|]. split; [lia|]. split; [lia|].
    split.
    { intros j Hj. rewrite EA. destruct (Nat.eqb_spec j i) as [->|N1]; [|apply Hsh; exact Hj].
      destruct Hk as (Hsh' & _). apply Hsh'. apply Hsh. exact Hj. }
    split. { intros j Hj. rewrite EA. replace (Nat.eqb j i) with false by (symmetry; apply Nat.eqb_neq; lia). apply Hli. exact Hj. }
    split. { intros j Hj. rewrite EA. replace (Nat.eqb j i) with false by (symmetry; apply Nat.eqb_neq; lia). apply Hri. exact Hj. }
    split. { intros j Hj. rewrite EBL. apply HwL. exact Hj. }
    split. { intros j Hj. rewrite EBR. apply HwR. exact Hj. }
    split. { intros j Hj. rewrite !EBL, EA. replace (Nat.eqb j i) with false by (symmetry; apply Nat.eqb_neq; lia). apply HrL. exact Hj. }
    split. { intros j Hj. rewrite !EBR, EA. replace (Nat.eqb j i) with false by (symmetry; apply Nat.eqb_neq; lia). apply HrR. exact Hj. }
    split; [rewrite EBL; exact H0|rewrite EBR; exact HL1].
  Qed.
End Fwd.

Arguments rev_call_ok {R} qr kexp0 kb dt hdt p t. Arguments rev_tr_ok {R} qr kexp0 kb dt hdt tr.
Arguments FI {R} Hs d Ds DW i st.
