(* Exhausted Krylov space, part 4: the general branch expm_krylov(hermitian=False) = V (||v|| expm(dt H) e_0).
   Contract assumed for the dense oracle on the one call the model issues, Em = dexpm(dt H):  Em is k x k and acts on every
   eigenvector of H as the scalar function:  H u = lam u  ==>  Em u = dexp(dt lam) u   (true of the matrix exponential).
   Additional hypothesis (not automatic): e_0 is a combination of eigenvectors of H (H diagonalisable on the
   relevant subspace), given by lists  lams, us, cs.  Then for every linear E with E y = dexp(dt lam) y on
   lam-eigenvectors y of A:   E v = expm_krylov(A, v, dt, hermitian=False)   after an exact Arnoldi breakdown. *)
From Coq Require Import ZArith List Bool Arith Lia Ring Field.
From PT Require Import Base.Scalar Base.Field Base.BigSum Base.Mx Model.Krylov Proofs.KrylovVec Proofs.KrylovLanczos
  Proofs.KrylovArnoldi Proofs.KrylovMatvec Proofs.KrylovExpm Proofs.KrylovRitz Proofs.KrylovPoly Proofs.KrylovExhaust
  Proofs.KrylovExhaustSpec Proofs.KrylovExhaustTop.
Import ListNotations.

Section GenSpec.
  Variable F : ofield.
  Notation K := (Cx F).
  Add Field Ffield_kg : (f_ft F).
  Add Ring Kring_kg : (k_rt (Cx F)).
  Notation vec := (list K).
  Notation kz := (k0 K).
  Notation "a [*] b" := (kmul K a b) (at level 40, left associativity).
  Variable n k : nat.
  Variable Afunc : vec -> vec.
  Variable Vs : list vec.
  Variable H Em : list (list K).
  Notation vat := (vat F).
  Hypothesis A_len : maps_len F n Afunc.
  Hypothesis A_lin : linear F n Afunc.
  Hypothesis V_len : forall v, In v Vs -> length v = n.
  Hypothesis V_k : length Vs = k.
  Hypothesis AV_VH : forall j, j < k -> Afunc (vat Vs j) = lincomb n (tcol F k (hfun F H) j) Vs.
  Hypothesis H_k : length H = k.
  Hypothesis H_rows : forall i, i < k -> length (nth i H []) = k.
  Hypothesis Em_k : length Em = k.
  Hypothesis Em_rows : forall i, i < k -> length (nth i Em []) = k.

  Lemma mulT_matvec (u : list K) : length u = k -> mulT F k (hfun F H) u = matvec H u.
  Proof.
    intros Lu. apply (list_eq_nth kz).
    - rewrite length_mulT. unfold matvec. rewrite map_length. symmetry. exact H_k.
    - intros i Hi. rewrite length_mulT in Hi. rewrite nth_mulT by exact Hi.
      rewrite (nth_matvec F), (dotu_sumn F k) by (try exact Lu; apply H_rows; exact Hi). reflexivity.
  Qed.

  Definition heig (lam : K) (u : list K) : Prop := length u = k /\ matvec H u = cscale lam u.

  Lemma heig_eigpair lams us : Forall2 heig lams us -> Forall2 (eigpair F k (hfun F H)) lams us.
  Proof.
    induction 1 as [|lam u lams us [Lu Eu] HF IH]; constructor; [|exact IH].
    split; [exact Lu|]. rewrite mulT_matvec by exact Lu. exact Eu.
  Qed.

  Lemma lincomb_eig_aux (G : list K -> list K) (phi : K -> K) lams us :
    Forall2 (fun lam u => G u = cscale (phi lam) u) lams us ->
    forall cs, lincomb k cs (map G us) = lincomb k (zipw (fun c lam => c [*] phi lam) cs lams) us.
  Proof.
    induction 1 as [|lam u lams us Hp HF IH]; intros cs.
    - destruct cs; reflexivity.
    - destruct cs as [|c cs]; cbn [zipw lincomb map]; [reflexivity|]. rewrite IH, Hp, (cscale_cscale F). reflexivity.
  Qed.

  Lemma length_e0 : length (e0 F k) = k.
  Proof. unfold e0. rewrite map_length, seq_length. reflexivity. Qed.

  (* the coefficient vector of the model, ||v|| * (column 0 of Em), is ||v|| * (Em e_0) *)
  Lemma col0 nrm : 0 < k ->
    map (fun row => cof nrm [*] nth 0 row kz) Em = cscale (cof nrm) (matvec Em (e0 F k)).
  Proof.
    intros Hk. apply (list_eq_nth kz).
    - unfold cscale, matvec. rewrite !map_length. reflexivity.
    - intros i Hi. rewrite map_length, Em_k in Hi.
      rewrite (nth_indep _ kz ((fun row : list K => cof nrm [*] nth 0 row kz) [])) by (rewrite map_length, Em_k; exact Hi).
      rewrite (map_nth (fun row : list K => cof nrm [*] nth 0 row kz)).
      rewrite (nth_cscale F), (nth_matvec F), (dotu_sumn F k) by (try exact length_e0; apply Em_rows; exact Hi).
      f_equal. symmetry.
      rewrite (sumn_ext (Cx F) k _ (fun j => nth j (nth i Em []) kz [*] (if Nat.eqb j 0 then k1 K else kz))).
      + exact (sumn_delta_r (Cx F) k 0 (fun j => nth j (nth i Em []) kz) Hk).
      + intros j Hj. unfold e0. rewrite nth_map_seq by exact Hj. reflexivity.
  Qed.

  Variable dexp : K -> K.

  Theorem expm_spectral_g (E : vec -> vec) (nrm : F) (dt : K) (lams : list K) (us : list (list K)) (cs : list K) :
    0 < k -> linear F n E ->
    (forall lam (y : vec), length y = n -> Afunc y = cscale lam y -> E y = cscale (dexp (dt [*] lam)) y) ->
    (forall lam u, heig lam u -> matvec Em u = cscale (dexp (dt [*] lam)) u) ->
    Forall2 heig lams us -> e0 F k = lincomb k cs us ->
    E (rscale nrm (vat Vs 0)) = lincomb n (map (fun row => cof nrm [*] nth 0 row kz) Em) Vs.
  Proof.
    intros Hk E_lin E_eig Em_eig HF Hdec.
    set (Z := zipw (fun c lam => c [*] dexp (dt [*] lam)) cs lams).
    pose proof (heig_eigpair lams us HF) as HP.
    pose proof (Forall2_len F k (hfun F H) lams us HP) as us_len.
    assert (SA : E (lincomb n (e0 F k) Vs) = lincomb n (lincomb k Z us) Vs).
    { rewrite Hdec.
      exact (spectral_sum F n k Afunc (hfun F H) Vs A_len A_lin V_len V_k AV_VH E (fun lam => dexp (dt [*] lam)) E_lin E_eig
               lams us cs HP). }
    assert (SB : matvec Em (e0 F k) = lincomb k Z us).
    { rewrite Hdec. rewrite (Afunc_lincomb F k (matvec Em) (matvec_linear F k Em Em_k) cs us us_len).
      apply lincomb_eig_aux. clear -HF Em_eig. induction HF as [|lam u lams us Hh HF IH]; constructor; [|exact IH].
      apply Em_eig. exact Hh. }
    rewrite (start_vector F n k Vs V_len V_k nrm Hk).
    rewrite (lincomb_cscale F n k Vs V_len V_k) by exact length_e0.
    destruct E_lin as (_ & Esc & _). rewrite Esc by (apply length_lincomb; exact V_len). rewrite SA.
    rewrite (col0 nrm Hk), (lincomb_cscale F n k Vs V_len V_k), SB; [reflexivity|].
    unfold matvec. rewrite map_length. exact Em_k.
  Qed.
End GenSpec.

Section GenTop.
  Variable F : ofield.
  Notation K := (Cx F).
  Notation vec := (list K).
  Notation kz := (k0 K).
  Variable n : nat.
  Variable Afunc : vec -> vec.
  Variable dnorm : vec -> F.
  Variable small : F -> bool.
  Variable deigh : list F -> list F -> list F * list (list F).
  Variable dexp : K -> K.
  Variable dexpm : list (list K) -> list (list K).
  Hypothesis A_len : maps_len F n Afunc.
  Hypothesis A_lin : linear F n Afunc.
  Hypothesis small_pos : small_sound F small.

  Lemma arnoldi_H_shape (v : vec) m H (Vs : list vec) wn : arnoldi F Afunc dnorm small v m = Some (H, Vs, wn) ->
    length H = length Vs /\ forall i, i < length Vs -> length (nth i H []) = length Vs.
  Proof.
    unfold arnoldi. destruct (fltb F (f0 F) (dnorm v)); [|discriminate]. destruct m as [|m']; [discriminate|].
    destruct (arnoldi_loop F Afunc dnorm small m' 0 [] [vdivr v (dnorm v)]) as [[cols Vs0] wn0].
    intros E. injection E as <- <- <-. unfold hmat. split.
    - rewrite map_length, seq_length. reflexivity.
    - intros i Hi. rewrite nth_map_seq by exact Hi. rewrite map_length, seq_length. reflexivity.
  Qed.

  (* contract of scipy.linalg.expm on the call expm(dt*H) issued by the model, and the decomposition of e_0 *)
  Definition expm_g_ok (dt : K) (H : list (list K)) (k : nat) : Prop :=
    let Em := dexpm (map (cscale dt) H) in
    length Em = k /\ (forall i, i < k -> length (nth i Em []) = k) /\
    forall lam u, heig F k H lam u -> matvec Em u = cscale (dexp (kmul K dt lam)) u.
  Definition e0_diag (H : list (list K)) (k : nat) : Prop :=
    exists lams us cs, Forall2 (heig F k H) lams us /\ e0 F k = lincomb k cs us.

  Theorem expm_exhausted_g_breakdown (v : vec) (dt : K) m (E : vec -> vec) H (Vs : list vec) :
    length v = n -> v <> vzero n -> 1 <= m -> Forall (norm_ok F) (arnoldi_calls F Afunc dnorm small v m) ->
    E_spec F n Afunc dexp dt E ->
    arnoldi F Afunc dnorm small v m = Some (H, Vs, true) ->
    arnoldi_last_norm F Afunc dnorm Vs = f0 F ->
    expm_g_ok dt H (length Vs) -> e0_diag H (length Vs) ->
    expm_krylov F Afunc dnorm small deigh dexp dexpm v dt m false = Some (E v).
  Proof.
    intros Hv Hnz Hm HC [E_lin E_eig] HR Hb (Em_k & Em_rows & Em_eig) (lams & us & cs & HF & Hdec).
    destruct (arnoldi_exact_breakdown_AV_VH F n Afunc dnorm small A_len small_pos v m H Vs Hv Hnz Hm HC HR Hb)
      as (Hk1 & Hkm & H0 & Ho & HAV).
    destruct (arnoldi_H_shape v m H Vs true HR) as [H_k H_rows].
    assert (Hc : norm_ok F (v, dnorm v)) by (unfold arnoldi_calls in HC; inversion HC; assumption).
    pose proof (dnorm_start_ne F n dnorm v Hv Hnz Hc) as Hne.
    assert (Ev : v = rscale (dnorm v) (vat F Vs 0)) by (rewrite H0; symmetry; apply rscale_vdivr; exact Hne).
    unfold expm_krylov, expm_krylov_g. rewrite HR. cbv zeta. f_equal. rewrite Hv. symmetry. rewrite Ev at 1.
    exact (expm_spectral_g F n (length Vs) Afunc Vs H (dexpm (map (cscale dt) H)) A_len A_lin (orth_all F n Vs Ho) eq_refl HAV
             H_k H_rows Em_k Em_rows dexp E (dnorm v) dt lams us cs Hk1 E_lin E_eig Em_eig HF Hdec).
  Qed.
End GenTop.
