(* C01 — MPS.orthonormalize(mode='right') by a mirror argument: the right sweep on p is the left sweep on the
   mirrored state (sites reversed, every matrix transposed, bond charges negated and reversed). *)
From Coq Require Import ZArith List Bool Lia Arith Ring Field.
From PT Require Import Base.Scalar Base.Field Base.BigSum Base.Mx Model.Tensor Model.BondOps Model.Orthonormalize.
From PT Require Import Proofs.BondOpsPerm Proofs.BondOpsLoop Proofs.BondOpsSpec Proofs.MPSOpsBase Proofs.MPSOpsShape Proofs.MPSOpsMul.
From PT Require Import Proofs.OrthDefs Proofs.OrthQRExtra Proofs.OrthGram Proofs.OrthLocal Proofs.OrthSweep Proofs.OrthTop.
Import ListNotations.

Definition omap {A B} (f : A -> B) (o : option A) : option B :=
  match o with Some a => Some (f a) | None => None end.

Section MirrorProg.
  Variable R : cring.
  Add Ring Rring_orthright : (k_rt R).
  Notation mx := (mx R).
  Notation site := (site R).

  (* every matrix of the tensor has the column count of the first one *)
  Definition ucols (A : site) : Prop := Forall (fun X : mx => nc X = sDr A) A.

  Definition mir3 (r : site * site * list Z) : site * site * list Z :=
    let '(B, Bn, qb) := r in (trs B, trs Bn, zneg qb).
  Definition mirS (r : list site * list (list Z) * site) : list site * list (list Z) * site :=
    let '(Bs, qs, T) := r in (map (@trs R) Bs, map zneg qs, trs T).

  Lemma sDl_trs (A : site) : sDl (trs A) = sDr A.
  Proof. destruct A; reflexivity. Qed.
  Lemma sDr_trs (A : site) : sDr (trs A) = sDl A.
  Proof. destruct A; reflexivity. Qed.
  Lemma length_trs (A : site) : length (trs A) = length A.
  Proof. apply map_length. Qed.

  Lemma trmx_invol (M : mx) : wf M -> trmx (trmx M) = M.
  Proof.
    intros HM. apply mx_ext; [apply wf_trmx|exact HM|reflexivity|reflexivity|].
    intros i j Hi Hj. unfold trmx in *. rewrite nr_tab in Hi. rewrite nc_tab in Hj.
    rewrite !get_tab by assumption. reflexivity.
  Qed.
  Lemma trs_invol (A : site) : Forall (@wf R) A -> trs (trs A) = A.
  Proof.
    intros H. unfold trs. rewrite map_map. rewrite <- (map_id A) at 2. apply map_ext_in.
    intros M HM. apply trmx_invol. rewrite Forall_forall in H. apply H. exact HM.
  Qed.

  Lemma trmx_mul_tr (M X : mx) : nc M = nc X -> trmx (mulmx M (trmx X)) = mulmx X (trmx M).
  Proof.
    intros E. apply mx_ext; [apply wf_trmx|apply wf_mulmx|reflexivity|reflexivity|].
    intros i j Hi Hj. change (i < nr X) in Hi. change (j < nr M) in Hj.
    unfold trmx at 1. rewrite get_tab by assumption.
    rewrite !get_mulmx by assumption. change (nc (trmx X)) with (nr X) in *. 
    rewrite E. apply sumn_ext. intros k Hk. unfold trmx. rewrite !get_tab by lia. ring.
  Qed.

  Lemma trs_lmul_trs (M : mx) (A : site) : ucols A -> nc M = sDr A -> trs (lmul M (trs A)) = rmul A (trmx M).
  Proof.
    intros HA E. unfold trs, lmul, rmul. rewrite !map_map. apply map_ext_in. intros X HX.
    apply trmx_mul_tr. unfold ucols in HA. rewrite Forall_forall in HA. rewrite (HA X HX). exact E.
  Qed.

  Lemma trs_one_site : trs (@one_site R) = one_site.
  Proof. reflexivity. Qed.
  Lemma ucols_one_site : ucols (@one_site R).
  Proof. constructor; [reflexivity|constructor]. Qed.

  Variable dqr : mx -> mx * mx.

  (* (1) the local step *)
  Lemma local_right_mirror (A Aprev : site) qd qDl qDr : ucols Aprev ->
    local_right_qr dqr A Aprev qd qDl qDr = omap mir3 (local_left_qr dqr (trs A) (trs Aprev) qd (zneg qDr) (zneg qDl)).
  Proof.
    intros HA. unfold local_right_qr, local_left_qr.
    destruct (block_qr dqr (site_mx (trs A)) (qflat qd (zneg qDr)) (zneg qDl)) as [[[Q Rm] qb]|]; [|reflexivity].
    rewrite sDl_trs. destruct (Nat.eqb (nc Rm) (sDr Aprev)) eqn:E; [|reflexivity].
    apply Nat.eqb_eq in E. simpl. rewrite length_trs, sDl_trs. rewrite (trs_lmul_trs Rm Aprev HA E). reflexivity.
  Qed.

  Lemma local_left_next_wf (A An : site) qd ql qr B Bn qb :
    local_left_qr dqr A An qd ql qr = Some (B, Bn, qb) -> Forall (@wf R) Bn.
  Proof.
    unfold local_left_qr. destruct (block_qr dqr (site_mx A) (qflat qd ql) qr) as [[[Q Rm] q]|]; [|discriminate].
    destruct (Nat.eqb (nc Rm) (sDl An)); [|discriminate]. intros E. inversion E; subst.
    unfold lmul. apply Forall_forall. intros X HX. apply in_map_iff in HX. destruct HX as (Y & <- & _). apply wf_mulmx.
  Qed.

  (* (2) the sweep *)
  Lemma sweep_mirror qd : forall (rest : list site) (cur : site) (qb : list Z) (qrest : list (list Z)),
    Forall ucols rest ->
    sweep (stepR dqr qd) cur qb rest qrest =
    omap mirS (sweep (stepL dqr qd) (trs cur) (zneg qb) (map (@trs R) rest) (map zneg qrest)).
  Proof.
    induction rest as [|An rest IH]; intros cur qb qrest Hu.
    - destruct qrest as [|qa [|qa2 qrest]]; try reflexivity.
      cbn [sweep map]. unfold stepR, stepL.
      rewrite (local_right_mirror cur one_site qd qa qb ucols_one_site). rewrite trs_one_site.
      destruct (local_left_qr dqr (trs cur) one_site qd (zneg qb) (zneg qa)) as [[[B T] q']|]; [|reflexivity].
      simpl. rewrite zneg_invol. reflexivity.
    - destruct qrest as [|qa qrest]; [reflexivity|].
      cbn [sweep map]. unfold stepR at 1, stepL at 1.
      rewrite (local_right_mirror cur An qd qa qb (Forall_inv Hu)).
      destruct (local_left_qr dqr (trs cur) (trs An) qd (zneg qb) (zneg qa)) as [[[B Bn] q']|] eqn:EL; [|reflexivity].
      cbn [omap mir3]. rewrite (IH (trs Bn) (zneg q') qrest (Forall_inv_tail Hu)).
      rewrite zneg_invol. rewrite (trs_invol Bn (local_left_next_wf _ _ _ _ _ _ _ _ EL)).
      destruct (sweep (stepL dqr qd) Bn q' (map (@trs R) rest) (map zneg qrest)) as [[[Bs qs] T]|]; [|reflexivity].
      simpl. rewrite zneg_invol. reflexivity.
  Qed.

  Lemma sweep_calls_mirror qd : forall (rest : list site) (cur : site) (qb : list Z) (qrest : list (list Z)),
    Forall ucols rest ->
    sweep_calls (callsR qd) (stepR dqr qd) cur qb rest qrest =
    sweep_calls (callsL qd) (stepL dqr qd) (trs cur) (zneg qb) (map (@trs R) rest) (map zneg qrest).
  Proof.
    induction rest as [|An rest IH]; intros cur qb qrest Hu.
    - destruct qrest as [|qa [|qa2 qrest]]; reflexivity.
    - destruct qrest as [|qa qrest]; [reflexivity|].
      cbn [sweep_calls map]. unfold stepR at 1, stepL at 1.
      rewrite (local_right_mirror cur An qd qa qb (Forall_inv Hu)).
      change (callsR qd cur qb qa) with (callsL qd (trs cur) (zneg qb) (zneg qa)). f_equal.
      destruct (local_left_qr dqr (trs cur) (trs An) qd (zneg qb) (zneg qa)) as [[[B Bn] q']|] eqn:EL; [|reflexivity].
      cbn [omap mir3]. rewrite (IH (trs Bn) (zneg q') qrest (Forall_inv_tail Hu)).
      rewrite zneg_invol. rewrite (trs_invol Bn (local_left_next_wf _ _ _ _ _ _ _ _ EL)). reflexivity.
  Qed.

  Lemma is111_trs (T : site) : is111 (trs T) = is111 T.
  Proof.
    unfold is111. rewrite length_trs, sDl_trs, sDr_trs.
    destruct (Nat.eqb (length T) 1), (Nat.eqb (sDr T) 1), (Nat.eqb (sDl T) 1); reflexivity.
  Qed.
  Lemma get00_trs (T : site) : is111 T = true -> get (sel (trs T) 0) 0 0 = get (sel T 0) 0 0.
  Proof.
    unfold is111. rewrite !andb_true_iff, !Nat.eqb_eq. intros [[H1 H2] H3].
    destruct T as [|M T]; [simpl in H1; discriminate|]. unfold sDl, sDr in *.
    change (sel (M :: T) 0) with M in *. change (sel (trs (M :: T)) 0) with (trmx M).
    unfold trmx. rewrite get_tab by lia. reflexivity.
  Qed.
  Lemma neg_site_trs (A : site) : neg_site (trs A) = trs (neg_site A).
  Proof.
    unfold neg_site, trs. rewrite !map_map. apply map_ext. intros M. unfold oppmx, trmx.
    rewrite !nr_tab, !nc_tab. apply tab_ext. intros i j Hi Hj. rewrite !get_tab by assumption. reflexivity.
  Qed.
  Lemma map_last_trs (As : list site) : map_last (@neg_site R) (map (@trs R) As) = map (@trs R) (map_last (@neg_site R) As).
  Proof.
    induction As as [|A [|A2 As] IH]; [reflexivity| |].
    - simpl. rewrite neg_site_trs. reflexivity.
    - change (map (@trs R) (A :: A2 :: As)) with (trs A :: map (@trs R) (A2 :: As)).
      change (map_last (@neg_site R) (A :: A2 :: As)) with (A :: map_last (@neg_site R) (A2 :: As)).
      cbn [map]. cbn [map] in IH. rewrite <- IH. reflexivity.
  Qed.
End MirrorProg.

Arguments ucols {R} A.

Section MirrorTop.
  Variable F : ofield.
  Notation CF := (Cx F).
  Notation mx := (mx CF).
  Notation site := (site CF).
  Variable dqr : mx -> mx * mx.

  Definition mirror (p : mps CF) : mps CF :=
    mkmps (m_qd p) (rev (map zneg (m_qD p))) (rev (map (@trs CF) (m_A p))).
  Definition mirC (r : list site * list (list Z) * F) : list site * list (list Z) * F :=
    let '(Bs, qs, n) := r in (map (@trs CF) Bs, map zneg qs, n).
  Definition mirP (r : mps CF * F) : mps CF * F := let '(p, n) := r in (mirror p, n).

  Lemma orth_core_mirror qd (As : list site) (qs : list (list Z)) : Forall ucols As ->
    orth_core (stepR dqr qd) As qs = omap mirC (orth_core (stepL dqr qd) (map (@trs CF) As) (map zneg qs)).
  Proof.
    intros Hu. destruct As as [|A0 rest]; [reflexivity|]. destruct qs as [|q0 qrest]; [reflexivity|].
    cbn [orth_core map]. rewrite (sweep_mirror CF dqr qd rest A0 q0 qrest (Forall_inv_tail Hu)).
    destruct (sweep (stepL dqr qd) (trs A0) (zneg q0) (map (@trs CF) rest) (map zneg qrest)) as [[[Bs qs'] T]|]; [|reflexivity].
    cbn [omap mirS]. rewrite is111_trs. destruct (is111 T) eqn:E1; [|reflexivity].
    rewrite (get00_trs CF T E1).
    destruct (fltb F (cre (get (sel T 0) 0 0)) (f0 F)); cbn [omap mirC]; [rewrite map_last_trs|]; reflexivity.
  Qed.

  (* (3) the program equality *)
  Theorem orth_right_mirror (p : mps CF) : m_A p <> [] -> Forall ucols (m_A p) ->
    mps_orthonormalize dqr false p = omap mirP (mps_orthonormalize dqr true (mirror p)).
  Proof.
    intros Hne Hu. destruct p as [qd qDs As]. cbn [m_A] in *.
    unfold mps_orthonormalize, mirror. cbn [m_qd m_qD m_A].
    destruct As as [|A0 rest]; [congruence|].
    destruct (rev (map (@trs CF) (A0 :: rest))) as [|B0 Brest] eqn:EB.
    { apply (f_equal (@length _)) in EB. rewrite rev_length, map_length in EB. simpl in EB. discriminate. }
    rewrite <- EB. rewrite <- !map_rev.
    rewrite (orth_core_mirror qd (rev (A0 :: rest)) (rev qDs)) by (apply Forall_rev; exact Hu).
    destruct (orth_core (stepL dqr qd) (map (@trs CF) (rev (A0 :: rest))) (map zneg (rev qDs))) as [[[Bs qs] n]|]; reflexivity.
  Qed.

  Theorem orth_right_calls_mirror (p : mps CF) : Forall ucols (m_A p) ->
    mps_orth_calls dqr false p = mps_orth_calls dqr true (mirror p).
  Proof.
    intros Hu. destruct p as [qd qDs As]. cbn [m_A] in *.
    unfold mps_orth_calls, mirror, orth_core_calls. cbn [m_qd m_qD m_A]. rewrite <- !map_rev.
    assert (Hr : Forall ucols (rev As)) by (apply Forall_rev; exact Hu).
    destruct (rev As) as [|A0 rest]; [reflexivity|]. destruct (rev qDs) as [|q0 qrest]; [reflexivity|].
    cbn [map]. apply sweep_calls_mirror. exact (Forall_inv_tail Hr).
  Qed.
End MirrorTop.


(* ---------- generic chains and their reversal ---------- *)
Section ChainP.
  Context {X Y : Type}.
  Fixpoint chainP (P : X -> X -> Y -> Prop) (Ds : list X) (As : list Y) : Prop :=
    match As, Ds with
    | [], [_] => True
    | A :: As', Dl :: ((Dr :: _) as Ds') => P Dl Dr A /\ chainP P Ds' As'
    | _, _ => False
    end.

  Lemma chainP_snoc P : forall (As : list Y) (Ds : list X) Dl Dr A,
    chainP P (Ds ++ [Dl]) As -> P Dl Dr A -> chainP P (Ds ++ [Dl; Dr]) (As ++ [A]).
  Proof.
    induction As as [|A0 As IH]; intros Ds Dl Dr A H HP.
    - destruct Ds as [|D [|D' Ds]]; simpl in H; try contradiction. simpl. split; [exact HP|exact I].
    - destruct Ds as [|D Ds]; [simpl in H; contradiction|].
      destruct Ds as [|D' Ds].
      + simpl in H. destruct H as [H1 H2]. simpl. split; [exact H1|]. apply (IH [] Dl Dr A H2 HP).
      + simpl in H. destruct H as [H1 H2]. simpl. split; [exact H1|]. apply (IH (D' :: Ds) Dl Dr A H2 HP).
  Qed.

  Lemma chainP_rev P : forall (As : list Y) (Ds : list X),
    chainP P Ds As -> chainP (fun l r a => P r l a) (rev Ds) (rev As).
  Proof.
    induction As as [|A As IH]; intros Ds H.
    - destruct Ds as [|D [|D' Ds]]; simpl in H; try contradiction. exact I.
    - destruct Ds as [|Dl [|Dr Ds]]; try (simpl in H; contradiction).
      destruct H as [H1 H2]. apply IH in H2.
      change (rev (Dl :: Dr :: Ds)) with ((rev Ds ++ [Dr]) ++ [Dl]). rewrite <- app_assoc.
      change (rev (A :: As)) with (rev As ++ [A]). change ([Dr] ++ [Dl]) with [Dr; Dl].
      apply chainP_snoc; [exact H2|exact H1].
  Qed.

  Lemma chainP_length P : forall (As : list Y) (Ds : list X), chainP P Ds As -> length Ds = S (length As).
  Proof.
    induction As as [|A As IH]; intros Ds H.
    - destruct Ds as [|D [|D' Ds]]; simpl in H; try contradiction. reflexivity.
    - destruct Ds as [|Dl [|Dr Ds]]; try (simpl in H; contradiction).
      destruct H as [_ H2]. apply IH in H2. simpl in *. lia.
  Qed.
End ChainP.

Lemma chainP_map {X Y X' Y'} (P : X -> X -> Y -> Prop) (Q : X' -> X' -> Y' -> Prop) (f : X -> X') (g : Y -> Y') :
  (forall l r a, P l r a -> Q (f l) (f r) (g a)) ->
  forall (As : list Y) (Ds : list X), chainP P Ds As -> chainP Q (map f Ds) (map g As).
Proof.
  intros HPQ. induction As as [|A As IH]; intros Ds H.
  - destruct Ds as [|D [|D' Ds]]; simpl in H; try contradiction. exact I.
  - destruct Ds as [|Dl [|Dr Ds]]; try (simpl in H; contradiction).
    destruct H as [H1 H2]. apply IH in H2. simpl. split; [apply HPQ; exact H1|exact H2].
Qed.

(* a chain predicate that may look at both the dimensions and the charges: chains over the charge lists *)
Section MirrorSpec.
  Variable R : cring.
  Add Ring Rring_orthright2 : (k_rt R).
  Notation mx := (mx R).
  Notation site := (site R).
  Infix "*!" := (kmul R) (at level 40, left associativity).
  Notation cj := (kconj R).

  Lemma chain_shape_P d : forall (As : list site) Ds,
    chain_shape d Ds As = true <-> chainP (fun Dl Dr A => site_shape d Dl Dr A = true) Ds As.
  Proof.
    induction As as [|A As IH]; intros Ds.
    - destruct Ds as [|D [|D' Ds]]; simpl; split; try discriminate; try contradiction; auto.
    - destruct Ds as [|Dl [|Dr Ds]]; try (simpl; split; [discriminate|contradiction]).
      rewrite chain_shape_cons. rewrite andb_true_iff. rewrite IH. simpl. tauto.
  Qed.
  Lemma chain_qsparse_P qd : forall (As : list site) qs,
    chain_qsparse qd qs As = true <-> chainP (fun ql qr A => site_qsparse qd ql qr A = true) qs As.
  Proof.
    induction As as [|A As IH]; intros Ds.
    - destruct Ds as [|D [|D' Ds]]; simpl; split; try discriminate; try contradiction; auto.
    - destruct Ds as [|Dl [|Dr Ds]]; try (simpl; split; [discriminate|contradiction]).
      rewrite (chain_qsparse_cons R). rewrite andb_true_iff. rewrite IH. simpl. tauto.
  Qed.
  (* shape and sparsity together, as one chain over the charge lists *)
  Definition okP (d : nat) (qd : list Z) (ql qr : list Z) (A : site) : Prop :=
    site_shape d (length ql) (length qr) A = true /\ site_qsparse qd ql qr A = true.
  Lemma ok_P d qd : forall (As : list site) qs,
    chain_shape d (lens qs) As = true /\ chain_qsparse qd qs As = true <-> chainP (okP d qd) qs As.
  Proof.
    unfold lens. induction As as [|A As IH]; intros Ds.
    - destruct Ds as [|D [|D' Ds]]; simpl; split; try tauto; intros [? ?]; discriminate.
    - destruct Ds as [|Dl [|Dr Ds]]; try (simpl; split; [intros [? ?]; discriminate|contradiction]).
      cbn [map]. rewrite chain_shape_cons, (chain_qsparse_cons R). rewrite !andb_true_iff.
      change (chainP (okP d qd) (Dl :: Dr :: Ds) (A :: As)) with (okP d qd Dl Dr A /\ chainP (okP d qd) (Dr :: Ds) As).
      rewrite <- IH. cbn [map]. unfold okP. tauto.
  Qed.

  Lemma sel_trs (A : site) s : sel (trs A) s = trmx (sel A s).
  Proof. unfold sel, trs. change (@zeromx R 0 0) with (trmx (@zeromx R 0 0)) at 1. apply map_nth. Qed.

  Lemma site_shape_trs d Dl Dr (A : site) : site_shape d Dl Dr A = true -> site_shape d Dr Dl (trs A) = true.
  Proof.
    unfold site_shape, trs. rewrite !andb_true_iff, map_length, !forallb_forall. intros [Hl H]. split; [exact Hl|].
    intros X HX. apply in_map_iff in HX. destruct HX as (Y & <- & HY). specialize (H Y HY).
    rewrite !andb_true_iff, !Nat.eqb_eq in H. destruct H as [[_ Hr] Hc].
    unfold trmx. rewrite wfb_tab, nr_tab, nc_tab, Hr, Hc, !Nat.eqb_refl. reflexivity.
  Qed.

  Lemma zget_zneg q i : zget (zneg q) i = (- zget q i)%Z.
  Proof. apply zneg_nth. Qed.

  Lemma site_qsparse_trs d qd ql qr (A : site) : length qd = d ->
    site_shape d (length ql) (length qr) A = true -> site_qsparse qd ql qr A = true ->
    site_qsparse qd (zneg qr) (zneg ql) (trs A) = true.
  Proof.
    intros Lqd Hs H. apply site_qsp_qsparse. apply site_qsparse_qsp in H.
    intros s a b Hs' Ha Hb Hnz. rewrite zneg_length in Ha, Hb.
    destruct (site_shape_sel R d _ _ A s Hs ltac:(lia)) as (Hw & Hr & Hc).
    rewrite sel_trs in Hnz. unfold trmx in Hnz. rewrite get_tab in Hnz by lia.
    specialize (H s b a Hs' Hb Ha Hnz). rewrite !zget_zneg. lia.
  Qed.

  Lemma okP_trs d qd ql qr (A : site) : length qd = d -> okP d qd ql qr A -> okP d qd (zneg qr) (zneg ql) (trs A).
  Proof.
    intros Lqd [H1 H2]. split.
    - rewrite !zneg_length. apply site_shape_trs. exact H1.
    - apply (site_qsparse_trs d); assumption.
  Qed.

  Lemma delta_sym k l : delta R k l = delta R l k.
  Proof. unfold delta. rewrite (Nat.eqb_sym k l). reflexivity. Qed.

  Lemma liso_riso_trs d Dl Dr (A : site) : site_shape d Dl Dr A = true -> liso Dl Dr A -> riso Dr Dl (trs A).
  Proof.
    intros Hs H k l Hk Hl. rewrite length_trs. rewrite delta_sym. rewrite <- (H l k Hl Hk).
    assert (HlA : length A = d) by (eapply site_shape_length; eauto).
    apply sumn_ext. intros s Hs'. apply sumn_ext. intros a Ha.
    destruct (site_shape_sel R d _ _ A s Hs ltac:(lia)) as (Hw & Hr & Hc).
    rewrite sel_trs. unfold trmx. rewrite !get_tab by lia. ring.
  Qed.

  Lemma chain_liso_P : forall (As : list site) Ds, length Ds = S (length As) -> chain_liso Ds As -> chainP (@liso R) Ds As.
  Proof.
    induction As as [|A As IH]; intros Ds HL H.
    - destruct Ds as [|D [|D' Ds]]; simpl in HL; try discriminate. exact I.
    - destruct Ds as [|Dl [|Dr Ds]]; simpl in HL; try discriminate.
      destruct H as [H1 H2]. split; [exact H1|]. apply IH; [simpl; lia|exact H2].
  Qed.
  Lemma chain_riso_P : forall (As : list site) Ds, chainP (@riso R) Ds As -> chain_riso Ds As.
  Proof.
    induction As as [|A As IH]; intros Ds H; [destruct Ds; exact I|].
    destruct Ds as [|Dl [|Dr Ds]]; try exact I. destruct H as [H1 H2]. split; [exact H1|]. apply IH. exact H2.
  Qed.
  Lemma chainP_and {X Y} (P Q : X -> X -> Y -> Prop) : forall (As : list Y) (Ds : list X),
    chainP P Ds As -> chainP Q Ds As -> chainP (fun l r a => P l r a /\ Q l r a) Ds As.
  Proof.
    induction As as [|A As IH]; intros Ds H1 H2.
    - destruct Ds as [|D [|D' Ds]]; simpl in *; try contradiction. exact I.
    - destruct Ds as [|Dl [|Dr Ds]]; try (simpl in H1; contradiction).
      destruct H1 as [H1 H1']. destruct H2 as [H2 H2']. split; [split; assumption|]. apply IH; assumption.
  Qed.

  (* the mirrored chain of a left-canonical chain is right-canonical *)
  Lemma chain_riso_mirror d (As : list site) Ds : chain_shape d Ds As = true -> chain_liso Ds As ->
    chain_riso (rev Ds) (rev (map (@trs R) As)).
  Proof.
    intros Hs Hi. apply chain_riso_P. rewrite <- map_rev.
    rewrite <- (map_id (rev Ds)).
    apply (chainP_map (fun l r a => site_shape d r l a = true /\ liso r l a) (@riso R) (fun x => x) (@trs R)).
    { intros l r a [H1 H2]. apply (liso_riso_trs d); assumption. }
    apply (chainP_rev (fun l r a => site_shape d l r a = true /\ liso l r a)).
    apply chainP_and; [apply chain_shape_P; exact Hs|].
    apply chain_liso_P; [eapply chain_shape_length; eauto|exact Hi].
  Qed.

  Lemma lens_mirror (qs : list (list Z)) : lens (rev (map zneg qs)) = rev (lens qs).
  Proof.
    unfold lens. rewrite map_rev, map_map. f_equal. apply map_ext. intros q. apply zneg_length.
  Qed.

  Lemma ok_mirror d qd (As : list site) qs : length qd = d ->
    chain_shape d (lens qs) As = true -> chain_qsparse qd qs As = true ->
    chain_shape d (lens (rev (map zneg qs))) (rev (map (@trs R) As)) = true /\
    chain_qsparse qd (rev (map zneg qs)) (rev (map (@trs R) As)) = true.
  Proof.
    intros Lqd H1 H2. apply ok_P. rewrite <- !map_rev.
    apply (chainP_map (fun l r a => okP d qd r l a) (okP d qd) zneg (@trs R)).
    { intros l r a H. apply okP_trs; assumption. }
    apply (chainP_rev (okP d qd)). apply ok_P. split; assumption.
  Qed.
End MirrorSpec.


(* ---------- amplitudes of the mirrored chain ---------- *)
Section MirrorAmp.
  Variable R : cring.
  Add Ring Rring_orthright3 : (k_rt R).
  Notation mx := (mx R).
  Notation site := (site R).

  Lemma trmx_mulmx (A B : mx) : nc A = nr B -> trmx (mulmx A B) = mulmx (trmx B) (trmx A).
  Proof.
    intros E. apply mx_ext; [apply wf_trmx|apply wf_mulmx|reflexivity|reflexivity|].
    intros i j Hi Hj. change (i < nc B) in Hi. change (j < nr A) in Hj.
    unfold trmx at 1. rewrite get_tab by assumption.
    rewrite !get_mulmx by assumption. change (nc (trmx B)) with (nr B). rewrite E.
    apply sumn_ext. intros k Hk. unfold trmx. rewrite !get_tab by lia. ring.
  Qed.

  Definition mok (l r : nat) (M : mx) : Prop := wf M /\ nr M = l /\ nc M = r.
  Lemma mchain_P : forall (Ms : list mx) Ds, mchain Ds Ms <-> chainP mok Ds Ms.
  Proof.
    induction Ms as [|M Ms IH]; intros Ds.
    - destruct Ds as [|D [|D' Ds]]; simpl; tauto.
    - destruct Ds as [|Dl [|Dr Ds]]; try (simpl; tauto).
      change (mchain (Dl :: Dr :: Ds) (M :: Ms)) with (wf M /\ nr M = Dl /\ nc M = Dr /\ mchain (Dr :: Ds) Ms).
      change (chainP mok (Dl :: Dr :: Ds) (M :: Ms)) with (mok Dl Dr M /\ chainP mok (Dr :: Ds) Ms).
      rewrite IH. unfold mok. tauto.
  Qed.
  Lemma mchain_rev_tr (Ms : list mx) Ds : mchain Ds Ms -> mchain (rev Ds) (rev (map (@trmx R) Ms)).
  Proof.
    intros H. apply mchain_P. rewrite <- map_rev. rewrite <- (map_id (rev Ds)).
    apply (chainP_map (fun l r M => mok r l M) mok (fun x => x) (@trmx R)).
    { intros l r M (Hw & Hr & Hc). split; [apply wf_trmx|]. split; [exact Hc|exact Hr]. }
    apply (chainP_rev mok). apply mchain_P. exact H.
  Qed.

  Lemma mprod_snoc : forall (Ns : list mx) Ds (N : mx) n, Ns <> [] -> mchain Ds Ns -> wf N -> nr N = last Ds 0 ->
    mprod n (Ns ++ [N]) = mulmx (mprod n Ns) N.
  Proof.
    induction Ns as [|N0 Ns IH]; intros Ds N n Hne Hc HN Hr; [congruence|].
    destruct Ds as [|Dl [|Dr Ds]]; try (simpl in Hc; contradiction).
    destruct Hc as (Hw0 & Hr0 & Hc0 & Hc).
    destruct Ns as [|N1 Ns].
    - simpl. rewrite (mulmx_1_r R N HN), (mulmx_1_r R N0 Hw0). reflexivity.
    - change (mprod n ((N0 :: N1 :: Ns) ++ [N])) with (mulmx N0 (mprod (nc N0) ((N1 :: Ns) ++ [N]))).
      rewrite (IH (Dr :: Ds) N (nc N0) ltac:(discriminate) Hc HN Hr).
      change (mprod n (N0 :: N1 :: Ns)) with (mulmx N0 (mprod (nc N0) (N1 :: Ns))).
      symmetry. apply mulmx_assoc.
      + rewrite nr_mprod. destruct Ds as [|D2 Ds]; [simpl in Hc; contradiction|]. destruct Hc as (_ & Hr1 & _). lia.
      + rewrite (nc_mprod' R (nc N0) (Dr :: Ds) N1 Ns Hc). symmetry. exact Hr.
  Qed.

  Lemma mprod_rev_tr : forall (Ms : list mx) Ds n n', Ms <> [] -> mchain Ds Ms ->
    mprod n (rev (map (@trmx R) Ms)) = trmx (mprod n' Ms).
  Proof.
    induction Ms as [|M Ms IH]; intros Ds n n' Hne Hc; [congruence|].
    destruct Ds as [|Dl [|Dr Ds]]; try (simpl in Hc; contradiction).
    destruct Hc as (Hw & Hr & Hc0 & Hc).
    destruct Ms as [|M1 Ms].
    - change (mprod n (rev (map (@trmx R) [M]))) with (mulmx (trmx M) (idmx (nc (trmx M)))).
      change (mprod n' [M]) with (mulmx M (idmx (nc M))).
      rewrite (mulmx_1_r R (trmx M) (wf_trmx R M)), (mulmx_1_r R M Hw). reflexivity.
    - change (rev (map (@trmx R) (M :: M1 :: Ms))) with (rev (map (@trmx R) (M1 :: Ms)) ++ [trmx M]).
      rewrite (mprod_snoc (rev (map (@trmx R) (M1 :: Ms))) (rev (Dr :: Ds)) (trmx M) n).
      + rewrite (IH (Dr :: Ds) n (nc M) ltac:(discriminate) Hc).
        change (mprod n' (M :: M1 :: Ms)) with (mulmx M (mprod (nc M) (M1 :: Ms))).
        symmetry. apply trmx_mulmx. rewrite nr_mprod.
        destruct Ds as [|D2 Ds]; [simpl in Hc; contradiction|]. destruct Hc as (_ & Hr1 & _). lia.
      + intros E. apply (f_equal (@length _)) in E. rewrite rev_length, map_length in E. simpl in E. discriminate.
      + apply mchain_rev_tr. exact Hc.
      + apply wf_trmx.
      + change (rev (Dr :: Ds)) with (rev Ds ++ [Dr]). rewrite last_last. exact Hc0.
  Qed.

  Lemma pick_snoc : forall (As : list site) w (A : site) s, length w = length As ->
    pick (As ++ [A]) (w ++ [s]) = pick As w ++ [sel A s].
  Proof.
    induction As as [|A0 As IH]; intros w A s Hl; destruct w as [|s0 w]; simpl in Hl; try discriminate.
    - reflexivity.
    - simpl. rewrite IH by lia. reflexivity.
  Qed.
  Lemma pick_rev_tr : forall (As : list site) w, length w = length As ->
    pick (rev (map (@trs R) As)) (rev w) = rev (map (@trmx R) (pick As w)).
  Proof.
    induction As as [|A As IH]; intros w Hl; destruct w as [|s w]; simpl in Hl; try discriminate.
    - reflexivity.
    - cbn [map rev pick]. rewrite pick_snoc by (rewrite !rev_length, map_length; lia).
      rewrite IH by lia. rewrite sel_trs. reflexivity.
  Qed.

  Lemma amp_mirror d Ds (As : list site) w : chain_shape d Ds As = true -> hd 0 Ds = 1 -> last Ds 0 = 1 ->
    As <> [] -> length w = length As -> letters d w ->
    amp (rev (map (@trs R) As)) (rev w) = amp As w.
  Proof.
    intros Hs Hh Hl Hne Hlw Hw. unfold amp. rewrite pick_rev_tr by exact Hlw.
    assert (Hc : mchain Ds (pick As w)) by (apply (mchain_pick R d); [exact Hs|split; assumption]).
    rewrite (mprod_rev_tr (pick As w) Ds 1 1).
    - destruct (mprod_shape R _ _ Hc) as [HPr HPc]. rewrite Hh in HPr, HPc. rewrite Hl in HPc.
      unfold trmx. rewrite get_tab by lia. reflexivity.
    - intros E. apply (f_equal (@length _)) in E. rewrite length_pick in E by exact Hlw.
      destruct As; [congruence|simpl in E; discriminate].
    - exact Hc.
  Qed.
End MirrorAmp.

Lemma hd_rev {A} (l : list A) d : hd d (rev l) = last l d.
Proof. induction l using rev_ind; [reflexivity|]. rewrite rev_unit, last_last. reflexivity. Qed.
Lemma last_rev {A} (l : list A) d : last (rev l) d = hd d l.
Proof. destruct l; [reflexivity|]. simpl rev. rewrite last_last. reflexivity. Qed.
Lemma hd_map_f {A B} (f : A -> B) l d : hd (f d) (map f l) = f (hd d l).
Proof. destruct l; reflexivity. Qed.
Lemma hd_lens qs : hd 0 (lens qs) = length (hd [] qs).
Proof. destruct qs; reflexivity. Qed.
Lemma last_lens qs : last (lens qs) 0 = length (last qs []).
Proof. unfold lens. change 0 with (length (@nil Z)). apply (last_map_f (@length Z)). Qed.
Lemma chainP_Forall {X Y} (P : X -> X -> Y -> Prop) (Q : Y -> Prop) : (forall l r a, P l r a -> Q a) ->
  forall (As : list Y) (Ds : list X), chainP P Ds As -> Forall Q As.
Proof.
  intros HPQ. induction As as [|A As IH]; intros Ds H; [constructor|].
  destruct Ds as [|Dl [|Dr Ds]]; try (simpl in H; contradiction).
  destruct H as [H1 H2]. constructor; [eapply HPQ; exact H1|eapply IH; exact H2].
Qed.
Lemma pos_mirror (qs : list (list Z)) : Forall (fun q => 1 <= length q) qs ->
  Forall (fun q => 1 <= length q) (rev (map zneg qs)).
Proof.
  intros H. apply Forall_rev. rewrite Forall_forall in *. intros q Hq. apply in_map_iff in Hq.
  destruct Hq as (q' & <- & Hq'). rewrite zneg_length. apply H. exact Hq'.
Qed.

Section RightTop.
  Variable F : ofield.
  Notation CF := (Cx F).
  Add Ring CFring_orthright : (k_rt CF).
  Notation mx := (mx CF).
  Notation site := (site CF).
  Infix "*!" := (kmul CF) (at level 40, left associativity).
  Variable dqr : mx -> mx * mx.

  Lemma chain_shape_ucols d Ds (As : list site) : 1 <= d -> chain_shape d Ds As = true -> Forall ucols As.
  Proof.
    intros Hd H. apply chain_shape_P in H.
    apply (chainP_Forall (fun Dl Dr A => site_shape d Dl Dr A = true) ucols) with (Ds := Ds); [|exact H].
    intros l r A Hs. unfold ucols. apply Forall_forall. intros X HX.
    destruct (site_shape_sel CF d l r A 0 Hs ltac:(lia)) as (_ & _ & Hc). unfold sDr. rewrite Hc.
    unfold site_shape in Hs. rewrite andb_true_iff, forallb_forall in Hs. destruct Hs as [_ Hs].
    specialize (Hs X HX). rewrite !andb_true_iff, !Nat.eqb_eq in Hs. tauto.
  Qed.

  Theorem orth_right_spec (p : mps CF) (d : nat) :
    1 <= d -> length (m_qd p) = d -> m_A p <> [] -> mps_ok p = true ->
    length (hd [] (m_qD p)) = 1 -> length (last (m_qD p) []) = 1 ->
    Forall (fun q => 1 <= length q) (m_qD p) ->
    Forall (qr_call_ok F dqr) (mps_orth_calls dqr false p) ->
    exists p' nrm, mps_orthonormalize dqr false p = Some (p', nrm) /\
      m_qd p' = m_qd p /\ length (m_A p') = length (m_A p) /\ mps_ok p' = true /\
      last (m_qD p') [] = last (m_qD p) [] /\ length (hd [] (m_qD p')) = 1 /\
      Forall (fun q => 1 <= length q) (m_qD p') /\
      bond_bound d (rev (lens (m_qD p'))) (rev (lens (m_qD p))) /\
      chain_riso (lens (m_qD p')) (m_A p') /\
      fle F (f0 F) nrm /\
      (forall w, length w = length (m_A p) -> letters d w -> amp (m_A p) w = cof nrm *! amp (m_A p') w) /\
      norm2 d (m_A p) = cof (fmul F nrm nrm) /\ norm2 d (m_A p') = k1 CF.
  Proof.
    intros Hd Lqd Hne Hok Hfirst Hlast Hpos Hcalls.
    destruct p as [qd qDs As]. cbn [m_qd m_qD m_A] in *.
    assert (Hok0 := Hok). unfold mps_ok in Hok. cbn [m_qd m_qD m_A] in Hok. rewrite Lqd in Hok.
    apply andb_true_iff in Hok. destruct Hok as [Hshape Hsparse]. fold (lens qDs) in Hshape.
    assert (Hu : Forall ucols As) by (apply (chain_shape_ucols d (lens qDs)); assumption).
    set (p := mkmps qd qDs As) in *.
    assert (HneM : m_A (mirror F p) <> []).
    { unfold mirror, p. cbn [m_A]. intros E. apply (f_equal (@length _)) in E. rewrite rev_length, map_length in E.
      destruct As; [congruence|simpl in E; discriminate]. }
    destruct (ok_mirror CF d qd As qDs Lqd Hshape Hsparse) as [HshapeM HsparseM].
    assert (HokM : mps_ok (mirror F p) = true).
    { unfold mps_ok, mirror, p. cbn [m_qd m_qD m_A]. rewrite Lqd. fold (lens (rev (map zneg qDs))).
      rewrite HshapeM, HsparseM. reflexivity. }
    assert (HfirstM : length (hd [] (m_qD (mirror F p))) = 1).
    { unfold mirror, p. cbn [m_qD]. rewrite hd_rev. change (@nil Z) with (zneg []). rewrite last_map_f, zneg_length. exact Hlast. }
    assert (HlastM : length (last (m_qD (mirror F p)) []) = 1).
    { unfold mirror, p. cbn [m_qD]. rewrite last_rev. change (@nil Z) with (zneg []). rewrite hd_map_f, zneg_length. exact Hfirst. }
    assert (HposM : Forall (fun q => 1 <= length q) (m_qD (mirror F p))) by (apply pos_mirror; exact Hpos).
    assert (HcallsM : Forall (qr_call_ok F dqr) (mps_orth_calls dqr true (mirror F p))).
    { rewrite <- (orth_right_calls_mirror F dqr p Hu). exact Hcalls. }
    destruct (orth_left_spec F dqr (mirror F p) d Hd Lqd HneM HokM HfirstM HlastM HposM HcallsM)
      as (p2 & nrm & E & Hqd & Hlen & Hok2 & Hhd & Hlast2 & Hpos2 & Hbb & Hiso & Hnrm & Hamp & Hn2 & Hn1).
    exists (mirror F p2), nrm.
    split. { rewrite (orth_right_mirror F dqr p Hne Hu), E. reflexivity. }
    destruct p2 as [qd2 qs2 Bs]. unfold mirror in *. unfold p in *. clear p. cbn [m_qd m_qD m_A] in *. subst qd2.
    rewrite rev_length, map_length in Hlen.
    unfold mps_ok in Hok2. cbn [m_qd m_qD m_A] in Hok2. rewrite Lqd in Hok2.
    apply andb_true_iff in Hok2. destruct Hok2 as [Hshape2 Hsparse2]. fold (lens qs2) in Hshape2.
    destruct (ok_mirror CF d qd Bs qs2 Lqd Hshape2 Hsparse2) as [Hshape3 Hsparse3].
    assert (Hhd2 : hd 0 (lens qs2) = 1) by (rewrite hd_lens, Hhd; exact HfirstM).
    assert (Hls2 : last (lens qs2) 0 = 1) by (rewrite last_lens; exact Hlast2).
    assert (HneB : Bs <> []) by (intros ->; destruct As; [congruence|simpl in Hlen; discriminate]).
    assert (Hriso : chain_riso (lens (rev (map zneg qs2))) (rev (map (@trs CF) Bs))).
    { rewrite lens_mirror. apply (chain_riso_mirror CF d); assumption. }
    assert (Hamp' : forall w, length w = length As -> letters d w ->
               amp As w = cof nrm *! amp (rev (map (@trs CF) Bs)) w).
    { intros w Hlw Hw.
      assert (Hwr : letters d (rev w)) by (apply Forall_rev; exact Hw).
      rewrite <- (amp_mirror CF d (lens qDs) As w Hshape ltac:(rewrite hd_lens; exact Hfirst)
                    ltac:(rewrite last_lens; exact Hlast) Hne Hlw Hw).
      rewrite (Hamp (rev w) ltac:(rewrite !rev_length, map_length; exact Hlw) Hwr).
      rewrite <- (amp_mirror CF d (lens qs2) Bs (rev w) Hshape2 Hhd2 Hls2 HneB ltac:(rewrite rev_length; lia) Hwr).
      rewrite rev_involutive. reflexivity. }
    assert (Hn1' : norm2 d (rev (map (@trs CF) Bs)) = k1 CF).
    { apply (riso_chain_norm CF d (lens (rev (map zneg qs2)))); [exact Hshape3|exact Hriso| |].
      - rewrite lens_mirror, hd_rev. exact Hls2.
      - rewrite lens_mirror, last_rev. exact Hhd2. }
    split; [reflexivity|]. split; [rewrite rev_length, map_length; exact Hlen|].
    split. { unfold mps_ok. cbn [m_qd m_qD m_A]. rewrite Lqd. fold (lens (rev (map zneg qs2))).
             rewrite Hshape3, Hsparse3. reflexivity. }
    split. { rewrite last_rev. transitivity (zneg (hd [] qs2)); [apply (hd_map_f zneg qs2 [])|].
             rewrite Hhd, hd_rev. change (last (map zneg qDs) []) with (last (map zneg qDs) (zneg [])).
             rewrite (last_map_f zneg qDs []). apply zneg_invol. }
    split. { rewrite hd_rev. change (@nil Z) with (zneg []). rewrite last_map_f, zneg_length. exact Hlast2. }
    split; [apply pos_mirror; exact Hpos2|].
    split. { rewrite lens_mirror, rev_involutive. rewrite lens_mirror in Hbb. exact Hbb. }
    split; [exact Hriso|]. split; [exact Hnrm|]. split; [exact Hamp'|].
    split; [|exact Hn1'].
    rewrite (norm2_scaled F d As (rev (map (@trs CF) Bs)) nrm).
    - rewrite Hn1'. ring.
    - rewrite rev_length, map_length. lia.
    - exact Hamp'.
  Qed.
End RightTop.

Print Assumptions orth_right_mirror.
Print Assumptions orth_right_calls_mirror.
Print Assumptions orth_right_spec.
