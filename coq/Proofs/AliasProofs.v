(* Frame and freshness theorems for the ownership model of C19. *)
From Coq Require Import List Arith ZArith Lia Bool.
From PT Require Import Model.Alias.
Import ListNotations.

Lemma upd_length {A} (l : list A) i x : length (upd l i x) = length l.
Proof. revert i; induction l as [|h t IH]; intros [|i]; simpl; auto. Qed.

Lemma nth_upd_neq {A} (l : list A) i j x d : i <> j -> nth j (upd l i x) d = nth j l d.
Proof. revert i j; induction l as [|h t IH]; intros [|i] [|j] H; simpl; auto; try lia; try (apply IH; lia). Qed.

Lemma nth_error_upd_neq {A} (l : list A) i j x : i <> j -> nth_error (upd l i x) j = nth_error l j.
Proof. revert i j; induction l as [|h t IH]; intros [|i] [|j] H; simpl; auto; try lia; try (apply IH; lia). Qed.

Lemma nth_error_upd_eq {A} (l : list A) i x : i < length l -> nth_error (upd l i x) i = Some x.
Proof. revert i; induction l as [|h t IH]; intros [|i] H; simpl in *; auto; try lia; try (apply IH; lia). Qed.

(* the invariant: every object's cells are allocated, and distinct objects share no cell *)
Definition Inv (s : state) : Prop :=
  (forall i o c, nth_error (objs s) i = Some o -> In c o -> c < length (heap s)) /\
  (forall i j o1 o2 c, i <> j -> nth_error (objs s) i = Some o1 -> nth_error (objs s) j = Some o2 ->
                       In c o1 -> ~ In c o2).

Lemma fresh_cells_ge h n c : In c (fresh_cells h n) -> length h <= c < length h + n.
Proof. unfold fresh_cells. intros H. apply in_seq in H. lia. Qed.

Lemma inv_init : Inv (mkstate [] []).
Proof. split; intros; destruct i; discriminate. Qed.

Lemma nth_error_snoc {A} (l : list A) x i o :
  nth_error (l ++ [x]) i = Some o -> (i < length l /\ nth_error l i = Some o) \/ (i = length l /\ o = x).
Proof.
  intros H. destruct (lt_dec i (length l)) as [Hl|Hl].
  - left. split; [exact Hl|]. rewrite nth_error_app1 in H by exact Hl. exact H.
  - right. rewrite nth_error_app2 in H by lia. destruct (i - length l) as [|k] eqn:E; simpl in H.
    + inversion H. split; [lia|reflexivity].
    + destruct k; discriminate.
Qed.

Lemma nth_error_upd_cases {A} (l : list A) t x i o :
  t < length l -> nth_error (upd l t x) i = Some o ->
  (i = t /\ o = x) \/ (i <> t /\ nth_error l i = Some o).
Proof.
  intros Ht H. destruct (Nat.eq_dec i t) as [->|Hne].
  - left. rewrite nth_error_upd_eq in H by exact Ht. inversion H. auto.
  - right. split; [exact Hne|]. rewrite nth_error_upd_neq in H by lia. exact H.
Qed.

Lemma inv_step s e : Inv s -> Inv (step s e).
Proof.
  intros [Hb Hd]. destruct e as [c|t c|t k v]; simpl.
  - (* EPure *)
    unfold Inv; simpl. split.
    + intros i o x Hi Hx. rewrite app_length. apply nth_error_snoc in Hi. destruct Hi as [[_ Hi]|[_ ->]].
      * specialize (Hb _ _ _ Hi Hx). lia.
      * apply fresh_cells_ge in Hx. lia.
    + intros i j o1 o2 x Hij Hi Hj Hx1 Hx2.
      apply nth_error_snoc in Hi. apply nth_error_snoc in Hj.
      destruct Hi as [[_ Hi]|[Hi ->]]; destruct Hj as [[Hjl Hj]|[Hj' ->]].
      * exact (Hd _ _ _ _ _ Hij Hi Hj Hx1 Hx2).
      * specialize (Hb _ _ _ Hi Hx1). apply fresh_cells_ge in Hx2. lia.
      * specialize (Hb _ _ _ Hj Hx2). apply fresh_cells_ge in Hx1. lia.
      * lia.
  - (* ERebind *)
    destruct (Nat.ltb t (length (objs s))) eqn:Et; [|split; assumption].
    apply Nat.ltb_lt in Et. unfold Inv; simpl. split.
    + intros i o x Hi Hx. rewrite app_length. apply nth_error_upd_cases in Hi; [|exact Et].
      destruct Hi as [[_ ->]|[_ Hi]].
      * apply fresh_cells_ge in Hx. lia.
      * specialize (Hb _ _ _ Hi Hx). lia.
    + intros i j o1 o2 x Hij Hi Hj Hx1 Hx2.
      apply nth_error_upd_cases in Hi; [|exact Et]. apply nth_error_upd_cases in Hj; [|exact Et].
      destruct Hi as [[Hi ->]|[Hit Hi]]; destruct Hj as [[Hj ->]|[Hjt Hj]].
      * lia.
      * specialize (Hb _ _ _ Hj Hx2). apply fresh_cells_ge in Hx1. lia.
      * specialize (Hb _ _ _ Hi Hx1). apply fresh_cells_ge in Hx2. lia.
      * exact (Hd _ _ _ _ _ Hij Hi Hj Hx1 Hx2).
  - (* EWrite *)
    destruct (nth_error (objs s) t) as [o|] eqn:Eo; [|split; assumption].
    destruct (nth_error o k) as [c|] eqn:Ec; [|split; assumption].
    unfold Inv; simpl. split.
    + intros i o' x Hi Hx. rewrite upd_length. eapply Hb; eauto.
    + exact Hd.
Qed.

Lemma inv_run es s : Inv s -> Inv (run es s).
Proof. revert s; induction es as [|e es IH]; intros s H; simpl; [exact H|]. apply IH, inv_step, H. Qed.

Lemma content_app s c extra objs' : c < length (heap s) ->
  content (mkstate (heap s ++ extra) objs') c = content s c.
Proof. intros H. unfold content. simpl. apply app_nth1. exact H. Qed.

(* one step that does not target object i leaves it bound to the same cells with the same contents *)
Lemma step_frame s e i o : Inv s -> nth_error (objs s) i = Some o -> target_of e <> Some i ->
  nth_error (objs (step s e)) i = Some o /\ forall c, In c o -> content (step s e) c = content s c.
Proof.
  intros [Hb Hd] Hi Ht. destruct e as [c0|t c0|t k v]; simpl in *.
  - split.
    + rewrite nth_error_app1; [exact Hi|]. apply nth_error_Some. congruence.
    + intros c Hc. apply content_app. eapply Hb; eauto.
  - destruct (Nat.ltb t (length (objs s))) eqn:Et; [|split; auto].
    simpl. split.
    + rewrite nth_error_upd_neq; [exact Hi|]. intros E. apply Ht. congruence.
    + intros c Hc. apply content_app. eapply Hb; eauto.
  - destruct (nth_error (objs s) t) as [o'|] eqn:Eo; [|split; auto].
    destruct (nth_error o' k) as [c'|] eqn:Ec; [|split; auto].
    simpl. split; [exact Hi|]. intros c Hc. unfold content. simpl.
    apply nth_upd_neq. intros E. subst c'.
    assert (Hti : t <> i) by (intros E; apply Ht; congruence).
    apply (Hd t i o' o c Hti Eo Hi); [eapply nth_error_In; eauto|exact Hc].
Qed.

(* frame property over whole histories *)
Lemma run_frame es s i o : Inv s -> nth_error (objs s) i = Some o ->
  (forall e, In e es -> target_of e <> Some i) ->
  nth_error (objs (run es s)) i = Some o /\ obj_content (run es s) o = obj_content s o.
Proof.
  revert s; induction es as [|e es IH]; intros s HI Hi Ht; simpl.
  - split; [exact Hi|reflexivity].
  - destruct (step_frame s e i o HI Hi (Ht e (or_introl eq_refl))) as [Hi' Hc'].
    destruct (IH (step s e) (inv_step s e HI) Hi' (fun e' He' => Ht e' (or_intror He'))) as [Hi'' Hc''].
    split; [exact Hi''|]. rewrite Hc''. unfold obj_content. apply map_ext_in. exact Hc'.
Qed.

(* a result of a pure operation is made of cells no earlier object contains *)
Lemma pure_result_fresh s (c : list Z) i o x : Inv s -> nth_error (objs s) i = Some o -> In x o ->
  ~ In x (fresh_cells (heap s) (length c)).
Proof. intros [Hb _] Hi Hx Hf. specialize (Hb _ _ _ Hi Hx). apply fresh_cells_ge in Hf. lia. Qed.

(* an operation whose events are all allowed by a pure descriptor targets nothing *)
Lemma allowed_pure_no_target operands e : allowed KPure operands e = true -> target_of e = None.
Proof. unfold allowed. destruct (target_of e); [discriminate|reflexivity]. Qed.

Lemma allowed_inplace_target t operands e i :
  allowed (KInPlace t) operands e = true -> target_of e = Some i -> nth_error operands t = Some i.
Proof.
  unfold allowed. intros H E. rewrite E in H. destruct (nth_error operands t) as [t'|]; [|discriminate].
  apply Nat.eqb_eq in H. congruence.
Qed.

(* Every state reachable from the empty heap satisfies the invariant. *)
Lemma reachable_inv es : Inv (run es (mkstate [] [])).
Proof. apply inv_run, inv_init. Qed.

(* An operation all of whose events are allowed by a pure descriptor changes no existing object. *)
Lemma pure_op_frame operands es s i o : Inv s -> nth_error (objs s) i = Some o ->
  Forall (fun e => allowed KPure operands e = true) es ->
  nth_error (objs (run es s)) i = Some o /\ obj_content (run es s) o = obj_content s o.
Proof.
  intros HI Hi Hall. apply run_frame; auto. intros e He.
  rewrite Forall_forall in Hall. rewrite (allowed_pure_no_target operands e (Hall e He)). discriminate.
Qed.

(* An in-place algorithm whose events are allowed by its descriptor changes only its documented target. *)
Lemma inplace_op_frame t operands es s i o : Inv s -> nth_error (objs s) i = Some o ->
  nth_error operands t <> Some i ->
  Forall (fun e => allowed (KInPlace t) operands e = true) es ->
  nth_error (objs (run es s)) i = Some o /\ obj_content (run es s) o = obj_content s o.
Proof.
  intros HI Hi Hne Hall. apply run_frame; auto. intros e He E.
  rewrite Forall_forall in Hall. apply Hne. eapply allowed_inplace_target; eauto.
Qed.

(* Results of pure operations stay disjoint from the operands through every later history:
   later mutations of the result (events targeting it) never alter any earlier object. *)
Lemma result_mutations_frame c es s i o : Inv s -> nth_error (objs s) i = Some o ->
  (forall e, In e es -> target_of e = None \/ target_of e = Some (length (objs s))) ->
  obj_content (run es (step s (EPure c))) o = obj_content s o.
Proof.
  intros HI Hi Ht.
  assert (Hil : i < length (objs s)) by (apply nth_error_Some; congruence).
  destruct (step_frame s (EPure c) i o HI Hi) as [Hi' Hc']; [discriminate|].
  destruct (run_frame es (step s (EPure c)) i o (inv_step _ _ HI) Hi') as [_ Hc''].
  - intros e He E. destruct (Ht e He) as [H|H]; rewrite H in E; [discriminate|]. inversion E. lia.
  - rewrite Hc''. unfold obj_content. apply map_ext_in. exact Hc'.
Qed.
