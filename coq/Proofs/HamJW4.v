(* C06, Jordan-Wigner link -- part 4: down to the matrix elements of the MPO.
   [zwords_supp]: a word sum does not depend on the alphabet as long as the summand vanishes on words with foreign letters;
   [den_from_alphabet]: a graph gives coefficient 0 to words with a letter on none of its edges;
   [fermi_dense_jw]: every matrix element of the MPO built from the Fermi-Hubbard graph is the matrix element of the
   second-quantised Jordan-Wigner formula [fh_jw] between the occupation-number states. *)
From Coq Require Import ZArith List Lia Bool Arith Ring Permutation.
From PT Require Import Base.Scalar Base.BigSum Base.Mx Model.OpGraph Model.Tensor Model.FromOpchains Model.GraphMPO Model.Molecular
                       Model.MolFormula Model.Hamiltonians Model.HamFormulas
                       Proofs.GraphMPOSem Proofs.DenRev_C05 Proofs.PampDen_C05 Proofs.C05Final Proofs.HamShift Proofs.HamTotal
                       Proofs.HamJWDefs Proofs.HamJW1 Proofs.HamJW2 Proofs.HamJW3.
Import ListNotations.
Local Open Scope nat_scope.

Section JW4.
  Variable R : cring.
  Add Ring Rring_jw4 : (k_rt R).
  Notation "0r" := (k0 R). Notation "1r" := (k1 R).
  Infix "+r" := (kadd R) (at level 50, left associativity).
  Infix "*r" := (kmul R) (at level 40, left associativity).

  Definition zmem (l : list Z) (o : Z) : bool := if in_dec Z.eq_dec o l then true else false.
  Lemma zmem_In l o : zmem l o = true <-> In o l.
  Proof. unfold zmem. destruct (in_dec Z.eq_dec o l); split; auto; discriminate. Qed.

  Lemma suml_filter_supp (l : list Z) (p : Z -> bool) (K : Z -> R) :
    (forall o, In o l -> p o = false -> K o = 0r) -> suml l K = suml (filter p l) K.
  Proof.
    induction l as [|a l IH]; intros H; [reflexivity|]. cbn [filter suml].
    rewrite IH by (intros o Ho; apply H; right; exact Ho).
    destruct (p a) eqn:E; [reflexivity|]. rewrite (H a) by (auto; left; reflexivity). ring.
  Qed.
  Lemma suml_supp (A B : list Z) (K : Z -> R) : NoDup A -> NoDup B ->
    (forall o, ~ In o A -> K o = 0r) -> (forall o, ~ In o B -> K o = 0r) -> suml A K = suml B K.
  Proof.
    intros NA NB HA HB.
    rewrite (suml_filter_supp A (zmem B) K), (suml_filter_supp B (zmem A) K).
    - apply suml_permutation. apply NoDup_Permutation; try (apply NoDup_filter; assumption).
      intros x. rewrite !filter_In, !zmem_In. tauto.
    - intros o _ Hf. apply HA. intros Hin. apply zmem_In in Hin. congruence.
    - intros o _ Hf. apply HB. intros Hin. apply zmem_In in Hin. congruence.
  Qed.
  Lemma zwords_supp (A B : list Z) : NoDup A -> NoDup B -> forall n (H : list Z -> R),
    (forall w o, In o w -> ~ In o A -> H w = 0r) -> (forall w o, In o w -> ~ In o B -> H w = 0r) ->
    suml (zwords A n) H = suml (zwords B n) H.
  Proof.
    intros NA NB. induction n as [|n IH]; intros H HA HB; [reflexivity|].
    cbn [zwords]. rewrite !suml_flat_map'.
    transitivity (suml A (fun o => suml (zwords B n) (fun w => H (o :: w)))).
    - apply suml_ext. intros o _. rewrite !suml_map. apply IH.
      + intros w o' Hin Hn. apply (HA _ o'); [right; exact Hin|exact Hn].
      + intros w o' Hin Hn. apply (HB _ o'); [right; exact Hin|exact Hn].
    - transitivity (suml B (fun o => suml (zwords B n) (fun w => H (o :: w)))).
      + apply suml_supp; try assumption.
        * intros o Ho. apply suml_zero. intros w _. apply (HA _ o); [left; reflexivity|exact Ho].
        * intros o Ho. apply suml_zero. intros w _. apply (HB _ o); [left; reflexivity|exact Ho].
      + apply suml_ext. intros o _. rewrite suml_map. reflexivity.
  Qed.

  Lemma opics_coeff_out o (opics : list (Z * R)) : ~ In o (map fst opics) -> opics_coeff o opics = 0r.
  Proof.
    intros H. unfold opics_coeff. apply suml_zero. intros p Hp.
    destruct (Z.eqb_spec (fst p) o) as [E|_]; [|reflexivity]. exfalso. apply H. rewrite <- E. apply in_map, Hp.
  Qed.
  Lemma den_from_alphabet (g : graph R) o : ~ In o (alphabet g) -> forall w nid, In o w -> den_from g w nid = 0r.
  Proof.
    intros Ho. induction w as [|o' w IH]; intros nid Hin; [destruct Hin|].
    cbn [den_from]. apply suml_zero. intros e He. destruct Hin as [->|Hin].
    - rewrite opics_coeff_out; [ring|]. intros Hm. apply Ho. unfold alphabet. apply nodup_In, in_flat_map.
      exists e. split; [apply (out_edges_In R g nid e He)|exact Hm].
    - rewrite (IH _ Hin). ring.
  Qed.

  Lemma padw_In L (oids : list Z) i o : In o (padw L 0%Z oids i) -> o = 0%Z \/ In o oids.
  Proof.
    unfold padw. rewrite !in_app_iff. intros [H|[H|H]]; [left|right; exact H|left]; apply repeat_spec in H; exact H.
  Qed.
  Lemma is_word_out L oids i w o : In o w -> o <> 0%Z -> ~ In o oids -> @is_word R L 0%Z oids i w = 0r.
  Proof.
    intros Hin H0 Hn. unfold is_word. destruct (zlist_eqb (padw L 0%Z oids i) w) eqn:E; [|reflexivity].
    apply FromOpchainsPart.zlist_eqb_eq in E. subst w. apply padw_In in Hin. tauto.
  Qed.
  Lemma fermi_formula_out (t U mu : R) L w o : In o w -> ~ In o fh_alpha -> fermi_formula t U mu L w = 0r.
  Proof.
    intros Hin Hn. unfold fermi_formula, T1, T2.
    assert (Hz : forall oids i, (forall x, In x oids -> In x fh_alpha) -> @is_word R L 0%Z oids i w = 0r).
    { intros oids i Hs. apply (is_word_out L oids i w o Hin).
      - intros ->. apply Hn. cbn. tauto.
      - intros Hx. apply Hn, Hs, Hx. }
    rewrite !sumn_zero; [ring| | |]; intros i _; rewrite ?Hz; try ring; cbn; intros x Hx; intuition (subst; tauto).
  Qed.

  Theorem fermi_dense_jw cover (half t U mu : R) L g o m ls : half +r half = 1r -> 1 <= L ->
    spec_graph cover (fermi_spec half t U mu) L = FromOpchains.Ok g -> linked g = true ->
    from_opgraph (fermi_qd) g (opmap_of (fermi_opmap half)) = FromOpchains.Ok (o, m) ->
    graph_layers g = FromOpchains.Ok ls -> last ls [] = [g_t1 g] ->
    forall w w', length w = length (o_A o) -> length w' = length (o_A o) ->
    Forall (fun s => s < 4) w -> Forall (fun s => s < 4) w' ->
    opamp (o_A o) w w' =
    suml (opwords (2 * length w)) (fun v => pcoef (fh_jw half t U mu L) v *r mprod v (bits w) (bits w')).
  Proof.
    intros Hh HL Hg Hlk Hm Hls Hlast w w' Hw Hw' Fw Fw'.
    rewrite (from_opgraph_opamp_den R fermi_qd g _ o m ls Hm Hls Hlast w w' Hw Hw' Fw Fw').
    rewrite (zwords_supp (alphabet g) fh_alpha (NoDup_nodup _ _) fh_alpha_nodup).
    - rewrite (suml_ext R _ _ (fun word => fermi_formula t U mu L word *r wprod (opmap_of (fermi_opmap half)) word w w')).
      + rewrite (fh_expand_sem R half Hh w w') by (congruence || assumption).
        apply suml_ext. intros v _. rewrite fermi_jw_all_L. reflexivity.
      + intros word _. rewrite (proj2 (fermi_den R cover half t U mu L g HL Hg word) Hlk). reflexivity.
    - intros word x Hin Hn. unfold den. rewrite (den_from_alphabet g x Hn word _ Hin). ring.
    - intros word x Hin Hn. rewrite (proj2 (fermi_den R cover half t U mu L g HL Hg word) Hlk).
      rewrite (fermi_formula_out t U mu L word x Hin Hn). ring.
  Qed.

  (* the graph the constructor builds (it exists: HamTotal), read through the letter table, IS the Jordan-Wigner formula *)
  Theorem fermi_graph_jw (half t U mu : R) L : 1 <= L -> some_term R (fermi_lop t U mu) L = true ->
    exists g, spec_graph cover_model (fermi_spec half t U mu) L = FromOpchains.Ok g /\ linked g = true /\
      (forall fuel b, is_consistent_fuel fuel g = Some b -> b = true) /\ glength g = Some L /\
      forall v, fh_expand half (den g) v = pcoef (fh_jw half t U mu L) v.
  Proof.
    intros HL Hs. destruct (fermi_total R half t U mu L HL Hs) as [g [Hg [Hl [Hc [Hn Hd]]]]].
    exists g. repeat split; try assumption. intros v.
    rewrite (E_ext R half (den g) (fermi_formula t U mu L) v Hd). apply fermi_jw_all_L.
  Qed.
End JW4.
