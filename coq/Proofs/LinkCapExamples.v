(* Link 5d' (C10): boolean checkers for the LAPACK-level trace contracts of runs with the REPAIRED eigensolver
   [keig_lanczos_cap] (Proofs/LinkSolversCap.v, Proofs/LinkRunDMRGCap.v) with soundness lemmas, and non-vacuity instances on which
   the cap numiter = min(numiter, Astart.size) BITES (numiter = 25, the default of pytenet, larger than every local dimension):

   (1) the one-site problem of Proofs/LinkExamplesLocal.v (H = diag(1, -1), start tensor (3, 4), size 2): min(25, 2) = 2;
   (2) whole runs of single-site and two-site DMRG on a product state of two spins (L = 2, d = 2, all bonds 1, H = Z (x) Z,
       psi = (3/5, 4/5) (x) (1, 0), two sweeps): every one-site tensor has size 2, the merged tensor has size 4 (< 25).
       The first single-site call runs exactly the capped number of Lanczos iterations (2 vectors, norms 1 and 24/25,
       T = [[-7/25, 24/25], [24/25, 7/25]], eigh_tridiagonal answered by the rational rotation of Proofs/LinkExamplesLocal.v),
       and reaches the ground state (0, 1) (x) (1, 0) with energy -1; all later calls start from an eigenvector and stop
       after one vector (breakdown; 1 x 1 eigenproblem answered by w = (alpha_0), U = [[1]]). *)
From Coq Require Import ZArith QArith Qcanon Arith List Lia Bool.
From PT Require Import Base.Scalar Base.Field Base.BigSum Base.Mx Model.Tensor Model.Operation Model.Krylov Model.Sweeps
  Proofs.OperationEntries Proofs.OperationTwoSite
  Proofs.KrylovVec Proofs.KrylovLanczos Proofs.KrylovMatvec Proofs.KrylovExpm Proofs.KrylovRitz Proofs.KrylovExamples Proofs.KrylovExamples15
  Proofs.SweepsCanon Proofs.SweepsGauge Proofs.SweepsInv Proofs.SweepsRun Proofs.SweepsCheck Proofs.SweepsExample
  Proofs.Sweeps2Inv Proofs.Sweeps2Run Proofs.Sweeps2Check Proofs.Sweeps2Example
  Proofs.LinkExpmEnergy Proofs.LinkFlatten Proofs.LinkLocalOps Proofs.LinkSolvers Proofs.LinkCtx Proofs.Link2RunDMRG
  Proofs.LinkExamplesLocal Proofs.Link2Examples Proofs.LinkSolversCap Proofs.LinkRunDMRGCap.
Import ListNotations.
Open Scope nat_scope.

Section CapCheck.
  Variable F : ofield.
  Notation K := (Cx F).
  Variable dnorm : list K -> F.
  Variable small : F -> bool.
  Variable deigh : list F -> list F -> list F * list (list F).
  Variable numiter : nat.

  Definition keig_lanczos_cap_calls_okb (BL BR : env K) (W : osite K) (A : site K) : bool :=
    keig_lanczos_calls_okb dnorm small deigh (Nat.min numiter (site_size A)) BL BR W A.
  Lemma keig_lanczos_cap_calls_okb_ok BL BR W A :
    keig_lanczos_cap_calls_okb BL BR W A = true -> keig_lanczos_cap_calls_ok F dnorm small deigh numiter BL BR W A.
  Proof. apply keig_lanczos_calls_okb_ok. Qed.

  Variable qr : nat -> mx K -> list BinNums.Z -> list BinNums.Z -> mx K * mx K * list BinNums.Z.
  Variable split : nat -> site K -> list BinNums.Z -> list BinNums.Z -> list BinNums.Z -> list BinNums.Z -> bool -> site K * site K * list BinNums.Z.
  Variable Hs : list (osite K).
  Variable d : nat.

  Fixpoint ldmrg1_cap_okb (tr : list (tcall K)) : bool :=
    match tr with
    | [] => true
    | t :: rest =>
        (match c_kind (t_call t), t_envs t, t_ten t, t_qs t with
         | EIG, [BL; BR], [A], _ => keig_lanczos_cap_calls_okb BL BR (nth (c_site (t_call t)) Hs []) A
         | QR, _, [[M]], [q0; q1] => qr_okb M (qr (length rest) M q0 q1)
         | _, _, _, _ => true
         end) && ldmrg1_cap_okb rest
    end.
  Lemma ldmrg1_cap_okb_ok tr : ldmrg1_cap_okb tr = true -> lrtr_cap_ok qr dnorm small deigh numiter Hs tr.
  Proof.
    unfold lrtr_cap_ok.
    induction tr as [|t rest IH]; [intros _; exact I|]. cbn [ldmrg1_cap_okb grtr_ok]. rewrite andb_true_iff. intros [H1 H2].
    split; [|exact (IH H2)]. clear IH H2. unfold gdmrg_call_ok. destruct t as [[k i c] envs ten qs].
    cbn [t_call c_kind c_site c_coef t_envs t_ten t_qs] in *.
    destruct k; try exact I.
    - destruct envs as [|BL [|BR [|? ?]]]; try exact I. destruct ten as [|A [|? ?]]; try exact I.
      apply keig_lanczos_cap_calls_okb_ok. exact H1.
    - destruct ten as [|[|M [|? ?]] [|? ?]]; try exact I. destruct qs as [|q0 [|q1 [|? ?]]]; try exact I.
      apply qr_okb_ok. exact H1.
  Qed.

  Fixpoint ldmrg2_cap_okb (tr : list (tcall K)) : bool :=
    match tr with
    | [] => true
    | t :: rest =>
        (let i := c_site (t_call t) in
         match c_kind (t_call t), t_envs t, t_ten t, t_qs t with
         | EIG2, [BL; BR], [Am], _ => keig_lanczos_cap_calls_okb BL BR (Hm Hs i) Am
         | SPLITL, _, [Am], [q0; q1; q2; q3] => split_okb d true Am (split (length rest) Am q0 q1 q2 q3 true)
         | SPLITR, _, [Am], [q0; q1; q2; q3] => split_okb d false Am (split (length rest) Am q0 q1 q2 q3 false)
         | QR, _, [[M]], [q0; q1] => qr_okb M (qr (length rest) M q0 q1)
         | _, _, _, _ => true
         end) && ldmrg2_cap_okb rest
    end.
  Lemma ldmrg2_cap_okb_ok tr : ldmrg2_cap_okb tr = true -> lrtr2_cap_ok qr split dnorm small deigh numiter Hs d tr.
  Proof.
    unfold lrtr2_cap_ok.
    induction tr as [|t rest IH]; [intros _; exact I|]. cbn [ldmrg2_cap_okb grtr2_ok]. rewrite andb_true_iff. intros [H1 H2].
    split; [|exact (IH H2)]. clear IH H2. unfold gdmrg2_call_ok. destruct t as [[k i c] envs ten qs]. cbv zeta in H1 |- *.
    cbn [t_call c_kind c_site c_coef t_envs t_ten t_qs] in *.
    destruct k; try exact I.
    - destruct envs as [|BL [|BR [|? ?]]]; try exact I. destruct ten as [|A [|? ?]]; try exact I.
      apply keig_lanczos_cap_calls_okb_ok. exact H1.
    - destruct ten as [|[|M [|? ?]] [|? ?]]; try exact I. destruct qs as [|q0 [|q1 [|? ?]]]; try exact I.
      apply qr_okb_ok. exact H1.
    - destruct ten as [|A [|? ?]]; try exact I. destruct qs as [|q0 [|q1 [|q2 [|q3 [|? ?]]]]]; try exact I.
      apply split_okb_ok. exact H1.
    - destruct ten as [|A [|? ?]]; try exact I. destruct qs as [|q0 [|q1 [|q2 [|q3 [|? ?]]]]]; try exact I.
      apply split_okb_ok. exact H1.
  Qed.

  (* every eigensolver entry of the trace has a start tensor smaller than numiter: the cap bites at every call *)
  Definition cap_bites_everywhere (tr : list (tcall K)) : bool :=
    forallb (fun t => match c_kind (t_call t), t_ten t with
                      | EIG, [A] | EIG2, [A] => Nat.ltb (site_size A) numiter && Nat.leb 1 (site_size A)
                      | _, _ => true end) tr.
End CapCheck.

Arguments keig_lanczos_cap_calls_okb {F} dnorm small deigh numiter BL BR W A.
Arguments ldmrg1_cap_okb {F} dnorm small deigh numiter qr Hs tr.
Arguments ldmrg2_cap_okb {F} dnorm small deigh numiter qr split Hs d tr.
Arguments cap_bites_everywhere {F} numiter tr.

(* ---------------- (1) one call: the problem of Proofs/LinkExamplesLocal.v with numiter = 25 ---------------- *)
Lemma lk_cap_bites : Nat.min 25 (site_size lk_A) = 2.
Proof. reflexivity. Qed.

Lemma lk_keig_cap_calls : keig_lanczos_cap_calls_ok QcF dnorm_ex ex_small lk_deigh 25 lk_E lk_E lk_W lk_A.
Proof. apply keig_lanczos_cap_calls_okb_ok. vm_compute. reflexivity. Qed.

Lemma lk_keig_cap_ok : keig_ok 2 lk_E lk_E lk_W lk_A (keig_lanczos_cap QcF dnorm_ex ex_small lk_deigh 25 0 lk_E lk_E lk_W lk_A).
Proof.
  apply (keig_cap_from_krylov QcF dnorm_ex ex_small lk_deigh 25 ex_small_sound ltac:(lia) 2 1 1 1 1);
    try lia; [exact lk_W_ok|exact lk_E_ok|exact lk_E_ok|exact lk_A_ok|exact lk_sa|exact lk_nonzero|exact lk_keig_cap_calls].
Qed.

(* ---------------- (2) whole runs: two spins, H = Z (x) Z, psi = (3/5, 4/5) (x) (1, 0) ---------------- *)
Definition c2m (n : BinNums.Z) (dn : positive) : mx CQ := @mkmx CQ 1 1 [[(qq n dn, qq 0 1)]].
Definition c2A0 : site CQ := [c2m 3 5; c2m 4 5].
Definition c2A1 : site CQ := [c2m 1 1; c2m 0 1].
Definition c2H : mpo CQ := mkmpo [0; 0]%Z [[0]; [0]; [0]]%Z [lk_W; lk_W].
Definition c2Psi : mps CQ := mkmps [0; 0]%Z [[0]; [0]; [0]]%Z [c2A0; c2A1].
(* eigh_tridiagonal: the 1 x 1 problem exactly; the 2 x 2 problem met in the first call by the rational rotation *)
Definition c2_deigh (al be : list Qc) : list Qc * list (list Qc) :=
  match be with [] => (al, [[qq 1 1]]) | _ => lk_deigh al be end.
Definition c2_keig := keig_lanczos_cap QcF dnorm_ex ex_small c2_deigh 25.

Lemma c2_dmrg1_trace_ok A qD ens tr :
  dmrg_singlesite ex_orth ex_qr c2_keig c2H c2Psi 2 = Some (A, qD, ens, tr) ->
  ldmrg1_cap_okb dnorm_ex ex_small c2_deigh 25 ex_qr (o_A c2H) (rev tr) = true.
Proof.
  intros H.
  refine (opt_check (dmrg_singlesite ex_orth ex_qr c2_keig c2H c2Psi 2)
            (fun r => ldmrg1_cap_okb dnorm_ex ex_small c2_deigh 25 ex_qr (o_A c2H) (rev (snd r))) _ (A, qD, ens, tr) H).
  vm_compute. reflexivity.
Qed.

Theorem dmrg1_run_lapack_cap_example lam A qD ens tr :
  dmrg_singlesite ex_orth ex_qr c2_keig c2H c2Psi 2 = Some (A, qD, ens, tr) ->
  SweepsLocal.bounded_below 2 (length (o_A c2H)) (o_A c2H) lam ->
  let L := length (o_A c2H) in
  let E0 := SweepsLocal.denergy 2 L (m_A (fst (ex_orth c2Psi))) (o_A c2H) in
  SweepsLocal.dnorm2 2 L A = k1 CQ /\ length ens = 2 /\
  Forall (fun e => fle QcF lam (cre e) /\ fle QcF (cre e) (cre E0)) ens /\ SweepsRun.noninc ens /\
  (ens <> [] -> last ens (k0 CQ) = SweepsLocal.denergy 2 L A (o_A c2H)).
Proof.
  intros Hrun Hlam. pose proof (c2_dmrg1_trace_ok A qD ens tr Hrun) as Htr.
  assert (G1 : OperationUniform.mpo_shapeb 2 [1; 1; 1] (o_A c2H) = true) by (vm_compute; reflexivity).
  assert (G2 : OperationUniform.mps_shapeb 2 [1; 1; 1] (m_A (fst (ex_orth c2Psi))) = true) by (vm_compute; reflexivity).
  assert (G3 : Forall right_iso (m_A (fst (ex_orth c2Psi)))) by (apply forallb_right_iso; vm_compute; reflexivity).
  assert (G4 : mpo_herm QcF (o_A c2H) 2) by (apply mpo_hermb_ok; vm_compute; reflexivity).
  assert (G5 : lrtr_cap_ok ex_qr dnorm_ex ex_small c2_deigh 25 (o_A c2H) (rev tr)) by (apply ldmrg1_cap_okb_ok; exact Htr).
  assert (G6 : 2 <= length (o_A c2H)) by (apply Nat.leb_le; vm_compute; reflexivity).
  exact (dmrg1_run_lapack_cap QcF ex_orth ex_qr dnorm_ex ex_small c2_deigh 25 c2H c2Psi 2 2
           [1; 1; 1] [1; 1; 1] lam A qD ens tr Hrun G1 G2 G3 G6 Hlam G4 ex_small_sound ltac:(lia) G5).
Qed.

Lemma c2_dmrg2_trace_ok A qD ens tr :
  dmrg_twosite ex_orth ex_qr ex3_split c2_keig c2H c2Psi 2 = Some (A, qD, ens, tr) ->
  ldmrg2_cap_okb dnorm_ex ex_small c2_deigh 25 ex_qr ex3_split (o_A c2H) 2 (rev tr) = true.
Proof.
  intros H.
  refine (opt_check (dmrg_twosite ex_orth ex_qr ex3_split c2_keig c2H c2Psi 2)
            (fun r => ldmrg2_cap_okb dnorm_ex ex_small c2_deigh 25 ex_qr ex3_split (o_A c2H) 2 (rev (snd r))) _ (A, qD, ens, tr) H).
  vm_compute. reflexivity.
Qed.

Theorem dmrg2_run_lapack_cap_example lam A qD ens tr :
  dmrg_twosite ex_orth ex_qr ex3_split c2_keig c2H c2Psi 2 = Some (A, qD, ens, tr) ->
  SweepsLocal.bounded_below 2 (length (o_A c2H)) (o_A c2H) lam ->
  let L := length (o_A c2H) in
  let E0 := SweepsLocal.denergy 2 L (m_A (fst (ex_orth c2Psi))) (o_A c2H) in
  SweepsLocal.dnorm2 2 L A = k1 CQ /\ length ens = 2 /\
  Forall (fun e => fle QcF lam (cre e) /\ fle QcF (cre e) (cre E0)) ens /\ SweepsRun.noninc ens /\
  (ens <> [] -> last ens (k0 CQ) = SweepsLocal.denergy 2 L A (o_A c2H)).
Proof.
  intros Hrun Hlam. pose proof (c2_dmrg2_trace_ok A qD ens tr Hrun) as Htr.
  assert (G1 : OperationUniform.mpo_shapeb 2 [1; 1; 1] (o_A c2H) = true) by (vm_compute; reflexivity).
  assert (G2 : OperationUniform.mps_shapeb 2 [1; 1; 1] (m_A (fst (ex_orth c2Psi))) = true) by (vm_compute; reflexivity).
  assert (G3 : Forall right_iso (m_A (fst (ex_orth c2Psi)))) by (apply forallb_right_iso; vm_compute; reflexivity).
  assert (G4 : mpo_herm QcF (o_A c2H) 2) by (apply mpo_hermb_ok; vm_compute; reflexivity).
  assert (G5 : lrtr2_cap_ok ex_qr ex3_split dnorm_ex ex_small c2_deigh 25 (o_A c2H) 2 (rev tr)) by (apply ldmrg2_cap_okb_ok; exact Htr).
  assert (G6 : 2 <= length (o_A c2H)) by (apply Nat.leb_le; vm_compute; reflexivity).
  exact (dmrg2_run_lapack_cap QcF ex_orth ex_qr ex3_split dnorm_ex ex_small c2_deigh 25 c2H c2Psi 2 2
           [1; 1; 1] [1; 1; 1] lam A qD ens tr Hrun G1 G2 G3 G6 Hlam G4 ex_small_sound ltac:(lia) G5).
Qed.
