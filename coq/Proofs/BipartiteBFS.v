(* The breadth-first search of Hopcroft-Karp (mirror: bfs_init / bfs_visit / bfs_loop / bfs):
   - it never exhausts its fuel of nu+2 dequeues (a vertex is enqueued only when its distance turns finite),
   - afterwards all distances lie in [0, inf], finite layers are contiguous (hence < nu, so that nu+1 really is
     "infinite"), unmatched U-vertices have distance 0,
   - and if NIL was not reached, the set of U-vertices with finite distance is closed under
     "unmatched edge, then matching edge" and never meets an unmatched V-vertex. *)
From Coq Require Import ZArith List Bool Lia.
From PT Require Import Model.Bipartite Proofs.BipartiteCert Proofs.BipartiteGraphSem Proofs.BipartiteHK.
Import ListNotations.
Open Scope Z_scope.

Lemma filter_length_split {A} (f : A -> bool) (l : list A) :
  (length (filter f l) + length (filter (fun x => negb (f x)) l) = length l)%nat.
Proof. induction l as [|a l IH]; simpl; [reflexivity|]. destruct (f a); simpl; lia. Qed.

(* turning one marked element into an unmarked one decreases the number of marked elements by one *)
Lemma filter_count_drop {A} (f f' : A -> bool) (a : A) (l : list A) :
  NoDup l -> In a l -> f a = true -> f' a = false -> (forall x, In x l -> x <> a -> f' x = f x) ->
  (length (filter f' l) + 1 = length (filter f l))%nat.
Proof.
  induction l as [|x l IH]; intros Hnd Hin Hfa Hf'a Hext; [contradiction|].
  inversion Hnd as [|? ? Hx Hnd']; subst. simpl. destruct Hin as [->|Hin].
  - rewrite Hfa, Hf'a. simpl. rewrite (filter_ext_in f' f l); [lia|].
    intros y Hy. apply Hext; [right; exact Hy|]. intros ->. contradiction.
  - assert (Hxa : x <> a) by (intros ->; contradiction).
    rewrite (Hext x (or_introl eq_refl) Hxa).
    assert (IH' : (length (filter f' l) + 1 = length (filter f l))%nat).
    { apply IH; try assumption. intros y Hy. apply Hext. right. exact Hy. }
    destruct (f x); simpl; lia.
Qed.

Definition init_step (s : hk) (g : bg) (acc : list Z * list Z) (u : Z) : list Z * list Z :=
  let '(d, q) := acc in
  if zget (mu s) u =? -1 then (dset d u 0, q ++ [u]) else (dset d u (inf g), q).
Definition visit_step (s : hk) (g : bg) (u : Z) (acc : list Z * list Z) (v : Z) : list Z * list Z :=
  let '(d, q) := acc in let u' := zget (mv s) v in
  if dget d u' =? inf g then (dset d u' (dget d u + 1), q ++ [u']) else (d, q).

Lemma bfs_init_unfold g s : bfs_init g s = fold_left (init_step s g) (us g) (dist s, []).
Proof. reflexivity. Qed.
Lemma bfs_visit_unfold g s u dq : bfs_visit g s u dq = fold_left (visit_step s g u) (adj_u g u) dq.
Proof. reflexivity. Qed.

Section BFS.
  Variable g : bg.
  Hypothesis Hadj : adj_ok g.
  Variable s : hk.
  Hypothesis Hinv : Inv g s.

  Definition ws : list Z := -1 :: us g.
  Definition ninf (d : list Z) : nat := length (filter (fun w => dget d w =? inf g) ws).
  Definition done_at (d : list Z) (u : Z) : Prop :=
    forall v, In v (adj_u g u) -> dget d (zget (mv s) v) < inf g.

  Lemma ws_NoDup : NoDup ws.
  Proof. constructor; [|apply us_NoDup]. intros H. apply us_In in H. lia. Qed.
  Lemma ws_In w : In w ws <-> -1 <= w < Z.of_nat (nu g).
  Proof.
    unfold ws. simpl. rewrite us_In. split; [intros [<-|H]; lia|]. intros H.
    destruct (Z.eq_dec w (-1)) as [->|E]; [left; reflexivity|right; lia].
  Qed.
  Lemma us_length : length (us g) = nu g.
  Proof. unfold us. rewrite map_length, seq_length. reflexivity. Qed.

  Lemma mv_range u v : In v (adj_u g u) -> -1 <= zget (mv s) v < Z.of_nat (nu g).
  Proof.
    intros Hv. destruct Hinv as [_ [_ HB]]. destruct (HB v (Hadj u v Hv)) as [H|[H _]]; lia.
  Qed.

  (* BFS invariant; [cur] is the vertex currently being expanded (-2 between expansions) *)
  Record BI (d q : list Z) (cur : Z) : Prop := {
    b_len : length d = (nu g + 1)%nat;
    b_rng : forall w, -1 <= w < Z.of_nat (nu g) -> 0 <= dget d w <= inf g;
    b_q : forall x, In x q -> -1 <= x < Z.of_nat (nu g);
    b_pred : forall w, -1 <= w < Z.of_nat (nu g) -> 0 < dget d w < inf g ->
             exists u v, 0 <= u < Z.of_nat (nu g) /\ In v (adj_u g u) /\ zget (mv s) v = w /\ dget d u = dget d w - 1;
    b_free : forall u, 0 <= u < Z.of_nat (nu g) -> zget (mu s) u = -1 -> dget d u = 0;
    b_clo : forall u, 0 <= u < Z.of_nat (nu g) -> dget d u < inf g ->
            In u q \/ done_at d u \/ dget d (-1) < inf g \/ u = cur;
    b_zero : forall u, -1 <= u < Z.of_nat (nu g) -> dget d u = 0 -> 0 <= u /\ zget (mu s) u = -1 }.

  (* finite layers are contiguous, so a vertex at distance k witnesses k+1 distinct U-vertices *)
  Lemma layer_list d q cur : BI d q cur -> forall k u, 0 <= u < Z.of_nat (nu g) ->
    dget d u = Z.of_nat k -> Z.of_nat k < inf g ->
    exists l, NoDup l /\ incl l (us g) /\ length l = S k /\ forall x, In x l -> dget d x <= Z.of_nat k.
  Proof.
    intros HB. induction k as [|k IH]; intros u Hu E Hlt.
    - exists [u]. split; [constructor; [intros []|constructor]|]. split; [|split; [reflexivity|]].
      + intros x [<-|[]]. apply us_In. exact Hu.
      + intros x [<-|[]]. lia.
    - destruct (b_pred d q cur HB u) as [p [vp [Hp [_ [_ Ep]]]]]; [lia|lia|].
      destruct (IH p Hp) as [l [Hnd [Hincl [Hlen Hle]]]]; [lia|lia|].
      exists (u :: l). split; [|split; [|split]].
      + constructor; [|exact Hnd]. intros Hin. specialize (Hle u Hin). lia.
      + intros x [<-|Hx]; [apply us_In; exact Hu|apply Hincl; exact Hx].
      + simpl. rewrite Hlen. reflexivity.
      + intros x [<-|Hx]; [lia|]. specialize (Hle x Hx). lia.
  Qed.

  Lemma layer_bound d q cur : BI d q cur -> forall u, 0 <= u < Z.of_nat (nu g) ->
    dget d u < inf g -> dget d u + 1 < inf g.
  Proof.
    intros HB u Hu Hfin. pose proof (b_rng d q cur HB u) as Hr.
    destruct (layer_list d q cur HB (Z.to_nat (dget d u)) u Hu) as [l [Hnd [Hincl [Hlen _]]]]; [lia|lia|].
    pose proof (NoDup_incl_length Hnd Hincl) as Hle. rewrite us_length, Hlen in Hle. unfold inf in *. lia.
  Qed.

  Lemma visit_step_ok u k v d q d1 q1 :
    0 <= u < Z.of_nat (nu g) -> 0 <= k -> k + 1 < inf g -> In v (adj_u g u) ->
    BI d q u -> dget d u = k -> visit_step s g u (d, q) v = (d1, q1) ->
    BI d1 q1 u /\ dget d1 u = k /\
    (forall w, -1 <= w < Z.of_nat (nu g) -> dget d w < inf g -> dget d1 w = dget d w) /\
    dget d1 (zget (mv s) v) < inf g /\ (length q1 + ninf d1 = length q + ninf d)%nat.
  Proof.
    intros Hu Hk Hk1 Hv HB Ek Hstep. unfold visit_step in Hstep.
    pose proof (mv_range u v Hv) as Hu'. set (u' := zget (mv s) v) in *.
    destruct (dget d u' =? inf g) eqn:E.
    - apply Z.eqb_eq in E. rewrite Ek in Hstep. injection Hstep as <- <-.
      pose proof (b_len d q u HB) as Hlen.
      assert (G1 : dget (dset d u' (k + 1)) u' = k + 1). { apply dget_dset_same; lia. }
      assert (G2 : forall w, -1 <= w -> w <> u' -> dget (dset d u' (k + 1)) w = dget d w).
      { intros w Hw Hne. apply dget_dset_other; lia. }
      assert (Hne : u <> u') by (intros Heq; rewrite <- Heq in E; lia).
      assert (Hfinne : forall w, dget d w < inf g -> w <> u') by (intros w Hw Heq; rewrite Heq in Hw; lia).
      split; [|split; [|split; [|split]]].
      + constructor.
        * rewrite dset_length. exact Hlen.
        * intros w Hw. destruct (Z.eq_dec w u') as [->|Hwu]; [rewrite G1; lia|].
          rewrite G2 by lia. apply (b_rng d q u HB). exact Hw.
        * intros x Hx. apply in_app_or in Hx. destruct Hx as [Hx|[<-|[]]]; [apply (b_q d q u HB); exact Hx|exact Hu'].
        * intros w Hw Hd. destruct (Z.eq_dec w u') as [->|Hwu].
          -- exists u, v. split; [exact Hu|split; [exact Hv|split; [reflexivity|]]]. rewrite G1, G2 by lia. lia.
          -- rewrite G2 in Hd by lia. destruct (b_pred d q u HB w Hw Hd) as [p [vp [Hp [Hvp [Emp Ep]]]]].
             exists p, vp. split; [exact Hp|split; [exact Hvp|split; [exact Emp|]]]. rewrite !G2; try lia. apply Hfinne. lia.
        * intros w Hw Hfree. pose proof (b_free d q u HB w Hw Hfree) as H0. rewrite G2; [exact H0|lia|].
          apply Hfinne. unfold inf. lia.
        * intros w Hw Hd. destruct (Z.eq_dec w u') as [->|Hwu].
          -- left. apply in_or_app. right. left. reflexivity.
          -- rewrite G2 in Hd by lia.
             destruct (b_clo d q u HB w Hw Hd) as [H|[H|[H|H]]].
             ++ left. apply in_or_app. left. exact H.
             ++ right. left. intros v0 Hv0. pose proof (mv_range w v0 Hv0) as Hr. specialize (H v0 Hv0).
                rewrite G2; [exact H|lia|]. apply Hfinne. exact H.
             ++ right. right. left. rewrite G2; [exact H|lia|]. apply Hfinne. exact H.
             ++ right. right. right. exact H.
        * intros w Hw Hd. destruct (Z.eq_dec w u') as [->|Hwu]; [rewrite G1 in Hd; lia|].
          rewrite G2 in Hd by lia. apply (b_zero d q u HB w Hw Hd).
      + rewrite G2; [exact Ek|lia|exact Hne].
      + intros w Hw Hd. apply G2; [lia|]. apply Hfinne. exact Hd.
      + rewrite G1. exact Hk1.
      + rewrite app_length. simpl. unfold ninf.
        pose proof (filter_count_drop (fun w => dget d w =? inf g) (fun w => dget (dset d u' (k + 1)) w =? inf g) u' ws
                      ws_NoDup) as Hc.
        rewrite <- Hc; [lia| | | |].
        * apply ws_In. exact Hu'.
        * apply Z.eqb_eq. exact E.
        * rewrite G1. apply Z.eqb_neq. lia.
        * intros x Hx Hxa. apply ws_In in Hx. rewrite G2; [reflexivity|lia|exact Hxa].
    - apply Z.eqb_neq in E. injection Hstep as <- <-.
      split; [exact HB|split; [exact Ek|split; [intros; reflexivity|split; [|reflexivity]]]].
      pose proof (b_rng d q u HB u' Hu'). lia.
  Qed.

  Lemma visit_fold_ok u k : 0 <= u < Z.of_nat (nu g) -> 0 <= k -> k + 1 < inf g ->
    forall vs, incl vs (adj_u g u) -> forall d q d' q',
    BI d q u -> dget d u = k -> fold_left (visit_step s g u) vs (d, q) = (d', q') ->
    BI d' q' u /\ dget d' u = k /\
    (forall w, -1 <= w < Z.of_nat (nu g) -> dget d w < inf g -> dget d' w = dget d w) /\
    (forall v, In v vs -> dget d' (zget (mv s) v) < inf g) /\ (length q' + ninf d' = length q + ninf d)%nat.
  Proof.
    intros Hu Hk Hk1. induction vs as [|v vs IH]; intros Hincl d q d' q' HB Ek Hr.
    - simpl in Hr. injection Hr as <- <-.
      split; [exact HB|split; [exact Ek|split; [intros; reflexivity|split; [intros v []|reflexivity]]]].
    - cbn [fold_left] in Hr. destruct (visit_step s g u (d, q) v) as [d1 q1] eqn:E1.
      assert (Hv : In v (adj_u g u)) by (apply Hincl; left; reflexivity).
      destruct (visit_step_ok u k v d q d1 q1 Hu Hk Hk1 Hv HB Ek E1) as [HB1 [Ek1 [M1 [P1 C1]]]].
      destruct (IH (fun x Hx => Hincl x (or_intror Hx)) d1 q1 d' q' HB1 Ek1 Hr) as [HB2 [Ek2 [M2 [P2 C2]]]].
      split; [exact HB2|split; [exact Ek2|split; [|split]]].
      + intros w Hw Hd. rewrite M2; [apply M1; assumption|exact Hw|]. rewrite M1; assumption.
      + intros x [<-|Hx]; [|apply P2; exact Hx]. rewrite M2; [exact P1|apply (mv_range u v Hv)|exact P1].
      + lia.
  Qed.

  Lemma bfs_loop_ok : forall fuel q d, BI d q (-2) -> (length q + ninf d <= fuel)%nat ->
    exists d', bfs_loop g fuel s d q = Some d' /\ BI d' [] (-2).
  Proof.
    induction fuel as [|f IH]; intros q d HB Hpot.
    - destruct q as [|u q]; [|simpl in Hpot; lia]. exists d. split; [reflexivity|exact HB].
    - destruct q as [|u q]; [exists d; split; [reflexivity|exact HB]|].
      cbn [bfs_loop]. pose proof (b_q d (u :: q) (-2) HB u (or_introl eq_refl)) as Hur.
      destruct (dget d u <? dget d (-1)) eqn:E.
      + apply Z.ltb_lt in E.
        assert (Hu : 0 <= u < Z.of_nat (nu g)).
        { destruct (Z.eq_dec u (-1)) as [->|Hne]; lia. }
        pose proof (b_rng d _ _ HB u Hur) as Hr1. pose proof (b_rng d _ _ HB (-1)) as Hr2.
        assert (Hk1 : dget d u + 1 < inf g). { apply (layer_bound d (u :: q) (-2) HB u Hu). lia. }
        assert (HBu : BI d q u).
        { destruct HB as [B0 B1 B2 B3 B4 B5 B6]. constructor; try assumption.
          - intros x Hx. apply B2. right. exact Hx.
          - intros w Hw Hd. destruct (B5 w Hw Hd) as [[<-|H]|[H|[H|H]]].
            + right. right. right. reflexivity.
            + left. exact H.
            + right. left. exact H.
            + right. right. left. exact H.
            + lia. }
        rewrite bfs_visit_unfold.
        destruct (fold_left (visit_step s g u) (adj_u g u) (d, q)) as [d' q'] eqn:Ef.
        destruct (visit_fold_ok u (dget d u) Hu (proj1 Hr1) Hk1 (adj_u g u) (incl_refl _) d q d' q' HBu eq_refl Ef)
          as [HB' [_ [_ [P C]]]].
        apply IH.
        * destruct HB' as [B0 B1 B2 B3 B4 B5 B6]. constructor; try assumption.
          intros w Hw Hd. destruct (B5 w Hw Hd) as [H|[H|[H|H]]].
          -- left. exact H.
          -- right. left. exact H.
          -- right. right. left. exact H.
          -- right. left. subst w. exact P.
        * simpl in Hpot. lia.
      + apply Z.ltb_ge in E. apply IH.
        * destruct HB as [B0 B1 B2 B3 B4 B5 B6]. constructor; try assumption.
          -- intros x Hx. apply B2. right. exact Hx.
          -- intros w Hw Hd. destruct (B5 w Hw Hd) as [[<-|H]|[H|[H|H]]].
             ++ right. right. left. lia.
             ++ left. exact H.
             ++ right. left. exact H.
             ++ right. right. left. exact H.
             ++ lia.
        * simpl in Hpot. lia.
  Qed.

  Lemma init_fold_ok : forall l d q d' q', NoDup l -> (forall u, In u l -> 0 <= u < Z.of_nat (nu g)) ->
    length d = (nu g + 1)%nat -> fold_left (init_step s g) l (d, q) = (d', q') ->
    length d' = (nu g + 1)%nat /\ q' = q ++ filter (fun u => zget (mu s) u =? -1) l /\
    (forall u, In u l -> dget d' u = if zget (mu s) u =? -1 then 0 else inf g) /\
    (forall w, -1 <= w -> ~ In w l -> dget d' w = dget d w).
  Proof.
    induction l as [|u l IH]; intros d q d' q' Hnd Hr Hlen Hf.
    - simpl in Hf. injection Hf as <- <-. rewrite app_nil_r.
      split; [exact Hlen|split; [reflexivity|split; [intros u []|intros; reflexivity]]].
    - inversion Hnd as [|? ? Hu Hnd']; subst. cbn [fold_left init_step] in Hf.
      pose proof (Hr u (or_introl eq_refl)) as Hur.
      set (x := if zget (mu s) u =? -1 then 0 else inf g).
      assert (Hf' : fold_left (init_step s g) l
                      (dset d u x, if zget (mu s) u =? -1 then q ++ [u] else q) = (d', q')).
      { unfold x. destruct (zget (mu s) u =? -1); exact Hf. }
      destruct (IH _ _ d' q' Hnd' (fun y Hy => Hr y (or_intror Hy)) (eq_trans (dset_length d u x) Hlen) Hf')
        as [L [Q [V F]]].
      split; [exact L|split; [|split]].
      + rewrite Q. simpl. destruct (zget (mu s) u =? -1); [rewrite <- app_assoc|]; reflexivity.
      + intros y [<-|Hy]; [|apply V; exact Hy]. rewrite F; [|lia|exact Hu]. apply dget_dset_same; lia.
      + intros w Hw Hnin. rewrite F; [|exact Hw|intros H; apply Hnin; right; exact H].
        apply dget_dset_other; [lia|exact Hw|]. intros ->. apply Hnin. left. reflexivity.
  Qed.

  (* The BFS terminates within its fuel and establishes the invariant with an empty queue. *)
  Lemma bfs_ok : length (dist s) = (nu g + 1)%nat ->
    exists s1 b, bfs g s = Some (s1, b) /\ mu s1 = mu s /\ mv s1 = mv s /\
                 BI (dist s1) [] (-2) /\ b = negb (dget (dist s1) (-1) =? inf g).
  Proof.
    intros Hlen. unfold bfs. rewrite bfs_init_unfold.
    destruct (fold_left (init_step s g) (us g) (dist s, [])) as [d0 q0] eqn:Ei.
    destruct (init_fold_ok (us g) (dist s) [] d0 q0 (us_NoDup g) (fun u Hu => proj1 (us_In g u) Hu) Hlen Ei)
      as [L [Q [V F]]]. simpl in Q.
    set (d1 := dset d0 (-1) (inf g)).
    assert (G1 : dget d1 (-1) = inf g). { apply dget_dset_same; lia. }
    assert (G2 : forall w, 0 <= w < Z.of_nat (nu g) -> dget d1 w = if zget (mu s) w =? -1 then 0 else inf g).
    { intros w Hw. unfold d1. rewrite dget_dset_other by lia. apply V. apply us_In. exact Hw. }
    assert (HB : BI d1 q0 (-2)).
    { constructor.
      - unfold d1. rewrite dset_length. exact L.
      - intros w Hw. destruct (Z.eq_dec w (-1)) as [->|Hne]; [rewrite G1; unfold inf; lia|].
        rewrite G2 by lia. destruct (zget (mu s) w =? -1); unfold inf; lia.
      - intros x Hx. rewrite Q in Hx. apply filter_In in Hx. destruct Hx as [Hx _]. apply us_In in Hx. lia.
      - intros w Hw Hd. destruct (Z.eq_dec w (-1)) as [->|Hne]; [rewrite G1 in Hd; lia|].
        rewrite G2 in Hd by lia. destruct (zget (mu s) w =? -1); lia.
      - intros u Hu Hfree. rewrite G2 by exact Hu. rewrite Hfree. reflexivity.
      - intros u Hu Hd. left. rewrite Q. apply filter_In. split; [apply us_In; exact Hu|].
        rewrite G2 in Hd by exact Hu. destruct (zget (mu s) u =? -1); [reflexivity|lia].
      - intros u Hu Hd. destruct (Z.eq_dec u (-1)) as [->|Hne]; [rewrite G1 in Hd; unfold inf in Hd; lia|].
        split; [lia|]. rewrite G2 in Hd by lia. destruct (Z.eqb_spec (zget (mu s) u) (-1)) as [E|E]; [exact E|].
        unfold inf in Hd. lia. }
    assert (Hpot : (length q0 + ninf d1 <= nu g + 2)%nat).
    { unfold ninf, ws. simpl. rewrite G1, Z.eqb_refl. simpl.
      rewrite (filter_ext_in (fun w => dget d1 w =? inf g) (fun u => negb (zget (mu s) u =? -1)) (us g)).
      - rewrite Q. pose proof (filter_length_split (fun u => zget (mu s) u =? -1) (us g)) as Hs.
        rewrite us_length in Hs. lia.
      - intros u Hu. apply us_In in Hu. rewrite G2 by exact Hu.
        destruct (zget (mu s) u =? -1); cbn [negb]; [apply Z.eqb_neq; unfold inf; lia|apply Z.eqb_refl]. }
    destruct (bfs_loop_ok (nu g + 2) q0 d1 HB Hpot) as [d' [El HB']].
    fold d1. rewrite El. eexists. eexists. split; [reflexivity|]. cbn [mu mv dist].
    split; [reflexivity|split; [reflexivity|split; [exact HB'|reflexivity]]].
  Qed.
End BFS.
