(* C02, part (a), matrix and site level: charge conservation ("block sparsity") is preserved by block assembly under
   concatenated charges, by Kronecker composition under outer-sum charges, by contraction over a shared bond, by the
   identity, by the constructor masks and by a split whose factors are block sparse (C12's contract). *)
From Coq Require Import ZArith List Lia Bool Arith Ring.
From PT Require Import Base.Scalar Base.BigSum Base.Mx Model.Tensor Model.MPSOps.
From PT Require Import Proofs.MPSOpsBase Proofs.MPSOpsTop Proofs.MPSOpsShape.
Import ListNotations.
Open Scope nat_scope.

Lemma zget_app a b i : zget (a ++ b) i = if Nat.ltb i (length a) then zget a i else zget b (i - length a).
Proof.
  unfold zget. destruct (Nat.ltb i (length a)) eqn:E.
  - apply Nat.ltb_lt in E. apply app_nth1. exact E.
  - apply Nat.ltb_ge in E. apply app_nth2. exact E.
Qed.

Lemma zget_qflat_pair qa qb i j : i < length qa -> j < length qb ->
  zget (qflat qa qb) (i * length qb + j) = (zget qa i + zget qb j)%Z.
Proof. intros Hi Hj. unfold zget. apply qflat_nth; assumption. Qed.

Lemma zget_qflat qa qb i : i < length qa * length qb ->
  zget (qflat qa qb) i = (zget qa (i / length qb) + zget qb (i mod length qb))%Z.
Proof.
  intros Hi. assert (Hb : length qb <> 0) by (intros E; rewrite E in Hi; lia).
  rewrite (Nat.div_mod i (length qb) Hb) at 1. rewrite (Nat.mul_comm (length qb)).
  apply zget_qflat_pair.
  - apply Nat.div_lt_upper_bound; [exact Hb|]. rewrite Nat.mul_comm. exact Hi.
  - apply Nat.mod_upper_bound. exact Hb.
Qed.

Lemma zget_opp q i : zget (map Z.opp q) i = (- zget q i)%Z.
Proof. unfold zget. change 0%Z with (Z.opp 0) at 1. apply map_nth. Qed.

Lemma zget_zeros n i : zget (repeat 0%Z n) i = 0%Z.
Proof. unfold zget. revert i; induction n as [|n IH]; intros [|i]; simpl; auto. Qed.

Lemma forallb_seq0 n (f : nat -> bool) : forallb f (seq 0 n) = true <-> forall i, i < n -> f i = true.
Proof.
  rewrite forallb_forall. split.
  - intros H i Hi. apply H. apply in_seq. lia.
  - intros H i Hi. apply in_seq in Hi. apply H. lia.
Qed.

Section Sparse.
  Variable R : cring.
  Add Ring Rring_histsparse : (k_rt R).
  Notation "0" := (k0 R). Notation "1" := (k1 R).
  Infix "+" := (kadd R). Infix "*" := (kmul R).
  Notation mx := (mx R).
  Notation site := (site R). Notation osite := (osite R).

  (* ---------- scalars ---------- *)
  Lemma mul_nz_l (x y : R) : x * y <> 0 -> x <> 0.
  Proof. intros H E. apply H. rewrite E. ring. Qed.
  Lemma mul_nz_r (x y : R) : x * y <> 0 -> y <> 0.
  Proof. intros H E. apply H. rewrite E. ring. Qed.
  Lemma add_nz (x y : R) : x + y <> 0 -> x <> 0 \/ y <> 0.
  Proof.
    intros H. destruct (keqb R x 0) eqn:E.
    - apply keqb_spec in E. right. intros E2. apply H. rewrite E, E2. ring.
    - left. apply keqb_false. exact E.
  Qed.
  Lemma sumn_nz n (f : nat -> R) : sumn n f <> 0 -> exists i, i < n /\ f i <> 0.
  Proof.
    induction n as [|n IH]; simpl; intros H; [congruence|].
    apply add_nz in H. destruct H as [H|H].
    - destruct (IH H) as (i & Hi & Hf). exists i. split; [lia|exact Hf].
    - exists n. split; [lia|exact H].
  Qed.

  (* ---------- charge conservation of one matrix with offset c:  M[a,b] <> 0 -> c + ql[a] = qr[b] ---------- *)
  Definition msp (c : Z) (ql qr : list Z) (M : mx) : Prop :=
    forall a b, a < length ql -> b < length qr -> get M a b <> 0 -> (c + zget ql a = zget qr b)%Z.

  Lemma entry_b (x : R) (c1 c2 : Z) : keqb R x 0 || Z.eqb c1 c2 = true <-> (x <> 0 -> c1 = c2).
  Proof.
    rewrite orb_true_iff, keqb_spec, Z.eqb_eq. split.
    - intros [H|H] Hx; [contradiction|exact H].
    - intros H. destruct (keqb R x 0) eqn:E; [left; apply keqb_spec; exact E|right; apply H; apply keqb_false; exact E].
  Qed.

  Lemma site_qsparse_spec qd ql qr (A : site) :
    site_qsparse qd ql qr A = true <-> forall s, s < length qd -> msp (zget qd s) ql qr (sel A s).
  Proof.
    unfold site_qsparse, msp. rewrite forallb_seq0. split.
    - intros H s Hs a b Ha Hb. specialize (H s Hs). rewrite forallb_seq0 in H. specialize (H a Ha).
      rewrite forallb_seq0 in H. specialize (H b Hb). apply entry_b. exact H.
    - intros H s Hs. apply forallb_seq0. intros a Ha. apply forallb_seq0. intros b Hb. apply entry_b. apply H; assumption.
  Qed.
  Lemma osite_qsparse_spec qd ql qr (W : osite) :
    osite_qsparse qd ql qr W = true <->
    forall s t, s < length qd -> t < length qd -> msp (zget qd s - zget qd t) ql qr (osel W s t).
  Proof.
    unfold osite_qsparse, msp. rewrite forallb_seq0. split.
    - intros H s t Hs Ht a b Ha Hb. specialize (H s Hs). rewrite forallb_seq0 in H. specialize (H t Ht).
      rewrite forallb_seq0 in H. specialize (H a Ha). rewrite forallb_seq0 in H. specialize (H b Hb). apply entry_b. exact H.
    - intros H s Hs. apply forallb_seq0. intros t Ht. apply forallb_seq0. intros a Ha. apply forallb_seq0. intros b Hb.
      apply entry_b. apply H; assumption.
  Qed.

  (* ---------- block assembly (add_mps / add_mpo) ---------- *)
  Lemma msp_row c ql qa qb (alpha : R) (M N : mx) :
    nr M = length ql -> nc M = length qa -> nr N = length ql -> nc N = length qb ->
    msp c ql qa M -> msp c ql qb N -> msp c ql (qa ++ qb) (blk_row alpha M N).
  Proof.
    intros rM cM rN cN HM HN a b Ha Hb Hnz. rewrite app_length in Hb. unfold blk_row in Hnz.
    rewrite get_row_mx in Hnz by (rewrite ?nc_scalemx; lia). rewrite zget_app. rewrite cM in Hnz.
    destruct (Nat.ltb b (length qa)) eqn:E.
    - apply Nat.ltb_lt in E. apply HM; assumption.
    - apply Nat.ltb_ge in E. rewrite get_scalemx in Hnz by lia. apply mul_nz_r in Hnz. apply HN; [exact Ha|lia|exact Hnz].
  Qed.
  Lemma msp_col c qla qlb qr (M N : mx) :
    nr M = length qla -> nc M = length qr -> nr N = length qlb -> nc N = length qr ->
    msp c qla qr M -> msp c qlb qr N -> msp c (qla ++ qlb) qr (col_mx M N).
  Proof.
    intros rM cM rN cN HM HN a b Ha Hb Hnz. rewrite app_length in Ha.
    rewrite get_col_mx in Hnz by lia. rewrite zget_app. rewrite rM in Hnz.
    destruct (Nat.ltb a (length qla)) eqn:E.
    - apply Nat.ltb_lt in E. apply HM; assumption.
    - apply Nat.ltb_ge in E. apply HN; [lia|exact Hb|exact Hnz].
  Qed.
  Lemma msp_diag c qla qlb qra qrb (M N : mx) :
    nr M = length qla -> nc M = length qra -> nr N = length qlb -> nc N = length qrb ->
    msp c qla qra M -> msp c qlb qrb N -> msp c (qla ++ qlb) (qra ++ qrb) (diag_mx M N).
  Proof.
    intros rM cM rN cN HM HN a b Ha Hb Hnz. rewrite app_length in Ha, Hb.
    rewrite get_diag_mx in Hnz by lia. rewrite !zget_app. rewrite rM, cM in Hnz.
    destruct (Nat.ltb a (length qla)) eqn:Ea; destruct (Nat.ltb b (length qra)) eqn:Eb; try congruence.
    - apply Nat.ltb_lt in Ea, Eb. apply HM; assumption.
    - apply Nat.ltb_ge in Ea, Eb. apply HN; [lia|lia|exact Hnz].
  Qed.
  Lemma msp_add c ql qr (alpha : R) (M N : mx) :
    nr M = length ql -> nc M = length qr -> nr N = length ql -> nc N = length qr ->
    msp c ql qr M -> msp c ql qr N -> msp c ql qr (blk_add alpha M N).
  Proof.
    intros rM cM rN cN HM HN a b Ha Hb Hnz. unfold blk_add in Hnz.
    rewrite get_addmx in Hnz by lia. apply add_nz in Hnz. destruct Hnz as [Hnz|Hnz].
    - apply HM; assumption.
    - rewrite get_scalemx in Hnz by lia. apply mul_nz_r in Hnz. apply HN; assumption.
  Qed.

  (* ---------- Kronecker composition under outer-sum charges (multiply_mpo / apply_operator) ---------- *)
  Lemma msp_skron c d (X Y : nat -> mx) (cX cY : nat -> Z) qlx qrx qly qry :
    nr (X O) = length qlx -> nc (X O) = length qrx -> nr (Y O) = length qly -> nc (Y O) = length qry ->
    (forall u, u < d -> msp (cX u) qlx qrx (X u) /\ msp (cY u) qly qry (Y u) /\ (cX u + cY u = c)%Z) ->
    msp c (qflat qlx qly) (qflat qrx qry) (skron d X Y).
  Proof.
    intros rX cX0 rY cY0 H a b Ha Hb Hnz. rewrite qflat_length in Ha, Hb.
    unfold skron in Hnz. rewrite rX, cX0, rY, cY0 in Hnz. rewrite get_tab in Hnz by assumption.
    apply sumn_nz in Hnz. destruct Hnz as (u & Hu & Hnz).
    destruct (H u Hu) as (HX & HY & Hc).
    assert (Hly : length qly <> O) by (intros E; rewrite E in Ha; lia).
    assert (Hry : length qry <> O) by (intros E; rewrite E in Hb; lia).
    assert (Ha1 : a / length qly < length qlx) by (apply Nat.div_lt_upper_bound; [exact Hly|rewrite Nat.mul_comm; exact Ha]).
    assert (Hb1 : b / length qry < length qrx) by (apply Nat.div_lt_upper_bound; [exact Hry|rewrite Nat.mul_comm; exact Hb]).
    assert (Ha2 : a mod length qly < length qly) by (apply Nat.mod_upper_bound; exact Hly).
    assert (Hb2 : b mod length qry < length qry) by (apply Nat.mod_upper_bound; exact Hry).
    pose proof (HX _ _ Ha1 Hb1 (mul_nz_l _ _ Hnz)) as E1.
    pose proof (HY _ _ Ha2 Hb2 (mul_nz_r _ _ Hnz)) as E2.
    rewrite !zget_qflat by assumption. lia.
  Qed.

  (* ---------- contraction over a shared bond (merge_mps_tensor_pair; R . Anext; environment blocks) ---------- *)
  Lemma msp_mulmx c1 c2 ql qm qr (M N : mx) :
    nr M = length ql -> nc M = length qm -> nc N = length qr ->
    msp c1 ql qm M -> msp c2 qm qr N -> msp (c1 + c2) ql qr (mulmx M N).
  Proof.
    intros rM cM cN HM HN a b Ha Hb Hnz. rewrite get_mulmx in Hnz by lia.
    apply sumn_nz in Hnz. destruct Hnz as (k & Hk & Hnz). rewrite cM in Hk.
    pose proof (HM _ _ Ha Hk (mul_nz_l _ _ Hnz)) as E1.
    pose proof (HN _ _ Hk Hb (mul_nz_r _ _ Hnz)) as E2. lia.
  Qed.

  (* ---------- site level: shape and sparsity together ---------- *)
  Definition site_okP (qd ql qr : list Z) (A : site) : Prop :=
    site_shape (length qd) (length ql) (length qr) A = true /\
    forall s, s < length qd -> msp (zget qd s) ql qr (sel A s).
  Definition osite_okP (qd ql qr : list Z) (W : osite) : Prop :=
    osite_shape (length qd) (length ql) (length qr) W = true /\
    forall s t, s < length qd -> t < length qd -> msp (zget qd s - zget qd t) ql qr (osel W s t).

  Lemma site_okP_b qd ql qr (A : site) :
    site_okP qd ql qr A <-> site_shape (length qd) (length ql) (length qr) A = true /\ site_qsparse qd ql qr A = true.
  Proof. unfold site_okP. rewrite site_qsparse_spec. tauto. Qed.
  Lemma osite_okP_b qd ql qr (W : osite) :
    osite_okP qd ql qr W <-> osite_shape (length qd) (length ql) (length qr) W = true /\ osite_qsparse qd ql qr W = true.
  Proof. unfold osite_okP. rewrite osite_qsparse_spec. tauto. Qed.

  (* ---------- zipped block operations on sites ---------- *)
  Lemma site_zip_ok qd (f : mx -> mx -> mx) qla qra qlb qrb ql qr (A B : site) :
    (forall (M N : mx), nr M = length qla -> nc M = length qra -> nr N = length qlb -> nc N = length qrb ->
       wfb (f M N) = true /\ nr (f M N) = length ql /\ nc (f M N) = length qr) ->
    (forall c (M N : mx), nr M = length qla -> nc M = length qra -> nr N = length qlb -> nc N = length qrb ->
       msp c qla qra M -> msp c qlb qrb N -> msp c ql qr (f M N)) ->
    site_okP qd qla qra A -> site_okP qd qlb qrb B -> site_okP qd ql qr (site_zip f A B).
  Proof.
    intros Hs Hf [SA HA] [SB HB]. split.
    - eapply site_shape_zip; [exact SA|exact SB|exact Hs].
    - intros s Hs'. rewrite sel_site_zip by (rewrite (site_shape_length R _ _ _ _ SA); exact Hs').
      destruct (site_shape_sel R _ _ _ _ s SA Hs') as (_ & r1 & c1).
      destruct (site_shape_sel R _ _ _ _ s SB Hs') as (_ & r2 & c2).
      apply Hf; auto.
  Qed.
  Lemma osite_zip_ok qd (f : mx -> mx -> mx) qla qra qlb qrb ql qr (A B : osite) :
    (forall (M N : mx), nr M = length qla -> nc M = length qra -> nr N = length qlb -> nc N = length qrb ->
       wfb (f M N) = true /\ nr (f M N) = length ql /\ nc (f M N) = length qr) ->
    (forall c (M N : mx), nr M = length qla -> nc M = length qra -> nr N = length qlb -> nc N = length qrb ->
       msp c qla qra M -> msp c qlb qrb N -> msp c ql qr (f M N)) ->
    osite_okP qd qla qra A -> osite_okP qd qlb qrb B -> osite_okP qd ql qr (osite_zip f A B).
  Proof.
    intros Hs Hf [SA HA] [SB HB]. split.
    - eapply osite_shape_zip; [exact SA|exact SB|exact Hs].
    - intros s t Hs' Ht'.
      rewrite osel_osite_zip by (rewrite (osite_shape_length R _ _ _ _ SA); assumption).
      destruct (osite_shape_osel R _ _ _ _ s t SA Hs' Ht') as (_ & r1 & c1).
      destruct (osite_shape_osel R _ _ _ _ s t SB Hs' Ht') as (_ & r2 & c2).
      apply Hf; auto.
  Qed.

  (* the four block forms of add_mps / add_mpo, for any site type *)
  Section Blocks.
    Variable T : Type.
    Variable P : list Z -> list Z -> T -> Prop.
    Variable zip : (mx -> mx -> mx) -> T -> T -> T.
    Definition zip_ok : Prop :=
      forall (f : mx -> mx -> mx) qla qra qlb qrb ql qr (A B : T),
      (forall (M N : mx), nr M = length qla -> nc M = length qra -> nr N = length qlb -> nc N = length qrb ->
         wfb (f M N) = true /\ nr (f M N) = length ql /\ nc (f M N) = length qr) ->
      (forall c (M N : mx), nr M = length qla -> nc M = length qra -> nr N = length qlb -> nc N = length qrb ->
         msp c qla qra M -> msp c qlb qrb N -> msp c ql qr (f M N)) ->
      P qla qra A -> P qlb qrb B -> P ql qr (zip f A B).
    Hypothesis Hzip : zip_ok.

    Lemma P_row (alpha : R) ql qa qb (A B : T) : P ql qa A -> P ql qb B -> P ql (qa ++ qb) (zip (blk_row alpha) A B).
    Proof.
      apply Hzip.
      - intros M N r1 c1 r2 c2. rewrite app_length. apply blk_row_shape; assumption.
      - intros c M N. apply msp_row.
    Qed.
    Lemma P_col qla qlb qr (A B : T) : P qla qr A -> P qlb qr B -> P (qla ++ qlb) qr (zip (@col_mx R) A B).
    Proof.
      apply Hzip.
      - intros M N r1 c1 r2 c2. rewrite app_length. apply blk_col_shape; assumption.
      - intros c M N. apply msp_col.
    Qed.
    Lemma P_diag qla qlb qra qrb (A B : T) : P qla qra A -> P qlb qrb B -> P (qla ++ qlb) (qra ++ qrb) (zip (@diag_mx R) A B).
    Proof.
      apply Hzip.
      - intros M N r1 c1 r2 c2. rewrite !app_length. apply blk_diag_shape; assumption.
      - intros c M N. apply msp_diag.
    Qed.
    Lemma P_add (alpha : R) ql qr (A B : T) : P ql qr A -> P ql qr B -> P ql qr (zip (blk_add alpha) A B).
    Proof.
      apply Hzip.
      - intros M N r1 c1 r2 c2. apply blk_add_shape; assumption.
      - intros c M N. apply msp_add.
    Qed.
  End Blocks.

  (* ---------- products of sites ---------- *)
  Lemma mul_osite_ok qd qla qra qlb qrb (A B : osite) :
    osite_okP qd qla qra A -> osite_okP qd qlb qrb B -> osite_okP qd (qflat qla qlb) (qflat qra qrb) (mul_osite A B).
  Proof.
    intros [SA HA] [SB HB]. unfold mul_osite. rewrite (osite_shape_length R _ _ _ _ SA). split.
    - rewrite !qflat_length. apply osite_shape_otab. intros s t Hs Ht.
      split; [apply wfb_tab|]. unfold skron. rewrite nr_tab, nc_tab.
      destruct (osite_shape_osel R _ _ _ _ s O SA Hs ltac:(lia)) as (_ & r1 & c1).
      destruct (osite_shape_osel R _ _ _ _ O t SB ltac:(lia) Ht) as (_ & r2 & c2).
      rewrite r1, c1, r2, c2. split; reflexivity.
    - intros s t Hs Ht. rewrite osel_otab by assumption.
      destruct (osite_shape_osel R _ _ _ _ s O SA Hs ltac:(lia)) as (_ & r1 & c1).
      destruct (osite_shape_osel R _ _ _ _ O t SB ltac:(lia) Ht) as (_ & r2 & c2).
      apply (msp_skron _ _ _ _ (fun u => (zget qd s - zget qd u)%Z) (fun u => (zget qd u - zget qd t)%Z)); try assumption.
      intros u Hu. split; [apply HA; assumption|]. split; [apply HB; assumption|lia].
  Qed.
  Lemma apply_site_ok qd qlw qrw qla qra (W : osite) (A : site) :
    osite_okP qd qlw qrw W -> site_okP qd qla qra A -> site_okP qd (qflat qlw qla) (qflat qrw qra) (apply_site W A).
  Proof.
    intros [SW HW] [SA HA]. unfold apply_site. rewrite (osite_shape_length R _ _ _ _ SW). split.
    - rewrite !qflat_length. apply site_shape_stab. intros s Hs.
      split; [apply wfb_tab|]. unfold skron. rewrite nr_tab, nc_tab.
      destruct (osite_shape_osel R _ _ _ _ s O SW Hs ltac:(lia)) as (_ & r1 & c1).
      destruct (site_shape_sel R _ _ _ _ O SA ltac:(lia)) as (_ & r2 & c2).
      rewrite r1, c1, r2, c2. split; reflexivity.
    - intros s Hs. rewrite sel_stab by assumption.
      destruct (osite_shape_osel R _ _ _ _ s O SW Hs ltac:(lia)) as (_ & r1 & c1).
      destruct (site_shape_sel R _ _ _ _ O SA ltac:(lia)) as (_ & r2 & c2).
      apply (msp_skron _ _ _ _ (fun u => (zget qd s - zget qd u)%Z) (fun u => zget qd u)); try assumption.
      intros u Hu. split; [apply HW; assumption|]. split; [apply HA; assumption|lia].
  Qed.

  (* ---------- identity ---------- *)
  Lemma id_osite_ok qd (scale : R) : osite_okP qd [0%Z] [0%Z] (id_osite (length qd) scale).
  Proof.
    unfold id_osite. split.
    - apply osite_shape_otab. intros s t _ _. split; [apply wfb_tab|split; reflexivity].
    - intros s t Hs Ht a b Ha Hb Hnz. rewrite osel_otab in Hnz by assumption.
      simpl in Ha, Hb. rewrite get_tab in Hnz by assumption.
      destruct (Nat.eqb s t) eqn:E.
      + apply Nat.eqb_eq in E. subst t. destruct a; [|lia]. destruct b; [|lia]. unfold zget. simpl. lia.
      + exfalso. apply Hnz. ring.
  Qed.
End Sparse.
