(* C04 — two-site local problems: the merged MPO tensor on the coarse-grained chain (one site of dimension
   d0*d1) has the same dense meaning as the two original tensors on the fine chain. *)
From Coq Require Import Arith List Lia Ring Setoid Morphisms Bool.
From PT Require Import Base.Scalar Base.BigSum Base.Mx Model.Tensor Model.Operation
  Proofs.OperationSums Proofs.OperationEntries Proofs.OperationChains Proofs.OperationTransfer
  Proofs.OperationSpecs Proofs.OperationLocal.
Import ListNotations.

(* coarse-grain a word: letters i and i+1 become the single letter s0*d1 + s1 (row-major, as merge_mps_tensor_pair) *)
Fixpoint coarse_word (i d1 : nat) (w : list nat) : list nat :=
  match i, w with
  | O, s0 :: s1 :: v => (s0 * d1 + s1) :: v
  | S i', s :: w' => s :: coarse_word i' d1 w'
  | _, _ => w
  end.

Lemma nth_flat_map_uniform {A B} (g : A -> list B) (m : nat) (l : list A) (dx : A) (dy : B) i j :
  (forall x, length (g x) = m) -> i < length l -> j < m ->
  nth (i * m + j) (flat_map g l) dy = nth j (g (nth i l dx)) dy.
Proof.
  intros Hg. revert i. induction l as [|x l IH]; intros i Hi Hj; [simpl in Hi; lia|].
  cbn [flat_map]. destruct i as [|i].
  - cbn [Nat.mul Nat.add nth]. rewrite app_nth1 by (rewrite Hg; exact Hj). reflexivity.
  - rewrite app_nth2 by (rewrite Hg; simpl; lia). rewrite Hg.
    replace (S i * m + j - m) with (i * m + j) by (simpl; lia).
    cbn [nth]. apply IH; [simpl in Hi; lia|exact Hj].
Qed.

Lemma length_flat_map_uniform {A B} (g : A -> list B) (m : nat) (l : list A) :
  (forall x, length (g x) = m) -> length (flat_map g l) = length l * m.
Proof. intros Hg. induction l as [|x l IH]; [reflexivity|]. cbn [flat_map]. rewrite app_length, Hg, IH. simpl. lia. Qed.

Section TwoSite.
  Variable R : cring.
  Add Ring Rring_c04_twosite : (k_rt R).
  Infix "*" := (kmul R).
  Notation site := (site R).
  Notation osite := (osite R).
  Notation mx := (mx R).
  Notation cj := (kconj R).

  (* list structure of an MPO tensor: d rows of d matrices *)
  Definition osite_struct (d : nat) (W : osite) : Prop :=
    length W = d /\ forall s, s < d -> length (nth s W []) = d.

  Lemma osite_shape_struct d Dl Dr (W : osite) : osite_shape d Dl Dr W = true -> osite_struct d W.
  Proof.
    unfold osite_shape. rewrite andb_true_iff, Nat.eqb_eq, forallb_forall. intros [Hl H]. split; [exact Hl|].
    intros s Hs. assert (Hin : In (nth s W []) W) by (apply nth_In; lia).
    apply H in Hin. unfold site_shape in Hin. apply andb_true_iff in Hin. destruct Hin as [Hin _].
    apply Nat.eqb_eq. exact Hin.
  Qed.

  Lemma merge_osel d0 d1 (W0 W1 : osite) s0 s1 t0 t1 :
    osite_struct d0 W0 -> osite_struct d1 W1 -> s0 < d0 -> t0 < d0 -> s1 < d1 -> t1 < d1 ->
    osel (c04_merge_osite W0 W1) (s0 * d1 + s1) (t0 * d1 + t1) = mulmx (osel W0 s0 t0) (osel W1 s1 t1).
  Proof.
    intros [L0 H0] [L1 H1] Hs0 Ht0 Hs1 Ht1. unfold osel, c04_merge_osite.
    rewrite (nth_flat_map_uniform _ d1 W0 [] [] s0 s1); [| intros x; rewrite map_length; exact L1 | lia | exact Hs1].
    rewrite (nth_indep _ [] ((fun row1 => flat_map (fun M0 => map (fun M1 => mulmx M0 M1) row1) (nth s0 W0 [])) []))
      by (rewrite map_length; lia).
    rewrite (map_nth (fun row1 => flat_map (fun M0 => map (fun M1 => mulmx M0 M1) row1) (nth s0 W0 [])) W1 [] s1).
    rewrite (nth_flat_map_uniform _ d1 (nth s0 W0 []) (zeromx 0 0) (zeromx 0 0) t0 t1);
      [| intros x; rewrite map_length; apply H1; exact Hs1 | rewrite H0 by exact Hs0; exact Ht0 | exact Ht1].
    rewrite (nth_indep _ (zeromx 0 0) (mulmx (nth t0 (nth s0 W0 []) (zeromx 0 0)) (zeromx 0 0)))
      by (rewrite map_length, H1 by exact Hs1; exact Ht1).
    apply (map_nth (fun M1 => mulmx (nth t0 (nth s0 W0 []) (zeromx 0 0)) M1)).
  Qed.

  Lemma merge_osite_ok d0 d1 Dl Dm Dr (W0 W1 : osite) :
    0 < d1 -> osite_struct d0 W0 -> osite_struct d1 W1 -> osite_ok d0 Dl Dm W0 -> osite_ok d1 Dm Dr W1 ->
    osite_ok (d0 * d1) Dl Dr (c04_merge_osite W0 W1).
  Proof.
    intros Hd1 S0 S1 [L0 K0] [L1 K1]. split.
    - unfold c04_merge_osite. rewrite (length_flat_map_uniform _ d1); [rewrite L0; reflexivity|].
      intros x. rewrite map_length. exact L1.
    - intros s t Hs Ht.
      assert (Es : s = (s / d1) * d1 + s mod d1) by (rewrite Nat.mul_comm; apply Nat.div_mod; lia).
      assert (Et : t = (t / d1) * d1 + t mod d1) by (rewrite Nat.mul_comm; apply Nat.div_mod; lia).
      assert (Hs0 : s / d1 < d0) by (apply Nat.div_lt_upper_bound; lia).
      assert (Ht0 : t / d1 < d0) by (apply Nat.div_lt_upper_bound; lia).
      assert (Hs1 : s mod d1 < d1) by (apply Nat.mod_upper_bound; lia).
      assert (Ht1 : t mod d1 < d1) by (apply Nat.mod_upper_bound; lia).
      rewrite Es, Et. rewrite (merge_osel d0 d1) by assumption. rewrite nr_mulmx, nc_mulmx.
      destruct (K0 _ _ Hs0 Ht0) as [F1 _]. destruct (K1 _ _ Hs1 Ht1) as [_ F2]. auto.
  Qed.

  (* ---- sums over coarse words ---- *)
  Lemma suml_coarse (dsl : list nat) : forall d0 d1 dsr (f : list nat -> R),
    suml (gwords (dsl ++ (d0 * d1)%nat :: dsr)) f =
    suml (gwords (dsl ++ d0 :: d1 :: dsr)) (fun w => f (coarse_word (length dsl) d1 w)).
  Proof.
    induction dsl as [|d dsl IH]; intros d0 d1 dsr f.
    - cbn [app length]. rewrite !(suml_gwords_cons R). rewrite suml_seq, sumn_flatten, <- suml_seq.
      apply suml_ext; intros s0 _. rewrite (suml_gwords_cons R), suml_seq. apply sumn_ext; intros s1 _.
      apply suml_ext; intros v _. reflexivity.
    - cbn [app length]. rewrite !(suml_gwords_cons R). apply suml_ext; intros s _.
      rewrite (IH d0 d1 dsr (fun w => f (s :: w))). apply suml_ext; intros w _. reflexivity.
  Qed.

  (* ---- the merged tensor on the coarse chain = the two tensors on the fine chain ---- *)
  Lemma mprod_merge (Wl : list osite) : forall dsl DsWl d0 d1 Dwl Dwm Dwr dsr DsWr (W0 W1 : osite) (Wr : list osite) w w' n,
    ochainx_ok dsl DsWl Wl -> osite_struct d0 W0 -> osite_struct d1 W1 ->
    osite_ok d0 Dwl Dwm W0 -> osite_ok d1 Dwm Dwr W1 -> ochain_ok dsr (Dwr :: DsWr) Wr ->
    In w (gwords (dsl ++ d0 :: d1 :: dsr)) -> In w' (gwords (dsl ++ d0 :: d1 :: dsr)) ->
    mprod n (opick (Wl ++ c04_merge_osite W0 W1 :: Wr) (coarse_word (length dsl) d1 w) (coarse_word (length dsl) d1 w')) =
    mprod n (opick (Wl ++ W0 :: W1 :: Wr) w w').
  Proof.
    induction Wl as [|W Wl IH]; intros dsl DsWl d0 d1 Dwl Dwm Dwr dsr DsWr W0 W1 Wr w w' n HWl S0 S1 K0 K1 HWr Hw Hw'.
    - apply ochainx_ok_nil_inv in HWl. destruct HWl as [-> _]. cbn [app length] in *.
      apply in_gwords_cons in Hw. destruct Hw as (s0 & w1 & -> & Hs0 & Hw).
      apply in_gwords_cons in Hw. destruct Hw as (s1 & v & -> & Hs1 & Hv).
      apply in_gwords_cons in Hw'. destruct Hw' as (t0 & w1' & -> & Ht0 & Hw').
      apply in_gwords_cons in Hw'. destruct Hw' as (t1 & v' & -> & Ht1 & Hv').
      cbn [coarse_word opick mprod]. rewrite (merge_osel d0 d1) by assumption.
      rewrite nc_mulmx.
      destruct K0 as [_ K0]. destruct (K0 _ _ Hs0 Ht0) as [F1 F2].
      destruct K1 as [_ K1]. destruct (K1 _ _ Hs1 Ht1) as [F3 F4].
      pose proof (ochain_ok_opick R _ _ _ _ _ HWr Hv Hv') as Hm.
      apply mulmx_assoc; [lia|]. rewrite F4, (mprod_start R _ _ _ Hm).
      destruct (c04_mprod_shape R _ _ Hm) as [S _]. cbn [hd] in S. lia.
    - apply ochainx_ok_cons_inv in HWl. destruct HWl as (d & ds' & Dl & Dr & Ds' & -> & -> & Hd & HDr & HW & HWl).
      cbn [app length] in *.
      apply in_gwords_cons in Hw. destruct Hw as (s & w1 & -> & Hs & Hw).
      apply in_gwords_cons in Hw'. destruct Hw' as (t & w1' & -> & Ht & Hw').
      cbn [coarse_word opick mprod]. f_equal.
      apply (IH ds' (Dr :: Ds') d0 d1 Dwl Dwm Dwr dsr DsWr); assumption.
  Qed.

  Lemma opamp_merge (Wl : list osite) dsl DsWl d0 d1 Dwl Dwm Dwr dsr DsWr (W0 W1 : osite) (Wr : list osite) w w' :
    ochainx_ok dsl DsWl Wl -> osite_struct d0 W0 -> osite_struct d1 W1 ->
    osite_ok d0 Dwl Dwm W0 -> osite_ok d1 Dwm Dwr W1 -> ochain_ok dsr (Dwr :: DsWr) Wr ->
    In w (gwords (dsl ++ d0 :: d1 :: dsr)) -> In w' (gwords (dsl ++ d0 :: d1 :: dsr)) ->
    opamp (Wl ++ c04_merge_osite W0 W1 :: Wr) (coarse_word (length dsl) d1 w) (coarse_word (length dsl) d1 w') =
    opamp (Wl ++ W0 :: W1 :: Wr) w w'.
  Proof.
    intros. unfold opamp. rewrite (mprod_merge Wl dsl DsWl d0 d1 Dwl Dwm Dwr dsr DsWr); auto.
  Qed.

  (* ---- two-site effective operator ---- *)
  Theorem two_site_projection
      (Al Ar Bl Br : list site) (Wl Wr : list osite) (X Y : site) (W0 W1 : osite)
      dsl dsr d0 d1 Dal Dar Dbl Dbr Dwl Dwm Dwr DsAl DsBl DsWl DsAr DsBr DsWr :
    chainx_ok dsl DsAl Al -> chainx_ok dsl DsBl Bl -> ochainx_ok dsl DsWl Wl ->
    hd 0%nat DsAl = 1%nat -> hd 0%nat DsBl = 1%nat -> hd 0%nat DsWl = 1%nat ->
    last DsAl 0%nat = Dal -> last DsBl 0%nat = Dbl -> last DsWl 0%nat = Dwl ->
    0 < d0 -> 0 < d1 -> 0 < Dwr ->
    site_ok (d0 * d1) Dal Dar X -> site_ok (d0 * d1) Dbl Dbr Y ->
    osite_struct d0 W0 -> osite_struct d1 W1 -> osite_ok d0 Dwl Dwm W0 -> osite_ok d1 Dwm Dwr W1 ->
    chain_ok dsr (Dar :: DsAr) Ar -> chain_ok dsr (Dbr :: DsBr) Br -> ochain_ok dsr (Dwr :: DsWr) Wr ->
    let cg := coarse_word (length dsl) d1 in
    site_dot Y (apply_local_hamiltonian (lfold Al Bl Wl env_one) (rfold Ar Br Wr env_one) (c04_merge_osite W0 W1) X) =
    suml (gwords (dsl ++ d0 :: d1 :: dsr)) (fun w => suml (gwords (dsl ++ d0 :: d1 :: dsr)) (fun w' =>
      cj (amp (Bl ++ Y :: Br) (cg w)) * opamp (Wl ++ W0 :: W1 :: Wr) w w' * amp (Al ++ X :: Ar) (cg w'))).
  Proof.
    intros HAl HBl HWl h1 h2 h3 l1 l2 l3 Hd0 Hd1 HDwr HX HY S0 S1 K0 K1 HAr HBr HWr cg.
    assert (Hd : 0 < d0 * d1) by (apply Nat.mul_pos_pos; assumption).
    rewrite (local_hamiltonian_projection R Al Ar Bl Br Wl Wr X Y (c04_merge_osite W0 W1) dsl dsr (d0 * d1)
               Dal Dar Dbl Dbr Dwl Dwr DsAl DsBl DsWl DsAr DsBr DsWr); try assumption.
    2: { apply (merge_osite_ok d0 d1 Dwl Dwm Dwr); assumption. }
    rewrite suml_coarse. apply suml_ext; intros w Hw.
    rewrite suml_coarse. apply suml_ext; intros w' Hw'.
    fold cg. unfold cg at 2 3. rewrite (opamp_merge Wl dsl DsWl d0 d1 Dwl Dwm Dwr dsr DsWr) by assumption.
    reflexivity.
  Qed.
  (* ---- merged MPS tensors: embedding merge(A0, A1) at the coarse site gives back the original state ---- *)
  Lemma merge_sel d1 (A0 A1 : site) s0 s1 : length A1 = d1 -> s0 < length A0 -> s1 < d1 ->
    sel (c04_merge_site A0 A1) (s0 * d1 + s1) = mulmx (sel A0 s0) (sel A1 s1).
  Proof.
    intros L1 Hs0 Hs1. unfold sel, c04_merge_site.
    rewrite (nth_flat_map_uniform _ d1 A0 (zeromx 0 0) (zeromx 0 0) s0 s1);
      [| intros x; rewrite map_length; exact L1 | exact Hs0 | exact Hs1].
    rewrite (nth_indep _ (zeromx 0 0) (mulmx (nth s0 A0 (zeromx 0 0)) (zeromx 0 0))) by (rewrite map_length; lia).
    apply (map_nth (fun M1 => mulmx (nth s0 A0 (zeromx 0 0)) M1)).
  Qed.

  Lemma merge_site_ok d0 d1 Dl Dm Dr (A0 A1 : site) :
    0 < d1 -> site_ok d0 Dl Dm A0 -> site_ok d1 Dm Dr A1 -> site_ok (d0 * d1) Dl Dr (c04_merge_site A0 A1).
  Proof.
    intros Hd1 [L0 K0] [L1 K1]. split.
    - unfold c04_merge_site. rewrite (length_flat_map_uniform _ d1); [rewrite L0; reflexivity|].
      intros x. rewrite map_length. exact L1.
    - intros s Hs.
      assert (Es : s = (s / d1) * d1 + s mod d1) by (rewrite Nat.mul_comm; apply Nat.div_mod; lia).
      assert (Hs0 : s / d1 < d0) by (apply Nat.div_lt_upper_bound; lia).
      assert (Hs1 : s mod d1 < d1) by (apply Nat.mod_upper_bound; lia).
      rewrite Es. rewrite (merge_sel d1) by (try assumption; lia). rewrite nr_mulmx, nc_mulmx.
      destruct (K0 _ Hs0) as [F1 _]. destruct (K1 _ Hs1) as [_ F2]. auto.
  Qed.

  Lemma mprod_merge_mps (Al : list site) : forall dsl DsAl d0 d1 Dal Dam Dar dsr DsAr (A0 A1 : site) (Ar : list site) w n,
    chainx_ok dsl DsAl Al -> site_ok d0 Dal Dam A0 -> site_ok d1 Dam Dar A1 -> chain_ok dsr (Dar :: DsAr) Ar ->
    In w (gwords (dsl ++ d0 :: d1 :: dsr)) ->
    mprod n (pick (Al ++ c04_merge_site A0 A1 :: Ar) (coarse_word (length dsl) d1 w)) =
    mprod n (pick (Al ++ A0 :: A1 :: Ar) w).
  Proof.
    induction Al as [|A Al IH]; intros dsl DsAl d0 d1 Dal Dam Dar dsr DsAr A0 A1 Ar w n HAl K0 K1 HAr Hw.
    - apply chainx_ok_nil_inv in HAl. destruct HAl as [-> _]. cbn [app length] in *.
      apply in_gwords_cons in Hw. destruct Hw as (s0 & w1 & -> & Hs0 & Hw).
      apply in_gwords_cons in Hw. destruct Hw as (s1 & v & -> & Hs1 & Hv).
      cbn [coarse_word pick mprod]. destruct K0 as [L0 K0]. destruct K1 as [L1 K1].
      rewrite (merge_sel d1) by (try assumption; lia).
      rewrite nc_mulmx.
      destruct (K0 _ Hs0) as [F1 F2]. destruct (K1 _ Hs1) as [F3 F4].
      pose proof (chain_ok_pick R _ _ _ _ HAr Hv) as Hm.
      apply mulmx_assoc; [lia|]. rewrite F4, (mprod_start R _ _ _ Hm).
      destruct (c04_mprod_shape R _ _ Hm) as [S _]. cbn [hd] in S. lia.
    - apply chainx_ok_cons_inv in HAl. destruct HAl as (d & ds' & Dl & Dr & Ds' & -> & -> & Hd & HA & HAl).
      cbn [app length] in *.
      apply in_gwords_cons in Hw. destruct Hw as (s & w1 & -> & Hs & Hw).
      cbn [coarse_word pick mprod]. f_equal.
      apply (IH ds' (Dr :: Ds') d0 d1 Dal Dam Dar dsr DsAr); assumption.
  Qed.

  Theorem amp_merge (Al : list site) dsl DsAl d0 d1 Dal Dam Dar dsr DsAr (A0 A1 : site) (Ar : list site) w :
    chainx_ok dsl DsAl Al -> site_ok d0 Dal Dam A0 -> site_ok d1 Dam Dar A1 -> chain_ok dsr (Dar :: DsAr) Ar ->
    In w (gwords (dsl ++ d0 :: d1 :: dsr)) ->
    amp (Al ++ c04_merge_site A0 A1 :: Ar) (coarse_word (length dsl) d1 w) = amp (Al ++ A0 :: A1 :: Ar) w.
  Proof.
    intros. unfold amp. rewrite (mprod_merge_mps Al dsl DsAl d0 d1 Dal Dam Dar dsr DsAr); auto.
  Qed.
End TwoSite.


Arguments osite_struct {R} d W.

(* ---- uniform physical dimension, boolean shapes ---- *)
From PT Require Import Proofs.OperationUniform.

Section TwoSiteUniform.
  Variable R : cring.
  Infix "*" := (kmul R).
  Notation site := (site R).
  Notation osite := (osite R).
  Notation cj := (kconj R).

  Definition local2_shapeb (d : nat) (Al Ar Bl Br : list site) (Wl Wr : list osite) (X Y : site) (W0 W1 : osite)
      (DsAl DsBl DsWl : list nat) (Dar Dbr Dwm Dwr : nat) (DsAr DsBr DsWr : list nat) : bool :=
    Nat.ltb 0 d && Nat.eqb (length Bl) (length Al) && Nat.eqb (length Wl) (length Al)
    && Nat.eqb (length Br) (length Ar) && Nat.eqb (length Wr) (length Ar)
    && chain_shape d DsAl Al && Nat.eqb (hd 0 DsAl) 1 && chain_shape d DsBl Bl && Nat.eqb (hd 0 DsBl) 1
    && ochain_shape d DsWl Wl && Nat.eqb (hd 0 DsWl) 1 && forallb (Nat.ltb 0) DsWl
    && site_shape (d * d) (last DsAl 0) Dar X && site_shape (d * d) (last DsBl 0) Dbr Y
    && osite_shape d (last DsWl 0) Dwm W0 && osite_shape d Dwm Dwr W1
    && chain_shape d (Dar :: DsAr) Ar && Nat.eqb (last (Dar :: DsAr) 0) 1
    && chain_shape d (Dbr :: DsBr) Br && Nat.eqb (last (Dbr :: DsBr) 0) 1
    && ochain_shape d (Dwr :: DsWr) Wr && Nat.eqb (last (Dwr :: DsWr) 0) 1 && forallb (Nat.ltb 0) (Dwr :: DsWr).

  Theorem two_site_is_projection_u d Al Ar Bl Br Wl Wr X Y W0 W1 DsAl DsBl DsWl Dar Dbr Dwm Dwr DsAr DsBr DsWr :
    local2_shapeb d Al Ar Bl Br Wl Wr X Y W0 W1 DsAl DsBl DsWl Dar Dbr Dwm Dwr DsAr DsBr DsWr = true ->
    let n := (length Al + S (S (length Ar)))%nat in
    let cg := coarse_word (length Al) d in
    site_dot Y (apply_local_hamiltonian (lfold Al Bl Wl env_one) (rfold Ar Br Wr env_one) (c04_merge_osite W0 W1) X) =
    suml (words d n) (fun w => suml (words d n) (fun w' =>
      cj (amp (Bl ++ Y :: Br) (cg w)) * opamp (Wl ++ W0 :: W1 :: Wr) w w' * amp (Al ++ X :: Ar) (cg w'))).
  Proof.
    intros H n cg. unfold local2_shapeb in H.
    apply andb_true_iff in H. destruct H as [H RW3].
    apply andb_true_iff in H. destruct H as [H RW2].
    apply andb_true_iff in H. destruct H as [H RW1].
    apply andb_true_iff in H. destruct H as [H RB2].
    apply andb_true_iff in H. destruct H as [H RB1].
    apply andb_true_iff in H. destruct H as [H RA2].
    apply andb_true_iff in H. destruct H as [H RA1].
    apply andb_true_iff in H. destruct H as [H SW1].
    apply andb_true_iff in H. destruct H as [H SW0].
    apply andb_true_iff in H. destruct H as [H SY].
    apply andb_true_iff in H. destruct H as [H SX].
    apply andb_true_iff in H. destruct H as [H W3].
    apply andb_true_iff in H. destruct H as [H W2].
    apply andb_true_iff in H. destruct H as [H W1'].
    apply andb_true_iff in H. destruct H as [H B2].
    apply andb_true_iff in H. destruct H as [H B1].
    apply andb_true_iff in H. destruct H as [H A2].
    apply andb_true_iff in H. destruct H as [H A1].
    apply andb_true_iff in H. destruct H as [H L4].
    apply andb_true_iff in H. destruct H as [H L3].
    apply andb_true_iff in H. destruct H as [H L2].
    apply andb_true_iff in H. destruct H as [H L1].
    rename H into Hd. apply Nat.ltb_lt in Hd.
    apply Nat.eqb_eq in L1.
    apply Nat.eqb_eq in L2.
    apply Nat.eqb_eq in L3.
    apply Nat.eqb_eq in L4.
    apply Nat.eqb_eq in A2.
    apply Nat.eqb_eq in B2.
    apply Nat.eqb_eq in W2.
    apply Nat.eqb_eq in RA2.
    apply Nat.eqb_eq in RB2.
    apply Nat.eqb_eq in RW2.
    assert (HDwr : 0 < Dwr). { cbn [forallb] in RW3. apply andb_true_iff in RW3. destruct RW3 as [H _]. apply Nat.ltb_lt. exact H. }
    assert (E : words d n = gwords (repeat d (length Al) ++ d :: d :: repeat d (length Ar))).
    { unfold n. rewrite <- gwords_repeat. f_equal. change (d :: d :: repeat d (length Ar)) with (repeat d (S (S (length Ar)))).
      apply repeat_app. }
    rewrite E. unfold cg.
    replace (coarse_word (length Al) d) with (coarse_word (length (repeat d (length Al))) d) by (rewrite repeat_length; reflexivity).
    apply (two_site_projection R Al Ar Bl Br Wl Wr X Y W0 W1 (repeat d (length Al)) (repeat d (length Ar)) d d
             (last DsAl 0) Dar (last DsBl 0) Dbr (last DsWl 0) Dwm Dwr DsAl DsBl DsWl DsAr DsBr DsWr); auto.
    - apply chain_shape_okx; assumption.
    - rewrite <- L1. apply chain_shape_okx; assumption.
    - rewrite <- L2. apply ochain_shape_okx; assumption.
    - apply site_shape_ok; exact SX.
    - apply site_shape_ok; exact SY.
    - apply (osite_shape_struct R d _ _ _ SW0).
    - apply (osite_shape_struct R d _ _ _ SW1).
    - apply osite_shape_ok; exact SW0.
    - apply osite_shape_ok; exact SW1.
    - apply chain_shape_ok; assumption.
    - rewrite <- L3. apply chain_shape_ok; assumption.
    - rewrite <- L4. apply ochain_shape_ok; assumption.
  Qed.
End TwoSiteUniform.

Arguments local2_shapeb {R} d Al Ar Bl Br Wl Wr X Y W0 W1 DsAl DsBl DsWl Dar Dbr Dwm Dwr DsAr DsBr DsWr.
