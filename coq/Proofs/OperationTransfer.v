(* C04 — transfer invariants of the right-to-left contractions. *)
From Coq Require Import Arith List Lia Ring Setoid Morphisms Bool.
From PT Require Import Base.Scalar Base.BigSum Base.Mx Model.Tensor Model.Operation
  Proofs.OperationSums Proofs.OperationEntries Proofs.OperationChains.
Import ListNotations.

Section Transfer.
  Variable R : cring.
  Add Ring Rring_c04_transfer : (k_rt R).
  Notation "0" := (k0 R). Notation "1" := (k1 R).
  Infix "+" := (kadd R). Infix "*" := (kmul R).
  Notation site := (site R).
  Notation osite := (osite R).
  Notation env := (env R).
  Notation mx := (mx R).
  Notation cj := (kconj R).

  Lemma rfold0_shape ds Das Dbs (As Bs : list site) :
    chain_ok ds Das As -> chain_ok ds Dbs Bs ->
    nr (rfold0 As Bs (idmx 1)) = hd 0%nat Das /\ nc (rfold0 As Bs (idmx 1)) = hd 0%nat Dbs.
  Proof.
    intros HA HB. destruct As as [|A As].
    - apply chain_ok_nil_inv in HA. destruct HA as [-> ->].
      destruct Bs as [|B Bs]; [|apply chain_ok_cons_inv in HB; destruct HB as (? & ? & ? & ? & ? & E & _); discriminate].
      apply chain_ok_nil_inv in HB. destruct HB as [_ ->]. split; reflexivity.
    - apply chain_ok_cons_inv in HA. destruct HA as (d & ds' & Dal & Dar & Das' & -> & -> & Hd & HA & HAs).
      destruct Bs as [|B Bs]; [apply chain_ok_nil_inv in HB; destruct HB; discriminate|].
      apply chain_ok_cons_inv in HB. destruct HB as (d2 & ds2 & Dbl & Dbr & Dbs' & E & -> & _ & HB & HBs).
      injection E as <- <-.
      cbn [rfold0 hd]. unfold contraction_step_right. cbv zeta. rewrite nr_tab, nc_tab.
      destruct (site_ok_sdl _ _ _ _ _ Hd HA) as (E1 & _). destruct (site_ok_sdl _ _ _ _ _ Hd HB) as (E2 & _). auto.
  Qed.

  Theorem rfold0_spec (As Bs : list site) : forall ds Das Dbs,
    chain_ok ds Das As -> chain_ok ds Dbs Bs ->
    forall a b, a < hd 0%nat Das -> b < hd 0%nat Dbs ->
    get (rfold0 As Bs (idmx 1)) a b = suml (gwords ds) (fun u => cvec As u a * cj (cvec Bs u b)).
  Proof.
    revert Bs. induction As as [|A As IH]; intros Bs ds Das Dbs HA HB a b Ha Hb.
    - apply chain_ok_nil_inv in HA. destruct HA as [-> ->].
      destruct Bs as [|B Bs]; [|apply chain_ok_cons_inv in HB; destruct HB as (? & ? & ? & ? & ? & E & _); discriminate].
      apply chain_ok_nil_inv in HB. destruct HB as [_ ->]. cbn [hd] in *.
      assert (a = 0%nat) by lia. assert (b = 0%nat) by lia. subst.
      cbn [rfold0 gwords]. rewrite suml_one, cvec_nil, get_idmx by lia. simpl. rewrite kconj_1. ring.
    - apply chain_ok_cons_inv in HA. destruct HA as (d & ds' & Dal & Dar & Das' & -> & -> & Hd & HA & HAs).
      destruct Bs as [|B Bs]; [apply chain_ok_nil_inv in HB; destruct HB; discriminate|].
      apply chain_ok_cons_inv in HB. destruct HB as (d2 & ds2 & Dbl & Dbr & Dbs' & E & -> & _ & HB & HBs).
      injection E as <- <-. cbn [hd] in *.
      cbn [rfold0].
      destruct (rfold0_shape _ _ _ _ _ HAs HBs) as [S1 S2]. cbn [hd] in S1, S2.
      rewrite (get_step_right R d Dal Dar Dbl Dbr) by assumption.
      rewrite suml_gwords_cons.
      rewrite <- suml_seq. apply suml_ext; intros s Hs. apply in_seq in Hs.
      transitivity (suml (gwords ds') (fun w =>
         sumn Dar (fun c' => get (sel A s) a c' * cvec As w c') * cj (sumn Dbr (fun c => get (sel B s) b c * cvec Bs w c)))).
      2: { apply suml_ext; intros w Hw.
           rewrite (cvec_cons R d ds' Dal Dar Das') by (try assumption; try lia; apply chain_ok_cons; assumption).
           rewrite (cvec_cons R d ds' Dbl Dbr Dbs') by (try assumption; try lia; apply chain_ok_cons; assumption).
           reflexivity. }
      transitivity (sumn Dbr (fun c => sumn Dar (fun c' => get (sel A s) a c' *
          suml (gwords ds') (fun u => cvec As u c' * cj (cvec Bs u c))) * cj (get (sel B s) b c))).
      { apply sumn_ext; intros c Hc. f_equal. apply sumn_ext; intros c' Hc'. f_equal.
        apply (IH Bs ds' (Dar :: Das') (Dbr :: Dbs')); assumption. }
      to_suml. spush.
      sfront 3. senter. sfront 2. senter. senter. ring.
  Qed.

  (* ---- with an MPO sandwiched ---- *)
  Lemma env_id_ok : env_ok 1 1 1 (env_id (R:=R) 1).
  Proof. split; [reflexivity|]. intros w Hw. assert (w = 0%nat) by lia. subst. split; reflexivity. Qed.

  Lemma rfold_shape ds Das Dbs Dws (As Bs : list site) (Ws : list osite) :
    chain_ok ds Das As -> chain_ok ds Dbs Bs -> ochain_ok ds Dws Ws ->
    env_ok (hd 0%nat Dws) (hd 0%nat Das) (hd 0%nat Dbs) (rfold As Bs Ws (env_id 1)).
  Proof.
    intros HA HB HW. destruct As as [|A As].
    - apply chain_ok_nil_inv in HA. destruct HA as [-> ->].
      destruct Bs as [|B Bs]; [|apply chain_ok_cons_inv in HB; destruct HB as (? & ? & ? & ? & ? & E & _); discriminate].
      destruct Ws as [|W Ws]; [|apply ochain_ok_cons_inv in HW; destruct HW as (? & ? & ? & ? & ? & E & _); discriminate].
      apply chain_ok_nil_inv in HB. destruct HB as [_ ->]. apply ochain_ok_nil_inv in HW. destruct HW as [_ ->].
      apply env_id_ok.
    - apply chain_ok_cons_inv in HA. destruct HA as (d & ds' & Dal & Dar & Das' & -> & -> & Hd & HA & HAs).
      destruct Bs as [|B Bs]; [apply chain_ok_nil_inv in HB; destruct HB; discriminate|].
      destruct Ws as [|W Ws]; [apply ochain_ok_nil_inv in HW; destruct HW; discriminate|].
      apply chain_ok_cons_inv in HB. destruct HB as (d2 & ds2 & Dbl & Dbr & Dbs' & E & -> & _ & HB & HBs).
      injection E as <- <-.
      apply ochain_ok_cons_inv in HW. destruct HW as (d2 & ds2 & Dwl & Dwr & Dws' & E & -> & _ & HDw & HW & HWs).
      injection E as <- <-.
      cbn [rfold hd]. apply (shape_opstep_right R d Dal Dar Dbl Dbr Dwl Dwr); assumption.
  Qed.

  Theorem rfold_spec (As Bs : list site) (Ws : list osite) : forall ds Das Dbs Dws,
    chain_ok ds Das As -> chain_ok ds Dbs Bs -> ochain_ok ds Dws Ws ->
    forall wl a b, wl < hd 0%nat Dws -> a < hd 0%nat Das -> b < hd 0%nat Dbs ->
    get (esel (rfold As Bs Ws (env_id 1)) wl) a b =
    suml (gwords ds) (fun u => suml (gwords ds) (fun u' => ocvec Ws u u' wl * cvec As u' a * cj (cvec Bs u b))).
  Proof.
    revert Bs Ws. induction As as [|A As IH]; intros Bs Ws ds Das Dbs Dws HA HB HW wl a b Hwl Ha Hb.
    - apply chain_ok_nil_inv in HA. destruct HA as [-> ->].
      destruct Bs as [|B Bs]; [|apply chain_ok_cons_inv in HB; destruct HB as (? & ? & ? & ? & ? & E & _); discriminate].
      destruct Ws as [|W Ws]; [|apply ochain_ok_cons_inv in HW; destruct HW as (? & ? & ? & ? & ? & E & _); discriminate].
      apply chain_ok_nil_inv in HB. destruct HB as [_ ->]. apply ochain_ok_nil_inv in HW. destruct HW as [_ ->].
      cbn [hd] in *.
      assert (a = 0%nat) by lia. assert (b = 0%nat) by lia. assert (wl = 0%nat) by lia. subst.
      cbn [rfold gwords]. rewrite !suml_one, cvec_nil, ocvec_nil. unfold env_id, esel. cbn [nth].
      rewrite get_idmx by lia. simpl. rewrite kconj_1. ring.
    - apply chain_ok_cons_inv in HA. destruct HA as (d & ds' & Dal & Dar & Das' & -> & -> & Hd & HA & HAs).
      destruct Bs as [|B Bs]; [apply chain_ok_nil_inv in HB; destruct HB; discriminate|].
      destruct Ws as [|W Ws]; [apply ochain_ok_nil_inv in HW; destruct HW; discriminate|].
      apply chain_ok_cons_inv in HB. destruct HB as (d2 & ds2 & Dbl & Dbr & Dbs' & E & -> & _ & HB & HBs).
      injection E as <- <-.
      apply ochain_ok_cons_inv in HW. destruct HW as (d2 & ds2 & Dwl & Dwr & Dws' & E & -> & _ & HDw & HW & HWs).
      injection E as <- <-. cbn [hd] in *.
      cbn [rfold].
      pose proof (rfold_shape _ _ _ _ _ _ _ HAs HBs HWs) as HE. cbn [hd] in HE.
      rewrite (get_opstep_right R d Dal Dar Dbl Dbr Dwl Dwr) by assumption.
      rewrite suml_gwords_cons.
      rewrite <- suml_seq. apply suml_ext; intros s Hs. apply in_seq in Hs.
      transitivity (suml (gwords ds') (fun v => suml (seq 0 d) (fun t => suml (gwords ds') (fun v' =>
         sumn Dwr (fun wm => get (osel W s t) wl wm * ocvec Ws v v' wm) *
         sumn Dar (fun c' => get (sel A t) a c' * cvec As v' c') *
         cj (sumn Dbr (fun c => get (sel B s) b c * cvec Bs v c)))))).
      2: { apply suml_ext; intros v Hv. rewrite suml_gwords_cons. apply suml_ext; intros t Ht. apply in_seq in Ht.
           apply suml_ext; intros v' Hv'.
           rewrite (ocvec_cons R d ds' Dwl Dwr Dws') by (try assumption; try lia; apply ochain_ok_cons; assumption).
           rewrite (cvec_cons R d ds' Dal Dar Das') by (try assumption; try lia; apply chain_ok_cons; assumption).
           rewrite (cvec_cons R d ds' Dbl Dbr Dbs') by (try assumption; try lia; apply chain_ok_cons; assumption).
           reflexivity. }
      transitivity (sumn Dbr (fun c => sumn d (fun t => sumn Dwr (fun wr => get (osel W s t) wl wr *
          sumn Dar (fun c' => get (sel A t) a c' *
            suml (gwords ds') (fun u => suml (gwords ds') (fun u' => ocvec Ws u u' wr * cvec As u' c' * cj (cvec Bs u c)))))) *
          cj (get (sel B s) b c))).
      { apply sumn_ext; intros c Hc. f_equal. apply sumn_ext; intros t Ht. apply sumn_ext; intros wr Hwr. f_equal.
        apply sumn_ext; intros c' Hc'. f_equal.
        apply (IH Bs Ws ds' (Dar :: Das') (Dbr :: Dbs') (Dwr :: Dws')); assumption. }
      to_suml. spush.
      sfront 5. senter. sfront 2. senter. sfront 4. senter. sfront 3. senter. sfront 2. senter. senter. ring.
  Qed.
  (* ---- two MPOs: tr[op rho] ---- *)
  Lemma rfoldD_shape ds Das Dws (As Ws : list osite) :
    ochain_ok ds Das As -> ochain_ok ds Dws Ws ->
    nr (rfoldD As Ws (idmx 1)) = hd 0%nat Das /\ nc (rfoldD As Ws (idmx 1)) = hd 0%nat Dws.
  Proof.
    intros HA HW. destruct As as [|A As].
    - apply ochain_ok_nil_inv in HA. destruct HA as [-> ->].
      destruct Ws as [|W Ws]; [|apply ochain_ok_cons_inv in HW; destruct HW as (? & ? & ? & ? & ? & E & _); discriminate].
      apply ochain_ok_nil_inv in HW. destruct HW as [_ ->]. split; reflexivity.
    - apply ochain_ok_cons_inv in HA. destruct HA as (d & ds' & Dal & Dar & Das' & -> & -> & Hd & HDa & HA & HAs).
      destruct Ws as [|W Ws]; [apply ochain_ok_nil_inv in HW; destruct HW; discriminate|].
      apply ochain_ok_cons_inv in HW. destruct HW as (d2 & ds2 & Dwl & Dwr & Dws' & E & -> & _ & HDw & HW & HWs).
      injection E as <- <-.
      cbn [rfoldD hd]. unfold contraction_operator_density_step_right. cbv zeta. rewrite nr_tab, nc_tab.
      destruct (osite_ok_odl _ _ _ _ _ Hd HA) as (E1 & _). destruct (osite_ok_odl _ _ _ _ _ Hd HW) as (E2 & _). auto.
  Qed.

  Theorem rfoldD_spec (As Ws : list osite) : forall ds Das Dws,
    ochain_ok ds Das As -> ochain_ok ds Dws Ws ->
    forall a wl, a < hd 0%nat Das -> wl < hd 0%nat Dws ->
    get (rfoldD As Ws (idmx 1)) a wl =
    suml (gwords ds) (fun u => suml (gwords ds) (fun u' => ocvec As u u' a * ocvec Ws u' u wl)).
  Proof.
    revert Ws. induction As as [|A As IH]; intros Ws ds Das Dws HA HW a wl Ha Hwl.
    - apply ochain_ok_nil_inv in HA. destruct HA as [-> ->].
      destruct Ws as [|W Ws]; [|apply ochain_ok_cons_inv in HW; destruct HW as (? & ? & ? & ? & ? & E & _); discriminate].
      apply ochain_ok_nil_inv in HW. destruct HW as [_ ->]. cbn [hd] in *.
      assert (a = 0%nat) by lia. assert (wl = 0%nat) by lia. subst.
      cbn [rfoldD gwords]. rewrite !suml_one, !ocvec_nil, get_idmx by lia. simpl. ring.
    - apply ochain_ok_cons_inv in HA. destruct HA as (d & ds' & Dal & Dar & Das' & -> & -> & Hd & HDa & HA & HAs).
      destruct Ws as [|W Ws]; [apply ochain_ok_nil_inv in HW; destruct HW; discriminate|].
      apply ochain_ok_cons_inv in HW. destruct HW as (d2 & ds2 & Dwl & Dwr & Dws' & E & -> & _ & HDw & HW & HWs).
      injection E as <- <-. cbn [hd] in *.
      cbn [rfoldD].
      destruct (rfoldD_shape _ _ _ _ _ HAs HWs) as [S1 S2]. cbn [hd] in S1, S2.
      rewrite (get_density_step_right R d Dal Dar Dwl Dwr) by assumption.
      rewrite suml_gwords_cons.
      rewrite <- suml_seq. apply suml_ext; intros s Hs. apply in_seq in Hs.
      transitivity (suml (gwords ds') (fun v => suml (seq 0 d) (fun t => suml (gwords ds') (fun v' =>
         sumn Dar (fun r => get (osel A s t) a r * ocvec As v v' r) *
         sumn Dwr (fun r' => get (osel W t s) wl r' * ocvec Ws v' v r'))))).
      2: { apply suml_ext; intros v Hv. rewrite suml_gwords_cons. apply suml_ext; intros t Ht. apply in_seq in Ht.
           apply suml_ext; intros v' Hv'.
           rewrite (ocvec_cons R d ds' Dal Dar Das') by (try assumption; try lia; apply ochain_ok_cons; assumption).
           rewrite (ocvec_cons R d ds' Dwl Dwr Dws') by (try assumption; try lia; apply ochain_ok_cons; assumption).
           reflexivity. }
      transitivity (sumn d (fun t => sumn Dwr (fun r' => sumn Dar (fun r => get (osel A s t) a r *
          suml (gwords ds') (fun u => suml (gwords ds') (fun u' => ocvec As u u' r * ocvec Ws u' u r'))) *
          get (osel W t s) wl r'))).
      { apply sumn_ext; intros t Ht. apply sumn_ext; intros r' Hr'. f_equal. apply sumn_ext; intros r Hr. f_equal.
        apply (IH Ws ds' (Dar :: Das') (Dwr :: Dws')); assumption. }
      to_suml. spush.
      sfront 4. senter. senter. sfront 3. senter. senter. senter. ring.
  Qed.
End Transfer.
