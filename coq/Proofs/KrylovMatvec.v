(* The map used by the correspondence check, x |-> A x for a matrix given by rows, meets the hypotheses
   of the Lanczos / Arnoldi theorems; boolean versions of the hypotheses for the non-vacuity examples. *)
From Coq Require Import ZArith List Bool Arith Lia Ring Field.
From PT Require Import Base.Scalar Base.Field Base.BigSum Base.Mx Model.Krylov Proofs.KrylovVec Proofs.KrylovLanczos.
Import ListNotations.

Section Matvec.
  Variable F : ofield.
  Notation K := (Cx F).
  Add Field Ffield_km : (f_ft F).
  Add Ring Kring_km : (k_rt (Cx F)).
  Notation vec := (list K).
  Notation "0" := (k0 K).
  Infix "+" := (kadd K). Infix "*" := (kmul K).
  Notation conj := (kconj K).
  Notation ent A i j := (nth j (nth i A []) 0).

  Definition mat_wf (n : nat) (A : list vec) : Prop := length A = n /\ forall i, i < n -> length (nth i A []) = n.
  Definition hermitian (n : nat) (A : list vec) : Prop := forall i j, i < n -> j < n -> ent A i j = conj (ent A j i).
  Definition mat_wfb (n : nat) (A : list vec) : bool :=
    Nat.eqb (length A) n && forallb (fun i => Nat.eqb (length (nth i A [])) n) (seq 0 n).
  Definition hermitianb (n : nat) (A : list vec) : bool :=
    forallb (fun i => forallb (fun j => keqb K (ent A i j) (conj (ent A j i))) (seq 0 n)) (seq 0 n).
  Definition norm_okb (c : vec * F) : bool :=
    fleb F (f0 F) (snd c) && feqb F (fmul F (snd c) (snd c)) (nrm2 (fst c)).

  Lemma mat_wfb_ok n A : mat_wfb n A = true -> mat_wf n A.
  Proof.
    unfold mat_wfb, mat_wf. rewrite andb_true_iff, Nat.eqb_eq, forallb_forall. intros [H1 H2]. split; [exact H1|].
    intros i Hi. apply Nat.eqb_eq, H2, in_seq. lia.
  Qed.
  Lemma hermitianb_ok n A : hermitianb n A = true -> hermitian n A.
  Proof.
    unfold hermitianb, hermitian. rewrite forallb_forall. intros H i j Hi Hj.
    specialize (H i ltac:(apply in_seq; lia)). rewrite forallb_forall in H. apply keqb_spec, H, in_seq. lia.
  Qed.
  Lemma norm_okb_ok c : norm_okb c = true -> norm_ok F c.
  Proof. unfold norm_okb, norm_ok. rewrite andb_true_iff, feqb_spec. intros [H1 H2]. split; assumption. Qed.
  Lemma norm_okb_all cs : forallb norm_okb cs = true -> Forall (norm_ok F) cs.
  Proof. rewrite forallb_forall, Forall_forall. intros H c Hc. apply norm_okb_ok, H, Hc. Qed.

  Lemma small_thr_sound thr : flt F (f0 F) thr -> small_sound F (small_thr F thr).
  Proof.
    intros Ht b Hb. unfold small_thr, fltb in Hb. apply negb_false_iff in Hb.
    eapply flt_le_trans; [exact Ht|exact Hb].
  Qed.

  (* index forms *)
  Lemma vdot_sumn n : forall x y : vec, length x = n -> length y = n ->
    vdot x y = sumn n (fun i => conj (nth i x 0) * nth i y 0).
  Proof.
    induction n as [|n IH]; intros [|a x] [|b y] Hx Hy; cbn [length] in Hx, Hy; try discriminate; [reflexivity|].
    cbn [vdot]. rewrite (IH x y) by lia.
    change (S n) with (1 + n)%nat. rewrite sumn_app. cbn [sumn nth Nat.add]. ring.
  Qed.
  Lemma dotu_sumn n : forall x y : vec, length x = n -> length y = n ->
    dotu x y = sumn n (fun i => nth i x 0 * nth i y 0).
  Proof.
    induction n as [|n IH]; intros [|a x] [|b y] Hx Hy; cbn [length] in Hx, Hy; try discriminate; [reflexivity|].
    cbn [dotu]. rewrite (IH x y) by lia.
    change (S n) with (1 + n)%nat. rewrite sumn_app. cbn [sumn nth Nat.add]. ring.
  Qed.
  Lemma nth_matvec (A : list vec) x i : nth i (matvec A x) 0 = dotu (nth i A []) x.
  Proof. unfold matvec. change 0 with ((fun row : vec => dotu row x) []). apply map_nth. Qed.

  Lemma matvec_len n A : mat_wf n A -> maps_len F n (matvec A).
  Proof. intros [H _] x _. unfold matvec. rewrite map_length. exact H. Qed.

  Lemma matvec_self_adjoint n A : mat_wf n A -> hermitian n A -> self_adjoint F n (matvec A).
  Proof.
    intros [HA Hr] HH x y Hx Hy.
    assert (Lx : length (matvec A x) = n) by (unfold matvec; rewrite map_length; exact HA).
    assert (Ly : length (matvec A y) = n) by (unfold matvec; rewrite map_length; exact HA).
    rewrite (vdot_sumn n) by assumption. rewrite (vdot_sumn n) by assumption.
    transitivity (sumn n (fun i => sumn n (fun j => conj (nth i x 0) * (ent A i j * nth j y 0)))).
    { apply sumn_ext. intros i Hi. rewrite nth_matvec, (dotu_sumn n) by (try apply Hr; assumption).
      rewrite <- sumn_scal_l. reflexivity. }
    transitivity (sumn n (fun j => sumn n (fun i => conj (ent A j i) * conj (nth i x 0) * nth j y 0))).
    2:{ apply sumn_ext. intros j Hj. rewrite nth_matvec, (dotu_sumn n) by (try apply Hr; assumption).
        rewrite sumn_conj, <- sumn_scal_r. apply sumn_ext. intros i Hi. rewrite kconj_mul. reflexivity. }
    rewrite sumn_exch. apply sumn_ext. intros j Hj. apply sumn_ext. intros i Hi.
    rewrite (HH i j) by assumption. ring.
  Qed.
End Matvec.
