(* C20, generic part of "bond dimensions for every L": the layer widths MPO.from_opgraph finds in the graph unrolled by
   OpGraph.from_automaton are the numbers of active automaton states per layer.
   An invariant of the sweep (build_edge / build_node / build_layer / build_layers of Model/AutOp.v) with an EXPLICIT
   level function and the explicit id lists of all finished layers: level k of the graph is exactly the list nids_map[k],
   whose length is len(nids_active[k]).  Well-formedness of the result is C17's (Proofs/C17LenAut.v); the layers of a
   well-formed graph are its level sets (Proofs/CompactSimplify.v) and the discovery is total (Proofs/CompactAllLLayers.v). *)
From Coq Require Import ZArith List Lia Bool Permutation.
From PT Require Import Base.Scalar Base.BigSum Base.Mx Model.OpGraph Model.FromOpchains Model.GraphMPO Model.Rewrites Model.Hamiltonians
                       Proofs.RewritesBase Proofs.CompactSimplify Proofs.CompactAllLLayers.
From PT Require Import Model.C17Common Model.AutOp Proofs.C17AutOp Proofs.C17AutPath Proofs.C17LenBase Proofs.C17LenAut.
Import ListNotations.
Open Scope Z_scope.

Lemma map_length_ext {A B} : forall (l1 : list (list A)) (l2 : list (list B)), length l1 = length l2 ->
  (forall k a, nth_error l1 k = Some a -> length a = length (nth k l2 [])) ->
  map (@length A) l1 = map (@length B) l2.
Proof.
  induction l1 as [|a t IH]; intros l2 Hlen H; destruct l2 as [|b t2]; try discriminate; [reflexivity|].
  cbn [map]. f_equal.
  - exact (H 0%nat a eq_refl).
  - apply IH; [cbn [length] in Hlen; lia|]. intros k a' Hk. exact (H (S k) a' Hk).
Qed.

Lemma nth_last_len {A} (d : A) : forall l L, length l = S L -> nth L l d = last l d.
Proof.
  induction l as [|x t IH]; intros L Hl; [discriminate|]. destruct t as [|y t'].
  - cbn in Hl. assert (L = 0%nat) by lia. subst. reflexivity.
  - destruct L as [|L']; [cbn in Hl; lia|]. change (nth L' (y :: t') d = last (y :: t') d).
    apply IH. cbn [length] in *. lia.
Qed.

Section AllLAut.
  Variable R : cring.
  Notation graph := (graph R).
  Notation gedge := (gedge R).
  Variable aut : autop R.
  Variable all : list (list Z).
  Let acts := fun i => nth i all [].

  (* [l] lists, without repetition, exactly the nodes of level k *)
  Definition LevSet (g : graph) (lv : Z -> Z) (k : Z) (l : list Z) : Prop :=
    NoDup l /\ forall x, In x l <-> In x (nids R g) /\ lv x = k.

  Record CInv (i : nat) (act_i : list Z) (hist : list (list Z)) (map_i lay : list Z) (st : bstate R) (lv : Z -> Z) : Prop := mkCInv {
    c_hlen : length hist = i;
    c_hist : forall k l, nth_error hist k = Some l -> LevSet (b_g st) lv (Z.of_nat k) l /\ length l = length (acts k);
    c_map : LevSet (b_g st) lv (Z.of_nat i) map_i;
    c_mlen : length map_i = length act_i;
    c_lay : LevSet (b_g st) lv (Z.of_nat i + 1) lay;
    c_rng : forall x, In x (nids R (b_g st)) -> x = -1 \/ 0 <= lv x <= Z.of_nat i + 1;
    c_d : In (-1) (nids R (b_g st)) /\ lv (-1) = -1;
    c_0 : In 0 (nids R (b_g st)) /\ lv 0 = 0;
    c_lv : LV R (b_g st) lv;
    c_ends : forall e, In e (g_edges (b_g st)) -> In (e_from e) (nids R (b_g st)) /\ In (e_to e) (nids R (b_g st));
    c_t0 : g_t0 (b_g st) = 0 }.

  (* a level set survives a fresh node that gets another level *)
  Lemma LevSet_fresh (g g' : graph) lv lv' k l m' :
    LevSet g lv k l -> nids R g' = nids R g ++ [m'] -> ~ In m' (nids R g) ->
    (forall x, In x (nids R g) -> lv' x = lv x) -> lv' m' <> k -> LevSet g' lv' k l.
  Proof.
    intros [Hn Hm] Hids Hfresh Hag Hne. split; [exact Hn|]. intros x. rewrite Hids, in_app_iff. split.
    - intros Hx. apply Hm in Hx. destruct Hx as [Hx Hl]. split; [left; exact Hx|]. rewrite Hag by exact Hx. exact Hl.
    - intros [[Hx|[<-|[]]] Hl]; [|contradiction]. apply Hm. split; [exact Hx|]. rewrite <- Hag by exact Hx. exact Hl.
  Qed.

  (* ---- the incoming edges of one new node m': same nodes, new edges from map_i to m' ---- *)
  Lemma build_edges_c i act_i map_i m' : forall es st st',
    fold_left (build_edge i act_i map_i m') es (Ok st) = Ok st' ->
    nids R (b_g st') = nids R (b_g st) /\ g_t0 (b_g st') = g_t0 (b_g st) /\
    forall e, In e (g_edges (b_g st')) -> In e (g_edges (b_g st)) \/ (In (e_from e) map_i /\ e_to e = m').
  Proof.
    induction es as [|ea t IH]; intros st st' H.
    - cbn in H. inversion H; subst. split; [reflexivity|]. split; [reflexivity|]. intros e He. left. exact He.
    - change (fold_left (build_edge i act_i map_i m') t (build_edge i act_i map_i m' (Ok st) ea) = Ok st') in H.
      destruct (build_edge i act_i map_i m' (Ok st) ea) as [st1|err] eqn:E1;
        [|rewrite fold_build_edge_err in H; discriminate].
      unfold build_edge in E1. cbn [bind] in E1.
      destruct (ae_active ea i); cbn [negb] in E1; [|inversion E1; subst st1; apply IH; exact H].
      destruct (index_of (ae_from ea) act_i) as [idx0|]; [|inversion E1; subst st1; apply IH; exact H].
      destruct (nth_error map_i idx0) as [m0|] eqn:Hm0; [|discriminate].
      destruct (add_connect_edge (b_g st) (new_edge (b_eid st) m0 m' (ae_opics ea i))) as [g'|] eqn:Hadd;
        cbn [of_opt bind] in E1; [|discriminate].
      inversion E1; subst st1; clear E1.
      destruct (add_connect_edge_eq R _ _ _ Hadd) as [_ Hg'].
      destruct (IH _ _ H) as (A1 & A2 & A3). cbn [b_g] in A1, A2, A3.
      assert (Hids : nids R g' = nids R (b_g st)).
      { rewrite Hg'. unfold nids. cbn [g_nodes]. rewrite map_map. apply map_ext. intros n. reflexivity. }
      split; [congruence|]. split; [rewrite A2, Hg'; reflexivity|].
      intros e He. destruct (A3 e He) as [Hold|Hnew]; [|right; exact Hnew].
      rewrite Hg' in Hold. cbn [g_edges] in Hold. apply in_app_or in Hold. destruct Hold as [Hold|[<-|[]]]; [left; exact Hold|].
      right. cbn [new_edge e_from e_to]. split; [|reflexivity]. eapply nth_error_In. exact Hm0.
  Qed.

  (* ---- one new node ---- *)
  Lemma build_node_c i act_i map_i na hist st lay st' lay' lv :
    build_node aut i act_i map_i (Ok (st, lay)) na = Ok (st', lay') ->
    CInv i act_i hist map_i lay st lv ->
    exists lv', CInv i act_i hist map_i lay' st' lv' /\ length lay' = S (length lay).
  Proof.
    intros H [Hhl Hh Hmap Hml Hlay Hrng [Hdin Hd] [H0in H0] Hlv Hends Ht0].
    unfold build_node in H. cbn [bind fst snd] in H.
    destruct (add_node (b_g st) (mknode (b_nid st) [] [] (n_q na))) as [g1|] eqn:Hadd; cbn [of_opt bind] in H; [|discriminate].
    destruct (lookup_edges aut (n_in na)) as [es|] eqn:Hlk; cbn [bind] in H; [|discriminate].
    destruct (fold_left (build_edge i act_i map_i (b_nid st)) es (Ok (mkb g1 (b_nid st + 1) (b_eid st))))
      as [st1|] eqn:Hfold; cbn [bind] in H; [|discriminate].
    inversion H; subst st1 lay'; clear H.
    set (m' := b_nid st) in *.
    unfold add_node in Hadd. cbn [n_id] in Hadd. destruct (has_node (b_g st) m') eqn:Hhas; [discriminate|].
    inversion Hadd; subst g1; clear Hadd.
    assert (Hfresh : ~ In m' (nids R (b_g st))).
    { intros Hin. apply In_nids_has in Hin. congruence. }
    destruct (build_edges_c i act_i map_i m' es _ _ Hfold) as (A1 & A2 & A3). cbn [b_g g_nodes g_edges g_t0] in A1, A2, A3.
    assert (Hids : nids R (b_g st') = nids R (b_g st) ++ [m']).
    { rewrite A1. unfold nids. cbn [g_nodes]. rewrite map_app. reflexivity. }
    set (lv' := fun x => if x =? m' then Z.of_nat i + 1 else lv x).
    assert (Hag : forall x, In x (nids R (b_g st)) -> lv' x = lv x).
    { intros x Hx. unfold lv'. destruct (Z.eqb_spec x m') as [->|]; [contradiction|reflexivity]. }
    assert (Hlm' : lv' m' = Z.of_nat i + 1) by (unfold lv'; rewrite Z.eqb_refl; reflexivity).
    assert (Hold_in : forall x, In x (nids R (b_g st)) -> In x (nids R (b_g st'))).
    { intros x Hx. rewrite Hids. apply in_or_app. left. exact Hx. }
    assert (Hm'in : In m' (nids R (b_g st'))) by (rewrite Hids; apply in_or_app; right; left; reflexivity).
    exists lv'. split; [|rewrite app_length; cbn [length]; lia].
    constructor.
    - exact Hhl.
    - intros k l Hk. destruct (Hh k l Hk) as [HL Hlen]. split; [|exact Hlen].
      apply (LevSet_fresh (b_g st) (b_g st') lv lv' _ l m' HL Hids Hfresh Hag).
      assert ((k < i)%nat) by (rewrite <- Hhl; apply nth_error_Some; congruence). lia.
    - apply (LevSet_fresh (b_g st) (b_g st') lv lv' _ map_i m' Hmap Hids Hfresh Hag). lia.
    - exact Hml.
    - destruct Hlay as [Nl Ml]. split.
      + apply NoDup_snoc; [exact Nl|]. intros Hin. apply Ml in Hin. apply Hfresh. apply Hin.
      + intros x. rewrite Hids, !in_app_iff. split.
        * intros [Hx|[<-|[]]].
          -- apply Ml in Hx. destruct Hx as [Hx Hl]. split; [left; exact Hx|]. rewrite Hag by exact Hx. exact Hl.
          -- split; [right; left; reflexivity|exact Hlm'].
        * intros [[Hx|[<-|[]]] Hl]; [|right; left; reflexivity]. left. apply Ml. split; [exact Hx|].
          rewrite <- Hag by exact Hx. exact Hl.
    - intros x Hx. rewrite Hids in Hx. apply in_app_or in Hx. destruct Hx as [Hx|[<-|[]]].
      + rewrite Hag by exact Hx. apply Hrng. exact Hx.
      + right. lia.
    - split; [apply Hold_in; exact Hdin|]. rewrite Hag by exact Hdin. exact Hd.
    - split; [apply Hold_in; exact H0in|]. rewrite Hag by exact H0in. exact H0.
    - intros e He. destruct (A3 e He) as [Hold|[Hf Ht]].
      + destruct (Hends e Hold) as [E1 E2]. rewrite (Hag _ E1), (Hag _ E2). apply Hlv. exact Hold.
      + destruct Hmap as [_ Mm]. apply Mm in Hf. destruct Hf as [Hf Hfl]. rewrite Ht, Hlm', (Hag _ Hf), Hfl. reflexivity.
    - intros e He. destruct (A3 e He) as [Hold|[Hf Ht]].
      + destruct (Hends e Hold) as [E1 E2]. split; apply Hold_in; assumption.
      + destruct Hmap as [_ Mm]. apply Mm in Hf. destruct Hf as [Hf _]. split; [apply Hold_in; exact Hf|rewrite Ht; exact Hm'in].
    - rewrite A2. exact Ht0.
  Qed.

  (* ---- one layer ---- *)
  Lemma build_nodes_c i act_i map_i hist : forall nas st lay st' lay' lv,
    fold_left (build_node aut i act_i map_i) nas (Ok (st, lay)) = Ok (st', lay') ->
    CInv i act_i hist map_i lay st lv ->
    exists lv', CInv i act_i hist map_i lay' st' lv' /\ length lay' = (length lay + length nas)%nat.
  Proof.
    induction nas as [|na t IH]; intros st lay st' lay' lv H HC.
    - cbn in H. inversion H; subst. exists lv. split; [exact HC|cbn [length]; lia].
    - change (fold_left (build_node aut i act_i map_i) t (build_node aut i act_i map_i (Ok (st, lay)) na) = Ok (st', lay')) in H.
      destruct (build_node aut i act_i map_i (Ok (st, lay)) na) as [[st1 lay1]|err] eqn:E1;
        [|rewrite fold_build_node_err in H; discriminate].
      destruct (build_node_c i act_i map_i na hist st lay st1 lay1 lv E1 HC) as [lv1 [HC1 Hl1]].
      destruct (IH st1 lay1 st' lay' lv1 H HC1) as [lv' [HC' Hl']].
      exists lv'. split; [exact HC'|]. cbn [length]. lia.
  Qed.

  Lemma CInv_next i act_i hist map_i lay act_next st lv :
    CInv i act_i hist map_i lay st lv -> acts i = act_i -> length lay = length act_next ->
    CInv (S i) act_next (hist ++ [map_i]) lay [] st lv.
  Proof.
    intros [Hhl Hh Hmap Hml Hlay Hrng Hd H0 Hlv Hends Ht0] Hai Hll.
    constructor; auto.
    - rewrite app_length. cbn [length]. lia.
    - intros k l Hk. destruct (Nat.lt_ge_cases k (length hist)) as [Hlt|Hge].
      + rewrite nth_error_app1 in Hk by exact Hlt. apply Hh. exact Hk.
      + rewrite nth_error_app2 in Hk by exact Hge. destruct (k - length hist)%nat as [|d] eqn:Ed; cbn in Hk; [|destruct d; discriminate].
        inversion Hk; subst l. assert (k = i) by lia. subst k. split; [exact Hmap|]. rewrite Hai. exact Hml.
    - replace (Z.of_nat (S i)) with (Z.of_nat i + 1) by lia. exact Hlay.
    - split; [constructor|]. intros x. split; [intros []|]. intros [Hx Hl].
      destruct (Hrng x Hx) as [->|Hb]; [destruct Hd as [_ Hd]; rewrite Hd in Hl; lia|lia].
    - intros x Hx. destruct (Hrng x Hx) as [E|E]; [left; exact E|right; lia].
  Qed.

  (* ---- all layers ---- *)
  Lemma build_layers_c : forall rest i act_i hist map_i st st_f lv,
    build_layers aut i (act_i :: rest) map_i st = Ok st_f ->
    (forall k l, nth_error (act_i :: rest) k = Some l -> acts (i + k)%nat = l) ->
    CInv i act_i hist map_i [] st lv ->
    exists hist_f map_f lv_f, CInv (i + length rest) (last (act_i :: rest) []) hist_f map_f [] st_f lv_f.
  Proof.
    induction rest as [|act_next rest IH]; intros i act_i hist map_i st st_f lv H Hacts HC.
    - cbn in H. injection H as <-. cbn [length]. rewrite Nat.add_0_r. exists hist, map_i, lv. exact HC.
    - cbn [build_layers] in H. unfold build_layer in H.
      destruct (lookup_nodes aut act_next) as [nas|] eqn:Hlk; cbn [bind] in H; [|discriminate].
      destruct (fold_left (build_node aut i act_i map_i) nas (Ok (st, []))) as [[st1 lay1]|] eqn:Hfold; cbn [bind fst snd] in H; [|discriminate].
      apply lookup_nodes_ok in Hlk.
      assert (Hnl : length act_next = length nas).
      { clear -Hlk. induction Hlk; cbn [length]; congruence. }
      assert (Hai : acts i = act_i). { specialize (Hacts 0%nat act_i eq_refl). rewrite Nat.add_0_r in Hacts. exact Hacts. }
      destruct (build_nodes_c i act_i map_i hist nas st [] st1 lay1 lv Hfold HC) as [lv1 [HC1 Hl1]]. cbn [length] in Hl1.
      pose proof (CInv_next i act_i hist map_i lay1 act_next st1 lv1 HC1 Hai ltac:(lia)) as HC2.
      destruct (IH (S i) act_next (hist ++ [map_i]) lay1 st1 st_f lv1 H) as [hist_f [map_f [lv_f Hf]]].
      { intros k l Hk. specialize (Hacts (S k) l Hk). rewrite <- Hacts. f_equal. lia. }
      { exact HC2. }
      exists hist_f, map_f, lv_f. replace (i + length (act_next :: rest))%nat with (S i + length rest)%nat by (cbn [length]; lia).
      exact Hf.
  Qed.
End AllLAut.

(* ================= assembly ================= *)
Theorem from_automaton_bond_dims (R : cring) (aut : autop R) (L : nat) (g : graph R) all :
  aut_consistent aut = true -> from_automaton_raw aut L = Ok g -> active_layers aut L = Ok all ->
  bond_dims g = Some (map (@length Z) all).
Proof.
  intros Hcons Hraw Hall.
  pose proof (from_automaton_raw_WF R aut L g Hcons Hraw) as W.
  unfold from_automaton_raw in Hraw.
  destruct (Nat.ltb L 1) eqn:HL; [discriminate|]. apply Nat.ltb_ge in HL.
  rewrite Hall in Hraw. cbn [bind] in Hraw.
  destruct (zl_eq1 (nth 0 all []) (a_t0 aut)) eqn:H0; cbn [negb] in Hraw; [|discriminate].
  destruct (zl_eq1 (last all []) (a_t1 aut)) eqn:H1; cbn [negb] in Hraw; [|discriminate].
  destruct (afind_node aut (a_t0 aut)) as [n0|] eqn:Hn0; [|discriminate].
  set (g0 := mkgraph [mknode 0 [] [] (n_q n0); mknode (-1) [] [] 0] [] 0 (-1)) in Hraw.
  destruct (build_layers aut 0 all [0] (mkb g0 1 0)) as [st|] eqn:Hb; cbn [bind] in Hraw; [|discriminate].
  destruct (max_nid (b_g st)) as [t1'|] eqn:Hmax; cbn [bind] in Hraw; [|discriminate].
  inversion Hraw; subst g; clear Hraw.
  assert (Hlen : length all = S L).
  { unfold active_layers in Hall. apply sequence_length in Hall. rewrite map_length, seq_length in Hall. exact Hall. }
  destruct all as [|a0 rest]; [discriminate|]. cbn [length] in Hlen.
  assert (Ha0 : a0 = [a_t0 aut]).
  { cbn in H0. destruct a0 as [|y [|? ?]]; try discriminate. apply Z.eqb_eq in H0. subst; reflexivity. }
  set (lv0 := fun x : Z => if x =? -1 then -1 else 0).
  assert (HC0 : CInv R (a0 :: rest) 0 a0 [] [0] [] (mkb g0 1 0) lv0).
  { constructor; cbn [b_g g0].
    - reflexivity.
    - intros k l Hk. destruct k; discriminate.
    - split; [constructor; [intros []|constructor]|]. intros x. unfold nids. cbn [g_nodes map n_id]. split.
      + intros [<-|[]]. split; [left; reflexivity|reflexivity].
      + intros [[<-|[<-|[]]] Hl]; [left; reflexivity|]. cbn in Hl. discriminate.
    - rewrite Ha0. reflexivity.
    - split; [constructor|]. intros x. split; [intros []|]. intros [_ Hl]. unfold lv0 in Hl. destruct (x =? -1); discriminate.
    - intros x. unfold nids. cbn [g_nodes map n_id]. intros [<-|[<-|[]]]; [right; cbn; lia|left; reflexivity].
    - split; [unfold nids; cbn; auto|reflexivity].
    - split; [unfold nids; cbn; auto|reflexivity].
    - intros e [].
    - intros e [].
    - reflexivity. }
  destruct (build_layers_c R aut (a0 :: rest) rest 0%nat a0 [] [0] (mkb g0 1 0) st lv0 Hb) as [hist [map_f [lv HC]]].
  { intros k l Hk. cbn [Nat.add]. apply nth_error_nth. exact Hk. }
  { exact HC0. }
  cbn [Nat.add] in HC. replace (length rest) with L in HC by lia.
  destruct HC as [Hhl Hh Hmap Hml Hlay Hrng [Hdin Hd] [H0in Hl0] Hlv Hends Ht0].
  assert (Hlast : last (a0 :: rest) [] = [a_t1 aut]).
  { destruct (last (a0 :: rest) []) as [|y [|? ?]]; try discriminate. cbn in H1. apply Z.eqb_eq in H1. subst; reflexivity. }
  rewrite Hlast in Hml. cbn [length] in Hml.
  set (gf := remove_node (mkgraph (g_nodes (b_g st)) (g_edges (b_g st)) (g_t0 (b_g st)) t1') (-1)) in *.
  assert (Hnf : forall x, In x (nids R gf) <-> In x (nids R (b_g st)) /\ x <> -1).
  { intros x. unfold gf. rewrite nids_remove. unfold nids. cbn [g_nodes]. reflexivity. }
  assert (Htop : forall x, In x (nids R (b_g st)) -> x = -1 \/ 0 <= lv x <= Z.of_nat L).
  { intros x Hx. destruct (Hrng x Hx) as [E|E]; [left; exact E|right].
    destruct (Z.eq_dec (lv x) (Z.of_nat L + 1)) as [Eq|]; [|lia]. exfalso.
    destruct Hlay as [_ Ml]. apply (proj2 (Ml x)). split; assumption. }
  assert (Hls : forall k l, LevSet R (b_g st) lv (Z.of_nat k) l -> LevSet R gf lv (Z.of_nat k) l).
  { intros k l [Nl Ml]. split; [exact Nl|]. intros x. rewrite Ml, Hnf. split; [|tauto].
    intros [Hx Hl]. split; [split; [exact Hx|]|exact Hl]. intros ->. rewrite Hd in Hl. lia. }
  assert (Hlm : length (hist ++ [map_f]) = S L) by (rewrite app_length; cbn [length]; lia).
  rewrite (bond_dims_levsets R gf lv (hist ++ [map_f]) W).
  - f_equal. apply map_length_ext; [rewrite Hlm; cbn [length]; lia|].
    intros k a Hk. destruct (Nat.lt_ge_cases k (length hist)) as [Hlt|Hge].
    + rewrite nth_error_app1 in Hk by exact Hlt. apply (Hh k a Hk).
    + rewrite nth_error_app2 in Hk by exact Hge. destruct (k - length hist)%nat as [|d] eqn:Ed; cbn in Hk; [|destruct d; discriminate].
      inversion Hk; subst a. assert (k = L) by lia. subst k. rewrite Hml.
      assert (Hnl : nth L (a0 :: rest) [] = last (a0 :: rest) []) by (apply nth_last_len; cbn [length]; lia).
      rewrite Hnl, Hlast. reflexivity.
  - intros e He. apply Hlv. exact He.
  - cbn [gf remove_node g_t0]. rewrite Ht0. exact Hl0.
  - intros x Hx. apply Hnf in Hx. destruct Hx as [Hx Hne]. rewrite Hlm. destruct (Htop x Hx) as [E|E]; [contradiction|lia].
  - destruct map_f as [|m [|? ?]]; try discriminate. exists m. destruct Hmap as [_ Mm].
    destruct (proj1 (Mm m) (or_introl eq_refl)) as [Hm Hlm']. split.
    + apply Hnf. split; [exact Hm|]. intros ->. rewrite Hd in Hlm'. lia.
    + rewrite Hlm. lia.
  - intros k l Hk. apply Hls. destruct (Nat.lt_ge_cases k (length hist)) as [Hlt|Hge].
    + rewrite nth_error_app1 in Hk by exact Hlt. apply (Hh k l Hk).
    + rewrite nth_error_app2 in Hk by exact Hge. destruct (k - length hist)%nat as [|d] eqn:Ed; cbn in Hk; [|destruct d; discriminate].
      inversion Hk; subst l. assert (k = L) by lia. subst k. exact Hmap.
Qed.
Print Assumptions from_automaton_bond_dims.
