(* C05 success, part 2: one pass of the site loop succeeds when the cover answer is a valid cover. *)
From Coq Require Import ZArith List Lia Bool.
From PT Require Import Base.Scalar Base.BigSum Model.OpGraph Model.FromOpchains
                       Proofs.FromOpchainsGraph Proofs.FromOpchainsPart Proofs.FromOpchainsSem Proofs.FromOpchainsOk1.
Import ListNotations.
Open Scope Z_scope.

Section Ok2.
  Variable R : cring.
  Notation "1r" := (k1 R).
  Notation graph := (graph R).
  Notation st := (st R).
  Notation part := (part R).

  (* nodes persist with their charge, and with their in-list when their id is below B; edges persist *)
  Definition keepn (B : Z) (g g' : graph) : Prop :=
    forall m n, find_node g m = Some n -> exists n', find_node g' m = Some n' /\ n_q n' = n_q n /\ (m < B -> n_in n' = n_in n).
  Definition keepe (g g' : graph) : Prop := forall x e, find_edge g x = Some e -> find_edge g' x = Some e.
  Definition keep (B : Z) (g g' : graph) : Prop := keepn B g g' /\ keepe g g'.

  Lemma keep_refl B g : keep B g g.
  Proof. split; [intros m n H; exists n; auto | intros x e H; exact H]. Qed.
  Lemma keep_trans B g1 g2 g3 : keep B g1 g2 -> keep B g2 g3 -> keep B g1 g3.
  Proof.
    intros [A1 A2] [B1 B2]. split.
    - intros m n H. destruct (A1 m n H) as [n' [H1 [E1 F1]]]. destruct (B1 m n' H1) as [n'' [H2 [E2 F2]]].
      exists n''. split; [exact H2|]. split; [congruence|]. intros Hm. rewrite F2, F1 by exact Hm. reflexivity.
    - intros x e H. apply B2, A2, H.
  Qed.
  Lemma keep_weaken B B' g g' : B' <= B -> keep B g g' -> keep B' g g'.
  Proof.
    intros Hb [A1 A2]. split; [|exact A2]. intros m n H. destruct (A1 m n H) as [n' [H1 [E1 F1]]].
    exists n'. split; [exact H1|]. split; [exact E1|]. intros Hm. apply F1. lia.
  Qed.
  Lemma keep_add_edge B (g : graph) e g1 : add_edge g e = Some g1 -> keep B g g1.
  Proof.
    intros H. apply add_edge_spec in H. destruct H as [-> Hn]. split.
    - intros m n Hm. exists n. auto.
    - intros x e0 Hx. unfold find_edge in *. cbn [g_edges]. rewrite find_app, Hx. reflexivity.
  Qed.
  Lemma keep_upd_out B (g : graph) a x : keep B g (upd_node g a (node_add_eid x 1)).
  Proof.
    split; [|intros y e H; exact H].
    intros m n H. rewrite find_node_upd by (intros; apply node_add_eid_id). rewrite H. simpl.
    eexists. split; [reflexivity|]. destruct (n_id n =? a); auto.
  Qed.
  Lemma keep_upd_in (g : graph) a x : keep a g (upd_node g a (node_add_eid x 0)).
  Proof.
    split; [|intros y e H; exact H].
    intros m n H. rewrite find_node_upd by (intros; apply node_add_eid_id). rewrite H. simpl.
    eexists. split; [reflexivity|]. destruct (n_id n =? a) eqn:E; [|auto]. split; [reflexivity|].
    intros Hm. apply Z.eqb_eq in E. destruct (find_node_id R _ _ _ H) as [E2 _]. lia.
  Qed.
  Lemma keep_add_node B (g : graph) n0 g1 : add_node g n0 = Some g1 -> keep B g g1.
  Proof.
    intros H. apply add_node_spec in H. destruct H as [-> Hn]. split; [|intros y e H; exact H].
    intros m n Hm. exists n. split; [|auto]. unfold find_node in *. cbn [g_nodes]. rewrite find_app, Hm. reflexivity.
  Qed.
  Lemma keep_connect (g : graph) e g1 : add_connect_edge g e = Some g1 -> keep (e_to e) g g1.
  Proof.
    unfold add_connect_edge. destruct (add_edge g e) as [ga|] eqn:Ea; [|discriminate]. intros H. inversion H; subst.
    eapply keep_trans; [eapply keep_add_edge; eauto|]. eapply keep_trans; [apply keep_upd_out|apply keep_upd_in].
  Qed.

  Lemma add_edge_ok (g : graph) nb eb e : ginv R g nb eb -> e_id e = eb -> exists g1, add_edge g e = Some g1.
  Proof. intros Hg He. unfold add_edge. rewrite He, (has_edge_fresh R g nb eb Hg). eexists; reflexivity. Qed.
  Lemma add_node_ok (g : graph) nb eb n : ginv R g nb eb -> n_id n = nb -> exists g1, add_node g n = Some g1.
  Proof. intros Hg He. unfold add_node. rewrite He, (has_node_fresh R g nb eb Hg). eexists; reflexivity. Qed.
  Lemma connect_ok (g : graph) nb eb e : ginv R g nb eb -> e_id e = eb -> exists g1, add_connect_edge g e = Some g1.
  Proof. intros Hg He. unfold add_connect_edge. destruct (add_edge_ok g nb eb e Hg He) as [g1 E]. rewrite E. eexists; reflexivity. Qed.

  Section Site.
    Variables (g0 : graph) (nb0 eb0 : Z) (p : part) (uc vc : list nat).
    Notation es := (p_edges p).
    Notation nv := (length (p_v p)).
    Hypothesis Hg0 : ginv R g0 nb0 eb0.
    Hypothesis Hp : pinv R p.
    Hypothesis HPU : Forall (fun u => u_nidl u < nb0 /\ exists n, find_node g0 (u_nidl u) = Some n /\ n_q n = u_q0 u) (p_u p).
    Hypothesis HPV : Forall (fun v => h_qnums v <> []) (p_v p).
    Hypothesis HQ : edge_rel R (fun u v => u_q1 u = hd 0 (h_qnums v)) p.
    Hypothesis Huc : NoDup uc.
    Hypothesis Hvc : NoDup vc.
    Hypothesis Hucr : forall i, In i uc -> (i < length (p_u p))%nat.
    Hypothesis Hvcr : forall j, In j vc -> (j < nv)%nat.

    (* what is known of a half-chain for the next site, relative to a graph *)
    Definition entry_ok (g : graph) (hc : hchain * R) : Prop :=
      (exists n, find_node g (h_nidl (fst hc)) = Some n /\ n_q n = hd 0 (h_qnums (fst hc)) /\
                 (snd hc = 1r \/ exists x e, n_in n = [x] /\ find_edge g x = Some e)) /\
      (exists v, In v (p_v p) /\ h_oids (fst hc) = h_oids v /\ h_qnums (fst hc) = h_qnums v).
    Lemma entry_ok_keep B g g' hc : keep B g g' -> h_nidl (fst hc) < B -> entry_ok g hc -> entry_ok g' hc.
    Proof.
      intros [K1 K2] Hb [[n [Fn [Q X]]] V]. split; [|exact V].
      destruct (K1 _ _ Fn) as [n' [Fn' [Q' I']]]. exists n'. split; [exact Fn'|]. split; [congruence|].
      destruct X as [X|[x [e [Hx He]]]]; [left; exact X|]. right. exists x, e. rewrite I' by exact Hb. split; [exact Hx|apply K2; exact He].
    Qed.

    Record TI (cons : nat * nat -> Prop) (cnt : nat) (c : st) : Prop := mkTI {
      ti_g : ginv R (s_g c) (s_nid c) (s_eid c);
      ti_nb : nb0 <= s_nid c;
      ti_keep : keep nb0 g0 (s_g c);
      ti_nx : Forall (fun hc => nb0 <= h_nidl (fst hc) < s_nid c /\ entry_ok (s_g c) hc) (s_next c);
      ti_nd : NoDup (s_rem c);
      ti_rem : forall e, In e (s_rem c) <-> In e es /\ ~ cons e;
      ti_len : nv = 1%nat -> (length (s_next c) <= cnt)%nat;
      ti_ne : s_rem c = es \/ s_next c <> [] }.

    Lemma TI_ext cons cons' cnt c : (forall e, In e es -> (cons e <-> cons' e)) -> TI cons cnt c -> TI cons' cnt c.
    Proof.
      intros H [A B C D E F G I]. constructor; auto. intros e. rewrite F. split; intros [H1 H2]; split; auto; intros X; apply H2; apply (H e H1); exact X.
    Qed.

    Definition ConsU (n : nat) (e : nat * nat) : Prop := In (fst e) (firstn n uc).
    Definition ConsV (n : nat) (e : nat * nat) : Prop := In (fst e) uc \/ In (snd e) (firstn n vc).

    Lemma es_range i j : In (i, j) es -> (i < length (p_u p))%nat /\ (j < nv)%nat.
    Proof. intros H. destruct Hp as [Hr _]. rewrite Forall_forall in Hr. apply (Hr (i, j) H). Qed.

    Lemma single_len (l : list nat) : NoDup l -> (forall x, In x l -> x = O) -> (length l <= 1)%nat.
    Proof.
      intros Hn H. destruct l as [|a [|b l]]; simpl; try lia. exfalso.
      inversion Hn as [|? ? Ha _]; subst. apply Ha. left. rewrite (H a), (H b); simpl; auto.
    Qed.

    (* ---- U branch ---- *)
    Lemma u_step_ok n i c : nth_error uc n = Some i -> TI (ConsU n) n c ->
      exists c', u_step p (Ok c) i = Ok c' /\ TI (ConsU (S n)) (S n) c'.
    Proof.
      intros Hn [Tg Tnb Tk Tnx Tnd Trem Tlen Tne]. unfold u_step. cbn [bind].
      assert (Hi : In i uc) by (eapply nth_error_In; exact Hn).
      destruct (nth_error (p_u p) i) as [u|] eqn:Eu; [|apply nth_error_None in Eu; specialize (Hucr i Hi); lia].
      assert (Enu : nthu R p i = u) by (apply (nth_error_nth _ _ _ Eu)).
      assert (HuP : u_nidl u < nb0 /\ exists n, find_node g0 (u_nidl u) = Some n /\ n_q n = u_q0 u).
      { rewrite Forall_forall in HPU. apply HPU. eapply nth_error_In. exact Eu. }
      destruct HuP as [Hul [n0 [Fn0 Qn0]]].
      set (eid := s_eid c) in *. set (nid := s_nid c) in *.
      set (enew := new_edge eid (u_nidl u) nid [(u_oid u, 1r)]).
      destruct (add_edge_ok (s_g c) nid eid enew Tg eq_refl) as [g1 Ea]. rewrite Ea.
      destruct (ginv_add_edge R _ _ _ _ _ Tg (eq_refl : e_id enew = eid) Ea) as [G1 [T1 [N1 [I1 F1]]]].
      pose proof (keep_add_edge (nid + 1) _ _ _ Ea) as K1.
      destruct Tk as [Tk1 Tk2]. destruct (Tk1 _ _ Fn0) as [n1 [Fn1 [Qn1 _]]].
      destruct K1 as [K1n K1e]. destruct (K1n _ _ Fn1) as [np [Fnp [Qnp _]]]. rewrite Fnp.
      assert (Eq : (n_q np =? u_q0 u) = true) by (apply Z.eqb_eq; congruence). rewrite Eq. cbn [negb].
      set (gb := upd_node g1 (u_nidl u) (node_add_eid eid 1)).
      destruct (ginv_upd_out R g1 nid (eid + 1) (u_nidl u) eid G1) as [Gb [Tb [Ib [Fb Nb]]]]. fold gb in Gb, Tb, Ib, Fb, Nb.
      destruct (add_node_ok gb nid (eid + 1) (mknode nid [eid] [] (u_q1 u)) Gb eq_refl) as [g2 En]. rewrite En.
      assert (Eb : edges_of gb [eid] = [enew]).
      { unfold edges_of. cbn [flat_map]. rewrite Fb. fold eid in F1. rewrite F1. reflexivity. }
      assert (Hsrc : Forall (fun e : gedge R => e_from e < nid /\ e_to e = nid) (edges_of gb (n_in (mknode nid [eid] [] (u_q1 u))))).
      { cbn [n_in]. rewrite Eb. constructor; [|constructor]. cbn. split; [lia|reflexivity]. }
      destruct (ginv_add_node R gb nid (eid + 1) (mknode nid [eid] [] (u_q1 u)) g2 Gb eq_refl ltac:(cbn; constructor; [lia|constructor]) Hsrc En)
        as [G2 [T2 [I2 [I2n [F2 N2]]]]].
      assert (K02 : forall B, keep B (s_g c) g2).
      { intros B. eapply keep_trans; [eapply keep_add_edge; exact Ea|]. eapply keep_trans; [apply keep_upd_out|]. eapply keep_add_node. exact En. }
      assert (Fe2 : find_edge g2 eid = Some enew).
      { rewrite F2, Fb. fold eid in F1. exact F1. }
      set (js := adj_u es i).
      destruct (adj_u_spec es i) as [Jnd Jspec]. fold js in Jnd, Jspec.
      (* inner loop *)
      set (II := fun (m : nat) (cc : st) => s_g cc = g2 /\ s_nid cc = nid + 1 /\ s_eid cc = eid + 1 /\
                  TI (fun e => ConsU n e \/ (fst e = i /\ In (snd e) (firstn m js))) (n + m) cc).
      assert (Inner : exists c', fold_left (u_inner p i nid) js (Ok (mkst g2 (nid + 1) (eid + 1) (s_next c) (s_rem c))) = Ok c' /\ II (length js) c').
      { apply (fold_res_ok (u_inner p i nid) js II).
        - unfold II. cbn [s_g s_nid s_eid]. split; [reflexivity|]. split; [reflexivity|]. split; [reflexivity|].
          constructor; cbn [s_g s_nid s_eid s_next s_rem].
          + exact G2.
          + lia.
          + eapply keep_trans; [split; [exact Tk1|exact Tk2]|apply K02].
          + rewrite Forall_forall in *. intros hc Hh. destruct (Tnx hc Hh) as [A B]. split; [lia|].
            apply (entry_ok_keep nid (s_g c) g2 hc (K02 nid)); [lia|exact B].
          + exact Tnd.
          + intros e. rewrite Trem. simpl. tauto.
          + intros H. rewrite Nat.add_0_r. apply Tlen. exact H.
          + exact Tne.
        - intros m cc j Hm [E1 [E2 [E3 [Ug Unb Uk Unx Und Urem Ulen Une]]]]. unfold u_inner. cbn [bind].
          assert (Hj : In j js) by (eapply nth_error_In; exact Hm).
          assert (Hije : In (i, j) es) by (apply Jspec; exact Hj).
          destruct (es_range i j Hije) as [_ Hjr].
          destruct (nth_error (p_v p) j) as [v|] eqn:Ev; [|apply nth_error_None in Ev; lia].
          assert (Env : nthv R p j = v) by (apply (nth_error_nth _ _ _ Ev)).
          destruct (gamma_get (i, j) (p_gamma p)) as [cf|] eqn:Egm.
          2:{ exfalso. unfold p_edges in Hije. apply in_map_iff in Hije. destruct Hije as [[k cf] [Hk Hin]]. simpl in Hk. subst k.
              destruct Hp as [_ Hnd]. rewrite (gamma_get_In R _ _ _ Hnd Hin) in Egm. discriminate. }
          assert (Hmem : pmem (i, j) (s_rem cc) = true).
          { apply pmem_In. apply Urem. split; [exact Hije|]. intros [X|[_ X]].
            - unfold ConsU in X. simpl in X. eapply nth_notin_firstn; [exact Huc|exact Hn|exact X].
            - simpl in X. eapply nth_notin_firstn; [exact Jnd|exact Hm|exact X]. }
          rewrite Hmem. eexists. split; [reflexivity|].
          destruct (premove_spec (i, j) (s_rem cc) Und) as [Pnd Pin].
          unfold II. cbn [s_g s_nid s_eid]. split; [exact E1|]. split; [exact E2|]. split; [exact E3|].
          constructor; cbn [s_g s_nid s_eid s_next s_rem]; auto.
          + apply Forall_app. split; [exact Unx|]. constructor; [|constructor]. cbn [fst snd h_nidl h_oids h_qnums].
            rewrite E1, E2. split; [lia|]. split.
            * exists (mknode nid [eid] [] (u_q1 u)). split; [exact N2|]. split.
              -- cbn [n_q]. specialize (HQ (i, j) Hije). cbn [fst snd] in HQ. rewrite Enu, Env in HQ. exact HQ.
              -- right. exists eid, enew. split; [reflexivity|exact Fe2].
            * exists v. split; [eapply nth_error_In; exact Ev|auto].
          + intros e. rewrite Pin, Urem. rewrite (firstn_S_nth js m j Hm), in_app_iff. split.
            * intros [[A B] C]. split; [exact A|]. intros [X|[X1 [X2|[X2|[]]]]]; [apply B; left; exact X|apply B; right; auto|].
              apply C. destruct e as [a b]. simpl in *. subst. reflexivity.
            * intros [A B]. split; [split; [exact A|]|].
              -- intros [X|[X1 X2]]; apply B; [left; exact X|right; auto].
              -- intros ->. apply B. right. simpl. auto.
          + intros H. rewrite app_length. simpl. specialize (Ulen H). lia.
          + right. intros X. apply app_eq_nil in X. destruct X as [_ X]. discriminate. }
      destruct Inner as [c' [Ec' [E1 [E2 [E3 T']]]]]. exists c'. split; [exact Ec'|].
      rewrite (firstn_all js) in T' by reflexivity.
      destruct T' as [Ug Unb Uk Unx Und Urem Ulen Une]. constructor; auto.
      - intros e. rewrite Urem. unfold ConsU. rewrite (firstn_S_nth uc n i Hn), in_app_iff. split.
        + intros [A B]. split; [exact A|]. intros [X|[X|[]]]; apply B; [left; exact X|].
          right. split; [auto|]. apply Jspec. destruct e as [a b]. simpl in *. subst. exact A.
        + intros [A B]. split; [exact A|]. intros [X|[X _]]; apply B; [left; exact X|right; left; auto].
      - intros H. specialize (Ulen H).
        assert (length js <= 1)%nat.
        { apply single_len; [exact Jnd|]. intros x Hx. apply Jspec in Hx. destruct (es_range _ _ Hx) as [_ A]. lia. }
        lia.
    Qed.

    (* ---- V branch ---- *)
    Lemma v_step_ok n j c cnt0 : nth_error vc n = Some j -> TI (ConsV n) (cnt0 + n) c ->
      exists c', v_step p (Ok c) j = Ok c' /\ TI (ConsV (S n)) (cnt0 + S n) c'.
    Proof.
      intros Hn [Tg Tnb Tk Tnx Tnd Trem Tlen Tne]. unfold v_step. cbn [bind].
      assert (Hj : In j vc) by (eapply nth_error_In; exact Hn).
      destruct (nth_error (p_v p) j) as [v|] eqn:Ev; [|apply nth_error_None in Ev; specialize (Hvcr j Hj); lia].
      assert (Env : nthv R p j = v) by (apply (nth_error_nth _ _ _ Ev)).
      assert (Hvq : h_qnums v <> []). { rewrite Forall_forall in HPV. apply HPV. eapply nth_error_In. exact Ev. }
      destruct (h_qnums v) as [|q qs] eqn:Eq; [contradiction|].
      set (nid := s_nid c) in *.
      destruct (add_node_ok (s_g c) nid (s_eid c) (mknode nid [] [] q) Tg eq_refl) as [g1 En]. rewrite En.
      destruct (ginv_add_node R (s_g c) nid (s_eid c) (mknode nid [] [] q) g1 Tg eq_refl ltac:(constructor) ltac:(constructor) En)
        as [G1 [T1 [I1 [I1n [F1 N1]]]]].
      set (hv := (mkh (h_oids v) (q :: qs) nid, 1r)).
      set (is := adj_v es j).
      destruct (adj_v_spec es j) as [Ind Ispec]. fold is in Ind, Ispec.
      set (II := fun (m : nat) (cc : st) =>
                  ginv R (s_g cc) (nid + 1) (s_eid cc) /\ s_nid cc = nid + 1 /\ s_next cc = s_next c ++ [hv] /\
                  keep nid (s_g c) (s_g cc) /\ (exists nn, find_node (s_g cc) nid = Some nn /\ n_q nn = q) /\
                  NoDup (s_rem cc) /\
                  (forall e, In e (s_rem cc) <-> In e es /\ ~ (ConsV n e \/ (snd e = j /\ In (fst e) (firstn m is))))).
      assert (Inner : exists c', fold_left (v_inner p j nid q) is
                         (Ok (mkst g1 (nid + 1) (s_eid c) (s_next c ++ [hv]) (s_rem c))) = Ok c' /\ II (length is) c').
      { apply (fold_res_ok (v_inner p j nid q) is II).
        - unfold II. cbn [s_g s_nid s_eid s_next s_rem]. split; [exact G1|]. split; [reflexivity|]. split; [reflexivity|].
          split; [eapply keep_add_node; exact En|]. split; [eexists; split; [exact N1|reflexivity]|]. split; [exact Tnd|].
          intros e. rewrite Trem. simpl. tauto.
        - intros m cc i Hm [Vg [V1 [V2 [[Vk1' Vk2'] [[nn [Vn Vq]] [Vnd Vrem]]]]]]. pose proof (conj Vk1' Vk2' : keep nid (s_g c) (s_g cc)) as Vk. unfold v_inner. cbn [bind].
          assert (Hi : In i is) by (eapply nth_error_In; exact Hm).
          assert (Hije : In (i, j) es) by (apply Ispec; exact Hi).
          destruct (es_range i j Hije) as [Hir _].
          assert (Step : forall rem', NoDup rem' -> (forall x, In x rem' <-> In x (s_rem cc) /\ x <> (i, j)) ->
                     forall x, In x rem' <-> In x es /\ ~ (ConsV n x \/ (snd x = j /\ In (fst x) (firstn (S m) is)))).
          { intros rem' _ Pin x. rewrite Pin, Vrem, (firstn_S_nth is m i Hm), in_app_iff. split.
            - intros [[A B] C]. split; [exact A|]. intros [X|[X1 [X2|[X2|[]]]]]; [apply B; left; exact X|apply B; right; auto|].
              apply C. destruct x as [a b]. simpl in *. subst. reflexivity.
            - intros [A B]. split; [split; [exact A|]|].
              + intros [X|[X1 X2]]; apply B; [left; exact X|right; auto].
              + intros ->. apply B. right. simpl. auto. }
          destruct (pmem (i, j) (s_rem cc)) eqn:Em; cbn [negb].
          2:{ eexists. split; [reflexivity|]. unfold II.
              split; [exact Vg|]. split; [exact V1|]. split; [exact V2|]. split; [split; [exact Vk1'|exact Vk2']|].
              split; [exists nn; auto|]. split; [exact Vnd|].
              intros e. rewrite Vrem, (firstn_S_nth is m i Hm), in_app_iff. split.
              - intros [A B]. split; [exact A|]. intros [X|[X1 [X2|[X2|[]]]]]; [apply B; left; exact X|apply B; right; auto|].
                destruct e as [a b]. simpl in X1, X2.
                assert (Hin : In (a, b) (s_rem cc)) by (apply Vrem; split; [exact A|exact B]).
                rewrite X1, <- X2 in Hin. apply pmem_In in Hin. congruence.
              - intros [A B]. split; [exact A|]. intros [X|[X1 X2]]; apply B; [left; exact X|right; split; [exact X1|left; exact X2]]. }
          destruct (nth_error (p_u p) i) as [u|] eqn:Eu; [|apply nth_error_None in Eu; lia].
          assert (Enu : nthu R p i = u) by (apply (nth_error_nth _ _ _ Eu)).
          destruct (gamma_get (i, j) (p_gamma p)) as [cf|] eqn:Egm.
          2:{ exfalso. unfold p_edges in Hije. apply in_map_iff in Hije. destruct Hije as [[k cf] [Hk Hin]]. simpl in Hk. subst k.
              destruct Hp as [_ Hnd]. rewrite (gamma_get_In R _ _ _ Hnd Hin) in Egm. discriminate. }
          assert (Hq1 : u_q1 u = q).
          { specialize (HQ (i, j) Hije). cbn [fst snd] in HQ. rewrite Enu, Env, Eq in HQ. exact HQ. }
          assert (E1 : (u_q1 u =? q) = true) by (apply Z.eqb_eq; exact Hq1). rewrite E1. cbn [negb].
          assert (HuP : u_nidl u < nb0 /\ exists n, find_node g0 (u_nidl u) = Some n /\ n_q n = u_q0 u).
          { rewrite Forall_forall in HPU. apply HPU. eapply nth_error_In. exact Eu. }
          destruct HuP as [Hul [n0 [Fn0 Qn0]]].
          destruct Tk as [Tk1 Tk2]. destruct (Tk1 _ _ Fn0) as [n1 [Fn1 [Qn1 _]]].
          destruct Vk as [Vk1 Vk2]. destruct (Vk1 _ _ Fn1) as [np [Fnp [Qnp _]]]. rewrite Fnp.
          assert (E2 : (n_q np =? u_q0 u) = true) by (apply Z.eqb_eq; congruence). rewrite E2. cbn [negb].
          set (enew := new_edge (s_eid cc) (u_nidl u) nid [(u_oid u, cf)]).
          destruct (connect_ok (s_g cc) (nid + 1) (s_eid cc) enew Vg eq_refl) as [g2 Ec]. rewrite Ec.
          eexists. split; [reflexivity|].
          destruct (ginv_connect R (s_g cc) (nid + 1) (s_eid cc) enew g2 nn Vg eq_refl
                      ltac:(cbn; lia) ltac:(cbn; lia) Vn Ec) as [G2 [T2 [I2 [I2n [N2 Q2]]]]].
          pose proof (keep_connect _ _ _ Ec) as Kc. change (e_to enew) with nid in Kc.
          destruct (premove_spec (i, j) (s_rem cc) Vnd) as [Pnd Pin].
          unfold II. cbn [s_g s_nid s_eid s_next s_rem].
          split; [exact G2|]. split; [exact V1|]. split; [exact V2|].
          split; [eapply keep_trans; [split; [exact Vk1|exact Vk2]|exact Kc]|].
          split; [destruct (Q2 nid nn Vn) as [n' [Hn' Hq']]; exists n'; split; [exact Hn'|congruence]|].
          split; [exact Pnd|]. apply (Step _ Pnd Pin). }
      destruct Inner as [c' [Ec' [Vg [V1 [V2 [Vk [[nn [Vn Vq]] [Vnd Vrem]]]]]]]]. exists c'. split; [exact Ec'|].
      rewrite (firstn_all is) in Vrem by reflexivity.
      constructor.
      - rewrite V1. exact Vg.
      - lia.
      - eapply keep_trans; [exact Tk|]. eapply keep_weaken; [|exact Vk]. lia.
      - rewrite V2, V1. apply Forall_app. split.
        + rewrite Forall_forall in *. intros hc Hh. destruct (Tnx hc Hh) as [A B]. split; [lia|].
          apply (entry_ok_keep nid (s_g c) (s_g c') hc Vk); [lia|exact B].
        + constructor; [|constructor]. unfold hv. cbn [fst snd h_nidl h_oids h_qnums]. split; [lia|]. split.
          * exists nn. split; [exact Vn|]. split; [exact Vq|]. left. reflexivity.
          * exists v. split; [eapply nth_error_In; exact Ev|]. rewrite Eq. auto.
      - exact Vnd.
      - intros e. rewrite Vrem. unfold ConsV. rewrite (firstn_S_nth vc n j Hn), in_app_iff. split.
        + intros [A B]. split; [exact A|]. intros [X|[X|[X|[]]]]; apply B; [left; left; exact X|left; right; exact X|].
          right. split; [auto|]. apply Ispec. destruct e as [a b]. simpl in *. subst. exact A.
        + intros [A B]. split; [exact A|]. intros [[X|X]|[X _]]; apply B; [left; exact X|right; left; exact X|right; right; left; auto].
      - intros H. rewrite V2, app_length. simpl. specialize (Tlen H). lia.
      - right. rewrite V2. intros X. apply app_eq_nil in X. destruct X as [_ X]. discriminate.
    Qed.

    (* ---- the whole site step ---- *)
    Hypothesis Hcov : forall e, In e es -> In (fst e) uc \/ In (snd e) vc.
    Hypothesis Hes : es <> [].

    Theorem site_step_ok s : s_g s = g0 -> s_nid s = nb0 -> s_eid s = eb0 ->
      exists s', site_step p (uc, vc) s = Ok s' /\
        ginv R (s_g s') (s_nid s') (s_eid s') /\ nb0 <= s_nid s' /\ keep nb0 g0 (s_g s') /\
        Forall (fun hc => nb0 <= h_nidl (fst hc) < s_nid s' /\ entry_ok (s_g s') hc) (s_next s') /\
        (nv = 1%nat -> (length (s_next s') <= length uc + length vc)%nat) /\ s_next s' <> [].
    Proof.
      intros E1 E2 E3. unfold site_step. cbn [fst snd]. rewrite E1, E2, E3.
      assert (T0 : TI (ConsU 0) 0 (mkst g0 nb0 eb0 [] es)).
      { constructor; cbn [s_g s_nid s_eid s_next s_rem].
        - exact Hg0.
        - lia.
        - apply keep_refl.
        - constructor.
        - apply Hp.
        - intros e. unfold ConsU. simpl. tauto.
        - intros _. simpl. lia.
        - left. reflexivity. }
      destruct (fold_res_ok (u_step p) uc (fun n c => TI (ConsU n) n c) _ T0) as [s1 [Es1 T1]].
      { intros n a b Hn Ha. apply (u_step_ok n b a Hn Ha). }
      rewrite Es1.
      assert (T1' : TI (ConsV 0) (length uc + 0) s1).
      { rewrite Nat.add_0_r. eapply TI_ext; [|exact T1]. intros e _. unfold ConsU, ConsV. rewrite firstn_all. simpl. tauto. }
      destruct (fold_res_ok (v_step p) vc (fun n c => TI (ConsV n) (length uc + n) c) _ T1') as [s2 [Es2 T2]].
      { intros n a b Hn Ha. apply (v_step_ok n b a (length uc) Hn Ha). }
      rewrite Es2. cbn [bind].
      destruct T2 as [Tg Tnb Tk Tnx Tnd Trem Tlen Tne].
      assert (Er : s_rem s2 = []).
      { destruct (s_rem s2) as [|e r] eqn:Er; [reflexivity|]. exfalso.
        assert (H : In e (e :: r)) by (left; reflexivity).
        apply Trem in H. destruct H as [A B]. apply B. unfold ConsV. rewrite firstn_all. apply Hcov. exact A. }
      rewrite Er. exists s2. split; [reflexivity|].
      split; [exact Tg|]. split; [exact Tnb|]. split; [exact Tk|]. split; [exact Tnx|]. split; [exact Tlen|].
      destruct Tne as [X|X]; [|exact X]. rewrite Er in X. exfalso. apply Hes. symmetry. exact X.
    Qed.
  End Site.
End Ok2.
