(* C12 / split_mps_tensor: a boolean form of the hypotheses of [split_mps_spec], sound, so that the non-vacuity Examples
   are closed by evaluation. *)
From Coq Require Import ZArith List Bool Lia Arith Permutation Sorted.
From PT Require Import Base.Scalar Base.Field Base.BigSum Base.Mx Model.Tensor Model.MPSOps Model.BondOps Model.Orthonormalize Model.SplitMps.
From PT Require Import Proofs.BondOpsRetained Proofs.BondOpsSVD Proofs.OrthDefs Proofs.SplitMpsSpec.
Import ListNotations.
Open Scope nat_scope.

Section SBool.
  Variable F : ofield.
  Notation CF := (Cx F).
  Notation mx := (mx CF).
  Notation site := (site CF).

  (* p is a permutation of 0..n-1 that sorts sn ascending *)
  Definition pick_okb (sn : list F) (p : list nat) : bool :=
    let n := length sn in
    Nat.eqb (length p) n && forallb (fun i => existsb (Nat.eqb i) p) (seq 0 n) &&
    forallb (fun a => forallb (fun b => Nat.ltb b a || fleb F (nth (nth a p 0) sn (f0 F)) (nth (nth b p 0) sn (f0 F)))
                              (seq 0 n)) (seq 0 n).

  Lemma pick_okb_sound sn p : pick_okb sn p = true -> pick_ok F sn p.
  Proof.
    unfold pick_okb. rewrite !andb_true_iff, Nat.eqb_eq. intros [[Hl Hs] Ho]. split.
    - apply Permutation_sym. apply NoDup_Permutation_bis.
      + apply seq_NoDup.
      + rewrite seq_length. lia.
      + intros i Hi. rewrite forallb_forall in Hs. specialize (Hs i Hi). apply existsb_exists in Hs.
        destruct Hs as (y & Hy & Ey). apply Nat.eqb_eq in Ey. subst y. exact Hy.
    - intros a b Hab Hb. rewrite forallb_forall in Ho. specialize (Ho a ltac:(apply in_seq; lia)).
      rewrite forallb_forall in Ho. specialize (Ho b ltac:(apply in_seq; lia)).
      apply orb_true_iff in Ho. destruct Ho as [Ho|Ho]; [apply Nat.ltb_lt in Ho; lia|exact Ho].
  Qed.

  Variable dsvd : mx -> mx * list F * mx.
  Variable pick : list F -> list nat.
  Variable ksqrt : F -> F.

  Definition split_hyp_okb (A : site) (qd0 qd1 qD0 qD2 : list Z) (distr : nat) (tol : F) : bool :=
    let d0 := length qd0 in let d1 := length qd1 in let D0 := length qD0 in let D2 := length qD2 in
    let S := block_svd_spectrum F dsvd (split_arg_M A qd0 qd1) (split_arg_q0 qd0 qD0) (split_arg_q1 qd1 qD2) in
    let sg := map (fun i => nth i S (f0 F)) (retained pick S tol) in
    Nat.ltb 0 (d0 * d1) && site_shape (d0 * d1) D0 D2 A && site_qsparse (qflat qd0 qd1) qD0 qD2 A &&
    negb (site_is_zero A) && fleb F (f0 F) tol && negb (fleb F (f1 F) tol) && Nat.leb distr 2 &&
    forallb (fun B => dsvd_okb F B (dsvd B)) (split_mps_calls A qd0 qd1 qD0 qD2) &&
    pick_okb (normsq S) (pick (normsq S)) &&
    (negb (Nat.eqb distr 2) || forallb (fun x => feqb F (fmul F (ksqrt x) (ksqrt x)) x) sg).

  Lemma split_hyp_okb_sound (A : site) qd0 qd1 qD0 qD2 distr tol :
    split_hyp_okb A qd0 qd1 qD0 qD2 distr tol = true ->
    let d0 := length qd0 in let d1 := length qd1 in let D0 := length qD0 in let D2 := length qD2 in
    let S := block_svd_spectrum F dsvd (split_arg_M A qd0 qd1) (split_arg_q0 qd0 qD0) (split_arg_q1 qd1 qD2) in
    let sg := map (fun i => nth i S (f0 F)) (retained pick S tol) in
    0 < d0 * d1 /\ site_shape (d0 * d1) D0 D2 A = true /\ site_qsparse (qflat qd0 qd1) qD0 qD2 A = true /\
    site_is_zero A = false /\ fle F (f0 F) tol /\ flt F tol (f1 F) /\ distr <= 2 /\
    Forall (fun B => dsvd_ok F B (dsvd B)) (split_mps_calls A qd0 qd1 qD0 qD2) /\
    pick_ok F (normsq S) (pick (normsq S)) /\
    (distr = 2 -> forall x, In x sg -> fmul F (ksqrt x) (ksqrt x) = x).
  Proof.
    unfold split_hyp_okb. rewrite !andb_true_iff.
    intros [[[[[[[[[H1 H2] H3] H4] H5] H6] H7] H8] H9] H10]. cbv zeta.
    split; [apply Nat.ltb_lt; exact H1|]. split; [exact H2|]. split; [exact H3|].
    split; [apply negb_true_iff; exact H4|]. split; [exact H5|]. split; [apply negb_true_iff; exact H6|].
    split; [apply Nat.leb_le; exact H7|]. split; [apply (dsvd_ok_forallb F); exact H8|].
    split; [apply pick_okb_sound; exact H9|].
    intros E2 x Hx. subst distr. cbn [Nat.eqb negb orb] in H10. rewrite forallb_forall in H10.
    apply feqb_spec. apply H10. exact Hx.
  Qed.
End SBool.

Arguments pick_okb {F} sn p.
Arguments split_hyp_okb {F} dsvd pick ksqrt A qd0 qd1 qD0 qD2 distr tol.
