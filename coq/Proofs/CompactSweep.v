(* C20: with certified cover answers the sweep of from_opchains creates at most N nodes per site and never more than N
   half-chains, N = number of chains with non-zero coefficient; node ids form consecutive blocks (one per site) and every
   edge goes from one block to the next, so the layers of MPO.from_opgraph have at most N nodes (Proofs/CompactLayers.v). *)
From Coq Require Import ZArith List Lia Bool.
From PT Require Import Base.Scalar Base.BigSum Base.Mx Model.OpGraph Model.Bipartite Model.FromOpchains Model.GraphMPO
                       Model.Rewrites Model.Hamiltonians Model.Compact
                       Proofs.FromOpchainsGraph Proofs.FromOpchainsPart Proofs.FromOpchainsSem
                       Proofs.CompactCount Proofs.CompactLayers.
Import ListNotations.
Open Scope Z_scope.

Lemma fold_res_add {A B} (f : res A -> B -> res A) (mu : A -> Z) (w : B -> Z) :
  (forall e b, f (Err e) b = Err e) ->
  (forall a b a', f (Ok a) b = Ok a' -> mu a' = mu a + w b) ->
  forall l a a', fold_left f l (Ok a) = Ok a' -> mu a' = mu a + fold_right (fun b z => w b + z) 0 l.
Proof.
  intros Hf Hs. induction l as [|b l IH]; simpl; intros a a' H.
  - inversion H; subst. lia.
  - destruct (f (Ok a) b) as [a1|er] eqn:E; [|rewrite fold_res_err in H by exact Hf; discriminate].
    rewrite (IH a1 a' H), (Hs a b a1 E). lia.
Qed.
Lemma fold_right_const {B} (l : list B) : fold_right (fun (_ : B) z => 1 + z) 0 l = Z.of_nat (length l).
Proof. induction l as [|b l IH]; cbn [fold_right length]; [reflexivity|]. rewrite IH. lia. Qed.
Lemma fold_right_list_sum {B} (w : B -> nat) (l : list B) :
  fold_right (fun b z => Z.of_nat (w b) + z) 0 l = Z.of_nat (list_sum (map w l)).
Proof. induction l as [|b l IH]; [reflexivity|]. change (list_sum (map w (b :: l))) with (w b + list_sum (map w l))%nat. cbn [fold_right]. rewrite IH. lia. Qed.

Section Sweep.
  Variable R : cring.
  Notation graph := (graph R).
  Notation st := (st R).
  Notation part := (part R).

  Variable p : part.
  Definition PU (x : Z) : Prop := exists u, In u (p_u p) /\ x = u_nidl u.

  (* what a sequence of steps of one site does to the state *)
  Definition grows (t t' : st) : Prop :=
    s_nid t <= s_nid t' /\ g_t0 (s_g t') = g_t0 (s_g t) /\
    (exists new, g_edges (s_g t') = g_edges (s_g t) ++ new /\
                 Forall (fun e => PU (e_from e) /\ s_nid t <= e_to e < s_nid t') new) /\
    (exists add, s_next t' = s_next t ++ add /\ Forall (fun hc => s_nid t <= h_nidl (fst hc) < s_nid t') add).

  Lemma grows_refl t : grows t t.
  Proof.
    unfold grows. split; [lia|]. split; [reflexivity|]. split; [exists []|exists []]; rewrite app_nil_r; split; auto.
  Qed.
  Lemma grows_trans a b c : grows a b -> grows b c -> grows a c.
  Proof.
    intros [A1 [A2 [[n1 [A3 A4]] [d1 [A5 A6]]]]] [B1 [B2 [[n2 [B3 B4]] [d2 [B5 B6]]]]].
    unfold grows. split; [lia|]. split; [congruence|]. split.
    - exists (n1 ++ n2). split; [rewrite B3, A3, app_assoc; reflexivity|]. apply Forall_app. split.
      + eapply Forall_impl; [|exact A4]. intros e [H1 H2]. split; [exact H1|lia].
      + eapply Forall_impl; [|exact B4]. intros e [H1 H2]. split; [exact H1|lia].
    - exists (d1 ++ d2). split; [rewrite B5, A5, app_assoc; reflexivity|]. apply Forall_app. split.
      + eapply Forall_impl; [|exact A6]. intros e H. cbv beta in *. lia.
      + eapply Forall_impl; [|exact B6]. intros e H. cbv beta in *. lia.
  Qed.

  (* ---- U branch ---- *)
  Lemma u_inner_err i nid e j : u_inner p i nid (Err e) j = Err e. Proof. reflexivity. Qed.
  Lemma u_inner_fold i nid : forall js t t', fold_left (u_inner p i nid) js (Ok t) = Ok t' ->
    s_g t' = s_g t /\ s_nid t' = s_nid t /\
    exists add, s_next t' = s_next t ++ add /\ length add = length js /\ Forall (fun hc => h_nidl (fst hc) = nid) add.
  Proof.
    induction js as [|j js IH]; intros t t' H; cbn [fold_left] in H.
    - inversion H; subst. repeat split. exists []. rewrite app_nil_r. repeat split. constructor.
    - destruct (u_inner p i nid (Ok t) j) as [t1|er] eqn:E; [|rewrite fold_res_err in H by apply u_inner_err; discriminate].
      apply IH in H. destruct H as [H1 [H2 [add [H3 [H4 H5]]]]].
      unfold u_inner in E. cbn [bind] in E. destruct (nth_error (p_v p) j) as [v|]; [|discriminate].
      destruct (gamma_get (i, j) (p_gamma p)) as [c|]; [|discriminate].
      destruct (pmem (i, j) (s_rem t)); [|discriminate]. inversion E; subst t1. cbn [s_g s_nid s_next] in *.
      split; [exact H1|]. split; [exact H2|].
      exists ((mkh (h_oids v) (h_qnums v) nid, c) :: add). split; [rewrite H3, <- app_assoc; reflexivity|].
      split; [simpl; lia|]. constructor; [reflexivity|exact H5].
  Qed.

  Lemma u_step_err e i : u_step p (Err e) i = Err e. Proof. reflexivity. Qed.
  Lemma u_step_facts t i t' : u_step p (Ok t) i = Ok t' ->
    grows t t' /\ s_nid t' = s_nid t + 1 /\
    Z.of_nat (length (s_next t')) = Z.of_nat (length (s_next t)) + Z.of_nat (length (adj_u (p_edges p) i)).
  Proof.
    unfold u_step. cbn [bind]. destruct (nth_error (p_u p) i) as [u|] eqn:Eu; [|discriminate].
    destruct (add_edge (s_g t) _) as [g1|] eqn:E1; [|discriminate].
    destruct (find_node g1 (u_nidl u)) as [np|]; [|discriminate].
    destruct (negb (n_q np =? u_q0 u)); [discriminate|].
    destruct (add_node _ _) as [g2|] eqn:E2; [|discriminate]. intros H.
    apply u_inner_fold in H. cbn [s_g s_nid s_next] in H. destruct H as [H1 [H2 [add [H3 [H4 H5]]]]].
    apply (add_edge_spec R) in E1. destruct E1 as [E1 _]. apply (add_node_spec R) in E2. destruct E2 as [E2 _].
    subst g1. cbn in E2. subst g2.
    split; [|split; [exact H2|rewrite H3, app_length, H4; lia]].
    unfold grows. split; [lia|]. split; [rewrite H1; reflexivity|]. split.
    - eexists. split; [rewrite H1; cbn [g_edges]; reflexivity|]. constructor; [|constructor].
      cbn [e_from e_to new_edge]. split; [exists u; split; [eapply nth_error_In; exact Eu|reflexivity]|lia].
    - exists add. split; [exact H3|]. eapply Forall_impl; [|exact H5]. intros hc E. cbv beta in *. lia.
  Qed.

  (* ---- V branch ---- *)
  Lemma v_inner_err j nid q e i : v_inner p j nid q (Err e) i = Err e. Proof. reflexivity. Qed.
  Lemma v_inner_fold j nid q : forall is t t', fold_left (v_inner p j nid q) is (Ok t) = Ok t' ->
    s_nid t' = s_nid t /\ s_next t' = s_next t /\ g_t0 (s_g t') = g_t0 (s_g t) /\
    exists new, g_edges (s_g t') = g_edges (s_g t) ++ new /\ Forall (fun e => PU (e_from e) /\ e_to e = nid) new.
  Proof.
    induction is as [|i is IH]; intros t t' H; cbn [fold_left] in H.
    - inversion H; subst. repeat split. exists []. rewrite app_nil_r. split; [reflexivity|constructor].
    - destruct (v_inner p j nid q (Ok t) i) as [t1|er] eqn:E; [|rewrite fold_res_err in H by apply v_inner_err; discriminate].
      apply IH in H. destruct H as [H1 [H2 [H3 [new [H4 H5]]]]].
      unfold v_inner in E. cbn [bind] in E. destruct (negb (pmem (i, j) (s_rem t))).
      + inversion E; subst t1. repeat split; auto. exists new. auto.
      + destruct (nth_error (p_u p) i) as [u|] eqn:Eu; [|discriminate].
        destruct (gamma_get (i, j) (p_gamma p)) as [c|]; [|discriminate].
        destruct (negb (u_q1 u =? q)); [discriminate|].
        destruct (find_node (s_g t) (u_nidl u)) as [np|]; [|discriminate].
        destruct (negb (n_q np =? u_q0 u)); [discriminate|].
        destruct (add_connect_edge (s_g t) _) as [g1|] eqn:Ec; [|discriminate]. inversion E; subst t1. clear E.
        cbn [s_g s_nid s_next] in *. unfold add_connect_edge in Ec.
        destruct (add_edge (s_g t) _) as [g0|] eqn:Ea; [|discriminate]. inversion Ec; subst g1. clear Ec.
        apply (add_edge_spec R) in Ea. destruct Ea as [Ea _]. subst g0. cbn [upd_node g_edges g_t0 g_nodes] in *.
        split; [exact H1|]. split; [exact H2|]. split; [exact H3|].
        eexists. split; [rewrite H4, <- app_assoc; reflexivity|]. constructor; [|exact H5].
        cbn [e_from e_to new_edge]. split; [exists u; split; [eapply nth_error_In; exact Eu|reflexivity]|reflexivity].
  Qed.

  Lemma v_step_err e j : v_step p (Err e) j = Err e. Proof. reflexivity. Qed.
  Lemma v_step_facts t j t' : v_step p (Ok t) j = Ok t' ->
    grows t t' /\ s_nid t' = s_nid t + 1 /\ Z.of_nat (length (s_next t')) = Z.of_nat (length (s_next t)) + 1.
  Proof.
    unfold v_step. cbn [bind]. destruct (nth_error (p_v p) j) as [v|]; [|discriminate].
    destruct (h_qnums v) as [|q qs]; [discriminate|].
    destruct (add_node (s_g t) _) as [g1|] eqn:E1; [|discriminate]. intros H.
    apply v_inner_fold in H. cbn [s_g s_nid s_next] in H. destruct H as [H1 [H2 [H3 [new [H4 H5]]]]].
    apply (add_node_spec R) in E1. destruct E1 as [E1 _]. subst g1. cbn [g_edges g_t0] in *.
    split; [|split; [exact H1|rewrite H2, app_length; simpl; lia]].
    unfold grows. split; [lia|]. split; [exact H3|]. split.
    - exists new. split; [exact H4|]. eapply Forall_impl; [|exact H5]. intros e [A B]. split; [exact A|lia].
    - eexists. split; [exact H2|]. constructor; [|constructor]. cbn [fst h_nidl]. lia.
  Qed.

  (* ---- both loops of one site ---- *)
  Lemma site_step_facts (cv : list nat * list nat) s s' : site_step p cv s = Ok s' ->
    let s0 := mkst (s_g s) (s_nid s) (s_eid s) [] (p_edges p) in
    grows s0 s' /\ s_nid s' = s_nid s + Z.of_nat (length (fst cv)) + Z.of_nat (length (snd cv)) /\
    length (s_next s') = (list_sum (map (fun i => length (adj_u (p_edges p) i)) (fst cv)) + length (snd cv))%nat.
  Proof.
    unfold site_step. cbn zeta. set (s0 := mkst (s_g s) (s_nid s) (s_eid s) [] (p_edges p)).
    destruct (fold_left (u_step p) (fst cv) (Ok s0)) as [t1|er] eqn:E1;
      [|rewrite fold_res_err by apply v_step_err; discriminate].
    destruct (fold_left (v_step p) (snd cv) (Ok t1)) as [t2|er] eqn:E2; [|discriminate].
    cbn [bind]. destruct (s_rem t2); [|discriminate]. intros H. inversion H; subst s'. clear H.
    assert (G1 : grows s0 t1).
    { apply (fold_res_inv (u_step p) (fun a => grows s0 a) u_step_err (fst cv) s0 t1 (grows_refl s0)); [|exact E1].
      intros a b a' _ Ha Hs. apply u_step_facts in Hs. eapply grows_trans; [exact Ha|apply Hs]. }
    assert (G2 : grows s0 t2).
    { apply (fold_res_inv (v_step p) (fun a => grows s0 a) v_step_err (snd cv) t1 t2 G1); [|exact E2].
      intros a b a' _ Ha Hs. apply v_step_facts in Hs. eapply grows_trans; [exact Ha|apply Hs]. }
    split; [exact G2|].
    pose proof (fold_res_add (u_step p) (@s_nid R) (fun _ => 1) u_step_err
                  (fun a b a' Hs => proj1 (proj2 (u_step_facts a b a' Hs))) _ _ _ E1) as N1.
    pose proof (fold_res_add (v_step p) (@s_nid R) (fun _ => 1) v_step_err
                  (fun a b a' Hs => proj1 (proj2 (v_step_facts a b a' Hs))) _ _ _ E2) as N2.
    rewrite fold_right_const in N1, N2.
    pose proof (fold_res_add (u_step p) (fun a => Z.of_nat (length (s_next a))) (fun i => Z.of_nat (length (adj_u (p_edges p) i))) u_step_err
                  (fun a b a' Hs => proj2 (proj2 (u_step_facts a b a' Hs))) _ _ _ E1) as L1.
    pose proof (fold_res_add (v_step p) (fun a => Z.of_nat (length (s_next a))) (fun _ => 1) v_step_err
                  (fun a b a' Hs => proj2 (proj2 (v_step_facts a b a' Hs))) _ _ _ E2) as L2.
    rewrite fold_right_const in L2. cbv beta in L1, L2, N1, N2. rewrite (fold_right_list_sum (fun i => length (adj_u (p_edges p) i))) in L1. cbn [s0 s_nid s_next length] in N1, L1.
    split; lia.
  Qed.
End Sweep.

Section Inv.
  Variable R : cring.
  Notation graph := (graph R).
  Notation st := (st R).
  Variable N : nat.

  Record Inv (k : nat) (beta : nat -> Z) (s : st) : Prop := mkInv {
    i_b0 : beta 0%nat = 0;
    i_b1 : beta 1%nat = 1;
    i_mono : forall i j, (i <= j <= S k)%nat -> beta i <= beta j;
    i_top : beta (S k) = s_nid s;
    i_t0 : g_t0 (s_g s) = 0;
    i_edges : forall e, In e (g_edges (s_g s)) -> exists j, (j < k)%nat /\ blk beta j (e_from e) /\ blk beta (S j) (e_to e);
    i_next : forall hc, In hc (s_next s) -> blk beta k (h_nidl (fst hc));
    i_width : forall j, (1 <= j <= k)%nat -> beta (S j) - beta j <= Z.of_nat N;
    i_len : (length (s_next s) <= N)%nat }.

  Lemma p_edges_length : forall (hcs : list (hchain * R)) (p : part R),
    (length (p_edges (fold_left (@part_step R) hcs p)) <= length (p_edges p) + length hcs)%nat.
  Proof.
    induction hcs as [|hc hcs IH]; intros p; cbn [fold_left]; [simpl; lia|].
    eapply Nat.le_trans; [apply IH|]. cbn [length].
    assert (length (p_edges (part_step p hc)) <= S (length (p_edges p)))%nat; [|lia].
    unfold part_step. destruct (index_of unode_eqb _ _); destruct (index_of hchain_eqb _ _);
      unfold p_edges; cbn [p_gamma]; rewrite gamma_add_keys;
      match goal with |- context [pmem ?e ?l] => destruct (pmem e l) end; try rewrite app_length; simpl; lia.
  Qed.

  Lemma site_Inv cover k beta s s' : Inv k beta s ->
    (let '(nu, nv, es) := site_call s in certified nu nv es (cover nu nv es)) ->
    site cover s = Ok s' ->
    exists beta', Inv (S k) beta' s'.
  Proof.
    intros I Hc H. unfold site in H. unfold site_call in Hc. set (p := site_partition (s_next s)) in *.
    destruct (Nat.eqb (length (p_u p)) 0 || Nat.eqb (length (p_v p)) 0); [discriminate|].
    set (cv := cover (length (p_u p)) (length (p_v p)) (p_edges p)) in *.
    destruct Hc as [m Hm]. unfold certifiedb, valid_coverb, matchingb in Hm.
    repeat match goal with H : _ && _ = true |- _ => apply andb_true_iff in H; destruct H end.
    match goal with H : Nat.eqb (length m) _ = true |- _ => apply Nat.eqb_eq in H; rename H into Hlen end.
    match goal with H : nodupn (map snd m) = true |- _ => apply nodupn_NoDup' in H; rename H into Hmv end.
    match goal with H : nodupn (map fst m) = true |- _ => apply nodupn_NoDup' in H; rename H into Hmu end.
    match goal with H : forallb (fun e => pmem e (p_edges p)) m = true |- _ => rename H into Hmes end.
    match goal with H : forallb (fun e => _ || _) (p_edges p) = true |- _ => rename H into Hcov end.
    match goal with H : nodupn (snd cv) = true |- _ => apply nodupn_NoDup' in H; rename H into Hvc end.
    match goal with H : nodupn (fst cv) = true |- _ => apply nodupn_NoDup' in H; rename H into Huc end.
    destruct (site_partition_regroup R (s_next s)) as [[_ Hnd] [_ [HPU _]]]. fold p in Hnd, HPU.
    assert (Hcov' : forall e, In e (p_edges p) -> In (fst e) (fst cv) \/ In (snd e) (snd cv)).
    { intros e He. rewrite forallb_forall in Hcov. specialize (Hcov e He). apply orb_true_iff in Hcov.
      destruct Hcov as [Hx|Hx]; [left|right]; apply nmem_In'; exact Hx. }
    assert (Hmes' : incl m (p_edges p)).
    { intros e He. rewrite forallb_forall in Hmes. apply pmem_In. apply Hmes. exact He. }
    pose proof (cover_le_edges (p_edges p) (fst cv) (snd cv) m Hmes' Hmu Hlen) as C1.
    pose proof (halfchains_le_edges (p_edges p) (fst cv) (snd cv) m Huc Hvc Hcov' Hmes' Hmu Hmv Hlen) as C2.
    assert (C3 : (length (p_edges p) <= length (s_next s))%nat).
    { pose proof (p_edges_length (s_next s) (mkpart [] [] [])) as X. exact X. }
    pose proof (i_len _ _ _ I) as C4.
    apply site_step_facts in H. cbn zeta in H. destruct H as [G [Hnid Hnext]].
    destruct G as [G1 [G2 [[new [G3 G4]] [add [G5 G6]]]]]. cbn [s_g s_nid s_next] in G1, G2, G3, G4, G5, G6.
    assert (HPUb : forall x, PU R p x -> blk beta k x).
    { intros x [u [Hu ->]]. specialize (HPU (fun u => blk beta k (u_nidl u))). rewrite Forall_forall in HPU.
      apply HPU; [|exact Hu]. intros hc Hhc. cbn [split_u u_nidl]. apply (i_next _ _ _ I). exact Hhc. }
    exists (fun j => if Nat.eqb j (S (S k)) then s_nid s' else beta j).
    pose proof (i_top _ _ _ I) as Htop.
    assert (Hb : forall j, (j <= S k)%nat -> (if Nat.eqb j (S (S k)) then s_nid s' else beta j) = beta j).
    { intros j Hj. destruct (Nat.eqb j (S (S k))) eqn:E; [apply Nat.eqb_eq in E; lia|reflexivity]. }
    assert (Hblk : forall j x, (S j <= S k)%nat -> blk beta j x -> blk (fun j => if Nat.eqb j (S (S k)) then s_nid s' else beta j) j x).
    { intros j x Hj B. unfold blk in *. rewrite !Hb by lia. exact B. }
    constructor.
    - rewrite Hb by lia. apply I.
    - rewrite Hb by lia. apply I.
    - intros i j Hij. destruct (Nat.eqb j (S (S k))) eqn:Ej.
      + destruct (Nat.eqb i (S (S k))) eqn:Ei; [lia|]. apply Nat.eqb_neq in Ei.
        pose proof (i_mono _ _ _ I i (S k) ltac:(lia)). lia.
      + apply Nat.eqb_neq in Ej. rewrite Hb by lia. apply (i_mono _ _ _ I). lia.
    - rewrite Nat.eqb_refl. reflexivity.
    - rewrite G2. apply I.
    - intros e He. rewrite G3 in He. apply in_app_or in He. destruct He as [He|He].
      + destruct (i_edges _ _ _ I e He) as [j [Hj [B1 B2]]]. exists j. split; [lia|]. split; apply Hblk; auto; lia.
      + rewrite Forall_forall in G4. destruct (G4 e He) as [P1 P2]. exists k. split; [lia|]. split.
        * apply Hblk; [lia|]. apply HPUb. exact P1.
        * unfold blk. rewrite Hb by lia. rewrite Nat.eqb_refl. lia.
    - intros hc Hhc. rewrite G5 in Hhc. cbn [app] in Hhc. rewrite Forall_forall in G6. specialize (G6 hc Hhc).
      unfold blk. rewrite Hb by lia. rewrite Nat.eqb_refl. lia.
    - intros j Hj. destruct (Nat.eq_dec j (S k)) as [->|Hne].
      + rewrite Nat.eqb_refl. rewrite Hb by lia. lia.
      + rewrite !Hb by lia. apply (i_width _ _ _ I). lia.
    - lia.
  Qed.

  Lemma sweep_Inv cover : forall n k beta s s', Inv k beta s -> calls_certified cover n s -> sweep cover n s = Ok s' ->
    exists beta', Inv (k + n) beta' s'.
  Proof.
    induction n as [|n IH]; intros k beta s s' I Hc H; cbn [sweep] in H.
    - inversion H; subst. exists beta. rewrite Nat.add_0_r. exact I.
    - cbn [calls_certified] in Hc. destruct Hc as [Hc1 Hc2].
      destruct (site cover s) as [s1|] eqn:E; [|discriminate]. cbn [bind] in H.
      destruct (site_Inv cover k beta s s1 I Hc1 E) as [b1 I1].
      destruct (IH (S k) b1 s1 s' I1 Hc2 H) as [b2 I2]. exists b2. replace (k + S n)%nat with (S k + n)%nat by lia. exact I2.
  Qed.

  Lemma finish_edges (s : st) g : finish s = Ok g ->
    g_t0 g = g_t0 (s_g s) /\
    forall e, In e (g_edges g) -> exists e0, In e0 (g_edges (s_g s)) /\ e_from e = e_from e0 /\ e_to e = e_to e0.
  Proof.
    unfold finish. destruct (s_next s) as [|[h c] [|? ?]]; try discriminate.
    destruct (keqb R c (k1 R)); cbn [bind].
    - intros H. inversion H; subst. cbn. split; [reflexivity|]. intros e He. exists e. auto.
    - unfold absorb. destruct (find_node (s_g s) (h_nidl h)) as [n|]; [|discriminate].
      destruct (n_in n) as [|eid [|? ?]]; try discriminate.
      destruct (find_edge (s_g s) eid); [|discriminate]. cbn [bind]. intros H. inversion H; subst. cbn.
      split; [reflexivity|]. intros e He. apply in_map_iff in He. destruct He as [e0 [E He0]]. exists e0. split; [exact He0|].
      destruct (e_id e0 =? eid); subst e; cbn; auto.
  Qed.
End Inv.

Section Main.
  Variable R : cring.
  Notation chain := (chain R).

  Lemma pad_all_length L idn : forall (l l' : list chain), pad_all L idn l = Ok l' -> length l' = length l.
  Proof.
    induction l as [|c l IH]; intros l' H; simpl in H; [inversion H; reflexivity|].
    destruct (padded L idn c); [|discriminate]. cbn [bind] in H. destruct (pad_all L idn l) as [t|]; [|discriminate].
    cbn [bind] in H. inversion H; subst. simpl. f_equal. apply IH. reflexivity.
  Qed.

  (* C20 main bound: certified covers => every layer width <= number of chains with non-zero coefficient *)
  Theorem opchains_bond_le_chains cover (chains : list chain) L idn g ws :
    (forall s0, start_state chains L idn = Some s0 -> calls_certified cover L s0) ->
    from_opchains cover chains L idn = Ok g -> bond_dims g = Some ws ->
    Forall (fun w => (w <= nz_count chains)%nat) ws /\ (length ws <= L + 1)%nat.
  Proof.
    intros Hc H Hw. unfold from_opchains in H.
    destruct (negb (forallb (@chain_ok R) chains)); [discriminate|].
    destruct chains as [|c0 ct] eqn:Ech; [discriminate|]. rewrite <- Ech in *. clear Ech c0 ct.
    unfold start_state in Hc.
    destruct (pad_all L idn (filter (@nonzero R) chains)) as [cs|] eqn:Ep; [|discriminate]. cbn [bind] in H.
    specialize (Hc _ eq_refl).
    destruct (sweep cover L (mkst init_graph 1 0 (init_next idn cs) [])) as [s|] eqn:Es; [|discriminate]. cbn [bind] in H.
    set (N := nz_count chains).
    assert (HN : length cs = N) by (apply pad_all_length in Ep; exact Ep).
    assert (I0 : Inv R N 0 (fun j => if Nat.eqb j 0 then 0 else 1) (mkst init_graph 1 0 (init_next idn cs) [])).
    { constructor; cbn; try reflexivity.
      - intros i j Hij. destruct i, j; simpl; lia.
      - intros e [].
      - intros hc Hhc. unfold init_next in Hhc. apply in_map_iff in Hhc. destruct Hhc as [c [<- _]]. unfold blk. cbn. lia.
      - intros j Hj. lia.
      - unfold init_next. rewrite map_length. lia. }
    destruct (sweep_Inv R N cover L 0%nat _ _ s I0 Hc Es) as [beta I]. cbn [plus] in I.
    destruct (finish_edges R s g H) as [F1 F2].
    assert (N1 : (1 <= N)%nat).
    { pose proof (i_len _ _ _ _ _ I) as Hl. unfold finish in H. destruct (s_next s) as [|[h c] [|? ?]]; try discriminate. simpl in Hl. lia. }
    destruct (bond_dims_le R beta L N (i_mono _ _ _ _ _ I) (i_width _ _ _ _ _ I) g) with (ws := ws) as [ws' [E1 [E2 E3]]].
    - intros e He. destruct (F2 e He) as [e0 [He0 [Ef Et]]]. rewrite Ef, Et. apply (i_edges _ _ _ _ _ I). exact He0.
    - rewrite F1, (i_t0 _ _ _ _ _ I), (i_b0 _ _ _ _ _ I), (i_b1 _ _ _ _ _ I). lia.
    - exact Hw.
    - subst ws. split; [constructor; [exact N1|exact E2]|simpl; lia].
  Qed.
End Main.
