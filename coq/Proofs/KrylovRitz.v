(* eigh_krylov: Ritz vectors are orthonormal with the Ritz values as Rayleigh quotients; Ritz bounds. *)
From Coq Require Import ZArith List Bool Arith Lia Ring Field.
From PT Require Import Base.Scalar Base.Field Base.BigSum Base.Mx Model.Krylov Proofs.KrylovVec Proofs.KrylovLanczos
  Proofs.KrylovArnoldi Proofs.KrylovMatvec Proofs.KrylovExpm.
Import ListNotations.

Section Ritz.
  Variable F : ofield.
  Notation K := (Cx F).
  Add Field Ffield_kr : (f_ft F).
  Add Ring Kring_kr : (k_rt (Cx F)).
  Notation vec := (list K).
  Notation "0" := (k0 K). Notation "1" := (k1 K).
  Infix "+" := (kadd K). Infix "*" := (kmul K).
  Notation conj := (kconj K).
  Variable n : nat.
  Notation vat := (vat F).
  Notation orthonormal := (orthonormal F n).
  Notation delta := (delta F).
  Notation uent U i j := (nth j (nth i U []) (f0 F)).
  Variable Afunc : vec -> vec.

  (* linearity of the map on vectors of length n (needed for Rayleigh quotients of combinations) *)
  Definition linear : Prop :=
    (forall x y : vec, length x = n -> length y = n -> Afunc (vadd x y) = vadd (Afunc x) (Afunc y)) /\
    (forall c (x : vec), length x = n -> Afunc (cscale c x) = cscale c (Afunc x)) /\
    Afunc (vzero n) = vzero n.

  (* contract of eigh_tridiagonal(alpha, beta) = (w, U): U k x k real with U^T U = I and T U = U diag(w) *)
  Definition eigh_ok (k : nat) (al be : list F) (wU : list F * list (list F)) : Prop :=
    let '(w, U) := wU in
    length w = k /\ length U = k /\ (forall i, i < k -> length (nth i U []) = k) /\
    (forall p q, p < k -> q < k -> sumn k (fun i => cof (uent U i p) * cof (uent U i q)) = delta p q) /\
    (forall i q, i < k -> q < k ->
       sumn k (fun j => tri F al be i j * cof (uent U j q)) = cof (fmul F (uent U i q) (nth q w (f0 F)))).

  Lemma nth_ucol (U : list (list F)) q i : i < length U -> nth i (ucol U q) 0 = cof (uent U i q).
  Proof.
    intros Hi. unfold ucol.
    rewrite (nth_indep _ 0 ((fun row : list F => @cof F (nth q row (f0 F))) [])) by (rewrite map_length; exact Hi).
    apply (map_nth (fun row : list F => @cof F (nth q row (f0 F)))).
  Qed.
  Lemma length_ucol (U : list (list F)) q : length (ucol U q) = length U.
  Proof. unfold ucol. apply map_length. Qed.

  (* <sum c_i v_i, sum d_j y_j> = sum_i sum_j conj(c_i) d_j <v_i, y_j> *)
  Lemma vdot_lincomb2 (Vs Ys : list vec) cs ds k : length Vs = k -> length Ys = k -> length cs = k -> length ds = k ->
    (forall v, In v Vs -> length v = n) -> (forall y, In y Ys -> length y = n) ->
    vdot (lincomb n cs Vs) (lincomb n ds Ys) =
    sumn k (fun i => sumn k (fun j => (conj (nth i cs 0) * nth j ds 0) * vdot (nth i Vs []) (nth j Ys []))).
  Proof.
    intros HV HY Hc Hd LV LY. rewrite (vdot_lincomb_l F n) by (try exact LV; lia). rewrite HV.
    apply (sumn_ext (Cx F)). intros i Hi. rewrite (vdot_lincomb_r F n) by (try exact LY; lia). rewrite HY.
    rewrite <- sumn_scal_l. apply (sumn_ext (Cx F)). intros j Hj. ring.
  Qed.

  Hypothesis A_len : maps_len F n Afunc.
  Hypothesis A_lin : linear.

  Lemma Afunc_lincomb cs (Vs : list vec) : (forall v, In v Vs -> length v = n) ->
    Afunc (lincomb n cs Vs) = lincomb n cs (map Afunc Vs).
  Proof.
    destruct A_lin as (Hadd & Hsc & Hz). intros HL. revert cs; induction Vs as [|v Vs IH]; intros [|c cs]; cbn [lincomb map]; try exact Hz.
    assert (Lv : length v = n) by (apply HL; left; reflexivity).
    rewrite Hadd; [|apply length_cscale; exact Lv|apply length_lincomb; intros u Hu; apply HL; right; exact Hu].
    rewrite Hsc by exact Lv. rewrite IH by (intros u Hu; apply HL; right; exact Hu). reflexivity.
  Qed.

  (* ---- Ritz vectors ---- *)
  Section WithLanczosOutput.
    Variables (al be : list F) (Vs : list vec) (w : list F) (U : list (list F)) (k : nat).
    Hypothesis Ho : orthonormal Vs.
    Hypothesis HV : length Vs = k.
    Hypothesis Htri : forall i j, i < k -> j < k -> vdot (vat Vs i) (Afunc (vat Vs j)) = tri F al be i j.
    Hypothesis HE : eigh_ok k al be (w, U).

    Definition ritz (q : nat) : vec := lincomb n (ucol U q) Vs.

    Lemma length_ritz q : length (ritz q) = n.
    Proof. apply length_lincomb. apply (orth_all F n). exact Ho. Qed.

    Lemma ritz_gram p q : p < k -> q < k -> vdot (ritz p) (ritz q) = delta p q.
    Proof.
      intros Hp Hq. destruct HE as (Hw & HU & Hrow & Hcols & HT). pose proof Ho as [Hl Hd]. unfold ritz.
      rewrite (vdot_lincomb2 Vs Vs _ _ k) by (try exact HV; try (rewrite length_ucol; exact HU); apply (orth_all F n); exact Ho).
      rewrite <- (Hcols p q Hp Hq). apply (sumn_ext (Cx F)). intros i Hi.
      transitivity (sumn k (fun j => (cof (uent U i p) * cof (uent U j q)) * (if Nat.eqb j i then 1 else 0))).
      - apply (sumn_ext (Cx F)). intros j Hj. rewrite !nth_ucol by lia. rewrite conj_cof.
        fold (vat Vs i). fold (vat Vs j). rewrite Hd by lia. unfold KrylovLanczos.delta. rewrite (Nat.eqb_sym i j). reflexivity.
      - apply (sumn_delta_r (Cx F) k i (fun j => cof (uent U i p) * cof (uent U j q))). exact Hi.
    Qed.

    Lemma ritz_rayleigh p q : p < k -> q < k ->
      vdot (ritz p) (Afunc (ritz q)) = delta p q * cof (nth q w (f0 F)).
    Proof.
      intros Hp Hq. destruct HE as (Hw & HU & Hrow & Hcols & HT). pose proof Ho as [Hl Hd]. unfold ritz.
      rewrite Afunc_lincomb by (apply (orth_all F n); exact Ho).
      rewrite (vdot_lincomb2 Vs (map Afunc Vs) _ _ k);
        try exact HV; try (rewrite length_ucol; exact HU); try (rewrite map_length; exact HV); try (apply (orth_all F n); exact Ho).
      2:{ intros y Hy. apply in_map_iff in Hy. destruct Hy as (x & <- & Hx). apply A_len. apply (orth_all F n Vs Ho). exact Hx. }
      transitivity (sumn k (fun i => cof (uent U i p) * (cof (uent U i q) * cof (nth q w (f0 F))))).
      - apply (sumn_ext (Cx F)). intros i Hi. rewrite <- cof_mul, <- (HT i q Hi Hq). rewrite <- sumn_scal_l.
        apply (sumn_ext (Cx F)). intros j Hj. rewrite !nth_ucol by lia. rewrite conj_cof.
        rewrite (nth_indep (map Afunc Vs) [] (Afunc [])) by (rewrite map_length; lia). rewrite map_nth.
        fold (vat Vs i). fold (vat Vs j). rewrite Htri by assumption. ring.
      - rewrite <- (Hcols p q Hp Hq). rewrite <- sumn_scal_r. apply (sumn_ext (Cx F)). intros i Hi. ring.
    Qed.
  End WithLanczosOutput.

  (* ---- the model function ---- *)
  Variable dnorm : vec -> F.
  Variable small : F -> bool.
  Variable deigh : list F -> list F -> list F * list (list F).
  Hypothesis A_sa : self_adjoint F n Afunc.
  Hypothesis small_pos : small_sound F small.

  Definition eigh_oracle_ok (v : vec) (m : nat) : Prop :=
    forall al be (Vs : list vec) wn, lanczos F Afunc dnorm small v m = Some (al, be, Vs, wn) ->
      eigh_ok (length Vs) al be (deigh al be).

  Definition ritz_post (m numeig : nat) (ws : list F) (us : list vec) : Prop :=
    length us <= numeig /\ length us <= m /\ length ws = length us /\
    (forall q, q < length us -> length (nth q us []) = n) /\
    (forall p q, p < length us -> q < length us -> vdot (nth p us []) (nth q us []) = delta p q) /\
    (forall q, q < length us -> vdot (nth q us []) (Afunc (nth q us [])) = cof (nth q ws (f0 F))) /\
    (forall lam, (forall x : vec, length x = n -> fle F (fmul F lam (nrm2 x)) (cre (vdot x (Afunc x)))) ->
       forall q, q < length us -> fle F lam (nth q ws (f0 F))).

  Lemma ritz_core m numeig al be (Vs : list vec) wn w U :
    lanczos_post F n Afunc m (al, be, Vs, wn) -> eigh_ok (length Vs) al be (w, U) ->
    ritz_post m numeig (firstn numeig w) (map (fun q => lincomb n (ucol U q) Vs) (seq 0 (Nat.min numeig (ncols U)))).
  Proof.
    intros HP HE.
    pose proof (lanczos_tridiag F n Afunc A_sa m al be Vs wn HP) as Htri.
    destruct HP as (H1 & Hkm & _ & _ & _ & Ho & _).
    pose proof HE as (Hw & HU & Hrow & Hcols & HT).
    assert (Hnc : ncols U = length Vs).
    { unfold ncols. destruct U as [|r0 U']; [cbn [length] in HU; lia|]. apply (Hrow 0%nat). lia. }
    rewrite Hnc. set (kk := Nat.min numeig (length Vs)).
    assert (Hkk : kk <= length Vs) by (unfold kk; lia).
    assert (Hnth : forall q, q < kk -> nth q (map (fun q => lincomb n (ucol U q) Vs) (seq 0 kk)) [] = ritz Vs U q).
    { intros q Hq. apply nth_map_seq. exact Hq. }
    assert (Hws : forall q, q < kk -> nth q (firstn numeig w) (f0 F) = nth q w (f0 F)).
    { intros q Hq. rewrite <- (firstn_skipn numeig w) at 2. rewrite app_nth1; [reflexivity|].
      rewrite firstn_length. unfold kk in Hq. lia. }
    unfold ritz_post. rewrite map_length, seq_length.
    assert (Hray : forall q, q < kk -> vdot (ritz Vs U q) (Afunc (ritz Vs U q)) = cof (nth q w (f0 F))).
    { intros q Hq. rewrite (ritz_rayleigh al be Vs w U (length Vs) Ho eq_refl Htri HE q q) by lia.
      rewrite delta_refl. ring. }
    split; [unfold kk; lia|]. split; [unfold kk; lia|]. split; [rewrite firstn_length; unfold kk; lia|].
    split; [|split; [|split]].
    - intros q Hq. rewrite Hnth by exact Hq. apply length_ritz. exact Ho.
    - intros p q Hp Hq. rewrite !Hnth by assumption. apply (ritz_gram al be Vs w U (length Vs) Ho eq_refl HE); lia.
    - intros q Hq. rewrite Hnth, Hws by exact Hq. apply Hray. exact Hq.
    - intros lam Hlam q Hq. rewrite Hws by exact Hq.
      pose proof (Hlam (ritz Vs U q) (length_ritz Vs U Ho q)) as Hb. rewrite Hray in Hb by exact Hq. rewrite cre_cof in Hb.
      assert (E1 : nrm2 (ritz Vs U q) = f1 F).
      { apply cof_inj. rewrite <- vdot_self. rewrite (ritz_gram al be Vs w U (length Vs) Ho eq_refl HE q q) by lia. apply delta_refl. }
      rewrite E1 in Hb. eapply fle_eq; [| |exact Hb]; [ring|reflexivity].
  Qed.

  (* every returned Ritz pair: orthonormal vectors of length n, Rayleigh quotient = Ritz value;
     hence every Ritz value lies above every lower bound of the Rayleigh quotients of A *)
  Theorem ritz_vectors (v : vec) (m numeig : nat) : length v = n -> v <> vzero n -> 1 <= m ->
    Forall (norm_ok F) (lanczos_calls F Afunc dnorm small v m) -> eigh_oracle_ok v m ->
    exists ws us, eigh_krylov F Afunc dnorm small deigh v m numeig = Some (ws, us) /\ ritz_post m numeig ws us.
  Proof.
    intros Hv Hnz Hm HC HO.
    destruct (lanczos_spec F n Afunc dnorm small A_len A_sa small_pos v m Hv Hnz Hm HC) as (r & Hr & HP & _).
    destruct r as [[[al be] Vs] wn]. pose proof (HO al be Vs wn Hr) as HE.
    unfold eigh_krylov. rewrite Hr. destruct (deigh al be) as [w U] eqn:ED.
    eexists. eexists. split; [reflexivity|]. rewrite Hv. exact (ritz_core m numeig al be Vs wn w U HP HE).
  Qed.

  (* ---- upper bound: the lowest Ritz value is at most the Rayleigh quotient of the start vector ---- *)
  Fixpoint fsum (k : nat) (f : nat -> F) : F := match k with O => f0 F | S k' => fadd F (fsum k' f) (f k') end.
  Lemma cof_fsum k f : cof (fsum k f) = @sumn (Cx F) k (fun i => cof (f i)).
  Proof. induction k as [|k IH]; cbn [fsum sumn]; [reflexivity|]. rewrite cof_add, IH. reflexivity. Qed.
  Lemma fsum_le k f g : (forall i, i < k -> fle F (f i) (g i)) -> fle F (fsum k f) (fsum k g).
  Proof.
    induction k as [|k IH]; intros H; cbn [fsum]; [apply fle_refl|].
    apply fle_add_compat; [apply IH; intros i Hi; apply H; lia|apply H; lia].
  Qed.
  Lemma fsum_scal k c f : fsum k (fun i => fmul F (f i) c) = fmul F (fsum k f) c.
  Proof. induction k as [|k IH]; cbn [fsum]; [ring|]. rewrite IH. ring. Qed.

  (* additional contract: eigenvalues ascending (only w_0 <= w_q is used) and (U U^T) row 0 = e_0 *)
  Definition eigh_sorted (k : nat) (wU : list F * list (list F)) : Prop :=
    let '(w, U) := wU in
    (forall q, q < k -> fle F (nth 0 w (f0 F)) (nth q w (f0 F))) /\
    (forall j, j < k -> sumn k (fun q => cof (uent U j q) * cof (uent U 0 q)) = delta j 0).

  Lemma ritz_min_le_alpha0 k al be w U : 0 < k -> eigh_ok k al be (w, U) -> eigh_sorted k (w, U) ->
    fle F (nth 0 w (f0 F)) (fat F al 0).
  Proof.
    intros Hk (Hw & HU & Hrow & Hcols & HT) (Hsort & Hrow0).
    assert (E : cof (fat F al 0) = cof (fsum k (fun q => fmul F (fmul F (uent U 0 q) (uent U 0 q)) (nth q w (f0 F))))).
    { rewrite cof_fsum. change (cof (fat F al 0)) with (tri F al be 0 0).
      transitivity (sumn k (fun j => tri F al be 0 j * delta j 0)).
      - symmetry. transitivity (sumn k (fun j => tri F al be 0 j * (if Nat.eqb j 0 then 1 else 0))).
        + apply (sumn_ext (Cx F)). intros j Hj. reflexivity.
        + apply (sumn_delta_r (Cx F) k 0 (fun j => tri F al be 0 j)). exact Hk.
      - transitivity (sumn k (fun j => sumn k (fun q => (tri F al be 0 j * cof (uent U j q)) * cof (uent U 0 q)))).
        + apply (sumn_ext (Cx F)). intros j Hj. rewrite <- (Hrow0 j Hj), <- sumn_scal_l.
          apply (sumn_ext (Cx F)). intros q Hq. ring.
        + rewrite sumn_exch. apply (sumn_ext (Cx F)). intros q Hq. rewrite sumn_scal_r, (HT 0%nat q Hk Hq), <- !cof_mul.
          apply (f_equal (@cof F)). ring. }
    apply cof_inj in E. rewrite E.
    assert (E1 : fsum k (fun q => fmul F (uent U 0 q) (uent U 0 q)) = f1 F).
    { apply cof_inj. rewrite cof_fsum.
      transitivity (sumn k (fun q => cof (uent U 0 q) * cof (uent U 0 q))).
      - apply (sumn_ext (Cx F)). intros q Hq. apply cof_mul.
      - rewrite (Hrow0 0%nat Hk). apply (delta_refl F). }
    eapply fle_eq; [| reflexivity |apply (fsum_le k (fun q => fmul F (fmul F (uent U 0 q) (uent U 0 q)) (nth 0 w (f0 F))))].
    - rewrite fsum_scal, E1. ring.
    - intros q Hq. cbv beta.
      eapply fle_eq; [| |apply (fle_mul_nonneg_compat F _ _ (fmul F (uent U 0 q) (uent U 0 q)) (fsq_nonneg F _) (Hsort q Hq))]; ring.
  Qed.

  Lemma vdivr_rscale (x : vec) r : vdivr x r = rscale (finv F r) x.
  Proof. unfold vdivr, rscale, cscale. apply map_ext. intros z. apply cdivr_mul. Qed.

  Definition eigh_oracle_sorted (v : vec) (m : nat) : Prop :=
    forall al be (Vs : list vec) wn, lanczos F Afunc dnorm small v m = Some (al, be, Vs, wn) ->
      eigh_sorted (length Vs) (deigh al be).

  Lemma ritz_upper_core m al be (Vs : list vec) wn w U (v : vec) :
    lanczos_post F n Afunc m (al, be, Vs, wn) -> vat Vs 0 = vdivr v (dnorm v) -> length v = n ->
    norm_ok F (v, dnorm v) -> dnorm v <> f0 F ->
    eigh_ok (length Vs) al be (w, U) -> eigh_sorted (length Vs) (w, U) ->
    1 <= length w /\ fle F (fmul F (nth 0 w (f0 F)) (nrm2 v)) (cre (vdot v (Afunc v))).
  Proof.
    intros HP H0 Hv [Hc1 Hc2] Hne HE HSo. cbn [fst snd] in Hc1, Hc2.
    pose proof (lanczos_tridiag F n Afunc A_sa m al be Vs wn HP) as Htri.
    destruct HP as (H1 & _). pose proof HE as (Hw & _). split; [lia|].
    pose proof (ritz_min_le_alpha0 (length Vs) al be w U ltac:(lia) HE HSo) as Hle.
    pose proof (Htri 0%nat 0%nat ltac:(lia) ltac:(lia)) as Ht. rewrite H0 in Ht.
    destruct A_lin as (_ & Hsc & _).
    rewrite vdivr_rscale in Ht. unfold rscale in Ht. rewrite Hsc in Ht by exact Hv.
    rewrite vdot_cscale_l, vdot_cscale_r, conj_cof in Ht. change (tri F al be 0 0) with (cof (fat F al 0)) in Ht.
    assert (Ev : vdot v (Afunc v) = cof (fmul F (fat F al 0) (nrm2 v))).
    { rewrite cof_mul, <- Ht, <- Hc2, cof_mul.
      transitivity ((cof (dnorm v) * cof (finv F (dnorm v))) * (cof (dnorm v) * cof (finv F (dnorm v))) * vdot v (Afunc v)); [|ring].
      rewrite <- cof_mul. replace (fmul F (dnorm v) (finv F (dnorm v))) with (f1 F) by (field; exact Hne).
      change (cof (f1 F)) with 1. ring. }
    rewrite Ev, cre_cof. apply fle_mul_nonneg_compat; [apply nrm2_nonneg|exact Hle].
  Qed.

  (* theta_min * <v,v> <= <v, A v> *)
  Theorem ritz_upper_bound (v : vec) (m numeig : nat) : length v = n -> v <> vzero n -> 1 <= m -> 1 <= numeig ->
    Forall (norm_ok F) (lanczos_calls F Afunc dnorm small v m) -> eigh_oracle_ok v m -> eigh_oracle_sorted v m ->
    exists ws us, eigh_krylov F Afunc dnorm small deigh v m numeig = Some (ws, us) /\ 1 <= length ws /\
      fle F (fmul F (nth 0 ws (f0 F)) (nrm2 v)) (cre (vdot v (Afunc v))).
  Proof.
    intros Hv Hnz Hm Hq HC HO HS.
    destruct (lanczos_spec F n Afunc dnorm small A_len A_sa small_pos v m Hv Hnz Hm HC) as (r & Hr & HP & H0).
    destruct r as [[[al be] Vs] wn]. pose proof (HO al be Vs wn Hr) as HE. pose proof (HS al be Vs wn Hr) as HSo.
    cbn [fst snd] in H0.
    unfold eigh_krylov. rewrite Hr. destruct (deigh al be) as [w U] eqn:ED.
    eexists. eexists. split; [reflexivity|].
    assert (Hc : norm_ok F (v, dnorm v)) by (unfold lanczos_calls in HC; inversion HC; assumption).
    assert (Hne : dnorm v <> f0 F).
    { intros E. destruct Hc as [_ Hc2]. cbn [fst snd] in Hc2. rewrite E in Hc2. apply Hnz. rewrite <- Hv. apply nrm2_zero. rewrite <- Hc2. ring. }
    destruct (ritz_upper_core m al be Vs wn w U v HP H0 Hv Hc Hne HE HSo) as [Hlw Hb].
    assert (E0 : nth 0 (firstn numeig w) (f0 F) = nth 0 w (f0 F)).
    { destruct numeig; [lia|]. destruct w; reflexivity. }
    rewrite E0. split; [|exact Hb]. rewrite firstn_length. lia.
  Qed.
End Ritz.

(* the matrix-vector product used by the correspondence check is linear *)
Section MatvecLinear.
  Variable F : ofield.
  Notation K := (Cx F).
  Add Ring Kring_kml : (k_rt (Cx F)).
  Notation vec := (list K).

  Lemma dotu_add_r (r x y : vec) : length x = length y -> dotu r (vadd x y) = kadd K (dotu r x) (dotu r y).
  Proof.
    revert x y; induction r as [|a r IH]; intros [|b x] [|c y] H; cbn [dotu vadd zipw length] in *; try discriminate; try ring.
    fold (vadd x y). rewrite IH by lia. ring.
  Qed.
  Lemma dotu_cscale_r c (r x : vec) : dotu r (cscale c x) = kmul K c (dotu r x).
  Proof.
    revert x; induction r as [|a r IH]; intros [|b x]; cbn [dotu cscale map]; try ring.
    fold (cscale c x). rewrite IH. ring.
  Qed.
  Lemma dotu_zero_r n (r : vec) : dotu r (vzero n) = k0 K.
  Proof.
    revert n; induction r as [|a r IH]; intros [|n]; cbn [dotu vzero repeat]; try reflexivity.
    fold (@vzero F n). rewrite IH. ring.
  Qed.

  Lemma matvec_linear n (A : list vec) : length A = n -> linear F n (matvec A).
  Proof.
    intros HA. split; [|split].
    - intros x y Hx Hy. clear HA. induction A as [|r A IH]; [reflexivity|].
      cbn [matvec map vadd zipw]. fold (matvec A (vadd x y)). fold (matvec A x). fold (matvec A y).
      fold (vadd (matvec A x) (matvec A y)). rewrite IH. f_equal. apply dotu_add_r. congruence.
    - intros c x Hx. clear HA. induction A as [|r A IH]; [reflexivity|].
      cbn [matvec map cscale]. fold (matvec A (cscale c x)). fold (matvec A x). fold (cscale c (matvec A x)).
      rewrite IH. f_equal. apply dotu_cscale_r.
    - subst n. generalize (length A) at 1. intros m. induction A as [|r A IH]; [reflexivity|].
      cbn [matvec map length]. fold (matvec A (vzero m)). rewrite dotu_zero_r, IH. reflexivity.
  Qed.
End MatvecLinear.
