(* Soundness of the boolean check that ties the source-derived write-set table to [desc_of]. *)
From Coq Require Import List Arith Bool Lia.
From PT Require Import Model.Alias Model.AliasStatic.
Import ListNotations.

Lemma kind_eqb_eq a b : kind_eqb a b = true <-> a = b.
Proof.
  destruct a as [|i], b as [|j]; simpl; split; intros H; try reflexivity; try discriminate.
  - apply Nat.eqb_eq in H. subst. reflexivity.
  - injection H as H. subst. apply Nat.eqb_refl.
Qed.

Lemma op_index_inj a b : op_index a = op_index b -> a = b.
Proof. destruct a, b; simpl; intros H; try reflexivity; discriminate H. Qed.

Lemma opname_eqb_eq a b : opname_eqb a b = true <-> a = b.
Proof.
  unfold opname_eqb. rewrite Nat.eqb_eq. split.
  - apply op_index_inj.
  - intros H. subst. reflexivity.
Qed.

Lemma all_ops_complete : forall o, In o all_ops.
Proof. intros o. destruct o; simpl; tauto. Qed.

Lemma all_ops_nodup : NoDup all_ops.
Proof.
  apply (NoDup_map_inv op_index). vm_compute.
  repeat (constructor; [simpl; intros H; repeat (destruct H as [H|H]; [discriminate H|]); exact H|]).
  constructor.
Qed.

Lemma row_ok_spec r : row_ok r = true -> kind_of_writes (snd r) = Some (desc_of (fst r)).
Proof.
  unfold row_ok. destruct (kind_of_writes (snd r)) as [k|]; intros H; [|discriminate].
  apply kind_eqb_eq in H. subst. reflexivity.
Qed.

Lemma lookup_rows t o :
  forallb row_ok t = true -> covers t o = true -> lookup t o = Some (desc_of o).
Proof.
  induction t as [|r t IH]; simpl; intros Hrows Hcov; [discriminate|].
  apply andb_true_iff in Hrows. destruct Hrows as [Hr Ht].
  destruct (opname_eqb (fst r) o) eqn:E.
  - apply opname_eqb_eq in E. subst o. apply row_ok_spec. exact Hr.
  - simpl in Hcov. apply IH; assumption.
Qed.

(* if the check succeeds, the table assigns to EVERY operation exactly its descriptor ... *)
Lemma static_table_sound t : static_check t = true -> forall o, lookup t o = Some (desc_of o).
Proof.
  unfold static_check. intros H o. apply andb_true_iff in H. destruct H as [Hrows Hcov].
  apply lookup_rows; [exact Hrows|].
  rewrite forallb_forall in Hcov. apply Hcov. apply all_ops_complete.
Qed.

(* ... and every row (not only the first one of an operation) carries that descriptor: for each concrete function
   behind operation o the derived write-set is [] when desc_of o = KPure and [k] when desc_of o = KInPlace k *)
Lemma static_rows_sound t : static_check t = true ->
  forall o w, In (o, w) t ->
    match desc_of o with KPure => w = Some [] | KInPlace k => w = Some [k] end.
Proof.
  unfold static_check. intros H o w Hin. apply andb_true_iff in H. destruct H as [Hrows _].
  rewrite forallb_forall in Hrows. specialize (Hrows _ Hin). apply row_ok_spec in Hrows. simpl in Hrows.
  destruct w as [[|a [|b l]]|]; simpl in Hrows; try discriminate;
    injection Hrows as Hrows; rewrite <- Hrows; reflexivity.
Qed.

(* an operation whose rows all have an empty derived write-set emits, under [allowed], no targeted event *)
Lemma static_pure_no_target t : static_check t = true ->
  forall o operands e, lookup t o = Some KPure -> allowed (desc_of o) operands e = true -> target_of e = None.
Proof.
  intros H o operands e Hl Ha. rewrite (static_table_sound t H o) in Hl. injection Hl as Hl.
  rewrite Hl in Ha. unfold allowed in Ha. destruct (target_of e); [discriminate|reflexivity].
Qed.
